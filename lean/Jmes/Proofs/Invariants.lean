/-
  Invariants of the evaluator model (helpers for properties C18 and C15).

  * `Val.TagsAll p fo v`: every array tag inside `v` satisfies `p`, and foreign values occur only if `fo`.
    `Val.Plain` (no nil slice, no foreign value) and `Val.NoEnum` (no map-ordered array) are instances.
  * `INode.all p n`: every sub-node of `n` satisfies `p`; `INode.RootFree`, `INode.VarFree`, `INode.EnumFree`,
    `INode.LitsAll` are instances.
  * `Res.Sat s P r`: the outcome `r`, if a value, satisfies `P`; in *strict* mode (`s = true`) it is moreover
    definite: never `nondet`, and an error outcome names exactly one category.
  * `ieval_sat`: the evaluator preserves `Val.Good s` (one theorem for both modes:
    `s = false` is "plain values stay plain" (C18), `s = true` is "no object enumeration ⇒ a definite outcome
    without map-ordered arrays" (C15)).
  * `ieval_root_irrel`, `ieval_env_irrel`: a root-free (variable-free) node does not look at the root (environment).
-/
import Jmes.Model.Api
namespace Jmes

/-! ## Predicates on values -/

mutual
/-- every array tag inside the value satisfies `p`; foreign values are allowed only when `fo` -/
def Val.TagsAll (p : ATag → Bool) (fo : Bool) : Val → Bool
  | .arr t xs => p t && Val.TagsAllL p fo xs
  | .obj kvs => Val.TagsAllF p fo kvs
  | .foreign _ => fo
  | _ => true
def Val.TagsAllL (p : ATag → Bool) (fo : Bool) : List Val → Bool
  | [] => true
  | v :: vs => Val.TagsAll p fo v && Val.TagsAllL p fo vs
def Val.TagsAllF (p : ATag → Bool) (fo : Bool) : List (Bytes × Val) → Bool
  | [] => true
  | (_, v) :: kvs => Val.TagsAll p fo v && Val.TagsAllF p fo kvs
end

/-- a JSON-shaped Go value: nil, bool, string, number, `[]any` (not a nil slice) and `map[string]any` of such -/
def Val.Plain (v : Val) : Bool := v.TagsAll (fun t => t != .nil) false
/-- no array inside the value got its element order from ranging over a Go map -/
def Val.NoEnum (v : Val) : Bool := v.TagsAll (fun t => t != .enum) true

/-- the tag predicate of the two modes: strict (`true`) forbids `enum`, non-strict (`false`) forbids `nil` -/
def tagOk : Bool → ATag → Bool
  | true, t => t != .enum
  | false, t => t != .nil

/-- `Good false = Plain`, `Good true = NoEnum` -/
def Val.Good (s : Bool) (v : Val) : Bool := v.TagsAll (tagOk s) s
def Val.GoodL (s : Bool) (vs : List Val) : Bool := Val.TagsAllL (tagOk s) s vs
def Val.GoodF (s : Bool) (kvs : List (Bytes × Val)) : Bool := Val.TagsAllF (tagOk s) s kvs

theorem Val.plain_eq_good (v : Val) : v.Plain = v.Good false := rfl
theorem Val.noEnum_eq_good (v : Val) : v.NoEnum = v.Good true := rfl

/-- an environment all of whose values are plain -/
def Env.Plain (env : Env) : Bool := Val.TagsAllF (fun t => t != .nil) false env
def Env.NoEnum (env : Env) : Bool := Val.TagsAllF (fun t => t != .enum) true env

mutual
/-- every number inside is a valid `json.Number` or a Go integer, and there is no foreign value -/
def Val.Marshalable : Val → Bool
  | .num (.jnum t) => Json.isValidNumber t
  | .num (.int _ _) => true
  | .num _ => false
  | .arr _ xs => Val.MarshalableL xs
  | .obj kvs => Val.MarshalableF kvs
  | .foreign _ => false
  | _ => true
def Val.MarshalableL : List Val → Bool
  | [] => true
  | v :: vs => Val.Marshalable v && Val.MarshalableL vs
def Val.MarshalableF : List (Bytes × Val) → Bool
  | [] => true
  | (_, v) :: kvs => Val.Marshalable v && Val.MarshalableF kvs
end


/-! ## Predicates on nodes -/

mutual
/-- every sub-node (the node itself included) satisfies `p` -/
def INode.all (p : INode → Bool) : INode → Bool
  | n@(.lit _) => p n
  | n@(.current) => p n
  | n@(.root) => p n
  | n@(.field _) => p n
  | n@(.variable _) => p n
  | n@(.binop _ l r) => p n && l.all p && r.all p
  | n@(.and l r) => p n && l.all p && r.all p
  | n@(.or l r) => p n && l.all p && r.all p
  | n@(.not c) => p n && c.all p
  | n@(.negate c) => p n && c.all p
  | n@(.assertNumber c) => p n && c.all p
  | n@(.call _ args) => p n && INode.allL p args
  | n@(.defineVariables vars child) => p n && INode.allF p vars && child.all p
  | n@(.filter c f) => p n && c.all p && f.all p
  | n@(.filterCurrent f) => p n && f.all p
  | n@(.filterAndProject l f r) => p n && l.all p && f.all p && r.all p
  | n@(.filterAndProjectCurrent f c) => p n && f.all p && c.all p
  | n@(.flatten c) => p n && c.all p
  | n@(.flattenCurrent) => p n
  | n@(.flattenAndProject l r) => p n && l.all p && r.all p
  | n@(.flattenAndProjectCurrent c) => p n && c.all p
  | n@(.index c _) => p n && c.all p
  | n@(.indexCurrent _) => p n
  | n@(.smallIndexCurrent _) => p n
  | n@(.objectValues c) => p n && c.all p
  | n@(.objectValuesCurrent) => p n
  | n@(.pipe l r) => p n && l.all p && r.all p
  | n@(.projectArray l r) => p n && l.all p && r.all p
  | n@(.projectArrayCurrent c) => p n && c.all p
  | n@(.projectObject l r) => p n && l.all p && r.all p
  | n@(.projectObjectCurrent c) => p n && c.all p
  | n@(.pruneArray c) => p n && c.all p
  | n@(.pruneArrayCurrent) => p n
  | n@(.selectArray c fs) => p n && c.all p && INode.allL p fs
  | n@(.selectArrayCurrent fs) => p n && INode.allL p fs
  | n@(.selectArraySingle c f) => p n && c.all p && f.all p
  | n@(.selectArraySingleCurrent f) => p n && f.all p
  | n@(.selectObject c fs) => p n && c.all p && INode.allF p fs
  | n@(.selectObjectCurrent fs) => p n && INode.allF p fs
  | n@(.selectObjectSingle c _ f) => p n && c.all p && f.all p
  | n@(.selectObjectSingleCurrent _ f) => p n && f.all p
  | n@(.slice c _ _) => p n && c.all p
  | n@(.sliceCurrent _ _) => p n
  | n@(.sliceStep c _ _ _) => p n && c.all p
  | n@(.sliceStepCurrent _ _ _) => p n
  | n@(.groupBy a e) => p n && a.all p && e.all p
  | n@(.map e a) => p n && e.all p && a.all p
  | n@(.maxBy a e) => p n && a.all p && e.all p
  | n@(.minBy a e) => p n && a.all p && e.all p
  | n@(.sortBy a e) => p n && a.all p && e.all p
  | n@(.merge args) => p n && INode.allL p args
  | n@(.notNull args) => p n && INode.allL p args
  | n@(.zip args) => p n && INode.allL p args
def INode.allL (p : INode → Bool) : List INode → Bool
  | [] => true
  | n :: ns => n.all p && INode.allL p ns
def INode.allF (p : INode → Bool) : List (Bytes × INode) → Bool
  | [] => true
  | (_, n) :: rest => n.all p && INode.allF p rest
end

/-- the node is not the root reference `$` -/
def INode.notRoot : INode → Bool
  | .root => false
  | _ => true
/-- the node is not a variable reference -/
def INode.notVar : INode → Bool
  | .variable _ => false
  | _ => true
/-- the node does not range over a Go map, and is not the unstable `sort` (see `C15.sort_nondet`) -/
def INode.noEnumHead : INode → Bool
  | .objectValues _ | .objectValuesCurrent | .projectObject _ _ | .projectObjectCurrent _ => false
  | .call .keys _ | .call .values _ | .call .items _ => false
  | .call .sort _ => false
  | .selectObject _ fs | .selectObjectCurrent fs => decide (fs.length ≤ 1)
  | .defineVariables vars _ => decide (vars.length ≤ 1)
  | _ => true
/-- a literal node carries a value satisfying `q` -/
def INode.litOk (q : Val → Bool) : INode → Bool
  | .lit v => q v
  | _ => true

/-- no `$` anywhere in the node -/
def INode.RootFree (n : INode) : Bool := n.all INode.notRoot
/-- no variable reference anywhere in the node -/
def INode.VarFree (n : INode) : Bool := n.all INode.notVar
/-- nothing in the node enumerates the members of an object (or a Go map of sub-expressions with ≥ 2 entries) -/
def INode.EnumFree (n : INode) : Bool := n.all INode.noEnumHead
/-- every literal inside the node satisfies `q` -/
def INode.LitsAll (q : Val → Bool) (n : INode) : Bool := n.all (INode.litOk q)
def INode.PlainLits (n : INode) : Bool := n.LitsAll Val.Plain
def INode.NoEnumLits (n : INode) : Bool := n.LitsAll Val.NoEnum

/-! ## Outcomes -/

/-- the outcome, if it is a value, satisfies `P`; in strict mode it is moreover *definite*:
    not `nondet`, and an error outcome is a single category -/
def Res.Sat {α} (s : Bool) (P : α → Prop) : Res α → Prop
  | .ok a => P a
  | .err cs => s = true → cs.length = 1
  | .nondet => s = false
  | .panic _ => True
  | .unmodelled _ => True

namespace Invar

/-! ### `Sat` calculus -/

theorem Sat.ok {α} {s : Bool} {P : α → Prop} {a : α} (h : P a) : Res.Sat s P (Res.ok a) := h
theorem Sat.pure {α} {s : Bool} {P : α → Prop} {a : α} (h : P a) : Res.Sat s P (pure a) := h
theorem Sat.err1 {α} {s : Bool} {P : α → Prop} (c : Cat) : Res.Sat s P (Res.err [c] : Res α) := fun _ => rfl
theorem Sat.errType {α} {s : Bool} {P : α → Prop} : Res.Sat s P (errType : Res α) := fun _ => rfl
theorem Sat.errValue {α} {s : Bool} {P : α → Prop} : Res.Sat s P (errValue : Res α) := fun _ => rfl
theorem Sat.errNaN {α} {s : Bool} {P : α → Prop} : Res.Sat s P (errNaN : Res α) := fun _ => rfl

theorem Sat.bind {α β} {s : Bool} {P : α → Prop} {Q : β → Prop} {r : Res α} {f : α → Res β}
    (h : Res.Sat s P r) (hf : ∀ a, P a → Res.Sat s Q (f a)) : Res.Sat s Q (r >>= f) := by
  cases r with
  | ok a => exact hf a h
  | err cs => exact h
  | nondet => exact h
  | panic w => trivial
  | unmodelled w => trivial

theorem Sat.mono {α} {s : Bool} {P Q : α → Prop} {r : Res α} (h : Res.Sat s P r) (hpq : ∀ a, P a → Q a) :
    Res.Sat s Q r := by
  cases r with
  | ok a => exact hpq a h
  | err cs => exact h
  | nondet => exact h
  | panic w => trivial
  | unmodelled w => trivial

/-- strict satisfaction implies satisfaction in either mode -/
theorem Sat.of_strict {α} {s : Bool} {P : α → Prop} {r : Res α} (h : Res.Sat true P r) : Res.Sat s P r := by
  cases r with
  | ok a => exact h
  | err cs => exact fun _ => h rfl
  | nondet => simp [Res.Sat] at h
  | panic w => trivial
  | unmodelled w => trivial

/-- in non-strict mode only values matter -/
theorem Sat.nonstrict_iff {α} {P : α → Prop} {r : Res α} : Res.Sat false P r ↔ ∀ a, r = .ok a → P a := by
  cases r <;> simp [Res.Sat]

/-- in strict mode: not `nondet`, values satisfy `P`, errors are single categories -/
theorem Sat.strict_iff {α} {P : α → Prop} {r : Res α} :
    Res.Sat true P r ↔ r ≠ .nondet ∧ (∀ a, r = .ok a → P a) ∧ (∀ cs, r = .err cs → cs.length = 1) := by
  cases r <;> simp [Res.Sat]

/-! ### basic facts about `Good` -/

theorem tagOk_plain (s : Bool) : tagOk s .plain = true := by cases s <;> rfl
theorem tagOk_derived {s : Bool} {t : ATag} (h : tagOk s t = true) : tagOk s t.derived = true := by
  cases s <;> cases t <;> first | rfl | exact h
theorem tagOk_enum {s : Bool} (h : s = false) : tagOk s .enum = true := by subst h; rfl
theorem enum2_of_tagOk {t : ATag} (xs : List Val) (h : tagOk true t = true) : enum2 t xs = false := by
  cases t <;> first | rfl | exact absurd h (by decide)
theorem enum2_strict {s : Bool} {t : ATag} (xs : List Val) (h : tagOk s t = true) (hs : s = true) :
    enum2 t xs = false := by subst hs; exact enum2_of_tagOk xs h

theorem tagsAllL_iff {p : ATag → Bool} {fo : Bool} : ∀ {xs : List Val},
    Val.TagsAllL p fo xs = true ↔ ∀ x ∈ xs, Val.TagsAll p fo x = true
  | [] => by simp [Val.TagsAllL]
  | x :: xs => by simp [Val.TagsAllL, tagsAllL_iff (xs := xs)]

theorem tagsAllF_iff {p : ATag → Bool} {fo : Bool} : ∀ {kvs : List (Bytes × Val)},
    Val.TagsAllF p fo kvs = true ↔ ∀ kv ∈ kvs, Val.TagsAll p fo kv.2 = true
  | [] => by simp [Val.TagsAllF]
  | (k, x) :: kvs => by simp [Val.TagsAllF, tagsAllF_iff (kvs := kvs)]

theorem goodL_iff {s : Bool} {xs : List Val} : Val.GoodL s xs = true ↔ ∀ x ∈ xs, x.Good s = true := tagsAllL_iff
theorem goodF_iff {s : Bool} {kvs : List (Bytes × Val)} :
    Val.GoodF s kvs = true ↔ ∀ kv ∈ kvs, kv.2.Good s = true := tagsAllF_iff

theorem good_arr {s : Bool} {t : ATag} {xs : List Val} :
    (Val.arr t xs).Good s = true ↔ tagOk s t = true ∧ Val.GoodL s xs = true := by
  simp [Val.Good, Val.GoodL, Val.TagsAll]
theorem good_obj {s : Bool} {kvs : List (Bytes × Val)} : (Val.obj kvs).Good s = true ↔ Val.GoodF s kvs = true := by
  simp [Val.Good, Val.GoodF, Val.TagsAll]
@[simp] theorem good_null {s : Bool} : Val.null.Good s = true := rfl
@[simp] theorem good_bool {s : Bool} {b : Bool} : (Val.bool b).Good s = true := rfl
@[simp] theorem good_str {s : Bool} {b : Bytes} : (Val.str b).Good s = true := rfl
@[simp] theorem good_num {s : Bool} {n : Num} : (Val.num n).Good s = true := rfl
@[simp] theorem goodL_nil {s : Bool} : Val.GoodL s [] = true := rfl
@[simp] theorem goodF_nil {s : Bool} : Val.GoodF s [] = true := rfl
theorem goodL_cons {s : Bool} {x : Val} {xs : List Val} :
    Val.GoodL s (x :: xs) = true ↔ x.Good s = true ∧ Val.GoodL s xs = true := by
  simp [Val.Good, Val.GoodL, Val.TagsAllL]
theorem goodF_cons {s : Bool} {k : Bytes} {x : Val} {kvs : List (Bytes × Val)} :
    Val.GoodF s ((k, x) :: kvs) = true ↔ x.Good s = true ∧ Val.GoodF s kvs = true := by
  simp [Val.Good, Val.GoodF, Val.TagsAllF]

theorem good_plainArr {s : Bool} {xs : List Val} (h : Val.GoodL s xs = true) : (Val.arr .plain xs).Good s = true :=
  good_arr.mpr ⟨tagOk_plain s, h⟩

theorem goodL_sub {s : Bool} {xs ys : List Val} (h : Val.GoodL s xs = true) (hsub : ∀ y ∈ ys, y ∈ xs) :
    Val.GoodL s ys = true :=
  goodL_iff.mpr fun y hy => goodL_iff.mp h y (hsub y hy)

theorem goodL_append {s : Bool} {xs ys : List Val} (hx : Val.GoodL s xs = true) (hy : Val.GoodL s ys = true) :
    Val.GoodL s (xs ++ ys) = true :=
  goodL_iff.mpr fun z hz => by
    rcases List.mem_append.mp hz with h | h
    · exact goodL_iff.mp hx z h
    · exact goodL_iff.mp hy z h

theorem goodL_filter {s : Bool} {xs : List Val} (q : Val → Bool) (h : Val.GoodL s xs = true) :
    Val.GoodL s (xs.filter q) = true :=
  goodL_sub h fun _ hy => (List.mem_filter.mp hy).1

theorem good_getD {s : Bool} {xs : List Val} (h : Val.GoodL s xs = true) (i : Nat) :
    (xs.getD i .null).Good s = true := by
  rw [List.getD_eq_getElem?_getD]
  cases hi : xs[i]? with
  | none => rfl
  | some v => exact goodL_iff.mp h v (List.mem_of_getElem? hi)

theorem objLookup_mem {k : Bytes} {v : Val} : ∀ {kvs : List (Bytes × Val)}, objLookup k kvs = some v → (k, v) ∈ kvs
  | [], h => by simp [objLookup] at h
  | (k', v') :: rest, h => by
    simp only [objLookup] at h
    split at h
    · next hk => cases h; subst hk; exact List.mem_cons_self
    · exact List.mem_cons_of_mem _ (objLookup_mem h)

theorem good_objLookup {s : Bool} {kvs : List (Bytes × Val)} (h : Val.GoodF s kvs = true) {k : Bytes} {v : Val}
    (hl : objLookup k kvs = some v) : v.Good s = true :=
  goodF_iff.mp h (k, v) (objLookup_mem hl)

theorem goodF_objInsert {s : Bool} {k : Bytes} {v : Val} (hv : v.Good s = true) :
    ∀ {kvs : List (Bytes × Val)}, Val.GoodF s kvs = true → Val.GoodF s (objInsert k v kvs) = true
  | [], _ => goodF_cons.mpr ⟨hv, rfl⟩
  | (k', v') :: rest, h => by
    have h' := goodF_cons.mp h
    simp only [objInsert]
    split
    · exact goodF_cons.mpr ⟨hv, h'.2⟩
    · split
      · exact goodF_cons.mpr ⟨hv, h⟩
      · exact goodF_cons.mpr ⟨h'.1, goodF_objInsert hv h'.2⟩

theorem goodF_foldInsert {s : Bool} : ∀ {kvs acc : List (Bytes × Val)}, Val.GoodF s kvs = true → Val.GoodF s acc = true →
    Val.GoodF s (kvs.foldl (fun a kv => objInsert kv.1 kv.2 a) acc) = true
  | [], _, _, ha => ha
  | (k, v) :: rest, acc, h, ha => by
    have h' := goodF_cons.mp h
    exact goodF_foldInsert (kvs := rest) h'.2 (goodF_objInsert h'.1 ha)

theorem goodF_append {s : Bool} {xs ys : List (Bytes × Val)} (hx : Val.GoodF s xs = true) (hy : Val.GoodF s ys = true) :
    Val.GoodF s (xs ++ ys) = true :=
  goodF_iff.mpr fun z hz => by
    rcases List.mem_append.mp hz with h | h
    · exact goodF_iff.mp hx z h
    · exact goodF_iff.mp hy z h


/-! ### Array.lean -/

/-- the outcome is a good value (and definite in strict mode) -/
abbrev GoodR (s : Bool) (r : Res Val) : Prop := Res.Sat s (fun v => v.Good s = true) r
abbrev GoodLR (s : Bool) (r : Res (List Val)) : Prop := Res.Sat s (fun vs => Val.GoodL s vs = true) r
abbrev GoodFR (s : Bool) (r : Res (List (Bytes × Val))) : Prop := Res.Sat s (fun kvs => Val.GoodF s kvs = true) r
/-- the sub-expression of a projection maps good values to good outcomes -/
abbrev GoodFn (s : Bool) (f : Val → Res Val) : Prop := ∀ v, v.Good s = true → GoodR s (f v)

/-- `widen` is the identity on arrays that are not map-ordered, and otherwise only re-labels errors or turns them
    into `nondet` -/
theorem Sat.widen {α} {s : Bool} {P : α → Prop} {t : ATag} {xs : List Val} {fs : List (Val → Res Val)}
    {extra : List Cat} {r : Res α} (ht : tagOk s t = true) (h : Res.Sat s P r) :
    Res.Sat s P (widen t xs fs extra r) := by
  cases r with
  | err cs =>
    simp only [_root_.Jmes.widen]
    cases s with
    | false => split <;> (try split) <;> first | rfl | exact fun h => Bool.noConfusion h
    | true => rw [enum2_of_tagOk xs ht]; exact h
  | ok a => exact h
  | nondet => exact h
  | panic w => trivial
  | unmodelled w => trivial

theorem widen_of_not_enum2 {α} {t : ATag} {xs : List Val} {fs : List (Val → Res Val)} {extra : List Cat} (r : Res α)
    (h : enum2 t xs = false) : widen t xs fs extra r = r := by
  cases r <;> simp [_root_.Jmes.widen, h]

/-- an outcome that is `nondet` only for a map-ordered array -/
theorem Sat.nondet_of {α} {s : Bool} {P : α → Prop} {t : ATag} {xs : List Val} {b : Bool} (ht : tagOk s t = true)
    (hc : (enum2 t xs && b) = true) : Res.Sat s P (Res.nondet : Res α) := by
  cases s with
  | false => rfl
  | true => rw [enum2_of_tagOk xs ht] at hc; exact Bool.noConfusion hc

theorem Sat.nondet_of' {α} {s : Bool} {P : α → Prop} {t : ATag} {xs : List Val} (ht : tagOk s t = true)
    (hc : enum2 t xs = true) : Res.Sat s P (Res.nondet : Res α) :=
  Sat.nondet_of (b := true) ht (by rw [hc]; rfl)

theorem widenArr_sat {s : Bool} {t t' : ATag} {xs : List Val} {fs : List (Val → Res Val)} {extra : List Cat}
    {loop : Res (List Val)} (ht : tagOk s t = true) (ht' : tagOk s t' = true) (h : GoodLR s loop) :
    GoodR s (widen t xs fs extra (loop >>= fun r => pure (Val.arr t' r))) :=
  Sat.widen ht (Sat.bind h fun _ hr => Sat.pure (good_arr.mpr ⟨ht', hr⟩))

theorem index_sat {s : Bool} {v : Val} (i : Int) (h : v.Good s = true) : GoodR s (index v i) := by
  cases v with
  | arr t xs =>
    have ⟨ht, hx⟩ := good_arr.mp h
    simp only [index]
    generalize (if i < 0 then i + (xs.length : Int) else i) = j
    split
    · exact good_null
    · split
      · next he => exact Sat.nondet_of' ht he
      · exact good_getD hx _
  | _ => exact good_null

theorem goodL_flattenElems {s : Bool} : ∀ {xs : List Val}, Val.GoodL s xs = true → Val.GoodL s (flattenElems xs) = true
  | [], _ => rfl
  | x :: rest, h => by
    have ⟨hx, hr⟩ := goodL_cons.mp h
    have ih := goodL_flattenElems hr
    cases x with
    | arr t ys => simp only [flattenElems]; exact goodL_append (goodL_filter _ (good_arr.mp hx).2) ih
    | null => simpa only [flattenElems] using ih
    | _ => simp only [flattenElems]; exact goodL_cons.mpr ⟨hx, ih⟩

theorem goodL_flattenForProject {s : Bool} : ∀ {xs : List Val}, Val.GoodL s xs = true →
    Val.GoodL s (flattenForProject xs) = true
  | [], _ => rfl
  | x :: rest, h => by
    have ⟨hx, hr⟩ := goodL_cons.mp h
    have ih := goodL_flattenForProject hr
    cases x with
    | arr t ys => simp only [flattenForProject]; exact goodL_append (good_arr.mp hx).2 ih
    | _ => simp only [flattenForProject]; exact goodL_cons.mpr ⟨hx, ih⟩

theorem flattenTag_ok {s : Bool} {t : ATag} {xs : List Val} (ht : tagOk s t = true) (hx : Val.GoodL s xs = true) :
    tagOk s (flattenTag t xs) = true := by
  unfold flattenTag
  split
  · next h =>
    cases s with
    | false => rfl
    | true =>
      exfalso
      rw [enum2_of_tagOk xs ht, Bool.false_or, List.any_eq_true] at h
      obtain ⟨x, hxm, hx2⟩ := h
      have hg := goodL_iff.mp hx x hxm
      cases x with
      | arr t' ys =>
        simp only at hx2
        rw [enum2_of_tagOk ys (good_arr.mp hg).1] at hx2
        exact Bool.noConfusion hx2
      | _ => simp at hx2
  · exact tagOk_plain s

theorem flatten_good {s : Bool} {v : Val} (h : v.Good s = true) : (flatten v).Good s = true := by
  cases v with
  | arr t xs =>
    have ⟨ht, hx⟩ := good_arr.mp h
    exact good_arr.mpr ⟨flattenTag_ok ht hx, goodL_flattenElems hx⟩
  | _ => rfl

theorem pruneArray_good {s : Bool} {v : Val} (h : v.Good s = true) : (pruneArray v).Good s = true := by
  cases v with
  | arr t xs =>
    have ⟨ht, hx⟩ := good_arr.mp h
    simp only [pruneArray]
    split
    · exact good_arr.mpr ⟨tagOk_derived ht, goodL_filter _ hx⟩
    · exact h
  | _ => rfl

theorem mapPrune_sat {s : Bool} {f : Val → Res Val} (hf : GoodFn s f) :
    ∀ {xs : List Val}, Val.GoodL s xs = true → GoodLR s (mapPrune f xs)
  | [], _ => goodL_nil
  | x :: xs, h => by
    have ⟨hx, hr⟩ := goodL_cons.mp h
    simp only [mapPrune]
    refine Sat.bind (hf x hx) fun p hp => Sat.bind (mapPrune_sat hf hr) fun rest hrest => Sat.pure ?_
    split
    · exact hrest
    · exact goodL_cons.mpr ⟨hp, hrest⟩

theorem mapAll_sat {s : Bool} {f : Val → Res Val} (hf : GoodFn s f) :
    ∀ {xs : List Val}, Val.GoodL s xs = true → GoodLR s (mapAll f xs)
  | [], _ => goodL_nil
  | x :: xs, h => by
    have ⟨hx, hr⟩ := goodL_cons.mp h
    simp only [mapAll]
    exact Sat.bind (hf x hx) fun p hp => Sat.bind (mapAll_sat hf hr) fun rest hrest =>
      Sat.pure (goodL_cons.mpr ⟨hp, hrest⟩)

theorem filterLoop_sat {s : Bool} {c : Val → Res Val} (hc : GoodFn s c) :
    ∀ {xs : List Val}, Val.GoodL s xs = true → GoodLR s (filterLoop c xs)
  | [], _ => goodL_nil
  | x :: xs, h => by
    have ⟨hx, hr⟩ := goodL_cons.mp h
    simp only [filterLoop]
    refine Sat.bind (hc x hx) fun b _ => Sat.bind (filterLoop_sat hc hr) fun rest hrest => Sat.pure ?_
    split
    · exact goodL_cons.mpr ⟨hx, hrest⟩
    · exact hrest

theorem filterMapPrune_sat {s : Bool} {c f : Val → Res Val} (hc : GoodFn s c) (hf : GoodFn s f) :
    ∀ {xs : List Val}, Val.GoodL s xs = true → GoodLR s (filterMapPrune c f xs)
  | [], _ => goodL_nil
  | x :: xs, h => by
    have ⟨hx, hr⟩ := goodL_cons.mp h
    simp only [filterMapPrune]
    refine Sat.bind (hc x hx) fun b _ => ?_
    split
    · refine Sat.bind (hf x hx) fun p hp => Sat.bind (filterMapPrune_sat hc hf hr) fun rest hrest => Sat.pure ?_
      split
      · exact hrest
      · exact goodL_cons.mpr ⟨hp, hrest⟩
    · exact filterMapPrune_sat hc hf hr

theorem projectArray_sat {s : Bool} {f : Val → Res Val} {v : Val} (hf : GoodFn s f) (h : v.Good s = true) :
    GoodR s (projectArray f v) := by
  cases v with
  | arr t xs =>
    have ⟨ht, hx⟩ := good_arr.mp h
    exact widenArr_sat ht (tagOk_derived ht) (mapPrune_sat hf hx)
  | _ => exact good_null

theorem filterArray_sat {s : Bool} {c : Val → Res Val} {v : Val} (hc : GoodFn s c) (h : v.Good s = true) :
    GoodR s (filterArray c v) := by
  cases v with
  | arr t xs =>
    have ⟨ht, hx⟩ := good_arr.mp h
    exact widenArr_sat ht (tagOk_derived ht) (filterLoop_sat hc hx)
  | _ => exact good_null

theorem filterAndProjectArray_sat {s : Bool} {c f : Val → Res Val} {v : Val} (hc : GoodFn s c) (hf : GoodFn s f)
    (h : v.Good s = true) : GoodR s (filterAndProjectArray c f v) := by
  cases v with
  | arr t xs =>
    have ⟨ht, hx⟩ := good_arr.mp h
    exact widenArr_sat ht (tagOk_derived ht) (filterMapPrune_sat hc hf hx)
  | _ => exact good_null

theorem flattenAndProjectArray_sat {s : Bool} {f : Val → Res Val} {v : Val} (hf : GoodFn s f)
    (h : v.Good s = true) : GoodR s (flattenAndProjectArray f v) := by
  cases v with
  | arr t xs =>
    have ⟨ht, hx⟩ := good_arr.mp h
    exact widenArr_sat (flattenTag_ok ht hx) (flattenTag_ok ht hx) (mapPrune_sat hf (goodL_flattenForProject hx))
  | _ => exact good_null

theorem mapArray_sat {s : Bool} {f : Val → Res Val} {v : Val} (hf : GoodFn s f) (h : v.Good s = true) :
    GoodR s (mapArray f v) := by
  cases v with
  | arr t xs =>
    have ⟨ht, hx⟩ := good_arr.mp h
    exact widenArr_sat ht (tagOk_derived ht) (mapAll_sat hf hx)
  | _ => exact Sat.errType

/-! keys of `sort_by` / `max_by` / `min_by` -/

theorem keysFrom_sat {s : Bool} {f : Val → Res Val} (hf : GoodFn s f) (b : Bool) :
    ∀ {xs : List Val}, Val.GoodL s xs = true → Res.Sat s (fun _ => True) (keysFrom f b xs)
  | [], _ => trivial
  | x :: xs, h => by
    have ⟨hx, hr⟩ := goodL_cons.mp h
    simp only [keysFrom]
    refine Sat.bind (hf x hx) fun rv _ => Sat.bind (P := fun _ => True) ?_ fun k _ =>
      Sat.bind (keysFrom_sat hf b hr) fun _ _ => trivial
    split
    · split
      · trivial
      · exact Sat.errType
    · split
      · trivial
      · exact Sat.errType

theorem keysOf_sat {s : Bool} {f : Val → Res Val} (hf : GoodFn s f) :
    ∀ {xs : List Val}, Val.GoodL s xs = true → Res.Sat s (fun _ => True) (keysOf f xs)
  | [], _ => trivial
  | x :: xs, h => by
    have ⟨hx, hr⟩ := goodL_cons.mp h
    simp only [keysOf]
    refine Sat.bind (hf x hx) fun first _ => ?_
    split
    · exact Sat.bind (keysFrom_sat hf true hr) fun _ _ => trivial
    · split
      · exact Sat.errType
      · exact Sat.bind (keysFrom_sat hf false hr) fun _ _ => trivial

theorem pickBy_mem (better : Key → Key → Bool) : ∀ (l : List (Val × Key)) (best : Val) (bk : Key),
    pickBy better best bk l = best ∨ ∃ p ∈ l, pickBy better best bk l = p.1
  | [], best, bk => Or.inl rfl
  | (v, k) :: rest, best, bk => by
    simp only [pickBy]
    split
    · rcases pickBy_mem better rest v k with h | ⟨p, hp, h⟩
      · exact Or.inr ⟨(v, k), List.mem_cons_self, h⟩
      · exact Or.inr ⟨p, List.mem_cons_of_mem _ hp, h⟩
    · rcases pickBy_mem better rest best bk with h | ⟨p, hp, h⟩
      · exact Or.inl h
      · exact Or.inr ⟨p, List.mem_cons_of_mem _ hp, h⟩

theorem arrayPickBy_sat {s : Bool} (better : Key → Key → Bool) {f : Val → Res Val} {v : Val} (hf : GoodFn s f)
    (h : v.Good s = true) : GoodR s (arrayPickBy better f v) := by
  cases v with
  | arr t xs =>
    have ⟨ht, hx⟩ := good_arr.mp h
    cases xs with
    | nil => exact good_null
    | cons x0 rest =>
      have ⟨hx0, hrest⟩ := goodL_cons.mp hx
      simp only [arrayPickBy]
      refine Sat.widen ht (Sat.bind (keysOf_sat hf hx) fun ks _ => ?_)
      split
      · exact good_null
      · split
        · next hc => exact Sat.nondet_of ht hc
        · next k0 krest _ =>
          show (pickBy better x0 k0 (rest.zip krest)).Good s = true
          rcases pickBy_mem better (rest.zip krest) x0 k0 with h | ⟨p, hp, h⟩
          · rw [h]; exact hx0
          · rw [h]
            have : p.1 ∈ rest := by
              cases p with
              | mk a b => exact (List.of_mem_zip hp).1
            exact goodL_iff.mp hrest _ this
  | _ => exact Sat.errType

theorem goodL_sortByKeys {s : Bool} {xs : List Val} (ks : List Key) (h : Val.GoodL s xs = true) :
    Val.GoodL s (sortByKeys xs ks) = true := by
  refine goodL_sub h fun y hy => ?_
  simp only [sortByKeys, List.mem_map] at hy
  obtain ⟨⟨a, b⟩, hp, rfl⟩ := hy
  exact (List.of_mem_zip (List.mem_mergeSort.mp hp)).1

theorem sortArrayBy_sat {s : Bool} {f : Val → Res Val} {v : Val} (hf : GoodFn s f) (h : v.Good s = true) :
    GoodR s (sortArrayBy f v) := by
  cases v with
  | arr t xs =>
    have ⟨ht, hx⟩ := good_arr.mp h
    simp only [sortArrayBy]
    split
    · exact h
    · refine Sat.widen ht (Sat.bind (keysOf_sat hf hx) fun ks _ => ?_)
      split
      · next hc => exact Sat.nondet_of ht hc
      · exact good_plainArr (goodL_sortByKeys ks hx)
  | _ => exact Sat.errType

theorem arrayMax_sat {s : Bool} {v : Val} (h : v.Good s = true) : GoodR s (arrayMax v) := by
  cases v with
  | arr t xs =>
    have ⟨ht, _⟩ := good_arr.mp h
    simp only [arrayMax]
    split
    · exact good_null
    · split
      · exact good_str
      · exact Sat.errType
    · split
      · split
        · next hc => exact Sat.nondet_of ht hc
        · exact good_num
      · exact Sat.errType
  | _ => exact Sat.errType

theorem arrayMin_sat {s : Bool} {v : Val} (h : v.Good s = true) : GoodR s (arrayMin v) := by
  cases v with
  | arr t xs =>
    have ⟨ht, _⟩ := good_arr.mp h
    simp only [arrayMin]
    split
    · exact good_null
    · split
      · exact good_str
      · exact Sat.errType
    · split
      · split
        · next hc => exact Sat.nondet_of ht hc
        · exact good_num
      · exact Sat.errType
  | _ => exact Sat.errType

/-- `sort`: good values, but *not* definite even without map-ordered arrays (ties between equal numbers of
    different representation), hence only the non-strict mode -/
theorem sortArray_sat {v : Val} (h : v.Good false = true) : GoodR false (sortArray v) := by
  cases v with
  | arr t xs =>
    have ⟨ht, hx⟩ := good_arr.mp h
    simp only [sortArray]
    split
    · exact h
    · split
      · refine good_plainArr (goodL_iff.mpr fun y hy => ?_)
        obtain ⟨b, _, rfl⟩ := List.mem_map.mp hy
        rfl
      · exact Sat.errType
    · split
      · split
        · rfl
        · refine good_plainArr (goodL_sub hx fun y hy => ?_)
          obtain ⟨⟨a, b⟩, hp, rfl⟩ := List.mem_map.mp hy
          exact (List.of_mem_zip (List.mem_mergeSort.mp hp)).1
      · exact Sat.errType
  | _ => exact Sat.errType


/-! ### Object.lean -/

theorem field_good {s : Bool} (k : Bytes) {v : Val} (h : v.Good s = true) : (field k v).Good s = true := by
  cases v with
  | obj kvs =>
    simp only [field]
    cases hl : objLookup k kvs with
    | none => rfl
    | some x => exact good_objLookup (good_obj.mp h) hl
  | _ => rfl

theorem goodL_values {s : Bool} {kvs : List (Bytes × Val)} (h : Val.GoodF s kvs = true) :
    Val.GoodL s (kvs.map Prod.snd) = true :=
  goodL_iff.mpr fun y hy => by
    obtain ⟨kv, hkv, rfl⟩ := List.mem_map.mp hy
    exact goodF_iff.mp h kv hkv

theorem objectValues_good {s : Bool} {v : Val} (hs : s = false) (h : v.Good s = true) :
    (objectValues v).Good s = true := by
  cases v with
  | obj kvs => exact good_arr.mpr ⟨tagOk_enum hs, goodL_filter _ (goodL_values (good_obj.mp h))⟩
  | _ => rfl

theorem projectObject_sat {s : Bool} {f : Val → Res Val} {v : Val} (hs : s = false) (hf : GoodFn s f)
    (h : v.Good s = true) : GoodR s (projectObject f v) := by
  cases v with
  | obj kvs => exact widenArr_sat (tagOk_enum hs) (tagOk_enum hs) (mapPrune_sat hf (goodL_values (good_obj.mp h)))
  | _ => exact good_null

theorem values_sat {s : Bool} {v : Val} (hs : s = false) (h : v.Good s = true) : GoodR s (values v) := by
  cases v with
  | obj kvs => exact good_arr.mpr ⟨tagOk_enum hs, goodL_values (good_obj.mp h)⟩
  | _ => exact Sat.errType

theorem keys_sat {s : Bool} {v : Val} (hs : s = false) (_h : v.Good s = true) : GoodR s (keys v) := by
  cases v with
  | obj kvs =>
    refine good_arr.mpr ⟨tagOk_enum hs, goodL_iff.mpr fun y hy => ?_⟩
    obtain ⟨kv, _, rfl⟩ := List.mem_map.mp hy
    rfl
  | _ => exact Sat.errType

theorem items_sat {s : Bool} {v : Val} (hs : s = false) (h : v.Good s = true) : GoodR s (items v) := by
  cases v with
  | obj kvs =>
    refine good_arr.mpr ⟨tagOk_enum hs, goodL_iff.mpr fun y hy => ?_⟩
    obtain ⟨kv, hkv, rfl⟩ := List.mem_map.mp hy
    exact good_plainArr (goodL_cons.mpr ⟨good_str, goodL_cons.mpr ⟨goodF_iff.mp (good_obj.mp h) kv hkv, rfl⟩⟩)
  | _ => exact Sat.errType

theorem fromItemsLoop_sat {s : Bool} : ∀ {xs : List Val} {acc : List (Bytes × Val)},
    Val.GoodL s xs = true → Val.GoodF s acc = true → GoodFR s (fromItemsLoop xs acc)
  | [], _, _, ha => ha
  | x :: rest, acc, h, ha => by
    have ⟨hx, hr⟩ := goodL_cons.mp h
    cases x with
    | arr t ia =>
      have ⟨ht, hia⟩ := good_arr.mp hx
      simp only [fromItemsLoop]
      split
      · next k v =>
        split
        · next he => exact Sat.nondet_of' ht he
        · split
          · have hv := (goodL_cons.mp (goodL_cons.mp hia).2).1
            exact fromItemsLoop_sat hr (goodF_objInsert hv ha)
          · exact Sat.errValue
      · exact Sat.errValue
    | _ => exact Sat.errType

theorem fromItems_sat {s : Bool} {v : Val} (h : v.Good s = true) : GoodR s (fromItems v) := by
  cases v with
  | arr t xs =>
    have ⟨ht, hx⟩ := good_arr.mp h
    have hl := fromItemsLoop_sat hx (goodF_nil (s := s))
    simp only [fromItems]
    generalize fromItemsLoop xs [] = r at hl
    cases r with
    | ok kvs =>
      simp only []
      split
      · next hc => exact Sat.nondet_of ht hc
      · exact good_obj.mpr hl
    | err cs =>
      simp only []
      cases s with
      | false => split <;> (try split) <;> first | rfl | exact fun h => Bool.noConfusion h
      | true => rw [enum2_of_tagOk xs ht]; exact hl
    | nondet => exact hl
    | panic w => trivial
    | unmodelled w => trivial
  | _ => exact Sat.errType

theorem groupInsert_inv {s : Bool} {k : Bytes} {v : Val} (hv : v.Good s = true) :
    ∀ {acc : List (Bytes × List Val)}, (∀ kg ∈ acc, Val.GoodL s kg.2 = true) →
      ∀ kg ∈ groupInsert k v acc, Val.GoodL s kg.2 = true
  | [], _ => by
    intro kg hkg
    simp only [groupInsert, List.mem_singleton] at hkg
    subst hkg
    exact goodL_cons.mpr ⟨hv, rfl⟩
  | (k', g) :: rest, h => by
    have hg := h (k', g) List.mem_cons_self
    have hrest : ∀ kg ∈ rest, Val.GoodL s kg.2 = true := fun kg hkg => h kg (List.mem_cons_of_mem _ hkg)
    intro kg hkg
    simp only [groupInsert] at hkg
    split at hkg
    · rcases List.mem_cons.mp hkg with rfl | hm
      · exact goodL_append hg (goodL_cons.mpr ⟨hv, rfl⟩)
      · exact hrest kg hm
    · split at hkg
      · rcases List.mem_cons.mp hkg with rfl | hm
        · exact goodL_cons.mpr ⟨hv, rfl⟩
        · exact h kg hm
      · rcases List.mem_cons.mp hkg with rfl | hm
        · exact hg
        · exact groupInsert_inv hv hrest kg hm

theorem groupLoop_sat {s : Bool} {f : Val → Res Val} (hf : GoodFn s f) :
    ∀ {xs : List Val} {acc : List (Bytes × List Val)}, Val.GoodL s xs = true →
      (∀ kg ∈ acc, Val.GoodL s kg.2 = true) →
      Res.Sat s (fun gs => ∀ kg ∈ gs, Val.GoodL s kg.2 = true) (groupLoop f xs acc)
  | [], _, _, ha => ha
  | x :: rest, acc, h, ha => by
    have ⟨hx, hr⟩ := goodL_cons.mp h
    simp only [groupLoop]
    refine Sat.bind (hf x hx) fun rv _ => ?_
    split
    · exact groupLoop_sat hf hr (groupInsert_inv hx ha)
    · exact Sat.errType

theorem groupBy_sat {s : Bool} {f : Val → Res Val} {v : Val} (hf : GoodFn s f) (h : v.Good s = true) :
    GoodR s (groupBy f v) := by
  cases v with
  | arr t xs =>
    have ⟨ht, hx⟩ := good_arr.mp h
    simp only [groupBy]
    split
    · exact good_null
    · refine Sat.widen ht (Sat.bind (groupLoop_sat hf hx (acc := []) (fun _ h => by cases h)) fun gs hgs => Sat.pure ?_)
      refine good_obj.mpr (goodF_iff.mpr fun kv hkv => ?_)
      obtain ⟨kg, hkg, rfl⟩ := List.mem_map.mp hkv
      exact good_arr.mpr ⟨tagOk_derived ht, hgs kg hkg⟩
  | _ => exact Sat.errType

/-! ### Slice.lean -/

theorem goodL_pickStep {s : Bool} {xs : List Val} (h : Val.GoodL s xs = true) (step : Int) :
    ∀ (n : Nat) (start : Int), Val.GoodL s (pickStep xs start step n) = true
  | 0, _ => rfl
  | n + 1, _ => goodL_cons.mpr ⟨good_getD h _, goodL_pickStep h step n _⟩

theorem slice_sat {s : Bool} {v : Val} (a b : Int) (h : v.Good s = true) : GoodR s (slice v a b) := by
  cases v with
  | arr t xs =>
    have ⟨ht, hx⟩ := good_arr.mp h
    simp only [slice]
    split
    · exact good_plainArr rfl
    · split
      · exact good_plainArr rfl
      · split
        · next he => exact Sat.nondet_of' ht he
        · exact good_plainArr (goodL_sub hx fun y hy => List.mem_of_mem_drop (List.mem_of_mem_take hy))
  | str b =>
    simp only [slice]
    split <;> exact good_str
  | _ => exact good_null

theorem sliceStep_sat {s : Bool} {v : Val} (a b c : Int) (h : v.Good s = true) : GoodR s (sliceStep v a b c) := by
  cases v with
  | arr t xs =>
    have ⟨ht, hx⟩ := good_arr.mp h
    simp only [sliceStep]
    split
    · exact good_plainArr rfl
    · split
      · next he => exact Sat.nondet_of' ht he
      · exact good_plainArr (goodL_pickStep hx _ _ _)
  | str b =>
    simp only [sliceStep]
    split
    · exact good_str
    · split <;> exact good_str
  | _ => exact good_null

/-! ### Compare.lean, Number.lean -/

mutual
theorem hasEnum2_good : ∀ v : Val, v.Good true = true → v.hasEnum2 = false
  | .arr t xs, h => by
    have ⟨ht, hx⟩ := good_arr.mp h
    have h2 := enum2_of_tagOk xs ht
    simp only [enum2] at h2
    simp only [Val.hasEnum2, h2, hasEnum2L_good xs hx, Bool.or_self]
  | .obj kvs, h => by
    simp only [Val.hasEnum2]
    exact hasEnum2F_good kvs (good_obj.mp h)
  | .null, _ => rfl
  | .bool _, _ => rfl
  | .str _, _ => rfl
  | .num _, _ => rfl
  | .foreign _, _ => rfl
theorem hasEnum2L_good : ∀ xs : List Val, Val.GoodL true xs = true → Val.hasEnum2L xs = false
  | [], _ => rfl
  | x :: xs, h => by
    have ⟨hx, hr⟩ := goodL_cons.mp h
    simp only [Val.hasEnum2L, hasEnum2_good x hx, hasEnum2L_good xs hr, Bool.or_self]
theorem hasEnum2F_good : ∀ kvs : List (Bytes × Val), Val.GoodF true kvs = true → Val.hasEnum2F kvs = false
  | [], _ => rfl
  | (k, x) :: kvs, h => by
    have ⟨hx, hr⟩ := goodF_cons.mp h
    simp only [Val.hasEnum2F, hasEnum2_good x hx, hasEnum2F_good kvs hr, Bool.or_self]
end

theorem Sat.nondet_hasEnum2 {α} {s : Bool} {P : α → Prop} {x y : Val} (hx : x.Good s = true) (hy : y.Good s = true)
    (hc : (x.hasEnum2 || y.hasEnum2) = true) : Res.Sat s P (Res.nondet : Res α) := by
  cases s with
  | false => rfl
  | true => rw [hasEnum2_good x hx, hasEnum2_good y hy] at hc; exact Bool.noConfusion hc

theorem equalR_sat {s : Bool} {x y : Val} (hx : x.Good s = true) (hy : y.Good s = true) :
    Res.Sat s (fun _ => True) (equalR x y) := by
  simp only [equalR]
  split
  · next hc => exact Sat.nondet_hasEnum2 hx hy hc
  · trivial

theorem contains_sat {s : Bool} {x y : Val} (hx : x.Good s = true) (hy : y.Good s = true) :
    GoodR s (contains x y) := by
  cases x with
  | str b => simp only [contains]; split <;> exact good_bool
  | arr t xs =>
    simp only [contains]
    split
    · next hc =>
      cases s with
      | false => rfl
      | true =>
        rw [hasEnum2L_good xs (good_arr.mp hx).2, hasEnum2_good y hy] at hc
        exact Bool.noConfusion hc
    · exact good_bool
  | _ => exact Sat.errType

theorem cmpOp_good {s : Bool} (f : Dec → Dec → Bool) (x y : Val) : (cmpOp f x y).Good s = true := by
  simp only [cmpOp]
  split
  · rfl
  · split <;> rfl

theorem checkD_sat {s : Bool} (r : Dec) : GoodR s (checkD r) := by
  simp only [checkD]
  split
  · exact Sat.errNaN
  · split
    · exact Sat.errNaN
    · exact good_num

theorem checkF_sat {s : Bool} (r : F64) : GoodR s (checkF r) := by
  simp only [checkF]
  split
  · exact Sat.errNaN
  · split
    · exact Sat.errNaN
    · exact good_num

theorem arith_sat {s : Bool} (fop : F64 → F64 → F64) (dop : Dec → Dec → Dec) (x y : Val) :
    GoodR s (arith fop dop x y) := by
  simp only [arith]
  split
  · exact checkF_sat _
  · split
    · exact Sat.errType
    · split
      · exact Sat.errType
      · exact checkD_sat _

theorem numAbs_sat {s : Bool} (v : Val) : GoodR s (numAbs v) := by
  simp only [numAbs]
  split
  · exact good_num
  · split
    · exact Sat.errType
    · exact good_num

theorem numCeil_sat {s : Bool} (v : Val) : GoodR s (numCeil v) := by
  simp only [numCeil]
  split
  · exact good_num
  · split
    · exact Sat.errType
    · exact good_num

theorem numFloor_sat {s : Bool} (v : Val) : GoodR s (numFloor v) := by
  simp only [numFloor]
  split
  · exact good_num
  · split
    · exact Sat.errType
    · exact good_num

theorem enumSumOk_of_tagOk {t : ATag} (xs : List Val) (h : tagOk true t = true) : enumSumOk t xs = true := by
  cases t <;> first | rfl | exact absurd h (by decide)

theorem Sat.nondet_enumSum {α} {s : Bool} {P : α → Prop} {t : ATag} {xs : List Val} (ht : tagOk s t = true)
    (hc : ¬ enumSumOk t xs = true) : Res.Sat s P (Res.nondet : Res α) := by
  cases s with
  | false => rfl
  | true => exact absurd (enumSumOk_of_tagOk xs ht) hc

theorem numSum_sat {s : Bool} {v : Val} (h : v.Good s = true) : GoodR s (numSum v) := by
  cases v with
  | arr t xs =>
    have ⟨ht, _⟩ := good_arr.mp h
    simp only [numSum]
    split
    · exact Sat.errType
    · split
      · exact checkD_sat _
      · next hc => exact Sat.nondet_enumSum ht hc
  | _ => exact Sat.errType

theorem numAvg_sat {s : Bool} {v : Val} (h : v.Good s = true) : GoodR s (numAvg v) := by
  cases v with
  | arr t xs =>
    have ⟨ht, _⟩ := good_arr.mp h
    simp only [numAvg]
    split
    · exact good_null
    · split
      · exact Sat.errType
      · split
        · exact checkD_sat _
        · next hc => exact Sat.nondet_enumSum ht hc
  | _ => exact Sat.errType


/-! ### String.lean, Functions.lean -/

theorem strArg_sat {s : Bool} (v : Val) : Res.Sat s (fun _ => True) (strArg v) := by
  cases v <;> first | trivial | exact Sat.errType

theorem intArg_sat {s : Bool} (v : Val) : Res.Sat s (fun _ => True) (intArg v) := by
  simp only [intArg]
  split
  · trivial
  · exact Sat.errType
  · split
    · exact Sat.errType
    · exact Sat.errValue
  · trivial
  · trivial

/-- closes goals about the string builtins: peel the argument conversions, split the conditionals, and
    recognise the scalar results -/
macro "sat_auto" : tactic => `(tactic| repeat (first
  | exact Sat.pure good_null | exact Sat.pure good_str | exact Sat.pure good_num | exact Sat.pure good_bool
  | exact Sat.errType | exact Sat.errValue | exact Sat.errNaN | exact trivial
  | (refine Sat.bind (strArg_sat _) fun _ _ => ?_) | (refine Sat.bind (intArg_sat _) fun _ _ => ?_)
  | split))

theorem startsWith_sat {s : Bool} (a b : Val) : GoodR s (startsWith a b) := by
  simp only [startsWith]; sat_auto
theorem endsWith_sat {s : Bool} (a b : Val) : GoodR s (endsWith a b) := by
  simp only [endsWith]; sat_auto
theorem findFirst_sat {s : Bool} (a b : Val) : GoodR s (findFirst a b) := by
  simp only [findFirst]; sat_auto
theorem findLast_sat {s : Bool} (a b : Val) : GoodR s (findLast a b) := by
  simp only [findLast]; sat_auto
theorem findFrom_sat {s : Bool} (l : Bool) (a b c : Val) : GoodR s (findFrom l a b c) := by
  simp only [findFrom]; sat_auto
theorem findBetween_sat {s : Bool} (l : Bool) (a b c d : Val) : GoodR s (findBetween l a b c d) := by
  simp only [findBetween]
  refine Sat.bind (strArg_sat _) fun _ _ => Sat.bind (strArg_sat _) fun _ _ => Sat.bind (P := fun _ => True) ?_ fun _ _ => ?_
  · sat_auto
  · sat_auto

theorem join_sat {s : Bool} {a b : Val} (hb : b.Good s = true) : GoodR s (join a b) := by
  cases b with
  | arr t xs =>
    have ⟨ht, _⟩ := good_arr.mp hb
    simp only [join]
    split
    · split
      · split
        · next he => exact Sat.nondet_of' ht he
        · exact good_str
      · exact Sat.errType
    · exact Sat.errType
  | _ => exact Sat.errType

theorem padWith_sat {s : Bool} (left : Bool) (b : Bytes) (w : Int) (p : Bytes) {orig : Val}
    (h : orig.Good s = true) : GoodR s (padWith left b w p orig) := by
  simp only [padWith]
  split
  · exact Sat.errValue
  · split
    · exact Sat.errValue
    · split
      · exact h
      · split
        · trivial
        · exact good_str

theorem padLeft_sat {s : Bool} {a : Val} (b c : Val) (h : a.Good s = true) : GoodR s (padLeft a b c) := by
  simp only [padLeft]
  exact Sat.bind (strArg_sat _) fun _ _ => Sat.bind (strArg_sat _) fun _ _ => Sat.bind (intArg_sat _) fun _ _ =>
    padWith_sat _ _ _ _ h
theorem padRight_sat {s : Bool} {a : Val} (b c : Val) (h : a.Good s = true) : GoodR s (padRight a b c) := by
  simp only [padRight]
  exact Sat.bind (strArg_sat _) fun _ _ => Sat.bind (strArg_sat _) fun _ _ => Sat.bind (intArg_sat _) fun _ _ =>
    padWith_sat _ _ _ _ h
theorem padSpaceLeft_sat {s : Bool} {a : Val} (b : Val) (h : a.Good s = true) : GoodR s (padSpaceLeft a b) := by
  simp only [padSpaceLeft]
  exact Sat.bind (strArg_sat _) fun _ _ => Sat.bind (intArg_sat _) fun _ _ => padWith_sat _ _ _ _ h
theorem padSpaceRight_sat {s : Bool} {a : Val} (b : Val) (h : a.Good s = true) : GoodR s (padSpaceRight a b) := by
  simp only [padSpaceRight]
  exact Sat.bind (strArg_sat _) fun _ _ => Sat.bind (intArg_sat _) fun _ _ => padWith_sat _ _ _ _ h

theorem replace_sat {s : Bool} (a b c : Val) : GoodR s (replace a b c) := by
  simp only [replace]; sat_auto
theorem replaceCount_sat {s : Bool} (a b c d : Val) : GoodR s (replaceCount a b c d) := by
  simp only [replaceCount]; sat_auto

theorem strsToArr_good {s : Bool} (ss : List Bytes) : (strsToArr ss).Good s = true := by
  refine good_plainArr (goodL_iff.mpr fun y hy => ?_)
  obtain ⟨b, _, rfl⟩ := List.mem_map.mp hy
  rfl

theorem split_sat {s : Bool} (a b : Val) : GoodR s (split a b) := by
  simp only [split]
  refine Sat.bind (strArg_sat _) fun _ _ => Sat.bind (strArg_sat _) fun _ _ => ?_
  split
  · exact good_plainArr rfl
  · split <;> exact strsToArr_good _

theorem splitCount_sat {s : Bool} (a b c : Val) : GoodR s (splitCount a b c) := by
  simp only [splitCount]
  refine Sat.bind (strArg_sat _) fun _ _ => Sat.bind (strArg_sat _) fun _ _ => Sat.bind (intArg_sat _) fun _ _ => ?_
  split
  · exact Sat.errValue
  · split
    · exact good_plainArr (goodL_cons.mpr ⟨good_str, rfl⟩)
    · split
      · exact good_plainArr rfl
      · split <;> exact strsToArr_good _

theorem trim_sat {s : Bool} (a b : Val) : GoodR s (trim a b) := by
  simp only [trim]; sat_auto
theorem trimLeft_sat {s : Bool} (a b : Val) : GoodR s (trimLeft a b) := by
  simp only [trimLeft]; sat_auto
theorem trimRight_sat {s : Bool} (a b : Val) : GoodR s (trimRight a b) := by
  simp only [trimRight]; sat_auto
theorem trimSpace_sat {s : Bool} (a : Val) : GoodR s (trimSpace a) := by
  simp only [trimSpace]; sat_auto
theorem trimSpaceLeft_sat {s : Bool} (a : Val) : GoodR s (trimSpaceLeft a) := by
  simp only [trimSpaceLeft]; sat_auto
theorem trimSpaceRight_sat {s : Bool} (a : Val) : GoodR s (trimSpaceRight a) := by
  simp only [trimSpaceRight]; sat_auto

theorem length_sat {s : Bool} (v : Val) : GoodR s (length v) := by
  cases v <;> first | exact good_num | exact Sat.errType

theorem caseMap_sat {s : Bool} (f : Nat → Option Nat) (b : Bytes) : GoodR s (caseMap f b) := by
  simp only [caseMap]
  split
  · exact good_str
  · split
    · exact good_str
    · trivial

theorem lower_sat {s : Bool} (v : Val) : GoodR s (lower v) := by
  cases v <;> first | exact caseMap_sat _ _ | exact Sat.errType
theorem upper_sat {s : Bool} (v : Val) : GoodR s (upper v) := by
  cases v <;> first | exact caseMap_sat _ _ | exact Sat.errType

theorem reverse_sat {s : Bool} {v : Val} (h : v.Good s = true) : GoodR s (reverse v) := by
  cases v with
  | str b => exact good_str
  | arr t xs =>
    have ⟨ht, hx⟩ := good_arr.mp h
    exact good_arr.mpr ⟨tagOk_derived ht, goodL_sub hx fun y hy => List.mem_reverse.mp hy⟩
  | _ => exact Sat.errType

theorem toArray_good {s : Bool} {v : Val} (h : v.Good s = true) : (toArray v).Good s = true := by
  cases v with
  | arr t xs => exact h
  | _ => exact good_plainArr (goodL_cons.mpr ⟨h, rfl⟩)

theorem toNumber_good {s : Bool} (v : Val) : (toNumber v).Good s = true := by
  cases v with
  | str b =>
    simp only [toNumber]
    split
    · split <;> rfl
    · rfl
  | _ => rfl

theorem toStringV_sat {s : Bool} {v : Val} (h : v.Good s = true) : GoodR s (toStringV v) := by
  cases v with
  | str b => exact good_str
  | _ =>
    simp only [toStringV]
    split
    · next hc => exact Sat.nondet_hasEnum2 (y := .null) h rfl (by rw [hc]; rfl)
    · split
      · exact good_str
      · exact Sat.err1 _
      · trivial

theorem typeName_sat {s : Bool} (v : Val) : GoodR s (typeName v) := by
  cases v <;> first | exact good_str | exact Sat.errType

/-! ### Eval.lean: builtins and operators -/

/-- the builtins that are excluded in strict mode: the three that range over a Go map, and the unstable `sort` -/
def Fn.enumerates : Fn → Bool
  | .keys | .values | .items | .sort => true
  | _ => false

theorem applyFn_sat {s : Bool} (f : Fn) {args : List Val} (hf : s = true → Fn.enumerates f = false)
    (h : Val.GoodL s args = true) : GoodR s (applyFn f args) := by
  have hs : Fn.enumerates f = true → s = false := fun he => by
    cases s with
    | false => rfl
    | true => rw [hf rfl] at he; exact Bool.noConfusion he
  unfold applyFn
  split
  all_goals first
    | exact Sat.err1 _
    | skip
  all_goals simp only [goodL_cons] at h
  · exact numAbs_sat _
  · exact numAvg_sat h.1
  · exact numCeil_sat _
  · exact contains_sat h.1 h.2.1
  · exact endsWith_sat _ _
  · exact findFirst_sat _ _
  · exact findBetween_sat _ _ _ _ _
  · exact findFrom_sat _ _ _ _
  · exact findLast_sat _ _
  · exact findBetween_sat _ _ _ _ _
  · exact findFrom_sat _ _ _ _
  · exact numFloor_sat _
  · exact fromItems_sat h.1
  · exact items_sat (hs rfl) h.1
  · exact join_sat h.2.1
  · exact keys_sat (hs rfl) h.1
  · exact length_sat _
  · exact lower_sat _
  · exact arrayMax_sat h.1
  · exact arrayMin_sat h.1
  · exact padLeft_sat _ _ h.1
  · exact padRight_sat _ _ h.1
  · exact padSpaceLeft_sat _ h.1
  · exact padSpaceRight_sat _ h.1
  · exact replace_sat _ _ _
  · exact replaceCount_sat _ _ _ _
  · exact reverse_sat h.1
  · have := hs rfl
    subst this
    exact sortArray_sat h.1
  · exact split_sat _ _
  · exact splitCount_sat _ _ _
  · exact startsWith_sat _ _
  · exact numSum_sat h.1
  · exact toArray_good h.1
  · exact toNumber_good _
  · exact toStringV_sat h.1
  · exact trim_sat _ _
  · exact trimLeft_sat _ _
  · exact trimRight_sat _ _
  · exact trimSpace_sat _
  · exact trimSpaceLeft_sat _
  · exact trimSpaceRight_sat _
  · exact typeName_sat _
  · exact upper_sat _
  · exact values_sat (hs rfl) h.1

theorem applyBinOp_sat {s : Bool} (op : BinOp) {l r : Val} (hl : l.Good s = true) (hr : r.Good s = true) :
    GoodR s (applyBinOp op l r) := by
  cases op
  case eq => exact Sat.bind (equalR_sat hl hr) fun _ _ => Sat.pure good_bool
  case ne => exact Sat.bind (equalR_sat hl hr) fun _ _ => Sat.pure good_bool
  case lt => exact cmpOp_good _ _ _
  case le => exact cmpOp_good _ _ _
  case gt => exact cmpOp_good _ _ _
  case ge => exact cmpOp_good _ _ _
  all_goals exact arith_sat _ _ _ _

theorem negateVal_good {s : Bool} (v : Val) : (negateVal v).Good s = true := by
  simp only [negateVal]
  split
  · rfl
  · split
    · rfl
    · split <;> rfl

theorem combineUnordered_sat {s : Bool} {acc : Res (List (Bytes × Val))} (k : Bytes) {r : Res Val}
    (ha : GoodFR s acc) (hr : GoodR s r) (hs : s = true → acc = .ok []) :
    GoodFR s (combineUnordered acc k r) := by
  cases s with
  | true =>
    rw [hs rfl]
    cases r with
    | ok v => exact goodF_cons.mpr ⟨hr, rfl⟩
    | err cs => exact hr
    | nondet => exact hr
    | panic w => trivial
    | unmodelled w => trivial
  | false =>
    cases acc <;> cases r <;> simp only [combineUnordered] <;>
      first
        | exact goodF_objInsert hr ha
        | trivial
        | rfl
        | exact fun h => Bool.noConfusion h

theorem goodL_zipRows {s : Bool} : ∀ (n : Nat) {cols : List (List Val)}, (∀ c ∈ cols, Val.GoodL s c = true) →
    Val.GoodL s (zipRows n cols) = true
  | 0, _, _ => rfl
  | n + 1, cols, h => by
    simp only [zipRows]
    refine goodL_cons.mpr ⟨good_plainArr (goodL_iff.mpr fun y hy => ?_), goodL_zipRows n fun c hc => ?_⟩
    · obtain ⟨c, hc, rfl⟩ := List.mem_map.mp hy
      cases c with
      | nil => rfl
      | cons a as => exact (goodL_cons.mp (h _ hc)).1
    · obtain ⟨c', hc', rfl⟩ := List.mem_map.mp hc
      cases c' with
      | nil => rfl
      | cons a as => exact (goodL_cons.mp (h _ hc')).2

theorem zipArgs_sat {s : Bool} : ∀ {vs : List Val}, Val.GoodL s vs = true →
    Res.Sat s (fun cols => ∀ c ∈ cols, Val.GoodL s c = true) (zipArgs vs)
  | [], _ => fun _ h => by cases h
  | v :: rest, h => by
    have ⟨hv, hr⟩ := goodL_cons.mp h
    cases v with
    | arr t xs =>
      have ⟨ht, hx⟩ := good_arr.mp hv
      simp only [zipArgs]
      refine Sat.bind (zipArgs_sat hr) fun cols hcols => ?_
      split
      · next he => exact Sat.nondet_of' ht he
      · refine Sat.pure fun c hc => ?_
        rcases List.mem_cons.mp hc with rfl | hm
        · exact hx
        · exact hcols c hm
    | _ => exact Sat.errType


/-! ### the evaluator preserves `Good s` -/

/-- what the main theorem asks of every sub-node: literals are good values, and in strict mode the node does not
    enumerate an object -/
def nodeOk (s : Bool) (n : INode) : Bool := INode.litOk (Val.Good s) n && (!s || INode.noEnumHead n)

theorem nodeOk_lit {s : Bool} {v : Val} (h : nodeOk s (.lit v) = true) : v.Good s = true := by
  simp only [nodeOk, INode.litOk, Bool.and_eq_true] at h
  exact h.1

theorem nodeOk_nonstrict {s : Bool} {n : INode} (h : nodeOk s n = true) (hn : INode.noEnumHead n = false) :
    s = false := by
  cases s with
  | false => rfl
  | true => simp [nodeOk, hn] at h

theorem nodeOk_call {s : Bool} {f : Fn} {args : List INode} (h : nodeOk s (.call f args) = true) :
    s = true → Fn.enumerates f = false := by
  intro hs
  subst hs
  cases f <;> first | rfl | simp [nodeOk, INode.noEnumHead, INode.litOk] at h

theorem nodeOk_selectObject {s : Bool} {c : INode} {fs : List (Bytes × INode)}
    (h : nodeOk s (.selectObject c fs) = true) : s = true → fs.length ≤ 1 := by
  intro hs
  subst hs
  simpa [nodeOk, INode.noEnumHead, INode.litOk] using h

theorem nodeOk_selectObjectCurrent {s : Bool} {fs : List (Bytes × INode)}
    (h : nodeOk s (.selectObjectCurrent fs) = true) : s = true → fs.length ≤ 1 := by
  intro hs
  subst hs
  simpa [nodeOk, INode.noEnumHead, INode.litOk] using h

theorem nodeOk_defineVariables {s : Bool} {c : INode} {fs : List (Bytes × INode)}
    (h : nodeOk s (.defineVariables fs c) = true) : s = true → fs.length ≤ 1 := by
  intro hs
  subst hs
  simpa [nodeOk, INode.noEnumHead, INode.litOk] using h

mutual
theorem ieval_sat {s : Bool} {root : Val} (hroot : root.Good s = true) :
    ∀ (n : INode) (cur : Val) (env : Env), n.all (nodeOk s) = true → cur.Good s = true → Val.GoodF s env = true →
      GoodR s (ieval root n cur env)
  | .lit v, cur, env, h, hc, hv => by
    simp only [INode.all] at h
    exact nodeOk_lit h
  | .current, cur, env, h, hc, hv => hc
  | .root, cur, env, h, hc, hv => hroot
  | .field k, cur, env, h, hc, hv => field_good k hc
  | .variable name, cur, env, h, hc, hv => by
    simp only [ieval, Env.get]
    cases hl : objLookup name env with
    | none => exact Sat.err1 _
    | some v => exact good_objLookup hv hl
  | .binop op l r, cur, env, h, hc, hv => by
    simp only [INode.all, Bool.and_eq_true] at h
    simp only [ieval]
    exact Sat.bind (ieval_sat hroot l cur env h.1.2 hc hv) fun a ha =>
      Sat.bind (ieval_sat hroot r cur env h.2 hc hv) fun b hb => applyBinOp_sat op ha hb
  | .and l r, cur, env, h, hc, hv => by
    simp only [INode.all, Bool.and_eq_true] at h
    simp only [ieval]
    refine Sat.bind (ieval_sat hroot l cur env h.1.2 hc hv) fun a ha => ?_
    split
    · exact Sat.pure ha
    · exact ieval_sat hroot r cur env h.2 hc hv
  | .or l r, cur, env, h, hc, hv => by
    simp only [INode.all, Bool.and_eq_true] at h
    simp only [ieval]
    refine Sat.bind (ieval_sat hroot l cur env h.1.2 hc hv) fun a ha => ?_
    split
    · exact Sat.pure ha
    · exact ieval_sat hroot r cur env h.2 hc hv
  | .not c, cur, env, h, hc, hv => by
    simp only [INode.all, Bool.and_eq_true] at h
    simp only [ieval]
    exact Sat.bind (ieval_sat hroot c cur env h.2 hc hv) fun a ha => Sat.pure good_bool
  | .negate c, cur, env, h, hc, hv => by
    simp only [INode.all, Bool.and_eq_true] at h
    simp only [ieval]
    exact Sat.bind (ieval_sat hroot c cur env h.2 hc hv) fun a ha => Sat.pure (negateVal_good a)
  | .assertNumber c, cur, env, h, hc, hv => by
    simp only [INode.all, Bool.and_eq_true] at h
    simp only [ieval]
    refine Sat.bind (ieval_sat hroot c cur env h.2 hc hv) fun a ha => Sat.pure ?_
    split
    · exact ha
    · rfl
  | .call f args, cur, env, h, hc, hv => by
    simp only [INode.all, Bool.and_eq_true] at h
    simp only [ieval]
    exact Sat.bind (ievalList_sat hroot args cur env h.2 hc hv) fun vs hvs => applyFn_sat f (nodeOk_call h.1) hvs
  | .defineVariables vars child, cur, env, h, hc, hv => by
    simp only [INode.all, Bool.and_eq_true] at h
    simp only [ieval]
    exact Sat.bind (ievalFields_sat hroot vars cur env h.1.2 hc hv (nodeOk_defineVariables h.1.1)) fun bs hbs =>
      ieval_sat hroot child cur (bs ++ env) h.2 hc (goodF_append hbs hv)
  | .filter c f, cur, env, h, hc, hv => by
    simp only [INode.all, Bool.and_eq_true] at h
    simp only [ieval]
    exact Sat.bind (ieval_sat hroot c cur env h.1.2 hc hv) fun a ha =>
      filterArray_sat (fun v hv' => ieval_sat hroot f v env h.2 hv' hv) ha
  | .filterCurrent f, cur, env, h, hc, hv => by
    simp only [INode.all, Bool.and_eq_true] at h
    simp only [ieval]
    exact filterArray_sat (fun v hv' => ieval_sat hroot f v env h.2 hv' hv) hc
  | .filterAndProject l f r, cur, env, h, hc, hv => by
    simp only [INode.all, Bool.and_eq_true] at h
    simp only [ieval]
    exact Sat.bind (ieval_sat hroot l cur env h.1.1.2 hc hv) fun a ha =>
      filterAndProjectArray_sat (fun v hv' => ieval_sat hroot f v env h.1.2 hv' hv)
        (fun v hv' => ieval_sat hroot r v env h.2 hv' hv) ha
  | .filterAndProjectCurrent f c, cur, env, h, hc, hv => by
    simp only [INode.all, Bool.and_eq_true] at h
    simp only [ieval]
    exact filterAndProjectArray_sat (fun v hv' => ieval_sat hroot f v env h.1.2 hv' hv)
        (fun v hv' => ieval_sat hroot c v env h.2 hv' hv) hc
  | .flatten c, cur, env, h, hc, hv => by
    simp only [INode.all, Bool.and_eq_true] at h
    simp only [ieval]
    exact Sat.bind (ieval_sat hroot c cur env h.2 hc hv) fun a ha => Sat.pure (flatten_good ha)
  | .flattenCurrent, cur, env, h, hc, hv => flatten_good hc
  | .flattenAndProject l r, cur, env, h, hc, hv => by
    simp only [INode.all, Bool.and_eq_true] at h
    simp only [ieval]
    exact Sat.bind (ieval_sat hroot l cur env h.1.2 hc hv) fun a ha =>
      flattenAndProjectArray_sat (fun v hv' => ieval_sat hroot r v env h.2 hv' hv) ha
  | .flattenAndProjectCurrent c, cur, env, h, hc, hv => by
    simp only [INode.all, Bool.and_eq_true] at h
    simp only [ieval]
    exact flattenAndProjectArray_sat (fun v hv' => ieval_sat hroot c v env h.2 hv' hv) hc
  | .index c i, cur, env, h, hc, hv => by
    simp only [INode.all, Bool.and_eq_true] at h
    simp only [ieval]
    exact Sat.bind (ieval_sat hroot c cur env h.2 hc hv) fun a ha => index_sat i ha
  | .indexCurrent i, cur, env, h, hc, hv => index_sat i hc
  | .smallIndexCurrent i, cur, env, h, hc, hv => index_sat _ hc
  | .objectValues c, cur, env, h, hc, hv => by
    simp only [INode.all, Bool.and_eq_true] at h
    simp only [ieval]
    exact Sat.bind (ieval_sat hroot c cur env h.2 hc hv) fun a ha =>
      Sat.pure (objectValues_good (nodeOk_nonstrict h.1 rfl) ha)
  | .objectValuesCurrent, cur, env, h, hc, hv => by
    simp only [INode.all] at h
    exact objectValues_good (nodeOk_nonstrict h rfl) hc
  | .pipe l r, cur, env, h, hc, hv => by
    simp only [INode.all, Bool.and_eq_true] at h
    simp only [ieval]
    exact Sat.bind (ieval_sat hroot l cur env h.1.2 hc hv) fun a ha => ieval_sat hroot r a env h.2 ha hv
  | .projectArray l r, cur, env, h, hc, hv => by
    simp only [INode.all, Bool.and_eq_true] at h
    simp only [ieval]
    refine Sat.bind (ieval_sat hroot l cur env h.1.2 hc hv) fun a ha => ?_
    split
    · split
      · exact ieval_sat hroot r _ env h.2 ha hv
      · exact projectArray_sat (fun v hv' => ieval_sat hroot r v env h.2 hv' hv) ha
    · exact projectArray_sat (fun v hv' => ieval_sat hroot r v env h.2 hv' hv) ha
  | .projectArrayCurrent c, cur, env, h, hc, hv => by
    simp only [INode.all, Bool.and_eq_true] at h
    simp only [ieval]
    exact projectArray_sat (fun v hv' => ieval_sat hroot c v env h.2 hv' hv) hc
  | .projectObject l r, cur, env, h, hc, hv => by
    simp only [INode.all, Bool.and_eq_true] at h
    simp only [ieval]
    exact Sat.bind (ieval_sat hroot l cur env h.1.2 hc hv) fun a ha =>
      projectObject_sat (nodeOk_nonstrict h.1.1 rfl) (fun v hv' => ieval_sat hroot r v env h.2 hv' hv) ha
  | .projectObjectCurrent c, cur, env, h, hc, hv => by
    simp only [INode.all, Bool.and_eq_true] at h
    simp only [ieval]
    exact projectObject_sat (nodeOk_nonstrict h.1 rfl) (fun v hv' => ieval_sat hroot c v env h.2 hv' hv) hc
  | .pruneArray c, cur, env, h, hc, hv => by
    simp only [INode.all, Bool.and_eq_true] at h
    simp only [ieval]
    exact Sat.bind (ieval_sat hroot c cur env h.2 hc hv) fun a ha => Sat.pure (pruneArray_good ha)
  | .pruneArrayCurrent, cur, env, h, hc, hv => pruneArray_good hc
  | .selectArray c fs, cur, env, h, hc, hv => by
    simp only [INode.all, Bool.and_eq_true] at h
    simp only [ieval]
    refine Sat.bind (ieval_sat hroot c cur env h.1.2 hc hv) fun a ha => ?_
    split
    · exact Sat.pure good_null
    · exact Sat.bind (ievalList_sat hroot fs a env h.2 ha hv) fun vs hvs => Sat.pure (good_plainArr hvs)
  | .selectArrayCurrent fs, cur, env, h, hc, hv => by
    simp only [INode.all, Bool.and_eq_true] at h
    simp only [ieval]
    split
    · exact good_null
    · exact Sat.bind (ievalList_sat hroot fs cur env h.2 hc hv) fun vs hvs => Sat.pure (good_plainArr hvs)
  | .selectArraySingle c f, cur, env, h, hc, hv => by
    simp only [INode.all, Bool.and_eq_true] at h
    simp only [ieval]
    refine Sat.bind (ieval_sat hroot c cur env h.1.2 hc hv) fun a ha => ?_
    split
    · exact Sat.pure good_null
    · exact Sat.bind (ieval_sat hroot f a env h.2 ha hv) fun v hv' =>
        Sat.pure (good_plainArr (goodL_cons.mpr ⟨hv', rfl⟩))
  | .selectArraySingleCurrent f, cur, env, h, hc, hv => by
    simp only [INode.all, Bool.and_eq_true] at h
    simp only [ieval]
    exact Sat.bind (ieval_sat hroot f cur env h.2 hc hv) fun v hv' =>
      Sat.pure (good_plainArr (goodL_cons.mpr ⟨hv', rfl⟩))
  | .selectObject c fs, cur, env, h, hc, hv => by
    simp only [INode.all, Bool.and_eq_true] at h
    simp only [ieval]
    refine Sat.bind (ieval_sat hroot c cur env h.1.2 hc hv) fun a ha => ?_
    split
    · exact Sat.pure good_null
    · exact Sat.bind (ievalFields_sat hroot fs a env h.2 ha hv (nodeOk_selectObject h.1.1)) fun kvs hk =>
        Sat.pure (good_obj.mpr hk)
  | .selectObjectCurrent fs, cur, env, h, hc, hv => by
    simp only [INode.all, Bool.and_eq_true] at h
    simp only [ieval]
    split
    · exact good_null
    · exact Sat.bind (ievalFields_sat hroot fs cur env h.2 hc hv (nodeOk_selectObjectCurrent h.1)) fun kvs hk =>
        Sat.pure (good_obj.mpr hk)
  | .selectObjectSingle c k f, cur, env, h, hc, hv => by
    simp only [INode.all, Bool.and_eq_true] at h
    simp only [ieval]
    refine Sat.bind (ieval_sat hroot c cur env h.1.2 hc hv) fun a ha => ?_
    split
    · exact Sat.pure good_null
    · exact Sat.bind (ieval_sat hroot f a env h.2 ha hv) fun v hv' =>
        Sat.pure (good_obj.mpr (goodF_cons.mpr ⟨hv', rfl⟩))
  | .selectObjectSingleCurrent k f, cur, env, h, hc, hv => by
    simp only [INode.all, Bool.and_eq_true] at h
    simp only [ieval]
    exact Sat.bind (ieval_sat hroot f cur env h.2 hc hv) fun v hv' =>
      Sat.pure (good_obj.mpr (goodF_cons.mpr ⟨hv', rfl⟩))
  | .slice c a b, cur, env, h, hc, hv => by
    simp only [INode.all, Bool.and_eq_true] at h
    simp only [ieval]
    exact Sat.bind (ieval_sat hroot c cur env h.2 hc hv) fun v hv' => slice_sat a b hv'
  | .sliceCurrent a b, cur, env, h, hc, hv => slice_sat a b hc
  | .sliceStep c a b st, cur, env, h, hc, hv => by
    simp only [INode.all, Bool.and_eq_true] at h
    simp only [ieval]
    exact Sat.bind (ieval_sat hroot c cur env h.2 hc hv) fun v hv' => sliceStep_sat a b st hv'
  | .sliceStepCurrent a b st, cur, env, h, hc, hv => sliceStep_sat a b st hc
  | .groupBy a e, cur, env, h, hc, hv => by
    simp only [INode.all, Bool.and_eq_true] at h
    simp only [ieval]
    exact Sat.bind (ieval_sat hroot a cur env h.1.2 hc hv) fun v hv' =>
      groupBy_sat (fun x hx => ieval_sat hroot e x env h.2 hx hv) hv'
  | .map e a, cur, env, h, hc, hv => by
    simp only [INode.all, Bool.and_eq_true] at h
    simp only [ieval]
    exact Sat.bind (ieval_sat hroot a cur env h.2 hc hv) fun v hv' =>
      mapArray_sat (fun x hx => ieval_sat hroot e x env h.1.2 hx hv) hv'
  | .maxBy a e, cur, env, h, hc, hv => by
    simp only [INode.all, Bool.and_eq_true] at h
    simp only [ieval]
    exact Sat.bind (ieval_sat hroot a cur env h.1.2 hc hv) fun v hv' =>
      arrayPickBy_sat _ (fun x hx => ieval_sat hroot e x env h.2 hx hv) hv'
  | .minBy a e, cur, env, h, hc, hv => by
    simp only [INode.all, Bool.and_eq_true] at h
    simp only [ieval]
    exact Sat.bind (ieval_sat hroot a cur env h.1.2 hc hv) fun v hv' =>
      arrayPickBy_sat _ (fun x hx => ieval_sat hroot e x env h.2 hx hv) hv'
  | .sortBy a e, cur, env, h, hc, hv => by
    simp only [INode.all, Bool.and_eq_true] at h
    simp only [ieval]
    exact Sat.bind (ieval_sat hroot a cur env h.1.2 hc hv) fun v hv' =>
      sortArrayBy_sat (fun x hx => ieval_sat hroot e x env h.2 hx hv) hv'
  | .merge args, cur, env, h, hc, hv => by
    simp only [INode.all, Bool.and_eq_true] at h
    simp only [ieval]
    exact Sat.bind (ievalMerge_sat hroot args cur env [] h.2 hc hv rfl) fun kvs hk => Sat.pure (good_obj.mpr hk)
  | .notNull args, cur, env, h, hc, hv => by
    simp only [INode.all, Bool.and_eq_true] at h
    simp only [ieval]
    exact ievalNotNull_sat hroot args cur env h.2 hc hv
  | .zip args, cur, env, h, hc, hv => by
    simp only [INode.all, Bool.and_eq_true] at h
    simp only [ieval]
    refine Sat.bind (ievalZip_sat hroot args cur env h.2 hc hv) fun vs hvs =>
      Sat.bind (zipArgs_sat hvs) fun cols hcols => ?_
    split
    · exact Sat.pure (good_plainArr rfl)
    · exact Sat.pure (good_plainArr (goodL_zipRows _ hcols))
theorem ievalList_sat {s : Bool} {root : Val} (hroot : root.Good s = true) :
    ∀ (ns : List INode) (cur : Val) (env : Env), INode.allL (nodeOk s) ns = true → cur.Good s = true →
      Val.GoodF s env = true → GoodLR s (ievalList root ns cur env)
  | [], cur, env, h, hc, hv => goodL_nil
  | n :: ns, cur, env, h, hc, hv => by
    simp only [INode.allL, Bool.and_eq_true] at h
    simp only [ievalList]
    exact Sat.bind (ieval_sat hroot n cur env h.1 hc hv) fun v hv' =>
      Sat.bind (ievalList_sat hroot ns cur env h.2 hc hv) fun vs hvs => Sat.pure (goodL_cons.mpr ⟨hv', hvs⟩)
theorem ievalFields_sat {s : Bool} {root : Val} (hroot : root.Good s = true) :
    ∀ (fs : List (Bytes × INode)) (cur : Val) (env : Env), INode.allF (nodeOk s) fs = true → cur.Good s = true →
      Val.GoodF s env = true → (s = true → fs.length ≤ 1) → GoodFR s (ievalFields root fs cur env)
  | [], cur, env, h, hc, hv, hlen => goodF_nil
  | (k, n) :: rest, cur, env, h, hc, hv, hlen => by
    simp only [INode.allF, Bool.and_eq_true] at h
    simp only [ievalFields]
    have hrest : s = true → rest = [] := fun hs => by
      have := hlen hs
      simp only [List.length_cons] at this
      exact List.eq_nil_of_length_eq_zero (by omega)
    refine combineUnordered_sat k
      (ievalFields_sat hroot rest cur env h.2 hc hv fun hs => by rw [hrest hs]; exact Nat.zero_le _)
      (ieval_sat hroot n cur env h.1 hc hv) fun hs => ?_
    rw [hrest hs]
    rfl
theorem ievalMerge_sat {s : Bool} {root : Val} (hroot : root.Good s = true) :
    ∀ (ns : List INode) (cur : Val) (env : Env) (acc : List (Bytes × Val)), INode.allL (nodeOk s) ns = true →
      cur.Good s = true → Val.GoodF s env = true → Val.GoodF s acc = true →
      GoodFR s (ievalMerge root ns cur env acc)
  | [], cur, env, acc, h, hc, hv, ha => ha
  | n :: ns, cur, env, acc, h, hc, hv, ha => by
    simp only [INode.allL, Bool.and_eq_true] at h
    simp only [ievalMerge]
    refine Sat.bind (ieval_sat hroot n cur env h.1 hc hv) fun v hv' => ?_
    split
    · exact ievalMerge_sat hroot ns cur env _ h.2 hc hv (goodF_foldInsert (good_obj.mp hv') ha)
    · exact Sat.errType
theorem ievalNotNull_sat {s : Bool} {root : Val} (hroot : root.Good s = true) :
    ∀ (ns : List INode) (cur : Val) (env : Env), INode.allL (nodeOk s) ns = true → cur.Good s = true →
      Val.GoodF s env = true → GoodR s (ievalNotNull root ns cur env)
  | [], cur, env, h, hc, hv => good_null
  | n :: ns, cur, env, h, hc, hv => by
    simp only [INode.allL, Bool.and_eq_true] at h
    simp only [ievalNotNull]
    refine Sat.bind (ieval_sat hroot n cur env h.1 hc hv) fun v hv' => ?_
    split
    · exact ievalNotNull_sat hroot ns cur env h.2 hc hv
    · exact Sat.pure hv'
theorem ievalZip_sat {s : Bool} {root : Val} (hroot : root.Good s = true) :
    ∀ (ns : List INode) (cur : Val) (env : Env), INode.allL (nodeOk s) ns = true → cur.Good s = true →
      Val.GoodF s env = true → GoodLR s (ievalZip root ns cur env)
  | [], cur, env, h, hc, hv => goodL_nil
  | n :: ns, cur, env, h, hc, hv => by
    simp only [INode.allL, Bool.and_eq_true] at h
    simp only [ievalZip]
    refine Sat.bind (ieval_sat hroot n cur env h.1 hc hv) fun v hv' => ?_
    split
    · exact Sat.bind (ievalZip_sat hroot ns cur env h.2 hc hv) fun vs hvs => Sat.pure (goodL_cons.mpr ⟨hv', hvs⟩)
    · exact Sat.errType
end

end Invar

/-! ## `INode.all` distributes over conjunction (generated case lists) -/

mutual
theorem INode.all_and (p q : INode → Bool) : ∀ n : INode, n.all (fun m => p m && q m) = (n.all p && n.all q)
  | .lit a0 => rfl
  | .current => rfl
  | .root => rfl
  | .field a0 => rfl
  | .variable a0 => rfl
  | .binop a0 a1 a2 => by
    simp only [INode.all, INode.all_and p q a1, INode.all_and p q a2]
    ac_rfl
  | .and a0 a1 => by
    simp only [INode.all, INode.all_and p q a0, INode.all_and p q a1]
    ac_rfl
  | .or a0 a1 => by
    simp only [INode.all, INode.all_and p q a0, INode.all_and p q a1]
    ac_rfl
  | .not a0 => by
    simp only [INode.all, INode.all_and p q a0]
    ac_rfl
  | .negate a0 => by
    simp only [INode.all, INode.all_and p q a0]
    ac_rfl
  | .assertNumber a0 => by
    simp only [INode.all, INode.all_and p q a0]
    ac_rfl
  | .call a0 a1 => by
    simp only [INode.all, INode.allL_and p q a1]
    ac_rfl
  | .defineVariables a0 a1 => by
    simp only [INode.all, INode.allF_and p q a0, INode.all_and p q a1]
    ac_rfl
  | .filter a0 a1 => by
    simp only [INode.all, INode.all_and p q a0, INode.all_and p q a1]
    ac_rfl
  | .filterCurrent a0 => by
    simp only [INode.all, INode.all_and p q a0]
    ac_rfl
  | .filterAndProject a0 a1 a2 => by
    simp only [INode.all, INode.all_and p q a0, INode.all_and p q a1, INode.all_and p q a2]
    ac_rfl
  | .filterAndProjectCurrent a0 a1 => by
    simp only [INode.all, INode.all_and p q a0, INode.all_and p q a1]
    ac_rfl
  | .flatten a0 => by
    simp only [INode.all, INode.all_and p q a0]
    ac_rfl
  | .flattenCurrent => rfl
  | .flattenAndProject a0 a1 => by
    simp only [INode.all, INode.all_and p q a0, INode.all_and p q a1]
    ac_rfl
  | .flattenAndProjectCurrent a0 => by
    simp only [INode.all, INode.all_and p q a0]
    ac_rfl
  | .index a0 a1 => by
    simp only [INode.all, INode.all_and p q a0]
    ac_rfl
  | .indexCurrent a0 => rfl
  | .smallIndexCurrent a0 => rfl
  | .objectValues a0 => by
    simp only [INode.all, INode.all_and p q a0]
    ac_rfl
  | .objectValuesCurrent => rfl
  | .pipe a0 a1 => by
    simp only [INode.all, INode.all_and p q a0, INode.all_and p q a1]
    ac_rfl
  | .projectArray a0 a1 => by
    simp only [INode.all, INode.all_and p q a0, INode.all_and p q a1]
    ac_rfl
  | .projectArrayCurrent a0 => by
    simp only [INode.all, INode.all_and p q a0]
    ac_rfl
  | .projectObject a0 a1 => by
    simp only [INode.all, INode.all_and p q a0, INode.all_and p q a1]
    ac_rfl
  | .projectObjectCurrent a0 => by
    simp only [INode.all, INode.all_and p q a0]
    ac_rfl
  | .pruneArray a0 => by
    simp only [INode.all, INode.all_and p q a0]
    ac_rfl
  | .pruneArrayCurrent => rfl
  | .selectArray a0 a1 => by
    simp only [INode.all, INode.all_and p q a0, INode.allL_and p q a1]
    ac_rfl
  | .selectArrayCurrent a0 => by
    simp only [INode.all, INode.allL_and p q a0]
    ac_rfl
  | .selectArraySingle a0 a1 => by
    simp only [INode.all, INode.all_and p q a0, INode.all_and p q a1]
    ac_rfl
  | .selectArraySingleCurrent a0 => by
    simp only [INode.all, INode.all_and p q a0]
    ac_rfl
  | .selectObject a0 a1 => by
    simp only [INode.all, INode.all_and p q a0, INode.allF_and p q a1]
    ac_rfl
  | .selectObjectCurrent a0 => by
    simp only [INode.all, INode.allF_and p q a0]
    ac_rfl
  | .selectObjectSingle a0 a1 a2 => by
    simp only [INode.all, INode.all_and p q a0, INode.all_and p q a2]
    ac_rfl
  | .selectObjectSingleCurrent a0 a1 => by
    simp only [INode.all, INode.all_and p q a1]
    ac_rfl
  | .slice a0 a1 a2 => by
    simp only [INode.all, INode.all_and p q a0]
    ac_rfl
  | .sliceCurrent a0 a1 => rfl
  | .sliceStep a0 a1 a2 a3 => by
    simp only [INode.all, INode.all_and p q a0]
    ac_rfl
  | .sliceStepCurrent a0 a1 a2 => rfl
  | .groupBy a0 a1 => by
    simp only [INode.all, INode.all_and p q a0, INode.all_and p q a1]
    ac_rfl
  | .map a0 a1 => by
    simp only [INode.all, INode.all_and p q a0, INode.all_and p q a1]
    ac_rfl
  | .maxBy a0 a1 => by
    simp only [INode.all, INode.all_and p q a0, INode.all_and p q a1]
    ac_rfl
  | .minBy a0 a1 => by
    simp only [INode.all, INode.all_and p q a0, INode.all_and p q a1]
    ac_rfl
  | .sortBy a0 a1 => by
    simp only [INode.all, INode.all_and p q a0, INode.all_and p q a1]
    ac_rfl
  | .merge a0 => by
    simp only [INode.all, INode.allL_and p q a0]
    ac_rfl
  | .notNull a0 => by
    simp only [INode.all, INode.allL_and p q a0]
    ac_rfl
  | .zip a0 => by
    simp only [INode.all, INode.allL_and p q a0]
    ac_rfl
theorem INode.allL_and (p q : INode → Bool) : ∀ ns : List INode, INode.allL (fun m => p m && q m) ns = (INode.allL p ns && INode.allL q ns)
  | [] => rfl
  | n :: ns => by
    simp only [INode.allL, INode.all_and p q n, INode.allL_and p q ns]
    ac_rfl
theorem INode.allF_and (p q : INode → Bool) : ∀ fs : List (Bytes × INode), INode.allF (fun m => p m && q m) fs = (INode.allF p fs && INode.allF q fs)
  | [] => rfl
  | (k, n) :: fs => by
    simp only [INode.allF, INode.all_and p q n, INode.allF_and p q fs]
    ac_rfl
end

/-! ## A root-free node does not look at the root document; a variable-free node not at the environment -/

mutual
theorem ieval_root_irrel (root root' : Val) : ∀ (n : INode) (cur : Val) (env : Env), INode.all INode.notRoot n = true → ieval root n cur env = ieval root' n cur env
  | .lit a0, cur, env, h => by simp only [ieval]
  | .current, cur, env, h => by simp only [ieval]
  | .root, cur, env, h => by
    simp [INode.all, INode.notRoot] at h
  | .field a0, cur, env, h => by simp only [ieval]
  | .variable a0, cur, env, h => by simp only [ieval]
  | .binop a0 a1 a2, cur, env, h => by
    simp only [INode.all, Bool.and_eq_true] at h
    have e1 := fun v => ieval_root_irrel root root' a1 v env h.1.2
    have e2 := fun v => ieval_root_irrel root root' a2 v env h.2
    simp only [ieval, e1, e2]
  | .and a0 a1, cur, env, h => by
    simp only [INode.all, Bool.and_eq_true] at h
    have e0 := fun v => ieval_root_irrel root root' a0 v env h.1.2
    have e1 := fun v => ieval_root_irrel root root' a1 v env h.2
    simp only [ieval, e0, e1]
  | .or a0 a1, cur, env, h => by
    simp only [INode.all, Bool.and_eq_true] at h
    have e0 := fun v => ieval_root_irrel root root' a0 v env h.1.2
    have e1 := fun v => ieval_root_irrel root root' a1 v env h.2
    simp only [ieval, e0, e1]
  | .not a0, cur, env, h => by
    simp only [INode.all, Bool.and_eq_true] at h
    have e0 := fun v => ieval_root_irrel root root' a0 v env h.2
    simp only [ieval, e0]
  | .negate a0, cur, env, h => by
    simp only [INode.all, Bool.and_eq_true] at h
    have e0 := fun v => ieval_root_irrel root root' a0 v env h.2
    simp only [ieval, e0]
  | .assertNumber a0, cur, env, h => by
    simp only [INode.all, Bool.and_eq_true] at h
    have e0 := fun v => ieval_root_irrel root root' a0 v env h.2
    simp only [ieval, e0]
  | .call a0 a1, cur, env, h => by
    simp only [INode.all, Bool.and_eq_true] at h
    have e1 := fun v => ievalList_root_irrel root root' a1 v env h.2
    simp only [ieval, e1]
  | .defineVariables a0 a1, cur, env, h => by
    simp only [INode.all, Bool.and_eq_true] at h
    have e0 := fun v => ievalFields_root_irrel root root' a0 v env h.1.2
    have e1 := fun v env => ieval_root_irrel root root' a1 v env h.2
    simp only [ieval, e0, e1]
  | .filter a0 a1, cur, env, h => by
    simp only [INode.all, Bool.and_eq_true] at h
    have e0 := fun v => ieval_root_irrel root root' a0 v env h.1.2
    have e1 := fun v => ieval_root_irrel root root' a1 v env h.2
    simp only [ieval, e0, e1]
  | .filterCurrent a0, cur, env, h => by
    simp only [INode.all, Bool.and_eq_true] at h
    have e0 := fun v => ieval_root_irrel root root' a0 v env h.2
    simp only [ieval, e0]
  | .filterAndProject a0 a1 a2, cur, env, h => by
    simp only [INode.all, Bool.and_eq_true] at h
    have e0 := fun v => ieval_root_irrel root root' a0 v env h.1.1.2
    have e1 := fun v => ieval_root_irrel root root' a1 v env h.1.2
    have e2 := fun v => ieval_root_irrel root root' a2 v env h.2
    simp only [ieval, e0, e1, e2]
  | .filterAndProjectCurrent a0 a1, cur, env, h => by
    simp only [INode.all, Bool.and_eq_true] at h
    have e0 := fun v => ieval_root_irrel root root' a0 v env h.1.2
    have e1 := fun v => ieval_root_irrel root root' a1 v env h.2
    simp only [ieval, e0, e1]
  | .flatten a0, cur, env, h => by
    simp only [INode.all, Bool.and_eq_true] at h
    have e0 := fun v => ieval_root_irrel root root' a0 v env h.2
    simp only [ieval, e0]
  | .flattenCurrent, cur, env, h => by simp only [ieval]
  | .flattenAndProject a0 a1, cur, env, h => by
    simp only [INode.all, Bool.and_eq_true] at h
    have e0 := fun v => ieval_root_irrel root root' a0 v env h.1.2
    have e1 := fun v => ieval_root_irrel root root' a1 v env h.2
    simp only [ieval, e0, e1]
  | .flattenAndProjectCurrent a0, cur, env, h => by
    simp only [INode.all, Bool.and_eq_true] at h
    have e0 := fun v => ieval_root_irrel root root' a0 v env h.2
    simp only [ieval, e0]
  | .index a0 a1, cur, env, h => by
    simp only [INode.all, Bool.and_eq_true] at h
    have e0 := fun v => ieval_root_irrel root root' a0 v env h.2
    simp only [ieval, e0]
  | .indexCurrent a0, cur, env, h => by simp only [ieval]
  | .smallIndexCurrent a0, cur, env, h => by simp only [ieval]
  | .objectValues a0, cur, env, h => by
    simp only [INode.all, Bool.and_eq_true] at h
    have e0 := fun v => ieval_root_irrel root root' a0 v env h.2
    simp only [ieval, e0]
  | .objectValuesCurrent, cur, env, h => by simp only [ieval]
  | .pipe a0 a1, cur, env, h => by
    simp only [INode.all, Bool.and_eq_true] at h
    have e0 := fun v => ieval_root_irrel root root' a0 v env h.1.2
    have e1 := fun v => ieval_root_irrel root root' a1 v env h.2
    simp only [ieval, e0, e1]
  | .projectArray a0 a1, cur, env, h => by
    simp only [INode.all, Bool.and_eq_true] at h
    have e0 := fun v => ieval_root_irrel root root' a0 v env h.1.2
    have e1 := fun v => ieval_root_irrel root root' a1 v env h.2
    simp only [ieval, e0, e1]
  | .projectArrayCurrent a0, cur, env, h => by
    simp only [INode.all, Bool.and_eq_true] at h
    have e0 := fun v => ieval_root_irrel root root' a0 v env h.2
    simp only [ieval, e0]
  | .projectObject a0 a1, cur, env, h => by
    simp only [INode.all, Bool.and_eq_true] at h
    have e0 := fun v => ieval_root_irrel root root' a0 v env h.1.2
    have e1 := fun v => ieval_root_irrel root root' a1 v env h.2
    simp only [ieval, e0, e1]
  | .projectObjectCurrent a0, cur, env, h => by
    simp only [INode.all, Bool.and_eq_true] at h
    have e0 := fun v => ieval_root_irrel root root' a0 v env h.2
    simp only [ieval, e0]
  | .pruneArray a0, cur, env, h => by
    simp only [INode.all, Bool.and_eq_true] at h
    have e0 := fun v => ieval_root_irrel root root' a0 v env h.2
    simp only [ieval, e0]
  | .pruneArrayCurrent, cur, env, h => by simp only [ieval]
  | .selectArray a0 a1, cur, env, h => by
    simp only [INode.all, Bool.and_eq_true] at h
    have e0 := fun v => ieval_root_irrel root root' a0 v env h.1.2
    have e1 := fun v => ievalList_root_irrel root root' a1 v env h.2
    simp only [ieval, e0, e1]
  | .selectArrayCurrent a0, cur, env, h => by
    simp only [INode.all, Bool.and_eq_true] at h
    have e0 := fun v => ievalList_root_irrel root root' a0 v env h.2
    simp only [ieval, e0]
  | .selectArraySingle a0 a1, cur, env, h => by
    simp only [INode.all, Bool.and_eq_true] at h
    have e0 := fun v => ieval_root_irrel root root' a0 v env h.1.2
    have e1 := fun v => ieval_root_irrel root root' a1 v env h.2
    simp only [ieval, e0, e1]
  | .selectArraySingleCurrent a0, cur, env, h => by
    simp only [INode.all, Bool.and_eq_true] at h
    have e0 := fun v => ieval_root_irrel root root' a0 v env h.2
    simp only [ieval, e0]
  | .selectObject a0 a1, cur, env, h => by
    simp only [INode.all, Bool.and_eq_true] at h
    have e0 := fun v => ieval_root_irrel root root' a0 v env h.1.2
    have e1 := fun v => ievalFields_root_irrel root root' a1 v env h.2
    simp only [ieval, e0, e1]
  | .selectObjectCurrent a0, cur, env, h => by
    simp only [INode.all, Bool.and_eq_true] at h
    have e0 := fun v => ievalFields_root_irrel root root' a0 v env h.2
    simp only [ieval, e0]
  | .selectObjectSingle a0 a1 a2, cur, env, h => by
    simp only [INode.all, Bool.and_eq_true] at h
    have e0 := fun v => ieval_root_irrel root root' a0 v env h.1.2
    have e2 := fun v => ieval_root_irrel root root' a2 v env h.2
    simp only [ieval, e0, e2]
  | .selectObjectSingleCurrent a0 a1, cur, env, h => by
    simp only [INode.all, Bool.and_eq_true] at h
    have e1 := fun v => ieval_root_irrel root root' a1 v env h.2
    simp only [ieval, e1]
  | .slice a0 a1 a2, cur, env, h => by
    simp only [INode.all, Bool.and_eq_true] at h
    have e0 := fun v => ieval_root_irrel root root' a0 v env h.2
    simp only [ieval, e0]
  | .sliceCurrent a0 a1, cur, env, h => by simp only [ieval]
  | .sliceStep a0 a1 a2 a3, cur, env, h => by
    simp only [INode.all, Bool.and_eq_true] at h
    have e0 := fun v => ieval_root_irrel root root' a0 v env h.2
    simp only [ieval, e0]
  | .sliceStepCurrent a0 a1 a2, cur, env, h => by simp only [ieval]
  | .groupBy a0 a1, cur, env, h => by
    simp only [INode.all, Bool.and_eq_true] at h
    have e0 := fun v => ieval_root_irrel root root' a0 v env h.1.2
    have e1 := fun v => ieval_root_irrel root root' a1 v env h.2
    simp only [ieval, e0, e1]
  | .map a0 a1, cur, env, h => by
    simp only [INode.all, Bool.and_eq_true] at h
    have e0 := fun v => ieval_root_irrel root root' a0 v env h.1.2
    have e1 := fun v => ieval_root_irrel root root' a1 v env h.2
    simp only [ieval, e0, e1]
  | .maxBy a0 a1, cur, env, h => by
    simp only [INode.all, Bool.and_eq_true] at h
    have e0 := fun v => ieval_root_irrel root root' a0 v env h.1.2
    have e1 := fun v => ieval_root_irrel root root' a1 v env h.2
    simp only [ieval, e0, e1]
  | .minBy a0 a1, cur, env, h => by
    simp only [INode.all, Bool.and_eq_true] at h
    have e0 := fun v => ieval_root_irrel root root' a0 v env h.1.2
    have e1 := fun v => ieval_root_irrel root root' a1 v env h.2
    simp only [ieval, e0, e1]
  | .sortBy a0 a1, cur, env, h => by
    simp only [INode.all, Bool.and_eq_true] at h
    have e0 := fun v => ieval_root_irrel root root' a0 v env h.1.2
    have e1 := fun v => ieval_root_irrel root root' a1 v env h.2
    simp only [ieval, e0, e1]
  | .merge a0, cur, env, h => by
    simp only [INode.all, Bool.and_eq_true] at h
    have e0 := fun v acc => ievalMerge_root_irrel root root' a0 v env acc h.2
    simp only [ieval, e0]
  | .notNull a0, cur, env, h => by
    simp only [INode.all, Bool.and_eq_true] at h
    have e0 := fun v => ievalNotNull_root_irrel root root' a0 v env h.2
    simp only [ieval, e0]
  | .zip a0, cur, env, h => by
    simp only [INode.all, Bool.and_eq_true] at h
    have e0 := fun v => ievalZip_root_irrel root root' a0 v env h.2
    simp only [ieval, e0]
theorem ievalList_root_irrel (root root' : Val) : ∀ (n : List INode) (cur : Val) (env : Env), INode.allL INode.notRoot n = true → ievalList root n cur env = ievalList root' n cur env
  | [], cur, env, h => by simp only [ievalList]
  | n :: ns, cur, env, h => by
    simp only [INode.allL, Bool.and_eq_true] at h
    have e0 := fun v => ieval_root_irrel root root' n v env h.1
    have e1 := fun v => ievalList_root_irrel root root' ns v env h.2
    simp only [ievalList, e0, e1]
theorem ievalFields_root_irrel (root root' : Val) : ∀ (n : List (Bytes × INode)) (cur : Val) (env : Env), INode.allF INode.notRoot n = true → ievalFields root n cur env = ievalFields root' n cur env
  | [], cur, env, h => by simp only [ievalFields]
  | (k, n) :: ns, cur, env, h => by
    simp only [INode.allF, Bool.and_eq_true] at h
    have e0 := fun v => ieval_root_irrel root root' n v env h.1
    have e1 := fun v => ievalFields_root_irrel root root' ns v env h.2
    simp only [ievalFields, e0, e1]
theorem ievalMerge_root_irrel (root root' : Val) : ∀ (n : List INode) (cur : Val) (env : Env) (acc : List (Bytes × Val)), INode.allL INode.notRoot n = true → ievalMerge root n cur env acc = ievalMerge root' n cur env acc
  | [], cur, env, acc, h => by simp only [ievalMerge]
  | n :: ns, cur, env, acc, h => by
    simp only [INode.allL, Bool.and_eq_true] at h
    have e0 := fun v => ieval_root_irrel root root' n v env h.1
    have e1 := fun v acc => ievalMerge_root_irrel root root' ns v env acc h.2
    simp only [ievalMerge, e0, e1]
theorem ievalNotNull_root_irrel (root root' : Val) : ∀ (n : List INode) (cur : Val) (env : Env), INode.allL INode.notRoot n = true → ievalNotNull root n cur env = ievalNotNull root' n cur env
  | [], cur, env, h => by simp only [ievalNotNull]
  | n :: ns, cur, env, h => by
    simp only [INode.allL, Bool.and_eq_true] at h
    have e0 := fun v => ieval_root_irrel root root' n v env h.1
    have e1 := fun v => ievalNotNull_root_irrel root root' ns v env h.2
    simp only [ievalNotNull, e0, e1]
theorem ievalZip_root_irrel (root root' : Val) : ∀ (n : List INode) (cur : Val) (env : Env), INode.allL INode.notRoot n = true → ievalZip root n cur env = ievalZip root' n cur env
  | [], cur, env, h => by simp only [ievalZip]
  | n :: ns, cur, env, h => by
    simp only [INode.allL, Bool.and_eq_true] at h
    have e0 := fun v => ieval_root_irrel root root' n v env h.1
    have e1 := fun v => ievalZip_root_irrel root root' ns v env h.2
    simp only [ievalZip, e0, e1]
end

mutual
theorem ieval_env_irrel (root : Val) : ∀ (n : INode) (cur : Val) (env env' : Env), INode.all INode.notVar n = true → ieval root n cur env = ieval root n cur env'
  | .lit a0, cur, env, env', h => by simp only [ieval]
  | .current, cur, env, env', h => by simp only [ieval]
  | .root, cur, env, env', h => by simp only [ieval]
  | .field a0, cur, env, env', h => by simp only [ieval]
  | .variable a0, cur, env, env', h => by
    simp [INode.all, INode.notVar] at h
  | .binop a0 a1 a2, cur, env, env', h => by
    simp only [INode.all, Bool.and_eq_true] at h
    have e1 := fun v => ieval_env_irrel root a1 v env env' h.1.2
    have e2 := fun v => ieval_env_irrel root a2 v env env' h.2
    simp only [ieval, e1, e2]
  | .and a0 a1, cur, env, env', h => by
    simp only [INode.all, Bool.and_eq_true] at h
    have e0 := fun v => ieval_env_irrel root a0 v env env' h.1.2
    have e1 := fun v => ieval_env_irrel root a1 v env env' h.2
    simp only [ieval, e0, e1]
  | .or a0 a1, cur, env, env', h => by
    simp only [INode.all, Bool.and_eq_true] at h
    have e0 := fun v => ieval_env_irrel root a0 v env env' h.1.2
    have e1 := fun v => ieval_env_irrel root a1 v env env' h.2
    simp only [ieval, e0, e1]
  | .not a0, cur, env, env', h => by
    simp only [INode.all, Bool.and_eq_true] at h
    have e0 := fun v => ieval_env_irrel root a0 v env env' h.2
    simp only [ieval, e0]
  | .negate a0, cur, env, env', h => by
    simp only [INode.all, Bool.and_eq_true] at h
    have e0 := fun v => ieval_env_irrel root a0 v env env' h.2
    simp only [ieval, e0]
  | .assertNumber a0, cur, env, env', h => by
    simp only [INode.all, Bool.and_eq_true] at h
    have e0 := fun v => ieval_env_irrel root a0 v env env' h.2
    simp only [ieval, e0]
  | .call a0 a1, cur, env, env', h => by
    simp only [INode.all, Bool.and_eq_true] at h
    have e1 := fun v => ievalList_env_irrel root a1 v env env' h.2
    simp only [ieval, e1]
  | .defineVariables a0 a1, cur, env, env', h => by
    simp only [INode.all, Bool.and_eq_true] at h
    have e0 := fun v => ievalFields_env_irrel root a0 v env env' h.1.2
    have e1 := fun v bs => ieval_env_irrel root a1 v (bs ++ env) (bs ++ env') h.2
    simp only [ieval, e0, e1]
  | .filter a0 a1, cur, env, env', h => by
    simp only [INode.all, Bool.and_eq_true] at h
    have e0 := fun v => ieval_env_irrel root a0 v env env' h.1.2
    have e1 := fun v => ieval_env_irrel root a1 v env env' h.2
    simp only [ieval, e0, e1]
  | .filterCurrent a0, cur, env, env', h => by
    simp only [INode.all, Bool.and_eq_true] at h
    have e0 := fun v => ieval_env_irrel root a0 v env env' h.2
    simp only [ieval, e0]
  | .filterAndProject a0 a1 a2, cur, env, env', h => by
    simp only [INode.all, Bool.and_eq_true] at h
    have e0 := fun v => ieval_env_irrel root a0 v env env' h.1.1.2
    have e1 := fun v => ieval_env_irrel root a1 v env env' h.1.2
    have e2 := fun v => ieval_env_irrel root a2 v env env' h.2
    simp only [ieval, e0, e1, e2]
  | .filterAndProjectCurrent a0 a1, cur, env, env', h => by
    simp only [INode.all, Bool.and_eq_true] at h
    have e0 := fun v => ieval_env_irrel root a0 v env env' h.1.2
    have e1 := fun v => ieval_env_irrel root a1 v env env' h.2
    simp only [ieval, e0, e1]
  | .flatten a0, cur, env, env', h => by
    simp only [INode.all, Bool.and_eq_true] at h
    have e0 := fun v => ieval_env_irrel root a0 v env env' h.2
    simp only [ieval, e0]
  | .flattenCurrent, cur, env, env', h => by simp only [ieval]
  | .flattenAndProject a0 a1, cur, env, env', h => by
    simp only [INode.all, Bool.and_eq_true] at h
    have e0 := fun v => ieval_env_irrel root a0 v env env' h.1.2
    have e1 := fun v => ieval_env_irrel root a1 v env env' h.2
    simp only [ieval, e0, e1]
  | .flattenAndProjectCurrent a0, cur, env, env', h => by
    simp only [INode.all, Bool.and_eq_true] at h
    have e0 := fun v => ieval_env_irrel root a0 v env env' h.2
    simp only [ieval, e0]
  | .index a0 a1, cur, env, env', h => by
    simp only [INode.all, Bool.and_eq_true] at h
    have e0 := fun v => ieval_env_irrel root a0 v env env' h.2
    simp only [ieval, e0]
  | .indexCurrent a0, cur, env, env', h => by simp only [ieval]
  | .smallIndexCurrent a0, cur, env, env', h => by simp only [ieval]
  | .objectValues a0, cur, env, env', h => by
    simp only [INode.all, Bool.and_eq_true] at h
    have e0 := fun v => ieval_env_irrel root a0 v env env' h.2
    simp only [ieval, e0]
  | .objectValuesCurrent, cur, env, env', h => by simp only [ieval]
  | .pipe a0 a1, cur, env, env', h => by
    simp only [INode.all, Bool.and_eq_true] at h
    have e0 := fun v => ieval_env_irrel root a0 v env env' h.1.2
    have e1 := fun v => ieval_env_irrel root a1 v env env' h.2
    simp only [ieval, e0, e1]
  | .projectArray a0 a1, cur, env, env', h => by
    simp only [INode.all, Bool.and_eq_true] at h
    have e0 := fun v => ieval_env_irrel root a0 v env env' h.1.2
    have e1 := fun v => ieval_env_irrel root a1 v env env' h.2
    simp only [ieval, e0, e1]
  | .projectArrayCurrent a0, cur, env, env', h => by
    simp only [INode.all, Bool.and_eq_true] at h
    have e0 := fun v => ieval_env_irrel root a0 v env env' h.2
    simp only [ieval, e0]
  | .projectObject a0 a1, cur, env, env', h => by
    simp only [INode.all, Bool.and_eq_true] at h
    have e0 := fun v => ieval_env_irrel root a0 v env env' h.1.2
    have e1 := fun v => ieval_env_irrel root a1 v env env' h.2
    simp only [ieval, e0, e1]
  | .projectObjectCurrent a0, cur, env, env', h => by
    simp only [INode.all, Bool.and_eq_true] at h
    have e0 := fun v => ieval_env_irrel root a0 v env env' h.2
    simp only [ieval, e0]
  | .pruneArray a0, cur, env, env', h => by
    simp only [INode.all, Bool.and_eq_true] at h
    have e0 := fun v => ieval_env_irrel root a0 v env env' h.2
    simp only [ieval, e0]
  | .pruneArrayCurrent, cur, env, env', h => by simp only [ieval]
  | .selectArray a0 a1, cur, env, env', h => by
    simp only [INode.all, Bool.and_eq_true] at h
    have e0 := fun v => ieval_env_irrel root a0 v env env' h.1.2
    have e1 := fun v => ievalList_env_irrel root a1 v env env' h.2
    simp only [ieval, e0, e1]
  | .selectArrayCurrent a0, cur, env, env', h => by
    simp only [INode.all, Bool.and_eq_true] at h
    have e0 := fun v => ievalList_env_irrel root a0 v env env' h.2
    simp only [ieval, e0]
  | .selectArraySingle a0 a1, cur, env, env', h => by
    simp only [INode.all, Bool.and_eq_true] at h
    have e0 := fun v => ieval_env_irrel root a0 v env env' h.1.2
    have e1 := fun v => ieval_env_irrel root a1 v env env' h.2
    simp only [ieval, e0, e1]
  | .selectArraySingleCurrent a0, cur, env, env', h => by
    simp only [INode.all, Bool.and_eq_true] at h
    have e0 := fun v => ieval_env_irrel root a0 v env env' h.2
    simp only [ieval, e0]
  | .selectObject a0 a1, cur, env, env', h => by
    simp only [INode.all, Bool.and_eq_true] at h
    have e0 := fun v => ieval_env_irrel root a0 v env env' h.1.2
    have e1 := fun v => ievalFields_env_irrel root a1 v env env' h.2
    simp only [ieval, e0, e1]
  | .selectObjectCurrent a0, cur, env, env', h => by
    simp only [INode.all, Bool.and_eq_true] at h
    have e0 := fun v => ievalFields_env_irrel root a0 v env env' h.2
    simp only [ieval, e0]
  | .selectObjectSingle a0 a1 a2, cur, env, env', h => by
    simp only [INode.all, Bool.and_eq_true] at h
    have e0 := fun v => ieval_env_irrel root a0 v env env' h.1.2
    have e2 := fun v => ieval_env_irrel root a2 v env env' h.2
    simp only [ieval, e0, e2]
  | .selectObjectSingleCurrent a0 a1, cur, env, env', h => by
    simp only [INode.all, Bool.and_eq_true] at h
    have e1 := fun v => ieval_env_irrel root a1 v env env' h.2
    simp only [ieval, e1]
  | .slice a0 a1 a2, cur, env, env', h => by
    simp only [INode.all, Bool.and_eq_true] at h
    have e0 := fun v => ieval_env_irrel root a0 v env env' h.2
    simp only [ieval, e0]
  | .sliceCurrent a0 a1, cur, env, env', h => by simp only [ieval]
  | .sliceStep a0 a1 a2 a3, cur, env, env', h => by
    simp only [INode.all, Bool.and_eq_true] at h
    have e0 := fun v => ieval_env_irrel root a0 v env env' h.2
    simp only [ieval, e0]
  | .sliceStepCurrent a0 a1 a2, cur, env, env', h => by simp only [ieval]
  | .groupBy a0 a1, cur, env, env', h => by
    simp only [INode.all, Bool.and_eq_true] at h
    have e0 := fun v => ieval_env_irrel root a0 v env env' h.1.2
    have e1 := fun v => ieval_env_irrel root a1 v env env' h.2
    simp only [ieval, e0, e1]
  | .map a0 a1, cur, env, env', h => by
    simp only [INode.all, Bool.and_eq_true] at h
    have e0 := fun v => ieval_env_irrel root a0 v env env' h.1.2
    have e1 := fun v => ieval_env_irrel root a1 v env env' h.2
    simp only [ieval, e0, e1]
  | .maxBy a0 a1, cur, env, env', h => by
    simp only [INode.all, Bool.and_eq_true] at h
    have e0 := fun v => ieval_env_irrel root a0 v env env' h.1.2
    have e1 := fun v => ieval_env_irrel root a1 v env env' h.2
    simp only [ieval, e0, e1]
  | .minBy a0 a1, cur, env, env', h => by
    simp only [INode.all, Bool.and_eq_true] at h
    have e0 := fun v => ieval_env_irrel root a0 v env env' h.1.2
    have e1 := fun v => ieval_env_irrel root a1 v env env' h.2
    simp only [ieval, e0, e1]
  | .sortBy a0 a1, cur, env, env', h => by
    simp only [INode.all, Bool.and_eq_true] at h
    have e0 := fun v => ieval_env_irrel root a0 v env env' h.1.2
    have e1 := fun v => ieval_env_irrel root a1 v env env' h.2
    simp only [ieval, e0, e1]
  | .merge a0, cur, env, env', h => by
    simp only [INode.all, Bool.and_eq_true] at h
    have e0 := fun v acc => ievalMerge_env_irrel root a0 v env env' acc h.2
    simp only [ieval, e0]
  | .notNull a0, cur, env, env', h => by
    simp only [INode.all, Bool.and_eq_true] at h
    have e0 := fun v => ievalNotNull_env_irrel root a0 v env env' h.2
    simp only [ieval, e0]
  | .zip a0, cur, env, env', h => by
    simp only [INode.all, Bool.and_eq_true] at h
    have e0 := fun v => ievalZip_env_irrel root a0 v env env' h.2
    simp only [ieval, e0]
theorem ievalList_env_irrel (root : Val) : ∀ (n : List INode) (cur : Val) (env env' : Env), INode.allL INode.notVar n = true → ievalList root n cur env = ievalList root n cur env'
  | [], cur, env, env', h => by simp only [ievalList]
  | n :: ns, cur, env, env', h => by
    simp only [INode.allL, Bool.and_eq_true] at h
    have e0 := fun v => ieval_env_irrel root n v env env' h.1
    have e1 := fun v => ievalList_env_irrel root ns v env env' h.2
    simp only [ievalList, e0, e1]
theorem ievalFields_env_irrel (root : Val) : ∀ (n : List (Bytes × INode)) (cur : Val) (env env' : Env), INode.allF INode.notVar n = true → ievalFields root n cur env = ievalFields root n cur env'
  | [], cur, env, env', h => by simp only [ievalFields]
  | (k, n) :: ns, cur, env, env', h => by
    simp only [INode.allF, Bool.and_eq_true] at h
    have e0 := fun v => ieval_env_irrel root n v env env' h.1
    have e1 := fun v => ievalFields_env_irrel root ns v env env' h.2
    simp only [ievalFields, e0, e1]
theorem ievalMerge_env_irrel (root : Val) : ∀ (n : List INode) (cur : Val) (env env' : Env) (acc : List (Bytes × Val)), INode.allL INode.notVar n = true → ievalMerge root n cur env acc = ievalMerge root n cur env' acc
  | [], cur, env, env', acc, h => by simp only [ievalMerge]
  | n :: ns, cur, env, env', acc, h => by
    simp only [INode.allL, Bool.and_eq_true] at h
    have e0 := fun v => ieval_env_irrel root n v env env' h.1
    have e1 := fun v acc => ievalMerge_env_irrel root ns v env env' acc h.2
    simp only [ievalMerge, e0, e1]
theorem ievalNotNull_env_irrel (root : Val) : ∀ (n : List INode) (cur : Val) (env env' : Env), INode.allL INode.notVar n = true → ievalNotNull root n cur env = ievalNotNull root n cur env'
  | [], cur, env, env', h => by simp only [ievalNotNull]
  | n :: ns, cur, env, env', h => by
    simp only [INode.allL, Bool.and_eq_true] at h
    have e0 := fun v => ieval_env_irrel root n v env env' h.1
    have e1 := fun v => ievalNotNull_env_irrel root ns v env env' h.2
    simp only [ievalNotNull, e0, e1]
theorem ievalZip_env_irrel (root : Val) : ∀ (n : List INode) (cur : Val) (env env' : Env), INode.allL INode.notVar n = true → ievalZip root n cur env = ievalZip root n cur env'
  | [], cur, env, env', h => by simp only [ievalZip]
  | n :: ns, cur, env, env', h => by
    simp only [INode.allL, Bool.and_eq_true] at h
    have e0 := fun v => ieval_env_irrel root n v env env' h.1
    have e1 := fun v => ievalZip_env_irrel root ns v env env' h.2
    simp only [ievalZip, e0, e1]
end

/-! ## Examples (non-vacuity) -/

namespace Invar.Examples
open Invar

/-- `{"a": [1, null]}` -/
def exDoc : Val := .obj [([0x61], .arr .plain [.num (.jnum [0x31]), .null])]
/-- `a[*]` -/
def exNode : INode := .projectArray (.field [0x61]) .current

example : exDoc.Plain = true ∧ exDoc.NoEnum = true := by decide
example : (Val.arr .nil []).Plain = false ∧ (Val.arr .nil []).NoEnum = true := by decide
example : (Val.arr .enum []).Plain = true ∧ (Val.arr .enum []).NoEnum = false := by decide
example : (Val.foreign 7).Plain = false ∧ (Val.foreign 7).NoEnum = true := by decide
example : Val.Marshalable exDoc = true ∧ Val.Marshalable (.num (.f64 default)) = false := by decide
example : exNode.RootFree = true ∧ exNode.VarFree = true ∧ exNode.EnumFree = true ∧ exNode.PlainLits = true := by decide
example : (INode.pipe exNode .root).RootFree = false := by decide
example : (INode.pipe exNode (.variable [0x78])).VarFree = false := by decide
example : (INode.call .keys [.current]).EnumFree = false := by decide
example : (INode.lit (.arr .nil [])).PlainLits = false := by decide
/-- `Sat`: a definite outcome in strict mode; two categories or `nondet` are not -/
example : Res.Sat true (fun v : Val => v.Good true = true) (.ok exDoc) := by show exDoc.Good true = true; decide
example : ¬ Res.Sat true (fun _ : Val => True) (.err [Cat.invalidType, Cat.invalidValue]) := by simp [Res.Sat]
example : ¬ Res.Sat true (fun _ : Val => True) .nondet := by simp [Res.Sat]
example : Res.Sat false (fun _ : Val => True) .nondet := rfl
/-- the main theorem in both modes on a concrete evaluation -/
example : GoodR false (ieval exDoc exNode exDoc []) := ieval_sat (by decide) _ _ _ (by decide) (by decide) rfl
example : GoodR true (ieval exDoc exNode exDoc []) := ieval_sat (by decide) _ _ _ (by decide) (by decide) rfl
example : ieval exDoc exNode exDoc [] = .ok (.arr .plain [.num (.jnum [0x31])]) := rfl
/-- per-helper: indexing a map-ordered array of two elements is `nondet`, which strict mode excludes via the tag -/
example : index (.arr .enum [.null, .null]) 0 = .nondet := rfl
example : GoodR false (index (.arr .enum [.null, .null]) 0) := index_sat 0 (by decide)
example : enum2 .plain [.null, .null] = false := enum2_of_tagOk _ rfl
example : widen .plain [.null, .null] [fun _ => errType] [] (errValue : Res Val) = errValue :=
  widen_of_not_enum2 _ rfl
/-- root- and environment-independence -/
example : ieval .null exNode exDoc [] = ieval exDoc exNode exDoc [] := ieval_root_irrel _ _ _ _ _ (by decide)
example : ieval exDoc exNode exDoc [([0x78], .null)] = ieval exDoc exNode exDoc [] :=
  ieval_env_irrel _ _ _ _ _ (by decide)
example : exNode.all (fun m => INode.notRoot m && INode.notVar m) = true := by
  rw [INode.all_and]; decide

end Invar.Examples

end Jmes
