/-
  Property C20, fourth pass — helper: **number provenance**.  The evaluator never manufactures a `json.Number`: every
  `json.Number` text inside a result occurs in the document, the current value, the environment or a literal, and no
  binary float appears unless one was put in.  Stated for an arbitrary predicate `P` on number texts:

    `Jn P v` — every `json.Number` inside `v` has a text satisfying `P`; decimals and Go integers are unrestricted;
               there is no `float64` / `float32`.

  `seval_jn` / `ieval_jn` / `evaluate_jn`: `Jn P` is preserved by every operator and every builtin (`+ - * / // %`,
  `abs`, `ceil`, `floor`, `sum`, `avg`, `max`, `min`, `to_number`, `length`, `find_first`, … return decimals or Go
  integers, or hand elements through).  The development follows Jmes/Proofs/C18EEval.lean line by line.

  `C20E` instantiates `P` with "the text is `Regular` or `Tiny`" to obtain `C20C.Covered` of every number of a result.
-/
import Jmes.Proofs.C18ELemmas
namespace Jmes.C20E
open Jmes

/-- the number part of `Jn`: a `json.Number` text satisfies `P`; no binary float -/
def JNum (P : Bytes → Prop) : Num → Prop
  | .jnum t => P t
  | .dec _ => True
  | .int _ _ => True
  | .f64 _ => False
  | .f32 _ => False

mutual
/-- every `json.Number` inside the value has a text satisfying `P`, and there is no binary float -/
def Jn (P : Bytes → Prop) : Val → Prop
  | .null => True
  | .bool _ => True
  | .str _ => True
  | .num n => JNum P n
  | .arr _ xs => JnL P xs
  | .obj kvs => JnF P kvs
  | .foreign _ => True
/-- … every element -/
def JnL (P : Bytes → Prop) : List Val → Prop
  | [] => True
  | x :: xs => Jn P x ∧ JnL P xs
/-- … every member value -/
def JnF (P : Bytes → Prop) : List (Bytes × Val) → Prop
  | [] => True
  | (_, x) :: kvs => Jn P x ∧ JnF P kvs
end

/-- `f` maps `Jn P` values to `Jn P` values -/
def JnFun (P : Bytes → Prop) (f : Val → Res Val) : Prop := ∀ x, Jn P x → ∀ v, f x = .ok v → Jn P v
/-- every member of every group is `Jn P` -/
def JnGroups (P : Bytes → Prop) (gs : List (Bytes × List Val)) : Prop := ∀ k g, (k, g) ∈ gs → ∀ x ∈ g, Jn P x
/-- every binding of the environment is `Jn P` -/
def JnEnv (P : Bytes → Prop) (env : Env) : Prop := ∀ k x, (k, x) ∈ env → Jn P x

mutual
/-- every literal of the expression (reference syntax) is `Jn P` -/
def JnTree (P : Bytes → Prop) : Tree → Prop
  | .lit v => Jn P v
  | .current | .root | .field _ | .var _ | .index _ | .slice _ _ | .sliceStep _ _ _ => True
  | .sub l r | .binop _ l r | .and l r | .or l r | .proj l r | .sliceProj l r | .flatProj l r | .valueProj l r
  | .groupBy l r | .map l r | .maxBy l r | .minBy l r | .sortBy l r => JnTree P l ∧ JnTree P r
  | .not c | .neg c | .pos c | .prune c => JnTree P c
  | .filterProj l c r => JnTree P l ∧ JnTree P c ∧ JnTree P r
  | .call _ args | .multiList _ args | .merge args | .notNull args | .zip args => JnTreeL P args
  | .multiHash _ kvs => JnTreeF P kvs
  | .letIn bs body => JnTreeF P bs ∧ JnTree P body
def JnTreeL (P : Bytes → Prop) : List Tree → Prop
  | [] => True
  | t :: ts => JnTree P t ∧ JnTreeL P ts
def JnTreeF (P : Bytes → Prop) : List (Bytes × Tree) → Prop
  | [] => True
  | (_, t) :: rest => JnTree P t ∧ JnTreeF P rest
end

variable {P : Bytes → Prop}

theorem jnL_iff : ∀ {xs : List Val}, JnL P xs ↔ ∀ x ∈ xs, Jn P x
  | [] => by simp [JnL]
  | x :: xs => by simp [JnL, jnL_iff (xs := xs)]

theorem jnF_iff : ∀ {kvs : List (Bytes × Val)}, JnF P kvs ↔ ∀ k x, (k, x) ∈ kvs → Jn P x
  | [] => by simp [JnF]
  | (k, x) :: kvs => by
    simp only [JnF, jnF_iff (kvs := kvs), List.mem_cons, Prod.mk.injEq]
    constructor
    · rintro ⟨h1, h2⟩ k' x' (⟨_, rfl⟩ | hm)
      · exact h1
      · exact h2 k' x' hm
    · intro h
      exact ⟨h k x (Or.inl ⟨rfl, rfl⟩), fun k' x' hm => h k' x' (Or.inr hm)⟩

theorem jn_arr {t : ATag} {xs : List Val} : Jn P (.arr t xs) ↔ ∀ x ∈ xs, Jn P x := by
  simp only [Jn]; exact jnL_iff
theorem jn_obj {kvs : List (Bytes × Val)} : Jn P (.obj kvs) ↔ ∀ k x, (k, x) ∈ kvs → Jn P x := by
  simp only [Jn]; exact jnF_iff
@[simp] theorem jn_null : Jn P .null := by simp [Jn]
@[simp] theorem jn_bool (b : Bool) : Jn P (.bool b) := by simp [Jn]
@[simp] theorem jn_str (s : Bytes) : Jn P (.str s) := by simp [Jn]
@[simp] theorem jn_foreign (t : Nat) : Jn P (.foreign t) := by simp [Jn]
@[simp] theorem jn_f64 (f : F64) : ¬ Jn P (.num (.f64 f)) := by simp [Jn, JNum]
@[simp] theorem jn_f32 (f : F64) : ¬ Jn P (.num (.f32 f)) := by simp [Jn, JNum]
@[simp] theorem jn_dec (d : Dec) : Jn P (.num (.dec d)) := by simp [Jn, JNum]
@[simp] theorem jn_int (k : IntKind) (v : Int) : Jn P (.num (.int k v)) := by simp [Jn, JNum]
theorem jn_jnum {t : Bytes} : Jn P (.num (.jnum t)) ↔ P t := by simp [Jn, JNum]

/-- `{"a": [1, null]}` with a decimal and a Go integer beside it, for `P` = "the text is `1`" -/
example : Jn (· = [0x31]) (.obj [([0x61], .arr .plain [.num (.jnum [0x31]), .null]),
    ([0x62], .num (.dec (.fin true 5 (-1)))), ([0x63], .num (.int .i64 7))]) := by
  simp [Jn, JnF, JnL, JNum]
example : ¬ Jn (· = [0x31]) (.arr .plain [.num (.jnum [0x32])]) := by simp [Jn, JnL, JNum]

mutual
/-- `Jn` is monotone in the predicate -/
theorem jn_mono {P Q : Bytes → Prop} (h : ∀ t, P t → Q t) : ∀ v : Val, Jn P v → Jn Q v
  | .null, _ => by simp
  | .bool _, _ => by simp
  | .str _, _ => by simp
  | .num (.jnum t), hv => jn_jnum.mpr (h t (jn_jnum.mp hv))
  | .num (.dec _), _ => by simp
  | .num (.int _ _), _ => by simp
  | .num (.f64 _), hv => absurd hv (jn_f64 _)
  | .num (.f32 _), hv => absurd hv (jn_f32 _)
  | .arr _ xs, hv => by simp only [Jn] at hv ⊢; exact jnL_mono h xs hv
  | .obj kvs, hv => by simp only [Jn] at hv ⊢; exact jnF_mono h kvs hv
  | .foreign _, _ => by simp
theorem jnL_mono {P Q : Bytes → Prop} (h : ∀ t, P t → Q t) : ∀ xs : List Val, JnL P xs → JnL Q xs
  | [], _ => trivial
  | x :: xs, hv => by simp only [JnL] at hv ⊢; exact ⟨jn_mono h x hv.1, jnL_mono h xs hv.2⟩
theorem jnF_mono {P Q : Bytes → Prop} (h : ∀ t, P t → Q t) : ∀ kvs : List (Bytes × Val), JnF P kvs → JnF Q kvs
  | [], _ => trivial
  | (_, x) :: kvs, hv => by simp only [JnF] at hv ⊢; exact ⟨jn_mono h x hv.1, jnF_mono h kvs hv.2⟩
end

/-! ## the numeric builtins: they return decimals, or hand an argument through -/

theorem toFloat_none_jn {x : Val} (h : Jn P x) : toFloat x = none := by
  cases x with
  | num n => cases n <;> first | rfl | exact absurd h (by simp)
  | _ => rfl

theorem checkD_jn {r : Dec} {v : Val} (h : checkD r = .ok v) : Jn P v := by
  unfold checkD at h
  split at h
  · simp [errNaN] at h
  · split at h
    · simp [errNaN] at h
    · cases h; simp

/-- `+ - * / // %`: as soon as one operand holds no float, the result is a decimal -/
theorem arith_jn {fop : F64 → F64 → F64} {dop : Dec → Dec → Dec} {x y v : Val}
    (hv : arith fop dop x y = .ok v) (hx : Jn P x) : Jn P v := by
  unfold arith at hv
  have hf : toFloatPair x y = none := by simp [toFloatPair, toFloat_none_jn hx]
  rw [hf] at hv
  simp only at hv
  split at hv
  · simp [errType] at hv
  · split at hv
    · simp [errType] at hv
    · exact checkD_jn hv

theorem numAbs_jn {x v : Val} (h : Jn P x) (hv : numAbs x = .ok v) : Jn P v := by
  unfold numAbs at hv; rw [toFloat_none_jn h] at hv; simp only at hv
  split at hv
  · simp [errType] at hv
  · cases hv; simp
theorem numCeil_jn {x v : Val} (h : Jn P x) (hv : numCeil x = .ok v) : Jn P v := by
  unfold numCeil at hv; rw [toFloat_none_jn h] at hv; simp only at hv
  split at hv
  · simp [errType] at hv
  · cases hv; simp
theorem numFloor_jn {x v : Val} (h : Jn P x) (hv : numFloor x = .ok v) : Jn P v := by
  unfold numFloor at hv; rw [toFloat_none_jn h] at hv; simp only at hv
  split at hv
  · simp [errType] at hv
  · cases hv; simp

theorem negateVal_jn {x : Val} (h : Jn P x) : Jn P (negateVal x) := by
  unfold negateVal; rw [toFloat_none_jn h]; simp only
  split
  · simp
  · split <;> simp

theorem numSum_jn {x v : Val} (_hx : Jn P x) (hv : numSum x = .ok v) : Jn P v := by
  unfold numSum at hv
  split at hv
  · split at hv
    · simp [errType] at hv
    · split at hv
      · exact checkD_jn hv
      · simp at hv
  · simp [errType] at hv

theorem numAvg_jn {x v : Val} (hv : numAvg x = .ok v) : Jn P v := by
  unfold numAvg at hv
  split at hv
  · split at hv
    · cases hv; simp
    · split at hv
      · simp [errType] at hv
      · split at hv
        · exact checkD_jn hv
        · simp at hv
  · simp [errType] at hv

theorem toNumber_jn {x : Val} (h : Jn P x) : Jn P (toNumber x) := by
  unfold toNumber
  split
  · exact h
  · split
    · split <;> simp
    · simp
  · simp

example : Jn (fun _ => False) (toNumber (.str [0x31, 0x65, 0x33])) := toNumber_jn (by simp)

theorem arrayMax_jn {x v : Val} (_hx : Jn P x) (hv : arrayMax x = .ok v) : Jn P v := by
  unfold arrayMax at hv
  split at hv
  · split at hv
    · cases hv; simp
    · split at hv
      · cases hv; simp
      · simp [errType] at hv
    · split at hv
      · split at hv
        · simp at hv
        · cases hv; simp
      · simp [errType] at hv
  · simp [errType] at hv

theorem arrayMin_jn {x v : Val} (_hx : Jn P x) (hv : arrayMin x = .ok v) : Jn P v := by
  unfold arrayMin at hv
  split at hv
  · split at hv
    · cases hv; simp
    · split at hv
      · cases hv; simp
      · simp [errType] at hv
    · split at hv
      · split at hv
        · simp at hv
        · cases hv; simp
      · simp [errType] at hv
  · simp [errType] at hv

/-! ## evaluator level: every operation of the evaluator maps `Jn P` values to `Jn P` values -/

theorem getD_jn {xs : List Val} (h : ∀ x ∈ xs, Jn P x) (n : Nat) : Jn P (xs.getD n .null) := by
  rw [List.getD_eq_getElem?_getD]
  cases hx : xs[n]? with
  | none => simp
  | some x => simp; exact h x (List.mem_of_getElem? hx)

theorem field_jn {v : Val} (k : Bytes) (h : Jn P v) : Jn P (field k v) := by
  unfold field
  split
  · next kvs =>
    cases hl : objLookup k kvs with
    | none => simp
    | some x => simp; exact jn_obj.mp h k x (objLookup_mem hl)
  · simp

theorem index_jn {v w : Val} {i : Int} (h : Jn P v) (hw : index v i = .ok w) : Jn P w := by
  cases v with
  | arr t xs =>
    simp only [index] at hw
    generalize (if i < 0 then i + (xs.length : Int) else i) = j at hw
    by_cases h1 : j < 0 ∨ j ≥ (xs.length : Int)
    · simp only [h1, if_true, Res.ok.injEq] at hw; subst hw; simp
    · simp only [h1, if_false] at hw
      by_cases h2 : enum2 t xs = true
      · simp [h2] at hw
      · simp only [h2, if_false, Res.ok.injEq, Bool.false_eq_true] at hw
        subst hw; exact getD_jn (jn_arr.mp h) _
  | _ => simp only [index, Res.ok.injEq] at hw; subst hw; simp

theorem pickStep_jn {xs : List Val} (h : ∀ x ∈ xs, Jn P x) (step : Int) : ∀ (n : Nat) (start : Int),
    ∀ y ∈ pickStep xs start step n, Jn P y
  | 0, _ => by simp [pickStep]
  | n + 1, start => by
    intro y hy
    simp only [pickStep, List.mem_cons] at hy
    rcases hy with rfl | hy
    · exact getD_jn h _
    · exact pickStep_jn h step n _ y hy

theorem slice_jn {v w : Val} {a b : Int} (h : Jn P v) (hw : slice v a b = .ok w) : Jn P w := by
  unfold slice at hw
  split at hw
  · next t xs =>
    split at hw
    · cases hw; simp [jn_arr]
    · split at hw
      · cases hw; simp [jn_arr]
      · split at hw
        · simp at hw
        · cases hw
          rw [jn_arr]
          intro x hx
          exact jn_arr.mp h x (List.mem_of_mem_drop (List.mem_of_mem_take hx))
  · split at hw <;> (cases hw; simp)
  · cases hw; simp

theorem sliceStep_jn {v w : Val} {a b s : Int} (h : Jn P v) (hw : sliceStep v a b s = .ok w) : Jn P w := by
  unfold sliceStep at hw
  split at hw
  · next t xs =>
    split at hw
    · cases hw; simp [jn_arr]
    · split at hw
      · simp at hw
      · cases hw
        rw [jn_arr]
        exact pickStep_jn (jn_arr.mp h) _ _ _
  · simp only at hw
    split at hw
    · cases hw; simp
    · split at hw <;> (cases hw; simp)
  · cases hw; simp

theorem pruneArray_jn {v : Val} (h : Jn P v) : Jn P (pruneArray v) := by
  unfold pruneArray
  split
  · next t xs =>
    split
    · rw [jn_arr]; intro x hx; exact jn_arr.mp h x (List.mem_filter.mp hx).1
    · exact h
  · simp



theorem mapPrune_jn {f : Val → Res Val} (hf : JnFun P f) : ∀ {xs r : List Val}, (∀ x ∈ xs, Jn P x) →
    mapPrune f xs = .ok r → ∀ y ∈ r, Jn P y
  | [], r, _, h => by simp [mapPrune] at h; subst h; simp
  | x :: xs, r, hx, h => by
    simp only [mapPrune, Res.bind_eq_ok, Res.pure_eq, Res.ok.injEq] at h
    obtain ⟨p, hp, rest, hrest, hr⟩ := h
    have ih := mapPrune_jn hf (fun y hy => hx y (List.mem_cons_of_mem _ hy)) hrest
    have hpn := hf x (hx x (List.mem_cons_self ..)) p hp
    subst hr
    intro y hy
    split at hy
    · exact ih y hy
    · rcases List.mem_cons.mp hy with rfl | hy
      · exact hpn
      · exact ih y hy

theorem mapAll_jn {f : Val → Res Val} (hf : JnFun P f) : ∀ {xs r : List Val}, (∀ x ∈ xs, Jn P x) →
    mapAll f xs = .ok r → ∀ y ∈ r, Jn P y
  | [], r, _, h => by simp [mapAll] at h; subst h; simp
  | x :: xs, r, hx, h => by
    simp only [mapAll, Res.bind_eq_ok, Res.pure_eq, Res.ok.injEq] at h
    obtain ⟨p, hp, rest, hrest, hr⟩ := h
    have ih := mapAll_jn hf (fun y hy => hx y (List.mem_cons_of_mem _ hy)) hrest
    have hpn := hf x (hx x (List.mem_cons_self ..)) p hp
    subst hr
    intro y hy
    rcases List.mem_cons.mp hy with rfl | hy
    · exact hpn
    · exact ih y hy

theorem filterMapPrune_jn {c f : Val → Res Val} (hf : JnFun P f) : ∀ {xs r : List Val}, (∀ x ∈ xs, Jn P x) →
    filterMapPrune c f xs = .ok r → ∀ y ∈ r, Jn P y
  | [], r, _, h => by simp [filterMapPrune] at h; subst h; simp
  | x :: xs, r, hx, h => by
    simp only [filterMapPrune, Res.bind_eq_ok] at h
    obtain ⟨b, hb, h⟩ := h
    have hx' : ∀ y ∈ xs, Jn P y := fun y hy => hx y (List.mem_cons_of_mem _ hy)
    split at h
    · simp only [Res.bind_eq_ok, Res.pure_eq, Res.ok.injEq] at h
      obtain ⟨p, hp, rest, hrest, hr⟩ := h
      have ih := filterMapPrune_jn hf hx' hrest
      have hpn := hf x (hx x (List.mem_cons_self ..)) p hp
      subst hr
      intro y hy
      split at hy
      · exact ih y hy
      · rcases List.mem_cons.mp hy with rfl | hy
        · exact hpn
        · exact ih y hy
    · exact filterMapPrune_jn hf hx' h

theorem projectArray_jn {f : Val → Res Val} (hf : JnFun P f) {v w : Val} (h : Jn P v)
    (hw : projectArray f v = .ok w) : Jn P w := by
  unfold projectArray at hw
  split at hw
  · next t xs =>
    rw [widen_eq_ok] at hw
    simp only [Res.bind_eq_ok, Res.pure_eq, Res.ok.injEq] at hw
    obtain ⟨r, hr, rfl⟩ := hw
    exact jn_arr.mpr (mapPrune_jn hf (jn_arr.mp h) hr)
  · cases hw; simp

theorem mapArray_jn {f : Val → Res Val} (hf : JnFun P f) {v w : Val} (h : Jn P v)
    (hw : mapArray f v = .ok w) : Jn P w := by
  unfold mapArray at hw
  split at hw
  · next t xs =>
    rw [widen_eq_ok] at hw
    simp only [Res.bind_eq_ok, Res.pure_eq, Res.ok.injEq] at hw
    obtain ⟨r, hr, rfl⟩ := hw
    exact jn_arr.mpr (mapAll_jn hf (jn_arr.mp h) hr)
  · simp [errType] at hw

theorem filterAndProjectArray_jn {c f : Val → Res Val} (hf : JnFun P f) {v w : Val} (h : Jn P v)
    (hw : filterAndProjectArray c f v = .ok w) : Jn P w := by
  unfold filterAndProjectArray at hw
  split at hw
  · next t xs =>
    rw [widen_eq_ok] at hw
    simp only [Res.bind_eq_ok, Res.pure_eq, Res.ok.injEq] at hw
    obtain ⟨r, hr, rfl⟩ := hw
    exact jn_arr.mpr (filterMapPrune_jn hf (jn_arr.mp h) hr)
  · cases hw; simp

theorem flattenForProject_jn : ∀ {xs : List Val}, (∀ x ∈ xs, Jn P x) → ∀ y ∈ flattenForProject xs, Jn P y
  | [], _ => by simp [flattenForProject]
  | x :: xs, hx => by
    have ih := flattenForProject_jn (fun y hy => hx y (List.mem_cons_of_mem _ hy))
    have h0 := hx x (List.mem_cons_self ..)
    intro y hy
    cases x with
    | arr t ys =>
      simp only [flattenForProject, List.mem_append] at hy
      rcases hy with hy | hy
      · exact jn_arr.mp h0 y hy
      · exact ih y hy
    | _ =>
      simp only [flattenForProject, List.mem_cons] at hy
      rcases hy with rfl | hy
      · exact h0
      · exact ih y hy

theorem flattenAndProjectArray_jn {f : Val → Res Val} (hf : JnFun P f) {v w : Val} (h : Jn P v)
    (hw : flattenAndProjectArray f v = .ok w) : Jn P w := by
  unfold flattenAndProjectArray at hw
  split at hw
  · next t xs =>
    rw [widen_eq_ok] at hw
    simp only [Res.bind_eq_ok, Res.pure_eq, Res.ok.injEq] at hw
    obtain ⟨r, hr, rfl⟩ := hw
    exact jn_arr.mpr (mapPrune_jn hf (flattenForProject_jn (jn_arr.mp h)) hr)
  · cases hw; simp

theorem obj_values_jn {kvs : List (Bytes × Val)} (h : Jn P (.obj kvs)) : ∀ x ∈ kvs.map Prod.snd, Jn P x := by
  intro x hx
  obtain ⟨⟨k, x'⟩, hm, rfl⟩ := List.mem_map.mp hx
  exact jn_obj.mp h k x' hm

theorem projectObject_jn {f : Val → Res Val} (hf : JnFun P f) {v w : Val} (h : Jn P v)
    (hw : projectObject f v = .ok w) : Jn P w := by
  unfold projectObject at hw
  split at hw
  · next kvs =>
    simp only at hw
    rw [widen_eq_ok] at hw
    simp only [Res.bind_eq_ok, Res.pure_eq, Res.ok.injEq] at hw
    obtain ⟨r, hr, rfl⟩ := hw
    exact jn_arr.mpr (mapPrune_jn hf (obj_values_jn h) hr)
  · cases hw; simp


/-! groups -/

theorem groupInsert_jn {s : Bytes} {v : Val} (hv : Jn P v) : ∀ {gs : List (Bytes × List Val)}, JnGroups P gs →
    JnGroups P (groupInsert s v gs)
  | [], _ => by
    intro k g hm x hx
    simp only [groupInsert, List.mem_singleton, Prod.mk.injEq] at hm
    obtain ⟨_, rfl⟩ := hm
    simp at hx; subst hx; exact hv
  | (k', g') :: rest, h => by
    have hrest : JnGroups P rest := fun k g hm => h k g (List.mem_cons_of_mem _ hm)
    have hhead := h k' g' (List.mem_cons_self ..)
    intro k g hm x hx
    simp only [groupInsert] at hm
    split at hm
    · rcases List.mem_cons.mp hm with e | hm
      · cases e
        rcases List.mem_append.mp hx with hx | hx
        · exact hhead x hx
        · simp at hx; subst hx; exact hv
      · exact hrest k g hm x hx
    · split at hm
      · rcases List.mem_cons.mp hm with e | hm
        · cases e; simp at hx; subst hx; exact hv
        · exact h k g hm x hx
      · rcases List.mem_cons.mp hm with e | hm
        · cases e; exact hhead x hx
        · exact groupInsert_jn hv hrest k g hm x hx

theorem groupLoop_jn {f : Val → Res Val} : ∀ {xs : List Val} {acc r : List (Bytes × List Val)},
    (∀ x ∈ xs, Jn P x) → JnGroups P acc → groupLoop f xs acc = .ok r → JnGroups P r
  | [], acc, r, _, hacc, h => by simp [groupLoop] at h; subst h; exact hacc
  | x :: xs, acc, r, hx, hacc, h => by
    simp only [groupLoop, Res.bind_eq_ok] at h
    obtain ⟨rv, _, h⟩ := h
    split at h
    · exact groupLoop_jn (fun y hy => hx y (List.mem_cons_of_mem _ hy))
        (groupInsert_jn (hx x (List.mem_cons_self ..)) hacc) h
    · simp [errType] at h

theorem groupBy_jn {f : Val → Res Val} {v w : Val} (h : Jn P v) (hw : groupBy f v = .ok w) : Jn P w := by
  unfold groupBy at hw
  split at hw
  · next t xs =>
    split at hw
    · cases hw; simp
    · rw [widen_eq_ok] at hw
      simp only [Res.bind_eq_ok, Res.pure_eq, Res.ok.injEq] at hw
      obtain ⟨gs, hgs, rfl⟩ := hw
      have := groupLoop_jn (jn_arr.mp h) (fun _ _ hm => by simp at hm) hgs
      rw [jn_obj]
      intro k x hm
      obtain ⟨⟨k', g⟩, hm', e⟩ := List.mem_map.mp hm
      cases e
      exact jn_arr.mpr (this k' g hm')
  · simp [errType] at hw


theorem arrayPickBy_jn {better : Key → Key → Bool} {f : Val → Res Val} {v w : Val} (h : Jn P v)
    (hw : arrayPickBy better f v = .ok w) : Jn P w := by
  unfold arrayPickBy at hw
  split at hw
  · next t xs =>
    split at hw
    · cases hw; simp
    · next x0 rest =>
      rw [widen_eq_ok] at hw
      simp only [Res.bind_eq_ok] at hw
      obtain ⟨ks, _, hw⟩ := hw
      split at hw
      · cases hw; simp
      · next k0 krest _ =>
        split at hw
        · simp at hw
        · cases hw
          have hall := jn_arr.mp h
          rcases pickBy_mem better (rest.zip krest) x0 k0 with e | ⟨p, hp, e⟩
          · rw [e]; exact hall x0 (List.mem_cons_self ..)
          · rw [e]; exact hall p.1 (List.mem_cons_of_mem _ (List.of_mem_zip (show (p.1, p.2) ∈ rest.zip krest from hp)).1)
  · simp [errType] at hw

theorem sortArrayBy_jn {f : Val → Res Val} {v w : Val} (h : Jn P v)
    (hw : sortArrayBy f v = .ok w) : Jn P w := by
  unfold sortArrayBy at hw
  split at hw
  · next t xs =>
    split at hw
    · cases hw; exact h
    · rw [widen_eq_ok] at hw
      simp only [Res.bind_eq_ok] at hw
      obtain ⟨ks, _, hw⟩ := hw
      split at hw
      · simp at hw
      · cases hw
        rw [jn_arr]
        intro x hx
        simp only [sortByKeys] at hx
        obtain ⟨p, hp, rfl⟩ := List.mem_map.mp hx
        have := List.mem_mergeSort.mp hp
        exact jn_arr.mp h p.1 (List.of_mem_zip (show (p.1, p.2) ∈ xs.zip ks from this)).1
  · simp [errType] at hw

/-! objects -/
theorem objInsert_jn {k : Bytes} {v : Val} (hv : Jn P v) : ∀ {acc : List (Bytes × Val)},
    (∀ k' x, (k', x) ∈ acc → Jn P x) → ∀ k' x, (k', x) ∈ objInsert k v acc → Jn P x
  | [], _ => by
    intro k' x hm
    simp only [objInsert, List.mem_singleton, Prod.mk.injEq] at hm
    obtain ⟨_, rfl⟩ := hm; exact hv
  | (k0, v0) :: rest, h => by
    intro k' x hm
    simp only [objInsert] at hm
    split at hm
    · rcases List.mem_cons.mp hm with e | hm
      · cases e; exact hv
      · exact h k' x (List.mem_cons_of_mem _ hm)
    · split at hm
      · rcases List.mem_cons.mp hm with e | hm
        · cases e; exact hv
        · exact h k' x hm
      · rcases List.mem_cons.mp hm with e | hm
        · cases e; exact h k0 v0 (List.mem_cons_self ..)
        · exact objInsert_jn hv (fun k'' x' hm' => h k'' x' (List.mem_cons_of_mem _ hm')) k' x hm

theorem foldl_objInsert_jn : ∀ {kvs acc : List (Bytes × Val)}, (∀ k x, (k, x) ∈ kvs → Jn P x) →
    (∀ k x, (k, x) ∈ acc → Jn P x) →
    ∀ k x, (k, x) ∈ kvs.foldl (fun a kv => objInsert kv.1 kv.2 a) acc → Jn P x
  | [], acc, _, hacc => by simpa using hacc
  | (k0, v0) :: rest, acc, hk, hacc => by
    simp only [List.foldl_cons]
    exact foldl_objInsert_jn (fun k x hm => hk k x (List.mem_cons_of_mem _ hm))
      (objInsert_jn (hk k0 v0 (List.mem_cons_self ..)) hacc)

theorem combineUnordered_jn {acc : Res (List (Bytes × Val))} {k : Bytes} {r : Res Val} {out : List (Bytes × Val)}
    (hacc : ∀ kvs, acc = .ok kvs → ∀ k x, (k, x) ∈ kvs → Jn P x) (hr : ∀ v, r = .ok v → Jn P v)
    (h : combineUnordered acc k r = .ok out) : ∀ k x, (k, x) ∈ out → Jn P x := by
  cases acc <;> cases r <;> simp [combineUnordered] at h
  subst h
  exact objInsert_jn (hr _ rfl) (hacc _ rfl)

/-! zip -/
theorem zipArgs_jn : ∀ {vs : List Val} {cols : List (List Val)}, (∀ v ∈ vs, Jn P v) → zipArgs vs = .ok cols →
    ∀ c ∈ cols, ∀ x ∈ c, Jn P x
  | [], cols, _, h => by simp [zipArgs] at h; subst h; simp
  | .arr t xs :: rest, cols, hv, h => by
    simp only [zipArgs, Res.bind_eq_ok] at h
    obtain ⟨cols', hc, h⟩ := h
    split at h
    · simp at h
    · simp only [Res.pure_eq, Res.ok.injEq] at h
      subst h
      have ih := zipArgs_jn (fun v hv' => hv v (List.mem_cons_of_mem _ hv')) hc
      intro c hc'
      rcases List.mem_cons.mp hc' with rfl | hc'
      · exact jn_arr.mp (hv _ (List.mem_cons_self ..))
      · exact ih c hc'
  | .null :: _, _, _, h => by simp [zipArgs, errType] at h
  | .bool _ :: _, _, _, h => by simp [zipArgs, errType] at h
  | .str _ :: _, _, _, h => by simp [zipArgs, errType] at h
  | .num _ :: _, _, _, h => by simp [zipArgs, errType] at h
  | .obj _ :: _, _, _, h => by simp [zipArgs, errType] at h
  | .foreign _ :: _, _, _, h => by simp [zipArgs, errType] at h

theorem zipRows_jn : ∀ (n : Nat) {cols : List (List Val)}, (∀ c ∈ cols, ∀ x ∈ c, Jn P x) →
    ∀ y ∈ zipRows n cols, Jn P y
  | 0, _, _ => by simp [zipRows]
  | n + 1, cols, h => by
    intro y hy
    simp only [zipRows, List.mem_cons] at hy
    rcases hy with rfl | hy
    · rw [jn_arr]
      intro x hx
      obtain ⟨c, hc, rfl⟩ := List.mem_map.mp hx
      cases c with
      | nil => simp
      | cons a c' => exact h _ hc a (List.mem_cons_self ..)
    · refine zipRows_jn n ?_ y hy
      intro c hc x hx
      obtain ⟨c0, hc0, rfl⟩ := List.mem_map.mp hc
      exact h c0 hc0 x (List.mem_of_mem_tail hx)


theorem strsToArr_jn (ss : List Bytes) : Jn P (strsToArr ss) := by
  unfold strsToArr
  rw [jn_arr]
  intro x hx
  obtain ⟨s, _, rfl⟩ := List.mem_map.mp hx
  simp

theorem runeIndexVal_jn (s : Bytes) (n : Nat) : Jn P (runeIndexVal s n) := by simp [runeIndexVal]

theorem strVal_jn (s : String) : Jn P (strVal s) := by simp [strVal]

set_option hygiene false in
/-- peel binds / matches off a hypothesis `hw : … = .ok w` and close the leaves -/
macro "jn_leaves" : tactic => `(tactic|
  (repeat' (first
     | (simp only [Res.bind_eq_ok, Res.pure_eq] at hw)
     | (obtain ⟨_, _, hw⟩ := hw)
     | (split at hw))
   all_goals (first
     | (simp [errType, errValue] at hw; done)
     | ((try simp only [Res.ok.injEq] at hw); (try subst hw);
        first | (simp; done) | (simp [jn_arr]; done) | exact strsToArr_jn _ | exact runeIndexVal_jn _ _ | exact strVal_jn _ | assumption))))

theorem startsWith_jn {a b w : Val} (hw : startsWith a b = .ok w) : Jn P w := by
  unfold startsWith at hw; jn_leaves
theorem endsWith_jn {a b w : Val} (hw : endsWith a b = .ok w) : Jn P w := by
  unfold endsWith at hw; jn_leaves
theorem findFirst_jn {a b w : Val} (hw : findFirst a b = .ok w) : Jn P w := by
  unfold findFirst at hw; jn_leaves
theorem findLast_jn {a b w : Val} (hw : findLast a b = .ok w) : Jn P w := by
  unfold findLast at hw; jn_leaves
theorem findFrom_jn {l : Bool} {a b c w : Val} (hw : findFrom l a b c = .ok w) : Jn P w := by
  unfold findFrom at hw; jn_leaves
theorem findBetween_jn {l : Bool} {a b c d w : Val} (hw : findBetween l a b c d = .ok w) : Jn P w := by
  unfold findBetween at hw; jn_leaves
theorem length_jn {a w : Val} (hw : length a = .ok w) : Jn P w := by
  unfold length at hw; jn_leaves
theorem join_jn {a b w : Val} (hw : join a b = .ok w) : Jn P w := by
  unfold join at hw; jn_leaves
theorem padWith_jn {l : Bool} {s : Bytes} {n : Int} {p : Bytes} {orig w : Val} (ho : Jn P orig)
    (hw : padWith l s n p orig = .ok w) : Jn P w := by
  unfold padWith at hw; jn_leaves
theorem padLeft_jn {a b c w : Val} (ha : Jn P a) (hw : padLeft a b c = .ok w) : Jn P w := by
  unfold padLeft at hw
  simp only [Res.bind_eq_ok] at hw
  obtain ⟨_, _, _, _, _, _, hw⟩ := hw
  exact padWith_jn ha hw
theorem padRight_jn {a b c w : Val} (ha : Jn P a) (hw : padRight a b c = .ok w) : Jn P w := by
  unfold padRight at hw
  simp only [Res.bind_eq_ok] at hw
  obtain ⟨_, _, _, _, _, _, hw⟩ := hw
  exact padWith_jn ha hw
theorem padSpaceLeft_jn {a b w : Val} (ha : Jn P a) (hw : padSpaceLeft a b = .ok w) : Jn P w := by
  unfold padSpaceLeft at hw
  simp only [Res.bind_eq_ok] at hw
  obtain ⟨_, _, _, _, hw⟩ := hw
  exact padWith_jn ha hw
theorem padSpaceRight_jn {a b w : Val} (ha : Jn P a) (hw : padSpaceRight a b = .ok w) : Jn P w := by
  unfold padSpaceRight at hw
  simp only [Res.bind_eq_ok] at hw
  obtain ⟨_, _, _, _, hw⟩ := hw
  exact padWith_jn ha hw
theorem replace_jn {a b c w : Val} (hw : replace a b c = .ok w) : Jn P w := by
  unfold replace at hw; jn_leaves
theorem replaceCount_jn {a b c d w : Val} (hw : replaceCount a b c d = .ok w) : Jn P w := by
  unfold replaceCount at hw; jn_leaves
theorem split_jn {a b w : Val} (hw : split a b = .ok w) : Jn P w := by
  unfold split at hw; jn_leaves
theorem splitCount_jn {a b c w : Val} (hw : splitCount a b c = .ok w) : Jn P w := by
  unfold splitCount at hw; jn_leaves
theorem trim_jn {a b w : Val} (hw : trim a b = .ok w) : Jn P w := by
  unfold trim at hw; jn_leaves
theorem trimLeft_jn {a b w : Val} (hw : trimLeft a b = .ok w) : Jn P w := by
  unfold trimLeft at hw; jn_leaves
theorem trimRight_jn {a b w : Val} (hw : trimRight a b = .ok w) : Jn P w := by
  unfold trimRight at hw; jn_leaves
theorem trimSpace_jn {a w : Val} (hw : trimSpace a = .ok w) : Jn P w := by
  unfold trimSpace at hw; jn_leaves
theorem trimSpaceLeft_jn {a w : Val} (hw : trimSpaceLeft a = .ok w) : Jn P w := by
  unfold trimSpaceLeft at hw; jn_leaves
theorem trimSpaceRight_jn {a w : Val} (hw : trimSpaceRight a = .ok w) : Jn P w := by
  unfold trimSpaceRight at hw; jn_leaves
theorem caseMap_jn {f : Nat → Option Nat} {s : Bytes} {w : Val} (hw : caseMap f s = .ok w) : Jn P w := by
  unfold caseMap at hw; jn_leaves
theorem lower_jn {a w : Val} (hw : lower a = .ok w) : Jn P w := by
  unfold lower at hw
  split at hw
  · exact caseMap_jn hw
  · simp [errType] at hw
theorem upper_jn {a w : Val} (hw : upper a = .ok w) : Jn P w := by
  unfold upper at hw
  split at hw
  · exact caseMap_jn hw
  · simp [errType] at hw
theorem typeName_jn {a w : Val} (hw : typeName a = .ok w) : Jn P w := by
  unfold typeName at hw; jn_leaves
theorem toStringV_jn {a w : Val} (hw : toStringV a = .ok w) : Jn P w := by
  unfold toStringV at hw; jn_leaves
theorem contains_jn {a b w : Val} (hw : contains a b = .ok w) : Jn P w := by
  unfold contains at hw; jn_leaves
theorem keys_jn {a w : Val} (hw : keys a = .ok w) : Jn P w := by
  unfold keys at hw
  split at hw
  · cases hw
    rw [jn_arr]; intro x hx
    obtain ⟨_, _, rfl⟩ := List.mem_map.mp hx; simp
  · simp [errType] at hw


theorem values_jn {a w : Val} (h : Jn P a) (hw : values a = .ok w) : Jn P w := by
  unfold values at hw
  split at hw
  · cases hw
    rw [jn_arr]; intro x hx
    obtain ⟨⟨k, x'⟩, hm, rfl⟩ := List.mem_map.mp hx
    exact jn_obj.mp h k x' hm
  · simp [errType] at hw

theorem items_jn {a w : Val} (h : Jn P a) (hw : items a = .ok w) : Jn P w := by
  unfold items at hw
  split at hw
  · cases hw
    rw [jn_arr]; intro x hx
    obtain ⟨⟨k, x'⟩, hm, rfl⟩ := List.mem_map.mp hx
    rw [jn_arr]; intro y hy
    simp only [List.mem_cons, List.not_mem_nil, or_false] at hy
    rcases hy with hy | hy
    · subst hy; simp
    · subst hy; exact jn_obj.mp h k _ hm
  · simp [errType] at hw

theorem fromItemsLoop_jn : ∀ {xs : List Val} {acc r : List (Bytes × Val)}, (∀ x ∈ xs, Jn P x) →
    (∀ k x, (k, x) ∈ acc → Jn P x) → fromItemsLoop xs acc = .ok r → ∀ k x, (k, x) ∈ r → Jn P x
  | [], acc, r, _, hacc, h => by simp [fromItemsLoop] at h; subst h; exact hacc
  | .arr t ia :: xs, acc, r, hx, hacc, h => by
    have hx' : ∀ y ∈ xs, Jn P y := fun y hy => hx y (List.mem_cons_of_mem _ hy)
    have h0 := hx _ (List.mem_cons_self ..)
    simp only [fromItemsLoop] at h
    split at h
    · next k v =>
      split at h
      · simp at h
      · split at h
        · next s =>
          have hv : Jn P v := jn_arr.mp h0 v (by simp)
          exact fromItemsLoop_jn hx' (objInsert_jn hv hacc) h
        · simp [errValue] at h
    · simp [errValue] at h
  | .null :: _, _, _, _, _, h => by simp [fromItemsLoop, errType] at h
  | .bool _ :: _, _, _, _, _, h => by simp [fromItemsLoop, errType] at h
  | .str _ :: _, _, _, _, _, h => by simp [fromItemsLoop, errType] at h
  | .num _ :: _, _, _, _, _, h => by simp [fromItemsLoop, errType] at h
  | .obj _ :: _, _, _, _, _, h => by simp [fromItemsLoop, errType] at h
  | .foreign _ :: _, _, _, _, _, h => by simp [fromItemsLoop, errType] at h

theorem fromItems_jn {a w : Val} (h : Jn P a) (hw : fromItems a = .ok w) : Jn P w := by
  unfold fromItems at hw
  split at hw
  · next t xs =>
    split at hw
    · next kvs hl =>
      split at hw
      · simp at hw
      · cases hw
        exact jn_obj.mpr (fromItemsLoop_jn (jn_arr.mp h) (by simp) hl)
    · split at hw <;> simp at hw
    · simp at hw
    · simp at hw
    · simp at hw
  · simp [errType] at hw

theorem reverse_jn {a w : Val} (h : Jn P a) (hw : reverse a = .ok w) : Jn P w := by
  unfold reverse at hw
  split at hw
  · cases hw; simp
  · cases hw
    rw [jn_arr]; intro x hx
    exact jn_arr.mp h x (List.mem_reverse.mp hx)
  · simp [errType] at hw

theorem toArray_jn {a : Val} (h : Jn P a) : Jn P (toArray a) := by
  unfold toArray
  split
  · exact h
  · rw [jn_arr]; intro x hx; simp at hx; subst hx; exact h

theorem sortArray_jn {a w : Val} (h : Jn P a) (hw : sortArray a = .ok w) : Jn P w := by
  unfold sortArray at hw
  split at hw
  · next t xs =>
    split at hw
    · cases hw; exact h
    · split at hw
      · cases hw
        rw [jn_arr]; intro x hx
        obtain ⟨_, _, rfl⟩ := List.mem_map.mp hx; simp
      · simp [errType] at hw
    · split at hw
      · next ds _ =>
        simp only at hw
        split at hw
        · simp at hw
        · cases hw
          rw [jn_arr]; intro x hx
          obtain ⟨p, hp, rfl⟩ := List.mem_map.mp hx
          have := List.mem_mergeSort.mp hp
          exact jn_arr.mp h p.1 (List.of_mem_zip (show (p.1, p.2) ∈ xs.zip ds from this)).1
      · simp [errType] at hw
  · simp [errType] at hw


/-- comparison and arithmetic operators on `Jn P` operands give a `Jn P` result -/
theorem applyBinOp_jn {op : BinOp} {x y v : Val} (hx : Jn P x) (_hy : Jn P y) (h : applyBinOp op x y = .ok v) : Jn P v := by
  cases op
  case eq | ne =>
    simp only [applyBinOp, Res.bind_eq_ok, Res.pure_eq, Res.ok.injEq] at h
    obtain ⟨_, _, rfl⟩ := h; simp
  case lt | le | gt | ge =>
    simp only [applyBinOp, less, lessOrEqual, greater, greaterOrEqual, cmpOp, Res.ok.injEq] at h
    subst h
    split
    · simp
    · split <;> simp
  case add => exact arith_jn h hx
  case sub => exact arith_jn h hx
  case mul => exact arith_jn h hx
  case div => exact arith_jn h hx
  case idiv => exact arith_jn h hx
  case mod => exact arith_jn h hx

/-- every builtin maps `Jn P` arguments to a `Jn P` result -/
theorem applyFn_jn {f : Fn} {args : List Val} {w : Val} (ha : ∀ a ∈ args, Jn P a)
    (hw : applyFn f args = .ok w) : Jn P w := by
  have h0 : ∀ {a : Val} {l : List Val}, args = a :: l → Jn P a := fun e => ha _ (e ▸ List.mem_cons_self ..)
  unfold applyFn at hw
  split at hw
  · exact numAbs_jn (h0 rfl) hw
  · exact numAvg_jn hw
  · exact numCeil_jn (h0 rfl) hw
  · exact contains_jn hw
  · exact endsWith_jn hw
  · exact findFirst_jn hw
  · exact findBetween_jn hw
  · exact findFrom_jn hw
  · exact findLast_jn hw
  · exact findBetween_jn hw
  · exact findFrom_jn hw
  · exact numFloor_jn (h0 rfl) hw
  · exact fromItems_jn (h0 rfl) hw
  · exact items_jn (h0 rfl) hw
  · exact join_jn hw
  · exact keys_jn hw
  · exact length_jn hw
  · exact lower_jn hw
  · exact arrayMax_jn (h0 rfl) hw
  · exact arrayMin_jn (h0 rfl) hw
  · exact padLeft_jn (h0 rfl) hw
  · exact padRight_jn (h0 rfl) hw
  · exact padSpaceLeft_jn (h0 rfl) hw
  · exact padSpaceRight_jn (h0 rfl) hw
  · exact replace_jn hw
  · exact replaceCount_jn hw
  · exact reverse_jn (h0 rfl) hw
  · exact sortArray_jn (h0 rfl) hw
  · exact split_jn hw
  · exact splitCount_jn hw
  · exact startsWith_jn hw
  · exact numSum_jn (h0 rfl) hw
  · cases hw; exact toArray_jn (h0 rfl)
  · cases hw; exact toNumber_jn (h0 rfl)
  · exact toStringV_jn hw
  · exact trim_jn hw
  · exact trimLeft_jn hw
  · exact trimRight_jn hw
  · exact trimSpace_jn hw
  · exact trimSpaceLeft_jn hw
  · exact trimSpaceRight_jn hw
  · exact typeName_jn hw
  · exact upper_jn hw
  · exact values_jn (h0 rfl) hw
  · simp at hw




theorem envGet_jn {env : Env} (h : JnEnv P env) {x : Bytes} {v : Val} (hv : env.get x = some v) : Jn P v :=
  h x v (objLookup_mem hv)

mutual
/-- the reference semantics maps `Jn P` inputs (document, current value, environment, literals) to `Jn P` results -/
theorem seval_jn (root : Val) (hr : Jn P root) : (t : Tree) → (cur : Val) → (env : Env) → JnTree P t → Jn P cur →
    JnEnv P env → ∀ w, seval root t cur env = .ok w → Jn P w
  | .lit v, cur, env, hl, hc, he, w, hw => by
    simp only [seval, Res.ok.injEq] at hw; subst hw; simpa [JnTree] using hl
  | .current, cur, env, hl, hc, he, w, hw => by
    simp only [seval, Res.ok.injEq] at hw; subst hw; exact hc
  | .root, cur, env, hl, hc, he, w, hw => by
    simp only [seval, Res.ok.injEq] at hw; subst hw; exact hr
  | .field k, cur, env, hl, hc, he, w, hw => by
    simp only [seval, Res.ok.injEq] at hw; subst hw; exact field_jn k hc
  | .var x, cur, env, hl, hc, he, w, hw => by
    simp only [seval] at hw
    split at hw
    · next v hv => simp only [Res.ok.injEq] at hw; subst hw; exact envGet_jn he hv
    · simp at hw
  | .index i, cur, env, hl, hc, he, w, hw => by
    simp only [seval] at hw; exact index_jn hc hw
  | .slice a b, cur, env, hl, hc, he, w, hw => by
    simp only [seval] at hw; exact slice_jn hc hw
  | .sliceStep a b s, cur, env, hl, hc, he, w, hw => by
    simp only [seval] at hw; exact sliceStep_jn hc hw
  | .sub l r, cur, env, hl, hc, he, w, hw => by
    simp only [JnTree] at hl
    simp only [seval, Res.bind_eq_ok] at hw
    obtain ⟨a, ha, hw⟩ := hw
    exact seval_jn root hr r a env hl.2 (seval_jn root hr l cur env hl.1 hc he a ha) he w hw
  | .binop op l r, cur, env, hl, hc, he, w, hw => by
    simp only [JnTree] at hl
    simp only [seval, Res.bind_eq_ok] at hw
    obtain ⟨a, ha, b, hb, hw⟩ := hw
    exact applyBinOp_jn (seval_jn root hr l cur env hl.1 hc he a ha) (seval_jn root hr r cur env hl.2 hc he b hb) hw
  | .and l r, cur, env, hl, hc, he, w, hw => by
    simp only [JnTree] at hl
    simp only [seval, Res.bind_eq_ok] at hw
    obtain ⟨a, ha, hw⟩ := hw
    split at hw
    · simp only [Res.pure_eq, Res.ok.injEq] at hw; subst hw; exact seval_jn root hr l cur env hl.1 hc he a ha
    · exact seval_jn root hr r cur env hl.2 hc he w hw
  | .or l r, cur, env, hl, hc, he, w, hw => by
    simp only [JnTree] at hl
    simp only [seval, Res.bind_eq_ok] at hw
    obtain ⟨a, ha, hw⟩ := hw
    split at hw
    · simp only [Res.pure_eq, Res.ok.injEq] at hw; subst hw; exact seval_jn root hr l cur env hl.1 hc he a ha
    · exact seval_jn root hr r cur env hl.2 hc he w hw
  | .not c, cur, env, hl, hc, he, w, hw => by
    simp only [seval, Res.bind_eq_ok, Res.pure_eq, Res.ok.injEq] at hw
    obtain ⟨a, _, rfl⟩ := hw; simp
  | .neg c, cur, env, hl, hc, he, w, hw => by
    simp only [JnTree] at hl
    simp only [seval, Res.bind_eq_ok, Res.pure_eq, Res.ok.injEq] at hw
    obtain ⟨a, ha, rfl⟩ := hw
    exact negateVal_jn (seval_jn root hr c cur env hl hc he a ha)
  | .pos c, cur, env, hl, hc, he, w, hw => by
    simp only [JnTree] at hl
    simp only [seval, Res.bind_eq_ok, Res.pure_eq, Res.ok.injEq] at hw
    obtain ⟨a, ha, rfl⟩ := hw
    split
    · exact seval_jn root hr c cur env hl hc he a ha
    · simp
  | .call f args, cur, env, hl, hc, he, w, hw => by
    simp only [JnTree] at hl
    simp only [seval, Res.bind_eq_ok] at hw
    obtain ⟨vs, hvs, hw⟩ := hw
    exact applyFn_jn (sevalList_jn root hr args cur env hl hc he vs hvs) hw
  | .prune l, cur, env, hl, hc, he, w, hw => by
    simp only [JnTree] at hl
    simp only [seval, Res.bind_eq_ok, Res.pure_eq, Res.ok.injEq] at hw
    obtain ⟨a, ha, rfl⟩ := hw
    exact pruneArray_jn (seval_jn root hr l cur env hl hc he a ha)
  | .proj l r, cur, env, hl, hc, he, w, hw => by
    simp only [JnTree] at hl
    simp only [seval, Res.bind_eq_ok] at hw
    obtain ⟨a, ha, hw⟩ := hw
    exact projectArray_jn (fun x hx v hv => seval_jn root hr r x env hl.2 hx he v hv)
      (seval_jn root hr l cur env hl.1 hc he a ha) hw
  | .sliceProj l r, cur, env, hl, hc, he, w, hw => by
    simp only [JnTree] at hl
    simp only [seval, Res.bind_eq_ok] at hw
    obtain ⟨a, ha, hw⟩ := hw
    have hna := seval_jn root hr l cur env hl.1 hc he a ha
    split at hw
    · exact seval_jn root hr r _ env hl.2 hna he w hw
    · exact projectArray_jn (fun x hx v hv => seval_jn root hr r x env hl.2 hx he v hv) hna hw
  | .flatProj l r, cur, env, hl, hc, he, w, hw => by
    simp only [JnTree] at hl
    simp only [seval, Res.bind_eq_ok] at hw
    obtain ⟨a, ha, hw⟩ := hw
    exact flattenAndProjectArray_jn (fun x hx v hv => seval_jn root hr r x env hl.2 hx he v hv)
      (seval_jn root hr l cur env hl.1 hc he a ha) hw
  | .filterProj l c r, cur, env, hl, hc, he, w, hw => by
    simp only [JnTree] at hl
    simp only [seval, Res.bind_eq_ok] at hw
    obtain ⟨a, ha, hw⟩ := hw
    exact filterAndProjectArray_jn (fun x hx v hv => seval_jn root hr r x env hl.2.2 hx he v hv)
      (seval_jn root hr l cur env hl.1 hc he a ha) hw
  | .valueProj l r, cur, env, hl, hc, he, w, hw => by
    simp only [JnTree] at hl
    simp only [seval, Res.bind_eq_ok] at hw
    obtain ⟨a, ha, hw⟩ := hw
    exact projectObject_jn (fun x hx v hv => seval_jn root hr r x env hl.2 hx he v hv)
      (seval_jn root hr l cur env hl.1 hc he a ha) hw
  | .multiList chk es, cur, env, hl, hc, he, w, hw => by
    simp only [JnTree] at hl
    simp only [seval] at hw
    split at hw
    · simp only [Res.ok.injEq] at hw; subst hw; simp
    · simp only [Res.bind_eq_ok, Res.pure_eq, Res.ok.injEq] at hw
      obtain ⟨vs, hvs, rfl⟩ := hw
      exact jn_arr.mpr (sevalList_jn root hr es cur env hl hc he vs hvs)
  | .multiHash chk kvs, cur, env, hl, hc, he, w, hw => by
    simp only [JnTree] at hl
    simp only [seval] at hw
    split at hw
    · simp only [Res.ok.injEq] at hw; subst hw; simp
    · simp only [Res.bind_eq_ok, Res.pure_eq, Res.ok.injEq] at hw
      obtain ⟨fs, hfs, rfl⟩ := hw
      exact jn_obj.mpr (sevalFields_jn root hr kvs cur env hl hc he fs hfs)
  | .letIn bs body, cur, env, hl, hc, he, w, hw => by
    simp only [JnTree] at hl
    simp only [seval, Res.bind_eq_ok] at hw
    obtain ⟨vs, hvs, hw⟩ := hw
    have hvs' := sevalFields_jn root hr bs cur env hl.1 hc he vs hvs
    refine seval_jn root hr body cur (vs ++ env) hl.2 hc ?_ w hw
    intro k x hm
    rcases List.mem_append.mp hm with hm | hm
    · exact hvs' k x hm
    · exact he k x hm
  | .groupBy a e, cur, env, hl, hc, he, w, hw => by
    simp only [JnTree] at hl
    simp only [seval, Res.bind_eq_ok] at hw
    obtain ⟨v, hv, hw⟩ := hw
    exact groupBy_jn (seval_jn root hr a cur env hl.1 hc he v hv) hw
  | .map e a, cur, env, hl, hc, he, w, hw => by
    simp only [JnTree] at hl
    simp only [seval, Res.bind_eq_ok] at hw
    obtain ⟨v, hv, hw⟩ := hw
    exact mapArray_jn (fun x hx v hv => seval_jn root hr e x env hl.1 hx he v hv)
      (seval_jn root hr a cur env hl.2 hc he v hv) hw
  | .maxBy a e, cur, env, hl, hc, he, w, hw => by
    simp only [JnTree] at hl
    simp only [seval, Res.bind_eq_ok] at hw
    obtain ⟨v, hv, hw⟩ := hw
    exact arrayPickBy_jn (seval_jn root hr a cur env hl.1 hc he v hv) hw
  | .minBy a e, cur, env, hl, hc, he, w, hw => by
    simp only [JnTree] at hl
    simp only [seval, Res.bind_eq_ok] at hw
    obtain ⟨v, hv, hw⟩ := hw
    exact arrayPickBy_jn (seval_jn root hr a cur env hl.1 hc he v hv) hw
  | .sortBy a e, cur, env, hl, hc, he, w, hw => by
    simp only [JnTree] at hl
    simp only [seval, Res.bind_eq_ok] at hw
    obtain ⟨v, hv, hw⟩ := hw
    exact sortArrayBy_jn (seval_jn root hr a cur env hl.1 hc he v hv) hw
  | .merge args, cur, env, hl, hc, he, w, hw => by
    simp only [JnTree] at hl
    simp only [seval, Res.bind_eq_ok, Res.pure_eq, Res.ok.injEq] at hw
    obtain ⟨kvs, hk, rfl⟩ := hw
    exact jn_obj.mpr (sevalMerge_jn root hr args cur env [] hl hc he (by simp) kvs hk)
  | .notNull args, cur, env, hl, hc, he, w, hw => by
    simp only [JnTree] at hl
    simp only [seval] at hw
    exact sevalNotNull_jn root hr args cur env hl hc he w hw
  | .zip args, cur, env, hl, hc, he, w, hw => by
    simp only [JnTree] at hl
    simp only [seval, Res.bind_eq_ok] at hw
    obtain ⟨vs, hvs, cols, hcols, hw⟩ := hw
    have hcn := zipArgs_jn (sevalZip_jn root hr args cur env hl hc he vs hvs) hcols
    split at hw
    · simp only [Res.pure_eq, Res.ok.injEq] at hw; subst hw; simp [jn_arr]
    · simp only [Res.pure_eq, Res.ok.injEq] at hw; subst hw
      exact jn_arr.mpr (zipRows_jn _ hcn)
theorem sevalList_jn (root : Val) (hr : Jn P root) : (ts : List Tree) → (cur : Val) → (env : Env) →
    JnTreeL P ts → Jn P cur → JnEnv P env → ∀ vs, sevalList root ts cur env = .ok vs → ∀ v ∈ vs, Jn P v
  | [], cur, env, hl, hc, he, vs, hw => by
    simp only [sevalList, Res.ok.injEq] at hw; subst hw; simp
  | t :: ts, cur, env, hl, hc, he, vs, hw => by
    simp only [JnTreeL] at hl
    simp only [sevalList, Res.bind_eq_ok, Res.pure_eq, Res.ok.injEq] at hw
    obtain ⟨v, hv, rest, hrest, rfl⟩ := hw
    intro y hy
    rcases List.mem_cons.mp hy with rfl | hy
    · exact seval_jn root hr t cur env hl.1 hc he _ hv
    · exact sevalList_jn root hr ts cur env hl.2 hc he rest hrest y hy
theorem sevalFields_jn (root : Val) (hr : Jn P root) : (fs : List (Bytes × Tree)) → (cur : Val) → (env : Env) →
    JnTreeF P fs → Jn P cur → JnEnv P env → ∀ kvs, sevalFields root fs cur env = .ok kvs →
    ∀ k x, (k, x) ∈ kvs → Jn P x
  | [], cur, env, hl, hc, he, kvs, hw => by
    simp only [sevalFields, Res.ok.injEq] at hw; subst hw; simp
  | (k, t) :: rest, cur, env, hl, hc, he, kvs, hw => by
    simp only [JnTreeF] at hl
    simp only [sevalFields] at hw
    exact combineUnordered_jn (fun kvs' h' => sevalFields_jn root hr rest cur env hl.2 hc he kvs' h')
      (fun v hv => seval_jn root hr t cur env hl.1 hc he v hv) hw
theorem sevalMerge_jn (root : Val) (hr : Jn P root) : (ts : List Tree) → (cur : Val) → (env : Env) →
    (acc : List (Bytes × Val)) → JnTreeL P ts → Jn P cur → JnEnv P env → (∀ k x, (k, x) ∈ acc → Jn P x) →
    ∀ kvs, sevalMerge root ts cur env acc = .ok kvs → ∀ k x, (k, x) ∈ kvs → Jn P x
  | [], cur, env, acc, hl, hc, he, hacc, kvs, hw => by
    simp only [sevalMerge, Res.ok.injEq] at hw; subst hw; exact hacc
  | t :: ts, cur, env, acc, hl, hc, he, hacc, kvs, hw => by
    simp only [JnTreeL] at hl
    simp only [sevalMerge, Res.bind_eq_ok] at hw
    obtain ⟨v, hv, hw⟩ := hw
    have hvn := seval_jn root hr t cur env hl.1 hc he v hv
    split at hw
    · exact sevalMerge_jn root hr ts cur env _ hl.2 hc he
        (foldl_objInsert_jn (jn_obj.mp hvn) hacc) kvs hw
    · simp [errType] at hw
theorem sevalNotNull_jn (root : Val) (hr : Jn P root) : (ts : List Tree) → (cur : Val) → (env : Env) →
    JnTreeL P ts → Jn P cur → JnEnv P env → ∀ w, sevalNotNull root ts cur env = .ok w → Jn P w
  | [], cur, env, hl, hc, he, w, hw => by
    simp only [sevalNotNull, Res.ok.injEq] at hw; subst hw; simp
  | t :: ts, cur, env, hl, hc, he, w, hw => by
    simp only [JnTreeL] at hl
    simp only [sevalNotNull, Res.bind_eq_ok] at hw
    obtain ⟨v, hv, hw⟩ := hw
    split at hw
    · exact sevalNotNull_jn root hr ts cur env hl.2 hc he w hw
    · simp only [Res.pure_eq, Res.ok.injEq] at hw; subst hw
      exact seval_jn root hr t cur env hl.1 hc he _ hv
theorem sevalZip_jn (root : Val) (hr : Jn P root) : (ts : List Tree) → (cur : Val) → (env : Env) →
    JnTreeL P ts → Jn P cur → JnEnv P env → ∀ vs, sevalZip root ts cur env = .ok vs → ∀ v ∈ vs, Jn P v
  | [], cur, env, hl, hc, he, vs, hw => by
    simp only [sevalZip, Res.ok.injEq] at hw; subst hw; simp
  | t :: ts, cur, env, hl, hc, he, vs, hw => by
    simp only [JnTreeL] at hl
    simp only [sevalZip, Res.bind_eq_ok] at hw
    obtain ⟨v, hv, hw⟩ := hw
    have hvn := seval_jn root hr t cur env hl.1 hc he v hv
    split at hw
    · simp only [Res.bind_eq_ok, Res.pure_eq, Res.ok.injEq] at hw
      obtain ⟨rest, hrest, rfl⟩ := hw
      intro y hy
      rcases List.mem_cons.mp hy with rfl | hy
      · exact hvn
      · exact sevalZip_jn root hr ts cur env hl.2 hc he rest hrest y hy
    · simp [errType] at hw
end

/-! ### from the Bool traversal of the compiled expression to the literal predicate on the reference syntax -/

mutual
/-- if every literal satisfies the Boolean check `B` (Bool traversal `INode.all`) and `B` implies `Jn P`, every literal
    of the desugared expression is `Jn P` -/
theorem desugar_jnTree {B : Val → Bool} (hB : ∀ v, B v = true → Jn P v) : (n : INode) → n.all (INode.litOk B) = true → JnTree P (desugar n)
  | .lit v, h => by
    simp only [INode.all, INode.litOk] at h
    simp only [desugar, JnTree]
    exact hB v h
  | .current, _ | .root, _ | .field _, _ | .variable _, _ | .flattenCurrent, _ | .indexCurrent _, _
  | .smallIndexCurrent _, _ | .objectValuesCurrent, _ | .pruneArrayCurrent, _ | .sliceCurrent _ _, _
  | .sliceStepCurrent _ _ _, _ => by simp [desugar, JnTree]
  | .binop _ l r, h | .and l r, h | .or l r, h | .flattenAndProject l r, h | .pipe l r, h | .projectObject l r, h
  | .groupBy l r, h | .map l r, h | .maxBy l r, h | .minBy l r, h | .sortBy l r, h => by
    simp only [INode.all, Bool.and_eq_true] at h
    simp only [desugar, JnTree]
    exact ⟨desugar_jnTree hB l h.1.2, desugar_jnTree hB r h.2⟩
  | .projectArray l r, h => by
    simp only [INode.all, Bool.and_eq_true] at h
    simp only [desugar]
    split <;> (simp only [JnTree]; exact ⟨desugar_jnTree hB l h.1.2, desugar_jnTree hB r h.2⟩)
  | .filter l r, h => by
    simp only [INode.all, Bool.and_eq_true] at h
    simp only [desugar, JnTree]
    exact ⟨desugar_jnTree hB l h.1.2, desugar_jnTree hB r h.2, trivial⟩
  | .filterAndProjectCurrent l r, h => by
    simp only [INode.all, Bool.and_eq_true] at h
    simp only [desugar, JnTree]
    exact ⟨trivial, desugar_jnTree hB l h.1.2, desugar_jnTree hB r h.2⟩
  | .filterAndProject l f r, h => by
    simp only [INode.all, Bool.and_eq_true] at h
    simp only [desugar, JnTree]
    exact ⟨desugar_jnTree hB l h.1.1.2, desugar_jnTree hB f h.1.2, desugar_jnTree hB r h.2⟩
  | .filterCurrent c, h => by
    simp only [INode.all, Bool.and_eq_true] at h
    simp only [desugar, JnTree]
    exact ⟨trivial, desugar_jnTree hB c h.2, trivial⟩
  | .selectArraySingle l r, h => by
    simp only [INode.all, Bool.and_eq_true] at h
    simp only [desugar, JnTree, JnTreeL]
    exact ⟨desugar_jnTree hB l h.1.2, desugar_jnTree hB r h.2, trivial⟩
  | .selectObjectSingle l _ r, h => by
    simp only [INode.all, Bool.and_eq_true] at h
    simp only [desugar, JnTree, JnTreeF]
    exact ⟨desugar_jnTree hB l h.1.2, desugar_jnTree hB r h.2, trivial⟩
  | .not c, h | .negate c, h | .assertNumber c, h | .pruneArray c, h => by
    simp only [INode.all, Bool.and_eq_true] at h
    simp only [desugar, JnTree]
    exact desugar_jnTree hB c h.2
  | .flatten c, h | .objectValues c, h | .index c _, h | .slice c _ _, h | .sliceStep c _ _ _, h => by
    simp only [INode.all, Bool.and_eq_true] at h
    simp only [desugar, JnTree]
    exact ⟨desugar_jnTree hB c h.2, trivial⟩
  | .flattenAndProjectCurrent c, h | .projectArrayCurrent c, h | .projectObjectCurrent c, h => by
    simp only [INode.all, Bool.and_eq_true] at h
    simp only [desugar, JnTree]
    exact ⟨trivial, desugar_jnTree hB c h.2⟩
  | .selectArraySingleCurrent c, h => by
    simp only [INode.all, Bool.and_eq_true] at h
    simp only [desugar, JnTree, JnTreeL]
    exact ⟨desugar_jnTree hB c h.2, trivial⟩
  | .selectObjectSingleCurrent _ c, h => by
    simp only [INode.all, Bool.and_eq_true] at h
    simp only [desugar, JnTree, JnTreeF]
    exact ⟨desugar_jnTree hB c h.2, trivial⟩
  | .call f args, h => by
    simp only [INode.all, Bool.and_eq_true] at h
    simp only [desugar, JnTree]
    exact desugarList_jnTree hB args h.2
  | .selectArrayCurrent args, h | .merge args, h | .notNull args, h | .zip args, h => by
    simp only [INode.all, Bool.and_eq_true] at h
    simp only [desugar, JnTree]
    exact desugarList_jnTree hB args h.2
  | .selectArray c fs, h => by
    simp only [INode.all, Bool.and_eq_true] at h
    simp only [desugar, JnTree]
    exact ⟨desugar_jnTree hB c h.1.2, desugarList_jnTree hB fs h.2⟩
  | .selectObject c fs, h => by
    simp only [INode.all, Bool.and_eq_true] at h
    simp only [desugar, JnTree]
    exact ⟨desugar_jnTree hB c h.1.2, desugarFields_jnTree hB fs h.2⟩
  | .selectObjectCurrent fs, h => by
    simp only [INode.all, Bool.and_eq_true] at h
    simp only [desugar, JnTree]
    exact desugarFields_jnTree hB fs h.2
  | .defineVariables vars child, h => by
    simp only [INode.all, Bool.and_eq_true] at h
    simp only [desugar, JnTree]
    exact ⟨desugarFields_jnTree hB vars h.1.2, desugar_jnTree hB child h.2⟩
theorem desugarList_jnTree {B : Val → Bool} (hB : ∀ v, B v = true → Jn P v) : (ns : List INode) → INode.allL (INode.litOk B) ns = true → JnTreeL P (desugarList ns)
  | [], _ => by simp [desugarList, JnTreeL]
  | n :: ns, h => by
    simp only [INode.allL, Bool.and_eq_true] at h
    simp only [desugarList, JnTreeL]
    exact ⟨desugar_jnTree hB n h.1, desugarList_jnTree hB ns h.2⟩
theorem desugarFields_jnTree {B : Val → Bool} (hB : ∀ v, B v = true → Jn P v) : (fs : List (Bytes × INode)) → INode.allF (INode.litOk B) fs = true →
    JnTreeF P (desugarFields fs)
  | [], _ => by simp [desugarFields, JnTreeF]
  | (k, n) :: rest, h => by
    simp only [INode.allF, Bool.and_eq_true] at h
    simp only [desugarFields, JnTreeF]
    exact ⟨desugar_jnTree hB n h.1, desugarFields_jnTree hB rest h.2⟩
end

/-! ## the evaluator -/

/-- **closure of `Jn P` under the evaluator** (number provenance): on a `Jn P` document, current value and environment,
    an expression whose literals are `Jn P` evaluates — whatever operators and builtins it uses — to a `Jn P` value:
    every `json.Number` of the result has a text satisfying `P`, and the result holds no binary float. -/
theorem ieval_jn {B : Val → Bool} (hB : ∀ v, B v = true → Jn P v) {root : Val} (hr : Jn P root) {n : INode}
    (hn : n.all (INode.litOk B) = true) {cur : Val} (hc : Jn P cur) {env : Env} (he : JnEnv P env) {w : Val}
    (hw : ieval root n cur env = .ok w) : Jn P w := by
  rw [ieval_desugar] at hw
  exact seval_jn root hr (desugar n) cur env (desugar_jnTree hB n hn) hc he w hw

/-- … for `Evaluate(node, data)` -/
theorem evaluate_jn {B : Val → Bool} (hB : ∀ v, B v = true → Jn P v) {n : INode}
    (hn : n.all (INode.litOk B) = true) {d : Val} (hd : Jn P d) {w : Val} (hw : evaluate n d = .ok w) : Jn P w :=
  ieval_jn hB hd hn hd (by intro k x hm; cases hm) hw

/-- `abs(@) - $.a` at current value `-2.50`, root `{"a": 1e2}`, `$x = 7`, literal-free: the result is `Jn P` for
    `P` = "the text is `-2.50` or `1e2`" (it is the decimal `-102.5`: no `json.Number` at all) -/
example : ∀ w, ieval (.obj [([0x61], .num (.jnum [0x31, 0x65, 0x32]))])
    (.binop .sub (.call .abs [.current]) (.pipe .root (.field [0x61])))
    (.num (.jnum [0x2D, 0x32, 0x2E, 0x35, 0x30])) [([0x78], .num (.int .i64 7))] = .ok w →
    Jn (fun t => t = [0x2D, 0x32, 0x2E, 0x35, 0x30] ∨ t = [0x31, 0x65, 0x32]) w := fun w hw =>
  ieval_jn (B := fun _ => false) (by simp) (by simp [Jn, JnF, JNum]) (by decide) (by simp [Jn, JNum])
    (by intro k x hm; simp only [List.mem_singleton, Prod.mk.injEq] at hm; obtain ⟨_, rfl⟩ := hm; simp) hw

/-- `[a, length(@)]` on `{"a": 1}`: the `json.Number` `1` of the result comes from the document -/
example : evaluate (.selectArrayCurrent [.field [0x61], .call .length [.current]]) (.obj [([0x61], .num (.jnum [0x31]))]) =
      .ok (.arr .plain [.num (.jnum [0x31]), .num (.int .i64 1)]) ∧
    Jn (· = [0x31]) (.arr .plain [.num (.jnum [0x31]), .num (.int .i64 1)]) :=
  ⟨rfl, evaluate_jn (B := fun _ => false) (by simp) (n := .selectArrayCurrent [.field [0x61], .call .length [.current]])
    (by decide) (d := .obj [([0x61], .num (.jnum [0x31]))]) (by simp [Jn, JnF, JNum]) rfl⟩

end Jmes.C20E
