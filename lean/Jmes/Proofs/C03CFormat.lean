/-
  C03 / C08, third pass — the error VALUES of the Go code and their `Error()` methods.

  The evaluator model (`Jmes/Model`) reports a failure as a bare list of categories (`Res.err cs`).  The Go code builds
  an error value with a payload (`&InvalidTypeError{got: reflect.TypeOf(v), want: "number"}` …) and formats it EAGERLY:
  `evaluateError` / `parseError` (jmespath.go) call `err.Error()` while they map the internal error to the public one.  So
  "every returned error can be formatted" (C03) is really "no `Error()` method can panic on a payload the evaluator
  builds", and a panic there would be a panic of `Search` itself.

  This file transliterates
    * /repo/internal/lexer/errors.go      (`LexErr`, already in the model; here: its messages),
    * /repo/internal/parser/errors.go     (`PErrV`: the parser errors WITH payload),
    * /repo/internal/evaluator/errors.go  (`EErr`: the evaluator errors with payload, `EErr.format` = `Error()`,
                                           `EErr.is` = the `Is` methods / sentinel identity / `Unwrap` chain),
    * /repo/errors.go                     (`PublicErr`, `PublicErr.format`, `PublicErr.cat`),
    * /repo/jmespath.go                   (`mapE` = `evaluateError`, `mapP` = `parseError`),
  together with the library routines the messages go through: `strconv.Quote`, `strconv.QuoteRune`, `strconv.Itoa`,
  and the three methods of `reflect.Type` that are called (`String`, `Kind`, `Elem().Name()` / `Name`).

  `reflect.TypeOf(nil)` is the nil `reflect.Type`; calling a method on it is a nil-pointer dereference.  The model keeps
  this: `GoType.nil`, and `GoType.str` / `GoType.isPointer` / … answer `.panic` on it.

  Not transliterated, but taken as parameters (`Lib`): the Unicode table behind `strconv.IsPrint` above U+00FF,
  `decimal128.Decimal.String` (a total function of a third-party library: `appendSpecial` for NaN / ±Inf, `digits` +
  `fmtE`/`fmtF` otherwise), and the name of the dynamic type of a foreign Go value.  Every totality theorem below holds
  for every `Lib`.
-/
import Jmes.Model.Api
import Jmes.Proofs.Refine
namespace Jmes.C03CFormat
open Jmes

/-! ## library routines -/

/-- what the formatter consults but the model does not transliterate -/
structure Lib where
  /-- `strconv.IsPrint` for runes above U+00FF (below, it is transliterated: `isPrint`) -/
  isPrintHigh : Nat → Bool
  /-- `decimal128.Decimal.String` -/
  decString : Dec → Bytes
  /-- `reflect.TypeOf(x).String()` for the foreign Go value with tag `t` (never the nil type: only the nil interface has
      the nil type, and that is `Val.null`) -/
  foreignTypeStr : Nat → Bytes

/-- UTF-8 bytes of a Lean string literal (through the model's `encodeRune`, so that it reduces in the kernel) -/
def utf8 (s : String) : Bytes := s.toList.flatMap (fun c => encodeRune c.toNat)

/-- `"0123456789abcdef"[n]` for `n < 16` (all call sites mask or shift the index below 16) -/
def hexd (n : Nat) : Nat := if n < 10 then 0x30 + n else 0x57 + n

/-- `strconv.IsPrint`: the Latin-1 fast path is transliterated, the tables are `L.isPrintHigh` -/
def isPrint (L : Lib) (r : Nat) : Bool :=
  if r ≤ 0xFF then
    if 0x20 ≤ r ∧ r ≤ 0x7E then true
    else if 0xA1 ≤ r ∧ r ≤ 0xFF then r != 0xAD
    else false
  else L.isPrintHigh r

/-- `strconv.appendEscapedRune(buf, r, quote, ASCIIonly = false, graphicOnly = false)` -/
def escapedRune (L : Lib) (r quote : Nat) : Bytes :=
  if r = quote ∨ r = 0x5C then [0x5C, r]
  else if isPrint L r then encodeRune r
  else if r = 0x07 then [0x5C, 0x61]
  else if r = 0x08 then [0x5C, 0x62]
  else if r = 0x0C then [0x5C, 0x66]
  else if r = 0x0A then [0x5C, 0x6E]
  else if r = 0x0D then [0x5C, 0x72]
  else if r = 0x09 then [0x5C, 0x74]
  else if r = 0x0B then [0x5C, 0x76]
  else if r < 0x20 ∨ r = 0x7F then [0x5C, 0x78, hexd (r / 16), hexd (r % 16)]
  else
    let r := if isScalar r then r else RuneError
    if r < 0x10000 then [0x5C, 0x75, hexd (r / 4096 % 16), hexd (r / 256 % 16), hexd (r / 16 % 16), hexd (r % 16)]
    else [0x5C, 0x55, hexd (r / 268435456 % 16), hexd (r / 16777216 % 16), hexd (r / 1048576 % 16), hexd (r / 65536 % 16),
          hexd (r / 4096 % 16), hexd (r / 256 % 16), hexd (r / 16 % 16), hexd (r % 16)]

/-- the loop of `strconv.appendQuotedWith`: `for width := 0; len(s) > 0; s = s[width:]` -/
def quoteAux (L : Lib) : Nat → Bytes → Bytes
  | 0, _ => []
  | _, [] => []
  | fuel + 1, b :: rest =>
    let rw : Nat × Nat := if b ≥ 0x80 then decodeRune (b :: rest) else (b, 1)
    if rw.2 = 1 ∧ rw.1 = RuneError then
      [0x5C, 0x78, hexd (b / 16), hexd (b % 16)] ++ quoteAux L fuel rest
    else escapedRune L rw.1 0x22 ++ quoteAux L fuel ((b :: rest).drop rw.2)

/-- `strconv.Quote(s)`: total on every byte string, valid UTF-8 or not -/
def quote (L : Lib) (s : Bytes) : Bytes := 0x22 :: quoteAux L s.length s ++ [0x22]

/-- `strconv.QuoteRune(r)` -/
def quoteRune (L : Lib) (r : Nat) : Bytes :=
  let r := if isScalar r then r else RuneError
  0x27 :: escapedRune L r 0x27 ++ [0x27]

/-- `strconv.Itoa` -/
def itoa (i : Int) : Bytes := if i < 0 then 0x2D :: Dec.natToBytes i.natAbs else Dec.natToBytes i.toNat

/-! ## `reflect.Type` -/

/-- the dynamic type of a Go value as far as the error messages look at it.  `nil` is the nil `reflect.Type`, the
    result of `reflect.TypeOf(nil)`. -/
inductive GoType where
  | nil
  | bool | string | jsonNumber | decimal
  | int (k : IntKind)
  | float64 | float32
  | sliceAny                                  -- `[]interface {}`
  | mapStringAny                              -- `map[string]interface {}`
  | other (str name : Bytes)                  -- any other non-pointer type: its `String()` and `Name()`
  | ptrTo (elemStr elemName : Bytes)          -- `*T`: `T.String()` and `T.Name()`
  deriving Repr, DecidableEq

def intKindName : IntKind → String
  | .i8 => "int8" | .i16 => "int16" | .i32 => "int32" | .i64 => "int64" | .int => "int"
  | .u8 => "uint8" | .u16 => "uint16" | .u32 => "uint32" | .u64 => "uint64" | .uint => "uint"

def nilDeref {α} : Res α := .panic "invalid memory address or nil pointer dereference"

namespace GoType

/-- `t.String()` -/
def str : GoType → Res Bytes
  | .nil => nilDeref
  | .bool => .ok (utf8 "bool")
  | .string => .ok (utf8 "string")
  | .jsonNumber => .ok (utf8 "json.Number")
  | .decimal => .ok (utf8 "decimal128.Decimal")
  | .int k => .ok (utf8 (intKindName k))
  | .float64 => .ok (utf8 "float64")
  | .float32 => .ok (utf8 "float32")
  | .sliceAny => .ok (utf8 "[]interface {}")
  | .mapStringAny => .ok (utf8 "map[string]interface {}")
  | .other s _ => .ok s
  | .ptrTo s _ => .ok (0x2A :: s)

/-- `t.Kind() == reflect.Pointer` -/
def isPointer : GoType → Res Bool
  | .nil => nilDeref
  | .ptrTo _ _ => .ok true
  | _ => .ok false

/-- `t.Name()`: the name of a defined type, `""` for an unnamed one -/
def name : GoType → Res Bytes
  | .nil => nilDeref
  | .bool => .ok (utf8 "bool")
  | .string => .ok (utf8 "string")
  | .jsonNumber => .ok (utf8 "Number")
  | .decimal => .ok (utf8 "Decimal")
  | .int k => .ok (utf8 (intKindName k))
  | .float64 => .ok (utf8 "float64")
  | .float32 => .ok (utf8 "float32")
  | .sliceAny => .ok []
  | .mapStringAny => .ok []
  | .other _ n => .ok n
  | .ptrTo _ _ => .ok []

/-- `t.Elem().Name()`: `Elem` panics unless the kind is Array, Chan, Map, Pointer or Slice -/
def elemName : GoType → Res Bytes
  | .nil => nilDeref
  | .ptrTo _ n => .ok n
  | .sliceAny => .ok []
  | .mapStringAny => .ok []
  | _ => .panic "reflect: Elem of invalid type"

end GoType

/-- `reflect.TypeOf(v)` for a value of the model -/
def typeOf (L : Lib) : Val → GoType
  | .null => .nil
  | .bool _ => .bool
  | .str _ => .string
  | .num (.jnum _) => .jsonNumber
  | .num (.dec _) => .decimal
  | .num (.int k _) => .int k
  | .num (.f64 _) => .float64
  | .num (.f32 _) => .float32
  | .arr _ _ => .sliceAny
  | .obj _ => .mapStringAny
  | .foreign t => .other (L.foreignTypeStr t) []

/-! ## internal/lexer/errors.go and internal/parser/errors.go -/

/-- `Error()` of the three lexer errors -/
def lexFormat (L : Lib) : LexErr → Bytes
  | .invalidRune => utf8 "invalid rune"
  | .unexpectedEnd => utf8 "unexpected end of expression"
  | .unexpectedRune r => utf8 "unexpected rune " ++ quoteRune L r

/-- the parser's error values with their payload -/
inductive PErrV where
  | lex (e : LexErr)
  | unexpectedToken (s : Bytes)
  | invalidFunctionArgument (function want : Bytes)
  | invalidFunctionCall (function : Bytes)
  | invalidSliceStep
  | unknownFunction (function : Bytes)
  | invalidIndex (s : Bytes)
  | invalidJSONLiteral (s : Bytes)
  | invalidQuotedString (s : Bytes)
  deriving Repr, DecidableEq

/-- forgetting the payload gives the model's `PErr` -/
def PErrV.erase : PErrV → PErr
  | .lex e => .lex e
  | .unexpectedToken _ => .unexpectedToken
  | .invalidFunctionArgument _ _ => .invalidFunctionArgument
  | .invalidFunctionCall _ => .invalidFunctionCall
  | .invalidSliceStep => .invalidSliceStep
  | .unknownFunction _ => .unknownFunction
  | .invalidIndex _ => .invalidIndex
  | .invalidJSONLiteral _ => .invalidJSONLiteral
  | .invalidQuotedString _ => .invalidQuotedString

/-- `Error()` of the parser errors: string concatenation and `strconv.Quote` only — a total function -/
def PErrV.format (L : Lib) : PErrV → Bytes
  | .lex e => lexFormat L e
  | .unexpectedToken s => utf8 "unexpected token " ++ quote L s
  | .invalidFunctionArgument f w => utf8 "invalid argument to function " ++ quote L f ++ utf8 " when expecting " ++ w
  | .invalidFunctionCall f => utf8 "invalid call to function " ++ quote L f
  | .invalidSliceStep => utf8 "invalid slice step value"
  | .unknownFunction f => utf8 "call to unknown function " ++ quote L f
  | .invalidIndex s => utf8 "invalid index " ++ quote L s
  | .invalidJSONLiteral s => utf8 "invalid json literal " ++ quote L s
  | .invalidQuotedString s => utf8 "invalid quoted string " ++ quote L s

/-! ## internal/evaluator/errors.go -/

/-- the evaluator's error values, one constructor per Go error type (the two `errors.New` sentinels that are returned
    as errors themselves, `ErrInfinity` and `ErrNotANumber`, are the first two) -/
inductive EErr where
  | infinity
  | notANumber
  | invalidType (got : GoType) (want : Bytes)
  | undefinedVariable (vname : Bytes)
  | fromItemsKeyType (key : GoType)
  | fromItemsLength (length : Int)
  | integerConversion (num : Dec)
  | negativeInteger (i : Int)
  | padLength (pad : Bytes)
  /-- `stringConversionError{err}`: `err` is the non-nil error of `json.Marshal` (the only construction site,
      functions.go `toString`, is guarded by `err != nil`); `inner` is its `Error()` text -/
  | stringConversion (inner : Bytes)
  | unexpectedOperation (op : GoType)
  deriving Repr, DecidableEq

/-- the five sentinels of the evaluator package -/
inductive Sentinel where
  | infinity | invalidType | invalidValue | notANumber | undefinedVariable
  deriving Repr, DecidableEq

/-- the two lines shared by `InvalidTypeError.Error` and `fromItemsKeyTypeError.Error`:
    `t := "nil"; if err.got != nil { t = err.got.String() }` -/
def guardedStr (g : GoType) : Res Bytes :=
  match g with
  | .nil => .ok (utf8 "nil")
  | g => g.str

namespace EErr

/-- `err.Error()`, statement by statement; `.panic` where Go dereferences a nil `reflect.Type` -/
def format (L : Lib) : EErr → Res Bytes
  | .infinity => .ok (utf8 "result of operation is an infinity")
  | .notANumber => .ok (utf8 "result of operation is not a number")
  | .invalidType got want => do
    let t ← guardedStr got
    if want ≠ [] then pure (utf8 "invalid type " ++ t ++ utf8 " when expecting " ++ want)
    else pure (utf8 "invalid type " ++ t)
  | .undefinedVariable x => .ok (utf8 "undefined variable " ++ quote L x)
  | .fromItemsKeyType key => do
    let t ← guardedStr key
    pure (utf8 "array passed to from_items contains an item with a key of type " ++ t)
  | .fromItemsLength n => .ok (utf8 "array passed to from_items contains an item of length " ++ itoa n)
  | .integerConversion d => .ok (utf8 "error converting value to integer: " ++ L.decString d)
  | .negativeInteger i => .ok (utf8 "negative integer " ++ itoa i ++ utf8 " where positive integer required")
  | .padLength p => .ok (utf8 "padding " ++ quote L p ++ utf8 " must have a length of 1")
  | .stringConversion inner => .ok (utf8 "error converting value to string: " ++ inner)
  | .unexpectedOperation op => do
    -- if err.op.Kind() == reflect.Pointer { name = err.op.Elem().Name() } else { name = err.op.Name() }
    -- NO nil check: `err.op` is `reflect.TypeOf(node)`, nil exactly when `node` is the nil interface
    let isPtr ← op.isPointer
    let name ← (if isPtr then op.elemName else op.name)
    pure (utf8 "unexpected operation " ++ name ++ utf8 " while evaluating expression")

/-- `errors.Is(err, target)` for the evaluator's sentinels: identity for the two sentinel values, the `Is` method of the
    type otherwise.  `stringConversionError` has no `Is` but an `Unwrap`; the wrapped error is an `encoding/json` error
    (`*UnsupportedValueError`, `*UnsupportedTypeError`, `*MarshalerError` around one of those, or the `fmt.Errorf` value
    for an invalid number literal), none of which is or matches a sentinel of this package.  `unexpectedOperationError`
    has neither. -/
def is : EErr → Sentinel → Bool
  | .infinity, t => t == .infinity
  | .notANumber, t => t == .notANumber
  | .invalidType _ _, t => t == .invalidType
  | .undefinedVariable _, t => t == .undefinedVariable
  | .fromItemsKeyType _, t => t == .invalidValue
  | .fromItemsLength _, t => t == .invalidValue
  | .integerConversion _, t => t == .invalidValue
  | .negativeInteger _, t => t == .invalidValue
  | .padLength _, t => t == .invalidValue
  | .stringConversion _, _ => false
  | .unexpectedOperation _, _ => false

/-- the category the model reports at the sites that build this error (`errType`, `errValue`, `errNaN`,
    `.err [undefinedVariable]`, `.err [evaluationFailed]`) -/
def cat : EErr → Cat
  | .infinity => .notANumber
  | .notANumber => .notANumber
  | .invalidType _ _ => .invalidType
  | .undefinedVariable _ => .undefinedVariable
  | .fromItemsKeyType _ => .invalidValue
  | .fromItemsLength _ => .invalidValue
  | .integerConversion _ => .invalidValue
  | .negativeInteger _ => .invalidValue
  | .padLength _ => .invalidValue
  | .stringConversion _ => .evaluationFailed
  | .unexpectedOperation _ => .evaluationFailed

/-- the only payload on which an `Error()` method can fail -/
def WF : EErr → Prop
  | .unexpectedOperation op => op ≠ .nil
  | _ => True

instance (e : EErr) : Decidable e.WF := by
  cases e <;> simp only [WF] <;> infer_instance

end EErr

/-- the payloads the evaluator can build: every `got` / `key` is `reflect.TypeOf` of an actual value (JSON null
    included: the nil type); numbers, integers, names and texts are arbitrary; the operand of
    `unexpectedOperationError` is `reflect.TypeOf(node)` for a node the parser built — one of the 55 pointer types
    `*parser.XNode`, never nil (and the switch of `evaluate` covers all 55, so the site is in fact dead: `Jmes/Tie/Shape`). -/
inductive Produced (L : Lib) : EErr → Prop
  | infinity : Produced L .infinity
  | notANumber : Produced L .notANumber
  | invalidType (v : Val) (want : Bytes) : Produced L (.invalidType (typeOf L v) want)
  | undefinedVariable (x : Bytes) : Produced L (.undefinedVariable x)
  | fromItemsKeyType (v : Val) : Produced L (.fromItemsKeyType (typeOf L v))
  | fromItemsLength (n : Nat) : Produced L (.fromItemsLength n)
  | integerConversion (d : Dec) : Produced L (.integerConversion d)
  | negativeInteger (i : Int) : Produced L (.negativeInteger i)
  | padLength (p : Bytes) : Produced L (.padLength p)
  | stringConversion (m : Bytes) : Produced L (.stringConversion m)
  | unexpectedOperation (elemStr elemName : Bytes) : Produced L (.unexpectedOperation (.ptrTo elemStr elemName))

/-! ## errors.go -/

/-- the ten public error types of package jmespath -/
inductive PublicErr where
  | evaluationFailed (msg : Bytes)
  | infinity
  | invalidFunctionCall (function : Bytes)
  | invalidExpression (expression msg : Bytes)
  | invalidSliceStep
  | invalidType (msg : Bytes)
  | invalidValue (msg : Bytes)
  | notANumber
  | undefinedVariable (vname : Bytes)
  | unknownFunction (function : Bytes)
  deriving Repr, DecidableEq

namespace PublicErr

/-- `Error()` of the public errors: concatenation and `strconv.Quote` of stored strings — total -/
def format (L : Lib) : PublicErr → Bytes
  | .evaluationFailed m => utf8 "jmespath: evaluation failed: " ++ m
  | .infinity => utf8 "jmespath: result of operation is an infinity"
  | .invalidFunctionCall f => utf8 "jmespath: invalid call to funcation " ++ quote L f     -- sic
  | .invalidExpression e m => utf8 "jmespath: invalid expression " ++ quote L e ++ utf8 ": " ++ m
  | .invalidSliceStep => utf8 "jmespath: invalid slice step value"
  | .invalidType m => utf8 "jmespath: " ++ m
  | .invalidValue m => utf8 "jmespath: " ++ m
  | .notANumber => utf8 "jmespath: result of operation is not a number"
  | .undefinedVariable x => utf8 "jmespath: undefined variable " ++ quote L x
  | .unknownFunction f => utf8 "jmespath: unknown function " ++ quote L f

/-- the one sentinel each public type's `Is` method compares with -/
def cat : PublicErr → Cat
  | .evaluationFailed _ => .evaluationFailed
  | .infinity => .notANumber
  | .invalidFunctionCall _ => .arity
  | .invalidExpression _ _ => .syntax
  | .invalidSliceStep => .invalidValue
  | .invalidType _ => .invalidType
  | .invalidValue _ => .invalidValue
  | .notANumber => .notANumber
  | .undefinedVariable _ => .undefinedVariable
  | .unknownFunction _ => .unknownFunction

/-- `errors.Is(err, ErrX)` for the eight exported sentinels (the public types have no `Unwrap`) -/
def is (p : PublicErr) (c : Cat) : Bool := p.cat == c

end PublicErr

/-! ## jmespath.go -/

/-- `evaluateError(err)`: the tests in the order of the source; `err.Error()` is called while the public error is
    built, so a panic of `Error()` is a panic of `Search` -/
def mapE (L : Lib) (e : EErr) : Res PublicErr :=
  if e.is .invalidType then do
    let m ← e.format L
    pure (.invalidType m)
  else if e.is .invalidValue then do
    let m ← e.format L
    pure (.invalidValue m)
  else if e.is .infinity then pure .infinity
  else if e.is .notANumber then pure .notANumber
  else match e with
    | .undefinedVariable x => pure (.undefinedVariable x)
    | e => do
      let m ← e.format L
      pure (.evaluationFailed m)

/-- `parseError(expression, err)` -/
def mapP (L : Lib) (expression : Bytes) (e : PErrV) : PublicErr :=
  match e with
  | .invalidFunctionArgument _ _ => .invalidType (e.format L)
  | .invalidFunctionCall f => .invalidFunctionCall f
  | .invalidSliceStep => .invalidSliceStep
  | .unknownFunction f => .unknownFunction f
  | e => .invalidExpression expression (e.format L)

/-! ## totality -/

theorem GoType.str_ok {g : GoType} (h : g ≠ .nil) : ∃ s, g.str = .ok s := by
  cases g <;> first | exact absurd rfl h | exact ⟨_, rfl⟩

/-- `reflect.TypeOf(v)` is the nil type exactly for the nil interface (JSON null) -/
theorem typeOf_eq_nil_iff (L : Lib) (v : Val) : typeOf L v = .nil ↔ v = .null := by
  cases v with
  | num n => cases n <;> simp [typeOf]
  | _ => simp [typeOf]

/-- the guarded `String()` call of `InvalidTypeError.Error` / `fromItemsKeyTypeError.Error` never fails -/
theorem guarded_str_ok (g : GoType) : ∃ s, guardedStr g = .ok s := by
  cases g <;> exact ⟨_, rfl⟩

/-- **`Error()` is total away from the one unguarded dereference**: for every library table, every payload — any type
    including the nil type of JSON null, any decimal including NaN and ±Inf, any integer, any bytes including invalid
    UTF-8 — formatting returns a string, unless the error is `unexpectedOperationError` with the nil type. -/
theorem format_ok (L : Lib) (e : EErr) (h : e.WF) : ∃ s, e.format L = .ok s := by
  cases e with
  | invalidType got want =>
    obtain ⟨t, ht⟩ := guarded_str_ok got
    simp only [EErr.format, ht]
    by_cases hw : want = []
    · exact ⟨_, by simp [hw]; rfl⟩
    · exact ⟨_, by simp [hw]; rfl⟩
  | fromItemsKeyType key =>
    obtain ⟨t, ht⟩ := guarded_str_ok key
    simp only [EErr.format, ht]
    exact ⟨_, rfl⟩
  | unexpectedOperation op =>
    cases op <;> first | exact absurd rfl h | exact ⟨_, rfl⟩
  | _ => exact ⟨_, rfl⟩

/-- … and the outcome of `Error()` is always a string or a panic (never an error, `nondet` or `unmodelled`: nothing
    is left out of this part of the model), and it panics on exactly one payload -/
theorem format_panic_iff (L : Lib) (e : EErr) :
    (∃ w, e.format L = .panic w) ↔ e = .unexpectedOperation .nil := by
  constructor
  · rintro ⟨w, hw⟩
    by_cases h : e.WF
    · obtain ⟨s, hs⟩ := format_ok L e h
      rw [hs] at hw; cases hw
    · cases e with
      | unexpectedOperation op =>
        simp only [EErr.WF, ne_eq, Decidable.not_not] at h
        rw [h]
      | _ => exact absurd trivial h
  · rintro rfl
    exact ⟨_, rfl⟩

theorem format_ok_or_panic (L : Lib) (e : EErr) : (∃ s, e.format L = .ok s) ∨ (∃ w, e.format L = .panic w) := by
  by_cases h : e.WF
  · exact Or.inl (format_ok L e h)
  · cases e with
    | unexpectedOperation op =>
      simp only [EErr.WF, ne_eq, Decidable.not_not] at h
      subst h; exact Or.inr ⟨_, rfl⟩
    | _ => exact absurd trivial h

theorem produced_wf {L : Lib} {e : EErr} (h : Produced L e) : e.WF := by
  cases h <;> simp [EErr.WF]

/-- **every error the evaluator can build can be formatted** -/
theorem format_total (L : Lib) {e : EErr} (h : Produced L e) : ∃ s, e.format L = .ok s :=
  format_ok L e (produced_wf h)

/-- the case the reviewer asked about: the offending value is JSON null, `reflect.TypeOf(nil)` is the nil type, and
    `InvalidTypeError.Error` prints `nil` for it (the `!= nil` guard) instead of calling `String()` on it -/
theorem format_invalidType_null (L : Lib) (want : Bytes) (hw : want ≠ []) :
    (EErr.invalidType (typeOf L .null) want).format L
      = .ok (utf8 "invalid type nil when expecting " ++ want) := by
  simp [EErr.format, typeOf, hw]; rfl

/-- without the guard it would be a panic: `String()` on the nil type -/
example : GoType.nil.str = .panic "invalid memory address or nil pointer dereference" := rfl

/-! ## the public mapping -/

/-- `evaluateError` returns normally on every well-formed error … -/
theorem mapE_ok (L : Lib) (e : EErr) (h : e.WF) : ∃ p, mapE L e = .ok p := by
  obtain ⟨s, hs⟩ := format_ok L e h
  cases e <;> simp [mapE, EErr.is, hs] <;> exact ⟨_, rfl⟩

theorem mapE_total (L : Lib) {e : EErr} (h : Produced L e) : ∃ p, mapE L e = .ok p := mapE_ok L e (produced_wf h)

/-- … and panics exactly on `unexpectedOperationError{nil}` — the error is not matched by any `errors.Is` test, falls
    through to `&evaluationFailedError{err.Error()}`, and `Error()` dereferences the nil type -/
theorem mapE_panic_iff (L : Lib) (e : EErr) : (∃ w, mapE L e = .panic w) ↔ e = .unexpectedOperation .nil := by
  constructor
  · rintro ⟨w, hw⟩
    by_cases h : e.WF
    · obtain ⟨p, hp⟩ := mapE_ok L e h
      rw [hp] at hw; cases hw
    · cases e with
      | unexpectedOperation op =>
        simp only [EErr.WF, ne_eq, Decidable.not_not] at h
        rw [h]
      | _ => exact absurd trivial h
  · rintro rfl
    exact ⟨_, rfl⟩

/-- **the public error carries the model's category**: whatever `evaluateError` returns matches — under `errors.Is`,
    i.e. `PublicErr.cat` — the category the model reports for that failure -/
theorem mapE_cat (L : Lib) (e : EErr) (p : PublicErr) (h : mapE L e = .ok p) : p.cat = e.cat := by
  rcases format_ok_or_panic L e with ⟨s, hs⟩ | ⟨w, hw⟩
  · cases e <;> simp [mapE, EErr.is, hs] at h <;> subst h <;> rfl
  · have := (format_panic_iff L e).mp ⟨w, hw⟩
    subst this
    simp [mapE, EErr.is, EErr.format, GoType.isPointer, nilDeref] at h

/-- the message of the public error is the internal message behind the prefix `jmespath: ` (invalid-type and
    invalid-value), behind `jmespath: evaluation failed: `, or a fixed text -/
theorem mapE_message (L : Lib) (e : EErr) (p : PublicErr) (m : Bytes) (h : mapE L e = .ok p) (hm : e.format L = .ok m) :
    p.format L = (if e.cat = .evaluationFailed then utf8 "jmespath: evaluation failed: " ++ m
      else utf8 "jmespath: " ++ m) := by
  cases e <;> simp [mapE, EErr.is, hm] at h <;> subst h <;>
    simp only [EErr.format, Res.ok.injEq] at hm <;> (try subst hm) <;> rfl

/-- `parseError` is a total function; its result carries the model's `parseCat` -/
theorem mapP_cat (L : Lib) (expr : Bytes) (e : PErrV) : (mapP L expr e).cat = parseCat e.erase := by
  cases e <;> rfl

/-- each public error matches exactly one of the eight exported sentinels -/
theorem public_is_exactly_one (p : PublicErr) (c : Cat) : p.is c = true ↔ c = p.cat := by
  simp only [PublicErr.is, beq_iff_eq]; exact eq_comm

end Jmes.C03CFormat
