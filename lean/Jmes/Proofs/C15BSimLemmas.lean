/-
  Helper lemmas for Jmes/Properties/C15B.lean, part 3: the oracle semantics `ievalO` against the model `ieval` for
  expressions that do NOT enumerate object members (multi-select hashes and `let`s of any size allowed).

  `SimS P r r'`: the model's outcome `r` and the outcome `r'` of one run agree —
    `r = .ok a`   ⇒ `r' = .ok a` (and `P a`),
    `r = .err cs` ⇒ `r' = .err [c]` for some `c ∈ cs`,
    `r` is never `.nondet`; nothing is claimed when the model panics or declines.
-/
import Jmes.Proofs.C15BLemmas
namespace Jmes
open Invar

/-- pointwise relation of two lists -/
inductive All₂ {α β} (R : α → β → Prop) : List α → List β → Prop
  | nil : All₂ R [] []
  | cons {a b l l'} : R a b → All₂ R l l' → All₂ R (a :: l) (b :: l')

namespace All₂
variable {α β : Type _} {R : α → β → Prop}

theorem length_eq : ∀ {l : List α} {l' : List β}, All₂ R l l' → l.length = l'.length
  | _, _, .nil => rfl
  | _, _, .cons _ h => by simp [length_eq h]

theorem mem_right : ∀ {l : List α} {l' : List β}, All₂ R l l' → ∀ b ∈ l', ∃ a ∈ l, R a b
  | _, _, .nil, _, hb => by cases hb
  | _, _, .cons h t, b, hb => by
    rcases List.mem_cons.mp hb with rfl | hb
    · exact ⟨_, by simp, h⟩
    · obtain ⟨a, ha, hr⟩ := mem_right t b hb
      exact ⟨a, List.mem_cons_of_mem _ ha, hr⟩

theorem mem_left : ∀ {l : List α} {l' : List β}, All₂ R l l' → ∀ a ∈ l, ∃ b ∈ l', R a b
  | _, _, .nil, _, ha => by cases ha
  | _, _, .cons h t, a, ha => by
    rcases List.mem_cons.mp ha with rfl | ha
    · exact ⟨_, by simp, h⟩
    · obtain ⟨b, hb, hr⟩ := mem_left t a ha
      exact ⟨b, List.mem_cons_of_mem _ hb, hr⟩

theorem imp {S : α → β → Prop} (hi : ∀ a b, R a b → S a b) : ∀ {l : List α} {l' : List β}, All₂ R l l' → All₂ S l l'
  | _, _, .nil => .nil
  | _, _, .cons h t => .cons (hi _ _ h) (imp hi t)

theorem eq_of_eq : ∀ {l l' : List α}, All₂ (fun a b => a = b) l l' → l = l'
  | _, _, .nil => rfl
  | _, _, .cons h t => by rw [h, eq_of_eq t]

theorem refl {R : α → α → Prop} (hr : ∀ a, R a a) : ∀ (l : List α), All₂ R l l
  | [] => .nil
  | a :: l => .cons (hr a) (refl hr l)
end All₂

/-- the model's outcome against the outcome of one run, for expressions without object enumeration -/
def SimS {α} (P : α → Prop) (r r' : Res α) : Prop :=
  match r with
  | .ok a => r' = .ok a ∧ P a
  | .err cs => ∃ c ∈ cs, r' = .err [c]
  | .nondet => False
  | .panic _ => True
  | .unmodelled _ => True

namespace SimS
variable {α β : Type} {P : α → Prop} {Q : β → Prop}

theorem ok {a : α} (h : P a) : SimS P (.ok a) (.ok a) := ⟨rfl, h⟩
theorem pure {a : α} (h : P a) : SimS P (Pure.pure a) (Pure.pure a) := ⟨rfl, h⟩
theorem err1 (c : Cat) : SimS P (.err [c] : Res α) (.err [c]) := ⟨c, by simp, rfl⟩
theorem errType : SimS P (Jmes.errType : Res α) Jmes.errType := ⟨_, by simp, rfl⟩

/-- a model function applied to the same arguments in the run: definite outcomes coincide -/
theorem of_sat {r : Res α} (h : Res.Sat true P r) : SimS P r r := by
  cases r with
  | ok a => exact ⟨rfl, h⟩
  | err cs =>
    have hl : cs.length = 1 := h rfl
    match cs, hl with
    | [c], _ => exact ⟨c, by simp, rfl⟩
  | nondet => simp [Res.Sat] at h
  | panic w => trivial
  | unmodelled w => trivial

theorem bind {r r' : Res α} {f f' : α → Res β} (h : SimS P r r') (hf : ∀ a, P a → SimS Q (f a) (f' a)) :
    SimS Q (r >>= f) (r' >>= f') := by
  cases r with
  | ok a =>
    obtain ⟨rfl, ha⟩ := h
    exact hf a ha
  | err cs =>
    obtain ⟨c, hc, rfl⟩ := h
    exact ⟨c, hc, rfl⟩
  | nondet => exact h
  | panic w => trivial
  | unmodelled w => trivial

theorem mono {P' : α → Prop} {r r' : Res α} (h : SimS P r r') (hp : ∀ a, P a → P' a) : SimS P' r r' := by
  cases r with
  | ok a => exact ⟨h.1, hp a h.2⟩
  | err cs => exact h
  | nondet => exact h
  | panic w => trivial
  | unmodelled w => trivial

/-- what `SimS` says, spelled out -/
theorem iff {r r' : Res α} : SimS P r r' ↔
    r ≠ .nondet ∧ (∀ a, r = .ok a → r' = .ok a ∧ P a) ∧ (∀ cs, r = .err cs → ∃ c ∈ cs, r' = .err [c]) := by
  cases r <;> simp [SimS]
end SimS

abbrev SimR (r r' : Res Val) : Prop := SimS (fun v => v.Good true = true) r r'
abbrev SimLR (r r' : Res (List Val)) : Prop := SimS (fun vs => Val.GoodL true vs = true) r r'
abbrev SimFR (r r' : Res (List (Bytes × Val))) : Prop := SimS (fun kvs => Val.GoodF true kvs = true) r r'
/-- the sub-expression of a projection in the model (`f`) and in the run (`g`, one oracle per element) -/
abbrev SimFn (f : Val → Res Val) (g : Nat → Val → Res Val) : Prop :=
  ∀ (i : Nat) (v : Val), v.Good true = true → SimR (f v) (g i v)

/-! ### the loops -/

theorem mapPrune_simS {f : Val → Res Val} {g : Nat → Val → Res Val} (hf : SimFn f g) :
    ∀ (i : Nat) {xs : List Val}, Val.GoodL true xs = true → SimLR (mapPrune f xs) (mapPruneO g i xs)
  | _, [], _ => SimS.ok goodL_nil
  | i, x :: xs, h => by
    have ⟨hx, hr⟩ := goodL_cons.mp h
    simp only [mapPrune, mapPruneO]
    refine SimS.bind (hf i x hx) fun p hp => SimS.bind (mapPrune_simS hf (i + 1) hr) fun rest hrest => SimS.pure ?_
    split
    · exact hrest
    · exact goodL_cons.mpr ⟨hp, hrest⟩

theorem mapAll_simS {f : Val → Res Val} {g : Nat → Val → Res Val} (hf : SimFn f g) :
    ∀ (i : Nat) {xs : List Val}, Val.GoodL true xs = true → SimLR (mapAll f xs) (mapAllO g i xs)
  | _, [], _ => SimS.ok goodL_nil
  | i, x :: xs, h => by
    have ⟨hx, hr⟩ := goodL_cons.mp h
    simp only [mapAll, mapAllO]
    exact SimS.bind (hf i x hx) fun p hp => SimS.bind (mapAll_simS hf (i + 1) hr) fun rest hrest =>
      SimS.pure (goodL_cons.mpr ⟨hp, hrest⟩)

theorem filterLoop_simS {c : Val → Res Val} {g : Nat → Val → Res Val} (hc : SimFn c g) :
    ∀ (i : Nat) {xs : List Val}, Val.GoodL true xs = true → SimLR (filterLoop c xs) (filterLoopO g i xs)
  | _, [], _ => SimS.ok goodL_nil
  | i, x :: xs, h => by
    have ⟨hx, hr⟩ := goodL_cons.mp h
    simp only [filterLoop, filterLoopO]
    refine SimS.bind (hc i x hx) fun b _ => SimS.bind (filterLoop_simS hc (i + 1) hr) fun rest hrest => SimS.pure ?_
    split
    · exact goodL_cons.mpr ⟨hx, hrest⟩
    · exact hrest

theorem filterMapPrune_simS {c f : Val → Res Val} {gc gf : Nat → Val → Res Val} (hc : SimFn c gc)
    (hf : SimFn f gf) :
    ∀ (i : Nat) {xs : List Val}, Val.GoodL true xs = true →
      SimLR (filterMapPrune c f xs) (filterMapPruneO gc gf i xs)
  | _, [], _ => SimS.ok goodL_nil
  | i, x :: xs, h => by
    have ⟨hx, hr⟩ := goodL_cons.mp h
    simp only [filterMapPrune, filterMapPruneO]
    refine SimS.bind (hc i x hx) fun b _ => ?_
    split
    · refine SimS.bind (hf i x hx) fun p hp =>
        SimS.bind (filterMapPrune_simS hc hf (i + 1) hr) fun rest hrest => SimS.pure ?_
      split
      · exact hrest
      · exact goodL_cons.mpr ⟨hp, hrest⟩
    · exact filterMapPrune_simS hc hf (i + 1) hr

theorem projectArray_simS {f : Val → Res Val} {g : Nat → Val → Res Val} {v : Val} (hf : SimFn f g)
    (h : v.Good true = true) : SimR (projectArray f v) (projectArrayO g v) := by
  cases v with
  | arr t xs =>
    have ⟨ht, hx⟩ := good_arr.mp h
    simp only [projectArray, projectArrayO]
    rw [widen_of_not_enum2 _ (enum2_of_tagOk xs ht)]
    exact SimS.bind (mapPrune_simS hf 0 hx) fun r hr => SimS.pure (good_arr.mpr ⟨tagOk_derived ht, hr⟩)
  | _ => exact SimS.ok good_null

theorem filterArray_simS {c : Val → Res Val} {g : Nat → Val → Res Val} {v : Val} (hc : SimFn c g)
    (h : v.Good true = true) : SimR (filterArray c v) (filterArrayO g v) := by
  cases v with
  | arr t xs =>
    have ⟨ht, hx⟩ := good_arr.mp h
    simp only [filterArray, filterArrayO]
    rw [widen_of_not_enum2 _ (enum2_of_tagOk xs ht)]
    exact SimS.bind (filterLoop_simS hc 0 hx) fun r hr => SimS.pure (good_arr.mpr ⟨tagOk_derived ht, hr⟩)
  | _ => exact SimS.ok good_null

theorem filterAndProjectArray_simS {c f : Val → Res Val} {gc gf : Nat → Val → Res Val} {v : Val}
    (hc : SimFn c gc) (hf : SimFn f gf) (h : v.Good true = true) :
    SimR (filterAndProjectArray c f v) (filterAndProjectArrayO gc gf v) := by
  cases v with
  | arr t xs =>
    have ⟨ht, hx⟩ := good_arr.mp h
    simp only [filterAndProjectArray, filterAndProjectArrayO]
    rw [widen_of_not_enum2 _ (enum2_of_tagOk xs ht)]
    exact SimS.bind (filterMapPrune_simS hc hf 0 hx) fun r hr => SimS.pure (good_arr.mpr ⟨tagOk_derived ht, hr⟩)
  | _ => exact SimS.ok good_null

theorem flattenAndProjectArray_simS {f : Val → Res Val} {g : Nat → Val → Res Val} {v : Val} (hf : SimFn f g)
    (h : v.Good true = true) : SimR (flattenAndProjectArray f v) (flattenAndProjectArrayO g v) := by
  cases v with
  | arr t xs =>
    have ⟨ht, hx⟩ := good_arr.mp h
    have hft := flattenTag_ok ht hx
    simp only [flattenAndProjectArray, flattenAndProjectArrayO]
    rw [widen_of_not_enum2 _ (enum2_of_tagOk _ hft)]
    exact SimS.bind (mapPrune_simS hf 0 (goodL_flattenForProject hx)) fun r hr =>
      SimS.pure (good_arr.mpr ⟨hft, hr⟩)
  | _ => exact SimS.ok good_null

theorem mapArray_simS {f : Val → Res Val} {g : Nat → Val → Res Val} {v : Val} (hf : SimFn f g)
    (h : v.Good true = true) : SimR (mapArray f v) (mapArrayO g v) := by
  cases v with
  | arr t xs =>
    have ⟨ht, hx⟩ := good_arr.mp h
    simp only [mapArray, mapArrayO]
    rw [widen_of_not_enum2 _ (enum2_of_tagOk xs ht)]
    exact SimS.bind (mapAll_simS hf 0 hx) fun r hr => SimS.pure (good_arr.mpr ⟨tagOk_derived ht, hr⟩)
  | _ => exact SimS.errType

theorem keysFrom_simS {f : Val → Res Val} {g : Nat → Val → Res Val} (hf : SimFn f g) (b : Bool) :
    ∀ (i : Nat) {xs : List Val}, Val.GoodL true xs = true →
      SimS (fun _ => True) (keysFrom f b xs) (keysFromO g b i xs)
  | _, [], _ => SimS.ok trivial
  | i, x :: xs, h => by
    have ⟨hx, hr⟩ := goodL_cons.mp h
    simp only [keysFrom, keysFromO]
    refine SimS.bind (hf i x hx) fun rv _ => SimS.bind (P := fun _ => True) ?_ fun k _ =>
      SimS.bind (keysFrom_simS hf b (i + 1) hr) fun _ _ => SimS.pure trivial
    cases b
    · simp only [Bool.false_eq_true, if_false]
      cases toDecimal rv with
      | none => exact SimS.errType
      | some d => exact SimS.ok trivial
    · simp only [if_true]
      cases rv <;> first | exact SimS.ok trivial | exact SimS.errType

theorem keysOf_simS {f : Val → Res Val} {g : Nat → Val → Res Val} (hf : SimFn f g) :
    ∀ {xs : List Val}, Val.GoodL true xs = true → SimS (fun _ => True) (keysOf f xs) (keysOfO g xs)
  | [], _ => SimS.ok trivial
  | x :: xs, h => by
    have ⟨hx, hr⟩ := goodL_cons.mp h
    simp only [keysOf, keysOfO]
    refine SimS.bind (hf 0 x hx) fun first _ => ?_
    have hnum : SimS (fun _ => True)
        (match toDecimal first with
          | none => (errType : Res (List Key))
          | some d => do
            let rest ← keysFrom f false xs
            pure (Key.n d :: rest))
        (match toDecimal first with
          | none => (errType : Res (List Key))
          | some d => do
            let rest ← keysFromO g false 1 xs
            pure (Key.n d :: rest)) := by
      cases toDecimal first with
      | none => exact SimS.errType
      | some d => exact SimS.bind (keysFrom_simS hf false 1 hr) fun _ _ => SimS.pure trivial
    cases first with
    | str s => exact SimS.bind (keysFrom_simS hf true 1 hr) fun _ _ => SimS.pure trivial
    | _ => exact hnum

theorem arrayPickBy_simS (better : Key → Key → Bool) {f : Val → Res Val} {g : Nat → Val → Res Val} {v : Val}
    (hf : SimFn f g) (h : v.Good true = true) : SimR (arrayPickBy better f v) (arrayPickByO better g v) := by
  cases v with
  | arr t xs =>
    have ⟨ht, hx⟩ := good_arr.mp h
    cases xs with
    | nil => exact SimS.ok good_null
    | cons x0 rest =>
      have ⟨hx0, hrest⟩ := goodL_cons.mp hx
      simp only [arrayPickBy, arrayPickByO]
      rw [widen_of_not_enum2 _ (enum2_of_tagOk _ ht)]
      refine SimS.bind (keysOf_simS hf hx) fun ks _ => ?_
      split
      · exact SimS.ok good_null
      · rw [enum2_of_tagOk _ ht]
        simp only [Bool.false_and, Bool.false_eq_true, if_false]
        next k0 krest =>
        refine SimS.ok ?_
        show (pickBy better x0 k0 (rest.zip krest)).Good true = true
        rcases pickBy_mem better (rest.zip krest) x0 k0 with h | ⟨p, hp, h⟩
        · rw [h]; exact hx0
        · rw [h]
          have : p.1 ∈ rest := by
            cases p with
            | mk a b => exact (List.of_mem_zip hp).1
          exact goodL_iff.mp hrest _ this
  | _ => exact SimS.errType

theorem sortArrayBy_simS {f : Val → Res Val} {g : Nat → Val → Res Val} {v : Val} (hf : SimFn f g)
    (h : v.Good true = true) : SimR (sortArrayBy f v) (sortArrayByO g v) := by
  cases v with
  | arr t xs =>
    have ⟨ht, hx⟩ := good_arr.mp h
    simp only [sortArrayBy, sortArrayByO]
    split
    · exact SimS.ok h
    · rw [widen_of_not_enum2 _ (enum2_of_tagOk _ ht)]
      refine SimS.bind (keysOf_simS hf hx) fun ks _ => ?_
      rw [enum2_of_tagOk _ ht]
      simp only [Bool.false_and, Bool.false_eq_true, if_false]
      exact SimS.ok (good_plainArr (goodL_sortByKeys ks hx))
  | _ => exact SimS.errType

theorem groupLoop_simS {f : Val → Res Val} {g : Nat → Val → Res Val} (hf : SimFn f g) :
    ∀ (i : Nat) {xs : List Val} {acc : List (Bytes × List Val)}, Val.GoodL true xs = true →
      (∀ kg ∈ acc, Val.GoodL true kg.2 = true) →
      SimS (fun gs => ∀ kg ∈ gs, Val.GoodL true kg.2 = true) (groupLoop f xs acc) (groupLoopO g i xs acc)
  | _, [], _, _, ha => SimS.ok ha
  | i, x :: rest, acc, h, ha => by
    have ⟨hx, hr⟩ := goodL_cons.mp h
    simp only [groupLoop, groupLoopO]
    refine SimS.bind (hf i x hx) fun rv _ => ?_
    cases rv with
    | str s => exact groupLoop_simS hf (i + 1) hr (groupInsert_inv hx ha)
    | _ => exact SimS.errType

theorem groupBy_simS {f : Val → Res Val} {g : Nat → Val → Res Val} {v : Val} (hf : SimFn f g)
    (h : v.Good true = true) : SimR (groupBy f v) (groupByO g v) := by
  cases v with
  | arr t xs =>
    have ⟨ht, hx⟩ := good_arr.mp h
    simp only [groupBy, groupByO]
    split
    · exact SimS.ok good_null
    · rw [widen_of_not_enum2 _ (enum2_of_tagOk _ ht)]
      refine SimS.bind (groupLoop_simS hf 0 hx (acc := []) (fun _ h => by cases h)) fun gs hgs => SimS.pure ?_
      refine good_obj.mpr (goodF_iff.mpr fun kv hkv => ?_)
      obtain ⟨kg, hkg, rfl⟩ := List.mem_map.mp hkv
      exact good_arr.mpr ⟨tagOk_derived ht, hgs kg hkg⟩
  | _ => exact SimS.errType

/-! ### members of a multi-select hash / `let` -/

/-- a member's outcome in the model and in the run -/
abbrev MemberSim (o o' : Bytes × Res Val) : Prop := o.1 = o'.1 ∧ SimR o.2 o'.2

theorem goodF_insertAll : ∀ {kvs : List (Bytes × Val)}, Val.GoodF true kvs = true → Val.GoodF true (insertAll kvs) = true
  | [], _ => rfl
  | (k, v) :: kvs, h => by
    have h' := goodF_cons.mp h
    exact goodF_objInsert h'.1 (goodF_insertAll h'.2)

/-- The members' outcomes of the model (`os`) against those of the run (`os'`), scanned in ANY order (`os''`):
    the model's combined outcome and the run's first failure agree. Keys must be pairwise distinct. -/
theorem members_simS {os os' os'' : List (Bytes × Res Val)} (hrel : All₂ MemberSim os os')
    (hn : (os.map Prod.fst).Nodup) (hp : os''.Perm os') :
    SimFR (combineAll os) (firstFailure os'' []) := by
  cases hc : combineAll os with
  | ok bs =>
    obtain ⟨kvs, rfl, rfl⟩ := (combineAll_ok_iff os bs).mp hc
    -- every member succeeded, so the run's outcomes are the model's
    have hgood : ∀ o ∈ okOutcomes kvs, ∃ v, o.2 = .ok v := by
      intro o ho
      obtain ⟨kv, _, rfl⟩ := List.mem_map.mp ho
      exact ⟨_, rfl⟩
    have heq : okOutcomes kvs = os' := by
      apply All₂.eq_of_eq
      clear hc hn hp
      generalize okOutcomes kvs = os at hrel hgood
      induction hrel with
      | nil => exact .nil
      | @cons a b l l' hab _ ih =>
        refine .cons ?_ (ih fun o ho => hgood o (List.mem_cons_of_mem _ ho))
        obtain ⟨v, hv⟩ := hgood a (by simp)
        obtain ⟨k, r⟩ := a
        obtain ⟨k', r'⟩ := b
        simp only at hv
        subst hv
        obtain ⟨rfl, h2⟩ := hab
        simp only at h2
        rw [h2.1]
    have hG : Val.GoodF true kvs = true := by
      refine goodF_iff.mpr fun kv hkv => ?_
      have hm : (kv.1, Res.ok kv.2) ∈ okOutcomes kvs := List.mem_map.mpr ⟨kv, hkv, rfl⟩
      obtain ⟨b, _, hab⟩ := hrel.mem_left _ hm
      exact hab.2.2
    refine ⟨?_, goodF_insertAll hG⟩
    rw [← heq] at hp
    exact (firstFailure_sound hp).1 _ hc hn
  | err cs =>
    obtain ⟨hset, hcs⟩ := combineAll_err os cs hc
    -- the run's outcomes are settled, and one of them is an error
    have hset' : ∀ o' ∈ os'', o'.2.Settled := by
      intro o' ho'
      obtain ⟨o, ho, hoo⟩ := hrel.mem_right o' (hp.mem_iff.mp ho')
      have hs := hset o ho
      have h2 := hoo.2
      cases ho2 : o.2 with
      | ok v => rw [ho2] at h2; rw [h2.1]; trivial
      | err cl => rw [ho2] at h2; obtain ⟨c, _, e⟩ := h2; rw [e]; trivial
      | panic w => rw [ho2] at hs; exact hs.elim
      | nondet => rw [ho2] at hs; exact hs.elim
      | unmodelled w => rw [ho2] at hs; exact hs.elim
    have hex : ∃ o' ∈ os'', ∃ cl, o'.2 = .err cl := by
      have : ∃ o ∈ os, ∃ cl, o.2 = .err cl := by
        refine Classical.byContradiction fun hno => ?_
        refine combineAll_ok_of_all_ok os ?_ hc
        intro o ho
        have hs := hset o ho
        cases ho2 : o.2 with
        | ok v => exact ⟨v, rfl⟩
        | err cl => exact absurd ⟨o, ho, cl, ho2⟩ hno
        | panic w => rw [ho2] at hs; exact hs.elim
        | nondet => rw [ho2] at hs; exact hs.elim
        | unmodelled w => rw [ho2] at hs; exact hs.elim
      obtain ⟨o, ho, cl, hcl⟩ := this
      obtain ⟨o', ho', hoo⟩ := hrel.mem_left o ho
      have h2 := hoo.2
      rw [hcl] at h2
      obtain ⟨c, _, e⟩ := h2
      exact ⟨o', hp.mem_iff.mpr ho', [c], e⟩
    obtain ⟨o', ho', cl, hcl, hff⟩ := firstFailure_settled hset' hex []
    obtain ⟨o, ho, hoo⟩ := hrel.mem_right o' (hp.mem_iff.mp ho')
    have h2 := hoo.2
    have hs := hset o ho
    cases ho2 : o.2 with
    | ok v => rw [ho2] at h2; rw [h2.1] at hcl; cases hcl
    | err clo =>
      rw [ho2] at h2
      obtain ⟨c, hc', e⟩ := h2
      rw [e] at hcl
      cases hcl
      exact ⟨c, (hcs c).mpr ⟨o, ho, clo, ho2, hc'⟩, hff⟩
    | panic w => rw [ho2] at hs; exact hs.elim
    | nondet => rw [ho2] at hs; exact hs.elim
    | unmodelled w => rw [ho2] at hs; exact hs.elim
  | nondet =>
    obtain ⟨o, ho, e⟩ := combineAll_nondet os hc
    obtain ⟨o', _, hoo⟩ := hrel.mem_left o ho
    have h2 := hoo.2
    rw [e] at h2
    exact h2
  | panic w => trivial
  | unmodelled w => trivial

/-! ### the run agrees with the model on expressions that do not enumerate object members -/

/-- the members of a multi-select hash / `let` have pairwise distinct keys (as the Go parser, which collects them in
    a map, guarantees) -/
def _root_.Jmes.INode.keysNodup : INode → Bool
  | .selectObject _ fs | .selectObjectCurrent fs => decide ((fs.map Prod.fst).Nodup)
  | .defineVariables vars _ => decide ((vars.map Prod.fst).Nodup)
  | _ => true

/-- per-node requirement of the strict class: no map-ordered array in a literal, no object enumeration, no
    unstable `sort`, distinct member keys. Multi-select hashes and `let`s of ANY size are allowed. -/
def nodeOkS (n : INode) : Bool := nodeOkD n && INode.keysNodup n

theorem nodeOkS_lit {v : Val} (h : nodeOkS (.lit v) = true) : v.Good true = true := by
  simp only [nodeOkS, Bool.and_eq_true] at h
  exact nodeOkD_lit h.1
theorem nodeOkS_call {f : Fn} {args : List INode} (h : nodeOkS (.call f args) = true) :
    Fn.enumerates f = false := by
  simp only [nodeOkS, Bool.and_eq_true] at h
  exact nodeOkD_call h.1
theorem nodeOkS_selectObject {c : INode} {fs : List (Bytes × INode)} (h : nodeOkS (.selectObject c fs) = true) :
    (fs.map Prod.fst).Nodup := by
  simpa [nodeOkS, INode.keysNodup, nodeOkD, INode.noEnumHeadD, INode.litOk] using h
theorem nodeOkS_selectObjectCurrent {fs : List (Bytes × INode)} (h : nodeOkS (.selectObjectCurrent fs) = true) :
    (fs.map Prod.fst).Nodup := by
  simpa [nodeOkS, INode.keysNodup, nodeOkD, INode.noEnumHeadD, INode.litOk] using h
theorem nodeOkS_defineVariables {c : INode} {fs : List (Bytes × INode)}
    (h : nodeOkS (.defineVariables fs c) = true) : (fs.map Prod.fst).Nodup := by
  simpa [nodeOkS, INode.keysNodup, nodeOkD, INode.noEnumHeadD, INode.litOk] using h

theorem memberOutcomes_keys (root : Val) (fs : List (Bytes × INode)) (cur : Val) (env : Env) :
    (memberOutcomes root fs cur env).map Prod.fst = fs.map Prod.fst := by
  unfold memberOutcomes
  rw [List.map_map]
  rfl

/-- for the builtins that do not range over a map the run calls the model's function -/
theorem applyFnO_eq (π : Oracle) {f : Fn} (h : Fn.enumerates f = false) (args : List Val) :
    applyFnO π f args = applyFn f args := by
  cases f <;> first | rfl | exact Bool.noConfusion h

mutual
theorem ieval_simS {root : Val} (hroot : root.Good true = true) :
    ∀ (n : INode) (cur : Val) (env : Env), n.all nodeOkS = true → cur.Good true = true → Val.GoodF true env = true →
      ∀ π : Oracle, SimR (ieval root n cur env) (ievalO π root n cur env)
  | .lit v, cur, env, h, hc, hv, π => by
    simp only [INode.all] at h
    exact SimS.ok (nodeOkS_lit h)
  | .current, cur, env, h, hc, hv, π => SimS.ok hc
  | .root, cur, env, h, hc, hv, π => SimS.ok hroot
  | .field k, cur, env, h, hc, hv, π => SimS.ok (field_good k hc)
  | .variable name, cur, env, h, hc, hv, π => by
    simp only [ieval, ievalO, Env.get]
    cases hl : objLookup name env with
    | none => exact SimS.err1 _
    | some v => exact SimS.ok (good_objLookup hv hl)
  | .binop op l r, cur, env, h, hc, hv, π => by
    simp only [INode.all, Bool.and_eq_true] at h
    simp only [ieval, ievalO]
    exact SimS.bind (ieval_simS hroot l cur env h.1.2 hc hv _) fun a ha =>
      SimS.bind (ieval_simS hroot r cur env h.2 hc hv _) fun b hb => SimS.of_sat (applyBinOp_sat op ha hb)
  | .and l r, cur, env, h, hc, hv, π => by
    simp only [INode.all, Bool.and_eq_true] at h
    simp only [ieval, ievalO]
    refine SimS.bind (ieval_simS hroot l cur env h.1.2 hc hv _) fun a ha => ?_
    cases hb : isTrue a <;> simp only [Bool.not_false, Bool.not_true, if_true, Bool.false_eq_true, if_false]
    · exact SimS.pure ha
    · exact ieval_simS hroot r cur env h.2 hc hv _
  | .or l r, cur, env, h, hc, hv, π => by
    simp only [INode.all, Bool.and_eq_true] at h
    simp only [ieval, ievalO]
    refine SimS.bind (ieval_simS hroot l cur env h.1.2 hc hv _) fun a ha => ?_
    cases hb : isTrue a <;> simp only [if_true, Bool.false_eq_true, if_false]
    · exact ieval_simS hroot r cur env h.2 hc hv _
    · exact SimS.pure ha
  | .not c, cur, env, h, hc, hv, π => by
    simp only [INode.all, Bool.and_eq_true] at h
    simp only [ieval, ievalO]
    exact SimS.bind (ieval_simS hroot c cur env h.2 hc hv _) fun a ha => SimS.pure good_bool
  | .negate c, cur, env, h, hc, hv, π => by
    simp only [INode.all, Bool.and_eq_true] at h
    simp only [ieval, ievalO]
    exact SimS.bind (ieval_simS hroot c cur env h.2 hc hv _) fun a ha => SimS.pure (negateVal_good a)
  | .assertNumber c, cur, env, h, hc, hv, π => by
    simp only [INode.all, Bool.and_eq_true] at h
    simp only [ieval, ievalO]
    refine SimS.bind (ieval_simS hroot c cur env h.2 hc hv _) fun a ha => SimS.pure ?_
    split
    · exact ha
    · rfl
  | .call f args, cur, env, h, hc, hv, π => by
    simp only [INode.all, Bool.and_eq_true] at h
    simp only [ieval, ievalO]
    refine SimS.bind (ievalList_simS hroot args cur env h.2 hc hv _) fun vs hvs => ?_
    rw [applyFnO_eq _ (nodeOkS_call h.1)]
    exact SimS.of_sat (applyFn_sat f (fun _ => nodeOkS_call h.1) hvs)
  | .defineVariables vars child, cur, env, h, hc, hv, π => by
    simp only [INode.all, Bool.and_eq_true] at h
    simp only [ieval, ievalO]
    rw [ievalFields_eq_combineAll]
    refine SimS.bind (members_simS (ievalMembers_simS hroot vars cur env h.1.2 hc hv _)
      (by rw [memberOutcomes_keys]; exact nodeOkS_defineVariables h.1.1) (Oracle.order_perm _ _)) fun bs hbs =>
      ieval_simS hroot child cur (bs ++ env) h.2 hc (goodF_append hbs hv) _
  | .filter c f, cur, env, h, hc, hv, π => by
    simp only [INode.all, Bool.and_eq_true] at h
    simp only [ieval, ievalO]
    exact SimS.bind (ieval_simS hroot c cur env h.1.2 hc hv _) fun a ha =>
      filterArray_simS (fun i v hv' => ieval_simS hroot f v env h.2 hv' hv _) ha
  | .filterCurrent f, cur, env, h, hc, hv, π => by
    simp only [INode.all, Bool.and_eq_true] at h
    simp only [ieval, ievalO]
    exact filterArray_simS (fun i v hv' => ieval_simS hroot f v env h.2 hv' hv _) hc
  | .filterAndProject l f r, cur, env, h, hc, hv, π => by
    simp only [INode.all, Bool.and_eq_true] at h
    simp only [ieval, ievalO]
    exact SimS.bind (ieval_simS hroot l cur env h.1.1.2 hc hv _) fun a ha =>
      filterAndProjectArray_simS (fun i v hv' => ieval_simS hroot f v env h.1.2 hv' hv _)
        (fun i v hv' => ieval_simS hroot r v env h.2 hv' hv _) ha
  | .filterAndProjectCurrent f c, cur, env, h, hc, hv, π => by
    simp only [INode.all, Bool.and_eq_true] at h
    simp only [ieval, ievalO]
    exact filterAndProjectArray_simS (fun i v hv' => ieval_simS hroot f v env h.1.2 hv' hv _)
        (fun i v hv' => ieval_simS hroot c v env h.2 hv' hv _) hc
  | .flatten c, cur, env, h, hc, hv, π => by
    simp only [INode.all, Bool.and_eq_true] at h
    simp only [ieval, ievalO]
    exact SimS.bind (ieval_simS hroot c cur env h.2 hc hv _) fun a ha => SimS.pure (flatten_good ha)
  | .flattenCurrent, cur, env, h, hc, hv, π => SimS.ok (flatten_good hc)
  | .flattenAndProject l r, cur, env, h, hc, hv, π => by
    simp only [INode.all, Bool.and_eq_true] at h
    simp only [ieval, ievalO]
    exact SimS.bind (ieval_simS hroot l cur env h.1.2 hc hv _) fun a ha =>
      flattenAndProjectArray_simS (fun i v hv' => ieval_simS hroot r v env h.2 hv' hv _) ha
  | .flattenAndProjectCurrent c, cur, env, h, hc, hv, π => by
    simp only [INode.all, Bool.and_eq_true] at h
    simp only [ieval, ievalO]
    exact flattenAndProjectArray_simS (fun i v hv' => ieval_simS hroot c v env h.2 hv' hv _) hc
  | .index c i, cur, env, h, hc, hv, π => by
    simp only [INode.all, Bool.and_eq_true] at h
    simp only [ieval, ievalO]
    exact SimS.bind (ieval_simS hroot c cur env h.2 hc hv _) fun a ha => SimS.of_sat (index_sat i ha)
  | .indexCurrent i, cur, env, h, hc, hv, π => SimS.of_sat (index_sat i hc)
  | .smallIndexCurrent i, cur, env, h, hc, hv, π => SimS.of_sat (index_sat _ hc)
  | .objectValues c, cur, env, h, hc, hv, π => by
    simp only [INode.all, Bool.and_eq_true] at h
    exact absurd h.1 (by simp [nodeOkS, nodeOkD, INode.noEnumHeadD])
  | .objectValuesCurrent, cur, env, h, hc, hv, π => by
    simp only [INode.all] at h
    exact absurd h (by simp [nodeOkS, nodeOkD, INode.noEnumHeadD])
  | .pipe l r, cur, env, h, hc, hv, π => by
    simp only [INode.all, Bool.and_eq_true] at h
    simp only [ieval, ievalO]
    exact SimS.bind (ieval_simS hroot l cur env h.1.2 hc hv _) fun a ha => ieval_simS hroot r a env h.2 ha hv _
  | .projectArray l r, cur, env, h, hc, hv, π => by
    simp only [INode.all, Bool.and_eq_true] at h
    simp only [ieval, ievalO]
    refine SimS.bind (ieval_simS hroot l cur env h.1.2 hc hv _) fun a ha => ?_
    cases a with
    | str s =>
      cases hs : l.isSlice <;> simp only [if_true, Bool.false_eq_true, if_false]
      · exact projectArray_simS (fun i v hv' => ieval_simS hroot r v env h.2 hv' hv _) ha
      · exact ieval_simS hroot r _ env h.2 ha hv _
    | _ => exact projectArray_simS (fun i v hv' => ieval_simS hroot r v env h.2 hv' hv _) ha
  | .projectArrayCurrent c, cur, env, h, hc, hv, π => by
    simp only [INode.all, Bool.and_eq_true] at h
    simp only [ieval, ievalO]
    exact projectArray_simS (fun i v hv' => ieval_simS hroot c v env h.2 hv' hv _) hc
  | .projectObject l r, cur, env, h, hc, hv, π => by
    simp only [INode.all, Bool.and_eq_true] at h
    exact absurd h.1.1 (by simp [nodeOkS, nodeOkD, INode.noEnumHeadD])
  | .projectObjectCurrent c, cur, env, h, hc, hv, π => by
    simp only [INode.all, Bool.and_eq_true] at h
    exact absurd h.1 (by simp [nodeOkS, nodeOkD, INode.noEnumHeadD])
  | .pruneArray c, cur, env, h, hc, hv, π => by
    simp only [INode.all, Bool.and_eq_true] at h
    simp only [ieval, ievalO]
    exact SimS.bind (ieval_simS hroot c cur env h.2 hc hv _) fun a ha => SimS.pure (pruneArray_good ha)
  | .pruneArrayCurrent, cur, env, h, hc, hv, π => SimS.ok (pruneArray_good hc)
  | .selectArray c fs, cur, env, h, hc, hv, π => by
    simp only [INode.all, Bool.and_eq_true] at h
    simp only [ieval, ievalO]
    refine SimS.bind (ieval_simS hroot c cur env h.1.2 hc hv _) fun a ha => ?_
    cases hn : a.isNull <;> simp only [if_true, Bool.false_eq_true, if_false]
    · exact SimS.bind (ievalList_simS hroot fs a env h.2 ha hv _) fun vs hvs => SimS.pure (good_plainArr hvs)
    · exact SimS.pure good_null
  | .selectArrayCurrent fs, cur, env, h, hc, hv, π => by
    simp only [INode.all, Bool.and_eq_true] at h
    simp only [ieval, ievalO]
    cases hn : cur.isNull <;> simp only [if_true, Bool.false_eq_true, if_false]
    · exact SimS.bind (ievalList_simS hroot fs cur env h.2 hc hv _) fun vs hvs => SimS.pure (good_plainArr hvs)
    · exact SimS.ok good_null
  | .selectArraySingle c f, cur, env, h, hc, hv, π => by
    simp only [INode.all, Bool.and_eq_true] at h
    simp only [ieval, ievalO]
    refine SimS.bind (ieval_simS hroot c cur env h.1.2 hc hv _) fun a ha => ?_
    cases hn : a.isNull <;> simp only [if_true, Bool.false_eq_true, if_false]
    · exact SimS.bind (ieval_simS hroot f a env h.2 ha hv _) fun v hv' =>
        SimS.pure (good_plainArr (goodL_cons.mpr ⟨hv', rfl⟩))
    · exact SimS.pure good_null
  | .selectArraySingleCurrent f, cur, env, h, hc, hv, π => by
    simp only [INode.all, Bool.and_eq_true] at h
    simp only [ieval, ievalO]
    exact SimS.bind (ieval_simS hroot f cur env h.2 hc hv _) fun v hv' =>
      SimS.pure (good_plainArr (goodL_cons.mpr ⟨hv', rfl⟩))
  | .selectObject c fs, cur, env, h, hc, hv, π => by
    simp only [INode.all, Bool.and_eq_true] at h
    simp only [ieval, ievalO]
    refine SimS.bind (ieval_simS hroot c cur env h.1.2 hc hv _) fun a ha => ?_
    cases hn : a.isNull <;> simp only [if_true, Bool.false_eq_true, if_false]
    · rw [ievalFields_eq_combineAll]
      exact SimS.bind (members_simS (ievalMembers_simS hroot fs a env h.2 ha hv _)
        (by rw [memberOutcomes_keys]; exact nodeOkS_selectObject h.1.1) (Oracle.order_perm _ _)) fun kvs hk =>
        SimS.pure (good_obj.mpr hk)
    · exact SimS.pure good_null
  | .selectObjectCurrent fs, cur, env, h, hc, hv, π => by
    simp only [INode.all, Bool.and_eq_true] at h
    simp only [ieval, ievalO]
    cases hn : cur.isNull <;> simp only [if_true, Bool.false_eq_true, if_false]
    · rw [ievalFields_eq_combineAll]
      exact SimS.bind (members_simS (ievalMembers_simS hroot fs cur env h.2 hc hv _)
        (by rw [memberOutcomes_keys]; exact nodeOkS_selectObjectCurrent h.1) (Oracle.order_perm _ _)) fun kvs hk =>
        SimS.pure (good_obj.mpr hk)
    · exact SimS.ok good_null
  | .selectObjectSingle c k f, cur, env, h, hc, hv, π => by
    simp only [INode.all, Bool.and_eq_true] at h
    simp only [ieval, ievalO]
    refine SimS.bind (ieval_simS hroot c cur env h.1.2 hc hv _) fun a ha => ?_
    cases hn : a.isNull <;> simp only [if_true, Bool.false_eq_true, if_false]
    · exact SimS.bind (ieval_simS hroot f a env h.2 ha hv _) fun v hv' =>
        SimS.pure (good_obj.mpr (goodF_cons.mpr ⟨hv', rfl⟩))
    · exact SimS.pure good_null
  | .selectObjectSingleCurrent k f, cur, env, h, hc, hv, π => by
    simp only [INode.all, Bool.and_eq_true] at h
    simp only [ieval, ievalO]
    exact SimS.bind (ieval_simS hroot f cur env h.2 hc hv _) fun v hv' =>
      SimS.pure (good_obj.mpr (goodF_cons.mpr ⟨hv', rfl⟩))
  | .slice c a b, cur, env, h, hc, hv, π => by
    simp only [INode.all, Bool.and_eq_true] at h
    simp only [ieval, ievalO]
    exact SimS.bind (ieval_simS hroot c cur env h.2 hc hv _) fun v hv' => SimS.of_sat (slice_sat a b hv')
  | .sliceCurrent a b, cur, env, h, hc, hv, π => SimS.of_sat (slice_sat a b hc)
  | .sliceStep c a b st, cur, env, h, hc, hv, π => by
    simp only [INode.all, Bool.and_eq_true] at h
    simp only [ieval, ievalO]
    exact SimS.bind (ieval_simS hroot c cur env h.2 hc hv _) fun v hv' => SimS.of_sat (sliceStep_sat a b st hv')
  | .sliceStepCurrent a b st, cur, env, h, hc, hv, π => SimS.of_sat (sliceStep_sat a b st hc)
  | .groupBy a e, cur, env, h, hc, hv, π => by
    simp only [INode.all, Bool.and_eq_true] at h
    simp only [ieval, ievalO]
    exact SimS.bind (ieval_simS hroot a cur env h.1.2 hc hv _) fun v hv' =>
      groupBy_simS (fun i x hx => ieval_simS hroot e x env h.2 hx hv _) hv'
  | .map e a, cur, env, h, hc, hv, π => by
    simp only [INode.all, Bool.and_eq_true] at h
    simp only [ieval, ievalO]
    exact SimS.bind (ieval_simS hroot a cur env h.2 hc hv _) fun v hv' =>
      mapArray_simS (fun i x hx => ieval_simS hroot e x env h.1.2 hx hv _) hv'
  | .maxBy a e, cur, env, h, hc, hv, π => by
    simp only [INode.all, Bool.and_eq_true] at h
    simp only [ieval, ievalO]
    exact SimS.bind (ieval_simS hroot a cur env h.1.2 hc hv _) fun v hv' =>
      arrayPickBy_simS _ (fun i x hx => ieval_simS hroot e x env h.2 hx hv _) hv'
  | .minBy a e, cur, env, h, hc, hv, π => by
    simp only [INode.all, Bool.and_eq_true] at h
    simp only [ieval, ievalO]
    exact SimS.bind (ieval_simS hroot a cur env h.1.2 hc hv _) fun v hv' =>
      arrayPickBy_simS _ (fun i x hx => ieval_simS hroot e x env h.2 hx hv _) hv'
  | .sortBy a e, cur, env, h, hc, hv, π => by
    simp only [INode.all, Bool.and_eq_true] at h
    simp only [ieval, ievalO]
    exact SimS.bind (ieval_simS hroot a cur env h.1.2 hc hv _) fun v hv' =>
      sortArrayBy_simS (fun i x hx => ieval_simS hroot e x env h.2 hx hv _) hv'
  | .merge args, cur, env, h, hc, hv, π => by
    simp only [INode.all, Bool.and_eq_true] at h
    simp only [ieval, ievalO]
    exact SimS.bind (ievalMerge_simS hroot args cur env [] h.2 hc hv rfl _) fun kvs hk => SimS.pure (good_obj.mpr hk)
  | .notNull args, cur, env, h, hc, hv, π => by
    simp only [INode.all, Bool.and_eq_true] at h
    simp only [ieval, ievalO]
    exact ievalNotNull_simS hroot args cur env h.2 hc hv _
  | .zip args, cur, env, h, hc, hv, π => by
    simp only [INode.all, Bool.and_eq_true] at h
    simp only [ieval, ievalO]
    refine SimS.bind (ievalZip_simS hroot args cur env h.2 hc hv _) fun vs hvs =>
      SimS.bind (SimS.of_sat (zipArgs_sat hvs)) fun cols hcols => ?_
    cases cols with
    | nil => exact SimS.pure (good_plainArr rfl)
    | cons c cs => exact SimS.pure (good_plainArr (goodL_zipRows _ hcols))
theorem ievalList_simS {root : Val} (hroot : root.Good true = true) :
    ∀ (ns : List INode) (cur : Val) (env : Env), INode.allL nodeOkS ns = true → cur.Good true = true →
      Val.GoodF true env = true → ∀ π : Oracle, SimLR (ievalList root ns cur env) (ievalListO π root ns cur env)
  | [], cur, env, h, hc, hv, π => SimS.ok goodL_nil
  | n :: ns, cur, env, h, hc, hv, π => by
    simp only [INode.allL, Bool.and_eq_true] at h
    simp only [ievalList, ievalListO]
    exact SimS.bind (ieval_simS hroot n cur env h.1 hc hv _) fun v hv' =>
      SimS.bind (ievalList_simS hroot ns cur env h.2 hc hv _) fun vs hvs => SimS.pure (goodL_cons.mpr ⟨hv', hvs⟩)
theorem ievalMembers_simS {root : Val} (hroot : root.Good true = true) :
    ∀ (fs : List (Bytes × INode)) (cur : Val) (env : Env), INode.allF nodeOkS fs = true → cur.Good true = true →
      Val.GoodF true env = true → ∀ π : Oracle,
      All₂ MemberSim (memberOutcomes root fs cur env) (ievalMembersO π root fs cur env)
  | [], cur, env, h, hc, hv, π => .nil
  | (k, n) :: rest, cur, env, h, hc, hv, π => by
    simp only [INode.allF, Bool.and_eq_true] at h
    simp only [memberOutcomes, List.map_cons, ievalMembersO]
    exact .cons ⟨rfl, ieval_simS hroot n cur env h.1 hc hv _⟩ (ievalMembers_simS hroot rest cur env h.2 hc hv _)
theorem ievalMerge_simS {root : Val} (hroot : root.Good true = true) :
    ∀ (ns : List INode) (cur : Val) (env : Env) (acc : List (Bytes × Val)), INode.allL nodeOkS ns = true →
      cur.Good true = true → Val.GoodF true env = true → Val.GoodF true acc = true →
      ∀ π : Oracle, SimFR (ievalMerge root ns cur env acc) (ievalMergeO π root ns cur env acc)
  | [], cur, env, acc, h, hc, hv, ha, π => SimS.ok ha
  | n :: ns, cur, env, acc, h, hc, hv, ha, π => by
    simp only [INode.allL, Bool.and_eq_true] at h
    simp only [ievalMerge, ievalMergeO]
    refine SimS.bind (ieval_simS hroot n cur env h.1 hc hv _) fun v hv' => ?_
    cases v with
    | obj kvs => exact ievalMerge_simS hroot ns cur env _ h.2 hc hv (goodF_foldInsert (good_obj.mp hv') ha) _
    | _ => exact SimS.errType
theorem ievalNotNull_simS {root : Val} (hroot : root.Good true = true) :
    ∀ (ns : List INode) (cur : Val) (env : Env), INode.allL nodeOkS ns = true → cur.Good true = true →
      Val.GoodF true env = true → ∀ π : Oracle, SimR (ievalNotNull root ns cur env) (ievalNotNullO π root ns cur env)
  | [], cur, env, h, hc, hv, π => SimS.ok good_null
  | n :: ns, cur, env, h, hc, hv, π => by
    simp only [INode.allL, Bool.and_eq_true] at h
    simp only [ievalNotNull, ievalNotNullO]
    refine SimS.bind (ieval_simS hroot n cur env h.1 hc hv _) fun v hv' => ?_
    cases hn : v.isNull <;> simp only [if_true, Bool.false_eq_true, if_false]
    · exact SimS.pure hv'
    · exact ievalNotNull_simS hroot ns cur env h.2 hc hv _
theorem ievalZip_simS {root : Val} (hroot : root.Good true = true) :
    ∀ (ns : List INode) (cur : Val) (env : Env), INode.allL nodeOkS ns = true → cur.Good true = true →
      Val.GoodF true env = true → ∀ π : Oracle, SimLR (ievalZip root ns cur env) (ievalZipO π root ns cur env)
  | [], cur, env, h, hc, hv, π => SimS.ok goodL_nil
  | n :: ns, cur, env, h, hc, hv, π => by
    simp only [INode.allL, Bool.and_eq_true] at h
    simp only [ievalZip, ievalZipO]
    refine SimS.bind (ieval_simS hroot n cur env h.1 hc hv _) fun v hv' => ?_
    cases v with
    | arr t xs =>
      exact SimS.bind (ievalZip_simS hroot ns cur env h.2 hc hv _) fun vs hvs => SimS.pure (goodL_cons.mpr ⟨hv', hvs⟩)
    | _ => exact SimS.errType
end

end Jmes
