/-
  Property C18, second sentence, third pass — "Searching e2 over the result of searching e1 equals searching `e1 | e2`
  over the original document, for every e2 that does not mention the root node or outer variables."

  A. **ERROR PROPAGATION** (`search_pipe_bind` and its variants `…_top_bind`, `…_no_let_bind`, `…_spaced_bind`,
     `…_spaced_no_let_bind`, `…_paren_bind`).  Under the side conditions of `C18B.search_pipe` & co. the law is ONE
     equation in the outcome monad,
         `search (e1 ++ "|" ++ e2) d = (search e1 d >>= fun r => search e2 r)`,
     whatever `search e1 d` is.  If `e1` yields a value this is `C18B.search_pipe` (`search_pipe_ok`); if `e1` FAILS
     (`.err cs`, `.panic w`, `.nondet`, `.unmodelled w`), `e1|e2` fails in the same way (`search_pipe_fail`,
     `search_pipe_err`, `…_top_fail`, `…_no_let_fail`, `…_spaced_fail`, `…_paren_fail`).  The side conditions include
     that `e1` has a well-formed tree, i.e. that it compiles (`compile_of_tree`); an `e1` that does not compile is a
     compile-time error of `search` (`search_compile_error`) and no statement about `e1|e2` is made for it.

  B. **WHERE `| e2` LANDS, FOR EVERY `e1`** (`Proofs/C18CPipeCtx.lean`: `RCtx`, `landing`, `rgraft`; here:
     `parse_pipe_landing`, `search_pipe_landing`).  For every well-formed tree `T1` of `e1` let
     `(c, core) = landing T1`: walk down the right edge of `T1` while a `let` is ahead, entering the body of every
     `let` met.  Then the parser reads `e1|e2` as `c.fill (core | e2)`, and
         `search (e1 ++ "|" ++ e2) d = evaluate (c.node (pipe core e2)) d`.
     `PipeSafe T1` holds iff `c` consists of `let bs in □` frames and `l | □` frames only (`pipeSafe_iff`,
     `pipeSafe_iff_opFree`; decidable).

  B'. **WHAT REPLACES "the law holds exactly when `e1` is `PipeSafe`"** (the header of `C18B.lean` claims "exactly
     when"; only "if" was proved there).  For a well-formed tree `T1` of `e1`:
       * (sufficient) `PipeSafe T1` ⇒ the law holds for every admissible `e2` (root-free, closed) on every document,
         failure of `e1` included (`pipe_law_of_safe`).
       * (syntactically necessary) `¬ PipeSafe T1` ⇔ on the way to the landing position there is a `!`, a sign, or a
         binary operator other than `|` (`pipeSafe_iff_opFree`); `e1|e2` is then NOT read as `pipe e1 e2` nor as any
         graft along `let` bodies, but as `c.fill (core | e2)` with the `|` below that operator (`parse_pipe_landing`).
       * (semantically) `¬ PipeSafe T1` ⇒ the first operator frame on that path (through `let` bodies and right
         operands of `|`) is either
           - `!`, `-`, `+`, a comparison or an arithmetic operator: then the law FAILS for `e2 = 'x'` on EVERY
             document on which `e1` yields a value (`pipe_fails_of_strFree`; `pipe_fails_not`, `pipe_fails_neg`,
             `pipe_fails_pos`, `pipe_fails_arith_cmp` for the frame at the top); or
           - `l && □` / `l || □` (`unsafe_dichotomy`): then (frame at the top) the law fails on every document on which
             `l` is false-like (`pipe_fails_and`) resp. true-like (`pipe_fails_or`), and may hold on all others.
       * (the naive converse is FALSE) `'y'&&let $x = a in b` is well formed and not `PipeSafe`, and the law holds
         for every admissible `e2` on every document (`and_true_let_law`).  So "exactly when" is true of the SHAPE of
         the tree the parser builds, not of the equality of results.
     One concrete separating instance per frame kind (`!`: `C18B.pipe_not_compositional`; `neg_counterexample`,
     `pos_counterexample`, `eq_counterexample`, `add_counterexample` — where `e1` fails and `e1|e2` succeeds —,
     `and_counterexample`, `or_counterexample`), each checked against the parser through `C04G.parse_complete`; the Go
     code gives the same outputs on all of them.
-/
import Jmes.Properties.C18B
import Jmes.Proofs.C18CPipeCtx
namespace Jmes.C18CP
open Jmes Jmes.Grammar Jmes.Pratt Jmes.C18BGraft Jmes.C18B


/-! ## The law and the admissible right-hand sides -/

/-- the pipe law for `e1`, `e2` on the document `d`, failure of `e1` included -/
def PipeLaw (e1 e2 : Bytes) (d : Val) : Prop :=
  search (e1 ++ [0x7C] ++ e2) d = (search e1 d >>= fun r => search e2 r)

/-- `e2` is admissible for the second sentence of C18: it compiles to a node that mentions neither the root node nor
    a variable it does not bind itself -/
def Admissible (e2 : Bytes) : Prop := ∃ n2, compile e2 = .ok n2 ∧ n2.RootFree = true ∧ n2.Closed = true

/-! ## Fixtures for the examples -/

section Fixtures
open Grammar.Ex


/-- the variable token `$x` -/
def xVar : Token := ⟨.variable, bs "$x"⟩
/-- `let $x = a in b` -/
def letAB : PTree := .letIn [(xVar, idt "a")] (idt "b")
/-- `let $x = a in b | c`: the tree the parser builds -/
def letABC : PTree := .letIn [(xVar, idt "a")] (.bin (op .pipe "|") (idt "b") (idt "c"))
/-- the JSON number with this text -/
def num (s : String) : Val := .num (.jnum (bs s))
/-- `{"a": 1, "b": {"c": 5}}` -/
def docN : Val := .obj [(bs "a", num "1"), (bs "b", .obj [(bs "c", num "5")])]

/-- `c` compiles to the field selector -/
theorem c_compile : compile (bs "c") = .ok (.field (bs "c")) :=
  C04G.parse_complete (t := idt "c") (by decide) (by decide)
/-- … which is admissible -/
theorem c_admissible : Admissible (bs "c") := ⟨_, c_compile, by decide, by decide⟩
/-- … and searching it selects the field -/
theorem c_search (r : Val) : search (bs "c") r = .ok (field (bs "c") r) := by
  unfold search; rw [show Parser.parse (bs "c") = _ from c_compile]; rfl

end Fixtures

/-! ## A. The pipe law as ONE equation, covering failure of `e1` -/

/-- binding a continuation to an outcome that is not a value leaves it as it is -/
theorem bind_of_not_ok {x : Res Val} (f : Val → Res Val) (h : ∀ r, x ≠ .ok r) : (x >>= f) = x := by
  cases x with
  | ok a => exact absurd rfl (h a)
  | _ => rfl

/-- `search` of an expression that has a well-formed tree compiles it (it is not a syntax error) -/
theorem compile_of_tree {T : PTree} {e : Bytes} (hw : WellPrec T)
    (hl : lexAll e = (Grammar.flatten T ++ [endTok], none)) : compile e = .ok (erase T) :=
  C04G.parse_complete hw hl

/-- **the general form**, with the lexer junction as a hypothesis: if `e12` lexes to the tokens of `e1`, a `|`, and the
    tokens of `e2`, then `search e12 d` is `search e1 d` bound to `search e2` — a value is piped on, a failure of `e1` is
    the failure of `e12` — under the side conditions of `C18B.search_pipe_of_lex` -/
theorem search_pipe_bind_of_lex {e1 e2 e12 : Bytes} {T1 : PTree} {c : Ctx} {core : PTree} {n2 : INode}
    (hw : WellPrec T1) (hl1 : lexAll e1 = (Grammar.flatten T1 ++ [endTok], none))
    (hT : T1 = c.fill core) (hp : c.pipes) (hr : lvlPipe ≤ rlevel core)
    (h2 : compile e2 = .ok n2) (hroot : n2.RootFree = true) (hcl : c.isHole = true ∨ n2.Closed = true)
    (hj : ∀ p2, lexAll e2 = (p2 ++ [endTok], none) →
      lexAll e12 = (Grammar.flatten T1 ++ pipeTok :: p2 ++ [endTok], none))
    (d : Val) : search e12 d = (search e1 d >>= fun r => search e2 r) := by
  obtain ⟨T2, hw2, hl2, he2, _⟩ := C04G.parse_sound h2
  have hn : c.isHole = true ∨ EnvIndep (erase T2) := by
    rcases hcl with h | h
    · exact Or.inl h
    · right; rw [he2]; exact fun root cur env => ieval_closed h root cur env []
  obtain ⟨hwT, hfT, hsem⟩ := graft hw hw2 hT hp hr hn
  have hl12 : lexAll e12 = (Grammar.flatten (c.fill (joinL core T2)) ++ [endTok], none) := by
    rw [hfT, hj _ hl2]
  have hf : (fun r => search e2 r) = fun r => ieval d (erase T2) r [] := by
    funext r
    rw [search_of_tree hw2 hl2, he2]
    exact (C18.ieval_root_free hroot d r r []).symm
  rw [search_of_tree hwT hl12, search_of_tree hw hl1, hf]
  simp only [evaluate]
  exact hsem d d []

/-- **C18, second sentence, as one equation** (`e1 ++ "|" ++ e2`): for a well-formed tree `T1` of `e1` (so `e1`
    compiles: `compile_of_tree`) that is `PipeSafe`, and `e2` compiling to a root-free and closed node:
    searching `e1|e2` over `d` is searching `e1` over `d` and, if that yields a value, searching `e2` over it;
    if `e1` fails (error, panic, order-dependent, unmodelled) so does `e1|e2`, in the same way. -/
theorem search_pipe_bind {e1 e2 : Bytes} {T1 : PTree} {n2 : INode}
    (hw : WellPrec T1) (hl1 : lexAll e1 = (Grammar.flatten T1 ++ [endTok], none)) (hs : PipeSafe T1)
    (h2 : compile e2 = .ok n2) (hroot : n2.RootFree = true) (hcl : n2.Closed = true) (d : Val) :
    search (e1 ++ [0x7C] ++ e2) d = (search e1 d >>= fun r => search e2 r) := by
  obtain ⟨c, core, hT, hp, hr⟩ := hs
  exact search_pipe_bind_of_lex hw hl1 hT hp hr h2 hroot (Or.inr hcl) (lex_junction hw hl1 h2) d

/-- the same when `e1` does not end in a `let` body (`lvlPipe ≤ rlevel T1`): `e2` need only be root-free -/
theorem search_pipe_top_bind {e1 e2 : Bytes} {T1 : PTree} {n2 : INode}
    (hw : WellPrec T1) (hl1 : lexAll e1 = (Grammar.flatten T1 ++ [endTok], none)) (hr : lvlPipe ≤ rlevel T1)
    (h2 : compile e2 = .ok n2) (hroot : n2.RootFree = true) (d : Val) :
    search (e1 ++ [0x7C] ++ e2) d = (search e1 d >>= fun r => search e2 r) :=
  search_pipe_bind_of_lex (c := .hole) hw hl1 rfl trivial hr h2 hroot (Or.inl rfl) (lex_junction hw hl1 h2) d

/-- **on bytes only, for `e1` without the token `let`**: `e1` compiles, `e2` compiles to a root-free node.
    (If `e1` does not compile, `search e1 d` is a compile-time error, `search_compile_error`, and the statement is
    not made.) -/
theorem search_pipe_no_let_bind {e1 e2 : Bytes} {n1 n2 : INode}
    (hc : compile e1 = .ok n1) (hnl : ∀ tok ∈ (lexAll e1).1, tok.type ≠ .let)
    (h2 : compile e2 = .ok n2) (hroot : n2.RootFree = true) (d : Val) :
    search (e1 ++ [0x7C] ++ e2) d = (search e1 d >>= fun r => search e2 r) := by
  obtain ⟨T1, hw, hl1, _, hr⟩ := tree_of_no_let hc hnl
  exact search_pipe_top_bind hw hl1 hr h2 hroot d

/-- `e1 ++ " | " ++ e2` -/
theorem search_pipe_spaced_bind {e1 e2 : Bytes} {T1 : PTree} {n2 : INode}
    (hw : WellPrec T1) (hl1 : lexAll e1 = (Grammar.flatten T1 ++ [endTok], none)) (hs : PipeSafe T1)
    (h2 : compile e2 = .ok n2) (hroot : n2.RootFree = true) (hcl : n2.Closed = true) (d : Val) :
    search (e1 ++ [0x20, 0x7C, 0x20] ++ e2) d = (search e1 d >>= fun r => search e2 r) := by
  obtain ⟨c, core, hT, hp, hr⟩ := hs
  exact search_pipe_bind_of_lex hw hl1 hT hp hr h2 hroot (Or.inr hcl)
    (fun p2 hp2 => C18BLex.lexAll_spaced_pipe_join hl1 hp2) d

/-- `e1 ++ " | " ++ e2`, on bytes only, for `e1` without the token `let` -/
theorem search_pipe_spaced_no_let_bind {e1 e2 : Bytes} {n1 n2 : INode}
    (hc : compile e1 = .ok n1) (hnl : ∀ tok ∈ (lexAll e1).1, tok.type ≠ .let)
    (h2 : compile e2 = .ok n2) (hroot : n2.RootFree = true) (d : Val) :
    search (e1 ++ [0x20, 0x7C, 0x20] ++ e2) d = (search e1 d >>= fun r => search e2 r) := by
  obtain ⟨T1, hw, hl1, _, hr⟩ := tree_of_no_let hc hnl
  exact search_pipe_bind_of_lex (c := .hole) hw hl1 rfl trivial hr h2 hroot (Or.inl rfl)
    (fun p2 hp2 => C18BLex.lexAll_spaced_pipe_join hl1 hp2) d

/-- the lexer on `(e1)` -/
theorem lex_paren {e1 : Bytes} {T1 : PTree} (hl1 : lexAll e1 = (Grammar.flatten T1 ++ [endTok], none)) :
    lexAll ([0x28] ++ e1 ++ [0x29]) = (Grammar.flatten (.paren T1) ++ [endTok], none) := by
  have ha : lexAll ([0x28] ++ e1) = (tLParen :: Grammar.flatten T1 ++ [endTok], none) := by
    have := C18BLex.lexAll_step (s := [0x28] ++ e1) (t := tLParen) (n := 1)
      (C18BLex.lexToken_complete' (ty := .openParen) (v := [0x28]) rfl ⟨fun _ _ _ => rfl, fun h => by cases h⟩)
    rw [this]; simp [hl1]
  have hb := C18BLex.lexAll_append_gen _ ([0x28] ++ e1) (Nat.le_refl _) (tLParen :: Grammar.flatten T1) ha
    0x29 [] (by decide) (by decide) (by decide) (by
      intro t ht
      cases t with
      | mk ty v => cases ty <;> simp [Lexical.forbiddenNext, Lexical.isIdCharB, Lexical.isIdStartB, Lexical.isDigitB])
  rw [hb]
  show _ = (tLParen :: Grammar.flat false T1 ++ [tRParen] ++ [endTok], none)
  have hr : lexAll [0x29] = ([tRParen, endTok], none) := by decide
  rw [hr]; simp [Grammar.flatten]

/-- **`(e1)|e2`, for every `e1` that compiles and every root-free `e2`** -/
theorem search_pipe_paren_bind {e1 e2 : Bytes} {n1 n2 : INode}
    (hc : compile e1 = .ok n1) (h2 : compile e2 = .ok n2) (hroot : n2.RootFree = true) (d : Val) :
    search (([0x28] ++ e1 ++ [0x29]) ++ [0x7C] ++ e2) d = (search e1 d >>= fun r => search e2 r) := by
  obtain ⟨T1, hw, hl1, _, _⟩ := C04G.parse_sound hc
  have hlp := lex_paren hl1
  have hwp : WellPrec (.paren T1) := C04G.wellPrec_paren hw
  have h1' : search ([0x28] ++ e1 ++ [0x29]) d = search e1 d := by
    rw [search_of_tree hwp hlp, search_of_tree hw hl1]; rfl
  rw [← h1']
  exact search_pipe_top_bind hwp hlp (show lvlPipe ≤ top by decide) h2 hroot d

/-! ### the two readings of the equation -/

/-- **`e1` fails ⇒ `e1|e2` fails alike** (any of `.err cs`, `.panic w`, `.nondet`, `.unmodelled w`) -/
theorem search_pipe_fail {e1 e2 : Bytes} {T1 : PTree} {n2 : INode} {d : Val}
    (hw : WellPrec T1) (hl1 : lexAll e1 = (Grammar.flatten T1 ++ [endTok], none)) (hs : PipeSafe T1)
    (h2 : compile e2 = .ok n2) (hroot : n2.RootFree = true) (hcl : n2.Closed = true)
    (h1 : ∀ r, search e1 d ≠ .ok r) : search (e1 ++ [0x7C] ++ e2) d = search e1 d :=
  (search_pipe_bind hw hl1 hs h2 hroot hcl d).trans (bind_of_not_ok _ h1)

/-- the error case spelt out: the same categories -/
theorem search_pipe_err {e1 e2 : Bytes} {T1 : PTree} {n2 : INode} {d : Val} {cs : List Cat}
    (hw : WellPrec T1) (hl1 : lexAll e1 = (Grammar.flatten T1 ++ [endTok], none)) (hs : PipeSafe T1)
    (h2 : compile e2 = .ok n2) (hroot : n2.RootFree = true) (hcl : n2.Closed = true)
    (h1 : search e1 d = .err cs) : search (e1 ++ [0x7C] ++ e2) d = .err cs := by
  rw [search_pipe_bind hw hl1 hs h2 hroot hcl d, h1]; rfl

/-- failure of `e1` when `e1` does not end in a `let` body (`e2` need only be root-free) -/
theorem search_pipe_top_fail {e1 e2 : Bytes} {T1 : PTree} {n2 : INode} {d : Val}
    (hw : WellPrec T1) (hl1 : lexAll e1 = (Grammar.flatten T1 ++ [endTok], none)) (hr : lvlPipe ≤ rlevel T1)
    (h2 : compile e2 = .ok n2) (hroot : n2.RootFree = true)
    (h1 : ∀ r, search e1 d ≠ .ok r) : search (e1 ++ [0x7C] ++ e2) d = search e1 d :=
  (search_pipe_top_bind hw hl1 hr h2 hroot d).trans (bind_of_not_ok _ h1)

/-- failure of `e1`, on bytes only, for `e1` that compiles and has no token `let` -/
theorem search_pipe_no_let_fail {e1 e2 : Bytes} {n1 n2 : INode} {d : Val}
    (hc : compile e1 = .ok n1) (hnl : ∀ tok ∈ (lexAll e1).1, tok.type ≠ .let)
    (h2 : compile e2 = .ok n2) (hroot : n2.RootFree = true)
    (h1 : ∀ r, search e1 d ≠ .ok r) : search (e1 ++ [0x7C] ++ e2) d = search e1 d :=
  (search_pipe_no_let_bind hc hnl h2 hroot d).trans (bind_of_not_ok _ h1)

/-- failure of `e1`, for `e1 ++ " | " ++ e2` -/
theorem search_pipe_spaced_fail {e1 e2 : Bytes} {T1 : PTree} {n2 : INode} {d : Val}
    (hw : WellPrec T1) (hl1 : lexAll e1 = (Grammar.flatten T1 ++ [endTok], none)) (hs : PipeSafe T1)
    (h2 : compile e2 = .ok n2) (hroot : n2.RootFree = true) (hcl : n2.Closed = true)
    (h1 : ∀ r, search e1 d ≠ .ok r) : search (e1 ++ [0x20, 0x7C, 0x20] ++ e2) d = search e1 d :=
  (search_pipe_spaced_bind hw hl1 hs h2 hroot hcl d).trans (bind_of_not_ok _ h1)

/-- failure of `e1`, for `e1 ++ " | " ++ e2`, on bytes only -/
theorem search_pipe_spaced_no_let_fail {e1 e2 : Bytes} {n1 n2 : INode} {d : Val}
    (hc : compile e1 = .ok n1) (hnl : ∀ tok ∈ (lexAll e1).1, tok.type ≠ .let)
    (h2 : compile e2 = .ok n2) (hroot : n2.RootFree = true)
    (h1 : ∀ r, search e1 d ≠ .ok r) : search (e1 ++ [0x20, 0x7C, 0x20] ++ e2) d = search e1 d :=
  (search_pipe_spaced_no_let_bind hc hnl h2 hroot d).trans (bind_of_not_ok _ h1)

/-- failure of `e1`, for `(e1)|e2`: every `e1` that compiles, every root-free `e2` -/
theorem search_pipe_paren_fail {e1 e2 : Bytes} {n1 n2 : INode} {d : Val}
    (hc : compile e1 = .ok n1) (h2 : compile e2 = .ok n2) (hroot : n2.RootFree = true)
    (h1 : ∀ r, search e1 d ≠ .ok r) : search (([0x28] ++ e1 ++ [0x29]) ++ [0x7C] ++ e2) d = search e1 d :=
  (search_pipe_paren_bind hc h2 hroot d).trans (bind_of_not_ok _ h1)

/-- the value case follows as well (this is `C18B.search_pipe`) -/
theorem search_pipe_ok {e1 e2 : Bytes} {T1 : PTree} {n2 : INode} {d r : Val}
    (hw : WellPrec T1) (hl1 : lexAll e1 = (Grammar.flatten T1 ++ [endTok], none)) (hs : PipeSafe T1)
    (h2 : compile e2 = .ok n2) (hroot : n2.RootFree = true) (hcl : n2.Closed = true)
    (h1 : search e1 d = .ok r) : search (e1 ++ [0x7C] ++ e2) d = search e2 r := by
  rw [search_pipe_bind hw hl1 hs h2 hroot hcl d, h1]; rfl


/-- an outcome that is not a string value -/
def NotStr (x : Res Val) : Prop := ∀ s, x ≠ .ok (.str s)

/-- binding preserves "never a string" of the continuation -/
theorem notStr_bind {x : Res Val} {f : Val → Res Val} (h : ∀ a, NotStr (f a)) : NotStr (x >>= f) := by
  intro s
  cases x with
  | ok a => exact h a s
  | _ => intro h; cases h

/-- the same for a first step of any type -/
theorem notStr_bind' {α} {x : Res α} {f : α → Res Val} (h : ∀ a, NotStr (f a)) : NotStr (x >>= f) := by
  intro s
  cases x with
  | ok a => exact h a s
  | _ => intro h; cases h

/-- unary minus yields a number or `null` -/
theorem negateVal_notStr (a : Val) : NotStr (.ok (negateVal a)) := by
  intro s h
  unfold negateVal at h
  split at h
  · cases h
  · split at h
    · cases h
    · split at h <;> cases h

/-- a checked float result is a number or an error -/
theorem checkF_notStr (r : F64) : NotStr (checkF r) := by
  intro s h; unfold checkF at h; split at h
  · cases h
  · split at h <;> cases h

/-- a checked decimal result is a number or an error -/
theorem checkD_notStr (r : Dec) : NotStr (checkD r) := by
  intro s h; unfold checkD at h; split at h
  · cases h
  · split at h <;> cases h

/-- an arithmetic operator yields a number or an error -/
theorem arith_notStr (fop dop) (x y : Val) : NotStr (arith fop dop x y) := by
  intro s h
  unfold arith at h
  split at h
  · exact checkF_notStr _ s h
  · split at h
    · cases h
    · split at h
      · cases h
      · exact checkD_notStr _ s h

/-- an ordering comparison yields a boolean or `null` -/
theorem cmpOp_notStr (f) (x y : Val) : NotStr (.ok (cmpOp f x y)) := by
  intro s h
  unfold cmpOp at h
  split at h
  · cases h
  · split at h <;> cases h

/-- `==` / `!=` yield a boolean (or are order-dependent) -/
theorem equalR_bind_notStr (x y : Val) (g : Bool → Bool) :
    NotStr (equalR x y >>= fun b => pure (.bool (g b))) := by
  apply notStr_bind'; intro b s h; cases h

/-- an arithmetic or comparison operator never yields a string -/
theorem applyBinOp_notStr (op : BinOp) (l r : Val) : NotStr (applyBinOp op l r) := by
  cases op
  case eq => exact equalR_bind_notStr l r id
  case ne => exact equalR_bind_notStr l r (!·)
  case lt => exact cmpOp_notStr _ l r
  case le => exact cmpOp_notStr _ l r
  case gt => exact cmpOp_notStr _ l r
  case ge => exact cmpOp_notStr _ l r
  all_goals exact arith_notStr _ _ l r


/-- the token is a comparison or arithmetic operator (not `|`, `||`, `&&`) -/
def isArithCmp (ty : TokenType) : Bool :=
  match binLevel ty with
  | some lvl => decide (lvlCmp ≤ lvl)
  | none => false

/-- reading the frames of the context from the outside in, through `let` bodies and right operands of `|`, the first
    other frame is `!`, a sign, or a comparison / arithmetic operator (not `&&`, `||`) -/
def RCtx.strFree : RCtx → Bool
  | .hole => false
  | .letIn _ c => c.strFree
  | .not _ => true
  | .neg _ _ => true
  | .pos _ => true
  | .binR op _ c => if op.type = .pipe then c.strFree else isArithCmp op.type

/-- whatever is put in the hole of such a context, the value is never a string: it is a boolean under `!`, a number or
    `null` under a sign, a number under an arithmetic operator, a boolean or `null` under a comparison -/
theorem node_notStr (c : RCtx) (h : c.strFree = true) (n : INode) :
    ∀ root cur env, NotStr (ieval root (c.node n) cur env) := by
  induction c with
  | hole => cases h
  | letIn bs c ih =>
    intro root cur env
    simp only [RCtx.node, ieval]
    exact notStr_bind' fun b => ih h root cur _
  | not c _ =>
    intro root cur env
    simp only [RCtx.node, ieval]
    exact notStr_bind fun a s h => by cases h
  | neg tok c _ =>
    intro root cur env
    simp only [RCtx.node, ieval]
    exact notStr_bind fun a => negateVal_notStr a
  | pos c _ =>
    intro root cur env
    simp only [RCtx.node, ieval]
    refine notStr_bind fun a s h => ?_
    cases a <;> simp [isNumber, pure] at h
  | binR op l c ih =>
    intro root cur env
    simp only [RCtx.strFree] at h
    simp only [RCtx.node]
    by_cases hp : op.type = .pipe
    · simp only [hp, if_true] at h
      simp only [hp, binNode, ieval]
      exact notStr_bind fun a => ih h root a env
    · simp only [hp, if_false] at h
      cases hty : op.type <;> rw [hty] at h hp
      all_goals first
        | (exact absurd rfl hp)
        | (exfalso; revert h; simp [isArithCmp, binLevel, lvlCmp, lvlOr, lvlAnd]; done)
        | (simp only [binNode, ieval]
           exact notStr_bind fun a => notStr_bind fun b => applyBinOp_notStr _ a b)



/-- an expression that does not compile is a compile-time error of `search`, whatever the document -/
theorem search_compile_error {e : Bytes} {err : PErr} (h : compile e = .error err) (hf : err ≠ .fuel) (d : Val) :
    search e d = .err [parseCat err] := by
  unfold search; rw [show Parser.parse e = _ from h]
  cases err <;> first | rfl | exact absurd rfl hf

section ExamplesA
open Grammar.Ex
example : search (bs "a b") .null = .err [Cat.syntax] := search_compile_error C04G.ab_rejected (by decide) _
example : (Res.err [Cat.syntax] >>= fun r => search (bs "c") r) = .err [Cat.syntax] :=
  bind_of_not_ok _ (by intro r h; cases h)

/-! ### error propagation (part A) -/

/-- `{"a": "x"}` -/
def docX : Val := .obj [(bs "a", .str (bs "x"))]
/-- `abs(a)` -/
def absA : Bytes := bs "abs(a)"
/-- its tree -/
def absAT : PTree := .call ⟨.unquotedIdentifier, bs "abs"⟩ [idt "a"]
/-- … which is well formed and is what the lexer produces -/
theorem absAT_ok : WellPrec absAT ∧ lexAll absA = (Grammar.flatten absAT ++ [endTok], none) := by decide +kernel
/-- `abs(a)` on `{"a": "x"}` is an invalid-type error -/
theorem absA_fails : search absA docX = .err [Cat.invalidType] :=
  (search_of_tree absAT_ok.1 absAT_ok.2 docX).trans rfl

/-- `abs(a)` on `{"a": "x"}` is an invalid-type error, and so is `abs(a)|c` (and `abs(a) | c`, `(abs(a))|c`) -/
example : search (absA ++ [0x7C] ++ bs "c") docX = .err [Cat.invalidType] := by
  rw [search_pipe_no_let_fail (compile_of_tree absAT_ok.1 absAT_ok.2) (by decide) c_compile (by decide)
    (by rw [absA_fails]; intro r h; cases h), absA_fails]
example : search (absA ++ [0x20, 0x7C, 0x20] ++ bs "c") docX = .err [Cat.invalidType] := by
  rw [search_pipe_spaced_no_let_fail (compile_of_tree absAT_ok.1 absAT_ok.2) (by decide) c_compile (by decide)
    (by rw [absA_fails]; intro r h; cases h), absA_fails]
example : search (([0x28] ++ absA ++ [0x29]) ++ [0x7C] ++ bs "c") docX = .err [Cat.invalidType] := by
  rw [search_pipe_paren_fail (compile_of_tree absAT_ok.1 absAT_ok.2) c_compile (by decide)
    (by rw [absA_fails]; intro r h; cases h), absA_fails]
example : search (absA ++ [0x7C] ++ bs "c") docX = .err [Cat.invalidType] :=
  search_pipe_err absAT_ok.1 absAT_ok.2 (by decide) c_compile (by decide) (by decide) absA_fails
example : PipeLaw absA (bs "c") docX :=
  search_pipe_top_bind absAT_ok.1 absAT_ok.2 (by decide) c_compile (by decide) docX

/-- `let $x = a in abs($x)`: the `|` lands inside the `let`; the error of the body comes out unchanged -/
def letAbs : Bytes := bs "let $x = a in abs($x)"
/-- its tree -/
def letAbsT : PTree := .letIn [(xVar, idt "a")] (.call ⟨.unquotedIdentifier, bs "abs"⟩ [.atom xVar])
/-- … which is well formed and is what the lexer produces -/
theorem letAbsT_ok : WellPrec letAbsT ∧ lexAll letAbs = (Grammar.flatten letAbsT ++ [endTok], none) := by
  decide +kernel
example : search letAbs docX = .err [Cat.invalidType] ∧
    search (letAbs ++ [0x7C] ++ bs "c") docX = .err [Cat.invalidType] := by
  have h : search letAbs docX = .err [Cat.invalidType] := (search_of_tree letAbsT_ok.1 letAbsT_ok.2 docX).trans rfl
  exact ⟨h, search_pipe_err letAbsT_ok.1 letAbsT_ok.2 (by decide) c_compile (by decide) (by decide) h⟩
example : search (letAbs ++ [0x20, 0x7C, 0x20] ++ bs "c") docX = search letAbs docX :=
  search_pipe_spaced_fail letAbsT_ok.1 letAbsT_ok.2 (by decide) c_compile (by decide) (by decide)
    (by rw [(search_of_tree letAbsT_ok.1 letAbsT_ok.2 docX).trans rfl]; intro r h; cases h)

end ExamplesA

/-! ## B. Where `| e2` lands for an arbitrary well-formed `e1` -/

/-- **the node of `e1|e2`, in general**: for ANY well-formed tree `T1` of `e1` and `T2` of `e2`, the parser builds, for
    `e1|e2`, the node of `c.fill (core | T2)` where `(c, core) = landing T1`: the `|` is attached at the landing
    position — inside the innermost `let` body at the right edge of `e1`, below every `!`, sign and binary operator on
    the way. -/
theorem parse_pipe_landing {e1 e2 : Bytes} {T1 T2 : PTree}
    (hw1 : WellPrec T1) (hl1 : lexAll e1 = (Grammar.flatten T1 ++ [endTok], none))
    (hw2 : WellPrec T2) (hl2 : lexAll e2 = (Grammar.flatten T2 ++ [endTok], none)) :
    Parser.parse (e1 ++ [0x7C] ++ e2) = .ok (erase ((landing T1).1.fill (joinL (landing T1).2 T2))) := by
  obtain ⟨hwT, hfT, _⟩ := rgraft hw1 hw2
  refine C04G.parse_complete hwT ?_
  rw [hfT, lex_junction hw1 hl1 (compile_of_tree hw2 hl2) _ hl2]

/-- … which, when `e2` is not itself a pipe at its top, is literally `c.node (pipe core e2)` -/
theorem parse_pipe_landing_node {e1 e2 : Bytes} {T1 T2 : PTree}
    (hw1 : WellPrec T1) (hl1 : lexAll e1 = (Grammar.flatten T1 ++ [endTok], none))
    (hw2 : WellPrec T2) (hl2 : lexAll e2 = (Grammar.flatten T2 ++ [endTok], none)) (hnp : ¬ IsPipe T2) :
    Parser.parse (e1 ++ [0x7C] ++ e2) =
      .ok ((landing T1).1.node (.pipe (erase (landing T1).2) (erase T2))) := by
  rw [parse_pipe_landing hw1 hl1 hw2 hl2, RCtx.erase_fill, erase_joinL_of_not_pipe _ hnp]

/-- every well-formed tree with the tokens of `e1 | e2` denotes that node (the grammar is unambiguous) -/
theorem pipe_tree_unique {T1 T2 T : PTree} (hw1 : WellPrec T1) (hw2 : WellPrec T2) (hw : WellPrec T)
    (hf : Grammar.flatten T = Grammar.flatten T1 ++ pipeTok :: Grammar.flatten T2) :
    erase T = erase ((landing T1).1.fill (joinL (landing T1).2 T2)) := by
  obtain ⟨hwT, hfT, _⟩ := rgraft hw1 hw2
  exact C04G.unambiguous hw hwT (hf.trans hfT.symm)

/-- **the value of `e1|e2`, in general**, with the lexer junction as a hypothesis -/
theorem search_pipe_landing_of_lex {e2 e12 : Bytes} {T1 : PTree} {n2 : INode}
    (hw : WellPrec T1) (h2 : compile e2 = .ok n2)
    (hj : ∀ p2, lexAll e2 = (p2 ++ [endTok], none) →
      lexAll e12 = (Grammar.flatten T1 ++ pipeTok :: p2 ++ [endTok], none))
    (d : Val) :
    search e12 d = evaluate ((landing T1).1.node (.pipe (erase (landing T1).2) n2)) d := by
  obtain ⟨T2, hw2, hl2, he2, _⟩ := C04G.parse_sound h2
  obtain ⟨hwT, hfT, hsem⟩ := rgraft hw hw2
  have hl12 : lexAll e12 = (Grammar.flatten ((landing T1).1.fill (joinL (landing T1).2 T2)) ++ [endTok], none) := by
    rw [hfT, hj _ hl2]
  rw [search_of_tree hwT hl12]
  simp only [evaluate]
  rw [hsem, he2]

/-- **the value of `e1|e2`, in general** (`e1 ++ "|" ++ e2`): evaluate `core | e2` inside the landing context -/
theorem search_pipe_landing {e1 e2 : Bytes} {T1 : PTree} {n2 : INode}
    (hw : WellPrec T1) (hl1 : lexAll e1 = (Grammar.flatten T1 ++ [endTok], none))
    (h2 : compile e2 = .ok n2) (d : Val) :
    search (e1 ++ [0x7C] ++ e2) d = evaluate ((landing T1).1.node (.pipe (erase (landing T1).2) n2)) d :=
  search_pipe_landing_of_lex hw h2 (lex_junction hw hl1 h2) d

/-- the same for `e1 ++ " | " ++ e2` -/
theorem search_pipe_spaced_landing {e1 e2 : Bytes} {T1 : PTree} {n2 : INode}
    (hw : WellPrec T1) (hl1 : lexAll e1 = (Grammar.flatten T1 ++ [endTok], none))
    (h2 : compile e2 = .ok n2) (d : Val) :
    search (e1 ++ [0x20, 0x7C, 0x20] ++ e2) d =
      evaluate ((landing T1).1.node (.pipe (erase (landing T1).2) n2)) d :=
  search_pipe_landing_of_lex hw h2 (fun _ hp2 => C18BLex.lexAll_spaced_pipe_join hl1 hp2) d

/-- `search e1 d` itself, through the same context -/
theorem search_landing {e1 : Bytes} {T1 : PTree}
    (hw : WellPrec T1) (hl1 : lexAll e1 = (Grammar.flatten T1 ++ [endTok], none)) (d : Val) :
    search e1 d = evaluate ((landing T1).1.node (erase (landing T1).2)) d := by
  rw [search_of_tree hw hl1, ← RCtx.erase_fill, ← landing_fill]


/-! ## B'. Necessity: where the law fails -/

/-- the raw string literal `'x'` -/
def strX : Bytes := [0x27, 0x78, 0x27]
/-- the empty raw string literal `''` -/
def strE : Bytes := [0x27, 0x27]

/-- `'x'` compiles to the literal string `x` -/
theorem strX_compile : compile strX = .ok (.lit (.str [0x78])) :=
  C04G.parse_complete (t := .atom ⟨.stringLiteral, strX⟩) (by decide) (by decide)
/-- `''` compiles to the literal empty string -/
theorem strE_compile : compile strE = .ok (.lit (.str [])) :=
  C04G.parse_complete (t := .atom ⟨.stringLiteral, strE⟩) (by decide) (by decide)
/-- `'x'` is admissible -/
theorem strX_admissible : Admissible strX := ⟨_, strX_compile, by decide, by decide⟩
/-- `''` is admissible -/
theorem strE_admissible : Admissible strE := ⟨_, strE_compile, by decide, by decide⟩
/-- searching `'x'` over anything yields the string `x` -/
theorem strX_search (r : Val) : search strX r = .ok (.str [0x78]) := by
  unfold search; rw [show Parser.parse strX = _ from strX_compile]; rfl
/-- searching `''` over anything yields the empty string -/
theorem strE_search (r : Val) : search strE r = .ok (.str []) := by
  unfold search; rw [show Parser.parse strE = _ from strE_compile]; rfl

/-- **the law fails, uniformly, under `!`, a sign, a comparison or an arithmetic operator**: if the `|` written after
    `e1` lands below such a frame (`strFree` of the landing context), then on EVERY document on which `e1` yields a
    value the law fails for the admissible `e2 = 'x'`: searching `'x'` over the result gives the string `x`, while
    `e1|'x'` is a boolean, a number, `null` or an error. -/
theorem pipe_fails_of_strFree {e1 : Bytes} {T1 : PTree} {d r : Val}
    (hw : WellPrec T1) (hl1 : lexAll e1 = (Grammar.flatten T1 ++ [endTok], none))
    (hs : (landing T1).1.strFree = true) (h1 : search e1 d = .ok r) :
    ¬ PipeLaw e1 strX d := by
  unfold PipeLaw
  rw [search_pipe_landing hw hl1 strX_compile d, h1]
  show _ ≠ search strX r
  rw [strX_search]
  exact node_notStr _ hs _ d d [] _

/-- a non-`PipeSafe` `!T`: the landing context starts with `!` -/
theorem strFree_not {T : PTree} (h : ¬ PipeSafe (.not T)) : (landing (.not T)).1.strFree = true := by
  by_cases hr : rlevel T < lvlPipe
  · simp only [landing, hr, if_true, RCtx.strFree]
  · exact absurd (pipeSafe_of_rlevel (by simp only [rlevel, lvlNot, lvlPipe] at hr ⊢; omega)) h

/-- a non-`PipeSafe` `-T`: the landing context starts with the sign -/
theorem strFree_neg {tok : Token} {T : PTree} (h : ¬ PipeSafe (.neg tok T)) :
    (landing (.neg tok T)).1.strFree = true := by
  by_cases hr : rlevel T < lvlPipe
  · simp only [landing, hr, if_true, RCtx.strFree]
  · exact absurd (pipeSafe_of_rlevel (by simp only [rlevel, lvlMul, lvlPipe] at hr ⊢; omega)) h

/-- a non-`PipeSafe` `+T`: the landing context starts with the sign -/
theorem strFree_pos {T : PTree} (h : ¬ PipeSafe (.pos T)) : (landing (.pos T)).1.strFree = true := by
  by_cases hr : rlevel T < lvlPipe
  · simp only [landing, hr, if_true, RCtx.strFree]
  · exact absurd (pipeSafe_of_rlevel (by simp only [rlevel, lvlMul, lvlPipe] at hr ⊢; omega)) h

/-- a non-`PipeSafe` tree `l op r` with `op` other than `|`: the right operand ends in a `let` -/
theorem rlevel_of_unsafe_bin {op : Token} {l r : PTree} {lvl : Nat} (hb : binLevel op.type = some lvl)
    (h : ¬ PipeSafe (.bin op l r)) : rlevel r < lvlPipe := by
  by_cases hr : rlevel r < lvlPipe
  · exact hr
  · have := (GrammarF0.binLevel_range hb).1
    exact absurd (pipeSafe_of_rlevel (by simp only [rlevel, hb, Option.getD_some, lvlPipe] at hr ⊢; omega)) h

/-- a non-`PipeSafe` `l op r` with a comparison or arithmetic `op`: the landing context starts with `l op □` -/
theorem strFree_bin {op : Token} {l r : PTree} (ho : isArithCmp op.type = true)
    (h : ¬ PipeSafe (.bin op l r)) : (landing (.bin op l r)).1.strFree = true := by
  have hb : ∃ lvl, binLevel op.type = some lvl := by
    unfold isArithCmp at ho
    split at ho
    · exact ⟨_, ‹_›⟩
    · cases ho
  obtain ⟨lvl, hb⟩ := hb
  have hr := rlevel_of_unsafe_bin hb h
  have hp : op.type ≠ .pipe := by
    intro hp; rw [hp] at ho; revert ho; decide
  simp only [landing, hr, if_true, RCtx.strFree, hp, if_false, ho]

/-- **`!…let…` followed by `|`**: for every well-formed `!T` that is not `PipeSafe` and every document on which it
    yields a value, the pipe law fails for `e2 = 'x'` -/
theorem pipe_fails_not {e1 : Bytes} {T : PTree} {d r : Val}
    (hw : WellPrec (.not T)) (hl1 : lexAll e1 = (Grammar.flatten (.not T) ++ [endTok], none))
    (hns : ¬ PipeSafe (.not T)) (h1 : search e1 d = .ok r) : ¬ PipeLaw e1 strX d :=
  pipe_fails_of_strFree hw hl1 (strFree_not hns) h1

/-- **`!let bs in body` followed by `|`, for arbitrary `bs` and `body`**: whenever `!let bs in body` is well formed, on
    every document on which it yields a value the pipe law fails for the admissible `e2 = 'x'` -/
theorem pipe_fails_not_let {e1 : Bytes} {bs : List (Token × PTree)} {body : PTree} {d r : Val}
    (hw : WellPrec (.not (.letIn bs body)))
    (hl1 : lexAll e1 = (Grammar.flatten (.not (.letIn bs body)) ++ [endTok], none))
    (h1 : search e1 d = .ok r) : Admissible strX ∧ ¬ PipeLaw e1 strX d :=
  ⟨strX_admissible, pipe_fails_of_strFree hw hl1
    (by simp only [landing, show rlevel (.letIn bs body) < lvlPipe by simp only [rlevel]; decide, if_true,
      RCtx.strFree]) h1⟩

/-- the same for a sign, `-…let…` … -/
theorem pipe_fails_neg {e1 : Bytes} {tok : Token} {T : PTree} {d r : Val}
    (hw : WellPrec (.neg tok T)) (hl1 : lexAll e1 = (Grammar.flatten (.neg tok T) ++ [endTok], none))
    (hns : ¬ PipeSafe (.neg tok T)) (h1 : search e1 d = .ok r) : ¬ PipeLaw e1 strX d :=
  pipe_fails_of_strFree hw hl1 (strFree_neg hns) h1

/-- … `+…let…` … -/
theorem pipe_fails_pos {e1 : Bytes} {T : PTree} {d r : Val}
    (hw : WellPrec (.pos T)) (hl1 : lexAll e1 = (Grammar.flatten (.pos T) ++ [endTok], none))
    (hns : ¬ PipeSafe (.pos T)) (h1 : search e1 d = .ok r) : ¬ PipeLaw e1 strX d :=
  pipe_fails_of_strFree hw hl1 (strFree_pos hns) h1

/-- … and for a comparison or arithmetic operator, `l op …let…` -/
theorem pipe_fails_arith_cmp {e1 : Bytes} {op : Token} {l r' : PTree} {d r : Val}
    (hw : WellPrec (.bin op l r')) (hl1 : lexAll e1 = (Grammar.flatten (.bin op l r') ++ [endTok], none))
    (ho : isArithCmp op.type = true)
    (hns : ¬ PipeSafe (.bin op l r')) (h1 : search e1 d = .ok r) : ¬ PipeLaw e1 strX d :=
  pipe_fails_of_strFree hw hl1 (strFree_bin ho hns) h1


/-- **`l && …let…` followed by `|`**: on every document on which `l` is false-like, `e1|e2` is the value of `l`
    whatever `e2` is, so the law fails for `e2 = 'x'`.  (On documents on which `l` is true-like the law may well hold:
    `and_true_let_law`.) -/
theorem pipe_fails_and {e1 : Bytes} {op : Token} {l r : PTree} {d v : Val}
    (hw : WellPrec (.bin op l r)) (hl1 : lexAll e1 = (Grammar.flatten (.bin op l r) ++ [endTok], none))
    (ho : op.type = .and) (hns : ¬ PipeSafe (.bin op l r))
    (hv : evaluate (erase l) d = .ok v) (hf : isTrue v = false) :
    search (e1 ++ [0x7C] ++ strX) d = .ok v ∧ search e1 d = .ok v ∧ ¬ PipeLaw e1 strX d := by
  have hr := rlevel_of_unsafe_bin (lvl := lvlAnd) (by rw [ho]; rfl) hns
  have hA : search (e1 ++ [0x7C] ++ strX) d = .ok v := by
    rw [search_pipe_landing hw hl1 strX_compile d]
    simp only [landing, hr, if_true, RCtx.node, ho, binNode, evaluate, ieval] at hv ⊢
    rw [hv]; simp [hf, pure]
  have hB : search e1 d = .ok v := by
    rw [search_of_tree hw hl1]
    simp only [erase, ho, binNode, evaluate, ieval] at hv ⊢
    rw [hv]; simp [hf, pure]
  refine ⟨hA, hB, ?_⟩
  unfold PipeLaw
  rw [hA, hB]
  show _ ≠ search strX v
  rw [strX_search]
  intro h; cases h; cases hf

/-- **`l || …let…` followed by `|`**: on every document on which `l` is true-like, `e1|e2` is the value of `l`, so the
    law fails for `e2 = ''` (the empty string, which is false-like) -/
theorem pipe_fails_or {e1 : Bytes} {op : Token} {l r : PTree} {d v : Val}
    (hw : WellPrec (.bin op l r)) (hl1 : lexAll e1 = (Grammar.flatten (.bin op l r) ++ [endTok], none))
    (ho : op.type = .or) (hns : ¬ PipeSafe (.bin op l r))
    (hv : evaluate (erase l) d = .ok v) (hf : isTrue v = true) :
    search (e1 ++ [0x7C] ++ strE) d = .ok v ∧ search e1 d = .ok v ∧ ¬ PipeLaw e1 strE d := by
  have hr := rlevel_of_unsafe_bin (lvl := lvlOr) (by rw [ho]; rfl) hns
  have hA : search (e1 ++ [0x7C] ++ strE) d = .ok v := by
    rw [search_pipe_landing hw hl1 strE_compile d]
    simp only [landing, hr, if_true, RCtx.node, ho, binNode, evaluate, ieval] at hv ⊢
    rw [hv]; simp [hf, pure]
  have hB : search e1 d = .ok v := by
    rw [search_of_tree hw hl1]
    simp only [erase, ho, binNode, evaluate, ieval] at hv ⊢
    rw [hv]; simp [hf, pure]
  refine ⟨hA, hB, ?_⟩
  unfold PipeLaw
  rw [hA, hB]
  show _ ≠ search strE v
  rw [strE_search]
  intro h; cases h; cases hf


/-- **sufficiency, restated**: for a `PipeSafe` well-formed tree of `e1` the law holds for every admissible `e2` on every
    document, failure of `e1` included -/
theorem pipe_law_of_safe {e1 : Bytes} {T1 : PTree}
    (hw : WellPrec T1) (hl1 : lexAll e1 = (Grammar.flatten T1 ++ [endTok], none)) (hs : PipeSafe T1) :
    ∀ e2, Admissible e2 → ∀ d, PipeLaw e1 e2 d := by
  rintro e2 ⟨n2, h2, hroot, hcl⟩ d
  exact search_pipe_bind hw hl1 hs h2 hroot hcl d

/-- reading the frames from the outside in, through `let` bodies and right operands of `|`, the first other frame is
    `l && □` or `l || □` -/
def RCtx.andOrFirst : RCtx → Bool
  | .hole => false
  | .letIn _ c => c.andOrFirst
  | .not _ => false
  | .neg _ _ => false
  | .pos _ => false
  | .binR op _ c => if op.type = .pipe then c.andOrFirst else (op.type == .and || op.type == .or)

/-- a binary operator other than `|` is a comparison / arithmetic operator, or `&&` / `||` -/
theorem binop_kinds {ty : TokenType} {lvl : Nat} (h : binLevel ty = some lvl) (hp : ty ≠ .pipe) :
    isArithCmp ty = true ∨ (ty == .and || ty == .or) = true := by
  cases ty <;> simp [binLevel] at h <;> first | (exact absurd rfl hp) | (left; decide) | (right; decide)

/-- a context with an operator frame, filled to a well-formed tree: its first operator frame is of one of the two kinds -/
theorem strFree_or_andOr (c : RCtx) {t : PTree} (hw : wp false (c.fill t) = true) (ho : c.opFree = false) :
    c.strFree = true ∨ c.andOrFirst = true := by
  induction c with
  | hole => cases ho
  | letIn bs c ih =>
    simp only [RCtx.fill, wp, Bool.and_eq_true] at hw
    exact ih hw.2 ho
  | not c _ => exact Or.inl rfl
  | neg tok c _ => exact Or.inl rfl
  | pos c _ => exact Or.inl rfl
  | binR op l c ih =>
    simp only [RCtx.fill, wp] at hw
    split at hw
    · cases hw
    · rename_i lvl hl
      simp only [Bool.and_eq_true] at hw
      simp only [RCtx.strFree, RCtx.andOrFirst]
      by_cases hp : op.type = .pipe
      · simp only [hp, if_true]
        simp only [RCtx.opFree, hp, beq_self_eq_true, Bool.true_and] at ho
        exact ih hw.1.2 ho
      · simp only [hp, if_false]
        exact binop_kinds hl hp

/-- **what "not `PipeSafe`" means for a well-formed tree**: on the way to the place where a following `|` lands there
    is a first operator frame (through `let` bodies and right operands of `|`), and it is either `!`, a sign, a
    comparison or an arithmetic operator (`strFree`: the law fails on every document on which `e1` yields a value,
    `pipe_fails_of_strFree`), or `&&` / `||` (the law fails or holds depending on the left operand: `pipe_fails_and`,
    `pipe_fails_or`, `and_true_let_law`). -/
theorem unsafe_dichotomy {T1 : PTree} (hw : WellPrec T1) (h : ¬ PipeSafe T1) :
    (landing T1).1.strFree = true ∨ (landing T1).1.andOrFirst = true := by
  have ho : (landing T1).1.opFree = false := by
    cases hh : (landing T1).1.opFree with
    | false => rfl
    | true => exact absurd ((pipeSafe_iff_opFree hw).2 hh) h
  have hw' : wp false ((landing T1).1.fill (landing T1).2) = true := by rw [← landing_fill]; exact hw
  exact strFree_or_andOr _ hw' ho


/-! ### one separating instance per kind of frame, checked against the parser; the naive converse -/

section ExamplesB
open Grammar.Ex

/-- sign: `-let $x = a in b` -/
def negE : Bytes := bs "-let $x = a in b"
/-- its tree -/
def negT : PTree := .neg (op .subtract "-") letAB
/-- … well formed, and what the lexer produces -/
theorem negT_ok : WellPrec negT ∧ lexAll negE = (Grammar.flatten negT ++ [endTok], none) := by decide

/-- **COUNTEREXAMPLE under a sign** (Go agrees): on `{"a": 1, "b": {"c": 5}}`, `e1 = -let $x = a in b` yields `null`, `c` over
    `null` is `null`, but `e1|c` is `-(let $x = a in (b | c))` and yields `-5` -/
theorem neg_counterexample :
    search negE docN = .ok .null ∧ search (bs "c") .null = .ok .null ∧
    search (negE ++ [0x7C] ++ bs "c") docN = .ok (.num (.dec (.fin true 5 0))) := by
  refine ⟨?_, ?_, ?_⟩
  · exact (search_of_tree negT_ok.1 negT_ok.2 docN).trans rfl
  · rw [c_search]; rfl
  · exact (search_of_tree (T := .neg (op .subtract "-") letABC) (by decide) (by decide) docN).trans rfl


example : ¬ PipeSafe negT := by decide
example : PipeSafe letAB := by decide
example : ¬ PipeLaw negE strX docN := pipe_fails_neg negT_ok.1 negT_ok.2 (by decide) neg_counterexample.1

/-- `+let $x = a in b` -/
def posE : Bytes := bs "+let $x = a in b"
/-- its tree -/
def posT : PTree := .pos letAB
/-- … well formed, and what the lexer produces -/
theorem posT_ok : WellPrec posT ∧ lexAll posE = (Grammar.flatten posT ++ [endTok], none) := by decide
/-- **COUNTEREXAMPLE under `+`** (Go agrees): `e1 = +let $x = a in b` yields `null`, `c` over it `null`; `e1|c` yields `5` -/
theorem pos_counterexample :
    search posE docN = .ok .null ∧ search (bs "c") .null = .ok .null ∧
    search (posE ++ [0x7C] ++ bs "c") docN = .ok (num "5") := by
  refine ⟨?_, ?_, ?_⟩
  · exact (search_of_tree posT_ok.1 posT_ok.2 docN).trans rfl
  · rw [c_search]; rfl
  · exact (search_of_tree (T := .pos letABC) (by decide) (by decide) docN).trans rfl
example : ¬ PipeLaw (bs "!let $x = a in b") strX docN :=
  (pipe_fails_not_let (bs := [(xVar, idt "a")]) (body := idt "b") (r := .bool false) (by decide) (by decide)
    ((search_of_tree (T := .not letAB) (by decide) (by decide) docN).trans rfl)).2
/-- `C18B`'s `!let $x = a in b` on `{"a": 1, "b": {"c": false}}` -/
example : ¬ PipeLaw notLetE strX doc2 :=
  pipe_fails_not notLetT_unsafe.1 notLetT_unsafe.2.1 notLetT_unsafe.2.2 pipe_not_compositional.1
example : ¬ PipeLaw posE strX docN := pipe_fails_pos posT_ok.1 posT_ok.2 (by decide) pos_counterexample.1

/-- comparison: `a==let $x = a in b` on `{"a": 5, "b": {"c": 5}}` -/
def eqE : Bytes := bs "a==let $x = a in b"
/-- its tree -/
def eqT : PTree := .bin (op .equal "==") (idt "a") letAB
/-- `{"a": 5, "b": {"c": 5}}` -/
def docE : Val := .obj [(bs "a", num "5"), (bs "b", .obj [(bs "c", num "5")])]
/-- … well formed, and what the lexer produces -/
theorem eqT_ok : WellPrec eqT ∧ lexAll eqE = (Grammar.flatten eqT ++ [endTok], none) := by decide
/-- **COUNTEREXAMPLE under a comparison** (Go agrees): `e1 = a==let $x = a in b` yields `false`, `c` over it `null`;
    `e1|c` is `a == (let $x = a in (b | c))` and yields `true` -/
theorem eq_counterexample :
    search eqE docE = .ok (.bool false) ∧ search (bs "c") (.bool false) = .ok .null ∧
    search (eqE ++ [0x7C] ++ bs "c") docE = .ok (.bool true) := by
  refine ⟨?_, ?_, ?_⟩
  · exact (search_of_tree eqT_ok.1 eqT_ok.2 docE).trans rfl
  · rw [c_search]; rfl
  · exact (search_of_tree (T := .bin (op .equal "==") (idt "a") letABC) (by decide) (by decide) docE).trans rfl
example : ¬ PipeLaw eqE strX docE :=
  pipe_fails_arith_cmp eqT_ok.1 eqT_ok.2 (by decide) (by decide) eq_counterexample.1

/-- arithmetic: `a+let $x = a in b`: here `e1` FAILS (number + object) and `e1|c` succeeds -/
def addE : Bytes := bs "a+let $x = a in b"
/-- its tree -/
def addT : PTree := .bin (op .add "+") (idt "a") letAB
/-- … well formed, and what the lexer produces -/
theorem addT_ok : WellPrec addT ∧ lexAll addE = (Grammar.flatten addT ++ [endTok], none) := by decide
/-- **COUNTEREXAMPLE under an arithmetic operator, with a FAILING `e1`** (Go agrees): on `{"a": 1, "b": {"c": 5}}`,
    `e1 = a+let $x = a in b` is an invalid-type error (number + object), yet `e1|c` is `a + (let $x = a in (b | c))`
    and yields `6`: not even error propagation survives outside `PipeSafe` -/
theorem add_counterexample :
    search addE docN = .err [Cat.invalidType] ∧
    search (addE ++ [0x7C] ++ bs "c") docN = .ok (.num (.dec (.fin false 6 0))) ∧
    ¬ PipeLaw addE (bs "c") docN := by
  have h1 : search addE docN = .err [Cat.invalidType] := (search_of_tree addT_ok.1 addT_ok.2 docN).trans rfl
  have h2 : search (addE ++ [0x7C] ++ bs "c") docN = .ok (.num (.dec (.fin false 6 0))) :=
    (search_of_tree (T := .bin (op .add "+") (idt "a") letABC) (by decide) (by decide) docN).trans rfl
  refine ⟨h1, h2, ?_⟩
  unfold PipeLaw; rw [h1, h2]; intro h; cases h
/-- `{"a": 1, "b": 2}`: `e1` succeeds, the uniform theorem applies -/
def docS : Val := .obj [(bs "a", num "1"), (bs "b", num "2")]
example : ¬ PipeLaw addE strX docS :=
  pipe_fails_arith_cmp (r := .num (.dec (.fin false 3 0))) addT_ok.1 addT_ok.2 (by decide) (by decide)
    ((search_of_tree addT_ok.1 addT_ok.2 docS).trans rfl)

/-- `a&&let $x = a in b` on `{"a": false, "b": {"c": 5}}` -/
def andE : Bytes := bs "a&&let $x = a in b"
/-- its tree -/
def andT : PTree := .bin (op .and "&&") (idt "a") letAB
/-- `{"a": false, "b": {"c": 5}}` -/
def docF : Val := .obj [(bs "a", .bool false), (bs "b", .obj [(bs "c", num "5")])]
/-- … well formed, and what the lexer produces -/
theorem andT_ok : WellPrec andT ∧ lexAll andE = (Grammar.flatten andT ++ [endTok], none) := by decide
/-- **COUNTEREXAMPLE under `&&`** (Go agrees): on `{"a": false, …}`, `e1 = a&&let $x = a in b` yields `false`, `c` over
    it `null`; `e1|c` yields `false` -/
theorem and_counterexample :
    search andE docF = .ok (.bool false) ∧ search (bs "c") (.bool false) = .ok .null ∧
    search (andE ++ [0x7C] ++ bs "c") docF = .ok (.bool false) := by
  refine ⟨?_, ?_, ?_⟩
  · exact (search_of_tree andT_ok.1 andT_ok.2 docF).trans rfl
  · rw [c_search]; rfl
  · exact (search_of_tree (T := .bin (op .and "&&") (idt "a") letABC) (by decide) (by decide) docF).trans rfl
example : ¬ PipeLaw andE strX docF :=
  (pipe_fails_and (v := .bool false) andT_ok.1 andT_ok.2 rfl (by decide) rfl rfl).2.2

/-- `a||let $x = a in b` on `{"a": 1, "b": {"c": 5}}` -/
def orE : Bytes := bs "a||let $x = a in b"
/-- its tree -/
def orT : PTree := .bin (op .or "||") (idt "a") letAB
/-- … well formed, and what the lexer produces -/
theorem orT_ok : WellPrec orT ∧ lexAll orE = (Grammar.flatten orT ++ [endTok], none) := by decide
/-- **COUNTEREXAMPLE under `||`** (Go agrees): on `{"a": 1, …}`, `e1 = a||let $x = a in b` yields `1`, `c` over it
    `null`; `e1|c` yields `1` -/
theorem or_counterexample :
    search orE docN = .ok (num "1") ∧ search (bs "c") (num "1") = .ok .null ∧
    search (orE ++ [0x7C] ++ bs "c") docN = .ok (num "1") := by
  refine ⟨?_, ?_, ?_⟩
  · exact (search_of_tree orT_ok.1 orT_ok.2 docN).trans rfl
  · rw [c_search]; rfl
  · exact (search_of_tree (T := .bin (op .or "||") (idt "a") letABC) (by decide) (by decide) docN).trans rfl
example : ¬ PipeLaw orE strE docN :=
  (pipe_fails_or (v := num "1") orT_ok.1 orT_ok.2 rfl (by decide) rfl rfl).2.2


/-- `'y'&&let $x = a in b`: the left operand of `&&` is a true-like constant -/
def andYE : Bytes := bs "'y'&&let $x = a in b"
/-- its tree -/
def andYT : PTree := .bin (op .and "&&") (.atom ⟨.stringLiteral, bs "'y'"⟩) letAB
/-- … well formed, and what the lexer produces -/
theorem andYT_ok : WellPrec andYT ∧ lexAll andYE = (Grammar.flatten andYT ++ [endTok], none) := by decide

/-- **COUNTEREXAMPLE to the naive converse** ("not `PipeSafe` ⇒ the law fails for some `e2`, `d`"):
    `e1 = 'y'&&let $x = a in b` is well formed and not `PipeSafe` — `e1|e2` is `'y' && let $x = a in (b | e2)` — and
    yet the pipe law holds for EVERY admissible `e2` on EVERY document, because `'y' && X` is `X`. -/
theorem and_true_let_law :
    WellPrec andYT ∧ lexAll andYE = (Grammar.flatten andYT ++ [endTok], none) ∧ ¬ PipeSafe andYT ∧
    ∀ e2, Admissible e2 → ∀ d, PipeLaw andYE e2 d := by
  refine ⟨andYT_ok.1, andYT_ok.2, by decide, ?_⟩
  rintro e2 ⟨n2, h2, hroot, hcl⟩ d
  unfold PipeLaw
  rw [search_pipe_landing andYT_ok.1 andYT_ok.2 h2 d, search_of_tree andYT_ok.1 andYT_ok.2 d]
  have hs : (fun r => search e2 r) = fun r => evaluate n2 r := by
    funext r; unfold search; rw [show Parser.parse e2 = _ from h2]
  rw [hs]
  show ieval d n2 (field (bs "b") d) ([(bs "$x", field (bs "a") d)] ++ []) = ieval (field (bs "b") d) n2 (field (bs "b") d) []
  rw [ieval_closed hcl d _ _ [], C18.ieval_root_free hroot d (field (bs "b") d)]



example : ∀ e2, Admissible e2 → ∀ d, PipeLaw (bs "let $x = a in b") e2 d :=
  pipe_law_of_safe (T1 := letAB) (by decide) (by decide) (by decide)
example : (landing negT).1.strFree = true ∨ (landing negT).1.andOrFirst = true := unsafe_dichotomy negT_ok.1 (by decide)
example : (landing andT).1.andOrFirst = true := rfl
example : (landing eqT).1.strFree = true := strFree_bin (by decide) (by decide)
example : (landing (.not letAB)).1.strFree = true := strFree_not (by decide)
example : rlevel letAB < lvlPipe := rlevel_of_unsafe_bin (op := op .add "+") (l := idt "a") (lvl := lvlAdd) rfl (by decide)
example : isArithCmp .equal = true ∧ isArithCmp .add = true ∧ isArithCmp .and = false ∧ isArithCmp .pipe = false := by
  decide
example : isArithCmp .less = true ∨ (TokenType.less == .and || TokenType.less == .or) = true :=
  binop_kinds (lvl := lvlCmp) rfl (by decide)
/-- `!let $x = a in b` followed by `|c`: the node the parser builds, and the value through the landing context -/
example : Parser.parse (bs "!let $x = a in b" ++ [0x7C] ++ bs "c") =
    .ok (.not (.defineVariables [(bs "$x", .field (bs "a"))] (.pipe (.field (bs "b")) (.field (bs "c"))))) :=
  parse_pipe_landing_node (T1 := .not letAB) (T2 := idt "c") (by decide) (by decide) (by decide) (by decide)
    (by rintro ⟨_, _, _, h, _⟩; cases h)
example : Parser.parse (bs "!let $x = a in b" ++ [0x7C] ++ bs "c") =
    .ok (erase (.not (.letIn [(xVar, idt "a")] (.bin pipeTok (idt "b") (idt "c"))))) :=
  parse_pipe_landing (T1 := .not letAB) (T2 := idt "c") (by decide) (by decide) (by decide) (by decide)
example : erase (.not letABC) = erase (.not (.letIn [(xVar, idt "a")] (.bin pipeTok (idt "b") (idt "c")))) :=
  pipe_tree_unique (T1 := .not letAB) (T2 := idt "c") (by decide) (by decide) (by decide) (by decide)
example : search (negE ++ [0x7C] ++ bs "c") docN =
    evaluate (.negate (.defineVariables [(bs "$x", .field (bs "a"))] (.pipe (.field (bs "b")) (.field (bs "c"))))) docN :=
  search_pipe_landing negT_ok.1 negT_ok.2 c_compile docN
example : search (negE ++ [0x20, 0x7C, 0x20] ++ bs "c") docN = .ok (.num (.dec (.fin true 5 0))) :=
  (search_pipe_spaced_landing negT_ok.1 negT_ok.2 c_compile docN).trans rfl
example : search negE docN = evaluate (.negate (.defineVariables [(bs "$x", .field (bs "a"))] (.field (bs "b")))) docN :=
  search_landing negT_ok.1 negT_ok.2 docN
example : NotStr (ieval .null ((RCtx.not .hole).node .current) (.str [0x78]) []) := node_notStr _ rfl _ _ _ _
example : NotStr (applyBinOp .add (.str [0x78]) (.str [0x78])) := applyBinOp_notStr _ _ _
example : ¬ NotStr (Res.ok (.str [0x78])) := fun h => h _ rfl
example : Admissible strX ∧ Admissible strE ∧ Admissible (bs "c") := ⟨strX_admissible, strE_admissible, c_admissible⟩
example : ¬ Admissible (bs "$x") := by
  rintro ⟨n, h, _, hc⟩
  have hp : Parser.parse (bs "$x") = .ok (.variable (bs "$x")) :=
    C04G.parse_complete (t := .atom ⟨.variable, bs "$x"⟩) (by decide) (by decide)
  rw [show compile (bs "$x") = Parser.parse (bs "$x") from rfl, hp] at h
  cases h; revert hc; decide
example : search strX .null = .ok (.str [0x78]) ∧ search strE .null = .ok (.str []) := ⟨strX_search _, strE_search _⟩

end ExamplesB

end Jmes.C18CP
