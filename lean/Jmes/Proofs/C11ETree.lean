/-
  C11 (fourth wave), part 2a: `RenOK` decided on the parse tree.

  `RenOK φ (erase t)` — the side condition of the renaming theorems on the compiled expression — follows from two
  syntactic checks on the parse tree `t`:

  * `renOK? t` (independent of the renaming): no call of `lower`, `upper`, `to_number`, `to_string`, `type`; `trim`,
    `trim_left`, `trim_right` are called with two arguments, the second being a non-empty string literal (raw or JSON);
    `pad_left`, `pad_right` with three arguments; the tokens of every slice are 64-bit integers and the step is not 0
    (`Grammar.sliceOK`, part of `WellPrec`);
  * `atomsOver φ t`: every atom token (identifier, raw string, JSON literal) denotes a node whose strings can be renamed
    by `φ`, and so does every multi-select key.
-/
import Jmes.Proofs.C11EDom
import Jmes.Proofs.C11CTextLemmas
import Jmes.Proofs.Repr
set_option linter.unusedSectionVars false
set_option linter.unusedSimpArgs false
namespace Jmes.C11E.Tree
open Jmes Jmes.Utf8 Jmes.C11 Jmes.C11S Jmes.C11R Jmes.C11V Jmes.Invar Jmes.C11C Jmes.Grammar Jmes.C11E.Dom

/-! ## the syntactic checks -/

/-- the token is a string literal (raw `'…'` or JSON `` `"…"` ``) denoting a non-empty string -/
def litStrTok (tok : Token) : Bool :=
  match atomNode tok with
  | some (.lit (.str p)) => !p.isEmpty
  | _ => false

/-- `lower`, `upper`, `to_number`, `to_string`, `type` -/
def excludedNames : List Bytes :=
  [[0x6C, 0x6F, 0x77, 0x65, 0x72], [0x75, 0x70, 0x70, 0x65, 0x72],
   [0x74, 0x6F, 0x5F, 0x6E, 0x75, 0x6D, 0x62, 0x65, 0x72], [0x74, 0x6F, 0x5F, 0x73, 0x74, 0x72, 0x69, 0x6E, 0x67],
   [0x74, 0x79, 0x70, 0x65]]
/-- `trim`, `trim_left`, `trim_right` -/
def trimNames : List Bytes :=
  [[0x74, 0x72, 0x69, 0x6D], [0x74, 0x72, 0x69, 0x6D, 0x5F, 0x6C, 0x65, 0x66, 0x74],
   [0x74, 0x72, 0x69, 0x6D, 0x5F, 0x72, 0x69, 0x67, 0x68, 0x74]]
/-- `pad_left`, `pad_right` -/
def padNames : List Bytes :=
  [[0x70, 0x61, 0x64, 0x5F, 0x6C, 0x65, 0x66, 0x74], [0x70, 0x61, 0x64, 0x5F, 0x72, 0x69, 0x67, 0x68, 0x74]]

/-- two arguments, the second a non-empty string literal -/
def trimArgsOK : List PTree → Bool
  | [_, .atom tok] => litStrTok tok
  | _ => false

/-- the check on one call `name(args)` -/
def callOK (name : Token) (args : List PTree) : Bool :=
  if excludedNames.contains name.value then false
  else if trimNames.contains name.value then trimArgsOK args
  else if padNames.contains name.value then args.length == 3
  else true

mutual
/-- `treeAll pa pk pc ps t`: every atom token of `t` satisfies `pa`, every multi-select key token `pk`, every call
    `pc name args`, every slice `ps a b c` -/
def treeAll (pa pk : Token → Bool) (pc : Token → List PTree → Bool)
    (ps : Option Token → Option Token → Option (Option Token) → Bool) : PTree → Bool
  | .icur => true
  | .atom t => pa t
  | .paren t => treeAll pa pk pc ps t
  | .not t => treeAll pa pk pc ps t
  | .neg _ t => treeAll pa pk pc ps t
  | .pos t => treeAll pa pk pc ps t
  | .bin _ l r => treeAll pa pk pc ps l && treeAll pa pk pc ps r
  | .dotId l r => treeAll pa pk pc ps l && treeAll pa pk pc ps r
  | .dotList l es => treeAll pa pk pc ps l && treeAllL pa pk pc ps es
  | .dotHash l kvs => treeAll pa pk pc ps l && treeAllK pa pk pc ps true kvs
  | .dotStarList l => treeAll pa pk pc ps l
  | .index l _ => treeAll pa pk pc ps l
  | .call name args => pc name args && treeAllL pa pk pc ps args
  | .ref t => treeAll pa pk pc ps t
  | .letIn bs body => treeAllK pa pk pc ps false bs && treeAll pa pk pc ps body
  | .multiList es => treeAllL pa pk pc ps es
  | .multiHash kvs => treeAllK pa pk pc ps true kvs
  | .star l rhs => treeAll pa pk pc ps l && treeAll pa pk pc ps rhs
  | .ostar l rhs => treeAll pa pk pc ps l && treeAll pa pk pc ps rhs
  | .flat l rhs => treeAll pa pk pc ps l && treeAll pa pk pc ps rhs
  | .filt l c rhs => treeAll pa pk pc ps l && treeAll pa pk pc ps c && treeAll pa pk pc ps rhs
  | .slice l a b c rhs => ps a b c && treeAll pa pk pc ps l && treeAll pa pk pc ps rhs
def treeAllL (pa pk : Token → Bool) (pc : Token → List PTree → Bool)
    (ps : Option Token → Option Token → Option (Option Token) → Bool) : List PTree → Bool
  | [] => true
  | e :: es => treeAll pa pk pc ps e && treeAllL pa pk pc ps es
def treeAllK (pa pk : Token → Bool) (pc : Token → List PTree → Bool)
    (ps : Option Token → Option Token → Option (Option Token) → Bool) (keys : Bool) : List (Token × PTree) → Bool
  | [] => true
  | (k, e) :: rest => (!keys || pk k) && treeAll pa pk pc ps e && treeAllK pa pk pc ps keys rest
end

/-- **the decision procedure** (independent of the renaming): builtin calls and slice tokens -/
def renOK? (t : PTree) : Bool := treeAll (fun _ => true) (fun _ => true) callOK sliceOK t

/-- the node of an atom token can be renamed by `φ` (identifier: the name; literal: every string in the value) -/
def atomRn (φ : Nat → Nat) (t : Token) : Bool :=
  match atomNode t with
  | some n => renHead φ n
  | none => true

/-- the key of a multi-select hash member can be renamed by `φ` -/
def keyRn (φ : Nat → Nat) (k : Token) : Bool := rnB φ (keyOf k)

/-- every atom and multi-select key of the tree can be renamed by `φ` -/
def atomsOver (φ : Nat → Nat) (t : PTree) : Bool :=
  treeAll (atomRn φ) (keyRn φ) (fun _ _ => true) (fun _ _ _ => true) t

/-! ## `INode.all (renHead φ)` through the node formers -/

section Formers
variable {φ : Nat → Nat}

/-- abbreviation: every node of `n` satisfies `renHead φ` -/
abbrev A (φ : Nat → Nat) (n : INode) : Prop := n.all (renHead φ) = true

theorem A_current : A φ .current := rfl

theorem A_opt {l : PTree} {n : INode} (h : A φ n) : ∀ c, optNode l n = some c → A φ c := by
  intro c hc
  unfold optNode at hc
  split at hc
  · cases hc
  · cases hc; exact h

theorem A_sub {o : Option INode} {r : INode} (ho : ∀ c, o = some c → A φ c) (hr : A φ r) : A φ (subNode o r) := by
  cases o with
  | none => exact hr
  | some c =>
    simp only [subNode, A, INode.all, Bool.and_eq_true]
    exact ⟨⟨rfl, ho c rfl⟩, hr⟩

theorem A_list {o : Option INode} {fs : List INode} (ho : ∀ c, o = some c → A φ c)
    (hf : INode.allL (renHead φ) fs = true) : A φ (listNode o fs) := by
  cases o with
  | none =>
    rcases fs with _ | ⟨a, _ | ⟨b, r⟩⟩
    · exact rfl
    · simp only [INode.allL, Bool.and_eq_true] at hf
      simp only [listNode, A, INode.all, Bool.and_eq_true]; exact ⟨rfl, hf.1⟩
    · simp only [listNode, A, INode.all, Bool.and_eq_true]; exact ⟨rfl, hf⟩
  | some c =>
    rcases fs with _ | ⟨a, _ | ⟨b, r⟩⟩
    · simp only [listNode, A, INode.all, Bool.and_eq_true]; exact ⟨⟨rfl, ho c rfl⟩, rfl⟩
    · simp only [INode.allL, Bool.and_eq_true] at hf
      simp only [listNode, A, INode.all, Bool.and_eq_true]; exact ⟨⟨rfl, ho c rfl⟩, hf.1⟩
    · simp only [listNode, A, INode.all, Bool.and_eq_true]; exact ⟨⟨rfl, ho c rfl⟩, hf⟩

/-- keys renamable and member expressions fine -/
def MemOK (φ : Nat → Nat) (keys : Bool) (ps : List (Bytes × INode)) : Prop :=
  (keys = true → ∀ kn ∈ ps, rnB φ kn.1 = true) ∧ INode.allF (renHead φ) ps = true

theorem allF_iff {p : INode → Bool} : ∀ {ps : List (Bytes × INode)},
    INode.allF p ps = true ↔ ∀ kn ∈ ps, kn.2.all p = true
  | [] => by simp [INode.allF]
  | (k, n) :: ps => by simp [INode.allF, allF_iff (ps := ps)]

theorem memOK_insert {keys : Bool} {k : Bytes} {n : INode} (hk : keys = true → rnB φ k = true) (hn : A φ n) :
    ∀ {acc : List (Bytes × INode)}, MemOK φ keys acc → MemOK φ keys (Parser.assocInsert k n acc)
  | [], _ => by
    refine ⟨fun e kn hkn => ?_, allF_iff.mpr fun kn hkn => ?_⟩ <;>
      (simp only [Parser.assocInsert, List.mem_singleton] at hkn; subst hkn)
    · exact hk e
    · exact hn
  | (k', n') :: rest, h => by
    have h2 := allF_iff.mp h.2
    have hrest : MemOK φ keys rest :=
      ⟨fun e kn hkn => h.1 e kn (List.mem_cons_of_mem _ hkn), allF_iff.mpr fun kn hkn => h2 kn (List.mem_cons_of_mem _ hkn)⟩
    have ih := memOK_insert hk hn hrest
    simp only [Parser.assocInsert]
    split
    · refine ⟨fun e kn hkn => ?_, allF_iff.mpr fun kn hkn => ?_⟩ <;> rcases List.mem_cons.1 hkn with rfl | hkn
      · exact hk e
      · exact h.1 e kn (List.mem_cons_of_mem _ hkn)
      · exact hn
      · exact h2 kn (List.mem_cons_of_mem _ hkn)
    · split
      · refine ⟨fun e kn hkn => ?_, allF_iff.mpr fun kn hkn => ?_⟩ <;> rcases List.mem_cons.1 hkn with rfl | hkn
        · exact hk e
        · exact h.1 e kn hkn
        · exact hn
        · exact h2 kn hkn
      · refine ⟨fun e kn hkn => ?_, allF_iff.mpr fun kn hkn => ?_⟩ <;> rcases List.mem_cons.1 hkn with rfl | hkn
        · exact h.1 e _ List.mem_cons_self
        · exact ih.1 e kn hkn
        · exact h2 _ List.mem_cons_self
        · exact allF_iff.mp ih.2 kn hkn

theorem memOK_fold {keys : Bool} : ∀ (ps : List (Bytes × INode)) {acc : List (Bytes × INode)},
    MemOK φ keys ps → MemOK φ keys acc →
    MemOK φ keys (ps.foldl (fun acc p => Parser.assocInsert p.1 p.2 acc) acc)
  | [], _, _, ha => ha
  | (k, n) :: rest, acc, hp, ha => by
    have h2 := allF_iff.mp hp.2
    simp only [List.foldl_cons]
    exact memOK_fold rest
      ⟨fun e kn hkn => hp.1 e kn (List.mem_cons_of_mem _ hkn), allF_iff.mpr fun kn hkn => h2 kn (List.mem_cons_of_mem _ hkn)⟩
      (memOK_insert (fun e => hp.1 e _ List.mem_cons_self) (h2 _ List.mem_cons_self) ha)

theorem memOK_assocOf {keys : Bool} {ps : List (Bytes × INode)} (h : MemOK φ keys ps) : MemOK φ keys (assocOf ps) :=
  memOK_fold ps h ⟨fun _ _ hkn => (by cases hkn), rfl⟩

theorem A_hash {o : Option INode} {ps : List (Bytes × INode)} (ho : ∀ c, o = some c → A φ c)
    (hp : MemOK φ true ps) : A φ (hashNode o ps) := by
  have hk := hp.1 rfl
  have h2 := allF_iff.mp hp.2
  have ha := memOK_assocOf hp
  have hak : (assocOf ps).all (fun kn => rnB φ kn.1) = true := List.all_eq_true.mpr (ha.1 rfl)
  cases o with
  | none =>
    rcases ps with _ | ⟨⟨k, a⟩, _ | ⟨b, r⟩⟩
    · simp only [hashNode, A, INode.all, Bool.and_eq_true]; exact ⟨hak, ha.2⟩
    · simp only [hashNode, A, INode.all, Bool.and_eq_true]
      exact ⟨hk _ List.mem_cons_self, h2 _ List.mem_cons_self⟩
    · simp only [hashNode, A, INode.all, Bool.and_eq_true]; exact ⟨hak, ha.2⟩
  | some c =>
    rcases ps with _ | ⟨⟨k, a⟩, _ | ⟨b, r⟩⟩
    · simp only [hashNode, A, INode.all, Bool.and_eq_true]; exact ⟨⟨hak, ho c rfl⟩, ha.2⟩
    · simp only [hashNode, A, INode.all, Bool.and_eq_true]
      exact ⟨⟨hk _ List.mem_cons_self, ho c rfl⟩, h2 _ List.mem_cons_self⟩
    · simp only [hashNode, A, INode.all, Bool.and_eq_true]; exact ⟨⟨hak, ho c rfl⟩, ha.2⟩

theorem A_index {o : Option INode} (ho : ∀ c, o = some c → A φ c) (i : Int) : A φ (indexNode o i) := by
  cases o with
  | none => simp only [indexNode]; split <;> rfl
  | some c => simp only [indexNode, A, INode.all, Bool.and_eq_true]; exact ⟨rfl, ho c rfl⟩

theorem A_slice {o : Option INode} (ho : ∀ c, o = some c → A φ c) (a b c : Option Int)
    (hc : ∀ s, c = some s → s ≠ 0 ∧ -2 ^ 63 ≤ s) : A φ (sliceNode o a b c) := by
  unfold sliceNode
  simp only
  have hs : c.getD 1 ≠ 0 ∧ -2 ^ 63 ≤ c.getD 1 := by
    cases c with
    | none => exact ⟨by decide, by decide⟩
    | some s => exact hc s rfl
  split
  · cases o with
    | none => rfl
    | some l => simp only [A, INode.all, Bool.and_eq_true]; exact ⟨rfl, ho l rfl⟩
  · cases o with
    | none => simp only [A, INode.all, renHead]; exact decide_eq_true hs
    | some l =>
      simp only [A, INode.all, Bool.and_eq_true, renHead]
      exact ⟨decide_eq_true hs, ho l rfl⟩

theorem A_star {o r : Option INode} (ho : ∀ c, o = some c → A φ c) (hr : ∀ c, r = some c → A φ c) :
    A φ (starNode o r) := by
  cases o <;> cases r <;> simp only [starNode, A, INode.all, Bool.and_eq_true] <;>
    first | rfl | exact ⟨rfl, hr _ rfl⟩ | exact ⟨rfl, ho _ rfl⟩ | exact ⟨⟨rfl, ho _ rfl⟩, hr _ rfl⟩
theorem A_ostar {o r : Option INode} (ho : ∀ c, o = some c → A φ c) (hr : ∀ c, r = some c → A φ c) :
    A φ (ostarNode o r) := by
  cases o <;> cases r <;> simp only [ostarNode, A, INode.all, Bool.and_eq_true] <;>
    first | rfl | exact ⟨rfl, hr _ rfl⟩ | exact ⟨rfl, ho _ rfl⟩ | exact ⟨⟨rfl, ho _ rfl⟩, hr _ rfl⟩
theorem A_flat {o r : Option INode} (ho : ∀ c, o = some c → A φ c) (hr : ∀ c, r = some c → A φ c) :
    A φ (flatNode o r) := by
  cases o <;> cases r <;> simp only [flatNode, A, INode.all, Bool.and_eq_true] <;>
    first | rfl | exact ⟨rfl, hr _ rfl⟩ | exact ⟨rfl, ho _ rfl⟩ | exact ⟨⟨rfl, ho _ rfl⟩, hr _ rfl⟩
theorem A_filt {o r : Option INode} {f : INode} (ho : ∀ c, o = some c → A φ c) (hf : A φ f)
    (hr : ∀ c, r = some c → A φ c) : A φ (filtNode o f r) := by
  cases o <;> cases r <;> simp only [filtNode, A, INode.all, Bool.and_eq_true] <;>
    first | exact ⟨rfl, hf⟩ | exact ⟨⟨rfl, hf⟩, hr _ rfl⟩ | exact ⟨⟨rfl, ho _ rfl⟩, hf⟩ | exact ⟨⟨⟨rfl, ho _ rfl⟩, hf⟩, hr _ rfl⟩

theorem A_bin (ty : TokenType) {l r : INode} (hl : A φ l) (hr : A φ r) : A φ (binNode ty l r) := by
  cases ty <;> simp only [binNode] <;>
    first | exact hl | (simp only [A, INode.all, Bool.and_eq_true]; exact ⟨⟨rfl, hl⟩, hr⟩)

end Formers

/-! ## builtin calls -/

section Calls
variable {φ : Nat → Nat}

theorem eraseL_length : ∀ es : List PTree, (eraseL es).length = es.length
  | [] => by simp only [eraseL, List.length_nil]
  | e :: es => by simp only [eraseL, List.length_cons, eraseL_length es]

/-- what the check on the `trim` family gives: two arguments, the second a non-empty string literal -/
theorem trim_args {args : List PTree} (hc : trimArgsOK args = true) :
    ∃ x p, eraseL args = [x, .lit (.str p)] ∧ p.isEmpty = false := by
  rcases args with _ | ⟨x, _ | ⟨y, rest⟩⟩
  · cases hc
  · cases hc
  · cases y with
    | atom tok =>
      cases rest with
      | cons z r => cases hc
      | nil =>
        simp only [trimArgsOK, litStrTok] at hc
        split at hc
        · rename_i p hp
          refine ⟨erase x, p, ?_, by simpa using hc⟩
          simp only [eraseL, erase, hp, Option.getD]
        · cases hc
    | _ => cases rest <;> cases hc

theorem A_trimcall {fn : Fn} (hfn : fn = .trim ∨ fn = .trimLeft ∨ fn = .trimRight) {x : INode} {p : Bytes}
    (hp : p.isEmpty = false) (hargs : INode.allL (renHead φ) [x, .lit (.str p)] = true) :
    A φ (.call fn [x, .lit (.str p)]) := by
  simp only [A, INode.all, Bool.and_eq_true]
  refine ⟨?_, hargs⟩
  rcases hfn with rfl | rfl | rfl <;> simp only [renHead, litCut, hp] <;> rfl

/-- one row of the builtin table: a call that passes `callOK` builds a node satisfying `renHead` -/
def EntryOK (φ : Nat → Nat) (e : Bytes × Parser.ArgSpec) : Prop :=
  ∀ (name : Token) (args : List PTree), name.value = e.1 → callOK name args = true →
    INode.allL (renHead φ) (eraseL args) = true → A φ (callNode e.2 (eraseL args))

theorem builtin_entryOK : ∀ e ∈ Parser.builtinTable, EntryOK φ e := by
  simp only [Parser.builtinTable, List.forall_mem_cons]
  repeat' apply And.intro
  all_goals first
    | (intro name args hname hc hargs
       simp only [callNode, Parser.callN, A, INode.all, Bool.and_eq_true]; exact ⟨rfl, hargs⟩)
    | (intro name args hname hc hargs
       simp only [callNode]
       split <;> (simp only [A, INode.all, Bool.and_eq_true]; exact ⟨rfl, hargs⟩))
    | (intro name args hname hc hargs
       simp only [callNode]
       rcases h : eraseL args with _ | ⟨a, _ | ⟨b, _ | ⟨c, r⟩⟩⟩ <;> simp only [] <;>
         first
           | rfl
           | (rw [h] at hargs; simp only [INode.allL, Bool.and_eq_true] at hargs
              simp only [A, INode.all, Bool.and_eq_true]; exact ⟨⟨rfl, hargs.1⟩, hargs.2.1⟩))
    | (intro name args hname hc hargs
       exfalso
       dsimp only at hname
       unfold callOK at hc; rw [hname] at hc
       rw [if_pos (by decide)] at hc; cases hc)
    | (intro name args hname hc hargs
       dsimp only at hname
       unfold callOK at hc; rw [hname] at hc
       rw [if_neg (by decide), if_neg (by decide), if_pos (by decide)] at hc
       have hl : args.length = 3 := by simpa using hc
       simp only [callNode, eraseL_length, hl]
       rw [if_neg (by decide)]
       simp only [A, INode.all, Bool.and_eq_true]; exact ⟨rfl, hargs⟩)
    | (intro name args hname hc hargs
       dsimp only at hname
       have hm : trimArgsOK args = true := by
         unfold callOK at hc; rw [hname] at hc
         rw [if_neg (by decide), if_pos (by decide)] at hc; exact hc
       obtain ⟨x, p, he, hp⟩ := trim_args hm
       rw [he] at hargs ⊢
       simp only [callNode, List.length_cons, List.length_nil]
       exact A_trimcall (by simp) hp hargs)
    | (intro x hx; exact nomatch hx)

theorem A_call {name : Token} {args : List PTree} (hc : callOK name args = true)
    (hargs : INode.allL (renHead φ) (eraseL args) = true) :
    A φ (match Parser.lookupBuiltin name.value with
      | none => .current
      | some spec => callNode spec (eraseL args)) := by
  cases hl : Parser.lookupBuiltin name.value with
  | none => rfl
  | some spec =>
    simp only [Parser.lookupBuiltin, Option.map_eq_some_iff] at hl
    obtain ⟨e, he, rfl⟩ := hl
    have hmem := List.mem_of_find?_eq_some he
    have hname : name.value = e.1 := by
      have := List.find?_some he
      exact (by simpa using this : e.1 = name.value).symm
    exact builtin_entryOK e hmem name args hname hc hargs

end Calls

/-! ## the theorem -/

section Main
variable {φ : Nat → Nat}

/-- the node of an atom token has no children -/
theorem atomNode_leaf {tok : Token} {n : INode} (h : atomNode tok = some n) (p : INode → Bool) : n.all p = p n := by
  unfold atomNode at h
  split at h
  · cases h; rfl
  · simp only [Option.map_eq_some_iff] at h; obtain ⟨k, _, rfl⟩ := h; rfl
  · cases h; rfl
  · simp only [Option.map_eq_some_iff] at h; obtain ⟨k, _, rfl⟩ := h; rfl
  · cases h; rfl
  · cases h; rfl
  · cases h; rfl
  · cases h

theorem A_atom {tok : Token} (h : atomRn φ tok = true) : A φ ((atomNode tok).getD .current) := by
  unfold atomRn at h
  cases hn : atomNode tok with
  | none => rfl
  | some n =>
    rw [hn] at h
    simp only [Option.getD]
    show n.all (renHead φ) = true
    rw [atomNode_leaf hn]; exact h

theorem step_of_sliceOK {a b : Option Token} {c : Option (Option Token)} (h : sliceOK a b c = true) :
    ∀ s, (c.bind fun s => s.bind intOf) = some s → s ≠ 0 ∧ -2 ^ 63 ≤ s := by
  intro s hs
  rcases c with _ | _ | tok
  · cases hs
  · cases hs
  · simp only [Option.bind] at hs
    simp only [sliceOK, Bool.and_eq_true] at h
    have h2 := h.2.2
    rw [hs] at h2
    refine ⟨fun e => ?_, ?_⟩
    · subst e; simp at h2
    · unfold intOf at hs
      obtain ⟨_, _, _, _, _, _, hr⟩ := Jmes.parseInt64_some hs
      exact hr.1

/-- abbreviations for the two checks, as instances of `treeAll` -/
abbrev R (t : PTree) : Bool := treeAll (fun _ => true) (fun _ => true) callOK sliceOK t
abbrev O (φ : Nat → Nat) (t : PTree) : Bool := treeAll (atomRn φ) (keyRn φ) (fun _ _ => true) (fun _ _ _ => true) t

mutual
/-- **`renOK? t` and `atomsOver φ t` give `RenOK φ (erase t)`** -/
theorem A_erase : ∀ t : PTree, R t = true → O φ t = true → A φ (erase t)
  | .icur, _, _ => rfl
  | .atom tok, _, ho => by
    simp only [O, treeAll] at ho
    simp only [erase]; exact A_atom ho
  | .paren t, hr, ho => by
    simp only [R, O, treeAll] at hr ho
    simp only [erase]; exact A_erase t hr ho
  | .not t, hr, ho => by
    simp only [R, O, treeAll] at hr ho
    simp only [erase, A, INode.all, Bool.and_eq_true]; exact ⟨rfl, A_erase t hr ho⟩
  | .neg _ t, hr, ho => by
    simp only [R, O, treeAll] at hr ho
    simp only [erase, A, INode.all, Bool.and_eq_true]; exact ⟨rfl, A_erase t hr ho⟩
  | .pos t, hr, ho => by
    simp only [R, O, treeAll] at hr ho
    simp only [erase, A, INode.all, Bool.and_eq_true]; exact ⟨rfl, A_erase t hr ho⟩
  | .bin op l r, hr, ho => by
    simp only [R, O, treeAll, Bool.and_eq_true] at hr ho
    simp only [erase]; exact A_bin _ (A_erase l hr.1 ho.1) (A_erase r hr.2 ho.2)
  | .dotId l r, hr, ho => by
    simp only [R, O, treeAll, Bool.and_eq_true] at hr ho
    simp only [erase]; exact A_sub (A_opt (A_erase l hr.1 ho.1)) (A_erase r hr.2 ho.2)
  | .dotList l es, hr, ho => by
    simp only [R, O, treeAll, Bool.and_eq_true] at hr ho
    simp only [erase]; exact A_list (A_opt (A_erase l hr.1 ho.1)) (A_eraseL es hr.2 ho.2)
  | .dotHash l kvs, hr, ho => by
    simp only [R, O, treeAll, Bool.and_eq_true] at hr ho
    simp only [erase]; exact A_hash (A_opt (A_erase l hr.1 ho.1)) (A_eraseK true keyOf (fun _ => rfl) kvs hr.2 ho.2)
  | .dotStarList l, hr, ho => by
    simp only [R, O, treeAll] at hr ho
    simp only [erase]; exact A_list (A_opt (A_erase l hr ho)) rfl
  | .index l n, hr, ho => by
    simp only [R, O, treeAll] at hr ho
    simp only [erase]; exact A_index (A_opt (A_erase l hr ho)) _
  | .call name args, hr, ho => by
    simp only [R, O, treeAll, Bool.and_eq_true] at hr ho
    simp only [erase]; exact A_call hr.1 (A_eraseL args hr.2 ho.2)
  | .ref t, hr, ho => by
    simp only [R, O, treeAll] at hr ho
    simp only [erase]; exact A_erase t hr ho
  | .letIn bs body, hr, ho => by
    simp only [R, O, treeAll, Bool.and_eq_true] at hr ho
    have hm := memOK_assocOf (A_eraseK false Token.value (fun e => by cases e) bs hr.1 ho.1)
    simp only [erase, A, INode.all, Bool.and_eq_true]
    exact ⟨⟨rfl, hm.2⟩, A_erase body hr.2 ho.2⟩
  | .multiList es, hr, ho => by
    simp only [R, O, treeAll] at hr ho
    simp only [erase]; exact A_list (fun _ h => by cases h) (A_eraseL es hr ho)
  | .multiHash kvs, hr, ho => by
    simp only [R, O, treeAll] at hr ho
    simp only [erase]; exact A_hash (fun _ h => by cases h) (A_eraseK true keyOf (fun _ => rfl) kvs hr ho)
  | .star l rhs, hr, ho => by
    simp only [R, O, treeAll, Bool.and_eq_true] at hr ho
    simp only [erase]; exact A_star (A_opt (A_erase l hr.1 ho.1)) (A_opt (A_erase rhs hr.2 ho.2))
  | .ostar l rhs, hr, ho => by
    simp only [R, O, treeAll, Bool.and_eq_true] at hr ho
    simp only [erase]; exact A_ostar (A_opt (A_erase l hr.1 ho.1)) (A_opt (A_erase rhs hr.2 ho.2))
  | .flat l rhs, hr, ho => by
    simp only [R, O, treeAll, Bool.and_eq_true] at hr ho
    simp only [erase]; exact A_flat (A_opt (A_erase l hr.1 ho.1)) (A_opt (A_erase rhs hr.2 ho.2))
  | .filt l c rhs, hr, ho => by
    simp only [R, O, treeAll, Bool.and_eq_true] at hr ho
    simp only [erase]
    exact A_filt (A_opt (A_erase l hr.1.1 ho.1.1)) (A_erase c hr.1.2 ho.1.2) (A_opt (A_erase rhs hr.2 ho.2))
  | .slice l a b c rhs, hr, ho => by
    simp only [R, O, treeAll, Bool.and_eq_true, Bool.true_and] at hr ho
    have h1 := A_slice (A_opt (l := l) (A_erase l hr.1.2 ho.1)) (a.bind intOf) (b.bind intOf) _ (step_of_sliceOK hr.1.1)
    have h2 : A φ ((optNode rhs (erase rhs)).getD .current) := by
      cases hh : optNode rhs (erase rhs) with
      | none => rfl
      | some c => exact A_opt (A_erase rhs hr.2 ho.2) c hh
    simp only [erase, A, INode.all, Bool.and_eq_true]
    exact ⟨⟨rfl, h1⟩, h2⟩
theorem A_eraseL : ∀ es : List PTree,
    treeAllL (fun _ => true) (fun _ => true) callOK sliceOK es = true →
    treeAllL (atomRn φ) (keyRn φ) (fun _ _ => true) (fun _ _ _ => true) es = true →
    INode.allL (renHead φ) (eraseL es) = true
  | [], _, _ => rfl
  | e :: es, hr, ho => by
    simp only [treeAllL, Bool.and_eq_true] at hr ho
    simp only [eraseL, INode.allL, Bool.and_eq_true]
    exact ⟨A_erase e hr.1 ho.1, A_eraseL es hr.2 ho.2⟩
theorem A_eraseK (keys : Bool) (key : Token → Bytes) (hkey : keys = true → key = keyOf) :
    ∀ kvs : List (Token × PTree),
    treeAllK (fun _ => true) (fun _ => true) callOK sliceOK keys kvs = true →
    treeAllK (atomRn φ) (keyRn φ) (fun _ _ => true) (fun _ _ _ => true) keys kvs = true →
    MemOK φ keys (eraseKVs key kvs)
  | [], _, _ => ⟨fun _ _ h => (by cases h), rfl⟩
  | (k, e) :: rest, hr, ho => by
    simp only [treeAllK, Bool.and_eq_true] at hr ho
    have ih := A_eraseK keys key hkey rest hr.2 ho.2
    have he := A_erase e hr.1.2 ho.1.2
    simp only [eraseKVs]
    refine ⟨fun hk kn hkn => ?_, ?_⟩
    · rcases List.mem_cons.1 hkn with rfl | hkn
      · have := ho.1.1
        subst hk
        rw [hkey rfl]
        simpa [keyRn] using this
      · exact ih.1 hk kn hkn
    · simp only [INode.allF, Bool.and_eq_true]; exact ⟨he, ih.2⟩
end

/-- **(2) the decision procedure is sound**: `renOK? t` (builtin names and slice tokens, independent of the renaming)
    and `atomsOver φ t` (every atom and multi-select key can be renamed by `φ`) give `RenOK φ` of the compiled
    expression. -/
theorem renOK_of_tree {t : PTree} (hr : renOK? t = true) (ho : atomsOver φ t = true) : RenOK φ (erase t) = true :=
  A_erase t hr ho

end Main

end Jmes.C11E.Tree
