/-
  Helper lemmas for property C14 (second round, `Jmes/Properties/C14B.lean`): a relation `VR` between values
  that differ only in the Go representation of their numbers, the outcome relation `RR`, and the congruence of
  every value-level helper of the evaluator with respect to them.
-/
import Jmes.Properties.C14
import Jmes.Proofs.NoFloat
namespace Jmes
namespace C14B
open C14

/-! ## 1. the relations -/

/-- a finite float has a significand of at most 53 bits (true of every Go `float64`, a fortiori `float32`) -/
def F64Small : F64 → Prop
  | .fin _ m _ => m < 2 ^ 53
  | _ => True

/-- a float as a Go program can hold it whose conversion to decimal128 is exact (`F64.Good`), `±2^63` excluded (the
    model mirrors Go's `int(float64(2^63))` on amd64, see `C14`; `-2^63` is excluded too so that the set is closed
    under negation) -/
def FOK (f : F64) : Prop := f.Good ∧ f ≠ .fin true 1 63 ∧ F64Small f

/-- a number as a Go program can hold it (`Num.Good`) -/
def NumOK : Num → Prop
  | .f64 f => FOK f
  | .f32 f => FOK f
  | .jnum _ => True
  | .dec d => d.Bounded
  | .int k v => k.InRange v

theorem NumOK.good {a : Num} (h : NumOK a) : a.Good := by
  cases a <;> simp only [NumOK] at h <;> first | exact h | exact h.1 | trivial

/-- two numbers of the same value, both well-formed or else identical; with `nf` neither is a float -/
def NR (nf : Bool) (a b : Num) : Prop :=
  Num.SameValue a b ∧ ((NumOK a ∧ NumOK b) ∨ a = b) ∧ (nf = true → a.NoFloat ∧ b.NoFloat)

mutual
/-- same shape, same strings / booleans / array tags / keys, numbers related by `NR` -/
def VR (nf : Bool) : Val → Val → Prop
  | .null, .null => True
  | .bool a, .bool b => a = b
  | .str a, .str b => a = b
  | .num a, .num b => NR nf a b
  | .arr t xs, .arr u ys => t = u ∧ VRL nf xs ys
  | .obj xs, .obj ys => VRF nf xs ys
  | .foreign a, .foreign b => a = b
  | _, _ => False
def VRL (nf : Bool) : List Val → List Val → Prop
  | [], [] => True
  | x :: xs, y :: ys => VR nf x y ∧ VRL nf xs ys
  | _, _ => False
def VRF (nf : Bool) : List (Bytes × Val) → List (Bytes × Val) → Prop
  | [], [] => True
  | (k, x) :: xs, (l, y) :: ys => k = l ∧ VR nf x y ∧ VRF nf xs ys
  | _, _ => False
end

/-- outcomes related: the same failure, or values related by `R` -/
def RR {α β : Type} (R : α → β → Prop) : Res α → Res β → Prop
  | .ok a, .ok b => R a b
  | .err c, .err c' => c = c'
  | .panic w, .panic w' => w = w'
  | .nondet, .nondet => True
  | .unmodelled w, .unmodelled w' => w = w'
  | _, _ => False

section
variable {nf : Bool}

/-! ### basic facts -/

theorem NR.sameValue {a b : Num} (h : NR nf a b) : Num.SameValue a b := h.1

mutual
theorem vr_equiv : ∀ (x y : Val), VR nf x y → Val.Equiv x y
  | .null, y, h => by cases y <;> simp_all [VR, Val.Equiv]
  | .bool _, y, h => by cases y <;> simp_all [VR, Val.Equiv]
  | .str _, y, h => by cases y <;> simp_all [VR, Val.Equiv]
  | .num a, y, h => by
    cases y <;> simp only [VR] at h
    simp only [Val.Equiv]; exact h.1
  | .arr t xs, y, h => by
    cases y <;> simp only [VR] at h
    simp only [Val.Equiv]; exact ⟨h.1, vrl_equiv xs _ h.2⟩
  | .obj kvs, y, h => by
    cases y <;> simp only [VR] at h
    simp only [Val.Equiv]; exact vrf_equiv kvs _ h
  | .foreign _, y, h => by cases y <;> simp_all [VR, Val.Equiv]
theorem vrl_equiv : ∀ (xs ys : List Val), VRL nf xs ys → Val.EquivL xs ys
  | [], ys, h => by cases ys <;> simp_all [VRL, Val.EquivL]
  | x :: xs, ys, h => by
    cases ys <;> simp only [VRL] at h
    simp only [Val.EquivL]; exact ⟨vr_equiv x _ h.1, vrl_equiv xs _ h.2⟩
theorem vrf_equiv : ∀ (xs ys : List (Bytes × Val)), VRF nf xs ys → Val.EquivF xs ys
  | [], ys, h => by cases ys <;> simp_all [VRF, Val.EquivF]
  | (k, x) :: xs, ys, h => by
    cases ys with
    | nil => simp only [VRF] at h
    | cons p ys =>
      obtain ⟨l, y⟩ := p
      simp only [VRF] at h
      simp only [Val.EquivF]; exact ⟨h.1, vr_equiv x _ h.2.1, vrf_equiv xs _ h.2.2⟩
end

@[simp] theorem vr_null : VR nf .null .null := by simp [VR]
@[simp] theorem vr_bool (b : Bool) : VR nf (.bool b) (.bool b) := by simp [VR]
@[simp] theorem vr_str (s : Bytes) : VR nf (.str s) (.str s) := by simp [VR]
@[simp] theorem vrl_nil : VRL nf [] [] := by simp [VRL]
@[simp] theorem vrf_nil : VRF nf [] [] := by simp [VRF]

theorem vr_arr {t : ATag} {xs ys : List Val} (h : VRL nf xs ys) : VR nf (.arr t xs) (.arr t ys) := by
  simp only [VR, true_and]; exact h

theorem vr_obj {xs ys : List (Bytes × Val)} (h : VRF nf xs ys) : VR nf (.obj xs) (.obj ys) := by
  simp only [VR]; exact h

theorem vrl_cons {x y : Val} {xs ys : List Val} (h : VR nf x y) (hs : VRL nf xs ys) : VRL nf (x :: xs) (y :: ys) := by
  simp only [VRL]; exact ⟨h, hs⟩

/-- an integer held as an `int64` is related to itself -/
theorem nr_int (k : IntKind) (v : Int) : NR nf (.int k v) (.int k v) :=
  ⟨sameValue_int_int k k v, .inr rfl, fun _ => ⟨trivial, trivial⟩⟩

@[simp] theorem vr_int (k : IntKind) (v : Int) : VR nf (.num (.int k v)) (.num (.int k v)) := by
  simp only [VR]; exact nr_int k v

theorem vrl_strs : ∀ (ss : List Bytes), VRL nf (ss.map Val.str) (ss.map Val.str)
  | [] => by simp
  | s :: ss => by simp only [List.map_cons]; exact vrl_cons (vr_str s) (vrl_strs ss)

theorem vrl_length : ∀ {xs ys : List Val}, VRL nf xs ys → xs.length = ys.length
  | [], [], _ => rfl
  | [], _ :: _, h => by simp [VRL] at h
  | _ :: _, [], h => by simp [VRL] at h
  | _ :: xs, _ :: ys, h => by
    simp only [VRL] at h
    simp [vrl_length h.2]

theorem vrf_length : ∀ {xs ys : List (Bytes × Val)}, VRF nf xs ys → xs.length = ys.length
  | [], [], _ => rfl
  | [], _ :: _, h => by simp [VRF] at h
  | _ :: _, [], h => by simp [VRF] at h
  | (_, _) :: xs, (_, _) :: ys, h => by
    simp only [VRF] at h
    simp [vrf_length h.2.2]

/-- related lists as a list of related pairs -/
theorem vrl_iff_zip {xs ys : List Val} :
    VRL nf xs ys ↔ ∃ L : List (Val × Val), L.map Prod.fst = xs ∧ L.map Prod.snd = ys ∧ ∀ p ∈ L, VR nf p.1 p.2 := by
  constructor
  · intro h
    induction xs generalizing ys with
    | nil => cases ys <;> simp [VRL] at h; exact ⟨[], rfl, rfl, by simp⟩
    | cons x xs ih =>
      cases ys with
      | nil => simp [VRL] at h
      | cons y ys =>
        simp only [VRL] at h
        obtain ⟨L, l1, l2, l3⟩ := ih h.2
        refine ⟨(x, y) :: L, by simp [l1], by simp [l2], ?_⟩
        intro p hp
        rcases List.mem_cons.mp hp with rfl | hp
        · exact h.1
        · exact l3 p hp
  · rintro ⟨L, rfl, rfl, h⟩
    induction L with
    | nil => simp
    | cons p L ih =>
      simp only [List.map_cons]
      exact vrl_cons (h p (List.mem_cons_self ..)) (ih (fun q hq => h q (List.mem_cons_of_mem _ hq)))

theorem vrl_of_pairs (L : List (Val × Val)) (h : ∀ p ∈ L, VR nf p.1 p.2) : VRL nf (L.map Prod.fst) (L.map Prod.snd) :=
  vrl_iff_zip.mpr ⟨L, rfl, rfl, h⟩

theorem vrl_append : ∀ {xs ys xs' ys' : List Val}, VRL nf xs ys → VRL nf xs' ys' → VRL nf (xs ++ xs') (ys ++ ys')
  | [], [], _, _, _, h' => by simpa using h'
  | [], _ :: _, _, _, h, _ => by simp [VRL] at h
  | _ :: _, [], _, _, h, _ => by simp [VRL] at h
  | x :: xs, y :: ys, _, _, h, h' => by
    simp only [VRL] at h
    simp only [List.cons_append]
    exact vrl_cons h.1 (vrl_append h.2 h')

theorem vrl_reverse {xs ys : List Val} (h : VRL nf xs ys) : VRL nf xs.reverse ys.reverse := by
  obtain ⟨L, rfl, rfl, hL⟩ := vrl_iff_zip.mp h
  rw [← List.map_reverse, ← List.map_reverse]
  exact vrl_of_pairs _ (fun p hp => hL p (List.mem_reverse.mp hp))

theorem vrl_drop {xs ys : List Val} (h : VRL nf xs ys) (n : Nat) : VRL nf (xs.drop n) (ys.drop n) := by
  obtain ⟨L, rfl, rfl, hL⟩ := vrl_iff_zip.mp h
  rw [← List.map_drop, ← List.map_drop]
  exact vrl_of_pairs _ (fun p hp => hL p (List.mem_of_mem_drop hp))

theorem vrl_take {xs ys : List Val} (h : VRL nf xs ys) (n : Nat) : VRL nf (xs.take n) (ys.take n) := by
  obtain ⟨L, rfl, rfl, hL⟩ := vrl_iff_zip.mp h
  rw [← List.map_take, ← List.map_take]
  exact vrl_of_pairs _ (fun p hp => hL p (List.mem_of_mem_take hp))

theorem vrl_getD {xs ys : List Val} (h : VRL nf xs ys) (n : Nat) : VR nf (xs.getD n .null) (ys.getD n .null) := by
  induction xs generalizing ys n with
  | nil => cases ys <;> simp [VRL] at h; simp
  | cons x xs ih =>
    cases ys with
    | nil => simp [VRL] at h
    | cons y ys =>
      simp only [VRL] at h
      cases n with
      | zero => simpa using h.1
      | succ n => simpa using ih h.2 n

/-- filtering by a predicate that related values agree on -/
theorem vrl_filter {p : Val → Bool} (hp : ∀ x y, VR nf x y → p x = p y) :
    ∀ {xs ys : List Val}, VRL nf xs ys → VRL nf (xs.filter p) (ys.filter p)
  | [], [], _ => by simp
  | [], _ :: _, h => by simp [VRL] at h
  | _ :: _, [], h => by simp [VRL] at h
  | x :: xs, y :: ys, h => by
    simp only [VRL] at h
    simp only [List.filter_cons, hp x y h.1]
    split
    · exact vrl_cons h.1 (vrl_filter hp h.2)
    · exact vrl_filter hp h.2

theorem isNull_vr {x y : Val} (h : VR nf x y) : x.isNull = y.isNull := isNull_equiv (vr_equiv _ _ h)

theorem isTrue_vr {x y : Val} (h : VR nf x y) : isTrue x = isTrue y := isTrue_congr (vr_equiv _ _ h)

theorem isNumber_vr {x y : Val} (h : VR nf x y) : isNumber x = isNumber y := isNumber_congr (vr_equiv _ _ h)

theorem vrl_any {p : Val → Bool} (hp : ∀ x y, VR nf x y → p x = p y) :
    ∀ {xs ys : List Val}, VRL nf xs ys → xs.any p = ys.any p
  | [], [], _ => rfl
  | [], _ :: _, h => by simp [VRL] at h
  | _ :: _, [], h => by simp [VRL] at h
  | x :: xs, y :: ys, h => by
    simp only [VRL] at h
    simp only [List.any_cons, hp x y h.1, vrl_any hp h.2]

theorem objLookup_vrf (k : Bytes) : ∀ {ys ys' : List (Bytes × Val)}, VRF nf ys ys' →
    (objLookup k ys = none ∧ objLookup k ys' = none) ∨
    ∃ y y', objLookup k ys = some y ∧ objLookup k ys' = some y' ∧ VR nf y y'
  | [], [], _ => .inl ⟨rfl, rfl⟩
  | [], _ :: _, h => by simp [VRF] at h
  | _ :: _, [], h => by simp [VRF] at h
  | (l, y) :: ys, (l', y') :: ys', h => by
    simp only [VRF] at h
    obtain ⟨rfl, hy, hr⟩ := h
    simp only [objLookup]
    by_cases hk : k = l
    · simp only [hk, if_true]; exact .inr ⟨y, y', rfl, rfl, hy⟩
    · simp only [hk, if_false]; exact objLookup_vrf k hr

theorem vrf_values : ∀ {xs ys : List (Bytes × Val)}, VRF nf xs ys → VRL nf (xs.map Prod.snd) (ys.map Prod.snd)
  | [], [], _ => by simp
  | [], _ :: _, h => by simp [VRF] at h
  | _ :: _, [], h => by simp [VRF] at h
  | (_, _) :: xs, (_, _) :: ys, h => by
    simp only [VRF] at h
    simp only [List.map_cons]
    exact vrl_cons h.2.1 (vrf_values h.2.2)

theorem vrf_keys : ∀ {xs ys : List (Bytes × Val)}, VRF nf xs ys → xs.map Prod.fst = ys.map Prod.fst
  | [], [], _ => rfl
  | [], _ :: _, h => by simp [VRF] at h
  | _ :: _, [], h => by simp [VRF] at h
  | (_, _) :: xs, (_, _) :: ys, h => by
    simp only [VRF] at h
    simp only [List.map_cons, h.1, vrf_keys h.2.2]

theorem vrf_append : ∀ {xs ys xs' ys' : List (Bytes × Val)}, VRF nf xs ys → VRF nf xs' ys' → VRF nf (xs ++ xs') (ys ++ ys')
  | [], [], _, _, _, h' => by simpa using h'
  | [], _ :: _, _, _, h, _ => by simp [VRF] at h
  | _ :: _, [], _, _, h, _ => by simp [VRF] at h
  | (_, _) :: xs, (_, _) :: ys, _, _, h, h' => by
    simp only [VRF] at h
    simp only [List.cons_append, VRF]
    exact ⟨h.1, h.2.1, vrf_append h.2.2 h'⟩

theorem objInsert_vrf {k : Bytes} {v v' : Val} (hv : VR nf v v') :
    ∀ {xs ys : List (Bytes × Val)}, VRF nf xs ys → VRF nf (objInsert k v xs) (objInsert k v' ys)
  | [], [], _ => by simp only [objInsert, VRF]; exact ⟨trivial, hv, trivial⟩
  | [], _ :: _, h => by simp [VRF] at h
  | _ :: _, [], h => by simp [VRF] at h
  | (l, x) :: xs, (l', y) :: ys, h => by
    simp only [VRF] at h
    obtain ⟨rfl, hxy, hr⟩ := h
    simp only [objInsert]
    split
    · simp only [VRF]; exact ⟨trivial, hv, hr⟩
    · split
      · simp only [VRF]; exact ⟨trivial, hv, trivial, hxy, hr⟩
      · simp only [VRF]; exact ⟨trivial, hxy, objInsert_vrf hv hr⟩

theorem foldInsert_vrf : ∀ {kvs kvs' acc acc' : List (Bytes × Val)}, VRF nf kvs kvs' → VRF nf acc acc' →
    VRF nf (kvs.foldl (fun a kv => objInsert kv.1 kv.2 a) acc) (kvs'.foldl (fun a kv => objInsert kv.1 kv.2 a) acc')
  | [], [], _, _, _, h' => by simpa using h'
  | [], _ :: _, _, _, h, _ => by simp [VRF] at h
  | _ :: _, [], _, _, h, _ => by simp [VRF] at h
  | (_, _) :: xs, (_, _) :: ys, _, _, h, h' => by
    simp only [VRF] at h
    obtain ⟨rfl, hxy, hr⟩ := h
    simp only [List.foldl_cons]
    exact foldInsert_vrf hr (objInsert_vrf hxy h')

/-! ### `RR` -/

theorem RR.ok' {α β : Type} {R : α → β → Prop} {a : α} {b : β} (h : R a b) : RR R (.ok a) (.ok b) := h

theorem RR.bind {α β γ δ : Type} {R : α → β → Prop} {S : γ → δ → Prop} {x : Res α} {y : Res β}
    {f : α → Res γ} {g : β → Res δ} (h : RR R x y) (hf : ∀ a b, R a b → RR S (f a) (g b)) :
    RR S (x >>= f) (y >>= g) := by
  cases x <;> cases y <;> simp only [RR] at h <;>
    simp only [Res.ok_bind, Res.err_bind, Res.panic_bind, Res.nondet_bind, Res.unmodelled_bind, RR]
  · exact hf _ _ h
  all_goals exact h

/-- identical outcomes whose value (if any) is related to itself -/
theorem RR.of_eq {α : Type} {R : α → α → Prop} {r r' : Res α} (h : r = r') (hr : ∀ a, r = .ok a → R a a) : RR R r r' := by
  subst h
  cases r <;> simp only [RR]
  exact hr _ rfl

theorem RR.mono {α β : Type} {R S : α → β → Prop} {r : Res α} {r' : Res β} (h : RR R r r') (hRS : ∀ a b, R a b → S a b) :
    RR S r r' := by
  cases r <;> cases r' <;> simp only [RR] at h ⊢ <;> first | exact hRS _ _ h | exact h

theorem rr_errType {α β : Type} {R : α → β → Prop} : RR R (errType : Res α) (errType : Res β) := by simp [errType, RR]
theorem rr_errValue {α β : Type} {R : α → β → Prop} : RR R (errValue : Res α) (errValue : Res β) := by simp [errValue, RR]
theorem rr_errNaN {α β : Type} {R : α → β → Prop} : RR R (errNaN : Res α) (errNaN : Res β) := by simp [errNaN, RR]

/-- the error categories an outcome contributes to `widen` -/
def errsOf {α : Type} (r : Res α) : List Cat := match r with | .err c => c | _ => []

theorem errs_of_rr {α β : Type} {R : α → β → Prop} {r : Res α} {r' : Res β} (h : RR R r r') : errsOf r = errsOf r' := by
  cases r <;> cases r' <;> simp only [RR] at h <;> first | rfl | exact h

/-- the outcome is not settled (neither a value nor an error): `widen` answers `nondet` when an element has such an
    outcome -/
def unsOf {α : Type} (r : Res α) : Bool := match r with | .ok _ => false | .err _ => false | _ => true

theorem uns_of_rr {α β : Type} {R : α → β → Prop} {r : Res α} {r' : Res β} (h : RR R r r') : unsOf r = unsOf r' := by
  cases r <;> cases r' <;> simp only [RR] at h <;> first | rfl | exact h.elim

theorem widen_def {α : Type} (t : ATag) (xs : List Val) (fs : List (Val → Res Val)) (extra : List Cat) (r : Res α) :
    widen t xs fs extra r = (match r with
      | .err cs =>
        if enum2 t xs then
          if xs.any (fun x => fs.any (fun f => unsOf (f x))) then .nondet
          else .err (Cat.dedup (cs ++ extra ++ xs.flatMap (fun x => fs.flatMap (fun f => errsOf (f x)))))
        else .err cs
      | r => r) := by
  cases r <;> simp only [widen]
  split
  · refine ite_congr (congrArg (· = true) (congrArg (fun g => List.any xs g) ?_)) (fun _ => rfl) (fun _ => ?_)
    · funext x
      refine congrArg (fun g => List.any fs g) ?_
      funext f
      cases f x <;> rfl
    · refine congrArg Res.err (congrArg Cat.dedup (congrArg _ ?_))
      refine congrArg (fun g => List.flatMap g xs) ?_
      funext x
      refine congrArg (fun g => List.flatMap g fs) ?_
      funext f
      cases f x <;> rfl
  · rfl

end
end C14B
end Jmes
