import Jmes.Spec.Lexical
import Jmes.Proofs.Literals
namespace Jmes.Lex
open Jmes Jmes.Utf8 Jmes.Lexical Jmes.Literals

theorem lexDecode_ok {s : Bytes} {r sz : Nat} (h : lexDecode s = .ok (r, sz)) :
    isScalar r = true ∧ sz = (encodeRune r).length ∧ s = encodeRune r ++ s.drop sz := by
  unfold lexDecode at h
  generalize hd : decodeRune s = p at h
  obtain ⟨r', sz'⟩ := p
  simp only at h
  split at h
  · cases h
  · split at h
    · cases h
    · rename_i h0 h1
      cases h
      have hne : s ≠ [] := by
        intro hs; subst hs; simp [decodeRune] at hd; omega
      have := decodeRune_valid s hne (by rw [hd]; exact h1)
      rw [hd] at this
      exact ⟨this.1, this.2.2, this.2.1⟩

/-- an ASCII rune is one byte -/
theorem lexDecode_ok_ascii {s : Bytes} {r sz : Nat} (h : lexDecode s = .ok (r, sz)) (hr : r < 0x80) :
    sz = 1 ∧ s = r :: s.drop 1 := by
  obtain ⟨_, h2, h3⟩ := lexDecode_ok h
  rw [encodeRune_ascii r hr] at h2 h3
  simp at h2; subst h2
  exact ⟨rfl, h3⟩

theorem lexDecode_pos {s : Bytes} {r sz : Nat} (h : lexDecode s = .ok (r, sz)) : 0 < sz ∧ sz ≤ s.length := by
  obtain ⟨_, h2, h3⟩ := lexDecode_ok h
  have := encodeRune_length_pos r
  have hl := congrArg List.length h3
  simp at hl
  omega

theorem lexDecode_take {s : Bytes} {r sz : Nat} (h : lexDecode s = .ok (r, sz)) : s.take sz = encodeRune r := by
  obtain ⟨_, h2, h3⟩ := lexDecode_ok h
  conv => lhs; rw [h3, h2]
  simp

/-- a byte string starting with an ASCII byte decodes to that byte -/
theorem lexDecode_cons_ascii {b : Nat} {t : Bytes} (hb : b < 0x80) : lexDecode (b :: t) = .ok (b, 1) :=
  lexDecode_ascii b hb t

theorem peek_some {s : Bytes} {sz nr nsz : Nat} (h : peek s sz = some (nr, nsz)) :
    lexDecode (s.drop sz) = .ok (nr, nsz) := by
  unfold peek at h
  split at h
  · cases h; assumption
  · cases h

theorem peek_none {s : Bytes} {sz : Nat} (h : peek s sz = none) : ∃ e, lexDecode (s.drop sz) = .error e := by
  unfold peek at h
  split at h
  · cases h
  · rename_i e _; exact ⟨e, by assumption⟩

theorem isWsR_lt {r : Nat} (h : isWsR r = true) : r < 0x80 := by
  simp [isWsR] at h; omega

theorem isWsR_eq (r : Nat) : isWsR r = isWsB r := rfl
theorem isDigitR_eq (r : Nat) : isDigitR r = isDigitB r := rfl
theorem isAlphaR_eq (r : Nat) : isAlphaR r = isIdStartB r := rfl
theorem isIdR_eq (r : Nat) : (isAlphaR r || isDigitR r) = isIdCharB r := rfl

theorem isDigitB_lt {r : Nat} (h : isDigitB r = true) : r < 0x80 := by
  simp [isDigitB] at h; omega
theorem isIdStartB_lt {r : Nat} (h : isIdStartB r = true) : r < 0x80 := by
  simp [isIdStartB] at h; omega
theorem isIdCharB_lt {r : Nat} (h : isIdCharB r = true) : r < 0x80 := by
  simp [isIdCharB] at h; rcases h with h | h
  · exact isIdStartB_lt h
  · exact isDigitB_lt h

/-! ### whitespace -/

theorem Ws.nil : Ws [] := by intro b h; cases h
theorem Ws.cons {b : Nat} {w : Bytes} (hb : isWsB b = true) (hw : Ws w) : Ws (b :: w) := by
  intro x hx; simp at hx; rcases hx with rfl | hx
  · exact hb
  · exact hw x hx
theorem Ws.append {a b : Bytes} (ha : Ws a) (hb : Ws b) : Ws (a ++ b) := by
  intro x hx; simp at hx; rcases hx with hx | hx
  · exact ha x hx
  · exact hb x hx

theorem skipWsLex_spec : ∀ (fuel : Nat) (s : Bytes), ∃ w, Ws w ∧ s = w ++ skipWsLex fuel s
  | 0, s => ⟨[], Ws.nil, rfl⟩
  | fuel + 1, s => by
    unfold skipWsLex
    split
    · exact ⟨[], Ws.nil, rfl⟩
    · split
      · rename_i r sz hd
        split
        · rename_i hw
          obtain ⟨h1, h2⟩ := lexDecode_ok_ascii hd (isWsR_lt hw)
          subst h1
          obtain ⟨w, hw1, hw2⟩ := skipWsLex_spec fuel (s.drop 1)
          refine ⟨r :: w, Ws.cons hw hw1, ?_⟩
          rw [List.cons_append, ← hw2]; exact h2
        · exact ⟨[], Ws.nil, rfl⟩
      · exact ⟨[], Ws.nil, rfl⟩

/-! ### `spanRunes` -/

theorem spanRunes_spec (p : Nat → Bool) (hp : ∀ r, p r = true → r < 0x80) :
    ∀ (fuel : Nat) (s : Bytes), spanRunes p fuel s ≤ s.length ∧ ∀ b ∈ s.take (spanRunes p fuel s), p b = true
  | 0, s => by simp [spanRunes]
  | fuel + 1, s => by
    unfold spanRunes
    split
    · rename_i r sz hd
      split
      · rename_i hpr
        obtain ⟨h1, h2⟩ := lexDecode_ok_ascii hd (hp r hpr)
        subst h1
        obtain ⟨ih1, ih2⟩ := spanRunes_spec p hp fuel (s.drop 1)
        have hl := congrArg List.length h2
        rw [List.length_cons] at hl
        refine ⟨by omega, ?_⟩
        intro b hb
        rw [h2, Nat.add_comm, List.take_succ_cons] at hb
        simp only [List.mem_cons] at hb
        rcases hb with rfl | hb
        · exact hpr
        · exact ih2 b hb
      · simp
    · simp

theorem spanRunes_max (p : Nat → Bool) (hp : ∀ r, p r = true → r < 0x80) :
    ∀ (fuel : Nat) (s : Bytes), s.length ≤ fuel →
      ∀ b, (s.drop (spanRunes p fuel s)).head? = some b → p b = false
  | 0, s => by
    intro hl b hb
    have : s = [] := List.length_eq_zero_iff.1 (by omega)
    subst this; simp [spanRunes] at hb
  | fuel + 1, s => by
    intro hl b hb
    unfold spanRunes at hb
    have stop : ∀ (hb : (s.drop 0).head? = some b), (∀ r sz, lexDecode s = .ok (r, sz) → p r = false) → p b = false := by
      intro hb hno
      cases hpb : p b with
      | false => rfl
      | true =>
        match s, hb with
        | c :: t, hb =>
          simp at hb; subst hb
          have := hno c 1 (lexDecode_cons_ascii (hp c hpb))
          rw [this] at hpb; cases hpb
    split at hb
    · rename_i r sz hd
      split at hb
      · rename_i hpr
        obtain ⟨h1, h2⟩ := lexDecode_ok_ascii hd (hp r hpr)
        subst h1
        have hl' := congrArg List.length h2
        simp at hl'
        rw [← List.drop_drop] at hb
        exact spanRunes_max p hp fuel (s.drop 1) (by simp; omega) b hb
      · rename_i hpr
        refine stop hb ?_
        intro r' sz' h'; rw [hd] at h'; cases h'; simpa using hpr
    · rename_i e hd
      refine stop hb ?_
      intro r' sz' h'; rw [hd] at h'; cases h'

/-! ### `scanDelim` -/

theorem scanDelim_sound {d : Nat} (hd : d < 0x80) :
    ∀ (fuel : Nat) (s : Bytes) (n m : Nat), scanDelim d fuel s n = .ok m →
      ∃ k, m = n + k ∧ k ≤ s.length ∧ DelimBody d (s.take k)
  | 0, s, n, m => by intro h; simp [scanDelim] at h
  | fuel + 1, s, n, m => by
    intro h
    unfold scanDelim at h
    split at h
    · cases h
    · rename_i r sz hdec
      obtain ⟨hs, hsz, hs3⟩ := lexDecode_ok hdec
      have hp := lexDecode_pos hdec
      split at h
      · rename_i hr
        cases h
        subst hr
        refine ⟨sz, rfl, hp.2, ?_⟩
        rw [lexDecode_take hdec, encodeRune_ascii r hd]
        exact DelimBody.close
      · rename_i hr
        split at h
        · rename_i hbs
          subst hbs
          obtain ⟨h1, h2⟩ := lexDecode_ok_ascii hdec (by omega)
          subst h1
          split at h
          · cases h
          · rename_i r2 sz2 hdec2
            obtain ⟨hs', hsz', hs3'⟩ := lexDecode_ok hdec2
            have hp' := lexDecode_pos hdec2
            obtain ⟨k, hk1, hk2, hk3⟩ := scanDelim_sound hd fuel _ _ _ h
            refine ⟨1 + sz2 + k, by omega, ?_, ?_⟩
            · simp at hk2 hp'; omega
            · have e : s = 0x5C :: (encodeRune r2 ++ s.drop (1 + sz2)) := by
                rw [← List.drop_drop, ← hs3']; exact h2
              have e2 : s.take (1 + sz2 + k) = 0x5C :: (encodeRune r2 ++ (s.drop (1 + sz2)).take k) := by
                conv => lhs; rw [e]
                rw [show 1 + sz2 + k = (sz2 + k) + 1 by omega, List.take_succ_cons, hsz',
                  List.take_length_add_append]
              rw [e2]
              exact DelimBody.esc r2 _ hs' hk3
        · rename_i hbs
          obtain ⟨k, hk1, hk2, hk3⟩ := scanDelim_sound hd fuel _ _ _ h
          refine ⟨sz + k, by omega, ?_, ?_⟩
          · simp at hk2; omega
          · have e2 : s.take (sz + k) = encodeRune r ++ (s.drop sz).take k := by
              conv => lhs; rw [hs3]
              rw [hsz, List.take_length_add_append]
            rw [e2]
            exact DelimBody.plain r _ hs hr hbs hk3

end Jmes.Lex
