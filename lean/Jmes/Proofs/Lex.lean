/-
  Helper lemmas for property C04 (the lexer against the lexical grammar of `Jmes/Spec/Lexical.lean`):
  `lexDecode`, `skipWsLex`, `spanRunes`, `scanDelim`, and the case analysis of `lexToken` (`lexToken_good`).
-/
import Jmes.Spec.Lexical
import Jmes.Proofs.Literals
namespace Jmes.Lex
open Jmes Jmes.Utf8 Jmes.Lexical Jmes.Literals

theorem lexDecode_ok {s : Bytes} {r sz : Nat} (h : lexDecode s = .ok (r, sz)) :
    isScalar r = true ∧ sz = (encodeRune r).length ∧ s = encodeRune r ++ s.drop sz := by
  unfold lexDecode at h
  generalize hd : decodeRune s = p at h
  obtain ⟨r', sz'⟩ := p
  simp only at h
  split at h
  · cases h
  · split at h
    · cases h
    · rename_i h0 h1
      cases h
      have hne : s ≠ [] := by
        intro hs; subst hs; simp [decodeRune] at hd; omega
      have := decodeRune_valid s hne (by rw [hd]; exact h1)
      rw [hd] at this
      exact ⟨this.1, this.2.2, this.2.1⟩

/-- an ASCII rune is one byte -/
theorem lexDecode_ok_ascii {s : Bytes} {r sz : Nat} (h : lexDecode s = .ok (r, sz)) (hr : r < 0x80) :
    sz = 1 ∧ s = r :: s.drop 1 := by
  obtain ⟨_, h2, h3⟩ := lexDecode_ok h
  rw [encodeRune_ascii r hr] at h2 h3
  simp at h2; subst h2
  exact ⟨rfl, h3⟩

theorem lexDecode_pos {s : Bytes} {r sz : Nat} (h : lexDecode s = .ok (r, sz)) : 0 < sz ∧ sz ≤ s.length := by
  obtain ⟨_, h2, h3⟩ := lexDecode_ok h
  have := encodeRune_length_pos r
  have hl := congrArg List.length h3
  simp at hl
  omega

theorem lexDecode_take {s : Bytes} {r sz : Nat} (h : lexDecode s = .ok (r, sz)) : s.take sz = encodeRune r := by
  obtain ⟨_, h2, h3⟩ := lexDecode_ok h
  conv => lhs; rw [h3, h2]
  simp

/-- a byte string starting with an ASCII byte decodes to that byte -/
theorem lexDecode_cons_ascii {b : Nat} {t : Bytes} (hb : b < 0x80) : lexDecode (b :: t) = .ok (b, 1) :=
  lexDecode_ascii b hb t

theorem peek_some {s : Bytes} {sz nr nsz : Nat} (h : peek s sz = some (nr, nsz)) :
    lexDecode (s.drop sz) = .ok (nr, nsz) := by
  unfold peek at h
  split at h
  · cases h; assumption
  · cases h

theorem peek_none {s : Bytes} {sz : Nat} (h : peek s sz = none) : ∃ e, lexDecode (s.drop sz) = .error e := by
  unfold peek at h
  split at h
  · cases h
  · rename_i e _; exact ⟨e, by assumption⟩

theorem isWsR_lt {r : Nat} (h : isWsR r = true) : r < 0x80 := by
  simp [isWsR] at h; omega

theorem isWsR_eq (r : Nat) : isWsR r = isWsB r := rfl
theorem isDigitR_eq (r : Nat) : isDigitR r = isDigitB r := rfl
theorem isAlphaR_eq (r : Nat) : isAlphaR r = isIdStartB r := rfl
theorem isIdR_eq (r : Nat) : (isAlphaR r || isDigitR r) = isIdCharB r := rfl

theorem isDigitB_lt {r : Nat} (h : isDigitB r = true) : r < 0x80 := by
  simp [isDigitB] at h; omega
theorem isIdStartB_lt {r : Nat} (h : isIdStartB r = true) : r < 0x80 := by
  simp [isIdStartB] at h; omega
theorem isIdCharB_lt {r : Nat} (h : isIdCharB r = true) : r < 0x80 := by
  simp [isIdCharB] at h; rcases h with h | h
  · exact isIdStartB_lt h
  · exact isDigitB_lt h

/-! ### whitespace -/

theorem Ws.nil : Ws [] := by intro b h; cases h
theorem Ws.cons {b : Nat} {w : Bytes} (hb : isWsB b = true) (hw : Ws w) : Ws (b :: w) := by
  intro x hx; simp at hx; rcases hx with rfl | hx
  · exact hb
  · exact hw x hx
theorem Ws.append {a b : Bytes} (ha : Ws a) (hb : Ws b) : Ws (a ++ b) := by
  intro x hx; simp at hx; rcases hx with hx | hx
  · exact ha x hx
  · exact hb x hx

theorem skipWsLex_spec : ∀ (fuel : Nat) (s : Bytes), ∃ w, Ws w ∧ s = w ++ skipWsLex fuel s
  | 0, s => ⟨[], Ws.nil, rfl⟩
  | fuel + 1, s => by
    unfold skipWsLex
    split
    · exact ⟨[], Ws.nil, rfl⟩
    · split
      · rename_i r sz hd
        split
        · rename_i hw
          obtain ⟨h1, h2⟩ := lexDecode_ok_ascii hd (isWsR_lt hw)
          subst h1
          obtain ⟨w, hw1, hw2⟩ := skipWsLex_spec fuel (s.drop 1)
          refine ⟨r :: w, Ws.cons hw hw1, ?_⟩
          rw [List.cons_append, ← hw2]; exact h2
        · exact ⟨[], Ws.nil, rfl⟩
      · exact ⟨[], Ws.nil, rfl⟩

/-! ### `spanRunes` -/

theorem spanRunes_spec (p : Nat → Bool) (hp : ∀ r, p r = true → r < 0x80) :
    ∀ (fuel : Nat) (s : Bytes), spanRunes p fuel s ≤ s.length ∧ ∀ b ∈ s.take (spanRunes p fuel s), p b = true
  | 0, s => by simp [spanRunes]
  | fuel + 1, s => by
    unfold spanRunes
    split
    · rename_i r sz hd
      split
      · rename_i hpr
        obtain ⟨h1, h2⟩ := lexDecode_ok_ascii hd (hp r hpr)
        subst h1
        obtain ⟨ih1, ih2⟩ := spanRunes_spec p hp fuel (s.drop 1)
        have hl := congrArg List.length h2
        rw [List.length_cons] at hl
        refine ⟨by omega, ?_⟩
        intro b hb
        rw [h2, Nat.add_comm, List.take_succ_cons] at hb
        simp only [List.mem_cons] at hb
        rcases hb with rfl | hb
        · exact hpr
        · exact ih2 b hb
      · simp
    · simp

theorem spanRunes_max (p : Nat → Bool) (hp : ∀ r, p r = true → r < 0x80) :
    ∀ (fuel : Nat) (s : Bytes), s.length ≤ fuel →
      ∀ b, (s.drop (spanRunes p fuel s)).head? = some b → p b = false
  | 0, s => by
    intro hl b hb
    have : s = [] := List.length_eq_zero_iff.1 (by omega)
    subst this; simp [spanRunes] at hb
  | fuel + 1, s => by
    intro hl b hb
    unfold spanRunes at hb
    have stop : ∀ (hb : (s.drop 0).head? = some b), (∀ r sz, lexDecode s = .ok (r, sz) → p r = false) → p b = false := by
      intro hb hno
      cases hpb : p b with
      | false => rfl
      | true =>
        match s, hb with
        | c :: t, hb =>
          simp at hb; subst hb
          have := hno c 1 (lexDecode_cons_ascii (hp c hpb))
          rw [this] at hpb; cases hpb
    split at hb
    · rename_i r sz hd
      split at hb
      · rename_i hpr
        obtain ⟨h1, h2⟩ := lexDecode_ok_ascii hd (hp r hpr)
        subst h1
        have hl' := congrArg List.length h2
        simp at hl'
        rw [← List.drop_drop] at hb
        exact spanRunes_max p hp fuel (s.drop 1) (by simp; omega) b hb
      · rename_i hpr
        refine stop hb ?_
        intro r' sz' h'; rw [hd] at h'; cases h'; simpa using hpr
    · rename_i e hd
      refine stop hb ?_
      intro r' sz' h'; rw [hd] at h'; cases h'

/-! ### `scanDelim` -/

theorem scanDelim_sound {d : Nat} (hd : d < 0x80) :
    ∀ (fuel : Nat) (s : Bytes) (n m : Nat), scanDelim d fuel s n = .ok m →
      ∃ k, m = n + k ∧ k ≤ s.length ∧ DelimBody d (s.take k)
  | 0, s, n, m => by intro h; simp [scanDelim] at h
  | fuel + 1, s, n, m => by
    intro h
    unfold scanDelim at h
    split at h
    · cases h
    · rename_i r sz hdec
      obtain ⟨hs, hsz, hs3⟩ := lexDecode_ok hdec
      have hp := lexDecode_pos hdec
      split at h
      · rename_i hr
        cases h
        subst hr
        refine ⟨sz, rfl, hp.2, ?_⟩
        rw [lexDecode_take hdec, encodeRune_ascii r hd]
        exact DelimBody.close
      · rename_i hr
        split at h
        · rename_i hbs
          subst hbs
          obtain ⟨h1, h2⟩ := lexDecode_ok_ascii hdec (by omega)
          subst h1
          split at h
          · cases h
          · rename_i r2 sz2 hdec2
            obtain ⟨hs', hsz', hs3'⟩ := lexDecode_ok hdec2
            have hp' := lexDecode_pos hdec2
            obtain ⟨k, hk1, hk2, hk3⟩ := scanDelim_sound hd fuel _ _ _ h
            refine ⟨1 + sz2 + k, by omega, ?_, ?_⟩
            · simp at hk2 hp'; omega
            · have e : s = 0x5C :: (encodeRune r2 ++ s.drop (1 + sz2)) := by
                rw [← List.drop_drop, ← hs3']; exact h2
              have e2 : s.take (1 + sz2 + k) = 0x5C :: (encodeRune r2 ++ (s.drop (1 + sz2)).take k) := by
                conv => lhs; rw [e]
                rw [show 1 + sz2 + k = (sz2 + k) + 1 by omega, List.take_succ_cons, hsz',
                  List.take_length_add_append]
              rw [e2]
              exact DelimBody.esc r2 _ hs' hk3
        · rename_i hbs
          obtain ⟨k, hk1, hk2, hk3⟩ := scanDelim_sound hd fuel _ _ _ h
          refine ⟨sz + k, by omega, ?_, ?_⟩
          · simp at hk2; omega
          · have e2 : s.take (sz + k) = encodeRune r ++ (s.drop sz).take k := by
              conv => lhs; rw [hs3]
              rw [hsz, List.take_length_add_append]
            rw [e2]
            exact DelimBody.plain r _ hs hr hbs hk3


/-! ### one step of the lexer -/

/-- everything the specification says about one step of the lexer -/
structure Good (s : Bytes) (t : Token) (n : Nat) : Prop where
  pos : 0 < n
  le : n ≤ s.length
  val : t.value = s.take n
  shape : TokShape t.type t.value
  maxi : ∀ b, (s.drop n).head? = some b → forbiddenNext t b = false
  wild : t.type = .openSqBrace → (s.drop n).take 2 ≠ [0x2A, 0x5D]

theorem peek_of_head {s : Bytes} {sz b : Nat} (hb : (s.drop sz).head? = some b) (hlt : b < 0x80) :
    peek s sz = some (b, 1) := by
  unfold peek
  match hs : s.drop sz, hb with
  | c :: t, hb =>
    simp at hb; subst hb
    rw [lexDecode_cons_ascii hlt]

theorem take_two {s : Bytes} {r sz nr nsz : Nat} (h1 : lexDecode s = .ok (r, sz))
    (h2 : lexDecode (s.drop sz) = .ok (nr, nsz)) :
    s.take (sz + nsz) = encodeRune r ++ encodeRune nr ∧ sz + nsz ≤ s.length := by
  rw [List.take_add, lexDecode_take h1, lexDecode_take h2]
  have := (lexDecode_pos h2).2
  have := (lexDecode_pos h1).2
  simp at *; omega

/-- a one-rune token -/
theorem good_single {s : Bytes} {r sz : Nat} (hdec : lexDecode s = .ok (r, sz)) (ty : TokenType)
    (hshape : TokShape ty (encodeRune r))
    (hasc : ∀ b, forbiddenNext ⟨ty, encodeRune r⟩ b = true → b < 0x80)
    (hmax : ∀ b, peek s sz = some (b, 1) → forbiddenNext ⟨ty, encodeRune r⟩ b = false)
    (hw : ty = .openSqBrace → (s.drop sz).take 2 ≠ [0x2A, 0x5D]) :
    Good s ⟨ty, s.take sz⟩ sz := by
  have hp := lexDecode_pos hdec
  refine ⟨hp.1, hp.2, rfl, ?_, ?_, hw⟩
  · show TokShape ty (s.take sz); rw [lexDecode_take hdec]; exact hshape
  · intro b hb
    rw [lexDecode_take hdec]
    cases hf : forbiddenNext ⟨ty, encodeRune r⟩ b with
    | false => rfl
    | true =>
      have := hmax b (peek_of_head hb (hasc b hf))
      rw [this] at hf; cases hf

/-- a two-rune token -/
theorem good_double {s : Bytes} {r sz nr nsz : Nat} (hdec : lexDecode s = .ok (r, sz))
    (hpk : peek s sz = some (nr, nsz)) (ty : TokenType)
    (hshape : TokShape ty (encodeRune r ++ encodeRune nr))
    (hmax : ∀ v b, forbiddenNext ⟨ty, v⟩ b = false) (hw : ty ≠ .openSqBrace) :
    Good s ⟨ty, s.take (sz + nsz)⟩ (sz + nsz) := by
  have hp := lexDecode_pos hdec
  have h2 := take_two hdec (peek_some hpk)
  refine ⟨by omega, h2.2, rfl, ?_, fun b _ => hmax _ b, fun h => absurd h hw⟩
  show TokShape ty (s.take (sz + nsz)); rw [h2.1]; exact hshape

/-- a delimited token -/
theorem good_delim {s : Bytes} {d sz n : Nat} (hd : d < 0x80) (hdec : lexDecode s = .ok (d, sz)) (ty : TokenType)
    (hsc : scanDelim d (s.length + 1) (s.drop sz) sz = .ok n)
    (hshape : ∀ v, Delimited d v → TokShape ty v)
    (hmax : ∀ v b, forbiddenNext ⟨ty, v⟩ b = false) (hw : ty ≠ .openSqBrace) :
    Good s ⟨ty, s.take n⟩ n := by
  have hp := lexDecode_pos hdec
  obtain ⟨k, hk1, hk2, hk3⟩ := scanDelim_sound hd _ _ _ _ hsc
  subst hk1
  rw [List.length_drop] at hk2
  refine ⟨by omega, by omega, rfl, ?_, fun b _ => hmax _ b, fun h => absurd h hw⟩
  apply hshape
  show Delimited d (s.take (sz + k))
  rw [List.take_add, lexDecode_take hdec, encodeRune_ascii d hd]
  exact ⟨_, rfl, hk3⟩

/-- a known prefix of `pre` bytes followed by the maximal run of `p`-bytes -/
theorem span_good {s : Bytes} (pre : Nat) (p : Nat → Bool) (hp : ∀ r, p r = true → r < 0x80) (hpre : pre ≤ s.length) :
    pre + spanRunes p s.length (s.drop pre) ≤ s.length ∧
    s.take (pre + spanRunes p s.length (s.drop pre)) = s.take pre ++ (s.drop pre).take (spanRunes p s.length (s.drop pre)) ∧
    (∀ b ∈ (s.drop pre).take (spanRunes p s.length (s.drop pre)), p b = true) ∧
    ∀ b, (s.drop (pre + spanRunes p s.length (s.drop pre))).head? = some b → p b = false := by
  have h1 := spanRunes_spec p hp s.length (s.drop pre)
  have h2 := spanRunes_max p hp s.length (s.drop pre) (by simp)
  rw [List.length_drop] at h1
  refine ⟨by omega, List.take_add, h1.2, ?_⟩
  intro b hb
  rw [← List.drop_drop] at hb
  exact h2 b hb

theorem digits_cons {c : Nat} {t : Bytes} (hc : isDigitB c = true) (ht : ∀ b ∈ t, isDigitB b = true) :
    Digits (c :: t) := by
  refine ⟨by simp, ?_⟩
  intro b hb; simp at hb; rcases hb with rfl | hb
  · exact hc
  · exact ht b hb

/-- an integer literal that starts with a digit -/
theorem good_digits {s : Bytes} {r sz : Nat} (hdec : lexDecode s = .ok (r, sz)) (hr : isDigitR r = true) :
    Good s ⟨.integerLiteral, s.take (sz + spanRunes isDigitR s.length (s.drop sz))⟩
      (sz + spanRunes isDigitR s.length (s.drop sz)) := by
  have hp := lexDecode_pos hdec
  obtain ⟨a1, a2, a3, a4⟩ := span_good (s := s) sz isDigitR (fun r h => isDigitB_lt h) hp.2
  refine ⟨by omega, a1, rfl, ?_, a4, fun h => by cases h⟩
  show TokShape .integerLiteral (s.take _)
  rw [a2, lexDecode_take hdec, encodeRune_ascii r (isDigitB_lt hr)]
  exact Or.inl (digits_cons hr a3)

/-- `-` and digits -/
theorem good_negdigits {s : Bytes} {sz nr nsz : Nat} (hdec : lexDecode s = .ok (0x2D, sz))
    (hpk : peek s sz = some (nr, nsz)) (hr : isDigitR nr = true) :
    Good s ⟨.integerLiteral, s.take (sz + nsz + spanRunes isDigitR s.length (s.drop (sz + nsz)))⟩
      (sz + nsz + spanRunes isDigitR s.length (s.drop (sz + nsz))) := by
  have hp := lexDecode_pos hdec
  have h2 := take_two hdec (peek_some hpk)
  obtain ⟨a1, a2, a3, a4⟩ := span_good (s := s) (sz + nsz) isDigitR (fun r h => isDigitB_lt h) h2.2
  refine ⟨by omega, a1, rfl, ?_, a4, fun h => by cases h⟩
  show TokShape .integerLiteral (s.take _)
  rw [a2, h2.1, encodeRune_ascii nr (isDigitB_lt hr)]
  exact Or.inr ⟨_, rfl, digits_cons hr a3⟩

theorem ident_cons {c : Nat} {t : Bytes} (hc : isIdStartB c = true) (ht : ∀ b ∈ t, isIdCharB b = true) :
    Ident (c :: t) := ⟨c, t, rfl, hc, ht⟩

/-- `$name` -/
theorem good_variable {s : Bytes} {sz nr nsz : Nat} (hdec : lexDecode s = .ok (0x24, sz))
    (hpk : peek s sz = some (nr, nsz)) (hr : isAlphaR nr = true) :
    Good s ⟨.variable, s.take (sz + nsz + spanRunes (fun r => isAlphaR r || isDigitR r) s.length (s.drop (sz + nsz)))⟩
      (sz + nsz + spanRunes (fun r => isAlphaR r || isDigitR r) s.length (s.drop (sz + nsz))) := by
  have hp := lexDecode_pos hdec
  have h2 := take_two hdec (peek_some hpk)
  obtain ⟨a1, a2, a3, a4⟩ := span_good (s := s) (sz + nsz) (fun r => isAlphaR r || isDigitR r)
    (fun r h => isIdCharB_lt h) h2.2
  refine ⟨by omega, a1, rfl, ?_, a4, fun h => by cases h⟩
  show TokShape .variable (s.take _)
  rw [a2, h2.1, encodeRune_ascii nr (isIdStartB_lt hr)]
  exact ⟨_, rfl, ident_cons hr a3⟩

/-- identifiers and the two keywords -/
theorem good_ident {s : Bytes} {r sz : Nat} (hdec : lexDecode s = .ok (r, sz)) (hr : isAlphaR r = true) :
    Good s ⟨if s.take (sz + spanRunes (fun r => isAlphaR r || isDigitR r) s.length (s.drop sz)) = [0x69, 0x6E]
              then TokenType.in
            else if s.take (sz + spanRunes (fun r => isAlphaR r || isDigitR r) s.length (s.drop sz)) = [0x6C, 0x65, 0x74]
              then TokenType.let else TokenType.unquotedIdentifier,
            s.take (sz + spanRunes (fun r => isAlphaR r || isDigitR r) s.length (s.drop sz))⟩
      (sz + spanRunes (fun r => isAlphaR r || isDigitR r) s.length (s.drop sz)) := by
  have hp := lexDecode_pos hdec
  obtain ⟨a1, a2, a3, a4⟩ := span_good (s := s) sz (fun r => isAlphaR r || isDigitR r)
    (fun r h => isIdCharB_lt h) hp.2
  have hid : Ident (s.take (sz + spanRunes (fun r => isAlphaR r || isDigitR r) s.length (s.drop sz))) := by
    rw [a2, lexDecode_take hdec, encodeRune_ascii r (isIdStartB_lt hr)]
    exact ident_cons hr a3
  generalize hv : s.take (sz + spanRunes (fun r => isAlphaR r || isDigitR r) s.length (s.drop sz)) = v at *
  by_cases h1 : v = [0x69, 0x6E]
  · rw [if_pos h1]
    exact ⟨by omega, a1, hv.symm, h1, a4, fun h => by cases h⟩
  · rw [if_neg h1]
    by_cases h2 : v = [0x6C, 0x65, 0x74]
    · rw [if_pos h2]
      exact ⟨by omega, a1, hv.symm, h2, a4, fun h => by cases h⟩
    · rw [if_neg h2]
      exact ⟨by omega, a1, hv.symm, ⟨hid, h2, h1⟩, a4, fun h => by cases h⟩


theorem wild_of {s : Bytes} {sz : Nat} (h : (s.drop sz).take 2 = [0x2A, 0x5D]) :
    peek s sz = some (0x2A, 1) ∧ peek s (sz + 1) = some (0x5D, 1) := by
  match hs : s.drop sz, h with
  | a :: b :: t, h =>
    simp at h
    obtain ⟨rfl, rfl⟩ := h
    refine ⟨peek_of_head (by rw [hs]; rfl) (by omega), peek_of_head ?_ (by omega)⟩
    rw [← List.drop_drop, hs]; rfl

/-- `[*]` -/
theorem good_triple {s : Bytes} {sz nsz nnsz : Nat} (hdec : lexDecode s = .ok (0x5B, sz))
    (hpk : peek s sz = some (0x2A, nsz)) (hpk2 : peek s (sz + nsz) = some (0x5D, nnsz)) :
    Good s ⟨.arrayWildcard, s.take (sz + nsz + nnsz)⟩ (sz + nsz + nnsz) := by
  have hp := lexDecode_pos hdec
  have h2 := take_two hdec (peek_some hpk)
  have h3 := peek_some hpk2
  have hp3 := lexDecode_pos h3
  rw [List.length_drop] at hp3
  refine ⟨by omega, by omega, rfl, ?_, fun b _ => rfl, fun h => by cases h⟩
  show s.take (sz + nsz + nnsz) = _
  rw [List.take_add, h2.1, lexDecode_take h3]
  rfl

macro "fb_asc" : tactic => `(tactic|
  (intro b h; simp [forbiddenNext, encodeRune, isDigitB, isIdStartB] at h <;> omega))

/-- the one-rune branches without look-ahead -/
macro "lex_one" hdec:ident h:ident : tactic => `(tactic| (
  cases $h:ident
  exact good_single $hdec _ (by first | rfl | exact Or.inl rfl | exact Or.inr rfl) (fun _ h => by cases h)
    (fun _ _ => rfl) (fun h => by cases h)))

/-- **The lexer step is sound, longest-match included.** -/
theorem lexToken_good {s : Bytes} {t : Token} {n : Nat} (h : lexToken s = .ok (t, n)) : Good s t n := by
  unfold lexToken at h
  split at h
  · cases h
  rename_i r sz hdec
  simp only [] at h
  by_cases hr : r = 0x22
  · rw [if_pos hr] at h  -- "
    subst hr
    split at h
    · rename_i m hsc; cases h
      exact good_delim (by omega) hdec _ hsc (fun v hv => hv) (fun _ _ => rfl) (by decide)
    · cases h
  rw [if_neg hr] at h
  by_cases hr : r = 0x24
  · rw [if_pos hr] at h  -- $
    subst hr
    split at h
    · rename_i nr nsz hpk
      split at h
      · rename_i hnr; cases h; exact good_variable hdec hpk hnr
      · rename_i hnr; cases h
        refine good_single hdec _ (by rfl) (by fb_asc) ?_ (fun h => by cases h)
        intro b hb; rw [hpk] at hb; cases hb
        simpa [forbiddenNext, ← isAlphaR_eq] using hnr
    · rename_i hpk; cases h
      refine good_single hdec _ (by rfl) (by fb_asc) ?_ (fun h => by cases h)
      intro b hb; rw [hpk] at hb; cases hb
  rw [if_neg hr] at h
  by_cases hr : r = 0x25
  · rw [if_pos hr] at h
    subst hr; lex_one hdec h      -- %
  rw [if_neg hr] at h
  by_cases hr : r = 0x26
  · rw [if_pos hr] at h
    -- & &&
    subst hr
    split at h
    · rename_i nr nsz hpk
      split at h
      · rename_i hnr; subst hnr; cases h
        exact good_double hdec hpk _ (by rfl) (fun _ _ => rfl) (by decide)
      · rename_i hnr; cases h
        refine good_single hdec _ (by first | rfl | exact Or.inl rfl) (by fb_asc) ?_ (fun h => by cases h)
        intro b hb; rw [hpk] at hb; cases hb
        simp [forbiddenNext, hnr]
    · rename_i hpk; cases h
      refine good_single hdec _ (by first | rfl | exact Or.inl rfl) (by fb_asc) ?_ (fun h => by cases h)
      intro b hb; rw [hpk] at hb; cases hb
  rw [if_neg hr] at h
  by_cases hr : r = 0x27
  · rw [if_pos hr] at h  -- '
    subst hr
    split at h
    · rename_i m hsc; cases h
      exact good_delim (by omega) hdec _ hsc (fun v hv => hv) (fun _ _ => rfl) (by decide)
    · cases h
  rw [if_neg hr] at h
  by_cases hr : r = 0x28
  · rw [if_pos hr] at h
    subst hr; lex_one hdec h      -- (
  rw [if_neg hr] at h
  by_cases hr : r = 0x29
  · rw [if_pos hr] at h
    subst hr; lex_one hdec h      -- )
  rw [if_neg hr] at h
  by_cases hr : r = 0x2A
  · rw [if_pos hr] at h
    subst hr; lex_one hdec h      -- *
  rw [if_neg hr] at h
  by_cases hr : r = 0x2B
  · rw [if_pos hr] at h
    subst hr; lex_one hdec h      -- +
  rw [if_neg hr] at h
  by_cases hr : r = 0x2C
  · rw [if_pos hr] at h
    subst hr; lex_one hdec h      -- ,
  rw [if_neg hr] at h
  by_cases hr : r = 0x2D
  · rw [if_pos hr] at h  -- - and negative integers
    subst hr
    split at h
    · rename_i nr nsz hpk
      split at h
      · rename_i hnr; cases h; exact good_negdigits hdec hpk hnr
      · rename_i hnr; cases h
        refine good_single hdec _ (Or.inl rfl) (by fb_asc) ?_ (fun h => by cases h)
        intro b hb; rw [hpk] at hb; cases hb
        simpa [forbiddenNext, encodeRune, ← isDigitR_eq] using hnr
    · rename_i hpk; cases h
      refine good_single hdec _ (Or.inl rfl) (by fb_asc) ?_ (fun h => by cases h)
      intro b hb; rw [hpk] at hb; cases hb
  rw [if_neg hr] at h
  by_cases hr : r = 0x2E
  · rw [if_pos hr] at h
    -- . .*
    subst hr
    split at h
    · rename_i nr nsz hpk
      split at h
      · rename_i hnr; subst hnr; cases h
        exact good_double hdec hpk _ (by rfl) (fun _ _ => rfl) (by decide)
      · rename_i hnr; cases h
        refine good_single hdec _ (by first | rfl | exact Or.inl rfl) (by fb_asc) ?_ (fun h => by cases h)
        intro b hb; rw [hpk] at hb; cases hb
        simp [forbiddenNext, hnr]
    · rename_i hpk; cases h
      refine good_single hdec _ (by first | rfl | exact Or.inl rfl) (by fb_asc) ?_ (fun h => by cases h)
      intro b hb; rw [hpk] at hb; cases hb
  rw [if_neg hr] at h
  by_cases hr : r = 0x2F
  · rw [if_pos hr] at h
    -- / //
    subst hr
    split at h
    · rename_i nr nsz hpk
      split at h
      · rename_i hnr; subst hnr; cases h
        exact good_double hdec hpk _ (by rfl) (fun _ _ => rfl) (by decide)
      · rename_i hnr; cases h
        refine good_single hdec _ (by first | rfl | exact Or.inl rfl) (by fb_asc) ?_ (fun h => by cases h)
        intro b hb; rw [hpk] at hb; cases hb
        simp [forbiddenNext, hnr]
    · rename_i hpk; cases h
      refine good_single hdec _ (by first | rfl | exact Or.inl rfl) (by fb_asc) ?_ (fun h => by cases h)
      intro b hb; rw [hpk] at hb; cases hb
  rw [if_neg hr] at h
  by_cases hr : r = 0x3A
  · rw [if_pos hr] at h
    subst hr; lex_one hdec h      -- :
  rw [if_neg hr] at h
  by_cases hr : r = 0x3C
  · rw [if_pos hr] at h
    -- < <=
    subst hr
    split at h
    · rename_i nr nsz hpk
      split at h
      · rename_i hnr; subst hnr; cases h
        exact good_double hdec hpk _ (by rfl) (fun _ _ => rfl) (by decide)
      · rename_i hnr; cases h
        refine good_single hdec _ (by first | rfl | exact Or.inl rfl) (by fb_asc) ?_ (fun h => by cases h)
        intro b hb; rw [hpk] at hb; cases hb
        simp [forbiddenNext, hnr]
    · rename_i hpk; cases h
      refine good_single hdec _ (by first | rfl | exact Or.inl rfl) (by fb_asc) ?_ (fun h => by cases h)
      intro b hb; rw [hpk] at hb; cases hb
  rw [if_neg hr] at h
  by_cases hr : r = 0x3D
  · rw [if_pos hr] at h
    -- = ==
    subst hr
    split at h
    · rename_i nr nsz hpk
      split at h
      · rename_i hnr; subst hnr; cases h
        exact good_double hdec hpk _ (by rfl) (fun _ _ => rfl) (by decide)
      · rename_i hnr; cases h
        refine good_single hdec _ (by first | rfl | exact Or.inl rfl) (by fb_asc) ?_ (fun h => by cases h)
        intro b hb; rw [hpk] at hb; cases hb
        simp [forbiddenNext, hnr]
    · rename_i hpk; cases h
      refine good_single hdec _ (by first | rfl | exact Or.inl rfl) (by fb_asc) ?_ (fun h => by cases h)
      intro b hb; rw [hpk] at hb; cases hb
  rw [if_neg hr] at h
  by_cases hr : r = 0x3E
  · rw [if_pos hr] at h
    -- > >=
    subst hr
    split at h
    · rename_i nr nsz hpk
      split at h
      · rename_i hnr; subst hnr; cases h
        exact good_double hdec hpk _ (by rfl) (fun _ _ => rfl) (by decide)
      · rename_i hnr; cases h
        refine good_single hdec _ (by first | rfl | exact Or.inl rfl) (by fb_asc) ?_ (fun h => by cases h)
        intro b hb; rw [hpk] at hb; cases hb
        simp [forbiddenNext, hnr]
    · rename_i hpk; cases h
      refine good_single hdec _ (by first | rfl | exact Or.inl rfl) (by fb_asc) ?_ (fun h => by cases h)
      intro b hb; rw [hpk] at hb; cases hb
  rw [if_neg hr] at h
  by_cases hr : r = 0x40
  · rw [if_pos hr] at h
    subst hr; lex_one hdec h      -- @
  rw [if_neg hr] at h
  by_cases hr : r = 0x5B
  · rw [if_pos hr] at h  -- [ [? [] [*]
    subst hr
    split at h
    · rename_i nr nsz hpk
      split at h
      · rename_i hnr; subst hnr
        split at h
        · rename_i nnr nnsz hpk2
          split at h
          · rename_i hnnr; subst hnnr; cases h; exact good_triple hdec hpk hpk2
          · rename_i hnnr; cases h
            refine good_single hdec _ (by rfl) (by fb_asc) ?_ ?_
            · intro b hb; rw [hpk] at hb; cases hb; rfl
            · intro _ hw
              have := wild_of hw
              rw [hpk] at this
              have e : nsz = 1 := by have := this.1; simp at this; exact this
              subst e
              rw [hpk2] at this
              have := this.2; simp at this; exact hnnr this.1
        · rename_i hpk2; cases h
          refine good_single hdec _ (by rfl) (by fb_asc) ?_ ?_
          · intro b hb; rw [hpk] at hb; cases hb; rfl
          · intro _ hw
            have := wild_of hw
            rw [hpk] at this
            have e : nsz = 1 := by have := this.1; simp at this; exact this
            subst e
            rw [hpk2] at this
            have := this.2; simp at this
      · rename_i hnr
        split at h
        · rename_i hnr2; subst hnr2; cases h
          exact good_double hdec hpk _ (by rfl) (fun _ _ => rfl) (by decide)
        · rename_i hnr2
          split at h
          · rename_i hnr3; subst hnr3; cases h
            exact good_double hdec hpk _ (by rfl) (fun _ _ => rfl) (by decide)
          · rename_i hnr3; cases h
            refine good_single hdec _ (by rfl) (by fb_asc) ?_ ?_
            · intro b hb; rw [hpk] at hb; cases hb; simp [forbiddenNext, hnr2, hnr3]
            · intro _ hw
              have := (wild_of hw).1
              rw [hpk] at this; simp at this; exact hnr this.1
    · rename_i hpk; cases h
      refine good_single hdec _ (by rfl) (by fb_asc) ?_ ?_
      · intro b hb; rw [hpk] at hb; cases hb
      · intro _ hw
        have := (wild_of hw).1
        rw [hpk] at this; cases this
  rw [if_neg hr] at h
  by_cases hr : r = 0x5D
  · rw [if_pos hr] at h
    subst hr; lex_one hdec h      -- ]
  rw [if_neg hr] at h
  by_cases hr : r = 0x60
  · rw [if_pos hr] at h  -- `
    subst hr
    split at h
    · rename_i m hsc; cases h
      exact good_delim (by omega) hdec _ hsc (fun v hv => hv) (fun _ _ => rfl) (by decide)
    · cases h
  rw [if_neg hr] at h
  by_cases hr : r = 0x7B
  · rw [if_pos hr] at h
    subst hr; lex_one hdec h      -- {
  rw [if_neg hr] at h
  by_cases hr : r = 0x7C
  · rw [if_pos hr] at h
    -- | ||
    subst hr
    split at h
    · rename_i nr nsz hpk
      split at h
      · rename_i hnr; subst hnr; cases h
        exact good_double hdec hpk _ (by rfl) (fun _ _ => rfl) (by decide)
      · rename_i hnr; cases h
        refine good_single hdec _ (by first | rfl | exact Or.inl rfl) (by fb_asc) ?_ (fun h => by cases h)
        intro b hb; rw [hpk] at hb; cases hb
        simp [forbiddenNext, hnr]
    · rename_i hpk; cases h
      refine good_single hdec _ (by first | rfl | exact Or.inl rfl) (by fb_asc) ?_ (fun h => by cases h)
      intro b hb; rw [hpk] at hb; cases hb
  rw [if_neg hr] at h
  by_cases hr : r = 0x7D
  · rw [if_pos hr] at h
    subst hr; lex_one hdec h      -- }
  rw [if_neg hr] at h
  by_cases hr : r = 0xD7
  · rw [if_pos hr] at h
    subst hr; lex_one hdec h      -- ×
  rw [if_neg hr] at h
  by_cases hr : r = 0xF7
  · rw [if_pos hr] at h
    subst hr                      -- ÷
    cases h
    refine good_single hdec _ (Or.inr (by rfl)) (by fb_asc) ?_ (fun h => by cases h)
    intro b _; simp [forbiddenNext, encodeRune]
  rw [if_neg hr] at h
  by_cases hr : r = 0x2212
  · rw [if_pos hr] at h
    subst hr                      -- −
    cases h
    refine good_single hdec _ (Or.inr (by rfl)) (by fb_asc) ?_ (fun h => by cases h)
    intro b _; simp [forbiddenNext, encodeRune, isScalar, MaxRune]
  rw [if_neg hr] at h
  by_cases hr : r = 0x21
  · rw [if_pos hr] at h
    -- ! !=
    subst hr
    split at h
    · rename_i nr nsz hpk
      split at h
      · rename_i hnr; subst hnr; cases h
        exact good_double hdec hpk _ (by rfl) (fun _ _ => rfl) (by decide)
      · rename_i hnr; cases h
        refine good_single hdec _ (by first | rfl | exact Or.inl rfl) (by fb_asc) ?_ (fun h => by cases h)
        intro b hb; rw [hpk] at hb; cases hb
        simp [forbiddenNext, hnr]
    · rename_i hpk; cases h
      refine good_single hdec _ (by first | rfl | exact Or.inl rfl) (by fb_asc) ?_ (fun h => by cases h)
      intro b hb; rw [hpk] at hb; cases hb
  rw [if_neg hr] at h
  by_cases hr : isDigitR r = true
  · rw [if_pos hr] at h
    cases h; exact good_digits hdec hr
  rw [if_neg hr] at h
  by_cases hr : isAlphaR r = true
  · rw [if_pos hr] at h
    cases h; exact good_ident hdec hr
  rw [if_neg hr] at h
  · cases h


/-! ### the whole token stream: soundness -/

theorem lexAllAux_sound : ∀ (fuel : Nat) (s : Bytes) (ts : List Token), lexAllAux fuel s = (ts, none) → Lexes s ts
  | 0, s, ts => by intro h; simp [lexAllAux] at h
  | fuel + 1, s, ts => by
    intro h
    obtain ⟨w, hw, hs⟩ := skipWsLex_spec s.length s
    unfold lexAllAux at h
    split at h
    · rename_i heq
      cases h
      rw [heq, List.append_nil] at hs
      subst hs
      exact Lexes.done _ hw
    · rename_i s' hne
      split at h
      · cases h
      · rename_i t n htok
        generalize hrec : lexAllAux fuel (List.drop (max n 1) (skipWsLex s.length s)) = p at h
        obtain ⟨ts', e'⟩ := p
        simp only [Prod.mk.injEq] at h
        obtain ⟨h1, h2⟩ := h
        subst h1 h2
        have g := lexToken_good htok
        have hmax : max n 1 = n := by have := g.pos; omega
        rw [hmax] at hrec
        have ih := lexAllAux_sound fuel _ _ hrec
        have : s = w ++ t.value ++ List.drop n (skipWsLex s.length s) := by
          rw [g.val, List.append_assoc, List.take_append_drop]; exact hs
        rw [this]
        exact Lexes.tok w t _ _ hw g.shape ih

theorem lexAll_sound {s : Bytes} {ts : List Token} (h : lexAll s = (ts, none)) : Lexes s ts :=
  lexAllAux_sound _ _ _ h

theorem Lexes.ends {s : Bytes} {ts : List Token} (h : Lexes s ts) : ∃ pre, ts = pre ++ [⟨.end, []⟩] ∧ ∀ t ∈ pre, TokShape t.type t.value := by
  induction h with
  | done w _ => exact ⟨[], rfl, by intro t ht; cases ht⟩
  | tok w t rest ts _ hsh _ ih =>
    obtain ⟨pre, h1, h2⟩ := ih
    refine ⟨t :: pre, by rw [h1]; rfl, ?_⟩
    intro x hx; simp at hx; rcases hx with rfl | hx
    · exact hsh
    · exact h2 x hx

theorem Lexes.render {s : Bytes} {ts : List Token} (h : Lexes s ts) :
    ∃ ws : List Bytes, ws.length = ts.length ∧ (∀ w ∈ ws, Ws w) ∧ s = render ws (ts.map (·.value)) := by
  induction h with
  | done w hw => exact ⟨[w], rfl, by intro x hx; simp at hx; subst hx; exact hw, by simp [Lexical.render]⟩
  | tok w t rest ts hw _ _ ih =>
    obtain ⟨ws, h1, h2, h3⟩ := ih
    refine ⟨w :: ws, by simp [h1], ?_, by simp [Lexical.render, h3]⟩
    intro x hx; simp at hx; rcases hx with rfl | hx
    · exact hw
    · exact h2 x hx

set_option linter.unusedSimpArgs false

/-! ### completeness of one lexer step -/

theorem lexToken_alpha {s : Bytes} {r sz : Nat} (hdec : lexDecode s = .ok (r, sz)) (hr : isAlphaR r = true) :
    lexToken s =
      .ok (⟨if s.take (sz + spanRunes (fun r => isAlphaR r || isDigitR r) s.length (s.drop sz)) = [0x69, 0x6E]
              then TokenType.in
            else if s.take (sz + spanRunes (fun r => isAlphaR r || isDigitR r) s.length (s.drop sz)) = [0x6C, 0x65, 0x74]
              then TokenType.let else TokenType.unquotedIdentifier,
            s.take (sz + spanRunes (fun r => isAlphaR r || isDigitR r) s.length (s.drop sz))⟩,
           sz + spanRunes (fun r => isAlphaR r || isDigitR r) s.length (s.drop sz)) := by
  have hr' : ((0x41 ≤ r ∧ r ≤ 0x5A) ∨ (0x61 ≤ r ∧ r ≤ 0x7A)) ∨ r = 0x5F := by simpa [isAlphaR] using hr
  have hd : ¬ isDigitR r = true := by simp [isDigitR]; omega
  unfold lexToken
  rw [hdec]
  simp only []
  rw [if_neg (show ¬ r = 0x22 by omega)]
  rw [if_neg (show ¬ r = 0x24 by omega)]
  rw [if_neg (show ¬ r = 0x25 by omega)]
  rw [if_neg (show ¬ r = 0x26 by omega)]
  rw [if_neg (show ¬ r = 0x27 by omega)]
  rw [if_neg (show ¬ r = 0x28 by omega)]
  rw [if_neg (show ¬ r = 0x29 by omega)]
  rw [if_neg (show ¬ r = 0x2A by omega)]
  rw [if_neg (show ¬ r = 0x2B by omega)]
  rw [if_neg (show ¬ r = 0x2C by omega)]
  rw [if_neg (show ¬ r = 0x2D by omega)]
  rw [if_neg (show ¬ r = 0x2E by omega)]
  rw [if_neg (show ¬ r = 0x2F by omega)]
  rw [if_neg (show ¬ r = 0x3A by omega)]
  rw [if_neg (show ¬ r = 0x3C by omega)]
  rw [if_neg (show ¬ r = 0x3D by omega)]
  rw [if_neg (show ¬ r = 0x3E by omega)]
  rw [if_neg (show ¬ r = 0x40 by omega)]
  rw [if_neg (show ¬ r = 0x5B by omega)]
  rw [if_neg (show ¬ r = 0x5D by omega)]
  rw [if_neg (show ¬ r = 0x60 by omega)]
  rw [if_neg (show ¬ r = 0x7B by omega)]
  rw [if_neg (show ¬ r = 0x7C by omega)]
  rw [if_neg (show ¬ r = 0x7D by omega)]
  rw [if_neg (show ¬ r = 0xD7 by omega)]
  rw [if_neg (show ¬ r = 0xF7 by omega)]
  rw [if_neg (show ¬ r = 0x2212 by omega)]
  rw [if_neg (show ¬ r = 0x21 by omega)]
  rw [if_neg hd, if_pos hr]

theorem lexToken_digit {s : Bytes} {r sz : Nat} (hdec : lexDecode s = .ok (r, sz)) (hr : isDigitR r = true) :
    lexToken s = .ok (⟨.integerLiteral, s.take (sz + spanRunes isDigitR s.length (s.drop sz))⟩,
      sz + spanRunes isDigitR s.length (s.drop sz)) := by
  have hr' : 0x30 ≤ r ∧ r ≤ 0x39 := by simpa [isDigitR] using hr
  unfold lexToken
  rw [hdec]
  simp only []
  rw [if_neg (show ¬ r = 0x22 by omega)]
  rw [if_neg (show ¬ r = 0x24 by omega)]
  rw [if_neg (show ¬ r = 0x25 by omega)]
  rw [if_neg (show ¬ r = 0x26 by omega)]
  rw [if_neg (show ¬ r = 0x27 by omega)]
  rw [if_neg (show ¬ r = 0x28 by omega)]
  rw [if_neg (show ¬ r = 0x29 by omega)]
  rw [if_neg (show ¬ r = 0x2A by omega)]
  rw [if_neg (show ¬ r = 0x2B by omega)]
  rw [if_neg (show ¬ r = 0x2C by omega)]
  rw [if_neg (show ¬ r = 0x2D by omega)]
  rw [if_neg (show ¬ r = 0x2E by omega)]
  rw [if_neg (show ¬ r = 0x2F by omega)]
  rw [if_neg (show ¬ r = 0x3A by omega)]
  rw [if_neg (show ¬ r = 0x3C by omega)]
  rw [if_neg (show ¬ r = 0x3D by omega)]
  rw [if_neg (show ¬ r = 0x3E by omega)]
  rw [if_neg (show ¬ r = 0x40 by omega)]
  rw [if_neg (show ¬ r = 0x5B by omega)]
  rw [if_neg (show ¬ r = 0x5D by omega)]
  rw [if_neg (show ¬ r = 0x60 by omega)]
  rw [if_neg (show ¬ r = 0x7B by omega)]
  rw [if_neg (show ¬ r = 0x7C by omega)]
  rw [if_neg (show ¬ r = 0x7D by omega)]
  rw [if_neg (show ¬ r = 0xD7 by omega)]
  rw [if_neg (show ¬ r = 0xF7 by omega)]
  rw [if_neg (show ¬ r = 0x2212 by omega)]
  rw [if_neg (show ¬ r = 0x21 by omega)]
  rw [if_pos hr]

theorem lexToken_ws {s : Bytes} {r sz : Nat} (hdec : lexDecode s = .ok (r, sz)) (hr : isWsR r = true) :
    lexToken s = .error (.unexpectedRune r) := by
  have hr' : ((r = 0x09 ∨ r = 0x0A) ∨ r = 0x0D) ∨ r = 0x20 := by simpa [isWsR] using hr
  have hd : ¬ isDigitR r = true := by simp [isDigitR]; omega
  have ha : ¬ isAlphaR r = true := by simp [isAlphaR]; omega
  unfold lexToken
  rw [hdec]
  simp only []
  rw [if_neg (show ¬ r = 0x22 by omega)]
  rw [if_neg (show ¬ r = 0x24 by omega)]
  rw [if_neg (show ¬ r = 0x25 by omega)]
  rw [if_neg (show ¬ r = 0x26 by omega)]
  rw [if_neg (show ¬ r = 0x27 by omega)]
  rw [if_neg (show ¬ r = 0x28 by omega)]
  rw [if_neg (show ¬ r = 0x29 by omega)]
  rw [if_neg (show ¬ r = 0x2A by omega)]
  rw [if_neg (show ¬ r = 0x2B by omega)]
  rw [if_neg (show ¬ r = 0x2C by omega)]
  rw [if_neg (show ¬ r = 0x2D by omega)]
  rw [if_neg (show ¬ r = 0x2E by omega)]
  rw [if_neg (show ¬ r = 0x2F by omega)]
  rw [if_neg (show ¬ r = 0x3A by omega)]
  rw [if_neg (show ¬ r = 0x3C by omega)]
  rw [if_neg (show ¬ r = 0x3D by omega)]
  rw [if_neg (show ¬ r = 0x3E by omega)]
  rw [if_neg (show ¬ r = 0x40 by omega)]
  rw [if_neg (show ¬ r = 0x5B by omega)]
  rw [if_neg (show ¬ r = 0x5D by omega)]
  rw [if_neg (show ¬ r = 0x60 by omega)]
  rw [if_neg (show ¬ r = 0x7B by omega)]
  rw [if_neg (show ¬ r = 0x7C by omega)]
  rw [if_neg (show ¬ r = 0x7D by omega)]
  rw [if_neg (show ¬ r = 0xD7 by omega)]
  rw [if_neg (show ¬ r = 0xF7 by omega)]
  rw [if_neg (show ¬ r = 0x2212 by omega)]
  rw [if_neg (show ¬ r = 0x21 by omega)]
  rw [if_neg hd, if_neg ha]


/-- what follows a token in the canonical rendering: nothing, or a blank -/
def Sep (rest : Bytes) : Prop := rest = [] ∨ ∃ r, rest = 0x20 :: r

theorem lexDecode_nil : lexDecode [] = .error .unexpectedEnd := by simp [lexDecode, decodeRune]

theorem spanRunes_complete (p : Nat → Bool) (hp : ∀ r, p r = true → r < 0x80) (rest : Bytes)
    (hrest : rest = [] ∨ ∃ b r, rest = b :: r ∧ b < 0x80 ∧ p b = false) :
    ∀ (t : Bytes) (fuel : Nat), t.length ≤ fuel → (∀ b ∈ t, p b = true) → spanRunes p fuel (t ++ rest) = t.length
  | [], fuel, _, _ => by
    cases fuel with
    | zero => rfl
    | succ f =>
      rcases hrest with rfl | ⟨b, r, rfl, hb, hpb⟩
      · simp [spanRunes, lexDecode_nil]
      · simp [spanRunes, lexDecode_cons_ascii hb, hpb]
  | c :: t, fuel, hf, hall => by
    match fuel, hf with
    | f + 1, hf =>
      have hc := hall c (by simp)
      have ih := spanRunes_complete p hp rest hrest t f (by simpa using hf) (fun b hb => hall b (by simp [hb]))
      simp only [List.cons_append, spanRunes, lexDecode_cons_ascii (hp c hc), hc, if_true, List.drop_succ_cons,
        List.drop_zero, ih, List.length_cons]
      omega

theorem sep_span (p : Nat → Bool) (h20 : p 0x20 = false) {rest : Bytes} (hs : Sep rest) :
    rest = [] ∨ ∃ b r, rest = b :: r ∧ b < 0x80 ∧ p b = false := by
  rcases hs with rfl | ⟨r, rfl⟩
  · exact Or.inl rfl
  · exact Or.inr ⟨0x20, r, rfl, by omega, h20⟩

theorem scanDelim_complete {d : Nat} (hd : d < 0x80) (hd2 : d ≠ 0x5C) {w : Bytes} (hw : DelimBody d w) :
    ∀ (fuel n : Nat) (rest : Bytes), w.length ≤ fuel → scanDelim d fuel (w ++ rest) n = .ok (n + w.length) := by
  induction hw with
  | close =>
    intro fuel n rest hf
    simp only [List.length_cons, List.length_nil] at hf
    cases fuel with
    | zero => omega
    | succ f => simp [scanDelim, lexDecode_cons_ascii hd]
  | esc c w h1 _ ih =>
    intro fuel n rest hf
    have hp := encodeRune_length_pos c
    simp only [List.length_cons, List.length_append] at hf
    match fuel, hf with
    | f + 1, hf =>
      have e1 : lexDecode (0x5C :: (encodeRune c ++ w) ++ rest) = .ok (0x5C, 1) := lexDecode_cons_ascii (by omega)
      have hd3 : ¬ (0x5C = d) := fun h => hd2 h.symm
      have e2 : List.drop 1 (0x5C :: (encodeRune c ++ w) ++ rest) = encodeRune c ++ (w ++ rest) := by simp
      have e3 : List.drop (1 + (encodeRune c).length) (0x5C :: (encodeRune c ++ w) ++ rest) = w ++ rest := by
        rw [← List.drop_drop, e2, List.drop_left]
      simp only [scanDelim, e1, hd3, if_false, if_true, e2, lexDecode_enc c h1, e3]
      rw [ih f _ rest (by omega)]
      simp only [List.length_append, List.length_cons]; congr 1; omega
  | plain c w h1 h2 h3 _ ih =>
    intro fuel n rest hf
    have hp := encodeRune_length_pos c
    simp only [List.length_append] at hf
    cases fuel with
    | zero => omega
    | succ f =>
      rw [List.append_assoc]
      simp only [scanDelim, lexDecode_enc c h1, h2, h3, if_false, List.drop_left]
      rw [ih f _ rest (by omega)]
      simp only [List.length_append]; congr 1; omega

theorem DelimBody.length_pos {d : Nat} {w : Bytes} (h : DelimBody d w) : 0 < w.length := by
  cases h with
  | close => simp
  | esc => simp
  | plain c w => have := encodeRune_length_pos c; simp; omega

theorem peek_sep {pre rest : Bytes} (hs : Sep rest) :
    peek (pre ++ rest) pre.length = none ∨ peek (pre ++ rest) pre.length = some (0x20, 1) := by
  unfold peek
  rw [List.drop_left]
  rcases hs with rfl | ⟨r, rfl⟩
  · left; rw [lexDecode_nil]
  · right; rw [lexDecode_cons_ascii (by omega)]


theorem lexDecode_minus (rest : Bytes) : lexDecode (0xE2 :: 0x88 :: 0x92 :: rest) = .ok (0x2212, 3) :=
  lexDecode_enc 0x2212 (by decide) rest
theorem lexDecode_times (rest : Bytes) : lexDecode (0xC3 :: 0x97 :: rest) = .ok (0xD7, 2) :=
  lexDecode_enc 0xD7 (by decide) rest
theorem lexDecode_div (rest : Bytes) : lexDecode (0xC3 :: 0xB7 :: rest) = .ok (0xF7, 2) :=
  lexDecode_enc 0xF7 (by decide) rest


theorem take_len_append (v rest : Bytes) : (v ++ rest).take v.length = v := by simp

theorem complete_ident {v : Bytes} (h : Ident v) {rest : Bytes} (hs : Sep rest) :
    lexToken (v ++ rest) = .ok (⟨if v = [0x69, 0x6E] then TokenType.in
            else if v = [0x6C, 0x65, 0x74] then TokenType.let else TokenType.unquotedIdentifier, v⟩, v.length) := by
  obtain ⟨c, t, rfl, hc, ht⟩ := h
  have hdec : lexDecode (c :: t ++ rest) = .ok (c, 1) := lexDecode_cons_ascii (isIdStartB_lt hc)
  have hsp : spanRunes (fun r => isAlphaR r || isDigitR r) (c :: t ++ rest).length ((c :: t ++ rest).drop 1) = t.length :=
    spanRunes_complete _ (fun r h => isIdCharB_lt h) rest (sep_span _ (by decide) hs) t _ (by simp; omega) ht
  rw [lexToken_alpha hdec hc, hsp]
  have e : (c :: t ++ rest).take (1 + t.length) = c :: t := by
    rw [Nat.add_comm]; exact take_len_append (c :: t) rest
  rw [e]
  simp only [List.length_cons]
  rw [Nat.add_comm]

theorem complete_digits {v : Bytes} (h : Digits v) {rest : Bytes} (hs : Sep rest) :
    lexToken (v ++ rest) = .ok (⟨.integerLiteral, v⟩, v.length) := by
  obtain ⟨hne, hall⟩ := h
  match v, hne with
  | c :: t, _ =>
    have hc : isDigitB c = true := hall c (by simp)
    have hdec : lexDecode (c :: t ++ rest) = .ok (c, 1) := lexDecode_cons_ascii (isDigitB_lt hc)
    have hsp : spanRunes isDigitR (c :: t ++ rest).length ((c :: t ++ rest).drop 1) = t.length :=
      spanRunes_complete _ (fun r h => isDigitB_lt h) rest (sep_span _ (by decide) hs) t _ (by simp; omega)
        (fun b hb => hall b (by simp [hb]))
    rw [lexToken_digit hdec hc, hsp]
    have e : (c :: t ++ rest).take (1 + t.length) = c :: t := by
      rw [Nat.add_comm]; exact take_len_append (c :: t) rest
    rw [e]
    simp only [List.length_cons]
    rw [Nat.add_comm]

theorem complete_negdigits {d : Bytes} (h : Digits d) {rest : Bytes} (hs : Sep rest) :
    lexToken (0x2D :: d ++ rest) = .ok (⟨.integerLiteral, 0x2D :: d⟩, (0x2D :: d).length) := by
  obtain ⟨hne, hall⟩ := h
  match d, hne with
  | c :: t, _ =>
    have hc : isDigitB c = true := hall c (by simp)
    have hc' : isDigitR c = true := hc
    have hpk : lexDecode (c :: (t ++ rest)) = .ok (c, 1) := lexDecode_cons_ascii (isDigitB_lt hc)
    have hsp : spanRunes isDigitR (0x2D :: c :: t ++ rest).length (t ++ rest) = t.length :=
      spanRunes_complete _ (fun r h => isDigitB_lt h) rest (sep_span _ (by decide) hs) t _ (by simp; omega)
        (fun b hb => hall b (by simp [hb]))
    have e : (0x2D :: c :: t ++ rest).take (1 + 1 + t.length) = 0x2D :: c :: t := by
      rw [show 1 + 1 + t.length = (0x2D :: c :: t).length by simp; omega]; exact take_len_append _ rest
    simp only [lexToken, lexDecode_cons_ascii (show 0x2D < 0x80 by omega), List.cons_append, peek,
      List.drop_succ_cons, List.drop_zero, hpk, hc', if_true]
    simp only [List.cons_append] at hsp e
    rw [hsp, e]
    simp only [List.length_cons, Nat.reduceEqDiff, ↓reduceIte]
    congr 2; omega

theorem complete_variable {w : Bytes} (h : Ident w) {rest : Bytes} (hs : Sep rest) :
    lexToken (0x24 :: w ++ rest) = .ok (⟨.variable, 0x24 :: w⟩, (0x24 :: w).length) := by
  obtain ⟨c, t, rfl, hc, ht⟩ := h
  have hc' : isAlphaR c = true := hc
  have hpk : lexDecode (c :: (t ++ rest)) = .ok (c, 1) := lexDecode_cons_ascii (isIdStartB_lt hc)
  have hsp : spanRunes (fun r => isAlphaR r || isDigitR r) (0x24 :: c :: t ++ rest).length (t ++ rest) = t.length :=
    spanRunes_complete _ (fun r h => isIdCharB_lt h) rest (sep_span _ (by decide) hs) t _ (by simp; omega) ht
  have e : (0x24 :: c :: t ++ rest).take (1 + 1 + t.length) = 0x24 :: c :: t := by
    rw [show 1 + 1 + t.length = (0x24 :: c :: t).length by simp; omega]; exact take_len_append _ rest
  simp only [lexToken, lexDecode_cons_ascii (show 0x24 < 0x80 by omega), List.cons_append, peek,
    List.drop_succ_cons, List.drop_zero, hpk, hc', if_true]
  simp only [List.cons_append] at hsp e
  rw [hsp, e]
  simp only [List.length_cons, Nat.reduceEqDiff, ↓reduceIte]
  congr 2; omega

theorem complete_quoted {v : Bytes} (h : Delimited 0x22 v) (rest : Bytes) :
    lexToken (v ++ rest) = .ok (⟨.quotedIdentifier, v⟩, v.length) := by
  obtain ⟨w, rfl, hw⟩ := h
  have hsc := scanDelim_complete (d := 0x22) (by omega) (by omega) hw ((0x22 :: w ++ rest).length + 1) 1 rest
    (by simp; omega)
  simp only [lexToken, List.cons_append, lexDecode_cons_ascii (show 0x22 < 0x80 by omega), List.drop_succ_cons,
    List.drop_zero]
  simp only [List.cons_append] at hsc
  rw [hsc]
  dsimp only
  rw [Nat.add_comm 1 w.length, List.take_succ_cons, take_len_append]
  rfl

theorem complete_raw {v : Bytes} (h : Delimited 0x27 v) (rest : Bytes) :
    lexToken (v ++ rest) = .ok (⟨.stringLiteral, v⟩, v.length) := by
  obtain ⟨w, rfl, hw⟩ := h
  have hsc := scanDelim_complete (d := 0x27) (by omega) (by omega) hw ((0x27 :: w ++ rest).length + 1) 1 rest
    (by simp; omega)
  simp only [lexToken, List.cons_append, lexDecode_cons_ascii (show 0x27 < 0x80 by omega), List.drop_succ_cons,
    List.drop_zero, Nat.reduceEqDiff, ↓reduceIte]
  simp only [List.cons_append] at hsc
  rw [hsc]
  dsimp only
  rw [Nat.add_comm 1 w.length, List.take_succ_cons, take_len_append]
  rfl

theorem complete_json {v : Bytes} (h : Delimited 0x60 v) (rest : Bytes) :
    lexToken (v ++ rest) = .ok (⟨.jsonLiteral, v⟩, v.length) := by
  obtain ⟨w, rfl, hw⟩ := h
  have hsc := scanDelim_complete (d := 0x60) (by omega) (by omega) hw ((0x60 :: w ++ rest).length + 1) 1 rest
    (by simp; omega)
  simp only [lexToken, List.cons_append, lexDecode_cons_ascii (show 0x60 < 0x80 by omega), List.drop_succ_cons,
    List.drop_zero, Nat.reduceEqDiff, ↓reduceIte]
  simp only [List.cons_append] at hsc
  rw [hsc]
  dsimp only
  rw [Nat.add_comm 1 w.length, List.take_succ_cons, take_len_append]
  rfl


macro "lex_fixed" : tactic => `(tactic|
  simp [lexToken, peek, lexDecode_nil, lexDecode_cons_ascii, lexDecode_minus, lexDecode_times, lexDecode_div,
      isAlphaR, isDigitR])

/-- **Completeness of one lexer step**: a byte string of the shape of a token of type `ty`, followed by nothing or
    by a blank, is lexed as exactly that token. -/
theorem lexToken_complete {ty : TokenType} {v : Bytes} (h : TokShape ty v) {rest : Bytes} (hs : Sep rest) :
    lexToken (v ++ rest) = .ok (⟨ty, v⟩, v.length) := by
  cases ty <;> simp only [TokShape] at h
  case unquotedIdentifier =>
    obtain ⟨h1, h2, h3⟩ := h
    simp only [kwLet, kwIn] at h2 h3
    rw [complete_ident h1 hs, if_neg h3, if_neg h2]
  case «let» => subst h; exact complete_ident ⟨_, _, rfl, by decide, by decide⟩ hs
  case «in» => subst h; exact complete_ident ⟨_, _, rfl, by decide, by decide⟩ hs
  case integerLiteral =>
    rcases h with h | ⟨d, rfl, h⟩
    · exact complete_digits h hs
    · exact complete_negdigits h hs
  case «variable» => obtain ⟨w, rfl, hw⟩ := h; exact complete_variable hw hs
  case quotedIdentifier => exact complete_quoted h rest
  case stringLiteral => exact complete_raw h rest
  case jsonLiteral => exact complete_json h rest
  case subtract => rcases h with rfl | rfl <;> rcases hs with rfl | ⟨r, rfl⟩ <;> lex_fixed
  case divide => rcases h with rfl | rfl <;> rcases hs with rfl | ⟨r, rfl⟩ <;> lex_fixed
  all_goals (subst h; rcases hs with rfl | ⟨r, rfl⟩ <;> lex_fixed)

theorem tokShape_ne_nil {ty : TokenType} {v : Bytes} (h : TokShape ty v) : v ≠ [] := by
  intro hv; subst hv
  cases ty <;> simp [TokShape, Ident, Digits, Delimited, kwLet, kwIn] at h

/-- a string on which the lexer step succeeds does not start with whitespace -/
theorem skipWsLex_of_ok {s : Bytes} {x : Token × Nat} (h : lexToken s = .ok x) : ∀ fuel, skipWsLex fuel s = s
  | 0 => rfl
  | fuel + 1 => by
    unfold skipWsLex
    split
    · rfl
    · split
      · rename_i r sz hd
        split
        · rename_i hw
          rw [lexToken_ws hd hw] at h; cases h
        · rfl
      · rfl

theorem lexAllAux_nil (fuel : Nat) : lexAllAux (fuel + 1) [] = ([⟨.end, []⟩], none) := by
  simp [lexAllAux, skipWsLex]

theorem lexAllAux_blank (fuel : Nat) (r : Bytes) : lexAllAux (fuel + 1) (0x20 :: r) = lexAllAux (fuel + 1) r := by
  have e : skipWsLex (0x20 :: r).length (0x20 :: r) = skipWsLex r.length r := by
    simp [skipWsLex, lexDecode_cons_ascii, isWsR]
  unfold lexAllAux
  rw [e]

theorem lexAllAux_tok {t : Token} (h : TokShape t.type t.value) {rest : Bytes} (hs : Sep rest) (fuel : Nat) :
    lexAllAux (fuel + 1) (t.value ++ rest) = (t :: (lexAllAux fuel rest).1, (lexAllAux fuel rest).2) := by
  have hl := lexToken_complete h hs
  have hne := tokShape_ne_nil h
  have hpos : 0 < t.value.length := List.length_pos_iff.2 hne
  rw [lexAllAux]
  rw [skipWsLex_of_ok hl]
  split
  · rename_i heq; simp at heq; exact absurd heq.1 hne
  · rw [hl]
    simp only []
    rw [show max t.value.length 1 = t.value.length by omega, List.drop_left]

/-- **Item 5**: the canonical rendering of a token list (single blanks between the values) lexes back to that list -/
theorem lexAllAux_spaced : ∀ (ts : List Token), (∀ t ∈ ts, TokShape t.type t.value) → ∀ fuel,
    (spaced (ts.map (·.value))).length + 1 ≤ fuel →
    lexAllAux fuel (spaced (ts.map (·.value))) = (ts ++ [⟨.end, []⟩], none)
  | [], _, fuel, hf => by
    match fuel, hf with
    | f + 1, _ => exact lexAllAux_nil f
  | [t], h, fuel, hf => by
    have ht := h t (by simp)
    have hpos : 0 < t.value.length := List.length_pos_iff.2 (tokShape_ne_nil ht)
    simp only [List.map_cons, List.map_nil, spaced] at hf ⊢
    obtain ⟨f, rfl⟩ : ∃ f, fuel = f + 2 := ⟨fuel - 2, by omega⟩
    have := lexAllAux_tok ht (Or.inl rfl) (f + 1)
    rw [List.append_nil] at this
    rw [this, lexAllAux_nil]; rfl
  | t :: t' :: ts, h, fuel, hf => by
    have ht := h t (by simp)
    have hpos : 0 < t.value.length := List.length_pos_iff.2 (tokShape_ne_nil ht)
    have e : spaced ((t :: t' :: ts).map (·.value)) = t.value ++ 0x20 :: spaced ((t' :: ts).map (·.value)) := rfl
    rw [e] at hf ⊢
    simp only [List.length_append, List.length_cons] at hf
    obtain ⟨f, rfl⟩ : ∃ f, fuel = f + 2 := ⟨fuel - 2, by omega⟩
    rw [lexAllAux_tok ht (Or.inr ⟨_, rfl⟩) (f + 1), lexAllAux_blank,
      lexAllAux_spaced (t' :: ts) (fun x hx => h x (by simp [hx])) (f + 1) (by omega)]
    rfl

theorem lexAll_spaced (ts : List Token) (h : ∀ t ∈ ts, TokShape t.type t.value) :
    lexAll (spaced (ts.map (·.value))) = (ts ++ [⟨.end, []⟩], none) :=
  lexAllAux_spaced ts h _ (Nat.le_refl _)


/-! ### non-vacuity: the lemmas above on concrete inputs -/

-- `lexDecode_ok` / `lexDecode_ok_ascii`
example : lexDecode [0xC3, 0x97, 0x61] = .ok (0xD7, 2) := by rfl
example : encodeRune 0xD7 = [0xC3, 0x97] := by decide
-- `skipWsLex_spec`
example : skipWsLex 3 [0x20, 0x09, 0x61] = [0x61] := by decide
-- `spanRunes_spec` / `spanRunes_max` / `spanRunes_complete`: `ab1+` has a three-byte identifier prefix
example : spanRunes (fun r => isAlphaR r || isDigitR r) 4 [0x61, 0x62, 0x31, 0x2B] = 3 := by decide
-- `scanDelim_sound` / `scanDelim_complete`: the body `a\''` after an opening quote (already counted: 1)
example : scanDelim 0x27 5 [0x61, 0x5C, 0x27, 0x27] 1 = .ok 5 := by rfl
example : DelimBody 0x27 [0x61, 0x5C, 0x27, 0x27] :=
  DelimBody.plain 0x61 _ (by decide) (by decide) (by decide) (DelimBody.esc 0x27 _ (by decide) DelimBody.close)
-- `lexToken_good`
example : Good [0x3C, 0x3D, 0x78] ⟨.lessOrEqual, [0x3C, 0x3D]⟩ 2 := lexToken_good (by rfl)
example : Good [0x5B, 0x2A, 0x61] ⟨.openSqBrace, [0x5B]⟩ 1 := lexToken_good (by rfl)
-- `lexToken_ws`
example : lexToken [0x20, 0x61] = .error (.unexpectedRune 0x20) := by rfl
-- `lexToken_complete` on a delimited token followed by a blank
example : lexToken ([0x60, 0x31, 0x60] ++ [0x20, 0x61]) = .ok (⟨.jsonLiteral, [0x60, 0x31, 0x60]⟩, 3) :=
  lexToken_complete (ty := .jsonLiteral)
    ⟨[0x31, 0x60], rfl, DelimBody.plain 0x31 _ (by decide) (by decide) (by decide) DelimBody.close⟩
    (Or.inr ⟨[0x61], rfl⟩)
-- `lexAll_spaced`
example : lexAll (spaced [[0x61], [0x2E], [0x62]]) =
    ([⟨.unquotedIdentifier, [0x61]⟩, ⟨.dot, [0x2E]⟩, ⟨.unquotedIdentifier, [0x62]⟩, ⟨.end, []⟩], none) :=
  lexAll_spaced [⟨.unquotedIdentifier, [0x61]⟩, ⟨.dot, [0x2E]⟩, ⟨.unquotedIdentifier, [0x62]⟩]
    (by
      intro t ht
      simp at ht
      rcases ht with rfl | rfl | rfl
      · exact ⟨⟨0x61, [], rfl, by decide, by decide⟩, by decide, by decide⟩
      · rfl
      · exact ⟨⟨0x62, [], rfl, by decide, by decide⟩, by decide, by decide⟩)

end Jmes.Lex
