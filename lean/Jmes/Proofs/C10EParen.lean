/-
  C10 (fourth part), helpers for parentheses in the TEXT:

  * `Ins hd t t'` — `t'` is the tree `t` with ONE sub-tree `s` replaced by `( s )`, at any position where an expression
    may start (not directly after a `.`, not at the start of a projection's right-hand side, not around `&e`);
  * `Ins.sound` — the result is a tree of the grammar denoting the same node;
  * `Ins.span` — on the tokens, the replacement inserts `(` before and `)` after a contiguous span;
  * `fullParen_tokens` — the tokens of `fullParen t` are those of `t` and parentheses.
-/
import Jmes.Proofs.C10ELemmas
namespace Jmes.C10E
open Jmes Jmes.Parser Jmes.Grammar Jmes.GrammarF0 Jmes.GrammarF2
open Jmes.C10B (Lexes Tight)
set_option linter.unusedSimpArgs false
set_option linter.unusedVariables false

/-- **`Ins hd t t'`**: `t'` is `t` with one sub-tree `s` replaced by `.paren s`.  `hd = true`: the pair may also be put
    around `t` itself or around a prefix of it (an expression may start here); `hd = false`: `t` is the right operand of
    a `.` or the right-hand side of a projection, whose first token must stay where it is — the pair can go anywhere
    strictly inside. -/
inductive Ins : Bool → PTree → PTree → Prop
  | here (s : PTree) : s.isIcur = false → s.isRef = false → Ins true s (.paren s)
  | paren {hd : Bool} {s s' : PTree} : Ins true s s' → Ins hd (.paren s) (.paren s')
  | not {hd : Bool} {s s' : PTree} : Ins true s s' → Ins hd (.not s) (.not s')
  | neg {hd : Bool} {tok : Token} {s s' : PTree} : Ins true s s' → Ins hd (.neg tok s) (.neg tok s')
  | pos {hd : Bool} {s s' : PTree} : Ins true s s' → Ins hd (.pos s) (.pos s')
  | binL {hd : Bool} {op : Token} {l l' r : PTree} : Ins hd l l' → Ins hd (.bin op l r) (.bin op l' r)
  | binR {hd : Bool} {op : Token} {l r r' : PTree} : Ins true r r' → Ins hd (.bin op l r) (.bin op l r')
  | dotIdL {hd : Bool} {l l' r : PTree} : Ins hd l l' → Ins hd (.dotId l r) (.dotId l' r)
  | dotIdR {hd : Bool} {l r r' : PTree} : Ins false r r' → Ins hd (.dotId l r) (.dotId l r')
  | dotListL {hd : Bool} {l l' : PTree} {es : List PTree} : Ins hd l l' → Ins hd (.dotList l es) (.dotList l' es)
  | dotListE {hd : Bool} {l : PTree} (xs ys : List PTree) {e e' : PTree} : Ins true e e' →
      Ins hd (.dotList l (xs ++ e :: ys)) (.dotList l (xs ++ e' :: ys))
  | dotHashL {hd : Bool} {l l' : PTree} {kvs : List (Token × PTree)} : Ins hd l l' →
      Ins hd (.dotHash l kvs) (.dotHash l' kvs)
  | dotHashE {hd : Bool} {l : PTree} (xs ys : List (Token × PTree)) (k : Token) {e e' : PTree} : Ins true e e' →
      Ins hd (.dotHash l (xs ++ (k, e) :: ys)) (.dotHash l (xs ++ (k, e') :: ys))
  | dotStarListL {hd : Bool} {l l' : PTree} : Ins hd l l' → Ins hd (.dotStarList l) (.dotStarList l')
  | indexL {hd : Bool} {l l' : PTree} {n : Token} : Ins hd l l' → Ins hd (.index l n) (.index l' n)
  | callA {hd : Bool} {name : Token} (xs ys : List PTree) {e e' : PTree} : Ins true e e' →
      Ins hd (.call name (xs ++ e :: ys)) (.call name (xs ++ e' :: ys))
  | callR {hd : Bool} {name : Token} (xs ys : List PTree) {e e' : PTree} : Ins true e e' →
      Ins hd (.call name (xs ++ .ref e :: ys)) (.call name (xs ++ .ref e' :: ys))
  | letB {hd : Bool} (xs ys : List (Token × PTree)) (k : Token) {body e e' : PTree} : Ins true e e' →
      Ins hd (.letIn (xs ++ (k, e) :: ys) body) (.letIn (xs ++ (k, e') :: ys) body)
  | letBody {hd : Bool} {bs : List (Token × PTree)} {body body' : PTree} : Ins true body body' →
      Ins hd (.letIn bs body) (.letIn bs body')
  | multiListE {hd : Bool} (xs ys : List PTree) {e e' : PTree} : Ins true e e' →
      Ins hd (.multiList (xs ++ e :: ys)) (.multiList (xs ++ e' :: ys))
  | multiHashE {hd : Bool} (xs ys : List (Token × PTree)) (k : Token) {e e' : PTree} : Ins true e e' →
      Ins hd (.multiHash (xs ++ (k, e) :: ys)) (.multiHash (xs ++ (k, e') :: ys))
  | starL {hd : Bool} {l l' rhs : PTree} : Ins hd l l' → Ins hd (.star l rhs) (.star l' rhs)
  | starR {hd : Bool} {l rhs rhs' : PTree} : Ins false rhs rhs' → Ins hd (.star l rhs) (.star l rhs')
  | ostarL {hd : Bool} {l l' rhs : PTree} : Ins hd l l' → Ins hd (.ostar l rhs) (.ostar l' rhs)
  | ostarR {hd : Bool} {l rhs rhs' : PTree} : Ins false rhs rhs' → Ins hd (.ostar l rhs) (.ostar l rhs')
  | flatL {hd : Bool} {l l' rhs : PTree} : Ins hd l l' → Ins hd (.flat l rhs) (.flat l' rhs)
  | flatR {hd : Bool} {l rhs rhs' : PTree} : Ins false rhs rhs' → Ins hd (.flat l rhs) (.flat l rhs')
  | filtL {hd : Bool} {l l' c rhs : PTree} : Ins hd l l' → Ins hd (.filt l c rhs) (.filt l' c rhs)
  | filtC {hd : Bool} {l c c' rhs : PTree} : Ins true c c' → Ins hd (.filt l c rhs) (.filt l c' rhs)
  | filtR {hd : Bool} {l c rhs rhs' : PTree} : Ins false rhs rhs' → Ins hd (.filt l c rhs) (.filt l c rhs')
  | sliceL {hd : Bool} {l l' rhs : PTree} {a b : Option Token} {c : Option (Option Token)} : Ins hd l l' →
      Ins hd (.slice l a b c rhs) (.slice l' a b c rhs)
  | sliceR {hd : Bool} {l rhs rhs' : PTree} {a b : Option Token} {c : Option (Option Token)} : Ins false rhs rhs' →
      Ins hd (.slice l a b c rhs) (.slice l a b c rhs')

/-! ## Small facts -/

theorem Ins.not_icur {hd : Bool} {t t' : PTree} (h : Ins hd t t') : t.isIcur = false ∧ t'.isIcur = false := by
  cases h <;> first | exact ⟨rfl, rfl⟩ | exact ⟨by assumption, rfl⟩

theorem Ins.not_ref {hd : Bool} {t t' : PTree} (h : Ins hd t t') : t.isRef = false ∧ t'.isRef = false := by
  cases h <;> first | exact ⟨rfl, rfl⟩ | exact ⟨by assumption, rfl⟩

theorem llevel_le_top : ∀ t : PTree, llevel t ≤ top := by
  have key : ∀ (lvl : Nat) (l : PTree), llevel l ≤ top → lmin lvl l (llevel l) ≤ top := by
    intro lvl l h
    unfold lmin
    split
    · exact Nat.le_refl _
    · exact Nat.le_trans (Nat.min_le_right _ _) h
  apply PTree.ind
  case h_bin => intro op l r hl _; exact key _ l hl
  case h_dotId => intro l r hl _; exact key _ l hl
  case h_dotList => intro l es hl _; exact key _ l hl
  case h_dotHash => intro l es hl _; exact key _ l hl
  case h_dotStarList => intro l hl; exact key _ l hl
  case h_index => intro l n hl; exact key _ l hl
  case h_star => intro l rhs hl _; exact key _ l hl
  case h_ostar => intro l rhs hl _; exact key _ l hl
  case h_flat => intro l rhs hl _; exact key _ l hl
  case h_filt => intro l c rhs hl _ _; exact key _ l hl
  case h_slice => intro l a b c rhs hl _; exact key _ l hl
  all_goals (intros; exact Nat.le_refl _)

theorem wpL_append : ∀ (xs ys : List PTree), wpL (xs ++ ys) = (wpL xs && wpL ys)
  | [], ys => by simp only [List.nil_append, wpL, Bool.true_and]
  | x :: xs, ys => by simp only [List.cons_append, wpL, wpL_append xs ys, Bool.and_assoc]

theorem wpKVs_append (ok : Token → Bool) : ∀ (xs ys : List (Token × PTree)),
    wpKVs ok (xs ++ ys) = (wpKVs ok xs && wpKVs ok ys)
  | [], ys => by simp only [List.nil_append, wpKVs, Bool.true_and]
  | (k, x) :: xs, ys => by simp only [List.cons_append, wpKVs, wpKVs_append ok xs ys, Bool.and_assoc]

theorem wpArgs_append : ∀ (xs ys : List PTree), wpArgs (xs ++ ys) = (wpArgs xs && wpArgs ys)
  | [], ys => by simp only [List.nil_append, wpArgs, Bool.true_and]
  | x :: xs, ys => by simp only [List.cons_append, wpArgs_cons, wpArgs_append xs ys, Bool.and_assoc]

theorem eraseL_append : ∀ (xs ys : List PTree), eraseL (xs ++ ys) = eraseL xs ++ eraseL ys
  | [], ys => by simp only [List.nil_append, eraseL]
  | x :: xs, ys => by simp only [List.cons_append, eraseL, eraseL_append xs ys]

theorem eraseKVs_append (key : Token → Bytes) : ∀ (xs ys : List (Token × PTree)),
    eraseKVs key (xs ++ ys) = eraseKVs key xs ++ eraseKVs key ys
  | [], ys => by simp only [List.nil_append, eraseKVs]
  | (k, x) :: xs, ys => by simp only [List.cons_append, eraseKVs, eraseKVs_append key xs ys]

/-- `argsOK` looks at the number of arguments and at which of them are `&`-references only -/
theorem argsOK_congr (spec : ArgSpec) {args args' : List PTree}
    (h : args.map PTree.isRef = args'.map PTree.isRef) : argsOK spec args = argsOK spec args' := by
  have hlen : args.length = args'.length := by simpa using congrArg List.length h
  have hall : args.all (fun x => !x.isRef) = args'.all (fun x => !x.isRef) := by
    have : ∀ l : List PTree, l.all (fun x => !x.isRef) = (l.map PTree.isRef).all (fun b => !b) := by
      intro l; simp only [List.all_map, Function.comp_def]
    rw [this, this, h]
  cases spec with
  | fixed mn mx mk => simp only [argsOK, hlen, hall]
  | varArg mk => simp only [argsOK, hlen, hall]
  | expArg mk =>
    match args, args', h with
    | [], [], _ => rfl
    | [_], [_], _ => rfl
    | [a, e], [a', e'], h =>
      simp only [List.map, List.cons.injEq, and_true] at h
      simp only [argsOK, h.1, h.2]
    | _ :: _ :: _ :: _, _ :: _ :: _ :: _, _ => rfl
    | [], _ :: _, h => simp at h
    | _ :: _, [], h => simp at h
    | [_], _ :: _ :: _, h => simp at h
    | _ :: _ :: _, [_], h => simp at h
    | [_, _], _ :: _ :: _ :: _, h => simp at h
    | _ :: _ :: _ :: _, [_, _], h => simp at h
  | mapArg mk =>
    match args, args', h with
    | [], [], _ => rfl
    | [_], [_], _ => rfl
    | [a, e], [a', e'], h =>
      simp only [List.map, List.cons.injEq, and_true] at h
      simp only [argsOK, h.1, h.2]
    | _ :: _ :: _ :: _, _ :: _ :: _ :: _, _ => rfl
    | [], _ :: _, h => simp at h
    | _ :: _, [], h => simp at h
    | [_], _ :: _ :: _, h => simp at h
    | _ :: _ :: _, [_], h => simp at h
    | [_, _], _ :: _ :: _ :: _, h => simp at h
    | _ :: _ :: _ :: _, [_, _], h => simp at h


/-! ## Soundness of an insertion -/

/-- what is proved by induction on `Ins` -/
def Inv (hd : Bool) (t t' : PTree) : Prop :=
  ∀ b, wp b t = true → (hd = true → b = false) →
    wp b t' = true ∧ llevel t ≤ llevel t' ∧ rlevel t ≤ rlevel t' ∧
    (hd = false → (Grammar.flat b t').head? = (Grammar.flat b t).head?) ∧ erase t' = erase t

theorem head_append {b : Bool} {l l' : PTree} (hi : l.isIcur = false) (hi' : l'.isIcur = false)
    (h : (Grammar.flat b l').head? = (Grammar.flat b l).head?) (Y Y' : List Token) :
    (Grammar.flat b l' ++ Y').head? = (Grammar.flat b l ++ Y).head? := by
  rw [C10C.head?_append_ne _ (C10C.flat_ne_nil hi'), C10C.head?_append_ne _ (C10C.flat_ne_nil hi)]
  exact h

/-- the left operand of a postfix / infix form -/
theorem left_step {hd b : Bool} {l l' : PTree} {X : Bool} {lvl : Nat} (L : Nat) (hI : Ins hd l l') (ih : Inv hd l l')
    (hb : hd = true → b = false)
    (h : (if l.isIcur = true then X else wp b l && decide (lvl ≤ rlevel l)) = true) :
    (if l'.isIcur = true then X else wp b l' && decide (lvl ≤ rlevel l')) = true ∧
    lmin L l (llevel l) ≤ lmin L l' (llevel l') ∧
    (hd = false → ∀ Y Y' : List Token, (Grammar.flat b l' ++ Y').head? = (Grammar.flat b l ++ Y).head?) ∧
    optNode l' (erase l') = optNode l (erase l) := by
  obtain ⟨hi, hi'⟩ := hI.not_icur
  simp only [hi, Bool.false_eq_true, if_false, Bool.and_eq_true, decide_eq_true_eq] at h
  obtain ⟨q1, q2, q3, q4, q5⟩ := ih b h.1 hb
  refine ⟨?_, ?_, fun hf Y Y' => head_append hi hi' (q4 hf) Y Y', ?_⟩
  · simp only [hi', Bool.false_eq_true, if_false, Bool.and_eq_true, decide_eq_true_eq]
    exact ⟨q1, Nat.le_trans h.2 q3⟩
  · rw [lmin_of_ne hi, lmin_of_ne hi']; omega
  · rw [optNode_of_ne hi, optNode_of_ne hi', q5]

/-- the right-hand side of a projection -/
theorem rhs_step {rhs rhs' : PTree} (hI : Ins false rhs rhs') (ih : Inv false rhs rhs')
    (h : (rhs.isIcur || (wp true rhs && decide (lvlProj < llevel rhs))) = true) :
    (rhs'.isIcur || (wp true rhs' && decide (lvlProj < llevel rhs'))) = true ∧
    optNode rhs' (erase rhs') = optNode rhs (erase rhs) := by
  obtain ⟨hi, hi'⟩ := hI.not_icur
  simp only [hi, Bool.false_or, Bool.and_eq_true, decide_eq_true_eq] at h
  obtain ⟨q1, q2, q3, q4, q5⟩ := ih true h.1 (fun h => by cases h)
  refine ⟨?_, ?_⟩
  · simp only [hi', Bool.false_or, Bool.and_eq_true, decide_eq_true_eq]
    exact ⟨q1, Nat.lt_of_lt_of_le h.2 q2⟩
  · rw [optNode_of_ne hi, optNode_of_ne hi', q5]

theorem head_fixed {X Y Y' : List Token} (h : X ≠ [] ∨ Y'.head? = Y.head?) : (X ++ Y').head? = (X ++ Y).head? := by
  cases X with
  | nil => rcases h with h | h
           · exact absurd rfl h
           · exact h
  | cons x xs => rfl

theorem startsWithIdent_congr {r r' : PTree} (h : (Grammar.flat false r').head? = (Grammar.flat false r).head?) :
    startsWithIdent r' = startsWithIdent r := by
  unfold startsWithIdent; rw [h]

theorem unref_ref (t : PTree) : unref (.ref t) = t := rfl

theorem ostar_prefix_ne (b : Bool) (l : PTree) :
    (if l.isIcur = true then (if b = true then [tDotStar] else [tStar]) else Grammar.flat b l ++ [tDotStar]) ≠ [] := by
  cases hi : l.isIcur
  · simp only [Bool.false_eq_true, if_false]; intro h; simp at h
  · cases b <;> simp

theorem Ins.sound {hd : Bool} {t t' : PTree} (h : Ins hd t t') : Inv hd t t' := by
  induction h with
  | here s hi hr =>
    intro b hw hb
    have hb' := hb rfl; subst hb'
    exact ⟨by simpa only [wp, Bool.not_false, Bool.true_and] using hw, llevel_le_top s, C10C.rlevel_le_top s,
      (fun h => by cases h), rfl⟩
  | paren hI ih =>
    intro b hw hb
    simp only [wp, Bool.and_eq_true] at hw
    obtain ⟨q1, _, _, _, q5⟩ := ih false hw.2 (fun _ => rfl)
    exact ⟨by simp only [wp, Bool.and_eq_true]; exact ⟨hw.1, q1⟩, Nat.le_refl _, Nat.le_refl _,
      (fun _ => by simp only [Grammar.flat]; rfl), by simp only [erase, q5]⟩
  | not hI ih =>
    intro b hw hb
    simp only [wp, Bool.and_eq_true, decide_eq_true_eq] at hw
    obtain ⟨q1, q2, q3, _, q5⟩ := ih false hw.1.2 (fun _ => rfl)
    refine ⟨?_, Nat.le_refl _, ?_, (fun _ => by simp only [Grammar.flat]; rfl), by simp only [erase, q5]⟩
    · simp only [wp, Bool.and_eq_true, decide_eq_true_eq]; exact ⟨⟨hw.1.1, q1⟩, Nat.lt_of_lt_of_le hw.2 q2⟩
    · simp only [rlevel]; omega
  | neg hI ih =>
    intro b hw hb
    simp only [wp, Bool.and_eq_true, decide_eq_true_eq] at hw
    obtain ⟨q1, q2, q3, _, q5⟩ := ih false hw.1.2 (fun _ => rfl)
    refine ⟨?_, Nat.le_refl _, ?_, (fun _ => by simp only [Grammar.flat]; rfl), by simp only [erase, q5]⟩
    · simp only [wp, Bool.and_eq_true, decide_eq_true_eq]; exact ⟨⟨hw.1.1, q1⟩, Nat.lt_of_lt_of_le hw.2 q2⟩
    · simp only [rlevel]; omega
  | pos hI ih =>
    intro b hw hb
    simp only [wp, Bool.and_eq_true, decide_eq_true_eq] at hw
    obtain ⟨q1, q2, q3, _, q5⟩ := ih false hw.1.2 (fun _ => rfl)
    refine ⟨?_, Nat.le_refl _, ?_, (fun _ => by simp only [Grammar.flat]; rfl), by simp only [erase, q5]⟩
    · simp only [wp, Bool.and_eq_true, decide_eq_true_eq]; exact ⟨⟨hw.1.1, q1⟩, Nat.lt_of_lt_of_le hw.2 q2⟩
    · simp only [rlevel]; omega
  | @binL hd op l l' r hI ih =>
    intro b hw hb
    obtain ⟨hi, hi'⟩ := hI.not_icur
    simp only [wp] at hw
    split at hw
    · cases hw
    · rename_i lvl hlvl
      simp only [Bool.and_eq_true, Bool.not_eq_true', decide_eq_true_eq] at hw
      obtain ⟨⟨⟨⟨_, hwl⟩, hle⟩, hwr⟩, hlt⟩ := hw
      obtain ⟨q1, q2, q3, q4, q5⟩ := ih b hwl hb
      refine ⟨?_, ?_, Nat.le_refl _, fun hf => ?_, by simp only [erase, q5]⟩
      · simp only [wp, hlvl, Bool.and_eq_true, Bool.not_eq_true', decide_eq_true_eq]
        exact ⟨⟨⟨⟨hi', q1⟩, Nat.le_trans hle q3⟩, hwr⟩, hlt⟩
      · simp only [llevel, lmin_of_ne hi, lmin_of_ne hi']; omega
      · simp only [Grammar.flat, List.append_assoc]; exact head_append hi hi' (q4 hf) _ _
  | @binR hd op l r r' hI ih =>
    intro b hw hb
    simp only [wp] at hw
    split at hw
    · cases hw
    · rename_i lvl hlvl
      simp only [Bool.and_eq_true, Bool.not_eq_true', decide_eq_true_eq] at hw
      obtain ⟨⟨⟨⟨hi, hwl⟩, hle⟩, hwr⟩, hlt⟩ := hw
      obtain ⟨q1, q2, q3, q4, q5⟩ := ih false hwr (fun _ => rfl)
      refine ⟨?_, Nat.le_refl _, ?_, fun hf => ?_, by simp only [erase, q5]⟩
      · simp only [wp, hlvl, Bool.and_eq_true, Bool.not_eq_true', decide_eq_true_eq]
        exact ⟨⟨⟨⟨hi, hwl⟩, hle⟩, q1⟩, Nat.lt_of_lt_of_le hlt q2⟩
      · simp only [rlevel]; omega
      · simp only [Grammar.flat, List.append_assoc]; exact head_fixed (Or.inl (C10C.flat_ne_nil hi))
  | @dotIdL hd l l' r hI ih =>
    intro b hw hb
    simp only [wp, Bool.and_eq_true, decide_eq_true_eq] at hw
    obtain ⟨⟨⟨hleft, hwr⟩, hlt⟩, hs⟩ := hw
    obtain ⟨l1, l2, l3, l4⟩ := left_step lvlDot hI ih hb hleft
    refine ⟨?_, l2, Nat.le_refl _, fun hf => ?_, by simp only [erase, l4]⟩
    · simp only [wp, Bool.and_eq_true, decide_eq_true_eq]; exact ⟨⟨⟨l1, hwr⟩, hlt⟩, hs⟩
    · simp only [Grammar.flat, List.append_assoc]; exact l3 hf _ _
  | @dotIdR hd l r r' hI ih =>
    intro b hw hb
    simp only [wp, Bool.and_eq_true, decide_eq_true_eq] at hw
    obtain ⟨⟨⟨hleft, hwr⟩, hlt⟩, hs⟩ := hw
    obtain ⟨q1, q2, q3, q4, q5⟩ := ih false hwr (fun h => by cases h)
    refine ⟨?_, Nat.le_refl _, ?_, fun hf => ?_, by simp only [erase, q5]⟩
    · simp only [wp, Bool.and_eq_true, decide_eq_true_eq]
      exact ⟨⟨⟨hleft, q1⟩, Nat.lt_of_lt_of_le hlt q2⟩, by rw [startsWithIdent_congr (q4 rfl)]; exact hs⟩
    · simp only [rlevel]; omega
    · simp only [Grammar.flat, List.append_assoc]; exact head_fixed (Or.inr rfl)
  | @dotListL hd l l' es hI ih =>
    intro b hw hb
    simp only [wp, Bool.and_eq_true] at hw
    obtain ⟨⟨hleft, hne⟩, hes⟩ := hw
    obtain ⟨l1, l2, l3, l4⟩ := left_step lvlDot hI ih hb hleft
    refine ⟨?_, l2, Nat.le_refl _, fun hf => ?_, by simp only [erase, l4]⟩
    · simp only [wp, Bool.and_eq_true]; exact ⟨⟨l1, hne⟩, hes⟩
    · simp only [Grammar.flat, List.append_assoc]; exact l3 hf _ _
  | @dotListE hd l xs ys e e' hI ih =>
    intro b hw hb
    simp only [wp, Bool.and_eq_true, wpL_append, wpL] at hw
    obtain ⟨⟨hleft, hne⟩, hxs, he, hys⟩ := hw
    obtain ⟨q1, _, _, _, q5⟩ := ih false he (fun _ => rfl)
    refine ⟨?_, Nat.le_refl _, Nat.le_refl _, fun hf => ?_, ?_⟩
    · simp only [wp, Bool.and_eq_true, wpL_append, wpL]
      exact ⟨⟨hleft, by cases xs <;> rfl⟩, hxs, q1, hys⟩
    · simp only [Grammar.flat, List.append_assoc]; exact head_fixed (Or.inr rfl)
    · simp only [erase, eraseL_append, eraseL, q5]
  | @dotHashL hd l l' kvs hI ih =>
    intro b hw hb
    simp only [wp, Bool.and_eq_true] at hw
    obtain ⟨⟨hleft, hne⟩, hes⟩ := hw
    obtain ⟨l1, l2, l3, l4⟩ := left_step lvlDot hI ih hb hleft
    refine ⟨?_, l2, Nat.le_refl _, fun hf => ?_, by simp only [erase, l4]⟩
    · simp only [wp, Bool.and_eq_true]; exact ⟨⟨l1, hne⟩, hes⟩
    · simp only [Grammar.flat, List.append_assoc]; exact l3 hf _ _
  | @dotHashE hd l xs ys k e e' hI ih =>
    intro b hw hb
    simp only [wp, Bool.and_eq_true, wpKVs_append, wpKVs] at hw
    obtain ⟨⟨hleft, hne⟩, hxs, ⟨hk, he⟩, hys⟩ := hw
    obtain ⟨q1, _, _, _, q5⟩ := ih false he (fun _ => rfl)
    refine ⟨?_, Nat.le_refl _, Nat.le_refl _, fun hf => ?_, ?_⟩
    · simp only [wp, Bool.and_eq_true, wpKVs_append, wpKVs]
      exact ⟨⟨hleft, by cases xs <;> rfl⟩, hxs, ⟨hk, q1⟩, hys⟩
    · simp only [Grammar.flat, List.append_assoc]; exact head_fixed (Or.inr rfl)
    · simp only [erase, eraseKVs_append, eraseKVs, q5]
  | @dotStarListL hd l l' hI ih =>
    intro b hw hb
    simp only [wp] at hw
    obtain ⟨l1, l2, l3, l4⟩ := left_step lvlDot hI ih hb hw
    refine ⟨?_, l2, Nat.le_refl _, fun hf => ?_, by simp only [erase, l4]⟩
    · simp only [wp]; exact l1
    · simp only [Grammar.flat, List.append_assoc]; exact l3 hf _ _
  | @indexL hd l l' n hI ih =>
    intro b hw hb
    simp only [wp, Bool.and_eq_true] at hw
    obtain ⟨l1, l2, l3, l4⟩ := left_step lvlBracket hI ih hb hw.1
    refine ⟨?_, l2, Nat.le_refl _, fun hf => ?_, by simp only [erase, l4]⟩
    · simp only [wp, Bool.and_eq_true]; exact ⟨l1, hw.2⟩
    · simp only [Grammar.flat, List.append_assoc]; exact l3 hf _ _
  | @callA hd name xs ys e e' hI ih =>
    intro b hw hb
    obtain ⟨hr, hr'⟩ := hI.not_ref
    have hm : (xs ++ e :: ys).map PTree.isRef = (xs ++ e' :: ys).map PTree.isRef := by
      simp only [List.map_append, List.map_cons, hr, hr']
    simp only [wp, Bool.and_eq_true, wpArgs_append, wpArgs_cons, unref_of_not hr] at hw
    obtain ⟨⟨⟨hb0, hn⟩, hspec⟩, hxs, he, hys⟩ := hw
    obtain ⟨q1, _, _, _, q5⟩ := ih false he (fun _ => rfl)
    refine ⟨?_, Nat.le_refl _, Nat.le_refl _, (fun _ => by simp only [Grammar.flat]; rfl), ?_⟩
    · simp only [wp, Bool.and_eq_true, wpArgs_append, wpArgs_cons, unref_of_not hr']
      refine ⟨⟨⟨hb0, hn⟩, ?_⟩, hxs, q1, hys⟩
      cases hlk : lookupBuiltin name.value with
      | none => rw [hlk] at hspec; exact hspec
      | some spec =>
        rw [hlk] at hspec
        simp only [] at hspec ⊢
        rw [← argsOK_congr spec hm]; exact hspec
    · simp only [erase, eraseL_append, eraseL, q5]
  | @callR hd name xs ys e e' hI ih =>
    intro b hw hb
    have hm : (xs ++ PTree.ref e :: ys).map PTree.isRef = (xs ++ PTree.ref e' :: ys).map PTree.isRef := by
      simp only [List.map_append, List.map_cons, PTree.isRef]
    simp only [wp, Bool.and_eq_true, wpArgs_append, wpArgs_cons, unref_ref] at hw
    obtain ⟨⟨⟨hb0, hn⟩, hspec⟩, hxs, he, hys⟩ := hw
    obtain ⟨q1, _, _, _, q5⟩ := ih false he (fun _ => rfl)
    refine ⟨?_, Nat.le_refl _, Nat.le_refl _, (fun _ => by simp only [Grammar.flat]; rfl), ?_⟩
    · simp only [wp, Bool.and_eq_true, wpArgs_append, wpArgs_cons, unref_ref]
      refine ⟨⟨⟨hb0, hn⟩, ?_⟩, hxs, q1, hys⟩
      cases hlk : lookupBuiltin name.value with
      | none => rw [hlk] at hspec; exact hspec
      | some spec =>
        rw [hlk] at hspec
        simp only [] at hspec ⊢
        rw [← argsOK_congr spec hm]; exact hspec
    · simp only [erase, eraseL_append, eraseL, q5]
  | @letB hd xs ys k body e e' hI ih =>
    intro b hw hb
    simp only [wp, Bool.and_eq_true, wpKVs_append, wpKVs] at hw
    obtain ⟨⟨⟨hb0, hne⟩, hxs, ⟨hk, he⟩, hys⟩, hbody⟩ := hw
    obtain ⟨q1, _, _, _, q5⟩ := ih false he (fun _ => rfl)
    refine ⟨?_, Nat.le_refl _, Nat.le_refl _, (fun _ => by simp only [Grammar.flat]; rfl), ?_⟩
    · simp only [wp, Bool.and_eq_true, wpKVs_append, wpKVs]
      exact ⟨⟨⟨hb0, by cases xs <;> rfl⟩, hxs, ⟨hk, q1⟩, hys⟩, hbody⟩
    · simp only [erase, eraseKVs_append, eraseKVs, q5]
  | @letBody hd bs body body' hI ih =>
    intro b hw hb
    simp only [wp, Bool.and_eq_true] at hw
    obtain ⟨q1, _, _, _, q5⟩ := ih false hw.2 (fun _ => rfl)
    refine ⟨?_, Nat.le_refl _, Nat.le_refl _, (fun _ => by simp only [Grammar.flat]; rfl), by simp only [erase, q5]⟩
    simp only [wp, Bool.and_eq_true]; exact ⟨hw.1, q1⟩
  | @multiListE hd xs ys e e' hI ih =>
    intro b hw hb
    simp only [wp, Bool.and_eq_true, wpL_append, wpL] at hw
    obtain ⟨⟨hb0, hne⟩, hxs, he, hys⟩ := hw
    obtain ⟨q1, _, _, _, q5⟩ := ih false he (fun _ => rfl)
    refine ⟨?_, Nat.le_refl _, Nat.le_refl _, (fun _ => by simp only [Grammar.flat]; rfl), ?_⟩
    · simp only [wp, Bool.and_eq_true, wpL_append, wpL]
      exact ⟨⟨hb0, by cases xs <;> rfl⟩, hxs, q1, hys⟩
    · simp only [erase, eraseL_append, eraseL, q5]
  | @multiHashE hd xs ys k e e' hI ih =>
    intro b hw hb
    simp only [wp, Bool.and_eq_true, wpKVs_append, wpKVs] at hw
    obtain ⟨⟨hb0, hne⟩, hxs, ⟨hk, he⟩, hys⟩ := hw
    obtain ⟨q1, _, _, _, q5⟩ := ih false he (fun _ => rfl)
    refine ⟨?_, Nat.le_refl _, Nat.le_refl _, (fun _ => by simp only [Grammar.flat]; rfl), ?_⟩
    · simp only [wp, Bool.and_eq_true, wpKVs_append, wpKVs]
      exact ⟨⟨hb0, by cases xs <;> rfl⟩, hxs, ⟨hk, q1⟩, hys⟩
    · simp only [erase, eraseKVs_append, eraseKVs, q5]
  | @starL hd l l' rhs hI ih =>
    intro b hw hb
    simp only [wp, Bool.and_eq_true] at hw
    obtain ⟨l1, l2, l3, l4⟩ := left_step lvlBracket hI ih hb hw.1
    refine ⟨?_, l2, Nat.le_refl _, fun hf => ?_, by simp only [erase, l4]⟩
    · simp only [wp, Bool.and_eq_true]; exact ⟨l1, hw.2⟩
    · simp only [Grammar.flat, List.append_assoc]; exact l3 hf _ _
  | @starR hd l rhs rhs' hI ih =>
    intro b hw hb
    simp only [wp, Bool.and_eq_true] at hw
    obtain ⟨r1, r2⟩ := rhs_step hI ih hw.2
    refine ⟨?_, Nat.le_refl _, Nat.le_refl _, fun hf => ?_, by simp only [erase, r2]⟩
    · simp only [wp, Bool.and_eq_true]; exact ⟨hw.1, r1⟩
    · simp only [Grammar.flat, List.append_assoc]; exact head_fixed (Or.inr rfl)
  | @ostarL hd l l' rhs hI ih =>
    intro b hw hb
    obtain ⟨hi, hi'⟩ := hI.not_icur
    simp only [wp, Bool.and_eq_true] at hw
    obtain ⟨l1, l2, l3, l4⟩ := left_step lvlDot hI ih hb hw.1
    refine ⟨?_, l2, Nat.le_refl _, fun hf => ?_, by simp only [erase, l4]⟩
    · simp only [wp, Bool.and_eq_true]; exact ⟨l1, hw.2⟩
    · simp only [Grammar.flat, hi, hi', Bool.false_eq_true, if_false, List.append_assoc]; exact l3 hf _ _
  | @ostarR hd l rhs rhs' hI ih =>
    intro b hw hb
    simp only [wp, Bool.and_eq_true] at hw
    obtain ⟨r1, r2⟩ := rhs_step hI ih hw.2
    refine ⟨?_, Nat.le_refl _, Nat.le_refl _, fun hf => ?_, by simp only [erase, r2]⟩
    · simp only [wp, Bool.and_eq_true]; exact ⟨hw.1, r1⟩
    · simp only [Grammar.flat]; exact head_fixed (Or.inl (ostar_prefix_ne b l))
  | @flatL hd l l' rhs hI ih =>
    intro b hw hb
    simp only [wp, Bool.and_eq_true] at hw
    obtain ⟨l1, l2, l3, l4⟩ := left_step lvlFlatten hI ih hb hw.1
    refine ⟨?_, l2, Nat.le_refl _, fun hf => ?_, by simp only [erase, l4]⟩
    · simp only [wp, Bool.and_eq_true]; exact ⟨l1, hw.2⟩
    · simp only [Grammar.flat, List.append_assoc]; exact l3 hf _ _
  | @flatR hd l rhs rhs' hI ih =>
    intro b hw hb
    simp only [wp, Bool.and_eq_true] at hw
    obtain ⟨r1, r2⟩ := rhs_step hI ih hw.2
    refine ⟨?_, Nat.le_refl _, Nat.le_refl _, fun hf => ?_, by simp only [erase, r2]⟩
    · simp only [wp, Bool.and_eq_true]; exact ⟨hw.1, r1⟩
    · simp only [Grammar.flat, List.append_assoc]; exact head_fixed (Or.inr rfl)
  | @filtL hd l l' c rhs hI ih =>
    intro b hw hb
    simp only [wp, Bool.and_eq_true] at hw
    obtain ⟨l1, l2, l3, l4⟩ := left_step lvlFilter hI ih hb hw.1.1
    refine ⟨?_, l2, Nat.le_refl _, fun hf => ?_, by simp only [erase, l4]⟩
    · simp only [wp, Bool.and_eq_true]; exact ⟨⟨l1, hw.1.2⟩, hw.2⟩
    · simp only [Grammar.flat, List.append_assoc]; exact l3 hf _ _
  | @filtC hd l c c' rhs hI ih =>
    intro b hw hb
    simp only [wp, Bool.and_eq_true] at hw
    obtain ⟨q1, _, _, _, q5⟩ := ih false hw.1.2 (fun _ => rfl)
    refine ⟨?_, Nat.le_refl _, Nat.le_refl _, fun hf => ?_, by simp only [erase, q5]⟩
    · simp only [wp, Bool.and_eq_true]; exact ⟨⟨hw.1.1, q1⟩, hw.2⟩
    · simp only [Grammar.flat, List.append_assoc]; exact head_fixed (Or.inr rfl)
  | @filtR hd l c rhs rhs' hI ih =>
    intro b hw hb
    simp only [wp, Bool.and_eq_true] at hw
    obtain ⟨r1, r2⟩ := rhs_step hI ih hw.2
    refine ⟨?_, Nat.le_refl _, Nat.le_refl _, fun hf => ?_, by simp only [erase, r2]⟩
    · simp only [wp, Bool.and_eq_true]; exact ⟨hw.1, r1⟩
    · simp only [Grammar.flat, List.append_assoc]; exact head_fixed (Or.inr rfl)
  | @sliceL hd l l' rhs a bb c hI ih =>
    intro b hw hb
    simp only [wp, Bool.and_eq_true] at hw
    obtain ⟨l1, l2, l3, l4⟩ := left_step lvlBracket hI ih hb hw.1.1
    refine ⟨?_, l2, Nat.le_refl _, fun hf => ?_, by simp only [erase, l4]⟩
    · simp only [wp, Bool.and_eq_true]; exact ⟨⟨l1, hw.1.2⟩, hw.2⟩
    · simp only [Grammar.flat, List.append_assoc]; exact l3 hf _ _
  | @sliceR hd l rhs rhs' a bb c hI ih =>
    intro b hw hb
    simp only [wp, Bool.and_eq_true] at hw
    obtain ⟨r1, r2⟩ := rhs_step hI ih hw.2
    refine ⟨?_, Nat.le_refl _, Nat.le_refl _, fun hf => ?_, by simp only [erase, r2]⟩
    · simp only [wp, Bool.and_eq_true]; exact ⟨hw.1, r1⟩
    · simp only [Grammar.flat, List.append_assoc]; exact head_fixed (Or.inr rfl)


/-! ## On the tokens an insertion puts `(` before and `)` after a contiguous span -/

/-- `X'` is `X` with `(` and `)` inserted around a non-empty contiguous span -/
def Span (X X' : List Token) : Prop :=
  ∃ pre mid post, X = pre ++ mid ++ post ∧ X' = pre ++ tLParen :: (mid ++ tRParen :: post) ∧ mid ≠ []

theorem Span.ctx {X X' : List Token} (h : Span X X') (A B : List Token) : Span (A ++ X ++ B) (A ++ X' ++ B) := by
  obtain ⟨pre, mid, post, h1, h2, h3⟩ := h
  refine ⟨A ++ pre, mid, post ++ B, ?_, ?_, h3⟩
  · rw [h1]; simp only [List.append_assoc]
  · rw [h2]; simp only [List.append_assoc, List.cons_append]

theorem flatSep_split : ∀ (xs ys : List PTree), ∃ A B : List Token, ∀ e : PTree,
    flatSep (xs ++ e :: ys) = A ++ Grammar.flat false e ++ B
  | [], [] => ⟨[], [], fun e => by simp only [List.nil_append, flatSep, List.append_nil]⟩
  | [], y :: ys => ⟨[], tComma :: flatSep (y :: ys), fun e => by simp only [List.nil_append, flatSep]⟩
  | x :: xs, ys => by
    obtain ⟨A, B, h⟩ := flatSep_split xs ys
    refine ⟨Grammar.flat false x ++ tComma :: A, B, fun e => ?_⟩
    have : ∀ (z : PTree) (zs : List PTree), flatSep (x :: z :: zs) = Grammar.flat false x ++ tComma :: flatSep (z :: zs) := by
      intro z zs; simp only [flatSep]
    cases xs with
    | nil => rw [List.cons_append, List.nil_append, this, ← List.nil_append (e :: ys), h e]
             simp only [List.append_assoc, List.cons_append]
    | cons z zs => rw [List.cons_append, List.cons_append, this, ← List.cons_append, h e]
                   simp only [List.append_assoc, List.cons_append]

theorem flatKVs_split (sep : Token) : ∀ (xs ys : List (Token × PTree)), ∃ A B : List Token, ∀ (k : Token) (e : PTree),
    (∃ A' : List Token, flatKVs sep (xs ++ (k, e) :: ys) = A' ++ Grammar.flat false e ++ B ∧ A' = A ++ [k, sep])
  | [], [] => ⟨[], [], fun k e => ⟨[k, sep], by simp only [List.nil_append, flatKVs, List.append_nil, List.cons_append], rfl⟩⟩
  | [], y :: ys => ⟨[], tComma :: flatKVs sep (y :: ys), fun k e =>
      ⟨[k, sep], by simp only [List.nil_append, flatKVs, List.cons_append], rfl⟩⟩
  | (kx, x) :: xs, ys => by
    obtain ⟨A, B, h⟩ := flatKVs_split sep xs ys
    refine ⟨kx :: sep :: (Grammar.flat false x ++ tComma :: A), B, fun k e => ?_⟩
    obtain ⟨A', h1, h2⟩ := h k e
    refine ⟨kx :: sep :: (Grammar.flat false x ++ tComma :: A'), ?_, by rw [h2]; simp only [List.cons_append, List.append_assoc]⟩
    have : ∀ (z : Token × PTree) (zs : List (Token × PTree)),
        flatKVs sep ((kx, x) :: z :: zs) = kx :: sep :: Grammar.flat false x ++ tComma :: flatKVs sep (z :: zs) := by
      intro z zs; simp only [flatKVs]
    cases xs with
    | nil => rw [List.cons_append, List.nil_append, this, ← List.nil_append ((k, e) :: ys), h1]
             simp only [List.append_assoc, List.cons_append]
    | cons z zs => rw [List.cons_append, List.cons_append, this, ← List.cons_append, h1]
                   simp only [List.append_assoc, List.cons_append]

theorem Ins.span {hd : Bool} {t t' : PTree} (h : Ins hd t t') :
    ∀ b, (hd = true → b = false) → Span (Grammar.flat b t) (Grammar.flat b t') := by
  induction h with
  | here s hi hr =>
    intro b hb
    have hb' := hb rfl; subst hb'
    exact ⟨[], Grammar.flat false s, [], by simp only [List.nil_append, List.append_nil],
      by simp only [Grammar.flat, List.nil_append, List.cons_append], C10C.flat_ne_nil hi⟩
  | paren hI ih =>
    intro b hb
    have := (ih false (fun _ => rfl)).ctx [tLParen] [tRParen]
    simpa only [Grammar.flat, List.append_assoc, List.cons_append, List.nil_append] using this
  | not hI ih =>
    intro b hb
    have := (ih false (fun _ => rfl)).ctx [tNot] []
    simpa only [Grammar.flat, List.append_assoc, List.cons_append, List.nil_append, List.append_nil] using this
  | @neg hd tok s s' hI ih =>
    intro b hb
    have := (ih false (fun _ => rfl)).ctx [tok] []
    simpa only [Grammar.flat, List.append_assoc, List.cons_append, List.nil_append, List.append_nil] using this
  | pos hI ih =>
    intro b hb
    have := (ih false (fun _ => rfl)).ctx [tPlus] []
    simpa only [Grammar.flat, List.append_assoc, List.cons_append, List.nil_append, List.append_nil] using this
  | @binL hd op l l' r hI ih =>
    intro b hb
    have := (ih b hb).ctx [] (op :: Grammar.flat false r)
    simpa only [Grammar.flat, List.append_assoc, List.cons_append, List.nil_append, List.append_nil] using this
  | @binR hd op l r r' hI ih =>
    intro b hb
    have := (ih false (fun _ => rfl)).ctx (Grammar.flat b l ++ [op]) []
    simpa only [Grammar.flat, List.append_assoc, List.cons_append, List.nil_append, List.append_nil] using this
  | @dotIdL hd l l' r hI ih =>
    intro b hb
    have := (ih b hb).ctx [] (tDot :: Grammar.flat false r)
    simpa only [Grammar.flat, List.append_assoc, List.cons_append, List.nil_append, List.append_nil] using this
  | @dotIdR hd l r r' hI ih =>
    intro b hb
    have := (ih false (fun h => by cases h)).ctx (Grammar.flat b l ++ [tDot]) []
    simpa only [Grammar.flat, List.append_assoc, List.cons_append, List.nil_append, List.append_nil] using this
  | @dotListL hd l l' es hI ih =>
    intro b hb
    have := (ih b hb).ctx [] (tDot :: tLBracket :: flatSep es ++ [tRBracket])
    simpa only [Grammar.flat, List.append_assoc, List.cons_append, List.nil_append, List.append_nil] using this
  | @dotListE hd l xs ys e e' hI ih =>
    intro b hb
    obtain ⟨A, B, hAB⟩ := flatSep_split xs ys
    have := (ih false (fun _ => rfl)).ctx (Grammar.flat b l ++ tDot :: tLBracket :: A) (B ++ [tRBracket])
    simpa only [Grammar.flat, hAB, List.append_assoc, List.cons_append, List.nil_append, List.append_nil] using this
  | @dotHashL hd l l' kvs hI ih =>
    intro b hb
    have := (ih b hb).ctx [] (tDot :: tLBrace :: flatKVs tColon kvs ++ [tRBrace])
    simpa only [Grammar.flat, List.append_assoc, List.cons_append, List.nil_append, List.append_nil] using this
  | @dotHashE hd l xs ys k e e' hI ih =>
    intro b hb
    obtain ⟨A, B, hAB⟩ := flatKVs_split tColon xs ys
    obtain ⟨A1, h1, h1'⟩ := hAB k e
    obtain ⟨A2, h2, h2'⟩ := hAB k e'
    have := (ih false (fun _ => rfl)).ctx (Grammar.flat b l ++ tDot :: tLBrace :: A1) (B ++ [tRBrace])
    rw [h2'] at h2; rw [h1'] at h1 this
    simpa only [Grammar.flat, h1, h2, List.append_assoc, List.cons_append, List.nil_append, List.append_nil] using this
  | @dotStarListL hd l l' hI ih =>
    intro b hb
    have := (ih b hb).ctx [] [tDot, tArrayStar]
    simpa only [Grammar.flat, List.append_assoc, List.cons_append, List.nil_append, List.append_nil] using this
  | @indexL hd l l' n hI ih =>
    intro b hb
    have := (ih b hb).ctx [] [tLBracket, n, tRBracket]
    simpa only [Grammar.flat, List.append_assoc, List.cons_append, List.nil_append, List.append_nil] using this
  | @callA hd name xs ys e e' hI ih =>
    intro b hb
    obtain ⟨A, B, hAB⟩ := flatSep_split xs ys
    have := (ih false (fun _ => rfl)).ctx (name :: tLParen :: A) (B ++ [tRParen])
    simpa only [Grammar.flat, hAB, List.append_assoc, List.cons_append, List.nil_append, List.append_nil] using this
  | @callR hd name xs ys e e' hI ih =>
    intro b hb
    obtain ⟨A, B, hAB⟩ := flatSep_split xs ys
    have := (ih false (fun _ => rfl)).ctx (name :: tLParen :: (A ++ [tAmp])) (B ++ [tRParen])
    simpa only [Grammar.flat, hAB, List.append_assoc, List.cons_append, List.nil_append, List.append_nil] using this
  | @letB hd xs ys k body e e' hI ih =>
    intro b hb
    obtain ⟨A, B, hAB⟩ := flatKVs_split tAssign xs ys
    obtain ⟨A1, h1, h1'⟩ := hAB k e
    obtain ⟨A2, h2, h2'⟩ := hAB k e'
    have := (ih false (fun _ => rfl)).ctx (tLet :: A1) (B ++ tIn :: Grammar.flat false body)
    rw [h2'] at h2; rw [h1'] at h1 this
    simpa only [Grammar.flat, h1, h2, List.append_assoc, List.cons_append, List.nil_append, List.append_nil] using this
  | @letBody hd bs body body' hI ih =>
    intro b hb
    have := (ih false (fun _ => rfl)).ctx (tLet :: flatKVs tAssign bs ++ [tIn]) []
    simpa only [Grammar.flat, List.append_assoc, List.cons_append, List.nil_append, List.append_nil] using this
  | @multiListE hd xs ys e e' hI ih =>
    intro b hb
    obtain ⟨A, B, hAB⟩ := flatSep_split xs ys
    have := (ih false (fun _ => rfl)).ctx (tLBracket :: A) (B ++ [tRBracket])
    simpa only [Grammar.flat, hAB, List.append_assoc, List.cons_append, List.nil_append, List.append_nil] using this
  | @multiHashE hd xs ys k e e' hI ih =>
    intro b hb
    obtain ⟨A, B, hAB⟩ := flatKVs_split tColon xs ys
    obtain ⟨A1, h1, h1'⟩ := hAB k e
    obtain ⟨A2, h2, h2'⟩ := hAB k e'
    have := (ih false (fun _ => rfl)).ctx (tLBrace :: A1) (B ++ [tRBrace])
    rw [h2'] at h2; rw [h1'] at h1 this
    simpa only [Grammar.flat, h1, h2, List.append_assoc, List.cons_append, List.nil_append, List.append_nil] using this
  | @starL hd l l' rhs hI ih =>
    intro b hb
    have := (ih b hb).ctx [] (tArrayStar :: Grammar.flat true rhs)
    simpa only [Grammar.flat, List.append_assoc, List.cons_append, List.nil_append, List.append_nil] using this
  | @starR hd l rhs rhs' hI ih =>
    intro b hb
    have := (ih true (fun h => by cases h)).ctx (Grammar.flat b l ++ [tArrayStar]) []
    simpa only [Grammar.flat, List.append_assoc, List.cons_append, List.nil_append, List.append_nil] using this
  | @ostarL hd l l' rhs hI ih =>
    intro b hb
    obtain ⟨hi, hi'⟩ := hI.not_icur
    have := (ih b hb).ctx [] (tDotStar :: Grammar.flat true rhs)
    simpa only [Grammar.flat, hi, hi', Bool.false_eq_true, if_false, List.append_assoc, List.cons_append,
      List.nil_append, List.append_nil] using this
  | @ostarR hd l rhs rhs' hI ih =>
    intro b hb
    have := (ih true (fun h => by cases h)).ctx
      (if l.isIcur = true then (if b = true then [tDotStar] else [tStar]) else Grammar.flat b l ++ [tDotStar]) []
    simpa only [Grammar.flat, List.append_nil] using this
  | @flatL hd l l' rhs hI ih =>
    intro b hb
    have := (ih b hb).ctx [] (tFlatten :: Grammar.flat true rhs)
    simpa only [Grammar.flat, List.append_assoc, List.cons_append, List.nil_append, List.append_nil] using this
  | @flatR hd l rhs rhs' hI ih =>
    intro b hb
    have := (ih true (fun h => by cases h)).ctx (Grammar.flat b l ++ [tFlatten]) []
    simpa only [Grammar.flat, List.append_assoc, List.cons_append, List.nil_append, List.append_nil] using this
  | @filtL hd l l' c rhs hI ih =>
    intro b hb
    have := (ih b hb).ctx [] (tFilter :: Grammar.flat false c ++ tRBracket :: Grammar.flat true rhs)
    simpa only [Grammar.flat, List.append_assoc, List.cons_append, List.nil_append, List.append_nil] using this
  | @filtC hd l c c' rhs hI ih =>
    intro b hb
    have := (ih false (fun _ => rfl)).ctx (Grammar.flat b l ++ [tFilter]) (tRBracket :: Grammar.flat true rhs)
    simpa only [Grammar.flat, List.append_assoc, List.cons_append, List.nil_append, List.append_nil] using this
  | @filtR hd l c rhs rhs' hI ih =>
    intro b hb
    have := (ih true (fun h => by cases h)).ctx (Grammar.flat b l ++ tFilter :: Grammar.flat false c ++ [tRBracket]) []
    simpa only [Grammar.flat, List.append_assoc, List.cons_append, List.nil_append, List.append_nil] using this
  | @sliceL hd l l' rhs a bb c hI ih =>
    intro b hb
    have := (ih b hb).ctx [] (tLBracket :: sliceToks a bb c ++ tRBracket :: Grammar.flat true rhs)
    simpa only [Grammar.flat, List.append_assoc, List.cons_append, List.nil_append, List.append_nil] using this
  | @sliceR hd l rhs rhs' a bb c hI ih =>
    intro b hb
    have := (ih true (fun h => by cases h)).ctx (Grammar.flat b l ++ tLBracket :: sliceToks a bb c ++ [tRBracket]) []
    simpa only [Grammar.flat, List.append_assoc, List.cons_append, List.nil_append, List.append_nil] using this


/-! ## The tokens of `fullParen t` -/

macro "tok_simp" " at " h:ident : tactic =>
  `(tactic| simp only [C10C.fullParen, Grammar.flat, List.append_assoc, List.cons_append, List.nil_append,
      List.forall_mem_append, List.forall_mem_cons, List.not_mem_nil, false_imp_iff, implies_true, and_true]
      at $h:ident ⊢)

section Tokens
variable (P : Token → Prop)

theorem flatSep_all : ∀ es : List PTree, (∀ tok ∈ flatSep es, P tok) ↔
    ((∀ e ∈ es, ∀ tok ∈ Grammar.flat false e, P tok) ∧ (2 ≤ es.length → P tComma))
  | [] => by simp [flatSep]
  | [e] => by simp [flatSep]
  | e :: e2 :: es => by
    have ih := flatSep_all (e2 :: es)
    have h : flatSep (e :: e2 :: es) = Grammar.flat false e ++ tComma :: flatSep (e2 :: es) := by simp only [flatSep]
    rw [h, List.forall_mem_append, List.forall_mem_cons, ih]
    simp only [List.forall_mem_cons, List.length_cons]
    constructor
    · rintro ⟨h1, h2, ⟨h3, h4⟩, _⟩; exact ⟨⟨h1, h3, h4⟩, fun _ => h2⟩
    · rintro ⟨⟨h1, h3, h4⟩, h2⟩; exact ⟨h1, h2 (by omega), ⟨h3, h4⟩, fun _ => h2 (by omega)⟩

theorem flatKVs_all (sep : Token) : ∀ kvs : List (Token × PTree), (∀ tok ∈ flatKVs sep kvs, P tok) ↔
    ((∀ kv ∈ kvs, P kv.1 ∧ P sep ∧ ∀ tok ∈ Grammar.flat false kv.2, P tok) ∧ (2 ≤ kvs.length → P tComma))
  | [] => by simp [flatKVs]
  | [(k, e)] => by simp [flatKVs]
  | (k, e) :: kv2 :: kvs => by
    have ih := flatKVs_all sep (kv2 :: kvs)
    have h : flatKVs sep ((k, e) :: kv2 :: kvs) =
        k :: sep :: Grammar.flat false e ++ tComma :: flatKVs sep (kv2 :: kvs) := by simp only [flatKVs]
    rw [h]
    simp only [List.cons_append, List.forall_mem_cons, List.forall_mem_append, ih, List.length_cons]
    constructor
    · rintro ⟨h0, h0', h1, h2, ⟨h3, h4⟩, _⟩; exact ⟨⟨⟨h0, h0', h1⟩, h3, h4⟩, fun _ => h2⟩
    · rintro ⟨⟨⟨h0, h0', h1⟩, h3, h4⟩, h2⟩; exact ⟨h0, h0', h1, h2 (by omega), ⟨h3, h4⟩, fun _ => h2 (by omega)⟩

variable {P}

theorem wrap_all (hL : P tLParen) (hR : P tRParen) {x : PTree} (h : ∀ tok ∈ Grammar.flat false x, P tok) (b : Bool) :
    ∀ tok ∈ Grammar.flat b (C10C.wrap x), P tok := by
  rcases C10C.wrap_cases x with ⟨u, rfl, hw⟩ | hw
  · rw [hw]
    simpa only [Grammar.flat] using h
  · rw [hw]
    simp only [Grammar.flat, List.cons_append, List.forall_mem_cons, List.forall_mem_append, List.mem_singleton,
      forall_eq]
    exact ⟨hL, h, hR⟩

/-- what is proved by induction: if the tokens of `t` (printed in either position) satisfy `P`, and so do `(`, `)`, `*`
    and `.*`, then the tokens of `fullParen t` (printed in either position) satisfy `P` -/
def TokInv (P : Token → Prop) (t : PTree) : Prop :=
  ∀ b, (∀ tok ∈ Grammar.flat b t, P tok) → ∀ b', ∀ tok ∈ Grammar.flat b' (C10C.fullParen t), P tok

theorem fullParen_tokInv (hL : P tLParen) (hR : P tRParen) (hS : P tStar) (hD : P tDotStar) : ∀ t, TokInv P t := by
  have hlist : ∀ es : List PTree, (∀ e ∈ es, TokInv P e) → (∀ tok ∈ flatSep es, P tok) →
      ∀ tok ∈ flatSep (C10C.fullParenL es), P tok := by
    intro es hes h
    rw [flatSep_all] at h ⊢
    rw [C10C.fullParenL_eq_map]
    refine ⟨?_, by simpa only [List.length_map] using h.2⟩
    intro e' he'
    obtain ⟨e, he, rfl⟩ := List.mem_map.1 he'
    exact hes e he false (h.1 e he) false
  have hkvs : ∀ (sep : Token) (kvs : List (Token × PTree)), (∀ kv ∈ kvs, TokInv P kv.2) →
      (∀ tok ∈ flatKVs sep kvs, P tok) → ∀ tok ∈ flatKVs sep (C10C.fullParenKVs kvs), P tok := by
    intro sep kvs hes h
    rw [flatKVs_all] at h ⊢
    rw [C10C.fullParenKVs_eq_map]
    refine ⟨?_, by simpa only [List.length_map] using h.2⟩
    intro kv' he'
    obtain ⟨kv, he, rfl⟩ := List.mem_map.1 he'
    exact ⟨(h.1 kv he).1, (h.1 kv he).2.1, hes kv he false (h.1 kv he).2.2 false⟩
  apply PTree.ind
  case h_icur => intro b h b' tok ht; simp only [C10C.fullParen, Grammar.flat] at ht; cases ht
  case h_atom => intro t b h b'; tok_simp at h; exact h
  case h_paren => intro t ih b h b'; tok_simp at h; exact ⟨hL, ih false h.2.1 false, hR⟩
  case h_not => intro t ih b h b'; tok_simp at h; exact ⟨h.1, wrap_all hL hR (ih false h.2 false) false⟩
  case h_neg => intro tok t ih b h b'; tok_simp at h; exact ⟨h.1, wrap_all hL hR (ih false h.2 false) false⟩
  case h_pos => intro t ih b h b'; tok_simp at h; exact ⟨h.1, wrap_all hL hR (ih false h.2 false) false⟩
  case h_bin =>
    intro op l r ihl ihr b h b'; tok_simp at h
    exact ⟨wrap_all hL hR (ihl b h.1 false) b', h.2.1, wrap_all hL hR (ihr false h.2.2 false) false⟩
  case h_dotId => intro l r ihl ihr b h b'; tok_simp at h; exact ⟨ihl b h.1 b', h.2.1, ihr false h.2.2 false⟩
  case h_dotList =>
    intro l es ihl ihes b h b'; tok_simp at h
    exact ⟨ihl b h.1 b', h.2.1, h.2.2.1, hlist es ihes h.2.2.2.1, h.2.2.2.2⟩
  case h_dotHash =>
    intro l kvs ihl ihes b h b'; tok_simp at h
    exact ⟨ihl b h.1 b', h.2.1, h.2.2.1, hkvs _ kvs ihes h.2.2.2.1, h.2.2.2.2⟩
  case h_dotStarList => intro l ihl b h b'; tok_simp at h; exact ⟨ihl b h.1 b', h.2⟩
  case h_index => intro l n ihl b h b'; tok_simp at h; exact ⟨ihl b h.1 b', h.2⟩
  case h_call =>
    intro name args ihes b h b'; tok_simp at h
    exact ⟨h.1, h.2.1, hlist args ihes h.2.2.1, h.2.2.2⟩
  case h_ref => intro t ih b h b'; tok_simp at h; exact ⟨h.1, ih false h.2 false⟩
  case h_letIn =>
    intro bs body ihbs ihb b h b'; tok_simp at h
    exact ⟨h.1, hkvs _ bs ihbs h.2.1, h.2.2.1, ihb false h.2.2.2 false⟩
  case h_multiList => intro es ihes b h b'; tok_simp at h; exact ⟨h.1, hlist es ihes h.2.1, h.2.2⟩
  case h_multiHash => intro kvs ihes b h b'; tok_simp at h; exact ⟨h.1, hkvs _ kvs ihes h.2.1, h.2.2⟩
  case h_star => intro l rhs ihl ihr b h b'; tok_simp at h; exact ⟨ihl b h.1 b', h.2.1, ihr true h.2.2 true⟩
  case h_ostar =>
    intro l rhs ihl ihr b h b'
    simp only [C10C.fullParen, Grammar.flat, C10C.isIcur_fullParen, List.forall_mem_append] at h ⊢
    refine ⟨?_, ihr true h.2 true⟩
    cases hi : l.isIcur
    · simp only [hi, Bool.false_eq_true, if_false, List.forall_mem_append, List.forall_mem_singleton] at h ⊢
      exact ⟨ihl b h.1.1 b', hD⟩
    · cases b' <;> simp only [if_true, Bool.false_eq_true, if_false, List.forall_mem_singleton] <;> assumption
  case h_flat => intro l rhs ihl ihr b h b'; tok_simp at h; exact ⟨ihl b h.1 b', h.2.1, ihr true h.2.2 true⟩
  case h_filt =>
    intro l c rhs ihl ihc ihr b h b'; tok_simp at h
    exact ⟨ihl b h.1 b', h.2.1, ihc false h.2.2.1 false, h.2.2.2.1, ihr true h.2.2.2.2 true⟩
  case h_slice =>
    intro l a bb c rhs ihl ihr b h b'; tok_simp at h
    exact ⟨ihl b h.1 b', h.2.1, h.2.2.1, h.2.2.2.1, ihr true h.2.2.2.2 true⟩
end Tokens

/-- the tokens of `fullParen t` have the shape of their types when those of `t` have -/
theorem fullParen_shapes {t : PTree} (h : ∀ tok ∈ Grammar.flatten t, Lexical.TokShape tok.type tok.value) :
    ∀ tok ∈ Grammar.flatten (C10C.fullParen t), Lexical.TokShape tok.type tok.value :=
  fullParen_tokInv (P := fun tok => Lexical.TokShape tok.type tok.value) rfl rfl rfl rfl t false h false

end Jmes.C10E
