/-
  C09 (E) — the loop bounds ("fuel") of the instrumented lexer are never what ends a loop.

  `forBrkT body fuel st` (`Jmes/Proofs/C09CTick.lean`) runs `body` at most `fuel` times and, when the counter runs
  out, returns `.next st'` SILENTLY — indistinguishable, for the `.1 = model` and `.2 ≤ bound` theorems of
  `Jmes/Proofs/C09CTickLex.lean`, from a loop that was cut short (the model's functions carry the same fuel and are
  cut short at the same point).  The Go loops are unbounded `for { … }`: a mirror whose counter could run out would
  not be a mirror of them.  This file proves, for each of the four lexer loops, that with the fuel passed AT THE CALL
  SITES the run ends in `.brk _` — the loop is left by one of its own exits (`break` / `return` in Go), never by the
  counter:

    loop (lexer.go)                          mirror            fuel at the call site           theorem
    :440 / :518 / :557 digits, identifiers   `spanBody p`      `|s|`, on `s.drop k`, `k ≥ 1`   `span_brk`, `span_site*`
    :410 / :458 / :488 delimited tokens      `scanBody d`      `|s| + 1`, on `s.drop sz`       `scan_brk`, `scan_site`
    :28  whitespace                          `skipWsBody`      `|s|`, on `s ≠ []`              `skipWs_brk`, `skipWs_site`
    the `Next` calls of one `Parse`          `lexAllBody`      `|s| + 1`                       `lexAll_brk`, `lexAll_site`

  The bounds are tight for the whitespace loop (`|s|` is enough because the test lexer.go:40 leaves the loop in the
  iteration that consumes the last byte; one less is not) and the hypotheses `|s| < fuel` of the other three cannot be
  weakened to `≤` (examples below).  A finding recorded here: the EARLIER mirror of the whitespace loop, which tested
  for the end of the input at the head of the next iteration instead of at lexer.go:40, DID exhaust the fuel `|s|`
  on an input of blanks only (`skipWsBodyTop`, `skipWsTop_exhausts`); it has been replaced in `C09CTickLex.lean`.
-/
import Jmes.Proofs.C09CTickLex
set_option linter.unusedSimpArgs false
namespace Jmes.C09E
open Jmes Jmes.C09C

/-! ## digits and identifiers: `spanBody` -/

/-- lexer.go:440 / :518 / :557.  With more fuel than bytes to scan, the digit / identifier loop always ends by its
    own exit (a rune outside the class, or a failed decode — in particular the end of the input), never by the
    counter: every continuing iteration consumes at least one byte. -/
theorem span_brk (p : Nat → Bool) : ∀ (fuel : Nat) (s : Bytes) (n : Nat), s.length < fuel →
    ∃ st, (forBrkT (spanBody p) fuel (s, n)).1 = .brk st := by
  intro fuel
  induction fuel with
  | zero => intro s n h; omega
  | succ fuel ih =>
    intro s n hlt
    rw [forBrkT_succ_fst]
    simp only [spanBody]
    cases h : lexDecode s with
    | error e => exact ⟨_, rfl⟩
    | ok q =>
      obtain ⟨r, sz⟩ := q
      simp only
      cases hp : p r with
      | false => exact ⟨_, rfl⟩
      | true =>
        have hpos := Lex.lexDecode_pos h
        simp only [if_true, pure_fst]
        exact ih (s.drop sz) (n + sz) (by rw [List.length_drop]; omega)

/-- every call site of `spanRunesT` in `lexTokenT` passes the fuel `|s|` and scans `s.drop k` where `k ≥ sz ≥ 1` is
    what `Next` has already decoded of the token (`sz`: digits :386, identifiers :390; `sz + nsz`: after `-` :128,
    after `$` :555): the fuel exceeds the bytes left, so the loop ends by its own exit. -/
theorem span_site (p : Nat → Bool) {s : Bytes} {r sz : Nat} (h : lexDecode s = .ok (r, sz)) (k : Nat) (hk : sz ≤ k)
    (n : Nat) : ∃ st, (forBrkT (spanBody p) s.length (s.drop k, n)).1 = .brk st := by
  have hpos := Lex.lexDecode_pos h
  exact span_brk p s.length (s.drop k) n (by rw [List.length_drop]; omega)

/-- the loop inside `spanRunesT isDigitR s.length (s.drop sz)` (a number, lexer.go:386 → :440) -/
theorem span_site_digits {s : Bytes} {r sz : Nat} (h : lexDecode s = .ok (r, sz)) :
    ∃ st, (forBrkT (spanBody isDigitR) s.length (s.drop sz, 0)).1 = .brk st :=
  span_site _ h sz (Nat.le_refl _) 0

/-- the loop inside `spanRunesT (alpha or digit) s.length (s.drop sz)` (an identifier, lexer.go:390 → :518) -/
theorem span_site_ident {s : Bytes} {r sz : Nat} (h : lexDecode s = .ok (r, sz)) :
    ∃ st, (forBrkT (spanBody (fun r => isAlphaR r || isDigitR r)) s.length (s.drop sz, 0)).1 = .brk st :=
  span_site _ h sz (Nat.le_refl _) 0

/-- the loop inside `spanRunesT isDigitR s.length (s.drop (sz + nsz))` (a negative number, lexer.go:128 → :440) -/
theorem span_site_neg {s : Bytes} {r sz : Nat} (h : lexDecode s = .ok (r, sz)) (nsz : Nat) :
    ∃ st, (forBrkT (spanBody isDigitR) s.length (s.drop (sz + nsz), 0)).1 = .brk st :=
  span_site _ h (sz + nsz) (Nat.le_add_right _ _) 0

/-- the loop inside `spanRunesT (alpha or digit) s.length (s.drop (sz + nsz))` (a variable, lexer.go:555 → :557) -/
theorem span_site_variable {s : Bytes} {r sz : Nat} (h : lexDecode s = .ok (r, sz)) (nsz : Nat) :
    ∃ st, (forBrkT (spanBody (fun r => isAlphaR r || isDigitR r)) s.length (s.drop (sz + nsz), 0)).1 = .brk st :=
  span_site _ h (sz + nsz) (Nat.le_add_right _ _) 0

/-- `123` with fuel 4 (and at the call site: `s = 123`, fuel 3, scanning `23`): left by the failing decode at the end -/
example : (forBrkT (spanBody isDigitR) 4 ([0x31, 0x32, 0x33], 0)).1 = .brk ([], 3) ∧
    (forBrkT (spanBody isDigitR) 3 ([0x32, 0x33], 0)).1 = .brk ([], 2) := ⟨by rfl, by rfl⟩
/-- `|s| < fuel` cannot be weakened to `≤`: with fuel = length the exit at the end of the input is not reached -/
example : (forBrkT (spanBody isDigitR) 3 ([0x31, 0x32, 0x33], 0)).1 = .next ([], 3) := by rfl

/-! ## delimited tokens: `scanBody` -/

/-- lexer.go:410 / :458 / :488.  With more fuel than bytes to scan, the loop over the body of a delimited token
    always ends by its own exit (the closing delimiter, or a failed decode — the end of the input included), never by
    the counter, whatever the running outcome `o` is. -/
theorem scan_brk (d : Nat) : ∀ (fuel : Nat) (s : Bytes) (n : Nat) (o : Except LexErr Nat), s.length < fuel →
    ∃ st, (forBrkT (scanBody d) fuel ((s, n), o)).1 = .brk st := by
  intro fuel
  induction fuel with
  | zero => intro s n o h; omega
  | succ fuel ih =>
    intro s n o hlt
    rw [forBrkT_succ_fst]
    simp only [scanBody]
    cases h : lexDecode s with
    | error e => exact ⟨_, rfl⟩
    | ok q =>
      obtain ⟨r, sz⟩ := q
      have hpos := Lex.lexDecode_pos h
      simp only
      by_cases hd : r = d
      · simp only [hd, if_true]; exact ⟨_, rfl⟩
      · simp only [hd, if_false]
        by_cases hb : r = 0x5C
        · simp only [hb, if_true, bind_fst]
          cases h2 : lexDecode (s.drop sz) with
          | error e => exact ⟨_, rfl⟩
          | ok q2 =>
            obtain ⟨r2, sz2⟩ := q2
            simp only [pure_fst]
            exact ih _ _ _ (by rw [List.length_drop]; omega)
        · simp only [hb, if_false, pure_fst]
          exact ih _ _ _ (by rw [List.length_drop]; omega)

/-- the three call sites of `scanDelimT` in `lexTokenT` (lexer.go:53, :84, :302) pass the fuel `|s| + 1` and scan
    `s.drop sz`: the loop ends by its own exit.  (So the initial outcome `.error .unexpectedEnd`, which is what the
    mirror and the model return when the counter runs out, is never returned for that reason.) -/
theorem scan_site (d : Nat) (s : Bytes) (sz n : Nat) :
    ∃ st, (forBrkT (scanBody d) (s.length + 1) ((s.drop sz, n), .error .unexpectedEnd)).1 = .brk st :=
  scan_brk d _ _ _ _ (by rw [List.length_drop]; omega)

/-- `'a\'b'` (7 bytes, fuel 8) after the opening quote: left at the closing quote; an unterminated `'a`: left by the
    failing decode at the end of the input -/
example : (forBrkT (scanBody 0x27) 8 (([0x61, 0x5C, 0x27, 0x62, 0x27], 1), .error .unexpectedEnd)).1
      = .brk (([0x27], 5), .ok 6) ∧
    (forBrkT (scanBody 0x27) 3 (([0x61], 1), .error .unexpectedEnd)).1 = .brk (([], 2), .error .unexpectedEnd) :=
  ⟨by rfl, by rfl⟩
/-- `|s| < fuel` cannot be weakened to `≤` -/
example : (forBrkT (scanBody 0x27) 1 (([0x61], 1), .error .unexpectedEnd)).1 = .next (([], 2), .error .unexpectedEnd) := by
  rfl

/-! ## whitespace: `skipWsBody` -/

/-- lexer.go:28.  On a non-empty input, with at least as much fuel as bytes, the whitespace loop always ends by its
    own exit: a non-blank rune or a decoding error (lexer.go:30 / :34), or the end of the input detected IN the
    iteration that consumes the last blank (lexer.go:40) — never by the counter.  (On the empty input `skipWsT` does not
    enter the loop: lexer.go:17.) -/
theorem skipWs_brk : ∀ (fuel : Nat) (s : Bytes), s ≠ [] → s.length ≤ fuel →
    ∃ st, (forBrkT skipWsBody fuel s).1 = .brk st := by
  intro fuel
  induction fuel with
  | zero =>
    intro s hne h
    cases s with
    | nil => exact absurd rfl hne
    | cons b t => simp at h
  | succ fuel ih =>
    intro s hne hle
    rw [forBrkT_succ_fst]
    simp only [skipWsBody]
    cases h : lexDecode s with
    | error e => exact ⟨_, rfl⟩
    | ok q =>
      obtain ⟨r, sz⟩ := q
      have hpos := Lex.lexDecode_pos h
      simp only
      cases hw : isWsR r with
      | false => exact ⟨_, rfl⟩
      | true =>
        simp only [if_true]
        cases hd : s.drop sz with
        | nil => exact ⟨_, rfl⟩
        | cons b' t' =>
          simp only [pure_fst]
          refine ih (b' :: t') (by simp) ?_
          rw [← hd, List.length_drop]; omega

/-- the call site in `lexAllBody` (`skipWsT st.1.length st.1`): fuel = the length of the input -/
theorem skipWs_site (s : Bytes) (hne : s ≠ []) : ∃ st, (forBrkT skipWsBody s.length s).1 = .brk st :=
  skipWs_brk s.length s hne (Nat.le_refl _)

/-- two blanks then `a`, fuel 3: left at `a`; two blanks only, fuel 2: left by the test lexer.go:40 -/
example : (forBrkT skipWsBody 3 [0x20, 0x20, 0x61]).1 = .brk [0x61] ∧ (forBrkT skipWsBody 2 [0x20, 0x20]).1 = .brk [] :=
  ⟨by rfl, by rfl⟩
/-- the bound `|s|` is tight: one less and the counter is what ends the loop -/
example : (forBrkT skipWsBody 1 [0x20, 0x20]).1 = .next [0x20] := by rfl

/-- FINDING.  The earlier mirror of the whitespace loop (`C09CTickLex.lean` before this wave; it is the shape of the
    model's `skipWsLex`): the end of the input is tested at the head of the NEXT iteration, not at lexer.go:40. -/
def skipWsBodyTop (s : Bytes) : T (Ctl Bytes) :=
  match s with
  | [] => pure (.brk [])
  | _ =>
    match lexDecode s with
    | .ok (r, sz) => if isWsR r then pure (.next (s.drop sz)) else pure (.brk s)
    | .error _ => pure (.brk s)

/-- … with the fuel `|s|` of the call site it IS exhausted on an input of blanks only: the run ends in `.next []`, the
    iteration that would have seen the empty rest never runs.  (The value was still the model's — `Ctl.get` does not
    distinguish — and the tick count happened to be the number of decodes; but the loop was ended by the counter.) -/
theorem skipWsTop_exhausts : (forBrkT skipWsBodyTop [0x20, 0x20].length [0x20, 0x20]).1 = .next [] := by rfl

/-- … the strongest true statement for that mirror: the counter `|s|` ends it only with the whole input consumed -/
theorem skipWsTop_exhausted_only_at_end : ∀ (fuel : Nat) (s : Bytes), s.length ≤ fuel →
    (∃ st, (forBrkT skipWsBodyTop fuel s).1 = .brk st) ∨ (forBrkT skipWsBodyTop fuel s).1 = .next [] := by
  intro fuel
  induction fuel with
  | zero =>
    intro s h
    cases s with
    | nil => exact .inr rfl
    | cons b t => simp at h
  | succ fuel ih =>
    intro s hle
    rw [forBrkT_succ_fst]
    cases s with
    | nil => exact .inl ⟨_, rfl⟩
    | cons b t =>
      simp only [skipWsBodyTop]
      cases h : lexDecode (b :: t) with
      | error e => exact .inl ⟨_, rfl⟩
      | ok q =>
        obtain ⟨r, sz⟩ := q
        have hpos := Lex.lexDecode_pos h
        simp only
        cases hw : isWsR r with
        | false => exact .inl ⟨_, rfl⟩
        | true =>
          simp only [if_true, pure_fst]
          exact ih _ (by rw [List.length_drop]; omega)

/-! ## the token stream: `lexAllBody` -/

/-- the `Next` calls of one `Parse`.  With more fuel than bytes, the token-stream loop always ends by its own exit
    (the `End` token or a lexical error), never by the counter: every `Next` that returns a token consumes at least
    one byte.  So the initial outcome `some .unexpectedEnd` (what mirror and model return when the counter runs out)
    is never returned for that reason. -/
theorem lexAll_brk : ∀ (fuel : Nat) (s : Bytes) (acc : List Token) (o : Option LexErr), s.length < fuel →
    ∃ st, (forBrkT lexAllBody fuel (s, (acc, o))).1 = .brk st := by
  intro fuel
  induction fuel with
  | zero => intro s acc o h; omega
  | succ fuel ih =>
    intro s acc o hlt
    rw [forBrkT_succ_fst]
    simp only [lexAllBody, bind_fst, skipWsT_fst]
    cases hs : skipWsLex s.length s with
    | nil => exact ⟨_, rfl⟩
    | cons b t =>
      have hsuf : (b :: t).length ≤ s.length := by
        obtain ⟨w, _, hw2⟩ := Lex.skipWsLex_spec s.length s
        have := congrArg List.length hw2
        rw [hs, List.length_append] at this; omega
      simp only [bind_fst, lexTokenT_fst]
      cases hx : lexToken (b :: t) with
      | error e => exact ⟨_, rfl⟩
      | ok q =>
        obtain ⟨tk, n⟩ := q
        simp only [pure_fst]
        refine ih _ _ _ ?_
        rw [List.length_drop]
        have : 1 ≤ max n 1 := Nat.le_max_right _ _
        simp only [List.length_cons] at hsuf ⊢
        omega

/-- the call site in `lexAllT`: fuel `|expr| + 1` -/
theorem lexAll_site (s : Bytes) :
    ∃ st, (forBrkT lexAllBody (s.length + 1) (s, ([], some .unexpectedEnd))).1 = .brk st :=
  lexAll_brk _ _ _ _ (Nat.lt_succ_self _)

/-- `a.b` (3 bytes, fuel 4): three tokens, left by the `End` exit in the fourth iteration -/
example : (forBrkT lexAllBody 4 ([0x61, 0x2E, 0x62], ([], some .unexpectedEnd))).1
    = .brk ([], ([⟨.unquotedIdentifier, [0x61]⟩, ⟨.dot, [0x2E]⟩, ⟨.unquotedIdentifier, [0x62]⟩, ⟨.end, []⟩], none)) := by
  rfl
/-- `|s| < fuel` cannot be weakened to `≤`: with fuel 3 the `End` token is not produced -/
example : (forBrkT lexAllBody 3 ([0x61, 0x2E, 0x62], ([], some .unexpectedEnd))).1
    = .next ([], ([⟨.unquotedIdentifier, [0x61]⟩, ⟨.dot, [0x2E]⟩, ⟨.unquotedIdentifier, [0x62]⟩], some .unexpectedEnd)) := by
  rfl

/-! ## all together -/

/-- every `forBrkT` run that `lexAllT expr` performs — the token-stream loop, and inside any `Next` on any remaining
    input `s` the whitespace loop and the scanning loops with the fuel `lexTokenT` / `lexAllBody` pass — ends in
    `.brk`: no loop of the instrumented lexer is ever ended by its counter -/
theorem lexer_fuel_never_exhausted :
    (∀ expr : Bytes, ∃ st, (forBrkT lexAllBody (expr.length + 1) (expr, ([], some .unexpectedEnd))).1 = .brk st) ∧
    (∀ s : Bytes, s ≠ [] → ∃ st, (forBrkT skipWsBody s.length s).1 = .brk st) ∧
    (∀ (d : Nat) (s : Bytes) (sz n : Nat),
      ∃ st, (forBrkT (scanBody d) (s.length + 1) ((s.drop sz, n), .error .unexpectedEnd)).1 = .brk st) ∧
    (∀ (p : Nat → Bool) (s : Bytes) (r sz : Nat), lexDecode s = .ok (r, sz) → ∀ k, sz ≤ k →
      ∃ st, (forBrkT (spanBody p) s.length (s.drop k, 0)).1 = .brk st) :=
  ⟨lexAll_site, skipWs_site, scan_site, fun p _ _ _ h k hk => span_site p h k hk 0⟩

end Jmes.C09E
