/-
  C09, third wave — the ARRAY loops of /repo/internal/evaluator/array.go (and the `zip` builtin of evaluator.go) in the
  tick-writer monad of `Jmes/Proofs/C09CTick.lean`.

  In every loop of this file the trip count is the LENGTH of an array (`for _, v := range a`), never an integer argument:
  what is to be shown is that the ticks are `≤ c·(elements visited + elements written + 1)` plus the ticks of the
  evaluations of the sub-expression, and nothing else.  The evaluation of the sub-expression (`e.evaluate(node, v,
  variables)`) is a PARAMETER `fT : Val → T (Res Val)` of the instrumented loops: its ticks are counted through the
  monad, its result `(fT x).1` is what the model's loop takes as `f x`.

  Units (as in C09CTick): one tick per loop iteration entered (charged by `forT`/`forBrkT`, on which the two `range`
  combinators below are built), one tick per element appended (`r = append(r, x)`: `tick`), `allocT n` for
  `make([]any, 0, n)` / `make([]any, n)` / `slices.Clone` of `n` cells.  Stores `r[i] = x` into cells that `make`
  has paid for are not charged again (as in `copyStepT`).  `sort.Stable` is Go library code and is NOT instrumented.

  The tie to Go is by reading: each loop names the file:line of the Go loop header (as of the current /repo).
-/
import Jmes.Proofs.C09CTick
import Jmes.Proofs.Refine
set_option linter.unusedSimpArgs false
set_option linter.unusedVariables false
namespace Jmes.C09C
open Jmes

/-! ## `for _, v := range a` -/

/-- the body of a `range` loop as a `forT` body: the state is (elements not yet visited, loop state) -/
def rangeStep {α σ : Type} (body : α → σ → T σ) (p : List α × σ) : T (List α × σ) :=
  match p.1 with
  | [] => pure p
  | x :: rest => do let s' ← body x p.2; pure (rest, s')

/-- the Go loop `for _, v := range a { s = body(v, s) }` without `break`/`return`: a counted loop of `len(a)`
    iterations.  It IS a `forT` (trip count `xs.length`, no guard), so the tick per iteration is the framework's. -/
def rangeT {α σ : Type} (body : α → σ → T σ) (xs : List α) (s : σ) : T σ := do
  let p ← forT (fun _ => true) (rangeStep body) xs.length (xs, s)
  pure p.2

theorem rangeT_nil {α σ} (body : α → σ → T σ) (s : σ) : rangeT body [] s = ⟨s, 0⟩ := rfl

theorem rangeT_cons_fst {α σ} (body : α → σ → T σ) (x : α) (xs : List α) (s : σ) :
    (rangeT body (x :: xs) s).1 = (rangeT body xs (body x s).1).1 := by
  simp only [rangeT, bind_fst, pure_fst, List.length_cons]
  rw [forT_succ_fst _ _ _ _ rfl]; rfl

theorem rangeT_cons_snd {α σ} (body : α → σ → T σ) (x : α) (xs : List α) (s : σ) :
    (rangeT body (x :: xs) s).2 = 1 + ((body x s).2 + (rangeT body xs (body x s).1).2) := by
  simp only [rangeT, bind_snd, pure_snd, List.length_cons, Nat.add_zero]
  rw [forT_succ_snd _ _ _ _ rfl]
  simp [rangeStep]

/-- the body of a `range` loop that may `return`, as a `forBrkT` body; the state is (elements not yet visited, loop
    state, the value returned from inside the loop if any) -/
def rangeBrkStep {α σ ε : Type} (body : α → σ → T (σ ⊕ ε)) (p : List α × σ × Option ε) :
    T (Ctl (List α × σ × Option ε)) :=
  match p.1 with
  | [] => pure (.next p)
  | x :: rest => do
    match ← body x p.2.1 with
    | .inl s' => pure (.next (rest, s', none))
    | .inr e => pure (.brk (rest, p.2.1, some e))

/-- how the loop was left: `.inl s` = ran to the end with state `s`, `.inr e` = `return e` from inside -/
def rangeBrkOut {α σ ε : Type} : Ctl (List α × σ × Option ε) → σ ⊕ ε
  | .next p => .inl p.2.1
  | .brk (_, _, some e) => .inr e
  | .brk (_, s, none) => .inl s

/-- the Go loop `for _, v := range a { …; if err != nil { return nil, err }; … }`: `.inl s'` continues with state
    `s'`, `.inr e` leaves the function with `e`.  It IS a `forBrkT` with trip count `len(a)`: one tick per iteration
    entered, the leaving one included; the elements after the one that returns are never visited. -/
def rangeBrkT {α σ ε : Type} (body : α → σ → T (σ ⊕ ε)) (xs : List α) (s : σ) : T (σ ⊕ ε) := do
  let c ← forBrkT (rangeBrkStep body) xs.length (xs, s, none)
  pure (rangeBrkOut c)

theorem rangeBrkT_nil {α σ ε} (body : α → σ → T (σ ⊕ ε)) (s : σ) : rangeBrkT body [] s = ⟨.inl s, 0⟩ := rfl

theorem rangeBrkT_cons_fst {α σ ε} (body : α → σ → T (σ ⊕ ε)) (x : α) (xs : List α) (s : σ) :
    (rangeBrkT body (x :: xs) s).1 = (match (body x s).1 with
      | .inl s' => (rangeBrkT body xs s').1
      | .inr e => .inr e) := by
  simp only [rangeBrkT, bind_fst, pure_fst, List.length_cons]
  rw [forBrkT_succ_fst]
  simp only [rangeBrkStep, bind_fst]
  cases (body x s).1 <;> rfl

theorem rangeBrkT_cons_snd {α σ ε} (body : α → σ → T (σ ⊕ ε)) (x : α) (xs : List α) (s : σ) :
    (rangeBrkT body (x :: xs) s).2 = 1 + ((body x s).2 + (match (body x s).1 with
      | .inl s' => (rangeBrkT body xs s').2
      | .inr _ => 0)) := by
  simp only [rangeBrkT, bind_snd, pure_snd, List.length_cons, Nat.add_zero]
  rw [forBrkT_succ_snd]
  simp only [rangeBrkStep, bind_fst, bind_snd]
  cases (body x s).1 <;> simp

/-- `rangeBrkT_cons_fst` with `Sum.elim` in place of the `match` -/
theorem rangeBrkT_cons_fst' {α σ ε} (body : α → σ → T (σ ⊕ ε)) (x : α) (xs : List α) (s : σ) :
    (rangeBrkT body (x :: xs) s).1 = Sum.elim (fun s' => (rangeBrkT body xs s').1) Sum.inr (body x s).1 := by
  rw [rangeBrkT_cons_fst]; cases (body x s).1 <;> rfl

/-- `rangeBrkT_cons_snd` with `Sum.elim` in place of the `match` -/
theorem rangeBrkT_cons_snd' {α σ ε} (body : α → σ → T (σ ⊕ ε)) (x : α) (xs : List α) (s : σ) :
    (rangeBrkT body (x :: xs) s).2
      = 1 + ((body x s).2 + Sum.elim (fun s' => (rangeBrkT body xs s').2) (fun _ => 0) (body x s).1) := by
  rw [rangeBrkT_cons_snd]; cases (body x s).1 <;> rfl

/-- the ticks of the evaluations of the sub-expression on the elements of `xs` -/
def evalCost {α β : Type} (fT : α → T β) (xs : List α) : Nat := (xs.map (fun x => (fT x).2)).sum

@[simp] theorem evalCost_nil {α β} (fT : α → T β) : evalCost fT [] = 0 := rfl
@[simp] theorem evalCost_cons {α β} (fT : α → T β) (x : α) (xs : List α) :
    evalCost fT (x :: xs) = (fT x).2 + evalCost fT xs := by simp [evalCost]
theorem evalCost_append {α β} (fT : α → T β) (xs ys : List α) :
    evalCost fT (xs ++ ys) = evalCost fT xs + evalCost fT ys := by simp [evalCost]

example : rangeT (fun (x : Nat) (s : Nat) => do tick x; pure (s + x)) [1, 2, 3] 0 = ⟨6, 3 + 6⟩ := by decide
example : rangeBrkT (fun (x : Nat) (s : Nat) => if x = 2 then pure (.inr "stop") else pure (.inl (s + x)))
    [1, 2, 3] 0 = ⟨(.inr "stop" : Nat ⊕ String), 2⟩ := by decide

/-! ## `index` (array.go:564) -/

/-- `index(v, i)`, array.go:564-580: a type assertion, two comparisons, one addition and `a[i]`.  There is NO loop
    and NO allocation between array.go:564 and array.go:580, so the instrumented function is the model's function
    with zero ticks — for every `i`, whatever its magnitude. -/
def indexT (v : Val) (i : Int) : T (Res Val) := pure (index v i)

/-- the instrumented `index` is the model's `index` -/
theorem indexT_fst (v : Val) (i : Int) : (indexT v i).1 = index v i := rfl
/-- and it spends no tick at all, ∀ i : Int (there is no loop in array.go:564-580 to charge for) -/
theorem indexT_snd (v : Val) : ∀ i : Int, (indexT v i).2 = 0 := fun _ => rfl

example : indexT (.arr .plain [.bool true, .null]) (-2 ^ 63) = ⟨.ok .null, 0⟩ := by rfl
example : indexT (.arr .plain [.bool true, .null]) (2 ^ 63 - 1) = ⟨.ok .null, 0⟩ := by rfl
example : indexT (.arr .plain [.bool true, .null]) (-2) = ⟨.ok (.bool true), 0⟩ := by rfl

/-! ## `flatten` (array.go:533) -/

/-- the body of array.go:543: `if i == nil { continue }; r = append(r, i)` -/
def flattenInnerBody (i : Val) (r : List Val) : T (List Val) :=
  if i.isNull then pure r else do tick; pure (r ++ [i])

/-- array.go:543 `for _, i := range va { if i == nil { continue }; r = append(r, i) }` -/
def flattenInnerT (va : List Val) (r : List Val) : T (List Val) := rangeT flattenInnerBody va r

/-- the body of array.go:540: `va, ok := v.([]any); if ok { <array.go:543>; continue }; if v == nil { continue };
    r = append(r, v)` -/
def flattenOuterBody (v : Val) (r : List Val) : T (List Val) :=
  match v with
  | .arr _ va => flattenInnerT va r                       -- array.go:543
  | .null => pure r
  | v => do tick; pure (r ++ [v])

/-- array.go:540 `for _, v := range a { … }` -/
def flattenOuterT (a : List Val) (r : List Val) : T (List Val) := rangeT flattenOuterBody a r

/-- `flatten(v)`, array.go:533-562.  `flattenTag` is the model's bookkeeping about map order (is the result in an
    order Go does not fix?), not work that Go does. -/
def flattenT (v : Val) : T Val :=
  match v with
  | .arr t a => do
    allocT a.length                                       -- array.go:539 `r := make([]any, 0, len(a))`
    let r ← flattenOuterT a []                            -- array.go:540
    pure (.arr (flattenTag t a) r)
  | _ => pure .null

/-- number of elements of the inner arrays: the iterations of array.go:543 over the whole run -/
def flattenInnerCount : List Val → Nat
  | [] => 0
  | .arr _ ys :: rest => ys.length + flattenInnerCount rest
  | _ :: rest => flattenInnerCount rest

/-- number of `null`s skipped (array.go:544 and array.go:554) -/
def flattenNulls : List Val → Nat
  | [] => 0
  | .arr _ ys :: rest => (ys.filter Val.isNull).length + flattenNulls rest
  | .null :: rest => 1 + flattenNulls rest
  | _ :: rest => flattenNulls rest

theorem flattenInnerT_eq : ∀ (va r : List Val),
    flattenInnerT va r = ⟨r ++ va.filter (fun y => !y.isNull), va.length + (va.filter (fun y => !y.isNull)).length⟩ := by
  intro va
  induction va with
  | nil => intro r; simp [flattenInnerT, rangeT_nil]
  | cons i va ih =>
    intro r
    unfold flattenInnerT at ih ⊢
    apply T.ext
    · rw [rangeT_cons_fst, ih]
      cases h : i.isNull <;> simp [flattenInnerBody, h]
    · rw [rangeT_cons_snd, ih]
      cases h : i.isNull <;> simp [flattenInnerBody, h] <;> omega

theorem flattenOuterT_eq : ∀ (a r : List Val),
    flattenOuterT a r = ⟨r ++ flattenElems a, a.length + flattenInnerCount a + (flattenElems a).length⟩ := by
  intro a
  induction a with
  | nil => intro r; simp [flattenOuterT, rangeT_nil, flattenElems, flattenInnerCount]
  | cons v a ih =>
    intro r
    unfold flattenOuterT at ih ⊢
    apply T.ext
    · rw [rangeT_cons_fst, ih]
      cases v <;> simp [flattenOuterBody, flattenInnerT_eq, flattenElems]
    · rw [rangeT_cons_snd, ih]
      cases v <;> simp [flattenOuterBody, flattenInnerT_eq, flattenElems, flattenInnerCount] <;> omega

/-- the instrumented `flatten` computes the model's `flatten` -/
theorem flattenT_fst (v : Val) : (flattenT v).1 = flatten v := by
  cases v <;> simp [flattenT, flatten, flattenOuterT_eq]

/-- the exact cost of `flatten` on an array: `make` (len), one tick per outer iteration (len), one per inner iteration
    (`flattenInnerCount`), one per element appended (the length of the result) -/
theorem flattenT_snd (t : ATag) (a : List Val) :
    (flattenT (.arr t a)).2 = 2 * a.length + flattenInnerCount a + (flattenElems a).length := by
  simp [flattenT, flattenOuterT_eq]; omega

theorem flattenElems_length_le (a : List Val) : (flattenElems a).length ≤ a.length + flattenInnerCount a := by
  induction a with
  | nil => simp [flattenElems]
  | cons v a ih =>
    cases v <;> simp [flattenElems, flattenInnerCount] <;> try omega
    rename_i t ys
    have := List.length_filter_le (fun y => !y.isNull) ys
    omega

theorem flattenInnerCount_le (a : List Val) : flattenInnerCount a ≤ flattenNulls a + (flattenElems a).length := by
  induction a with
  | nil => simp [flattenInnerCount]
  | cons v a ih =>
    cases v <;> simp [flattenElems, flattenInnerCount, flattenNulls] <;> try omega
    rename_i t ys
    have : ys.length = (ys.filter Val.isNull).length + (ys.filter (fun y => !y.isNull)).length := by
      clear ih
      induction ys with
      | nil => rfl
      | cons y ys ih => cases h : y.isNull <;> simp [List.filter, h] <;> omega
    omega

/-- `flatten`: at most `3·(len(a) + number of inner elements + 1)` ticks — linear in what the two loops visit -/
theorem flattenT_snd_le (t : ATag) (a : List Val) :
    (flattenT (.arr t a)).2 ≤ 3 * (a.length + flattenInnerCount a + 1) := by
  rw [flattenT_snd]; have := flattenElems_length_le a; omega

/-- the same against the RESULT: at most `2·(len(a) + nulls skipped + |result| + 1)` ticks -/
theorem flattenT_snd_le_result (t : ATag) (a : List Val) :
    (flattenT (.arr t a)).2 ≤ 2 * (a.length + flattenNulls a + (flattenElems a).length + 1) := by
  rw [flattenT_snd]; have := flattenInnerCount_le a; omega

/-- a non-array costs nothing -/
theorem flattenT_snd_other (v : Val) (h : ∀ t a, v ≠ .arr t a) : (flattenT v).2 = 0 := by
  cases v <;> first | rfl | exact absurd rfl (h _ _)

example : flattenT (.arr .plain [.arr .plain [.bool true, .null], .null, .bool false])
    = ⟨.arr .plain [.bool true, .bool false], 3 + 3 + 2 + 2⟩ := by rfl

/-! ## `pruneArray` (array.go:582) -/

/-- the body of array.go:590; the state is `(i, n, r)`:
    `if n { if va != nil { r = append(r, va) }; continue }; if va == nil { if i > 0 { r = append(r, a[:i]...) }; n = true }`
    (`append(r, a[:i]...)` copies `i` elements: `i` ticks) -/
def pruneBody (a : List Val) (va : Val) (s : Nat × Bool × List Val) : T (Nat × Bool × List Val) :=
  let (i, n, r) := s
  if n then
    if !va.isNull then do tick; pure (i + 1, n, r ++ [va])
    else pure (i + 1, n, r)
  else if va.isNull then
    if i > 0 then do tick i; pure (i + 1, true, r ++ a.take i)
    else pure (i + 1, true, r)
  else pure (i + 1, n, r)

/-- array.go:590 `for i, va := range a { … }` -/
def pruneLoopT (a : List Val) (rest : List Val) (s : Nat × Bool × List Val) : T (Nat × Bool × List Val) :=
  rangeT (pruneBody a) rest s

/-- `pruneArray(v)`, array.go:582-613; `r := []any{}` allocates nothing.  `ATag.derived` is the model's map-order
    bookkeeping. -/
def pruneArrayT (v : Val) : T Val :=
  match v with
  | .arr t a => do
    let s ← pruneLoopT a a (0, false, [])                 -- array.go:590
    pure (if s.2.1 then .arr t.derived s.2.2 else .arr t a) -- array.go:608
  | _ => pure .null

/-- the loop invariant of array.go:590: after the prefix `pre`, `n` says whether a null was seen, `r` holds the
    non-null elements of `pre` if so (and is empty otherwise); the ticks of the remaining iterations are the
    iterations plus the elements appended -/
theorem pruneLoopT_eq (a : List Val) : ∀ (rest pre : List Val), a = pre ++ rest →
    pruneLoopT a rest (pre.length, pre.any Val.isNull, if pre.any Val.isNull then pre.filter (fun x => !x.isNull) else [])
      = ⟨(a.length, a.any Val.isNull, if a.any Val.isNull then a.filter (fun x => !x.isNull) else []),
         rest.length + ((if a.any Val.isNull then a.filter (fun x => !x.isNull) else []).length
           - (if pre.any Val.isNull then pre.filter (fun x => !x.isNull) else []).length)⟩ := by
  intro rest
  induction rest with
  | nil => intro pre h; subst h; simp [pruneLoopT, rangeT_nil]
  | cons x rest ih =>
    intro pre h
    have h' : a = (pre ++ [x]) ++ rest := by simp [h]
    have ih' := ih (pre ++ [x]) h'
    unfold pruneLoopT at ih' ⊢
    have hnf : (pre.filter (fun x => !x.isNull)) = pre ∨ pre.any Val.isNull = true := by
      cases hp : pre.any Val.isNull
      · left
        rw [List.filter_eq_self]
        intro y hy
        have := List.any_eq_false.mp hp y hy
        simpa using this
      · right; rfl
    have hlen : (a.filter (fun x => !x.isNull)).length
        = (pre.filter (fun x => !x.isNull)).length + ([x].filter (fun x => !x.isNull)).length
          + (rest.filter (fun x => !x.isNull)).length := by
      rw [h, List.filter_append, List.length_append,
        show x :: rest = [x] ++ rest from rfl, List.filter_append, List.length_append]; omega
    have hany : a.any Val.isNull = (pre.any Val.isNull || x.isNull || rest.any Val.isNull) := by
      rw [h]; simp [List.any_append, Bool.or_assoc]
    have hbody : pruneBody a x (pre.length, pre.any Val.isNull,
          if pre.any Val.isNull then pre.filter (fun x => !x.isNull) else [])
        = ⟨((pre ++ [x]).length, (pre ++ [x]).any Val.isNull,
            if (pre ++ [x]).any Val.isNull then (pre ++ [x]).filter (fun x => !x.isNull) else []),
           (if (pre ++ [x]).any Val.isNull then (pre ++ [x]).filter (fun x => !x.isNull) else []).length
             - (if pre.any Val.isNull then pre.filter (fun x => !x.isNull) else []).length⟩ := by
      have htake : a.take pre.length = pre := by rw [h]; simp
      cases hp : pre.any Val.isNull <;> cases hx : x.isNull
      · apply T.ext <;> simp [pruneBody, hp, hx, List.any_append]
      · have hf : pre.filter (fun x => !x.isNull) = pre := by
          cases hnf with
          | inl e => exact e
          | inr e => rw [hp] at e; cases e
        by_cases h0 : pre.length > 0
        · apply T.ext <;> simp [pruneBody, hp, hx, List.any_append, List.filter_append, h0, htake, hf]
        · have : pre = [] := List.eq_nil_of_length_eq_zero (by omega)
          subst this
          apply T.ext <;> simp [pruneBody, hp, hx]
      · apply T.ext <;> simp [pruneBody, hp, hx, List.any_append, List.filter_append]
      · apply T.ext <;> simp [pruneBody, hp, hx, List.any_append, List.filter_append]
    apply T.ext
    · rw [rangeT_cons_fst, hbody, mk_fst, ih']
    · rw [rangeT_cons_snd, hbody, mk_fst, mk_snd, ih', mk_snd]
      simp only [List.length_cons]
      have m1 : (if pre.any Val.isNull then pre.filter (fun x => !x.isNull) else []).length
          ≤ (if (pre ++ [x]).any Val.isNull then (pre ++ [x]).filter (fun x => !x.isNull) else []).length := by
        cases hp : pre.any Val.isNull <;> simp [hp, List.any_append, List.filter_append]
      have m2 : (if (pre ++ [x]).any Val.isNull then (pre ++ [x]).filter (fun x => !x.isNull) else []).length
          ≤ (if a.any Val.isNull then a.filter (fun x => !x.isNull) else []).length := by
        rw [hany]
        cases hp : pre.any Val.isNull <;> cases hx : x.isNull <;>
          simp [hp, hx, List.any_append, List.filter_append] <;> (try rw [hlen]) <;> (try simp [hx]) <;> omega
      omega

/-- the instrumented `pruneArray` computes the model's `pruneArray` -/
theorem pruneArrayT_fst (v : Val) : (pruneArrayT v).1 = pruneArray v := by
  cases v with
  | arr t a =>
    have := pruneLoopT_eq a a [] rfl
    simp only [List.length_nil, List.any_nil, Bool.false_eq_true, if_false] at this
    simp only [pruneArrayT, pruneArray, bind_fst, pure_fst, this, mk_fst]
    cases h : a.any Val.isNull <;> simp [h]
  | _ => rfl

/-- the exact cost: one tick per element visited, plus one per element of the fresh array if there is one -/
theorem pruneArrayT_snd (t : ATag) (a : List Val) : (pruneArrayT (.arr t a)).2
    = a.length + (if a.any Val.isNull then (a.filter (fun x => !x.isNull)).length else 0) := by
  have := pruneLoopT_eq a a [] rfl
  simp only [List.length_nil, List.any_nil, Bool.false_eq_true, if_false] at this
  simp only [pruneArrayT, bind_snd, pure_snd, this, mk_snd]
  cases h : a.any Val.isNull <;> simp [h]

/-- `pruneArray`: at most `2·(len + 1)` ticks -/
theorem pruneArrayT_snd_le (t : ATag) (a : List Val) : (pruneArrayT (.arr t a)).2 ≤ 2 * (a.length + 1) := by
  rw [pruneArrayT_snd]
  have := List.length_filter_le (fun x => !x.isNull) a
  split <;> omega

example : pruneArrayT (.arr .plain [.bool true, .bool false, .null, .null, .bool true])
    = ⟨.arr .plain [.bool true, .bool false, .bool true], 5 + 3⟩ := by rfl
example : pruneArrayT (.arr .plain [.bool true, .bool false]) = ⟨.arr .plain [.bool true, .bool false], 2⟩ := by rfl

/-! ## The projection loops (array.go:163, 184, 214, 255, 277)

  `fT x` is `e.evaluate(node, x, variables)` in the tick monad: the loops below charge what THEY do (iterations,
  appends, `make`) and add the ticks of the calls `fT x` they make.  A Go loop leaves at the first `err != nil`; the
  model's loops are written with the bind of `Res`, which also stops at the first outcome that is not `ok`: the
  instrumented loops leave at the same element, so elements after a failing one are neither evaluated nor charged. -/

/-- a failing outcome of the sub-expression, as the outcome of the loop (`return nil, err`) -/
def failAs {α β : Type} (r : Res α) : Res β :=
  match r with
  | .ok _ => .panic "failAs: not a failure"
  | .err c => .err c
  | .panic w => .panic w
  | .nondet => .nondet
  | .unmodelled w => .unmodelled w

/-- the outcome of a loop that returns from inside with a failure -/
def loopOut {α : Type} : α ⊕ Res α → Res α
  | .inl r => .ok r
  | .inr e => e

/-- the body of array.go:284 (and of array.go:224, array.go:240):
    `p, err := e.evaluate(node, v, variables); if err != nil { return nil, err }; if p == nil { continue };
     r = append(r, p)` -/
def mapPruneBody (fT : Val → T (Res Val)) (v : Val) (r : List Val) : T (List Val ⊕ Res (List Val)) := do
  match ← fT v with
  | .ok p => if p.isNull then pure (.inl r) else do tick; pure (.inl (r ++ [p]))
  | e => pure (.inr (failAs e))

/-- array.go:284 `for _, v := range a { … }` started with the slice `r` -/
def mapPruneLoopT (fT : Val → T (Res Val)) (xs : List Val) (r : List Val) : T (List Val ⊕ Res (List Val)) :=
  rangeBrkT (mapPruneBody fT) xs r

/-- the loop of `projectArray` (array.go:284) from `r = []` to `return r, nil` / `return nil, err` -/
def mapPruneT (fT : Val → T (Res Val)) (xs : List Val) : T (Res (List Val)) := do
  let o ← mapPruneLoopT fT xs []
  pure (loopOut o)

theorem mapPruneLoopT_fst (fT : Val → T (Res Val)) : ∀ (xs r : List Val),
    loopOut (mapPruneLoopT fT xs r).1 = (do let rest ← mapPrune (fun x => (fT x).1) xs; pure (r ++ rest)) := by
  intro xs
  induction xs with
  | nil => intro r; simp [mapPruneLoopT, rangeBrkT_nil, mapPrune, loopOut]
  | cons x xs ih =>
    intro r
    unfold mapPruneLoopT at ih ⊢
    rw [rangeBrkT_cons_fst]
    simp only [mapPruneBody, bind_fst, mapPrune]
    cases h : (fT x).1 with
    | ok p =>
      cases hp : p.isNull
      · simp only [hp, Bool.false_eq_true, if_false, bind_fst, pure_fst, Res.ok_bind, ih]
        cases mapPrune (fun x => (fT x).1) xs <;> simp [Res.ok_bind, Res.err_bind, Res.panic_bind, Res.nondet_bind, Res.unmodelled_bind]
      · simp only [hp, if_true, pure_fst, Res.ok_bind, ih]
        cases mapPrune (fun x => (fT x).1) xs <;> simp [Res.ok_bind, Res.err_bind, Res.panic_bind, Res.nondet_bind, Res.unmodelled_bind]
    | _ => simp [failAs, loopOut]

/-- the ticks of the loop of `projectArray`: one per element visited, one per element appended, and the evaluations -/
theorem mapPruneLoopT_snd_le (fT : Val → T (Res Val)) : ∀ (xs r : List Val),
    (mapPruneLoopT fT xs r).2 ≤ 2 * xs.length + evalCost fT xs := by
  intro xs
  induction xs with
  | nil => intro r; simp [mapPruneLoopT, rangeBrkT_nil]
  | cons x xs ih =>
    intro r
    unfold mapPruneLoopT at ih ⊢
    rw [rangeBrkT_cons_snd, evalCost_cons, List.length_cons]
    simp only [mapPruneBody, bind_fst, bind_snd]
    cases h : (fT x).1 with
    | ok p =>
      cases hp : p.isNull
      · simp only [hp, Bool.false_eq_true, if_false, bind_fst, bind_snd, pure_fst, pure_snd, tick_snd]
        have := ih (r ++ [p]); omega
      · simp only [hp, if_true, pure_fst, pure_snd]
        have := ih r; omega
    | _ => simp only [pure_fst, pure_snd]; omega

/-- the instrumented loop of `projectArray` returns what the model's `mapPrune` returns on the results of `fT` -/
theorem mapPruneT_fst (fT : Val → T (Res Val)) (xs : List Val) :
    (mapPruneT fT xs).1 = mapPrune (fun x => (fT x).1) xs := by
  simp only [mapPruneT, bind_fst, pure_fst, mapPruneLoopT_fst]
  simp

/-- … in at most `2·len` ticks of its own plus the ticks of the evaluations it makes -/
theorem mapPruneT_snd_le (fT : Val → T (Res Val)) (xs : List Val) :
    (mapPruneT fT xs).2 ≤ 2 * xs.length + evalCost fT xs := by
  simp only [mapPruneT, bind_snd, pure_snd]
  have := mapPruneLoopT_snd_le fT xs []; omega

/-- `projectArray`, array.go:277-298.  The model's `widen` (which error categories could Go report under another map
    order?) is applied to the outcome at the end: it is model bookkeeping about map order, not work Go does. -/
def projectArrayT (fT : Val → T (Res Val)) (v : Val) : T (Res Val) :=
  match v with
  | .arr t xs => do
    allocT xs.length                                      -- array.go:283 `r := make([]any, 0, len(a))`
    let r ← mapPruneT fT xs                               -- array.go:284
    pure (widen t xs [fun x => (fT x).1] [] (do let r ← r; pure (.arr t.derived r)))
  | _ => pure (.ok .null)

/-- the instrumented `projectArray` returns the model's `projectArray` of the results of `fT` -/
theorem projectArrayT_fst (fT : Val → T (Res Val)) (v : Val) :
    (projectArrayT fT v).1 = projectArray (fun x => (fT x).1) v := by
  cases v <;> simp [projectArrayT, projectArray, mapPruneT_fst]

/-- `projectArray` on an array of `n` elements: `≤ 3 n` ticks of its own (make, iterations, appends) + the
    evaluations; nothing on a non-array -/
theorem projectArrayT_snd_le (fT : Val → T (Res Val)) (t : ATag) (xs : List Val) :
    (projectArrayT fT (.arr t xs)).2 ≤ 3 * xs.length + evalCost fT xs := by
  simp only [projectArrayT, bind_snd, pure_snd, allocT_snd]
  have := mapPruneT_snd_le fT xs; omega

/-- a sub-expression used in the examples: costs 7 ticks, maps `true` to `null`, fails on a string -/
def demoT (v : Val) : T (Res Val) := do
  tick 7
  pure (match v with | .bool true => .ok .null | .str _ => errType | v => .ok v)

example : projectArrayT demoT (.arr .plain [.bool false, .bool true, .bool false])
    = ⟨.ok (.arr .plain [.bool false, .bool false]), 3 + (3 + 2) + 3 * 7⟩ := by rfl
/-- the element after the failing one is not evaluated -/
example : projectArrayT demoT (.arr .plain [.bool false, .str [], .bool false])
    = ⟨errType, 3 + (2 + 1) + 2 * 7⟩ := by rfl

/-! ### `filter` (array.go:163) -/

/-- the body of array.go:170: `f, err := e.evaluate(node, v, variables); if err != nil { return nil, err };
    if isTrue(f) && v != nil { r = append(r, v) }` -/
def filterBody (cT : Val → T (Res Val)) (v : Val) (r : List Val) : T (List Val ⊕ Res (List Val)) := do
  match ← cT v with
  | .ok b => if isTrue b && !v.isNull then do tick; pure (.inl (r ++ [v])) else pure (.inl r)
  | e => pure (.inr (failAs e))

/-- array.go:170 `for _, v := range a { … }` started with the slice `r` -/
def filterLoopFromT (cT : Val → T (Res Val)) (xs : List Val) (r : List Val) : T (List Val ⊕ Res (List Val)) :=
  rangeBrkT (filterBody cT) xs r

/-- the loop of `filter` (array.go:170) -/
def filterLoopT (cT : Val → T (Res Val)) (xs : List Val) : T (Res (List Val)) := do
  let o ← filterLoopFromT cT xs []
  pure (loopOut o)

theorem filterLoopFromT_fst (cT : Val → T (Res Val)) : ∀ (xs r : List Val),
    loopOut (filterLoopFromT cT xs r).1 = (do let rest ← filterLoop (fun x => (cT x).1) xs; pure (r ++ rest)) := by
  intro xs
  induction xs with
  | nil => intro r; simp [filterLoopFromT, rangeBrkT_nil, filterLoop, loopOut]
  | cons x xs ih =>
    intro r
    unfold filterLoopFromT at ih ⊢
    rw [rangeBrkT_cons_fst]
    simp only [filterBody, bind_fst, filterLoop]
    cases h : (cT x).1 with
    | ok b =>
      cases hp : (isTrue b && !x.isNull)
      · simp only [hp, Bool.false_eq_true, if_false, pure_fst, Res.ok_bind, ih]
        cases filterLoop (fun x => (cT x).1) xs <;> simp [Res.ok_bind, Res.err_bind, Res.panic_bind, Res.nondet_bind, Res.unmodelled_bind]
      · simp only [hp, if_true, bind_fst, pure_fst, Res.ok_bind, ih]
        cases filterLoop (fun x => (cT x).1) xs <;> simp [Res.ok_bind, Res.err_bind, Res.panic_bind, Res.nondet_bind, Res.unmodelled_bind]
    | _ => simp [failAs, loopOut]

theorem filterLoopFromT_snd_le (cT : Val → T (Res Val)) : ∀ (xs r : List Val),
    (filterLoopFromT cT xs r).2 ≤ 2 * xs.length + evalCost cT xs := by
  intro xs
  induction xs with
  | nil => intro r; simp [filterLoopFromT, rangeBrkT_nil]
  | cons x xs ih =>
    intro r
    unfold filterLoopFromT at ih ⊢
    rw [rangeBrkT_cons_snd, evalCost_cons, List.length_cons]
    simp only [filterBody, bind_fst, bind_snd]
    cases h : (cT x).1 with
    | ok b =>
      cases hp : (isTrue b && !x.isNull)
      · simp only [hp, Bool.false_eq_true, if_false, pure_fst, pure_snd]
        have := ih r; omega
      · simp only [hp, if_true, bind_fst, bind_snd, pure_fst, pure_snd, tick_snd]
        have := ih (r ++ [x]); omega
    | _ => simp only [pure_fst, pure_snd]; omega

/-- the instrumented loop of `filter` returns what the model's `filterLoop` returns on the results of `cT` -/
theorem filterLoopT_fst (cT : Val → T (Res Val)) (xs : List Val) :
    (filterLoopT cT xs).1 = filterLoop (fun x => (cT x).1) xs := by
  simp only [filterLoopT, bind_fst, pure_fst, filterLoopFromT_fst]
  simp

/-- … in at most `2·len` ticks of its own plus the evaluations of the condition -/
theorem filterLoopT_snd_le (cT : Val → T (Res Val)) (xs : List Val) :
    (filterLoopT cT xs).2 ≤ 2 * xs.length + evalCost cT xs := by
  simp only [filterLoopT, bind_snd, pure_snd]
  have := filterLoopFromT_snd_le cT xs []; omega

/-- `filter`, array.go:163-182 (`widen`: model bookkeeping about map order, applied to the outcome at the end) -/
def filterArrayT (cT : Val → T (Res Val)) (v : Val) : T (Res Val) :=
  match v with
  | .arr t xs => do
    allocT xs.length                                      -- array.go:169 `r := make([]any, 0, len(a))`
    let r ← filterLoopT cT xs                             -- array.go:170
    pure (widen t xs [fun x => (cT x).1] [] (do let r ← r; pure (.arr t.derived r)))
  | _ => pure (.ok .null)

/-- the instrumented `filter` returns the model's `filterArray` of the results of `cT` -/
theorem filterArrayT_fst (cT : Val → T (Res Val)) (v : Val) :
    (filterArrayT cT v).1 = filterArray (fun x => (cT x).1) v := by
  cases v <;> simp [filterArrayT, filterArray, filterLoopT_fst]

/-- `filter` on an array of `n` elements: `≤ 3 n` ticks of its own + the evaluations of the condition -/
theorem filterArrayT_snd_le (cT : Val → T (Res Val)) (t : ATag) (xs : List Val) :
    (filterArrayT cT (.arr t xs)).2 ≤ 3 * xs.length + evalCost cT xs := by
  simp only [filterArrayT, bind_snd, pure_snd, allocT_snd]
  have := filterLoopT_snd_le cT xs; omega

example : filterArrayT demoT (.arr .plain [.bool false, .bool true, .num (.jnum [0x31])])
    = ⟨.ok (.arr .plain [.num (.jnum [0x31])]), 3 + (3 + 1) + 3 * 7⟩ := by rfl

/-! ### `filterAndProjectArray` (array.go:184) -/

/-- the body of array.go:191: `f, err := e.evaluate(filter, v, variables); if err != nil { return nil, err };
    if isTrue(f) { p, err := e.evaluate(node, v, variables); if err != nil { return nil, err };
    if p == nil { continue }; r = append(r, p) }` -/
def filterMapBody (cT fT : Val → T (Res Val)) (v : Val) (r : List Val) : T (List Val ⊕ Res (List Val)) := do
  match ← cT v with
  | .ok b =>
    if isTrue b then do
      match ← fT v with
      | .ok p => if p.isNull then pure (.inl r) else do tick; pure (.inl (r ++ [p]))
      | e => pure (.inr (failAs e))
    else pure (.inl r)
  | e => pure (.inr (failAs e))

/-- array.go:191 `for _, v := range a { … }` started with the slice `r` -/
def filterMapLoopT (cT fT : Val → T (Res Val)) (xs : List Val) (r : List Val) : T (List Val ⊕ Res (List Val)) :=
  rangeBrkT (filterMapBody cT fT) xs r

/-- the loop of `filterAndProjectArray` (array.go:191) -/
def filterMapPruneT (cT fT : Val → T (Res Val)) (xs : List Val) : T (Res (List Val)) := do
  let o ← filterMapLoopT cT fT xs []
  pure (loopOut o)

theorem filterMapLoopT_fst (cT fT : Val → T (Res Val)) : ∀ (xs r : List Val),
    loopOut (filterMapLoopT cT fT xs r).1
      = (do let rest ← filterMapPrune (fun x => (cT x).1) (fun x => (fT x).1) xs; pure (r ++ rest)) := by
  intro xs
  induction xs with
  | nil => intro r; simp [filterMapLoopT, rangeBrkT_nil, filterMapPrune, loopOut]
  | cons x xs ih =>
    intro r
    unfold filterMapLoopT at ih ⊢
    rw [rangeBrkT_cons_fst]
    simp only [filterMapBody, bind_fst, filterMapPrune]
    cases h : (cT x).1 with
    | ok b =>
      cases hb : isTrue b
      · simp only [hb, Bool.false_eq_true, if_false, pure_fst, Res.ok_bind, ih]
      · simp only [hb, if_true, bind_fst, Res.ok_bind]
        cases h2 : (fT x).1 with
        | ok p =>
          cases hp : p.isNull
          · simp only [hp, Bool.false_eq_true, if_false, bind_fst, pure_fst, Res.ok_bind, ih]
            cases filterMapPrune (fun x => (cT x).1) (fun x => (fT x).1) xs <;> simp [Res.ok_bind, Res.err_bind, Res.panic_bind, Res.nondet_bind, Res.unmodelled_bind]
          · simp only [hp, if_true, pure_fst, Res.ok_bind, ih]
            cases filterMapPrune (fun x => (cT x).1) (fun x => (fT x).1) xs <;> simp [Res.ok_bind, Res.err_bind, Res.panic_bind, Res.nondet_bind, Res.unmodelled_bind]
        | _ => simp [failAs, loopOut]
    | _ => simp [failAs, loopOut]

theorem filterMapLoopT_snd_le (cT fT : Val → T (Res Val)) : ∀ (xs r : List Val),
    (filterMapLoopT cT fT xs r).2 ≤ 2 * xs.length + evalCost cT xs + evalCost fT xs := by
  intro xs
  induction xs with
  | nil => intro r; simp [filterMapLoopT, rangeBrkT_nil]
  | cons x xs ih =>
    intro r
    unfold filterMapLoopT at ih ⊢
    rw [rangeBrkT_cons_snd, evalCost_cons, evalCost_cons, List.length_cons]
    simp only [filterMapBody, bind_fst, bind_snd]
    cases h : (cT x).1 with
    | ok b =>
      cases hb : isTrue b
      · simp only [hb, Bool.false_eq_true, if_false, pure_fst, pure_snd]
        have := ih r; omega
      · simp only [hb, if_true, bind_fst, bind_snd]
        cases h2 : (fT x).1 with
        | ok p =>
          cases hp : p.isNull
          · simp only [hp, Bool.false_eq_true, if_false, bind_fst, bind_snd, pure_fst, pure_snd, tick_snd]
            have := ih (r ++ [p]); omega
          · simp only [hp, if_true, pure_fst, pure_snd]
            have := ih r; omega
        | _ => simp only [pure_fst, pure_snd]; omega
    | _ => simp only [pure_fst, pure_snd]; omega

/-- the instrumented loop of `filterAndProjectArray` returns what the model's `filterMapPrune` returns -/
theorem filterMapPruneT_fst (cT fT : Val → T (Res Val)) (xs : List Val) :
    (filterMapPruneT cT fT xs).1 = filterMapPrune (fun x => (cT x).1) (fun x => (fT x).1) xs := by
  simp only [filterMapPruneT, bind_fst, pure_fst, filterMapLoopT_fst]
  simp

/-- … in at most `2·len` ticks of its own plus the evaluations of the condition and of the projection (the projection
    is evaluated only where the condition holds: `evalCost fT xs` over-counts) -/
theorem filterMapPruneT_snd_le (cT fT : Val → T (Res Val)) (xs : List Val) :
    (filterMapPruneT cT fT xs).2 ≤ 2 * xs.length + evalCost cT xs + evalCost fT xs := by
  simp only [filterMapPruneT, bind_snd, pure_snd]
  have := filterMapLoopT_snd_le cT fT xs []; omega

/-- `filterAndProjectArray`, array.go:184-212 (`widen`: model bookkeeping, applied at the end) -/
def filterAndProjectArrayT (cT fT : Val → T (Res Val)) (v : Val) : T (Res Val) :=
  match v with
  | .arr t xs => do
    allocT xs.length                                      -- array.go:190 `r := make([]any, 0, len(a))`
    let r ← filterMapPruneT cT fT xs                      -- array.go:191
    pure (widen t xs [fun x => (cT x).1, fun x => (fT x).1] [] (do let r ← r; pure (.arr t.derived r)))
  | _ => pure (.ok .null)

/-- the instrumented `filterAndProjectArray` returns the model's -/
theorem filterAndProjectArrayT_fst (cT fT : Val → T (Res Val)) (v : Val) :
    (filterAndProjectArrayT cT fT v).1 = filterAndProjectArray (fun x => (cT x).1) (fun x => (fT x).1) v := by
  cases v <;> simp [filterAndProjectArrayT, filterAndProjectArray, filterMapPruneT_fst]

/-- `filterAndProjectArray` on `n` elements: `≤ 3 n` ticks of its own + the evaluations -/
theorem filterAndProjectArrayT_snd_le (cT fT : Val → T (Res Val)) (t : ATag) (xs : List Val) :
    (filterAndProjectArrayT cT fT (.arr t xs)).2 ≤ 3 * xs.length + evalCost cT xs + evalCost fT xs := by
  simp only [filterAndProjectArrayT, bind_snd, pure_snd, allocT_snd]
  have := filterMapPruneT_snd_le cT fT xs; omega

example : filterAndProjectArrayT demoT demoT (.arr .plain [.bool false, .arr .plain [.null], .arr .plain []])
    = ⟨.ok (.arr .plain [.arr .plain [.null]]), 3 + (3 + 1) + 3 * 7 + 7⟩ := by rfl

/-! ### `mapArray` (array.go:255) -/

/-- the body of array.go:265: `p, err := e.evaluate(node, v, variables); if err != nil { return nil, err }; r[i] = p`
    (a store into a cell that `make([]any, len(a))` has paid for) -/
def mapAllBody (fT : Val → T (Res Val)) (v : Val) (r : List Val) : T (List Val ⊕ Res (List Val)) := do
  match ← fT v with
  | .ok p => pure (.inl (r ++ [p]))
  | e => pure (.inr (failAs e))

/-- array.go:265 `for i, v := range a { … }`; `r` holds the cells written so far -/
def mapAllLoopT (fT : Val → T (Res Val)) (xs : List Val) (r : List Val) : T (List Val ⊕ Res (List Val)) :=
  rangeBrkT (mapAllBody fT) xs r

/-- the loop of `mapArray` (array.go:265) -/
def mapAllT (fT : Val → T (Res Val)) (xs : List Val) : T (Res (List Val)) := do
  let o ← mapAllLoopT fT xs []
  pure (loopOut o)

theorem mapAllLoopT_fst (fT : Val → T (Res Val)) : ∀ (xs r : List Val),
    loopOut (mapAllLoopT fT xs r).1 = (do let rest ← mapAll (fun x => (fT x).1) xs; pure (r ++ rest)) := by
  intro xs
  induction xs with
  | nil => intro r; simp [mapAllLoopT, rangeBrkT_nil, mapAll, loopOut]
  | cons x xs ih =>
    intro r
    unfold mapAllLoopT at ih ⊢
    rw [rangeBrkT_cons_fst]
    simp only [mapAllBody, bind_fst, mapAll]
    cases h : (fT x).1 with
    | ok p =>
      simp only [pure_fst, Res.ok_bind, ih]
      cases mapAll (fun x => (fT x).1) xs <;> simp [Res.ok_bind, Res.err_bind, Res.panic_bind, Res.nondet_bind, Res.unmodelled_bind]
    | _ => simp [failAs, loopOut]

theorem mapAllLoopT_snd_le (fT : Val → T (Res Val)) : ∀ (xs r : List Val),
    (mapAllLoopT fT xs r).2 ≤ xs.length + evalCost fT xs := by
  intro xs
  induction xs with
  | nil => intro r; simp [mapAllLoopT, rangeBrkT_nil]
  | cons x xs ih =>
    intro r
    unfold mapAllLoopT at ih ⊢
    rw [rangeBrkT_cons_snd, evalCost_cons, List.length_cons]
    simp only [mapAllBody, bind_fst, bind_snd]
    cases h : (fT x).1 with
    | ok p => simp only [pure_fst, pure_snd]; have := ih (r ++ [p]); omega
    | _ => simp only [pure_fst, pure_snd]; omega

/-- the instrumented loop of `mapArray` returns what the model's `mapAll` returns -/
theorem mapAllT_fst (fT : Val → T (Res Val)) (xs : List Val) :
    (mapAllT fT xs).1 = mapAll (fun x => (fT x).1) xs := by
  simp only [mapAllT, bind_fst, pure_fst, mapAllLoopT_fst]
  simp

/-- … in `len` ticks of its own plus the evaluations -/
theorem mapAllT_snd_le (fT : Val → T (Res Val)) (xs : List Val) :
    (mapAllT fT xs).2 ≤ xs.length + evalCost fT xs := by
  simp only [mapAllT, bind_snd, pure_snd]
  have := mapAllLoopT_snd_le fT xs []; omega

/-- `mapArray`, array.go:255-275 (`widen`: model bookkeeping, applied at the end) -/
def mapArrayT (fT : Val → T (Res Val)) (v : Val) : T (Res Val) :=
  match v with
  | .arr t xs => do
    allocT xs.length                                      -- array.go:264 `r := make([]any, len(a))`
    let r ← mapAllT fT xs                                 -- array.go:265
    pure (widen t xs [fun x => (fT x).1] [] (do let r ← r; pure (.arr t.derived r)))
  | _ => pure errType

/-- the instrumented `mapArray` returns the model's -/
theorem mapArrayT_fst (fT : Val → T (Res Val)) (v : Val) :
    (mapArrayT fT v).1 = mapArray (fun x => (fT x).1) v := by
  cases v <;> simp [mapArrayT, mapArray, mapAllT_fst]

/-- `mapArray` on `n` elements: `≤ 2 n` ticks of its own + the evaluations -/
theorem mapArrayT_snd_le (fT : Val → T (Res Val)) (t : ATag) (xs : List Val) :
    (mapArrayT fT (.arr t xs)).2 ≤ 2 * xs.length + evalCost fT xs := by
  simp only [mapArrayT, bind_snd, pure_snd, allocT_snd]
  have := mapAllT_snd_le fT xs; omega

example : mapArrayT demoT (.arr .plain [.bool false, .bool true])
    = ⟨.ok (.arr .plain [.bool false, .null]), 2 + 2 + 2 * 7⟩ := by rfl

/-! ### `flattenAndProjectArray` (array.go:214) -/

/-- the body of array.go:221: `va, ok := v.([]any); if ok { <array.go:224: the loop of projectArray over va, appending
    to the same r>; continue }; <the body of projectArray on v itself>` -/
def flattenProjectBody (fT : Val → T (Res Val)) (v : Val) (r : List Val) : T (List Val ⊕ Res (List Val)) :=
  match v with
  | .arr _ va => mapPruneLoopT fT va r                    -- array.go:224 `for _, i := range va { … }`
  | v => mapPruneBody fT v r                              -- array.go:240-249

/-- array.go:221 `for _, v := range a { … }` started with the slice `r` -/
def flattenProjectLoopT (fT : Val → T (Res Val)) (xs : List Val) (r : List Val) : T (List Val ⊕ Res (List Val)) :=
  rangeBrkT (flattenProjectBody fT) xs r

theorem mapPrune_append (f : Val → Res Val) : ∀ (xs ys : List Val),
    mapPrune f (xs ++ ys) = (do let a ← mapPrune f xs; let b ← mapPrune f ys; pure (a ++ b)) := by
  intro xs
  induction xs with
  | nil => intro ys; simp [mapPrune]
  | cons x xs ih =>
    intro ys
    simp only [List.cons_append, mapPrune, ih]
    cases f x with
    | ok p =>
      simp only [Res.ok_bind]
      cases mapPrune f xs with
      | ok a =>
        simp only [Res.ok_bind]
        cases mapPrune f ys with
        | ok b => cases p.isNull <;> simp [Res.ok_bind]
        | _ => rfl
      | _ => rfl
    | _ => rfl

/-- the one-element case of `mapPruneLoopT_fst` -/
theorem mapPruneBody_fst (fT : Val → T (Res Val)) (x : Val) (r : List Val) :
    loopOut (mapPruneBody fT x r).1 = (do let rest ← mapPrune (fun x => (fT x).1) [x]; pure (r ++ rest)) := by
  have := mapPruneLoopT_fst fT [x] r
  unfold mapPruneLoopT at this
  rw [rangeBrkT_cons_fst] at this
  rw [← this]
  cases (mapPruneBody fT x r).1 <;> rfl

theorem mapPruneBody_snd_le (fT : Val → T (Res Val)) (x : Val) (r : List Val) :
    (mapPruneBody fT x r).2 ≤ 1 + (fT x).2 := by
  simp only [mapPruneBody, bind_snd, bind_fst]
  cases (fT x).1 with
  | ok p => cases hp : p.isNull <;> simp [hp] <;> omega
  | _ => simp

theorem flattenProjectLoopT_fst (fT : Val → T (Res Val)) : ∀ (xs r : List Val),
    loopOut (flattenProjectLoopT fT xs r).1
      = (do let rest ← mapPrune (fun x => (fT x).1) (flattenForProject xs); pure (r ++ rest)) := by
  intro xs
  induction xs with
  | nil => intro r; simp [flattenProjectLoopT, rangeBrkT_nil, flattenForProject, mapPrune, loopOut]
  | cons x xs ih =>
    intro r
    unfold flattenProjectLoopT at ih ⊢
    rw [rangeBrkT_cons_fst']
    have key : ∀ (ys : List Val) (o : List Val ⊕ Res (List Val)),
        loopOut o = (do let rest ← mapPrune (fun x => (fT x).1) ys; pure (r ++ rest)) →
        (∀ e, o = .inr e → ∀ a, e ≠ .ok a) →
        loopOut (Sum.elim (fun s' => (rangeBrkT (flattenProjectBody fT) xs s').1) Sum.inr o)
        = (do let rest ← mapPrune (fun x => (fT x).1) (ys ++ flattenForProject xs); pure (r ++ rest)) := by
      intro ys o ho hne
      rw [mapPrune_append]
      cases o with
      | inl s' =>
        simp only [Sum.elim_inl, ih]
        simp only [loopOut] at ho
        cases hm : mapPrune (fun x => (fT x).1) ys with
        | ok a =>
          rw [hm] at ho; simp only [Res.ok_bind, Res.pure_eq] at ho
          injection ho with ho; subst ho
          simp only [Res.ok_bind]
          cases mapPrune (fun x => (fT x).1) (flattenForProject xs) <;> simp [Res.ok_bind, Res.err_bind, Res.panic_bind, Res.nondet_bind, Res.unmodelled_bind]
        | _ => rw [hm] at ho; simp [Res.err_bind, Res.panic_bind, Res.nondet_bind, Res.unmodelled_bind] at ho
      | inr e =>
        simp only [Sum.elim_inr, loopOut] at ho ⊢
        cases hm : mapPrune (fun x => (fT x).1) ys with
        | ok a =>
          rw [hm] at ho; simp only [Res.ok_bind, Res.pure_eq] at ho
          exact absurd ho (hne e rfl _)
        | _ => rw [hm] at ho; rw [ho]; rfl
    have fails : ∀ (xs r : List Val) e, (mapPruneLoopT fT xs r).1 = .inr e → ∀ a, e ≠ .ok a := by
      intro xs
      induction xs with
      | nil => intro r e h; simp [mapPruneLoopT, rangeBrkT_nil] at h
      | cons y ys ihy =>
        intro r e h
        unfold mapPruneLoopT at ihy h
        rw [rangeBrkT_cons_fst] at h
        simp only [mapPruneBody, bind_fst] at h
        cases hy : (fT y).1 with
        | ok p =>
          rw [hy] at h
          cases hp : p.isNull
          · simp only [hp, Bool.false_eq_true, if_false, bind_fst, pure_fst] at h; exact ihy _ _ h
          · simp only [hp, if_true, pure_fst] at h; exact ihy _ _ h
        | _ => rw [hy] at h; simp only [pure_fst, failAs] at h; injection h with h; subst h; intro a c; cases c
    cases x with
    | arr t va =>
      simp only [flattenProjectBody, flattenForProject]
      exact key va _ (mapPruneLoopT_fst fT va r) (fails va r)
    | _ =>
      simp only [flattenProjectBody, flattenForProject]
      rw [← List.singleton_append]
      refine key [_] _ (mapPruneBody_fst fT _ r) ?_
      intro e he
      apply fails [_] r e
      unfold mapPruneLoopT
      rw [rangeBrkT_cons_fst, he]

/-- the ticks of array.go:221 with its inner loop array.go:224: one per outer element, two per element projected
    (iteration/append), and the evaluations on the elements projected -/
theorem flattenProjectLoopT_snd_le (fT : Val → T (Res Val)) : ∀ (xs r : List Val),
    (flattenProjectLoopT fT xs r).2
      ≤ xs.length + 2 * (flattenForProject xs).length + evalCost fT (flattenForProject xs) := by
  intro xs
  induction xs with
  | nil => intro r; simp [flattenProjectLoopT, rangeBrkT_nil]
  | cons x xs ih =>
    intro r
    unfold flattenProjectLoopT at ih ⊢
    rw [rangeBrkT_cons_snd', List.length_cons]
    have tail : ∀ o : List Val ⊕ Res (List Val),
        Sum.elim (fun s' => (rangeBrkT (flattenProjectBody fT) xs s').2) (fun _ => 0) o ≤ xs.length + 2 * (flattenForProject xs).length + evalCost fT (flattenForProject xs) := by
      intro o
      cases o with
      | inl s' => exact ih s'
      | inr _ => exact Nat.zero_le _
    have ht := tail (flattenProjectBody fT x r).1
    have hb : (flattenProjectBody fT x r).2 + 2 * (flattenForProject xs).length + evalCost fT (flattenForProject xs)
        ≤ 2 * (flattenForProject (x :: xs)).length + evalCost fT (flattenForProject (x :: xs)) := by
      cases x with
      | arr t va =>
        simp only [flattenProjectBody, flattenForProject, List.length_append, evalCost_append]
        have := mapPruneLoopT_snd_le fT va r; omega
      | _ =>
        simp only [flattenProjectBody, flattenForProject, List.length_cons, evalCost_cons]
        refine Nat.le_trans (Nat.add_le_add_right (Nat.add_le_add_right (mapPruneBody_snd_le fT _ r) _) _) ?_
        omega
    omega

/-- `flattenAndProjectArray`, array.go:214-253 (`widen` and `flattenTag`: model bookkeeping, applied at the end) -/
def flattenAndProjectArrayT (fT : Val → T (Res Val)) (v : Val) : T (Res Val) :=
  match v with
  | .arr t xs => do
    allocT xs.length                                      -- array.go:220 `r := make([]any, 0, len(a))`
    let o ← flattenProjectLoopT fT xs []                  -- array.go:221 (inner loop array.go:224)
    pure (widen (flattenTag t xs) (flattenForProject xs ++ [.null, .null]) [fun x => (fT x).1] []
      (do let r ← loopOut o; pure (.arr (flattenTag t xs) r)))
  | _ => pure (.ok .null)

/-- the instrumented `flattenAndProjectArray` returns the model's -/
theorem flattenAndProjectArrayT_fst (fT : Val → T (Res Val)) (v : Val) :
    (flattenAndProjectArrayT fT v).1 = flattenAndProjectArray (fun x => (fT x).1) v := by
  cases v <;> simp [flattenAndProjectArrayT, flattenAndProjectArray, flattenProjectLoopT_fst]

/-- `flattenAndProjectArray` on an array of `n` elements that flattens to `m` elements: `≤ 2 n + 2 m` ticks of its
    own + the evaluations on the `m` elements -/
theorem flattenAndProjectArrayT_snd_le (fT : Val → T (Res Val)) (t : ATag) (xs : List Val) :
    (flattenAndProjectArrayT fT (.arr t xs)).2
      ≤ 2 * xs.length + 2 * (flattenForProject xs).length + evalCost fT (flattenForProject xs) := by
  simp only [flattenAndProjectArrayT, bind_snd, pure_snd, allocT_snd]
  have := flattenProjectLoopT_snd_le fT xs []; omega

example : flattenAndProjectArrayT demoT (.arr .plain [.arr .plain [.bool false, .bool true], .bool false])
    = ⟨.ok (.arr .plain [.bool false, .bool false]), 2 + (2 + (2 + 1) + 1) + 3 * 7⟩ := by rfl

end Jmes.C09C
