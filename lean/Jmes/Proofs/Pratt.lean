/-
  Helpers for C10 (operator precedence of the Pratt parser, `Model/Parser.lean`):

  * `Le` / `Mono` / `mono_le` — fuel monotonicity of all thirteen mutually recursive parser functions, in the strong
    form "any result other than `error fuel` is unchanged by adding fuel";
  * `stOf` — the parser state over a token list, `advance_stOf`, `advance2_stOf`;
  * `OperandF` — "the token list `ts` is parsed, at binding power `q`, to the node `n`, whatever follows";
  * the Pratt lemmas: `loop_split` (a loop at a lower power continues where the loop at a higher power stopped),
    `binary_step`, `operand_binop`, `left_group`, `right_group` (explicit fuel bounds), `chain_left` (chains of any
    length at one level), the basic operands, the unary operators, parentheses;
  * `parse_of_operandF` / `parse_of_operand`: from token lists to `Parser.parse`.
-/
import Jmes.Model.Parser
import Jmes.Model.Api
namespace Jmes.Pratt
open Jmes Jmes.Parser

/-! ## Fuel monotonicity -/

/-- `y` refines `x`: wherever `x` does not run out of fuel, `y` gives the same result -/
structure Le {α} (x y : PM α) : Prop where
  h : ∀ s, x s ≠ .error .fuel → y s = x s

theorem Le.refl {α} (x : PM α) : Le x x := ⟨fun _ _ => rfl⟩

theorem Le.fuel {α} (y : PM α) : Le (fail .fuel) y := ⟨fun _ h => absurd rfl h⟩

theorem Le.trans {α} {x y z : PM α} (h1 : Le x y) (h2 : Le y z) : Le x z := by
  constructor
  intro s h
  have := h1.h s h
  rw [h2.h s (by rw [this]; exact h), this]

theorem bind_run {α β} (x : PM α) (f : α → PM β) (s : PState) :
    (x >>= f) s = match x s with
      | .ok (a, s') => f a s' | .error e => .error e := by
  show (StateT.bind x f) s = _
  unfold StateT.bind
  show (x s >>= _) = _
  cases x s <;> rfl

theorem Le.bind {α β} {x y : PM α} {f g : α → PM β} (h1 : Le x y) (h2 : ∀ a, Le (f a) (g a)) :
    Le (x >>= f) (y >>= g) := by
  constructor
  intro s h
  rw [bind_run] at h
  rw [bind_run, bind_run]
  cases hx : x s with
  | error er =>
    rw [hx] at h
    dsimp only at h
    have : y s = x s := h1.h s (by rw [hx]; intro h'; cases h'; exact h rfl)
    rw [this, hx]
  | ok r =>
    obtain ⟨a, s'⟩ := r
    rw [hx] at h
    dsimp only at h
    have : y s = x s := h1.h s (by rw [hx]; intro h'; cases h')
    rw [this, hx]
    exact (h2 a).h s' h

theorem Le.ite {α} {c : Prop} [Decidable c] {a a' b b' : PM α} (h1 : Le a a') (h2 : Le b b') :
    Le (if c then a else b) (if c then a' else b') := by
  split <;> assumption

/-- fuel `g` refines fuel `f`, for every function of the mutual block -/
structure Mono (f g : Nat) : Prop where
  expr : ∀ p, Le (expression f p) (expression g p)
  loop : ∀ n p, Le (exprLoop f n p) (exprLoop g n p)
  filt : Le (filterP f) (filterP g)
  args : ∀ a b c, Le (fnArgs f a b c) (fnArgs g a b c)
  vargs : ∀ a, Le (fnVarArgs f a) (fnVarArgs g a)
  func : Le (function f) (function g)
  letp : ∀ a, Le (letP f a) (letP g a)
  prim : Le (primaryExpression f) (primaryExpression g)
  proj : ∀ p, Le (projection f p) (projection g p)
  sarr : ∀ c, Le (selectArray f c) (selectArray g c)
  sarrl : ∀ c l, Le (selectArrayLoop f c l) (selectArrayLoop g c l)
  sobj : ∀ c, Le (selectObject f c) (selectObject g c)
  sobjl : ∀ c l, Le (selectObjectLoop f c l) (selectObjectLoop g c l)

/-- walks two copies of the same `do` block whose recursive calls differ only in their fuel -/
macro "mono_tac" ih:ident : tactic => `(tactic|
  repeat (first
    | exact Le.refl _
    | exact Mono.expr $ih _
    | exact Mono.loop $ih _ _
    | exact Mono.filt $ih
    | exact Mono.args $ih _ _ _
    | exact Mono.vargs $ih _
    | exact Mono.func $ih
    | exact Mono.letp $ih _
    | exact Mono.prim $ih
    | exact Mono.proj $ih _
    | exact Mono.sarr $ih _
    | exact Mono.sarrl $ih _ _
    | exact Mono.sobj $ih _
    | exact Mono.sobjl $ih _ _
    | apply Le.bind
    | apply Le.ite
    | intro _
    | split))

theorem mono_zero (g : Nat) : Mono 0 g where
  expr p := by rw [expression.eq_1]; exact Le.fuel _
  loop n p := by rw [exprLoop.eq_1]; exact Le.fuel _
  filt := by rw [filterP.eq_1]; exact Le.fuel _
  args a b c := by rw [fnArgs.eq_1]; exact Le.fuel _
  vargs a := by rw [fnVarArgs.eq_1]; exact Le.fuel _
  func := by rw [function.eq_1]; exact Le.fuel _
  letp a := by rw [letP.eq_1]; exact Le.fuel _
  prim := by rw [primaryExpression.eq_1]; exact Le.fuel _
  proj p := by rw [projection.eq_1]; exact Le.fuel _
  sarr c := by rw [selectArray.eq_1]; exact Le.fuel _
  sarrl c l := by rw [selectArrayLoop.eq_1]; exact Le.fuel _
  sobj c := by rw [selectObject.eq_1]; exact Le.fuel _
  sobjl c l := by rw [selectObjectLoop.eq_1]; exact Le.fuel _

theorem mono_succ (f g : Nat) (ih : Mono f g) : Mono (f + 1) (g + 1) where
  expr p := by
    rw [expression.eq_2 p f, expression.eq_2 p g]; mono_tac ih
  loop n p := by
    rw [exprLoop.eq_2 n p f, exprLoop.eq_2 n p g]; mono_tac ih
  filt := by
    rw [filterP.eq_2 f, filterP.eq_2 g]; mono_tac ih
  args a b c := by
    rw [fnArgs.eq_2 a b c f, fnArgs.eq_2 a b c g]; mono_tac ih
  vargs a := by
    rw [fnVarArgs.eq_2 a f, fnVarArgs.eq_2 a g]; mono_tac ih
  func := by
    rw [function.eq_2 f, function.eq_2 g]; mono_tac ih
  letp a := by
    rw [letP.eq_2 a f, letP.eq_2 a g]; mono_tac ih
  prim := by
    rw [primaryExpression.eq_2 f, primaryExpression.eq_2 g]; mono_tac ih
  proj p := by
    rw [projection.eq_2 p f, projection.eq_2 p g]; mono_tac ih
  sarr c := by
    rw [selectArray.eq_2 c f, selectArray.eq_2 c g]; mono_tac ih
  sarrl c l := by
    rw [selectArrayLoop.eq_2 c l f, selectArrayLoop.eq_2 c l g]; mono_tac ih
  sobj c := by
    rw [selectObject.eq_2 c f, selectObject.eq_2 c g]; mono_tac ih
  sobjl c l := by
    rw [selectObjectLoop.eq_2 c l f, selectObjectLoop.eq_2 c l g]; mono_tac ih

/-- **Fuel monotonicity** of the whole parser: with more fuel, every result other than `error fuel` is unchanged. -/
theorem mono_le : ∀ {f g : Nat}, f ≤ g → Mono f g
  | 0, g, _ => mono_zero g
  | f + 1, 0, h => absurd h (by omega)
  | f + 1, g + 1, h => mono_succ f g (mono_le (by omega))

theorem Le.ok {α} {x y : PM α} (h : Le x y) {s : PState} {r : α × PState} (hx : x s = .ok r) : y s = .ok r := by
  rw [h.h s (by rw [hx]; intro h'; cases h'), hx]

theorem expression_mono {f g p s r} (h : f ≤ g) (hx : expression f p s = .ok r) : expression g p s = .ok r :=
  ((mono_le h).expr p).ok hx
theorem exprLoop_mono {f g n p s r} (h : f ≤ g) (hx : exprLoop f n p s = .ok r) : exprLoop g n p s = .ok r :=
  ((mono_le h).loop n p).ok hx
theorem primaryExpression_mono {f g s r} (h : f ≤ g) (hx : primaryExpression f s = .ok r) :
    primaryExpression g s = .ok r :=
  ((mono_le h).prim).ok hx
theorem projection_mono {f g p s r} (h : f ≤ g) (hx : projection f p s = .ok r) : projection g p s = .ok r :=
  ((mono_le h).proj p).ok hx

/-- more fuel never changes a result other than `error fuel` (all results, not only successes) -/
theorem expression_mono_res {f g p s} (h : f ≤ g) (hx : expression f p s ≠ .error .fuel) :
    expression g p s = expression f p s :=
  ((mono_le h).expr p).h s hx

/-! ## The parser state over a token list -/

def endTok : Token := ⟨.end, []⟩

/-- the state whose window is the first two tokens of `ts ++ [end, end, …]` -/
def stOf (ts : List Token) : PState := ⟨ts.headD endTok, ts.tail.headD endTok, ts.drop 2, none⟩

@[simp] theorem stOf_curr (t : Token) (ts) : (stOf (t :: ts)).curr = t := rfl
@[simp] theorem stOf_next (t t' : Token) (ts) : (stOf (t :: t' :: ts)).next = t' := rfl

theorem advance_stOf (t : Token) (ts : List Token) : advance (stOf (t :: ts)) = .ok ((), stOf ts) := by
  match ts with
  | [] => rfl
  | [_] => rfl
  | _ :: _ :: _ => rfl

theorem advance_stOf_nil : advance (stOf []) = .ok ((), stOf []) := rfl

theorem advance2_stOf (t t' : Token) (ts : List Token) : advance2 (stOf (t :: t' :: ts)) = .ok ((), stOf ts) := by
  match ts with
  | [] => rfl
  | [_] => rfl
  | _ :: _ :: _ => rfl

/-! ## Running `do` blocks -/

theorem bind_ok {α β} {x : PM α} {f : α → PM β} {s s' : PState} {a : α} (h : x s = .ok (a, s')) :
    (x >>= f) s = f a s' := by
  rw [bind_run, h]

theorem bind_err {α β} {x : PM α} {f : α → PM β} {s : PState} {e} (h : x s = .error e) :
    (x >>= f) s = .error e := by
  rw [bind_run, h]

theorem currType_run (s : PState) : currType s = .ok (s.curr.type, s) := rfl
theorem nextType_run (s : PState) : nextType s = .ok (s.next.type, s) := rfl
theorem get_run (s : PState) : (get : PM PState) s = .ok (s, s) := rfl
theorem pure_run {α} (a : α) (s : PState) : (pure a : PM α) s = .ok (a, s) := rfl


/-! ## The operator loop -/

theorem expression_succ_run (f p : Nat) (s : PState) :
    expression (f+1) p s = match primaryExpression f s with
      | .ok (n, s1) => exprLoop f n p s1
      | .error e => .error e := by
  rw [expression.eq_2, bind_run]
  cases primaryExpression f s <;> rfl

theorem expression_of_prim {f p : Nat} {s s1 : PState} {n : INode} (h : primaryExpression f s = .ok (n, s1)) :
    expression (f+1) p s = exprLoop f n p s1 := by
  rw [expression_succ_run, h]

theorem exprLoop_stop {f : Nat} {n : INode} {p : Nat} {s : PState} (h : precedence s.curr.type ≤ p) :
    exprLoop (f+1) n p s = .ok (n, s) := by
  rw [exprLoop.eq_2, bind_ok (currType_run s)]
  simp only [h, if_true]
  rfl

/-- the node constructor of a binary operator token: the twelve arithmetic / comparison operators, `&&`, `||`, `|` -/
def mkBin (t : TokenType) : Option (INode → INode → INode) :=
  match binOpOf t with
  | some op => some (.binop op)
  | none =>
    match t with
    | .and => some .and
    | .or => some .or
    | .pipe => some .pipe
    | _ => none

theorem exprLoop_bin {f : Nat} {n : INode} {p : Nat} {s : PState} {mk} (hmk : mkBin s.curr.type = some mk)
    (hp : p < precedence s.curr.type) :
    exprLoop (f+1) n p s =
      (advance >>= fun _ => expression f (precedence s.curr.type) >>= fun r => exprLoop f (mk n r) p) s := by
  rw [exprLoop.eq_2, bind_ok (currType_run s)]
  have hn : ¬ precedence s.curr.type ≤ p := by omega
  simp only [hn, if_false]
  generalize s.curr.type = t at *
  cases t <;> simp [mkBin, binOpOf] at hmk <;> subst hmk <;> rfl


/-! ## Loop splitting -/

/-- `x` ends in a call of the loop at power `q`; `y` is the same computation (with at least as much fuel) ending in
    a call of the loop at a lower power: whenever `x` succeeds and the continuation `C` holds of its result, `y`
    yields the continuation's result -/
structure Rel (C : INode → PState → (INode × PState) → Prop) (x y : PM INode) : Prop where
  h : ∀ s a s2, x s = .ok (a, s2) → ∀ res, C a s2 res → y s = .ok res

theorem Rel.fail {C e} {y : PM INode} : Rel C (fail e) y := ⟨fun _ _ _ h => by cases h⟩

theorem Rel.bind {α C} {x y : PM α} {f f' : α → PM INode} (h1 : Le x y) (h2 : ∀ r, Rel C (f r) (f' r)) :
    Rel C (x >>= f) (y >>= f') := by
  constructor
  intro s a s2 hx res hC
  rw [bind_run] at hx
  cases hxs : x s with
  | error e => rw [hxs] at hx; cases hx
  | ok r =>
    obtain ⟨r, s'⟩ := r
    rw [hxs] at hx
    rw [bind_ok (h1.ok hxs)]
    exact (h2 r).h s' a s2 hx res hC

theorem Rel.ite {C} {c : Prop} [Decidable c] {a a' b b' : PM INode} (h1 : Rel C a a') (h2 : Rel C b b') :
    Rel C (if c then a else b) (if c then a' else b') := by
  split <;> assumption

macro "rel_tac" hm:ident ih:ident : tactic => `(tactic|
  repeat (first
    | exact Rel.fail
    | exact $ih _
    | exact Le.refl _
    | exact Mono.expr $hm _
    | exact Mono.loop $hm _ _
    | exact Mono.filt $hm
    | exact Mono.proj $hm _
    | exact Mono.sarr $hm _
    | exact Mono.sobj $hm _
    | apply Rel.bind
    | apply Rel.ite
    | intro _
    | split))

/-- **The Pratt loop lemma.** If the loop at power `q` takes `n0` to `a` and stops in state `s2`, the loop at a
    lower power `p ≤ q` does the same work and then carries on from `a` in `s2`. -/
theorem loop_split_rel {p q g : Nat} (hpq : p ≤ q) :
    ∀ f n0, Rel (fun a s2 res => exprLoop g a p s2 = .ok res) (exprLoop f n0 q) (exprLoop (f + g) n0 p)
  | 0, n0 => by rw [exprLoop.eq_1]; exact Rel.fail
  | f + 1, n0 => by
    have ih := loop_split_rel (g := g) hpq f
    have hm : Mono f (f + g) := mono_le (by omega)
    constructor
    intro s a s2 hx res hC
    rw [exprLoop.eq_2, bind_ok (currType_run s)] at hx
    by_cases h : precedence s.curr.type ≤ q
    · simp only [h, if_true] at hx
      cases hx
      exact exprLoop_mono (by omega) hC
    · have h' : ¬ precedence s.curr.type ≤ p := by omega
      by_cases hnot : s.curr.type = .not
      · simp only [h, if_false] at hx
        rw [hnot] at hx
        simp only [binOpOf] at hx
        cases hx
        exact exprLoop_mono (by omega) hC
      · rw [Nat.add_right_comm, exprLoop.eq_2, bind_ok (currType_run s)]
        simp only [h, h', if_false] at hx ⊢
        generalize s.curr.type = t at *
        refine (?_ : Rel (fun a s2 res => exprLoop g a p s2 = .ok res) _ _).h s a s2 hx res hC
        clear hx hC
        cases t <;> first
          | exact absurd rfl hnot
          | exact absurd (Nat.zero_le _) h
          | (simp only [binOpOf]; rel_tac hm ih)

theorem loop_split {p q f g : Nat} {n0 a : INode} {s1 s2 : PState} {res} (hpq : p ≤ q)
    (h1 : exprLoop f n0 q s1 = .ok (a, s2)) (h2 : exprLoop g a p s2 = .ok res) :
    exprLoop (f + g) n0 p s1 = .ok res :=
  (loop_split_rel hpq f n0).h s1 a s2 h1 res h2


/-! ## Operands -/

/-- what may follow an operand parsed at power `q`: a token at which the loop at power `q` stops — and which is not
    `(`, which would turn a preceding identifier into a function name -/
def Follow (q : Nat) (rest : List Token) : Prop :=
  precedence (stOf rest).curr.type ≤ q ∧ (stOf rest).curr.type ≠ .openParen

theorem Follow.mono {p q : Nat} {rest} (h : Follow p rest) (hpq : p ≤ q) : Follow q rest :=
  ⟨Nat.le_trans h.1 hpq, h.2⟩

/-- `expression f0 q` parses the tokens `ts` to the node `n` and stops, whatever follows (`Follow q`) -/
def OperandF (f0 q : Nat) (ts : List Token) (n : INode) : Prop :=
  ∀ rest, Follow q rest → expression f0 q (stOf (ts ++ rest)) = .ok (n, stOf rest)

theorem OperandF.mono {f g q : Nat} {ts n} (h : OperandF f q ts n) (hfg : f ≤ g) : OperandF g q ts n :=
  fun rest hr => expression_mono hfg (h rest hr)

theorem mkBin_prec {t : TokenType} {mk} (h : mkBin t = some mk) :
    2 ≤ precedence t ∧ precedence t ≤ 7 ∧ t ≠ .openParen := by
  cases t <;> simp [mkBin, binOpOf] at h <;> simp [precedence]

theorem follow_cons {q : Nat} {o : Token} {ts : List Token} {mk} (hmk : mkBin o.type = some mk)
    (h : precedence o.type ≤ q) : Follow q (o :: ts) :=
  ⟨h, (mkBin_prec hmk).2.2⟩

/-- an operand at power `q`, parsed at a lower power `p`: the loop at power `p` carries on after it -/
theorem operand_lower {fA q p g : Nat} {A : List Token} {a : INode} {rest : List Token} {res}
    (hA : OperandF fA q A a) (hpq : p ≤ q) (hr : Follow q rest)
    (hk : exprLoop g a p (stOf rest) = .ok res) :
    expression (fA + g) p (stOf (A ++ rest)) = .ok res := by
  have h := hA rest hr
  cases fA with
  | zero => rw [expression.eq_1] at h; cases h
  | succ f =>
    rw [expression_succ_run] at h
    cases hp : primaryExpression f (stOf (A ++ rest)) with
    | error e => rw [hp] at h; cases h
    | ok r =>
      obtain ⟨n0, s1⟩ := r
      rw [hp] at h
      rw [Nat.add_right_comm, expression_of_prim (primaryExpression_mono (by omega) hp)]
      exact loop_split hpq h hk

/-- **`binary_step`**: with the left operand `l` in hand, the loop at power `p` consumes a binary operator `o` of
    higher level and its right operand `B` (an operand at the level of `o`), and carries on with `mk l b`. -/
theorem binary_step {o : Token} {mk} {B : List Token} {b l : INode} {fB p fuel : Nat} {rest : List Token}
    (hmk : mkBin o.type = some mk) (hp : p < precedence o.type)
    (hB : OperandF fB (precedence o.type) B b) (hr : Follow (precedence o.type) rest) (hf : fB ≤ fuel) :
    exprLoop (fuel + 1) l p (stOf (o :: (B ++ rest))) = exprLoop fuel (mk l b) p (stOf rest) := by
  rw [exprLoop_bin (s := stOf (o :: (B ++ rest))) hmk hp, bind_ok (advance_stOf _ _)]
  simp only [stOf_curr]
  rw [bind_ok (expression_mono hf (hB rest hr))]

/-- `A o B`, with `A` and `B` operands at the level `q` of `o`, is an operand at every lower power -/
theorem operand_binop {o : Token} {mk} {A B : List Token} {a b : INode} {fA fB p q : Nat}
    (hmk : mkBin o.type = some mk) (hq : precedence o.type = q) (hp : p < q)
    (hA : OperandF fA q A a) (hB : OperandF fB q B b) :
    OperandF (fA + (fB + 2)) p (A ++ o :: B) (mk a b) := by
  intro rest hr
  subst hq
  rw [List.append_assoc, List.cons_append]
  apply operand_lower hA (Nat.le_of_lt hp) (follow_cons hmk (Nat.le_refl _))
  rw [binary_step hmk hp hB (hr.mono (Nat.le_of_lt hp)) (Nat.le_succ _)]
  exact exprLoop_stop hr.1

/-- `A o1 B o2 C` groups to the left when `o2` is not tighter than `o1` -/
theorem left_group {o1 o2 : Token} {mk1 mk2} {A B C : List Token} {a b c : INode} {fA fB fC p q1 q2 : Nat}
    (hmk1 : mkBin o1.type = some mk1) (hmk2 : mkBin o2.type = some mk2)
    (hq1 : precedence o1.type = q1) (hq2 : precedence o2.type = q2) (h21 : q2 ≤ q1) (hp : p < q2)
    (hA : OperandF fA q1 A a) (hB : OperandF fB q1 B b) (hC : OperandF fC q2 C c) :
    OperandF (fA + (fB + fC + 3)) p (A ++ o1 :: (B ++ o2 :: C)) (mk2 (mk1 a b) c) := by
  intro rest hr
  subst hq1 hq2
  have e : (A ++ o1 :: (B ++ o2 :: C)) ++ rest = A ++ o1 :: (B ++ o2 :: (C ++ rest)) := by simp
  rw [e]
  apply operand_lower hA (by omega) (follow_cons hmk1 (Nat.le_refl _))
  rw [binary_step hmk1 (by omega) hB (follow_cons hmk2 h21) (by omega : fB ≤ fB + fC + 2),
    show fB + fC + 2 = (fB + fC + 1) + 1 from rfl,
    binary_step hmk2 hp hC (hr.mono (Nat.le_of_lt hp)) (by omega)]
  exact exprLoop_stop hr.1

/-- `A o1 B o2 C` groups to the right when `o2` is tighter than `o1` -/
theorem right_group {o1 o2 : Token} {mk1 mk2} {A B C : List Token} {a b c : INode} {fA fB fC p q1 q2 : Nat}
    (hmk1 : mkBin o1.type = some mk1) (hmk2 : mkBin o2.type = some mk2)
    (hq1 : precedence o1.type = q1) (hq2 : precedence o2.type = q2) (h12 : q1 < q2) (hp : p < q1)
    (hA : OperandF fA q1 A a) (hB : OperandF fB q2 B b) (hC : OperandF fC q2 C c) :
    OperandF (fA + (fB + (fC + 2) + 2)) p (A ++ o1 :: (B ++ o2 :: C)) (mk1 a (mk2 b c)) :=
  operand_binop hmk1 hq1 hp hA (operand_binop hmk2 hq2 h12 hB hC)


/-! ## Basic operands -/

theorem stOf_next_eq (t : Token) (rest : List Token) : (stOf (t :: rest)).next = (stOf rest).curr := rfl

/-- a primary expression that consumes exactly the tokens `ts` is an operand at every power -/
theorem operand_of_prim {f q : Nat} {ts : List Token} {n : INode}
    (h : ∀ rest, Follow q rest → primaryExpression f (stOf (ts ++ rest)) = .ok (n, stOf rest)) :
    OperandF (f + 2) q ts n := by
  intro rest hr
  rw [expression_of_prim (primaryExpression_mono (Nat.le_succ f) (h rest hr))]
  exact exprLoop_stop hr.1

theorem operand_current {t : Token} (ht : t.type = .current) (q : Nat) : OperandF 3 q [t] .current := by
  apply operand_of_prim (f := 1)
  intro rest _
  rw [primaryExpression.eq_2, bind_ok (get_run _)]
  simp only [List.singleton_append, stOf_curr, ht]
  rw [bind_ok (advance_stOf _ _)]
  rfl

theorem operand_root {t : Token} (ht : t.type = .root) (q : Nat) : OperandF 3 q [t] .root := by
  apply operand_of_prim (f := 1)
  intro rest _
  rw [primaryExpression.eq_2, bind_ok (get_run _)]
  simp only [List.singleton_append, stOf_curr, ht]
  rw [bind_ok (advance_stOf _ _)]
  rfl

theorem operand_variable {t : Token} (ht : t.type = .variable) (q : Nat) : OperandF 3 q [t] (.variable t.value) := by
  apply operand_of_prim (f := 1)
  intro rest _
  rw [primaryExpression.eq_2, bind_ok (get_run _)]
  simp only [List.singleton_append, stOf_curr, ht]
  rw [bind_ok (advance_stOf _ _)]
  rfl

theorem operand_string {t : Token} (ht : t.type = .stringLiteral) (q : Nat) :
    OperandF 3 q [t] (.lit (.str (parseStringLiteral t.value))) := by
  apply operand_of_prim (f := 1)
  intro rest _
  rw [primaryExpression.eq_2, bind_ok (get_run _)]
  simp only [List.singleton_append, stOf_curr, ht]
  rw [bind_ok (advance_stOf _ _)]
  rfl

theorem operand_json {t : Token} {v : Val} (ht : t.type = .jsonLiteral) (hv : parseJSONLiteral t.value = some v)
    (q : Nat) : OperandF 3 q [t] (.lit v) := by
  apply operand_of_prim (f := 1)
  intro rest _
  rw [primaryExpression.eq_2, bind_ok (get_run _)]
  simp only [List.singleton_append, stOf_curr, ht, hv]
  rw [bind_ok (advance_stOf _ _)]
  rfl

theorem operand_quoted {t : Token} {k : Bytes} (ht : t.type = .quotedIdentifier)
    (hk : parseQuotedIdentifier t.value = some k) (q : Nat) : OperandF 3 q [t] (.field k) := by
  apply operand_of_prim (f := 1)
  intro rest _
  rw [primaryExpression.eq_2, bind_ok (get_run _)]
  simp only [List.singleton_append, stOf_curr, ht, hk]
  rw [bind_ok (advance_stOf _ _)]
  rfl

/-- an identifier (not followed by `(`: that is part of `Follow`) -/
theorem operand_ident {t : Token} (ht : t.type = .unquotedIdentifier) (q : Nat) :
    OperandF 3 q [t] (.field t.value) := by
  apply operand_of_prim (f := 1)
  intro rest hr
  rw [primaryExpression.eq_2, bind_ok (get_run _)]
  have hn : ((stOf (t :: rest)).next.type == TokenType.openParen) = false := by
    rw [stOf_next_eq]; simpa using hr.2
  simp only [List.singleton_append, stOf_curr, ht, hn, Bool.false_eq_true, if_false]
  rw [bind_ok (advance_stOf _ _)]
  rfl

/-- `( e )`: a parenthesised expression is an operand at every power -/
theorem operand_paren {l r : Token} (hl : l.type = .openParen) (hr : r.type = .closeParen)
    {f : Nat} {E : List Token} {n : INode} (hE : OperandF f 1 E n) (q : Nat) :
    OperandF (f + 3) q (l :: (E ++ [r])) n := by
  apply operand_of_prim (f := f + 1)
  intro rest _
  rw [primaryExpression.eq_2, bind_ok (get_run _)]
  have e : (l :: (E ++ [r])) ++ rest = l :: (E ++ r :: rest) := by simp
  have hf : Follow 1 (r :: rest) := ⟨by simp [hr, precedence], by simp [hr]⟩
  simp only [e, stOf_curr, hl]
  rw [bind_ok (advance_stOf _ _), bind_ok (hE _ hf), bind_ok (currType_run _)]
  simp only [stOf_curr, hr, bne_self_eq_false, Bool.false_eq_true, if_false]
  rw [bind_ok (advance_stOf _ _)]
  rfl

/-! ## Unary operators -/

/-- `! A`, with `A` an operand at the power of `!`, is an operand at every power up to that of `!` -/
theorem operand_not {t : Token} (ht : t.type = .not) {f : Nat} {A : List Token} {a : INode}
    (hA : OperandF f (precedence .not) A a) {q : Nat} (hq : q ≤ precedence .not) :
    OperandF (f + 3) q (t :: A) (.not a) := by
  apply operand_of_prim (f := f + 1)
  intro rest hr
  rw [primaryExpression.eq_2, bind_ok (get_run _)]
  simp only [List.cons_append, stOf_curr, ht]
  rw [bind_ok (advance_stOf _ _), bind_ok (hA _ (hr.mono hq))]
  rfl

/-- `- A`, with `A` an operand at the multiplicative power, is an operand at every power up to that one -/
theorem operand_negate {t : Token} (ht : t.type = .subtract) {f : Nat} {A : List Token} {a : INode}
    (hA : OperandF f (precedence .multiply) A a) {q : Nat} (hq : q ≤ precedence .multiply) :
    OperandF (f + 3) q (t :: A) (.negate a) := by
  apply operand_of_prim (f := f + 1)
  intro rest hr
  rw [primaryExpression.eq_2, bind_ok (get_run _)]
  simp only [List.cons_append, stOf_curr, ht]
  rw [bind_ok (advance_stOf _ _), bind_ok (hA _ (hr.mono hq))]
  rfl

/-- `+ A` -/
theorem operand_plus {t : Token} (ht : t.type = .add) {f : Nat} {A : List Token} {a : INode}
    (hA : OperandF f (precedence .multiply) A a) {q : Nat} (hq : q ≤ precedence .multiply) :
    OperandF (f + 3) q (t :: A) (.assertNumber a) := by
  apply operand_of_prim (f := f + 1)
  intro rest hr
  rw [primaryExpression.eq_2, bind_ok (get_run _)]
  simp only [List.cons_append, stOf_curr, ht]
  rw [bind_ok (advance_stOf _ _), bind_ok (hA _ (hr.mono hq))]
  rfl


/-! ## The selector `.` followed by an identifier (used to compare it with the unary operators) -/

theorem exprLoop_dot_ident {f : Nat} {n : INode} {p : Nat} {s : PState} (hd : s.curr.type = .dot)
    (hn : s.next.type = .unquotedIdentifier ∨ s.next.type = .quotedIdentifier) (hp : p < precedence .dot) :
    exprLoop (f+1) n p s =
      (advance >>= fun _ => expression f (precedence .dot) >>= fun r => exprLoop f (.pipe n r) p) s := by
  rw [exprLoop.eq_2, bind_ok (currType_run s)]
  have hn' : ¬ precedence .dot ≤ p := by omega
  simp only [hd, hn', if_false, binOpOf]
  rw [bind_ok (nextType_run s)]
  rcases hn with hn | hn <;> rw [hn] <;> rfl

/-- `A . B` where `B` starts with an identifier: the sub-expression (a `pipe` node in this implementation) -/
theorem operand_dot {d t : Token} (hd : d.type = .dot)
    (ht : t.type = .unquotedIdentifier ∨ t.type = .quotedIdentifier)
    {A B : List Token} {a b : INode} {fA fB p : Nat} (hp : p < precedence .dot)
    (hA : OperandF fA (precedence .dot) A a) (hB : OperandF fB (precedence .dot) (t :: B) b) :
    OperandF (fA + (fB + 2)) p (A ++ d :: t :: B) (.pipe a b) := by
  intro rest hr
  have e : (A ++ d :: t :: B) ++ rest = A ++ d :: (t :: B ++ rest) := by simp
  rw [e]
  apply operand_lower hA (Nat.le_of_lt hp) ⟨by simp [hd], by simp [hd]⟩
  rw [exprLoop_dot_ident (s := stOf (d :: (t :: B ++ rest))) hd (by simpa using ht) hp,
    bind_ok (advance_stOf _ _), bind_ok (expression_mono (Nat.le_succ _) (hB rest (hr.mono (Nat.le_of_lt hp))))]
  exact exprLoop_stop hr.1

/-! ## From token lists to `Parser.parse` -/

/-- `Parser.parse` after lexing -/
def runTop (ts : List Token) : Except PErr INode :=
  match (do
    let node ← expression (fuelFor ts.length) 1
    if (← currType) != .end then fail .unexpectedToken
    return node : PM INode) (stOf ts) with
  | .ok (n, _) => .ok n
  | .error err => .error err

theorem parse_of_lex {e : Bytes} {ts : List Token} (h : lexAll e = (ts, none)) : Parser.parse e = runTop ts := by
  unfold Parser.parse runTop
  rw [h]
  match ts with
  | [] => rfl
  | [_] => rfl
  | _ :: _ :: _ => rfl

theorem follow_end (q : Nat) : Follow q [endTok] := ⟨Nat.zero_le _, by decide⟩

theorem runTop_of_expr {ts : List Token} {n : INode}
    (h : expression (fuelFor ts.length) 1 (stOf ts) = .ok (n, stOf [endTok])) : runTop ts = .ok n := by
  unfold runTop
  rw [bind_ok h, bind_ok (currType_run _)]
  rfl

/-- an operand at power 1 whose fuel bound is within the parser's budget is what `Parser.parse` returns -/
theorem parse_of_operandF {e : Bytes} {ts : List Token} {n : INode} {f0 : Nat}
    (hl : lexAll e = (ts ++ [endTok], none)) (hO : OperandF f0 1 ts n) (hf : f0 ≤ fuelFor (ts.length + 1)) :
    Parser.parse e = .ok n := by
  rw [parse_of_lex hl]
  apply runTop_of_expr
  apply expression_mono (f := f0) (by simpa using hf)
  exact hO _ (follow_end 1)

/-- … and with an unknown fuel bound: unless the parser reports fuel exhaustion -/
theorem parse_of_operand {e : Bytes} {ts : List Token} {n : INode} {f0 : Nat}
    (hl : lexAll e = (ts ++ [endTok], none)) (hO : OperandF f0 1 ts n) (hnf : Parser.parse e ≠ .error .fuel) :
    Parser.parse e = .ok n := by
  rw [parse_of_lex hl] at hnf ⊢
  have h0 := hO _ (follow_end 1)
  have hne : expression (fuelFor (ts ++ [endTok]).length) 1 (stOf (ts ++ [endTok])) ≠ .error .fuel := by
    intro h
    apply hnf
    unfold runTop
    rw [bind_err h]
  apply runTop_of_expr
  have h1 := expression_mono_res (Nat.le_max_left _ f0) hne
  have h2 := expression_mono (Nat.le_max_right (fuelFor (ts ++ [endTok]).length) f0) h0
  rw [← h1, h2]

theorem search_of_parse {e : Bytes} {n : INode} (h : Parser.parse e = .ok n) (d : Val) :
    search e d = evaluate n d := by
  unfold search; rw [h]

/-! ## Chains of any length at one level -/

/-- `o1 B1 o2 B2 …`: every operator at level `q`, every `Bi` an operand at power `q`; `k` maps the node of the left
    operand to the node of the whole chain (the left fold) -/
inductive Chain (q : Nat) : List Token → (INode → INode) → Prop
  | nil : Chain q [] id
  | cons {o : Token} {mk} {B : List Token} {b : INode} {ts : List Token} {k : INode → INode} :
      mkBin o.type = some mk → precedence o.type = q → (∃ f, OperandF f q B b) → Chain q ts k →
      Chain q (o :: (B ++ ts)) (fun l => k (mk l b))

theorem Chain.follow {q p : Nat} {ts k rest} (h : Chain q ts k) (hr : Follow p rest) (hpq : p ≤ q) :
    Follow q (ts ++ rest) := by
  cases h with
  | nil => exact hr.mono hpq
  | cons hmk hq _ _ => exact follow_cons hmk (Nat.le_of_eq hq)

theorem chain_loop {q p : Nat} {ts k} (h : Chain q ts k) (hp : p < q) :
    ∃ F, ∀ fuel, F ≤ fuel → ∀ l rest, Follow p rest →
      exprLoop fuel l p (stOf (ts ++ rest)) = .ok (k l, stOf rest) := by
  induction h with
  | nil =>
    refine ⟨1, fun fuel hf l rest hr => ?_⟩
    obtain ⟨fu, rfl⟩ : ∃ fu, fuel = fu + 1 := ⟨fuel - 1, by omega⟩
    exact exprLoop_stop hr.1
  | @cons o mk B b ts k hmk hq hB hts ih =>
    obtain ⟨F', ih⟩ := ih
    obtain ⟨fB, hB⟩ := hB
    refine ⟨fB + F' + 1, fun fuel hf l rest hr => ?_⟩
    obtain ⟨fu, rfl⟩ : ∃ fu, fuel = fu + 1 := ⟨fuel - 1, by omega⟩
    subst hq
    have e : (o :: (B ++ ts)) ++ rest = o :: (B ++ (ts ++ rest)) := by simp
    rw [e, binary_step hmk hp hB (hts.follow hr (Nat.le_of_lt hp)) (by omega)]
    exact ih fu (by omega) _ rest hr

/-- `A o1 B1 o2 B2 … on Bn`, all operators at level `q`, parses (at every lower power) to the left fold -/
theorem chain_left {q p : Nat} {A : List Token} {a : INode} {fA : Nat} {ts k} (hA : OperandF fA q A a)
    (h : Chain q ts k) (hp : p < q) : ∃ F, OperandF F p (A ++ ts) (k a) := by
  obtain ⟨F, hF⟩ := chain_loop h hp
  refine ⟨fA + F, fun rest hr => ?_⟩
  rw [List.append_assoc]
  exact operand_lower hA (Nat.le_of_lt hp) (h.follow hr (Nat.le_of_lt hp)) (hF F (Nat.le_refl _) a rest hr)

/-! ## Small concrete checks of the helpers -/

section Checks
private def ia : Token := ⟨.unquotedIdentifier, [0x61]⟩
private def ib : Token := ⟨.unquotedIdentifier, [0x62]⟩
private def plus : Token := ⟨.add, [0x2B]⟩

example : advance (stOf [ia, plus, ib]) = .ok ((), stOf [plus, ib]) := advance_stOf _ _
example : advance2 (stOf [ia, plus, ib]) = .ok ((), stOf [ib]) := advance2_stOf _ _ _
example : (stOf [ia]).next = endTok ∧ (stOf []).curr = endTok := ⟨rfl, rfl⟩
-- `a` alone, then with any amount of extra fuel
example : expression 3 1 (stOf [ia, endTok]) = .ok (.field [0x61], stOf [endTok]) :=
  operand_ident (t := ia) rfl 1 [endTok] (follow_end 1)
example : expression 1000 1 (stOf [ia, endTok]) = .ok (.field [0x61], stOf [endTok]) :=
  expression_mono (by decide) (operand_ident (t := ia) rfl 1 [endTok] (follow_end 1))
-- too little fuel is an `error fuel`, which `Le` rightly does not preserve
example : expression 0 1 (stOf [ia, endTok]) = .error .fuel := by rw [expression.eq_1]; rfl
-- one loop step: `a` in hand, `+ b` ahead
example : exprLoop 4 (.field [0x61]) 1 (stOf [plus, ib, endTok]) =
    exprLoop 3 (.binop .add (.field [0x61]) (.field [0x62])) 1 (stOf [endTok]) :=
  binary_step (o := plus) (B := [ib]) (rest := [endTok]) rfl (by decide) (operand_ident (t := ib) rfl _)
    (follow_end _) (Nat.le_refl _)
-- the loop lemma: the loop at power 6 does not take `+`, the loop at power 1 does
example : exprLoop (1 + 4) (.field [0x61]) 1 (stOf [plus, ib, endTok]) =
    .ok (.binop .add (.field [0x61]) (.field [0x62]), stOf [endTok]) :=
  loop_split (q := 6) (a := .field [0x61]) (s2 := stOf [plus, ib, endTok]) (by decide)
    (exprLoop_stop (by decide))
    ((binary_step (o := plus) (B := [ib]) (rest := [endTok]) rfl (by decide) (operand_ident (t := ib) rfl _)
        (follow_end _) (Nat.le_refl _)).trans (exprLoop_stop (by decide)))
-- a chain `a + b + a + b`
example : ∃ F, OperandF F 1 [ia, plus, ib, plus, ia, plus, ib]
    (.binop .add (.binop .add (.binop .add (.field [0x61]) (.field [0x62])) (.field [0x61])) (.field [0x62])) := by
  have c : Chain 6 [plus, ib, plus, ia, plus, ib]
      (fun l => .binop .add (.binop .add (.binop .add l (.field [0x62])) (.field [0x61])) (.field [0x62])) :=
    .cons (o := plus) (B := [ib]) rfl rfl ⟨_, operand_ident (t := ib) rfl _⟩
      (.cons (o := plus) (B := [ia]) rfl rfl ⟨_, operand_ident (t := ia) rfl _⟩
        (.cons (o := plus) (B := [ib]) rfl rfl ⟨_, operand_ident (t := ib) rfl _⟩ .nil))
  have h := chain_left (p := 1) (A := [ia]) (operand_ident (t := ia) rfl 6) c (by decide)
  exact h
end Checks

/-! ## A projection token binds tighter than every binary operator: `A []` -/

/-- with nothing selector-like ahead, the right-hand side of a projection is empty -/
theorem projection_none {f prec : Nat} {s : PState} (h : precedence s.curr.type ≤ 7) :
    projection (f + 1) prec s = .ok (none, s) := by
  rw [projection.eq_2, bind_ok (get_run _)]
  cases ht : s.curr.type <;> rw [ht] at h <;> simp [precedence] at h <;> rfl

theorem exprLoop_flatten {f : Nat} {n : INode} {p : Nat} {s : PState} (hd : s.curr.type = .flatten)
    (hp : p < precedence .flatten) :
    exprLoop (f+1) n p s =
      (advance >>= fun _ => projection f projectionPrecedence >>= fun right =>
        exprLoop f (match right with | none => .flatten n | some r => .flattenAndProject n r) p) s := by
  rw [exprLoop.eq_2, bind_ok (currType_run s)]
  have hn : ¬ precedence s.curr.type ≤ p := by rw [hd]; omega
  simp only [hn, if_false]
  generalize s.curr.type = t at *
  subst hd
  rfl

/-- `A []` (flatten, nothing selector-like following) is an operand at every power below that of `[]` -/
theorem operand_flatten {t : Token} (ht : t.type = .flatten) {fA p : Nat} {A : List Token} {a : INode}
    (hp : p < precedence .flatten) (hA : OperandF fA (precedence .flatten) A a) :
    OperandF (fA + 2) p (A ++ [t]) (.flatten a) := by
  intro rest hr
  rw [List.append_assoc, List.singleton_append]
  apply operand_lower hA (Nat.le_of_lt hp) ⟨by simp [ht], by simp [ht]⟩
  have h7 : precedence (stOf rest).curr.type ≤ 7 := by
    have := hr.1; simp only [precedence] at hp; omega
  rw [exprLoop_flatten (s := stOf (t :: rest)) ht hp, bind_ok (advance_stOf _ _), bind_ok (projection_none h7)]
  exact exprLoop_stop hr.1

example : OperandF 5 6 [⟨.unquotedIdentifier, [0x62]⟩, ⟨.flatten, [0x5B, 0x5D]⟩] (.flatten (.field [0x62])) :=
  operand_flatten (t := ⟨.flatten, [0x5B, 0x5D]⟩) (A := [⟨.unquotedIdentifier, [0x62]⟩]) rfl (by decide)
    (operand_ident (t := ⟨.unquotedIdentifier, [0x62]⟩) rfl _)

end Jmes.Pratt
