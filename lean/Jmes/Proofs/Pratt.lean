/-
  Helpers for C10 (operator precedence of the Pratt parser, `Model/Parser.lean`):

  * `Le` / `Mono` / `mono_le` — fuel monotonicity of all thirteen mutually recursive parser functions, in the strong
    form "any result other than `error fuel` is unchanged by adding fuel";
  * `stOf` — the parser state over a token list, `advance_stOf`, `advance2_stOf`;
  * `OperandF` — "the token list `ts` is parsed, at binding power `q`, to the node `n`, whatever follows";
  * the Pratt lemmas: `loop_split` (a loop at a lower power continues where the loop at a higher power stopped),
    `binary_step`, and the three-operand theorems with explicit fuel.
-/
import Jmes.Model.Parser
import Jmes.Model.Api
namespace Jmes.Pratt
open Jmes Jmes.Parser

/-! ## Fuel monotonicity -/

/-- `y` refines `x`: wherever `x` does not run out of fuel, `y` gives the same result -/
structure Le {α} (x y : PM α) : Prop where
  h : ∀ s, x s ≠ .error .fuel → y s = x s

theorem Le.refl {α} (x : PM α) : Le x x := ⟨fun _ _ => rfl⟩

theorem Le.fuel {α} (y : PM α) : Le (fail .fuel) y := ⟨fun _ h => absurd rfl h⟩

theorem Le.trans {α} {x y z : PM α} (h1 : Le x y) (h2 : Le y z) : Le x z := by
  constructor
  intro s h
  have := h1.h s h
  rw [h2.h s (by rw [this]; exact h), this]

theorem bind_run {α β} (x : PM α) (f : α → PM β) (s : PState) :
    (x >>= f) s = match x s with
      | .ok (a, s') => f a s' | .error e => .error e := by
  show (StateT.bind x f) s = _
  unfold StateT.bind
  show (x s >>= _) = _
  cases x s <;> rfl

theorem Le.bind {α β} {x y : PM α} {f g : α → PM β} (h1 : Le x y) (h2 : ∀ a, Le (f a) (g a)) :
    Le (x >>= f) (y >>= g) := by
  constructor
  intro s h
  rw [bind_run] at h
  rw [bind_run, bind_run]
  cases hx : x s with
  | error er =>
    rw [hx] at h
    dsimp only at h
    have : y s = x s := h1.h s (by rw [hx]; intro h'; cases h'; exact h rfl)
    rw [this, hx]
  | ok r =>
    obtain ⟨a, s'⟩ := r
    rw [hx] at h
    dsimp only at h
    have : y s = x s := h1.h s (by rw [hx]; intro h'; cases h')
    rw [this, hx]
    exact (h2 a).h s' h

theorem Le.ite {α} {c : Prop} [Decidable c] {a a' b b' : PM α} (h1 : Le a a') (h2 : Le b b') :
    Le (if c then a else b) (if c then a' else b') := by
  split <;> assumption

/-- fuel `g` refines fuel `f`, for every function of the mutual block -/
structure Mono (f g : Nat) : Prop where
  expr : ∀ p, Le (expression f p) (expression g p)
  loop : ∀ n p, Le (exprLoop f n p) (exprLoop g n p)
  filt : Le (filterP f) (filterP g)
  args : ∀ a b c, Le (fnArgs f a b c) (fnArgs g a b c)
  vargs : ∀ a, Le (fnVarArgs f a) (fnVarArgs g a)
  func : Le (function f) (function g)
  letp : ∀ a, Le (letP f a) (letP g a)
  prim : Le (primaryExpression f) (primaryExpression g)
  proj : ∀ p, Le (projection f p) (projection g p)
  sarr : ∀ c, Le (selectArray f c) (selectArray g c)
  sarrl : ∀ c l, Le (selectArrayLoop f c l) (selectArrayLoop g c l)
  sobj : ∀ c, Le (selectObject f c) (selectObject g c)
  sobjl : ∀ c l, Le (selectObjectLoop f c l) (selectObjectLoop g c l)

/-- walks two copies of the same `do` block whose recursive calls differ only in their fuel -/
macro "mono_tac" ih:ident : tactic => `(tactic|
  repeat (first
    | exact Le.refl _
    | exact Mono.expr $ih _
    | exact Mono.loop $ih _ _
    | exact Mono.filt $ih
    | exact Mono.args $ih _ _ _
    | exact Mono.vargs $ih _
    | exact Mono.func $ih
    | exact Mono.letp $ih _
    | exact Mono.prim $ih
    | exact Mono.proj $ih _
    | exact Mono.sarr $ih _
    | exact Mono.sarrl $ih _ _
    | exact Mono.sobj $ih _
    | exact Mono.sobjl $ih _ _
    | apply Le.bind
    | apply Le.ite
    | intro _
    | split))

theorem mono_zero (g : Nat) : Mono 0 g where
  expr p := by rw [expression.eq_1]; exact Le.fuel _
  loop n p := by rw [exprLoop.eq_1]; exact Le.fuel _
  filt := by rw [filterP.eq_1]; exact Le.fuel _
  args a b c := by rw [fnArgs.eq_1]; exact Le.fuel _
  vargs a := by rw [fnVarArgs.eq_1]; exact Le.fuel _
  func := by rw [function.eq_1]; exact Le.fuel _
  letp a := by rw [letP.eq_1]; exact Le.fuel _
  prim := by rw [primaryExpression.eq_1]; exact Le.fuel _
  proj p := by rw [projection.eq_1]; exact Le.fuel _
  sarr c := by rw [selectArray.eq_1]; exact Le.fuel _
  sarrl c l := by rw [selectArrayLoop.eq_1]; exact Le.fuel _
  sobj c := by rw [selectObject.eq_1]; exact Le.fuel _
  sobjl c l := by rw [selectObjectLoop.eq_1]; exact Le.fuel _

theorem mono_succ (f g : Nat) (ih : Mono f g) : Mono (f + 1) (g + 1) where
  expr p := by
    rw [expression.eq_2 p f, expression.eq_2 p g]; mono_tac ih
  loop n p := by
    rw [exprLoop.eq_2 n p f, exprLoop.eq_2 n p g]; mono_tac ih
  filt := by
    rw [filterP.eq_2 f, filterP.eq_2 g]; mono_tac ih
  args a b c := by
    rw [fnArgs.eq_2 a b c f, fnArgs.eq_2 a b c g]; mono_tac ih
  vargs a := by
    rw [fnVarArgs.eq_2 a f, fnVarArgs.eq_2 a g]; mono_tac ih
  func := by
    rw [function.eq_2 f, function.eq_2 g]; mono_tac ih
  letp a := by
    rw [letP.eq_2 a f, letP.eq_2 a g]; mono_tac ih
  prim := by
    rw [primaryExpression.eq_2 f, primaryExpression.eq_2 g]; mono_tac ih
  proj p := by
    rw [projection.eq_2 p f, projection.eq_2 p g]; mono_tac ih
  sarr c := by
    rw [selectArray.eq_2 c f, selectArray.eq_2 c g]; mono_tac ih
  sarrl c l := by
    rw [selectArrayLoop.eq_2 c l f, selectArrayLoop.eq_2 c l g]; mono_tac ih
  sobj c := by
    rw [selectObject.eq_2 c f, selectObject.eq_2 c g]; mono_tac ih
  sobjl c l := by
    rw [selectObjectLoop.eq_2 c l f, selectObjectLoop.eq_2 c l g]; mono_tac ih

/-- **Fuel monotonicity** of the whole parser: with more fuel, every result other than `error fuel` is unchanged. -/
theorem mono_le : ∀ {f g : Nat}, f ≤ g → Mono f g
  | 0, g, _ => mono_zero g
  | f + 1, 0, h => absurd h (by omega)
  | f + 1, g + 1, h => mono_succ f g (mono_le (by omega))

theorem Le.ok {α} {x y : PM α} (h : Le x y) {s : PState} {r : α × PState} (hx : x s = .ok r) : y s = .ok r := by
  rw [h.h s (by rw [hx]; intro h'; cases h'), hx]

theorem expression_mono {f g p s r} (h : f ≤ g) (hx : expression f p s = .ok r) : expression g p s = .ok r :=
  ((mono_le h).expr p).ok hx
theorem exprLoop_mono {f g n p s r} (h : f ≤ g) (hx : exprLoop f n p s = .ok r) : exprLoop g n p s = .ok r :=
  ((mono_le h).loop n p).ok hx
theorem primaryExpression_mono {f g s r} (h : f ≤ g) (hx : primaryExpression f s = .ok r) :
    primaryExpression g s = .ok r :=
  ((mono_le h).prim).ok hx
theorem projection_mono {f g p s r} (h : f ≤ g) (hx : projection f p s = .ok r) : projection g p s = .ok r :=
  ((mono_le h).proj p).ok hx

/-- more fuel never changes a result other than `error fuel` (all results, not only successes) -/
theorem expression_mono_res {f g p s} (h : f ≤ g) (hx : expression f p s ≠ .error .fuel) :
    expression g p s = expression f p s :=
  ((mono_le h).expr p).h s hx

end Jmes.Pratt
