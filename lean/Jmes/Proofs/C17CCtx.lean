/-
  C17 (third part, helper) — CONTEXT CLOSURE of the structural identities.

  The identities of C17 are statements about a whole expression under `search`.  Here: an identity that holds between
  two sub-expressions (at node level: for every current value and every environment) holds between any two
  expressions that differ only in that sub-expression.

    * `Ctx`                         one-hole contexts over the parse trees `PTree` of the declarative grammar: one
                                    constructor per child position of every `PTree` constructor; `Ctx.fill C s` plugs
                                    the tree `s` into the hole;
    * `erase_fill_cong`             for every congruence `R` on nodes (`Congr.Cong R`, `Proofs/C17CCongr.lean`):
                                    `R (erase s1) (erase s2) → R (erase (C.fill s1)) (erase (C.fill s2))`;
    * `erase_fill_eq`, `erase_fill_agree`   the instances for `NEq root` (equal evaluation) and `NAgree root`
                                    (agreeing evaluation: the same value, or both fail);
    * `context_closure_text`, `context_closure_text_eq`   on expression TEXT: when `e1`, `e2` lex to the printings of
                                    the well-formed trees `C.fill s1`, `C.fill s2`, `search e1 d` and `search e2 d` agree
                                    (are equal).

  Holes in right-hand-side position (`starR`, `ostarR`, `flatR`, `filtR`, `sliceR`, and everything below them along a
  left spine) are covered too: `erase` does not depend on the position a tree is printed in (only `flat` and `wp` do),
  and the two hypotheses `WellPrec (C.fill s1)`, `WellPrec (C.fill s2)` — supplied by the user, decidable — say that both
  filled trees print to expressions the parser reads back as these very trees (for instance that a pipe plugged
  into the left operand of `||` is parenthesised: use the context `binL or (paren hole) c`).
  A hole filled with the implicit current node `icur` is EXCLUDED (`s.isIcur = false`): `icur` is not an expression but
  the absence of one (`a[*]` against `a[*].b`), the node built around it has a different shape (`pruneArray l` against
  `projectArray l r`), and no well-formed tree is `icur` (`C17B.not_icur`).
-/
import Jmes.Proofs.C17CCongr
import Jmes.Proofs.C17BLemmas
import Jmes.Properties.C17B
namespace Jmes.C17C.Ctx
open Jmes Jmes.Grammar Jmes.C17 Jmes.C17C.Congr
set_option linter.unusedSimpArgs false
set_option linter.unusedVariables false

/-! ## 1. One-hole contexts -/

/-- a parse tree with one hole: every child position of every `PTree` constructor.  The sub-trees that are not on the
    path to the hole are stored as they are. -/
inductive Ctx where
  /-- the hole itself -/
  | hole
  | paren (c : Ctx)
  | not (c : Ctx)
  | neg (tok : Token) (c : Ctx)
  | pos (c : Ctx)
  /-- `□ op r` -/
  | binL (op : Token) (c : Ctx) (r : PTree)
  /-- `l op □` -/
  | binR (op : Token) (l : PTree) (c : Ctx)
  | dotIdL (c : Ctx) (r : PTree)
  | dotIdR (l : PTree) (c : Ctx)
  /-- `□.[e, …]` -/
  | dotListL (c : Ctx) (es : List PTree)
  /-- `l.[…, □, …]` -/
  | dotListE (l : PTree) (pre : List PTree) (c : Ctx) (post : List PTree)
  | dotHashL (c : Ctx) (kvs : List (Token × PTree))
  /-- `l.{…, k: □, …}` -/
  | dotHashE (l : PTree) (pre : List (Token × PTree)) (k : Token) (c : Ctx) (post : List (Token × PTree))
  | dotStarListL (c : Ctx)
  | indexL (c : Ctx) (n : Token)
  /-- `name(…, □, …)`; for an argument `&□` use `callA name pre (ref c) post` -/
  | callA (name : Token) (pre : List PTree) (c : Ctx) (post : List PTree)
  /-- `&□` -/
  | ref (c : Ctx)
  /-- `let …, $k = □, … in body` -/
  | letB (pre : List (Token × PTree)) (k : Token) (c : Ctx) (post : List (Token × PTree)) (body : PTree)
  /-- `let … in □` -/
  | letBody (bs : List (Token × PTree)) (c : Ctx)
  /-- `[…, □, …]` -/
  | multiListE (pre : List PTree) (c : Ctx) (post : List PTree)
  /-- `{…, k: □, …}` -/
  | multiHashE (pre : List (Token × PTree)) (k : Token) (c : Ctx) (post : List (Token × PTree))
  /-- `□[*] rhs` -/
  | starL (c : Ctx) (rhs : PTree)
  /-- `l[*] □`: the hole is (the left-most part of) the right-hand side -/
  | starR (l : PTree) (c : Ctx)
  | ostarL (c : Ctx) (rhs : PTree)
  | ostarR (l : PTree) (c : Ctx)
  | flatL (c : Ctx) (rhs : PTree)
  | flatR (l : PTree) (c : Ctx)
  | filtL (c : Ctx) (cond rhs : PTree)
  /-- `l[? □ ] rhs` -/
  | filtC (l : PTree) (c : Ctx) (rhs : PTree)
  | filtR (l cond : PTree) (c : Ctx)
  | sliceL (c : Ctx) (a b : Option Token) (cc : Option (Option Token)) (rhs : PTree)
  | sliceR (l : PTree) (a b : Option Token) (cc : Option (Option Token)) (c : Ctx)
  deriving Inhabited

/-- plug a tree into the hole -/
def Ctx.fill : Ctx → PTree → PTree
  | .hole, s => s
  | .paren c, s => .paren (c.fill s)
  | .not c, s => .not (c.fill s)
  | .neg tok c, s => .neg tok (c.fill s)
  | .pos c, s => .pos (c.fill s)
  | .binL op c r, s => .bin op (c.fill s) r
  | .binR op l c, s => .bin op l (c.fill s)
  | .dotIdL c r, s => .dotId (c.fill s) r
  | .dotIdR l c, s => .dotId l (c.fill s)
  | .dotListL c es, s => .dotList (c.fill s) es
  | .dotListE l pre c post, s => .dotList l (pre ++ c.fill s :: post)
  | .dotHashL c kvs, s => .dotHash (c.fill s) kvs
  | .dotHashE l pre k c post, s => .dotHash l (pre ++ (k, c.fill s) :: post)
  | .dotStarListL c, s => .dotStarList (c.fill s)
  | .indexL c n, s => .index (c.fill s) n
  | .callA name pre c post, s => .call name (pre ++ c.fill s :: post)
  | .ref c, s => .ref (c.fill s)
  | .letB pre k c post body, s => .letIn (pre ++ (k, c.fill s) :: post) body
  | .letBody bs c, s => .letIn bs (c.fill s)
  | .multiListE pre c post, s => .multiList (pre ++ c.fill s :: post)
  | .multiHashE pre k c post, s => .multiHash (pre ++ (k, c.fill s) :: post)
  | .starL c rhs, s => .star (c.fill s) rhs
  | .starR l c, s => .star l (c.fill s)
  | .ostarL c rhs, s => .ostar (c.fill s) rhs
  | .ostarR l c, s => .ostar l (c.fill s)
  | .flatL c rhs, s => .flat (c.fill s) rhs
  | .flatR l c, s => .flat l (c.fill s)
  | .filtL c cond rhs, s => .filt (c.fill s) cond rhs
  | .filtC l c rhs, s => .filt l (c.fill s) rhs
  | .filtR l cond c, s => .filt l cond (c.fill s)
  | .sliceL c a b cc rhs, s => .slice (c.fill s) a b cc rhs
  | .sliceR l a b cc c, s => .slice l a b cc (c.fill s)

/-- contexts compose -/
def Ctx.comp : Ctx → Ctx → Ctx
  | .hole, d => d
  | .paren c, d => .paren (c.comp d)
  | .not c, d => .not (c.comp d)
  | .neg tok c, d => .neg tok (c.comp d)
  | .pos c, d => .pos (c.comp d)
  | .binL op c r, d => .binL op (c.comp d) r
  | .binR op l c, d => .binR op l (c.comp d)
  | .dotIdL c r, d => .dotIdL (c.comp d) r
  | .dotIdR l c, d => .dotIdR l (c.comp d)
  | .dotListL c es, d => .dotListL (c.comp d) es
  | .dotListE l pre c post, d => .dotListE l pre (c.comp d) post
  | .dotHashL c kvs, d => .dotHashL (c.comp d) kvs
  | .dotHashE l pre k c post, d => .dotHashE l pre k (c.comp d) post
  | .dotStarListL c, d => .dotStarListL (c.comp d)
  | .indexL c n, d => .indexL (c.comp d) n
  | .callA name pre c post, d => .callA name pre (c.comp d) post
  | .ref c, d => .ref (c.comp d)
  | .letB pre k c post body, d => .letB pre k (c.comp d) post body
  | .letBody bs c, d => .letBody bs (c.comp d)
  | .multiListE pre c post, d => .multiListE pre (c.comp d) post
  | .multiHashE pre k c post, d => .multiHashE pre k (c.comp d) post
  | .starL c rhs, d => .starL (c.comp d) rhs
  | .starR l c, d => .starR l (c.comp d)
  | .ostarL c rhs, d => .ostarL (c.comp d) rhs
  | .ostarR l c, d => .ostarR l (c.comp d)
  | .flatL c rhs, d => .flatL (c.comp d) rhs
  | .flatR l c, d => .flatR l (c.comp d)
  | .filtL c cond rhs, d => .filtL (c.comp d) cond rhs
  | .filtC l c rhs, d => .filtC l (c.comp d) rhs
  | .filtR l cond c, d => .filtR l cond (c.comp d)
  | .sliceL c a b cc rhs, d => .sliceL (c.comp d) a b cc rhs
  | .sliceR l a b cc c, d => .sliceR l a b cc (c.comp d)

/-- filling a composed context is filling twice -/
theorem Ctx.fill_comp (C D : Ctx) (s : PTree) : (C.comp D).fill s = C.fill (D.fill s) := by
  induction C <;> simp only [Ctx.comp, Ctx.fill, *]

/-- a filled context is the implicit current node only if it is the bare hole filled with it -/
theorem Ctx.fill_not_icur (C : Ctx) {s : PTree} (hs : s.isIcur = false) : (C.fill s).isIcur = false := by
  cases C <;> first | exact hs | rfl

section PrintExamples
open Grammar.Ex

/-- `(□)` filled with `a.b` prints `( a . b )` -/
example : Grammar.flatten ((Ctx.paren .hole).fill (.dotId (idt "a") (idt "b")))
    = [tLParen, ⟨.unquotedIdentifier, bs "a"⟩, tDot, ⟨.unquotedIdentifier, bs "b"⟩, tRParen] := by decide
/-- `c | □` filled with `a.b` prints `c | a . b` -/
example : Grammar.flatten ((Ctx.binR (op .pipe "|") (idt "c") .hole).fill (.dotId (idt "a") (idt "b")))
    = [⟨.unquotedIdentifier, bs "c"⟩, op .pipe "|", ⟨.unquotedIdentifier, bs "a"⟩, tDot, ⟨.unquotedIdentifier, bs "b"⟩] := by
  decide
/-- `[c, □]` filled with `a.b` prints `[ c , a . b ]` -/
example : Grammar.flatten ((Ctx.multiListE [idt "c"] .hole []).fill (.dotId (idt "a") (idt "b")))
    = [tLBracket, ⟨.unquotedIdentifier, bs "c"⟩, tComma, ⟨.unquotedIdentifier, bs "a"⟩, tDot,
       ⟨.unquotedIdentifier, bs "b"⟩, tRBracket] := by decide
/-- `length(□)` filled with `a.b` prints `length ( a . b )` -/
example : Grammar.flatten ((Ctx.callA ⟨.unquotedIdentifier, bs "length"⟩ [] .hole []).fill (.dotId (idt "a") (idt "b")))
    = [⟨.unquotedIdentifier, bs "length"⟩, tLParen, ⟨.unquotedIdentifier, bs "a"⟩, tDot, ⟨.unquotedIdentifier, bs "b"⟩,
       tRParen] := by decide
/-- a hole in right-hand-side position: `foo[*]□` filled with `.bar` prints `foo [*] . bar` -/
example : Grammar.flatten ((Ctx.starR (idt "foo") .hole).fill (.dotId .icur (idt "bar")))
    = [⟨.unquotedIdentifier, bs "foo"⟩, tArrayStar, tDot, ⟨.unquotedIdentifier, bs "bar"⟩] := by decide
/-- contexts compose: `[c, (□)]` -/
example : ((Ctx.multiListE [idt "c"] .hole []).comp (.paren .hole)).fill (idt "a") = .multiList [idt "c", .paren (idt "a")] :=
  rfl
end PrintExamples

/-! ## 2. The node builders of the grammar respect every congruence -/

/-- optional children related: both absent, or both present and related -/
def ORel (R : INode → INode → Prop) : Option INode → Option INode → Prop
  | none, none => True
  | some a, some b => R a b
  | _, _ => False

section Builders
variable {R : INode → INode → Prop} (hR : Cong R)
include hR

/-- an optional child is related to itself -/
theorem orel_refl (o : Option INode) : ORel R o o := by
  cases o
  · exact True.intro
  · exact hR.refl _

omit hR in
/-- the optional child of a tree that is not the implicit current node is present -/
theorem orel_opt {t1 t2 : PTree} (h1 : t1.isIcur = false) (h2 : t2.isIcur = false) {n1 n2 : INode} (h : R n1 n2) :
    ORel R (optNode t1 n1) (optNode t2 n2) := by
  rw [GrammarF0.optNode_of_ne h1, GrammarF0.optNode_of_ne h2]
  exact h

/-- related optional right-hand sides, defaulting to the current node -/
theorem orel_getD {o1 o2 : Option INode} (h : ORel R o1 o2) : R (o1.getD .current) (o2.getD .current) := by
  cases o1 <;> cases o2 <;> first | exact hR.refl _ | exact h | exact False.elim h

/-- every binary operator token, and the token types that are not operators (the node is then the left operand) -/
theorem binNode_cong (ty : TokenType) {l1 l2 r1 r2 : INode} (hl : R l1 l2) (hr : R r1 r2) :
    R (binNode ty l1 r1) (binNode ty l2 r2) := by
  cases ty <;> first
    | exact hl
    | exact hR.pipe hl hr
    | exact hR.or hl hr
    | exact hR.and hl hr
    | exact hR.binop _ hl hr

/-- `l.r`: the pipe, or the bare right operand when the left one is the implicit current node -/
theorem subNode_cong {o1 o2 : Option INode} (ho : ORel R o1 o2) {r1 r2 : INode} (hr : R r1 r2) :
    R (subNode o1 r1) (subNode o2 r2) := by
  cases o1 <;> cases o2 <;> first | exact hr | exact hR.pipe ho hr | exact False.elim ho

/-- multi-select lists: the one-member and the general form, with or without a left operand (related member lists have the same length, so both sides take the same form) -/
theorem listNode_cong {o1 o2 : Option INode} (ho : ORel R o1 o2) {fs1 fs2 : List INode} (h : Forall₂ R fs1 fs2) :
    R (listNode o1 fs1) (listNode o2 fs2) := by
  cases h with
  | nil =>
    cases o1 <;> cases o2 <;> first
      | exact False.elim ho
      | exact hR.selectArrayCurrent .nil
      | exact hR.selectArray ho .nil
  | cons hx ht =>
    cases ht with
    | nil =>
      cases o1 <;> cases o2 <;> first
        | exact False.elim ho
        | exact hR.selectArraySingleCurrent hx
        | exact hR.selectArraySingle ho hx
    | cons hy ht =>
      cases o1 <;> cases o2 <;> first
        | exact False.elim ho
        | exact hR.selectArrayCurrent (.cons hx (.cons hy ht))
        | exact hR.selectArray ho (.cons hx (.cons hy ht))

omit hR in
/-- the parser's insertion into a key-sorted member list takes the same branches on key-wise related lists -/
theorem assocInsert_cong (k : Bytes) {v1 v2 : INode} (hv : R v1 v2) {a1 a2 : List (Bytes × INode)}
    (h : Forall₂ (FRel R) a1 a2) : Forall₂ (FRel R) (Parser.assocInsert k v1 a1) (Parser.assocInsert k v2 a2) := by
  induction h with
  | nil => exact .cons ⟨rfl, hv⟩ .nil
  | @cons p q _ _ hx ht ih =>
    obtain ⟨k1, n1⟩ := p
    obtain ⟨k2, n2⟩ := q
    obtain ⟨hk, hn⟩ := hx
    simp only at hk hn
    subst hk
    simp only [Parser.assocInsert]
    by_cases h1 : k = k1
    · simp only [if_pos h1]
      exact .cons ⟨rfl, hv⟩ ht
    · simp only [if_neg h1]
      by_cases h2 : bytesLt k k1 = true
      · simp only [if_pos h2]
        exact .cons ⟨rfl, hv⟩ (.cons ⟨rfl, hn⟩ ht)
      · simp only [if_neg h2]
        exact .cons ⟨rfl, hn⟩ ih

omit hR in
/-- the fold of `assocInsert` over related member lists, from related accumulators -/
theorem assocFold_cong {ps1 ps2 : List (Bytes × INode)} (h : Forall₂ (FRel R) ps1 ps2) :
    ∀ {a1 a2 : List (Bytes × INode)}, Forall₂ (FRel R) a1 a2 →
      Forall₂ (FRel R) (ps1.foldl (fun acc p => Parser.assocInsert p.1 p.2 acc) a1)
        (ps2.foldl (fun acc p => Parser.assocInsert p.1 p.2 acc) a2) := by
  induction h with
  | nil => exact fun ha => ha
  | @cons p q _ _ hx _ ih =>
    intro a1 a2 ha
    simp only [List.foldl_cons]
    obtain ⟨hk, hn⟩ := hx
    rw [hk]
    exact ih (assocInsert_cong _ hn ha)

omit hR in
/-- the member list as the parser accumulates it (sorted by key, a repeated key keeps its last expression) -/
theorem assocOf_cong {ps1 ps2 : List (Bytes × INode)} (h : Forall₂ (FRel R) ps1 ps2) :
    Forall₂ (FRel R) (assocOf ps1) (assocOf ps2) := assocFold_cong h .nil

/-- multi-select hashes: the one-member and the general form, with or without a left operand -/
theorem hashNode_cong {o1 o2 : Option INode} (ho : ORel R o1 o2) {ps1 ps2 : List (Bytes × INode)}
    (h : Forall₂ (FRel R) ps1 ps2) : R (hashNode o1 ps1) (hashNode o2 ps2) := by
  cases h with
  | nil =>
    cases o1 <;> cases o2 <;> first
      | exact False.elim ho
      | exact hR.selectObjectCurrent (assocOf_cong .nil)
      | exact hR.selectObject ho (assocOf_cong .nil)
  | @cons p q _ _ hx ht =>
    obtain ⟨k1, n1⟩ := p
    obtain ⟨k2, n2⟩ := q
    cases ht with
    | nil =>
      obtain ⟨hk, hn⟩ := hx
      simp only at hk hn
      subst hk
      cases o1 <;> cases o2 <;> first
        | exact False.elim ho
        | exact hR.selectObjectSingleCurrent _ hn
        | exact hR.selectObjectSingle _ ho hn
    | cons hy ht =>
      cases o1 <;> cases o2 <;> first
        | exact False.elim ho
        | exact hR.selectObjectCurrent (assocOf_cong (.cons hx (.cons hy ht)))
        | exact hR.selectObject ho (assocOf_cong (.cons hx (.cons hy ht)))

/-- `l[n]` -/
theorem indexNode_cong {o1 o2 : Option INode} (ho : ORel R o1 o2) (i : Int) : R (indexNode o1 i) (indexNode o2 i) := by
  cases o1 <;> cases o2 <;> first | exact False.elim ho | exact hR.refl _ | exact hR.index i ho

/-- `l[a:b:c]`: the four slice node forms -/
theorem sliceNode_cong {o1 o2 : Option INode} (ho : ORel R o1 o2) (a b c : Option Int) :
    R (sliceNode o1 a b c) (sliceNode o2 a b c) := by
  simp only [sliceNode]
  split <;> cases o1 <;> cases o2 <;> first
    | exact False.elim ho
    | exact hR.refl _
    | exact hR.slice _ _ ho
    | exact hR.sliceStep _ _ _ ho

omit hR in
/-- the node of a slice is a slice node -/
theorem sliceNode_isSlice (o : Option INode) (a b c : Option Int) : (sliceNode o a b c).isSlice = true := by
  simp only [sliceNode]
  split <;> cases o <;> rfl

/-- `l[*] r`: the left operands must both be slice nodes or both not -/
theorem starNode_cong {l1 l2 r1 r2 : Option INode} (hl : ORel R l1 l2)
    (hs : ∀ a b, l1 = some a → l2 = some b → a.isSlice = b.isSlice) (hr : ORel R r1 r2) :
    R (starNode l1 r1) (starNode l2 r2) := by
  cases l1 <;> cases l2 <;> cases r1 <;> cases r2 <;> first
    | exact False.elim hl
    | exact False.elim hr
    | exact hR.refl _
    | exact hR.projectArrayCurrent hr
    | exact hR.pruneArray hl
    | exact hR.projectArray hl (hs _ _ rfl rfl) hr

/-- `l.* r` -/
theorem ostarNode_cong {l1 l2 r1 r2 : Option INode} (hl : ORel R l1 l2) (hr : ORel R r1 r2) :
    R (ostarNode l1 r1) (ostarNode l2 r2) := by
  cases l1 <;> cases l2 <;> cases r1 <;> cases r2 <;> first
    | exact False.elim hl
    | exact False.elim hr
    | exact hR.refl _
    | exact hR.projectObjectCurrent hr
    | exact hR.objectValues hl
    | exact hR.projectObject hl hr

/-- `l[] r` -/
theorem flatNode_cong {l1 l2 r1 r2 : Option INode} (hl : ORel R l1 l2) (hr : ORel R r1 r2) :
    R (flatNode l1 r1) (flatNode l2 r2) := by
  cases l1 <;> cases l2 <;> cases r1 <;> cases r2 <;> first
    | exact False.elim hl
    | exact False.elim hr
    | exact hR.refl _
    | exact hR.flattenAndProjectCurrent hr
    | exact hR.flatten hl
    | exact hR.flattenAndProject hl hr

/-- `l[?f] r` -/
theorem filtNode_cong {l1 l2 r1 r2 : Option INode} (hl : ORel R l1 l2) {f1 f2 : INode} (hf : R f1 f2)
    (hr : ORel R r1 r2) : R (filtNode l1 f1 r1) (filtNode l2 f2 r2) := by
  cases l1 <;> cases l2 <;> cases r1 <;> cases r2 <;> first
    | exact False.elim hl
    | exact False.elim hr
    | exact hR.filterCurrent hf
    | exact hR.filterAndProjectCurrent hf hr
    | exact hR.filter hl hf
    | exact hR.filterAndProject hl hf hr

/-! ### builtin calls -/

omit hR in
/-- the way a builtin builds its node respects `R` -/
def SpecCong (R : INode → INode → Prop) : Parser.ArgSpec → Prop
  | .fixed _ _ mk => ∀ ns1 ns2, Forall₂ R ns1 ns2 → R (mk ns1) (mk ns2)
  | .varArg mk => ∀ ns1 ns2, Forall₂ R ns1 ns2 → R (mk ns1) (mk ns2)
  | .expArg mk => ∀ a1 a2 e1 e2, R a1 a2 → R e1 e2 → R (mk a1 e1) (mk a2 e2)
  | .mapArg mk => ∀ e1 e2 a1 a2, R e1 e2 → R a1 a2 → R (mk e1 a1) (mk e2 a2)

/-- every row of the builtin table does (the arity-dependent rows pick the node type by the NUMBER of arguments,
    which related lists share) -/
theorem builtin_cong : ∀ e ∈ Parser.builtinTable, SpecCong R e.2 := by
  simp only [Parser.builtinTable, List.forall_mem_cons]
  repeat' apply And.intro
  all_goals first
    | (intro ns1 ns2 h; exact hR.call _ h)
    | (intro ns1 ns2 h; exact hR.merge h)
    | (intro ns1 ns2 h; exact hR.notNull h)
    | (intro ns1 ns2 h; exact hR.zip h)
    | (intro a1 a2 e1 e2 ha he; exact hR.groupBy ha he)
    | (intro a1 a2 e1 e2 ha he; exact hR.maxBy ha he)
    | (intro a1 a2 e1 e2 ha he; exact hR.minBy ha he)
    | (intro a1 a2 e1 e2 ha he; exact hR.sortBy ha he)
    | (intro e1 e2 a1 a2 he ha; exact hR.map he ha)
    | (intro ns1 ns2 h
       have hl := h.length_eq
       dsimp only
       rw [hl]
       split <;> exact hR.call _ h)
    | (intro x hx; cases hx)

/-- hence every builtin that `lookupBuiltin` finds does -/
theorem lookupBuiltin_cong {name : Bytes} {spec : Parser.ArgSpec} (h : Parser.lookupBuiltin name = some spec) :
    SpecCong R spec := by
  simp only [Parser.lookupBuiltin, Option.map_eq_some_iff] at h
  obtain ⟨e, he, rfl⟩ := h
  exact builtin_cong hR e (List.mem_of_find?_eq_some he)

omit hR in
/-- the node of a call (needs only `R .current .current` besides the table fact) -/
theorem callNode_cong' (hcur : R .current .current) {spec : Parser.ArgSpec} (hs : SpecCong R spec) {ns1 ns2 : List INode}
    (h : Forall₂ R ns1 ns2) : R (callNode spec ns1) (callNode spec ns2) := by
  cases spec with
  | fixed mn mx mk => exact hs _ _ h
  | varArg mk => exact hs _ _ h
  | expArg mk =>
    cases h with
    | nil => exact hcur
    | cons hx ht =>
      cases ht with
      | nil => exact hcur
      | cons hy ht =>
        cases ht with
        | nil => exact hs _ _ _ _ hx hy
        | cons _ _ => exact hcur
  | mapArg mk =>
    cases h with
    | nil => exact hcur
    | cons hx ht =>
      cases ht with
      | nil => exact hcur
      | cons hy ht =>
        cases ht with
        | nil => exact hs _ _ _ _ hx hy
        | cons _ _ => exact hcur

/-- the node of a call respects `R` on related argument lists -/
theorem callNode_cong {spec : Parser.ArgSpec} (hs : SpecCong R spec) {ns1 ns2 : List INode} (h : Forall₂ R ns1 ns2) :
    R (callNode spec ns1) (callNode spec ns2) := callNode_cong' (hR.refl _) hs h

/-! ### lists of trees with one member replaced -/

theorem eraseL_fill (pre post : List PTree) {t1 t2 : PTree} (h : R (erase t1) (erase t2)) :
    Forall₂ R (eraseL (pre ++ t1 :: post)) (eraseL (pre ++ t2 :: post)) := by
  induction pre with
  | nil =>
    simp only [List.nil_append, eraseL]
    exact .cons h (forall₂_refl hR.refl _)
  | cons e es ih =>
    simp only [List.cons_append, eraseL]
    exact .cons (hR.refl _) ih

/-- a member list with one expression replaced by a tree with a related node (same key) -/
theorem eraseKVs_fill (key : Token → Bytes) (pre post : List (Token × PTree)) (k : Token) {t1 t2 : PTree}
    (h : R (erase t1) (erase t2)) :
    Forall₂ (FRel R) (eraseKVs key (pre ++ (k, t1) :: post)) (eraseKVs key (pre ++ (k, t2) :: post)) := by
  induction pre with
  | nil =>
    simp only [List.nil_append, eraseKVs]
    exact .cons ⟨rfl, h⟩ (forall₂_refl hR.frel_refl _)
  | cons e es ih =>
    obtain ⟨k', e'⟩ := e
    simp only [List.cons_append, eraseKVs]
    exact .cons ⟨rfl, hR.refl _⟩ ih

end Builders

/-- the left operand of a projection is never a bare slice node -/
theorem optNode_not_slice {l : PTree} {a : INode} (h : optNode l (erase l) = some a) : a.isSlice = false := by
  simp only [optNode] at h
  split at h
  · cases h
  · cases h; exact C17B.erase_not_slice l

/-! ## 3. Closure under contexts, node level -/

/-- **context closure for a congruence**: if the nodes of `s1` and `s2` are related by a congruence `R`, so are the
    nodes of `C[s1]` and `C[s2]`, for every one-hole context `C` (neither tree being the implicit current node) -/
theorem erase_fill_cong {R : INode → INode → Prop} (hR : Cong R) (C : Ctx) {s1 s2 : PTree} (hi1 : s1.isIcur = false)
    (hi2 : s2.isIcur = false) (h : R (erase s1) (erase s2)) : R (erase (C.fill s1)) (erase (C.fill s2)) := by
  induction C with
  | hole => exact h
  | paren c ih => simpa only [Ctx.fill, erase] using ih
  | not c ih => simp only [Ctx.fill, erase]; exact hR.not ih
  | neg tok c ih => simp only [Ctx.fill, erase]; exact hR.negate ih
  | pos c ih => simp only [Ctx.fill, erase]; exact hR.assertNumber ih
  | binL op c r ih => simp only [Ctx.fill, erase]; exact binNode_cong hR _ ih (hR.refl _)
  | binR op l c ih => simp only [Ctx.fill, erase]; exact binNode_cong hR _ (hR.refl _) ih
  | dotIdL c r ih =>
    simp only [Ctx.fill, erase]
    exact subNode_cong hR (orel_opt (c.fill_not_icur hi1) (c.fill_not_icur hi2) ih) (hR.refl _)
  | dotIdR l c ih => simp only [Ctx.fill, erase]; exact subNode_cong hR (orel_refl hR _) ih
  | dotListL c es ih =>
    simp only [Ctx.fill, erase]
    exact listNode_cong hR (orel_opt (c.fill_not_icur hi1) (c.fill_not_icur hi2) ih) (forall₂_refl hR.refl _)
  | dotListE l pre c post ih =>
    simp only [Ctx.fill, erase]
    exact listNode_cong hR (orel_refl hR _) (eraseL_fill hR pre post ih)
  | dotHashL c kvs ih =>
    simp only [Ctx.fill, erase]
    exact hashNode_cong hR (orel_opt (c.fill_not_icur hi1) (c.fill_not_icur hi2) ih) (forall₂_refl hR.frel_refl _)
  | dotHashE l pre k c post ih =>
    simp only [Ctx.fill, erase]
    exact hashNode_cong hR (orel_refl hR _) (eraseKVs_fill hR _ pre post k ih)
  | dotStarListL c ih =>
    simp only [Ctx.fill, erase]
    exact listNode_cong hR (orel_opt (c.fill_not_icur hi1) (c.fill_not_icur hi2) ih) (forall₂_refl hR.refl _)
  | indexL c n ih =>
    simp only [Ctx.fill, erase]
    exact indexNode_cong hR (orel_opt (c.fill_not_icur hi1) (c.fill_not_icur hi2) ih) _
  | callA name pre c post ih =>
    simp only [Ctx.fill, erase]
    cases hlk : Parser.lookupBuiltin name.value with
    | none => exact hR.refl _
    | some spec => exact callNode_cong hR (lookupBuiltin_cong hR hlk) (eraseL_fill hR pre post ih)
  | ref c ih => simpa only [Ctx.fill, erase] using ih
  | letB pre k c post body ih =>
    simp only [Ctx.fill, erase]
    exact hR.defineVariables (assocOf_cong (eraseKVs_fill hR _ pre post k ih)) (hR.refl _)
  | letBody bs c ih =>
    simp only [Ctx.fill, erase]
    exact hR.defineVariables (forall₂_refl hR.frel_refl _) ih
  | multiListE pre c post ih =>
    simp only [Ctx.fill, erase]
    exact listNode_cong hR (orel_refl hR none) (eraseL_fill hR pre post ih)
  | multiHashE pre k c post ih =>
    simp only [Ctx.fill, erase]
    exact hashNode_cong hR (orel_refl hR none) (eraseKVs_fill hR _ pre post k ih)
  | starL c rhs ih =>
    simp only [Ctx.fill, erase]
    exact starNode_cong hR (orel_opt (c.fill_not_icur hi1) (c.fill_not_icur hi2) ih)
      (fun a b ha hb => by rw [optNode_not_slice ha, optNode_not_slice hb]) (orel_refl hR _)
  | starR l c ih =>
    simp only [Ctx.fill, erase]
    exact starNode_cong hR (orel_refl hR _) (fun a b ha hb => by rw [optNode_not_slice ha, optNode_not_slice hb])
      (orel_opt (c.fill_not_icur hi1) (c.fill_not_icur hi2) ih)
  | ostarL c rhs ih =>
    simp only [Ctx.fill, erase]
    exact ostarNode_cong hR (orel_opt (c.fill_not_icur hi1) (c.fill_not_icur hi2) ih) (orel_refl hR _)
  | ostarR l c ih =>
    simp only [Ctx.fill, erase]
    exact ostarNode_cong hR (orel_refl hR _) (orel_opt (c.fill_not_icur hi1) (c.fill_not_icur hi2) ih)
  | flatL c rhs ih =>
    simp only [Ctx.fill, erase]
    exact flatNode_cong hR (orel_opt (c.fill_not_icur hi1) (c.fill_not_icur hi2) ih) (orel_refl hR _)
  | flatR l c ih =>
    simp only [Ctx.fill, erase]
    exact flatNode_cong hR (orel_refl hR _) (orel_opt (c.fill_not_icur hi1) (c.fill_not_icur hi2) ih)
  | filtL c cond rhs ih =>
    simp only [Ctx.fill, erase]
    exact filtNode_cong hR (orel_opt (c.fill_not_icur hi1) (c.fill_not_icur hi2) ih) (hR.refl _) (orel_refl hR _)
  | filtC l c rhs ih =>
    simp only [Ctx.fill, erase]
    exact filtNode_cong hR (orel_refl hR _) ih (orel_refl hR _)
  | filtR l cond c ih =>
    simp only [Ctx.fill, erase]
    exact filtNode_cong hR (orel_refl hR _) (hR.refl _) (orel_opt (c.fill_not_icur hi1) (c.fill_not_icur hi2) ih)
  | sliceL c a b cc rhs ih =>
    simp only [Ctx.fill, erase]
    exact hR.projectArray (sliceNode_cong hR (orel_opt (c.fill_not_icur hi1) (c.fill_not_icur hi2) ih) _ _ _)
      (by rw [sliceNode_isSlice, sliceNode_isSlice]) (hR.refl _)
  | sliceR l a b cc c ih =>
    simp only [Ctx.fill, erase]
    exact hR.projectArray (hR.refl _) rfl
      (orel_getD hR (orel_opt (c.fill_not_icur hi1) (c.fill_not_icur hi2) ih))

/-- **context closure, equal evaluation**: if `s1` and `s2` evaluate to the same outcome on every current value and
    environment, so do `C[s1]` and `C[s2]` -/
theorem erase_fill_eq {root : Val} (C : Ctx) {s1 s2 : PTree} (hi1 : s1.isIcur = false) (hi2 : s2.isIcur = false)
    (h : NEq root (erase s1) (erase s2)) : NEq root (erase (C.fill s1)) (erase (C.fill s2)) :=
  erase_fill_cong (NEq.cong root) C hi1 hi2 h

/-- **context closure, agreeing evaluation**: if `s1` and `s2` evaluate to agreeing outcomes (the same value, or
    both fail) on every current value and environment, so do `C[s1]` and `C[s2]` -/
theorem erase_fill_agree {root : Val} (C : Ctx) {s1 s2 : PTree} (hi1 : s1.isIcur = false) (hi2 : s2.isIcur = false)
    (h : NAgree root (erase s1) (erase s2)) : NAgree root (erase (C.fill s1)) (erase (C.fill s2)) :=
  erase_fill_cong (NAgree.cong root) C hi1 hi2 h

/-! ## 4. Closure under contexts, on expression text -/

/-- what the parser returns for the text of a filled context -/
theorem parse_fill (C : Ctx) {s : PTree} (h : WellPrec (C.fill s)) {e : Bytes}
    (hl : C17B.Lexes e (Grammar.flatten (C.fill s))) : Parser.parse e = .ok (erase (C.fill s)) :=
  (C17B.text h hl).1

/-- **context closure on text** (agreeing evaluation).  `e1` is the text of `C[s1]`, `e2` the text of `C[s2]`, both
    well-formed; the sub-expressions `s1`, `s2` are not the implicit current node and evaluate, on the document `d` as
    root, to agreeing outcomes for every current value and every environment.  Then `search e1 d` and `search e2 d`
    agree: the same value, or both fail.  The hole may be anywhere: an operand, a member of a multi-select, an argument
    (also behind `&`), a binding or the body of a `let`, a filter condition, the right-hand side of a projection. -/
theorem context_closure_text (C : Ctx) {s1 s2 : PTree} (h1 : WellPrec (C.fill s1)) (h2 : WellPrec (C.fill s2))
    (hi1 : s1.isIcur = false) (hi2 : s2.isIcur = false) {e1 e2 : Bytes}
    (hl1 : C17B.Lexes e1 (Grammar.flatten (C.fill s1))) (hl2 : C17B.Lexes e2 (Grammar.flatten (C.fill s2))) (d : Val)
    (h : NAgree d (erase s1) (erase s2)) : Agree (search e1 d) (search e2 d) := by
  rw [(C17B.text h1 hl1).2 d, (C17B.text h2 hl2).2 d]
  exact erase_fill_agree C hi1 hi2 h d []

/-- **context closure on text** (equal evaluation): … and when `s1`, `s2` evaluate to the same outcome everywhere,
    `search e1 d = search e2 d` (the same value, or the same failure with the same report) -/
theorem context_closure_text_eq (C : Ctx) {s1 s2 : PTree} (h1 : WellPrec (C.fill s1)) (h2 : WellPrec (C.fill s2))
    (hi1 : s1.isIcur = false) (hi2 : s2.isIcur = false) {e1 e2 : Bytes}
    (hl1 : C17B.Lexes e1 (Grammar.flatten (C.fill s1))) (hl2 : C17B.Lexes e2 (Grammar.flatten (C.fill s2))) (d : Val)
    (h : NEq d (erase s1) (erase s2)) : search e1 d = search e2 d := by
  rw [(C17B.text h1 hl1).2 d, (C17B.text h2 hl2).2 d]
  exact erase_fill_eq C hi1 hi2 h d []

/-- the same when the two sub-expressions build the SAME node (`a.b` and `a | b`): the two texts parse to the same
    node -/
theorem context_closure_parse (C : Ctx) {s1 s2 : PTree} (h1 : WellPrec (C.fill s1)) (h2 : WellPrec (C.fill s2))
    (hi1 : s1.isIcur = false) (hi2 : s2.isIcur = false) {e1 e2 : Bytes}
    (hl1 : C17B.Lexes e1 (Grammar.flatten (C.fill s1))) (hl2 : C17B.Lexes e2 (Grammar.flatten (C.fill s2)))
    (h : erase s1 = erase s2) : Parser.parse e1 = Parser.parse e2 := by
  rw [parse_fill C h1 hl1, parse_fill C h2 hl2]
  exact congrArg _ (erase_fill_cong eq_cong C hi1 hi2 h)

/-! ## 5. Examples -/

section Examples
open Grammar.Ex

/-- `a.b` -/
private def dotAB : PTree := .dotId (idt "a") (idt "b")
/-- `a | b` -/
private def pipeAB : PTree := .bin (op .pipe "|") (idt "a") (idt "b")
/-- `foo[*].bar.baz` -/
private def fused : PTree := .star (idt "foo") (.dotId (.dotId .icur (idt "bar")) (idt "baz"))
/-- `foo[*].bar | [*].baz` -/
private def split2 : PTree :=
  .bin (op .pipe "|") (.star (idt "foo") (.dotId .icur (idt "bar"))) (.star .icur (.dotId .icur (idt "baz")))

/-- the node identity behind `a.b` ≡ `a | b`: the same node -/
private theorem dot_pipe_same : erase dotAB = erase pipeAB := rfl
/-- the node identity behind `foo[*].bar.baz` ≡ `foo[*].bar | [*].baz`: agreeing evaluation, for every root -/
private theorem fused_split (root : Val) : NAgree root (erase fused) (erase split2) := fun cur env =>
  projection_then_selector_node root (.field (bs "foo")) (.field (bs "bar")) (.field (bs "baz")) cur env
    (C17B.selector_null (.field _) _ _) rfl

/-- the four contexts of the examples: `[c, □]`, `length(□)`, `(□) || c`, `let $v = □ in $v` -/
private def cList : Ctx := .multiListE [idt "c"] .hole []
private def cLength : Ctx := .callA ⟨.unquotedIdentifier, bs "length"⟩ [] .hole []
private def cOr : Ctx := .binL (op .or "||") (.paren .hole) (idt "c")
private def cLet : Ctx := .letB [] ⟨.variable, bs "$v"⟩ .hole [] (.atom ⟨.variable, bs "$v"⟩)

/-- `a.b` against `a | b` inside the four contexts: equal outcomes on every document (even the same parse) -/
example : ∀ d, search (bs "[c, a.b]") d = search (bs "[c, a | b]") d := fun d =>
  context_closure_text_eq cList (s1 := dotAB) (s2 := pipeAB) (by decide) (by decide) rfl rfl (by decide) (by decide) d
    (NEq.of_eq dot_pipe_same)
example : ∀ d, search (bs "length(a.b)") d = search (bs "length(a | b)") d := fun d =>
  context_closure_text_eq cLength (s1 := dotAB) (s2 := pipeAB) (by decide) (by decide) rfl rfl (by decide) (by decide) d
    (NEq.of_eq dot_pipe_same)
example : ∀ d, search (bs "(a.b) || c") d = search (bs "(a | b) || c") d := fun d =>
  context_closure_text_eq cOr (s1 := dotAB) (s2 := pipeAB) (by decide) (by decide) rfl rfl (by decide) (by decide) d
    (NEq.of_eq dot_pipe_same)
example : ∀ d, search (bs "let $v = a.b in $v") d = search (bs "let $v = a | b in $v") d := fun d =>
  context_closure_text_eq cLet (s1 := dotAB) (s2 := pipeAB) (by decide) (by decide) rfl rfl (by decide) (by decide) d
    (NEq.of_eq dot_pipe_same)
example : Parser.parse (bs "length(a.b)") = Parser.parse (bs "length(a | b)") :=
  context_closure_parse cLength (s1 := dotAB) (s2 := pipeAB) (by decide) (by decide) rfl rfl (by decide) (by decide)
    dot_pipe_same

/-- `foo[*].bar.baz` against `foo[*].bar | [*].baz` inside the four contexts: agreeing outcomes on every document -/
example : ∀ d, Agree (search (bs "[c, foo[*].bar.baz]") d) (search (bs "[c, foo[*].bar | [*].baz]") d) := fun d =>
  context_closure_text cList (s1 := fused) (s2 := split2) (by decide) (by decide) rfl rfl (by decide) (by decide) d
    (fused_split d)
example : ∀ d, Agree (search (bs "length(foo[*].bar.baz)") d) (search (bs "length(foo[*].bar | [*].baz)") d) := fun d =>
  context_closure_text cLength (s1 := fused) (s2 := split2) (by decide) (by decide) rfl rfl (by decide) (by decide) d
    (fused_split d)
example : ∀ d, Agree (search (bs "(foo[*].bar.baz) || c") d) (search (bs "(foo[*].bar | [*].baz) || c") d) := fun d =>
  context_closure_text cOr (s1 := fused) (s2 := split2) (by decide) (by decide) rfl rfl (by decide) (by decide) d
    (fused_split d)
example : ∀ d, Agree (search (bs "let $v = foo[*].bar.baz in $v") d) (search (bs "let $v = foo[*].bar | [*].baz in $v") d) :=
  fun d =>
  context_closure_text cLet (s1 := fused) (s2 := split2) (by decide) (by decide) rfl rfl (by decide) (by decide) d
    (fused_split d)

/-- a hole in RIGHT-HAND-SIDE position: `x[*]□` with the right-hand sides `.{k: a}.k` and `.a` (equal evaluation by
    `C17.hash_select_eq`); a right-hand side such as `.a | b` cannot be plugged in (`x[*].a | b` reads as `(x[*].a) | b`):
    `WellPrec` of the filled tree fails, as it must -/
example : ∀ d, search (bs "x[*].{k: a}.k") d = search (bs "x[*].a") d := fun d =>
  context_closure_text_eq (.starR (idt "x") .hole)
    (s1 := .dotId (.dotHash .icur [(⟨.unquotedIdentifier, bs "k"⟩, idt "a")]) (idt "k")) (s2 := .dotId .icur (idt "a"))
    (by decide) (by decide) rfl rfl (by decide) (by decide) d
    (fun cur env => hash_select_eq d (bs "k") (.field (bs "a")) cur env)
example : ¬ WellPrec ((Ctx.starR (idt "x") .hole).fill (.bin (op .pipe "|") (.dotId .icur (idt "a")) (idt "b"))) := by decide
/-- … and `[c, □]` inside a right-hand side -/
example : ∀ d, Agree (search (bs "x[*].[c, foo[*].bar.baz]") d) (search (bs "x[*].[c, foo[*].bar | [*].baz]") d) := fun d =>
  context_closure_text (.starR (idt "x") (.dotListE .icur [idt "c"] .hole [])) (s1 := fused) (s2 := split2)
    (by decide) (by decide) rfl rfl (by decide) (by decide) d (fused_split d)
/-- … a filter condition, an argument behind `&`, nested contexts -/
example : ∀ d, Agree (search (bs "x[?foo[*].bar.baz]") d) (search (bs "x[?foo[*].bar | [*].baz]") d) := fun d =>
  context_closure_text (.filtC (idt "x") .hole .icur) (s1 := fused) (s2 := split2)
    (by decide) (by decide) rfl rfl (by decide) (by decide) d (fused_split d)
example : ∀ d, Agree (search (bs "sort_by(x, &foo[*].bar.baz)") d) (search (bs "sort_by(x, &foo[*].bar | [*].baz)") d) :=
  fun d =>
  context_closure_text (.callA ⟨.unquotedIdentifier, bs "sort_by"⟩ [idt "x"] (.ref .hole) []) (s1 := fused) (s2 := split2)
    (by decide) (by decide) rfl rfl (by decide) (by decide) d (fused_split d)
example : ∀ d, Agree (search (bs "{k: [c, foo[*].bar.baz]}") d) (search (bs "{k: [c, foo[*].bar | [*].baz]}") d) := fun d =>
  context_closure_text ((Ctx.multiHashE [] ⟨.unquotedIdentifier, bs "k"⟩ .hole []).comp cList) (s1 := fused) (s2 := split2)
    (by decide) (by decide) rfl rfl (by decide) (by decide) d (fused_split d)

/-- the exclusion of `icur` is needed: `@` and the implicit current node denote the same node (`erase .icur = .current`),
    but `a[*]` followed by nothing is `pruneArray`, followed by `@`… is not even an expression; and with a node-level
    identity `NEq (erase .icur) (erase (.atom @))` the contexts `starR` would relate `.pruneArray a` and
    `.projectArray a .current`, which differ on a nil slice (`C17.fused_prune`) -/
example : erase .icur = erase (.atom ⟨.current, bs "@"⟩) ∧
    erase ((Ctx.starR (idt "a") .hole).fill .icur) = .pruneArray (.field (bs "a")) ∧
    erase ((Ctx.starR (idt "a") .hole).fill (.atom ⟨.current, bs "@"⟩)) = .projectArray (.field (bs "a")) .current ∧
    ¬ WellPrec ((Ctx.starR (idt "a") .hole).fill (.atom ⟨.current, bs "@"⟩)) := ⟨rfl, rfl, rfl, by decide⟩

/-- **the closure fails for a hole filled with `icur`**: `icur` and `@` have the same node, yet `a[*]` (hole of `starR` filled
    with `icur`) and the node of `a[*]` with right-hand side `@` do not even agree: on `{"a": nil-slice}` the first returns
    the nil slice itself, the second a fresh empty array -/
theorem fill_icur_not_closed :
    NEq .null (erase .icur) (erase (.atom ⟨.current, bs "@"⟩)) ∧
    ¬ NAgree .null (erase ((Ctx.starR (idt "a") .hole).fill .icur))
        (erase ((Ctx.starR (idt "a") .hole).fill (.atom ⟨.current, bs "@"⟩))) := by
  refine ⟨NEq.of_eq rfl, fun h => ?_⟩
  have h1 : ieval .null (erase ((Ctx.starR (idt "a") .hole).fill .icur)) (.obj [(bs "a", .arr .nil [])]) []
      = .ok (.arr .nil []) := rfl
  have h2 : ieval .null (erase ((Ctx.starR (idt "a") .hole).fill (.atom ⟨.current, bs "@"⟩)))
      (.obj [(bs "a", .arr .nil [])]) [] = .ok (.arr .plain []) := rfl
  have := h (.obj [(bs "a", .arr .nil [])]) []
  rw [h1, h2] at this
  rcases this with ⟨b, e1, e2⟩ | ⟨e1, _⟩
  · cases e1; cases e2
  · exact Bool.noConfusion e1

end Examples

end Jmes.C17C.Ctx
