/-
  C11 (third wave): the positional operations — `length`, `reverse`, `[a:b]`, `[a:b:c]` — relate the original run and
  the renamed run (`RR`, see `C11CLemmas`) on ARBITRARY values: on strings all positions are code point positions, so
  the renamed string (whose byte length differs) is cut at the same places.

  Stepped slices: the in-range lemma `Utf8.clampStep_inRange` asks, for `step = MinInt` (whose negation wraps), for a bound
  on the length of the string — which would not be an invariant of evaluation; `clampStep_inRange'` removes it (for a
  longer string the wrapped count is ≤ 0 and nothing is selected), so every non-zero Go `int` step is covered.
-/
import Jmes.Proofs.C11CArrLemmas
namespace Jmes.C11C
open Jmes Jmes.Utf8 Jmes.C11 Jmes.C11S Jmes.C11R Jmes.C11V Jmes.Invar

/-! ## `length`, `reverse` -/

theorem length_rr {f : Nat → Nat} (_hm : Mono f) {a : Val} (ha : RnV f a = true) :
    RRV f (length a) (length (renV f a)) := by
  cases a with
  | str s =>
    obtain ⟨cs, h1, h2, rfl, e⟩ := rn_cases (rn_str.mp ha)
    rw [renV_str, e, length_codepoints _ h1, length_codepoints _ h2, List.length_map]
    exact RRV.of_ok rfl (renV_num f _)
  | arr t xs => simp only [renV, length, renVL_length]; exact RRV.of_ok rfl (renV_num f _)
  | obj kvs => simp only [renV, length, renVF_length]; exact RRV.of_ok rfl (renV_num f _)
  | _ => simp only [renV, length]; exact RR.errType

theorem reverse_rr {f : Nat → Nat} (_hm : Mono f) {a : Val} (ha : RnV f a = true) :
    RRV f (reverse a) (reverse (renV f a)) := by
  cases a with
  | str s =>
    obtain ⟨cs, h1, h2, rfl, e⟩ := rn_cases (rn_str.mp ha)
    rw [renV_str, e, reverse_codepoints _ h1, reverse_codepoints _ h2]
    refine RRV.of_ok (rn_str.mpr (rnB_enc h1.reverse ?_)) ?_
    · rw [List.map_reverse]; exact h2.reverse
    · rw [renV_str, renB_encodeAll f _ h1.reverse, List.map_reverse]
  | arr t xs =>
    have h := rn_arr.mp ha
    simp only [renV, reverse]
    refine RRV.of_ok (rn_arr.mpr (rnVL_sub h fun y hy => List.mem_reverse.1 hy)) ?_
    rw [renV_arr, renVL_eq_map, renVL_eq_map, List.map_reverse]
  | _ => simp only [renV, reverse]; exact RR.errType

/-- length("θйμμο") = length("héllo") = 5, and reverse("θйμμο") = "ομμйθ" -/
example : RRV shift (length (.str (encodeAll hello))) (length (renV shift (.str (encodeAll hello)))) :=
  length_rr shift_mono (rn_str.mpr (rnB_enc hello_scalars hello'_scalars))

/-! ## `[a:b]` -/

theorem slice_rr {f : Nat → Nat} (_hm : Mono f) {v : Val} (hv : RnV f v = true) (a b : Int) :
    RRV f (slice v a b) (slice (renV f v) a b) := by
  cases v with
  | str s =>
    obtain ⟨cs, h1, h2, rfl, e⟩ := rn_cases (rn_str.mp hv)
    rw [renV_str, e, slice_string_codepoints _ h1, slice_string_codepoints _ h2]
    refine RRV.of_ok (rn_str.mpr (rnB_enc (subCodepoints_scalars cs h1 a b) ?_)) ?_
    · rw [← subCodepoints_map]; exact subCodepoints_scalars _ h2 a b
    · rw [renV_str, renB_encodeAll f _ (subCodepoints_scalars cs h1 a b), subCodepoints_map]
  | arr t xs =>
    have h := rn_arr.mp hv
    simp only [renV, slice, renVL_length, enum2_ren]
    cases clamp1 (↑xs.length) a b with
    | none => exact RRV.of_ok rfl (by simp only [renV, renVL])
    | some ab =>
      obtain ⟨a', b'⟩ := ab
      simp only
      split
      · exact RRV.of_ok rfl (by simp only [renV, renVL])
      · split
        · exact RR.nondet
        · refine RRV.of_ok (rn_arr.mpr (rnVL_sub h fun y hy => List.mem_of_mem_drop (List.mem_of_mem_take hy))) ?_
          rw [renV_arr, renVL_eq_map, renVL_eq_map, List.map_take, List.map_drop]
  | _ => simp only [renV, slice]; exact RRV.null

/-! ## `[a:b:c]` -/

theorem pickStep_ren (f : Nat → Nat) (xs : List Val) (step : Int) : ∀ (n : Nat) (start : Int),
    pickStep (renVL f xs) start step n = renVL f (pickStep xs start step n)
  | 0, _ => by simp only [pickStep, renVL]
  | n + 1, start => by simp only [pickStep, renVL]; rw [getD_renVL, pickStep_ren f xs step n]

theorem rnVL_pickStep {f : Nat → Nat} {xs : List Val} (h : RnVL f xs = true) (step : Int) : ∀ (n : Nat) (start : Int),
    RnVL f (pickStep xs start step n) = true
  | 0, _ => rfl
  | n + 1, start => rnVL_cons.mpr ⟨rn_getD h _, rnVL_pickStep h step n _⟩

/-- the count `clampStep` computes for `step = MinInt` when the span is at least 2^63 (only possible for a string of
    2^63 code points or more): the negated step wraps to `MinInt`, the truncated quotient is negative, nothing is selected -/
theorem count_min_big (c : Int) (hc : 2 ^ 63 ≤ c) :
    (if Int.tmod c (-2 ^ 63) > 0 then Int.tdiv c (-2 ^ 63) + 1 else Int.tdiv c (-2 ^ 63)) ≤ 0 := by
  have e : (2 : Int) ^ 63 * Int.tdiv c (2 ^ 63) + Int.tmod c (2 ^ 63) = c := Int.mul_tdiv_add_tmod c (2 ^ 63)
  have m0 : 0 ≤ Int.tmod c (2 ^ 63) := Int.tmod_nonneg _ (by omega)
  have m1 : Int.tmod c (2 ^ 63) < 2 ^ 63 := Int.tmod_lt_of_pos c (by omega)
  rw [Int.tdiv_neg, Int.tmod_neg]
  generalize Int.tdiv c (2 ^ 63) = q at *
  generalize Int.tmod c (2 ^ 63) = m at *
  split <;> omega

/-- `Utf8.clampStep_inRange` for `step = MinInt` WITHOUT a bound on the length -/
theorem clampStep_inRange_min (l start stop a n : Int) (hl : 0 ≤ l)
    (h : clampStep l start stop (-2 ^ 63) = some (a, n)) :
    0 ≤ a ∧ a < l ∧ ∀ i : Int, 0 ≤ i → i < n → 0 ≤ a + i * (-2 ^ 63) ∧ a + i * (-2 ^ 63) < l := by
  unfold clampStep at h
  have hpos : ¬ ((-2 ^ 63 : Int) > 0) := by decide
  simp only [hpos, if_false] at h
  rw [wrap64_min] at h
  split at h
  · cases h
  · rename_i a' ha'
    split at h
    · cases h
    · rename_i b' hb'
      split at h
      · cases h
      · rename_i hab
        injection h with h; injection h with h1 h2
        subst h1
        have fa : a' < l := by
          split at ha'
          · split at ha'
            · cases ha'
            · injection ha' with ha'; omega
          · split at ha' <;> (injection ha' with ha'; omega)
        have fb : -1 ≤ b' := by
          split at hb'
          · split at hb' <;> (injection hb' with hb'; omega)
          · split at hb'
            · cases hb'
            · injection hb' with hb'; omega
        refine ⟨by omega, fa, ?_⟩
        intro i hi0 hi
        rw [← h2] at hi
        by_cases hc : a' - b' < 2 ^ 63
        · rw [count_min (a' - b') (by omega) hc] at hi
          have : i = 0 := by omega
          subst this
          omega
        · have := count_min_big (a' - b') (by omega)
          omega

/-- in-range for every non-zero Go `int` step, whatever the length -/
theorem clampStep_inRange' (l start stop step a n : Int) (hl : 0 ≤ l) (hs : step ≠ 0) (hmin : -2 ^ 63 ≤ step)
    (h : clampStep l start stop step = some (a, n)) :
    0 ≤ a ∧ a < l ∧ ∀ i : Int, 0 ≤ i → i < n → 0 ≤ a + i * step ∧ a + i * step < l := by
  by_cases e : step = -2 ^ 63
  · subst e; exact clampStep_inRange_min l start stop a n hl h
  · exact clampStep_inRange l start stop step a n hl hs (Or.inl (by omega)) h

/-- `C11.stepCodepointsRaw_positions` for every non-zero Go `int` step and no bound on the length -/
theorem stepRaw_positions (cs : List Nat) (start stop step : Int) (hs : step ≠ 0) (hmin : -2 ^ 63 ≤ step) :
    stepCodepointsRaw cs start stop step = stepCodepoints cs start stop step := by
  unfold stepCodepointsRaw stepCodepoints
  cases hc : clampStep (↑cs.length) start stop step with
  | none => rfl
  | some an =>
    obtain ⟨a, n⟩ := an
    obtain ⟨ha0, hal, hr⟩ := clampStep_inRange' _ _ _ _ _ _ (by omega) hs hmin hc
    by_cases hpos : step > 0
    · simp only [hpos, if_true]
      apply List.map_congr_left
      intro i hi
      have e1 : ((i * step.toNat : Nat) : Int) = (i : Int) * step := by
        rw [Int.natCast_mul, Int.toNat_of_nonneg (by omega)]
      congr 1; omega
    · simp only [hpos, if_false]
      apply List.map_congr_left
      intro i hi
      have hi' : i < n.toNat := List.mem_range.1 hi
      obtain ⟨r0, r1⟩ := hr i (by omega) (by omega)
      have e1 : ((i * (-step).toNat : Nat) : Int) = -((i : Int) * step) := by
        rw [Int.natCast_mul, Int.toNat_of_nonneg (by omega), Int.mul_neg]
      rw [List.getD_eq_getElem?_getD, List.getD_eq_getElem?_getD, List.getElem?_reverse (by omega)]
      congr 2; omega

/-- `C11R.stepCodepoints_map` likewise -/
theorem stepCodepoints_map' (f : Nat → Nat) (cs : List Nat) (start stop step : Int) (hs : step ≠ 0)
    (hmin : -2 ^ 63 ≤ step) :
    stepCodepoints (cs.map f) start stop step = (stepCodepoints cs start stop step).map f := by
  unfold stepCodepoints
  rw [List.length_map]
  cases hc : clampStep (↑cs.length) start stop step with
  | none => rfl
  | some an =>
    obtain ⟨a, n⟩ := an
    obtain ⟨_, _, hr⟩ := clampStep_inRange' _ _ _ _ _ _ (by omega) hs hmin hc
    simp only [List.map_map]
    apply List.map_congr_left
    intro i hi
    have hi' : i < n.toNat := List.mem_range.1 hi
    obtain ⟨r0, r1⟩ := hr i (by omega) (by omega)
    have hlt : (a + (i : Int) * step).toNat < cs.length := by omega
    simp only [Function.comp]
    rw [List.getD_eq_getElem?_getD, List.getD_eq_getElem?_getD, List.getElem?_map,
      List.getElem?_eq_getElem hlt]
    rfl

theorem sliceStep_rr {f : Nat → Nat} (_hm : Mono f) {v : Val} (hv : RnV f v = true) (a b s : Int) (hs : s ≠ 0)
    (hmin : -2 ^ 63 ≤ s) : RRV f (sliceStep v a b s) (sliceStep (renV f v) a b s) := by
  cases v with
  | str str =>
    obtain ⟨cs, h1, h2, rfl, e⟩ := rn_cases (rn_str.mp hv)
    rw [renV_str, e, sliceStep_string_raw _ h1 a b s hs, sliceStep_string_raw _ h2 a b s hs,
      stepRaw_positions _ a b s hs hmin, stepRaw_positions _ a b s hs hmin]
    have s1 := stepCodepoints_scalars cs h1 a b s
    refine RRV.of_ok (rn_str.mpr (rnB_enc s1 ?_)) ?_
    · rw [← stepCodepoints_map' f cs a b s hs hmin]; exact stepCodepoints_scalars _ h2 a b s
    · rw [renV_str, renB_encodeAll f _ s1, stepCodepoints_map' f cs a b s hs hmin]
  | arr t xs =>
    have h := rn_arr.mp hv
    simp only [renV, sliceStep, renVL_length, enum2_ren]
    cases clampStep (↑xs.length) a b s with
    | none => exact RRV.of_ok rfl (by simp only [renV, renVL])
    | some an =>
      obtain ⟨a', n⟩ := an
      simp only
      split
      · exact RR.nondet
      · refine RRV.of_ok (rn_arr.mpr (rnVL_pickStep h s _ _)) ?_
        rw [renV_arr, pickStep_ren]
  | _ => simp only [renV, sliceStep]; exact RRV.null

/-- "θйμμο"[::-2] is the renamed "héllo"[::-2] -/
example : RRV shift (sliceStep (.str (encodeAll hello)) (2 ^ 63 - 1) (-2 ^ 63) (-2))
    (sliceStep (renV shift (.str (encodeAll hello))) (2 ^ 63 - 1) (-2 ^ 63) (-2)) :=
  sliceStep_rr shift_mono (rn_str.mpr (rnB_enc hello_scalars hello'_scalars)) _ _ _ (by decide) (by decide)

end Jmes.C11C
