/-
  Property C16, third part — SOUNDNESS of Go's JSON decoder (`Json.decode`, with `UseNumber`) with respect to the
  denotation relation of `C16CDefs.lean`:  `Den n t v → n ≤ 10000 → Json.decode t = some v`.
-/
import Jmes.Proofs.C16CDefs
namespace Jmes.C16C
open Jmes Jmes.Utf8 Jmes.Literals Jmes.C16 Jmes.C16BL Jmes.Lexical Jmes.JsonGrammar

/-! ## strings -/

/-- a `StrDen` writing that begins with `\u` begins with a complete `\uXXXX` escape -/
theorem StrDen.esc_u_inv {s w : Bytes} (h : StrDen s w) {t3 : Bytes} (hw : w = 0x5C :: 0x75 :: t3) :
    ∃ a b c d r rest, t3 = a :: b :: c :: d :: rest ∧ Json.hex4 [a, b, c, d] = some (r, []) := by
  cases h with
  | nil => cases hw
  | raw c h1 h2 h3 h4 h' =>
    exfalso
    by_cases hc : c < 0x80
    · rw [encodeRune_ascii c hc] at hw; simp at hw; omega
    · obtain ⟨x, y, hxy⟩ := List.exists_cons_of_ne_nil (encodeRune_ne_nil c)
      have := encodeRune_bytes_ge c (by omega) x (by rw [hxy]; simp)
      rw [hxy] at hw; simp at hw; omega
  | short e b he h' =>
    exfalso
    simp only [shortEsc, List.mem_cons, Prod.mk.injEq, List.not_mem_nil, or_false] at he
    simp at hw; omega
  | uni a b c d r hx hs h' => simp at hw; exact ⟨a, b, c, d, r, _, hw.symm, hx⟩
  | pair a b c d a' b' c' d' hi lo hx hx' g1 g2 g3 g4 h' => simp at hw; exact ⟨a, b, c, d, hi, _, hw.symm, hx⟩
  | lone a b c d r hx hs hn h' => simp at hw; exact ⟨a, b, c, d, r, _, hw.symm, hx⟩

/-- `encodeRune U+FFFD` -/
theorem encodeRune_runeError : encodeRune RuneError = [0xEF, 0xBF, 0xBD] := by decide

/-- **Go's JSON string decoder reads every `StrDen` writing as the string it denotes**, whatever follows the
    closing quote -/
theorem psb_strden {s w : Bytes} (h : StrDen s w) : ∀ (fuel : Nat) (acc rest : Bytes), w.length < fuel →
    Json.parseStringBody fuel (w ++ 0x22 :: rest) acc = some (acc ++ s, rest) := by
  induction h with
  | nil =>
    intro fuel acc rest hf
    match fuel, hf with
    | f + 1, _ => simp [psb_quote]
  | raw c h1 h2 h3 h4 _ ih =>
    intro fuel acc rest hf
    have hp := encodeRune_length_pos c
    simp only [List.length_append] at hf
    match fuel, hf with
    | f + 1, hf =>
      rw [List.append_assoc]
      by_cases hc : c < 0x80
      · rw [encodeRune_ascii c hc] at hf ⊢
        rw [List.cons_append, List.nil_append, psb_ascii f c h2 hc h3 h4, ih f _ _ (by simp at hf; omega)]; simp
      · rw [psb_rune f c h1 (by omega), ih f _ _ (by omega)]; simp
  | short e b he _ ih =>
    intro fuel acc rest hf
    simp only [List.length_cons] at hf
    match fuel, hf with
    | f + 1, hf => rw [List.cons_append, List.cons_append, psb_short f e b he, ih f _ _ (by omega)]; simp
  | uni a b c d r hx hs _ ih =>
    intro fuel acc rest hf
    simp only [List.length_cons] at hf
    match fuel, hf with
    | f + 1, hf =>
      simp only [List.cons_append]
      rw [psb_esc_u f _ _ acc r (hex4_ext hx _) hs, ih f _ _ (by omega)]; simp
  | pair a b c d a' b' c' d' hi lo hx hx' g1 g2 g3 g4 _ ih =>
    intro fuel acc rest hf
    simp only [List.length_cons] at hf
    match fuel, hf with
    | f + 1, hf =>
      simp only [List.cons_append]
      rw [psb_pair f _ _ _ acc hi lo (hex4_ext hx _) (by simp [Json.isSurrogate]; omega) (hex4_ext hx' _),
        utf16Decode_pair g1 g2 g3 g4, if_pos (by simp [RuneError]; omega), ih f _ _ (by omega)]; simp
  | @lone a b c d r s w hx hs hn hw ih =>
    intro fuel acc rest hf
    simp only [List.length_cons] at hf
    match fuel, hf with
    | f + 1, hf =>
      simp only [List.cons_append]
      have hcont := ih f (acc ++ encodeRune RuneError) rest (by omega)
      have hres : acc ++ encodeRune RuneError ++ s = acc ++ ([0xEF, 0xBF, 0xBD] ++ s) := by
        rw [encodeRune_runeError, List.append_assoc]
      by_cases hu : ∃ x, w ++ 0x22 :: rest = 0x5C :: 0x75 :: x
      · -- another `\u` escape follows: it does not complete a pair
        obtain ⟨x, hxe⟩ := hu
        obtain ⟨w', hw'⟩ : ∃ w', w = 0x5C :: 0x75 :: w' := by
          match w, hxe with
          | [], hxe => simp at hxe
          | [y], hxe => simp at hxe
          | y :: z :: w', hxe => simp at hxe; exact ⟨w', by rw [hxe.1, hxe.2.1]⟩
        obtain ⟨a', b', c', d', r2, rest', ht3, hx2⟩ := hw.esc_u_inv hw'
        subst ht3
        have hdec : Json.utf16Decode r r2 = RuneError := by
          unfold Json.utf16Decode
          rw [if_neg]
          intro ⟨_, q2, q3, q4⟩
          exact hn q2 a' b' c' d' r2 rest' hw' hx2 ⟨q3, q4⟩
        have e1 : w ++ 0x22 :: rest = 0x5C :: 0x75 :: (a' :: b' :: c' :: d' :: (rest' ++ 0x22 :: rest)) := by
          rw [hw']; rfl
        rw [e1] at hcont ⊢
        rw [psb_pair f _ _ _ acc r r2 (hex4_ext hx _) hs (hex4_ext hx2 _), hdec, if_neg (by simp), hcont]
        simp [encodeRune_runeError]
      · rw [psb_lone f _ _ acc r (hex4_ext hx _) hs (fun x hx' => hu ⟨x, hx'⟩), hcont]
        simp [encodeRune_runeError]

/-- the same, starting with nothing read -/
theorem psb_strden0 {s w : Bytes} (h : StrDen s w) (fuel : Nat) (rest : Bytes) (hf : w.length < fuel) :
    Json.parseStringBody fuel (w ++ 0x22 :: rest) [] = some (s, rest) := by
  simpa using psb_strden h fuel [] rest hf

/-- `"w"` as a value -/
theorem parseValue_strden {s w : Bytes} (h : StrDen s w) (f d : Nat) (rest : Bytes) :
    Json.parseValue (f + 1) d (0x22 :: (w ++ [0x22]) ++ rest) = some (.str s, rest) := by
  have e : 0x22 :: (w ++ [0x22]) ++ rest = 0x22 :: (w ++ 0x22 :: rest) := by simp
  rw [e, Literals.parseValue_string, psb_strden0 h _ rest (by simp; omega)]
  rfl

/-! ## objects -/

/-- looking a key up after inserting a member list (in text order, later members overwrite) into `acc` -/
theorem objLookup_foldl_insert (x : Bytes) : ∀ (ms acc : List (Bytes × Val)),
    objLookup x (ms.foldl (fun a kv => objInsert kv.1 kv.2 a) acc) =
      (match lastVal x ms with | some v => some v | none => objLookup x acc)
  | [], acc => rfl
  | (k, v) :: ms, acc => by
    simp only [List.foldl_cons, lastVal]
    rw [objLookup_foldl_insert x ms, objLookup_objInsert]
    cases lastVal x ms with
    | some y => rfl
    | none => by_cases e : x = k <;> simp [e]

/-- the last-wins map of a member list is unique, and it is what inserting the members one after the other into
    the empty map produces (this is what Go's decoder does) -/
theorem LastWins.eq_fold {ms obj : List (Bytes × Val)} (h : LastWins ms obj) :
    obj = ms.foldl (fun a kv => objInsert kv.1 kv.2 a) [] := by
  refine keySorted_ext h.1 (keySorted_foldInsert ms [] List.Pairwise.nil) ?_
  intro x
  rw [h.2 x, objLookup_foldl_insert]
  cases lastVal x ms <;> rfl

/-- inserting the members one after the other does produce the last-wins map -/
theorem LastWins.of_fold (ms : List (Bytes × Val)) :
    LastWins ms (ms.foldl (fun a kv => objInsert kv.1 kv.2 a) []) := by
  refine ⟨keySorted_foldInsert ms [] List.Pairwise.nil, fun x => ?_⟩
  rw [objLookup_foldl_insert]
  cases lastVal x ms <;> rfl

/-- `{"b":1,"a":2,"b":3}`: sorted, the second `b` wins -/
example : LastWins [([0x62], .bool false), ([0x61], .null), ([0x62], .bool true)]
    [([0x61], .null), ([0x62], .bool true)] := LastWins.of_fold _

/-! ## values -/

/-- a JSON value text is not empty -/
theorem Den.length_pos {n : Nat} {t : Bytes} {v : Val} (h : Den n t v) : 0 < t.length := by
  cases h with
  | num n t hn => obtain ⟨b, t', rfl, _⟩ := jnumber_head hn; simp
  | _ => simp

/-- a JSON value text starts with a byte that is neither white space nor a closing bracket -/
theorem Den.head {n : Nat} {t : Bytes} {v : Val} (h : Den n t v) :
    ∃ c t', t = c :: t' ∧ Json.isWs c = false ∧ c ≠ 0x5D ∧ c ≠ 0x7D := by
  cases h with
  | num n t hn =>
    obtain ⟨b, t', rfl, hb⟩ := jnumber_head hn
    refine ⟨b, t', rfl, ?_, ?_, ?_⟩
    · simp [Json.isWs]; omega
    all_goals omega
  | _ => exact ⟨_, _, rfl, by decide, by decide, by decide⟩

mutual
/-- Go's decoder on a value text that denotes `v`, followed by a delimiter -/
theorem pv_den : {n : Nat} → {t : Bytes} → {v : Val} → Den n t v → ∀ (f d : Nat) (rest : Bytes),
    2 * t.length + 1 ≤ f → d + n ≤ Json.maxDepth → Delim rest → Json.parseValue f d (t ++ rest) = some (v, rest)
  | _, _, _, .null n, f, d, rest, hf, _, _ => by
    obtain ⟨f', rfl⟩ : ∃ f', f = f' + 1 := ⟨f - 1, by omega⟩
    exact Literals.parseValue_null f' d rest
  | _, _, _, .tru n, f, d, rest, hf, _, _ => by
    obtain ⟨f', rfl⟩ : ∃ f', f = f' + 1 := ⟨f - 1, by omega⟩
    exact Literals.parseValue_true f' d rest
  | _, _, _, .fals n, f, d, rest, hf, _, _ => by
    obtain ⟨f', rfl⟩ : ∃ f', f = f' + 1 := ⟨f - 1, by omega⟩
    exact Literals.parseValue_false f' d rest
  | _, _, _, .num n t hn, f, d, rest, hf, _, hr => by
    obtain ⟨f', rfl⟩ : ∃ f', f = f' + 1 := ⟨f - 1, by omega⟩
    obtain ⟨b, t', rfl, hb⟩ := jnumber_head hn
    rw [List.cons_append, Literals.parseValue_number f' d b _ hb, ← List.cons_append,
      parseNumberTok_complete' hn hr.num]
    rfl
  | _, _, _, .str n s w hs, f, d, rest, hf, _, _ => by
    obtain ⟨f', rfl⟩ : ∃ f', f = f' + 1 := ⟨f - 1, by omega⟩
    exact parseValue_strden hs f' d rest
  | _, _, _, .arrE n w hw, f, d, rest, hf, hd, _ => by
    obtain ⟨f', rfl⟩ : ∃ f', f = f' + 1 := ⟨f - 1, by omega⟩
    rw [List.cons_append, JsonGrammar.parseValue_arr, if_neg (by omega), List.append_assoc]
    have : Json.skipWs (w ++ ([0x5D] ++ rest)) = 0x5D :: rest := skipWs_ws_cons hw 0x5D rest (by decide)
    rw [this]; rfl
  | _, _, _, .arr n es xs he, f, d, rest, hf, hd, _ => by
    obtain ⟨f', rfl⟩ : ∃ f', f = f' + 1 := ⟨f - 1, by omega⟩
    simp only [List.length_cons] at hf
    rw [List.cons_append, JsonGrammar.parseValue_arr, if_neg (by omega)]
    have hpe := pe_den he f' (d + 1) rest [] (by omega) (by omega)
    have hne : ∀ r, Json.skipWs (es ++ rest) ≠ 0x5D :: r := by
      intro r
      cases he with
      | last n w1 t w2 v hw1 hv hw2 =>
        obtain ⟨c, t', rfl, hc1, hc2, _⟩ := hv.head
        simp only [List.append_assoc, List.cons_append]
        rw [skipWs_ws_cons hw1 c _ hc1]
        intro h; simp at h; omega
      | cons n w1 t w2 q v vs hw1 hv hw2 hq =>
        obtain ⟨c, t', rfl, hc1, hc2, _⟩ := hv.head
        simp only [List.append_assoc, List.cons_append]
        rw [skipWs_ws_cons hw1 c _ hc1]
        intro h; simp at h; omega
    split
    · rename_i r heq; exact absurd heq (hne r)
    · rw [hpe]; simp
  | _, _, _, .objE n w hw, f, d, rest, hf, hd, _ => by
    obtain ⟨f', rfl⟩ : ∃ f', f = f' + 1 := ⟨f - 1, by omega⟩
    rw [List.cons_append, JsonGrammar.parseValue_obj, if_neg (by omega), List.append_assoc]
    have : Json.skipWs (w ++ ([0x7D] ++ rest)) = 0x7D :: rest := skipWs_ws_cons hw 0x7D rest (by decide)
    rw [this]; rfl
  | _, _, _, .obj n p ms kvs hm hl, f, d, rest, hf, hd, _ => by
    obtain ⟨f', rfl⟩ : ∃ f', f = f' + 1 := ⟨f - 1, by omega⟩
    simp only [List.length_cons] at hf
    rw [List.cons_append, JsonGrammar.parseValue_obj, if_neg (by omega)]
    have hpm := pm_den hm f' (d + 1) rest [] (by omega) (by omega)
    have hne : ∀ r, Json.skipWs (p ++ rest) ≠ 0x7D :: r := by
      intro r
      cases hm with
      | last n w1 kw w2 w3 t w4 k v hw1 hk hw2 hw3 hv hw4 =>
        simp only [List.append_assoc, List.cons_append]
        rw [skipWs_ws_cons hw1 0x22 _ (by decide)]
        intro h; simp at h
      | cons n w1 kw w2 w3 t w4 q k v ms' hw1 hk hw2 hw3 hv hw4 hq =>
        simp only [List.append_assoc, List.cons_append]
        rw [skipWs_ws_cons hw1 0x22 _ (by decide)]
        intro h; simp at h
    split
    · rename_i r heq; exact absurd heq (hne r)
    · rw [hpm, hl.eq_fold]; simp
/-- Go's decoder on the elements of an array -/
theorem pe_den : {n : Nat} → {p : Bytes} → {xs : List Val} → DenElems n p xs → ∀ (f d : Nat) (rest : Bytes)
    (acc : List Val), 2 * p.length ≤ f → d + n ≤ Json.maxDepth →
    Json.parseElems f d (p ++ rest) acc = some (acc ++ xs, rest)
  | _, _, _, .last n w1 t w2 v hw1 hv hw2, f, d, rest, acc, hf, hd => by
    simp only [List.length_append, List.length_cons, List.length_nil] at hf
    have hpos := hv.length_pos
    obtain ⟨g, rfl⟩ : ∃ g, f = g + 2 := ⟨f - 2, by omega⟩
    have hval := pv_den hv (g + 1) d (w2 ++ 0x5D :: rest) (by omega) hd
      (Delim.ws_append hw2 0x5D (Or.inr (Or.inl rfl)))
    have e : w1 ++ t ++ w2 ++ [0x5D] ++ rest = w1 ++ (t ++ (w2 ++ 0x5D :: rest)) := by simp
    rw [e]
    exact pe_last acc (by rw [parseValue_ws hw1]; exact hval) (skipWs_ws_cons hw2 0x5D rest (by decide))
  | _, _, _, .cons n w1 t w2 q v vs hw1 hv hw2 hq, f, d, rest, acc, hf, hd => by
    simp only [List.length_append, List.length_cons] at hf
    have hpos := hv.length_pos
    obtain ⟨g, rfl⟩ : ∃ g, f = g + 2 := ⟨f - 2, by omega⟩
    have hval := pv_den hv (g + 1) d (w2 ++ 0x2C :: (q ++ rest)) (by omega) hd
      (Delim.ws_append hw2 0x2C (Or.inl rfl))
    have e : w1 ++ t ++ w2 ++ 0x2C :: q ++ rest = w1 ++ (t ++ (w2 ++ 0x2C :: (q ++ rest))) := by simp
    rw [e, pe_more acc (by rw [parseValue_ws hw1]; exact hval) (skipWs_ws_cons hw2 0x2C _ (by decide)),
      pe_den hq (g + 1) d rest (acc ++ [v]) (by omega) hd]
    simp
/-- Go's decoder on the members of an object: each member is inserted into the map read so far -/
theorem pm_den : {n : Nat} → {p : Bytes} → {ms : List (Bytes × Val)} → DenMembers n p ms → ∀ (f d : Nat)
    (rest : Bytes) (acc : List (Bytes × Val)), 2 * p.length ≤ f → d + n ≤ Json.maxDepth →
    Json.parseMembers f d (p ++ rest) acc = some (ms.foldl (fun a kv => objInsert kv.1 kv.2 a) acc, rest)
  | _, _, _, .last n w1 kw w2 w3 t w4 k v hw1 hk hw2 hw3 hv hw4, f, d, rest, acc, hf, hd => by
    simp only [List.length_append, List.length_cons, List.length_nil] at hf
    have hpos := hv.length_pos
    obtain ⟨g, rfl⟩ : ∃ g, f = g + 2 := ⟨f - 2, by omega⟩
    have hval := pv_den hv (g + 1) d (w4 ++ 0x7D :: rest) (by omega) hd
      (Delim.ws_append hw4 0x7D (Or.inr (Or.inr rfl)))
    have e : w1 ++ 0x22 :: (kw ++ 0x22 :: (w2 ++ 0x3A :: (w3 ++ t ++ w4 ++ [0x7D]))) ++ rest
        = w1 ++ 0x22 :: (kw ++ 0x22 :: (w2 ++ 0x3A :: (w3 ++ (t ++ (w4 ++ 0x7D :: rest))))) := by simp
    rw [e]
    exact pm_last acc (skipWs_ws_cons hw1 0x22 _ (by decide)) (psb_strden0 hk _ _ (by simp; omega))
      (skipWs_ws_cons hw2 0x3A _ (by decide)) (by rw [parseValue_ws hw3]; exact hval)
      (skipWs_ws_cons hw4 0x7D rest (by decide))
  | _, _, _, .cons n w1 kw w2 w3 t w4 q k v ms hw1 hk hw2 hw3 hv hw4 hq, f, d, rest, acc, hf, hd => by
    simp only [List.length_append, List.length_cons] at hf
    have hpos := hv.length_pos
    obtain ⟨g, rfl⟩ : ∃ g, f = g + 2 := ⟨f - 2, by omega⟩
    have hval := pv_den hv (g + 1) d (w4 ++ 0x2C :: (q ++ rest)) (by omega) hd
      (Delim.ws_append hw4 0x2C (Or.inl rfl))
    have e : w1 ++ 0x22 :: (kw ++ 0x22 :: (w2 ++ 0x3A :: (w3 ++ t ++ w4 ++ 0x2C :: q))) ++ rest
        = w1 ++ 0x22 :: (kw ++ 0x22 :: (w2 ++ 0x3A :: (w3 ++ (t ++ (w4 ++ 0x2C :: (q ++ rest)))))) := by simp
    rw [e, pm_more acc (skipWs_ws_cons hw1 0x22 _ (by decide)) (psb_strden0 hk _ _ (by simp; omega))
      (skipWs_ws_cons hw2 0x3A _ (by decide)) (by rw [parseValue_ws hw3]; exact hval)
      (skipWs_ws_cons hw4 0x2C _ (by decide)),
      pm_den hq (g + 1) d rest (objInsert k v acc) (by omega) hd]
    rfl
end

/-- **Soundness of Go's decoder w.r.t. the denotation relation** (value text without surrounding white space) -/
theorem decode_den {n : Nat} {t : Bytes} {v : Val} (h : Den n t v) (hn : n ≤ Json.maxDepth) :
    Json.decode t = some v := by
  unfold Json.decode
  have := pv_den h (2 * t.length + 2) 0 [] (by omega) (by omega) (Or.inl rfl)
  rw [List.append_nil] at this
  rw [this]; rfl

/-- **Soundness of Go's decoder w.r.t. the denotation relation**: if the JSON text `t` denotes `v` and nests at most
    10000 containers (Go's limit), `json.Decoder` with `UseNumber` reads `t` as `v` -/
theorem decode_denotes {n : Nat} {t : Bytes} {v : Val} (h : Denotes n t v) (hn : n ≤ Json.maxDepth) :
    Json.decode t = some v := by
  obtain ⟨w1, u, w2, rfl, hw1, hu, hw2⟩ := h
  unfold Json.decode
  obtain ⟨f, hf⟩ : ∃ f, 2 * (w1 ++ u ++ w2).length + 2 = f + 1 := ⟨_, rfl⟩
  rw [hf, List.append_assoc, parseValue_ws hw1,
    pv_den hu (f + 1) 0 w2 (by simp only [List.length_append] at hf; omega) (by omega) (Delim.of_ws hw2)]
  simp [C16B.skipWs_ws hw2]

end Jmes.C16C
