/-
  Property C18, fourth pass — the number invariant `Gd` for expressions that DO call `length`, `find_first`,
  `find_last`.

  `C18EEval.seval_gd` excludes the three integer-valued builtins because in the MODEL a list may be longer than any Go
  slice (`C18E.length_out_of_range`).  Here they are admitted under the hypothesis that says just this of the
  evaluation at hand: `LenSafe root t cur env` — "wherever the value of an integer-valued builtin FLOWS INTO THE RESULT
  of evaluating `t`, that value is an in-range `int64`" (`IntOK`).  `LenSafe` follows the evaluation (`seval`): it asks
  nothing of a call that is not evaluated (right operand of a short-circuiting `&&` / `||`) or whose value is
  consumed by a comparison, `!`, a filter condition or a `sort_by` / `group_by` / `max_by` / `min_by` key (their
  results are Booleans, strings, or elements of the input).  It holds of every evaluation whose measured lengths are
  below `2^63` (`intOK_length`), i.e. of every evaluation the Go program can perform, and of every expression without
  such calls (`lenSafe_of_tok`).
-/
import Jmes.Proofs.C18EEval
import Jmes.Properties.C09
namespace Jmes.C18E
open Jmes Jmes.C18CR

/-! ## member-restricted versions of the higher-order lemmas -/

theorem mapPrune_gd' {f : Val → Res Val} : ∀ {xs r : List Val}, (∀ x ∈ xs, ∀ v, f x = .ok v → Gd v) →
    mapPrune f xs = .ok r → ∀ y ∈ r, Gd y
  | [], r, _, h => by simp [mapPrune] at h; subst h; simp
  | x :: xs, r, hf, h => by
    simp only [mapPrune, Res.bind_eq_ok, Res.pure_eq, Res.ok.injEq] at h
    obtain ⟨p, hp, rest, hrest, hr⟩ := h
    have ih := mapPrune_gd' (fun y hy => hf y (List.mem_cons_of_mem _ hy)) hrest
    have hpn := hf x (List.mem_cons_self ..) p hp
    subst hr
    intro y hy
    split at hy
    · exact ih y hy
    · rcases List.mem_cons.mp hy with rfl | hy
      · exact hpn
      · exact ih y hy

theorem mapAll_gd' {f : Val → Res Val} : ∀ {xs r : List Val}, (∀ x ∈ xs, ∀ v, f x = .ok v → Gd v) →
    mapAll f xs = .ok r → ∀ y ∈ r, Gd y
  | [], r, _, h => by simp [mapAll] at h; subst h; simp
  | x :: xs, r, hf, h => by
    simp only [mapAll, Res.bind_eq_ok, Res.pure_eq, Res.ok.injEq] at h
    obtain ⟨p, hp, rest, hrest, hr⟩ := h
    have ih := mapAll_gd' (fun y hy => hf y (List.mem_cons_of_mem _ hy)) hrest
    have hpn := hf x (List.mem_cons_self ..) p hp
    subst hr
    intro y hy
    rcases List.mem_cons.mp hy with rfl | hy
    · exact hpn
    · exact ih y hy

theorem filterMapPrune_gd' {c f : Val → Res Val} : ∀ {xs r : List Val}, (∀ x ∈ xs, ∀ v, f x = .ok v → Gd v) →
    filterMapPrune c f xs = .ok r → ∀ y ∈ r, Gd y
  | [], r, _, h => by simp [filterMapPrune] at h; subst h; simp
  | x :: xs, r, hf, h => by
    simp only [filterMapPrune, Res.bind_eq_ok] at h
    obtain ⟨b, hb, h⟩ := h
    have hf' : ∀ y ∈ xs, ∀ v, f y = .ok v → Gd v := fun y hy => hf y (List.mem_cons_of_mem _ hy)
    split at h
    · simp only [Res.bind_eq_ok, Res.pure_eq, Res.ok.injEq] at h
      obtain ⟨p, hp, rest, hrest, hr⟩ := h
      have ih := filterMapPrune_gd' hf' hrest
      have hpn := hf x (List.mem_cons_self ..) p hp
      subst hr
      intro y hy
      split at hy
      · exact ih y hy
      · rcases List.mem_cons.mp hy with rfl | hy
        · exact hpn
        · exact ih y hy
    · exact filterMapPrune_gd' hf' h

/-- the elements an array projection visits -/
def elems : Val → List Val
  | .arr _ xs => xs
  | _ => []
/-- the elements a flatten projection visits -/
def flatElems : Val → List Val
  | .arr _ xs => flattenForProject xs
  | _ => []
/-- the member values an object projection visits -/
def objVals : Val → List Val
  | .obj kvs => kvs.map Prod.snd
  | _ => []

theorem projectArray_gd' {f : Val → Res Val} {v w : Val} (hf : ∀ x ∈ elems v, ∀ u, f x = .ok u → Gd u)
    (hw : projectArray f v = .ok w) : Gd w := by
  unfold projectArray at hw
  split at hw
  · next t xs =>
    rw [widen_eq_ok] at hw
    simp only [Res.bind_eq_ok, Res.pure_eq, Res.ok.injEq] at hw
    obtain ⟨r, hr, rfl⟩ := hw
    exact gd_arr.mpr (mapPrune_gd' hf hr)
  · cases hw; simp

theorem mapArray_gd' {f : Val → Res Val} {v w : Val} (hf : ∀ x ∈ elems v, ∀ u, f x = .ok u → Gd u)
    (hw : mapArray f v = .ok w) : Gd w := by
  unfold mapArray at hw
  split at hw
  · next t xs =>
    rw [widen_eq_ok] at hw
    simp only [Res.bind_eq_ok, Res.pure_eq, Res.ok.injEq] at hw
    obtain ⟨r, hr, rfl⟩ := hw
    exact gd_arr.mpr (mapAll_gd' hf hr)
  · simp [errType] at hw

theorem filterAndProjectArray_gd' {c f : Val → Res Val} {v w : Val} (hf : ∀ x ∈ elems v, ∀ u, f x = .ok u → Gd u)
    (hw : filterAndProjectArray c f v = .ok w) : Gd w := by
  unfold filterAndProjectArray at hw
  split at hw
  · next t xs =>
    rw [widen_eq_ok] at hw
    simp only [Res.bind_eq_ok, Res.pure_eq, Res.ok.injEq] at hw
    obtain ⟨r, hr, rfl⟩ := hw
    exact gd_arr.mpr (filterMapPrune_gd' hf hr)
  · cases hw; simp

theorem flattenAndProjectArray_gd' {f : Val → Res Val} {v w : Val} (hf : ∀ x ∈ flatElems v, ∀ u, f x = .ok u → Gd u)
    (hw : flattenAndProjectArray f v = .ok w) : Gd w := by
  unfold flattenAndProjectArray at hw
  split at hw
  · next t xs =>
    rw [widen_eq_ok] at hw
    simp only [Res.bind_eq_ok, Res.pure_eq, Res.ok.injEq] at hw
    obtain ⟨r, hr, rfl⟩ := hw
    exact gd_arr.mpr (mapPrune_gd' hf hr)
  · cases hw; simp

theorem projectObject_gd' {f : Val → Res Val} {v w : Val} (hf : ∀ x ∈ objVals v, ∀ u, f x = .ok u → Gd u)
    (hw : projectObject f v = .ok w) : Gd w := by
  unfold projectObject at hw
  split at hw
  · next kvs =>
    simp only at hw
    rw [widen_eq_ok] at hw
    simp only [Res.bind_eq_ok, Res.pure_eq, Res.ok.injEq] at hw
    obtain ⟨r, hr, rfl⟩ := hw
    exact gd_arr.mpr (mapPrune_gd' hf hr)
  · cases hw; simp

theorem elems_gd {v : Val} (h : Gd v) : ∀ x ∈ elems v, Gd x := by
  cases v <;> simp only [elems, List.not_mem_nil, false_imp_iff, implies_true]
  exact gd_arr.mp h
theorem flatElems_gd {v : Val} (h : Gd v) : ∀ x ∈ flatElems v, Gd x := by
  cases v <;> simp only [flatElems, List.not_mem_nil, false_imp_iff, implies_true]
  exact flattenForProject_gd (gd_arr.mp h)
theorem objVals_gd {v : Val} (h : Gd v) : ∀ x ∈ objVals v, Gd x := by
  cases v <;> simp only [objVals, List.not_mem_nil, false_imp_iff, implies_true]
  exact obj_values_gd h

/-! ## the hypothesis on the evaluation -/

/-- the call returns a `Gd` value: automatic for every builtin but `length`, `find_first`, `find_last`, whose `int64`
    result has to be in range -/
def IntOK (f : Fn) (vs : List Val) : Prop := intFreeFn f = true ∨ ∀ w, applyFn f vs = .ok w → Gd w

/-- every builtin maps `Gd` arguments to a `Gd` result when `IntOK` -/
theorem applyFn_gd' {f : Fn} {args : List Val} {w : Val} (hf : IntOK f args) (ha : ∀ a ∈ args, Gd a)
    (hw : applyFn f args = .ok w) : Gd w := by
  rcases hf with hf | hf
  · exact applyFn_gd hf ha hw
  · exact hf w hw

/-- the six arithmetic operators (the comparisons return Booleans) -/
def arithOp : BinOp → Bool
  | .add | .sub | .mul | .div | .idiv | .mod => true
  | _ => false

theorem applyBinOp_gd_cmp {op : BinOp} {x y v : Val} (ho : arithOp op = false) (h : applyBinOp op x y = .ok v) : Gd v := by
  cases op <;> simp [arithOp] at ho
  case eq | ne =>
    simp only [applyBinOp, Res.bind_eq_ok, Res.pure_eq, Res.ok.injEq] at h
    obtain ⟨_, _, rfl⟩ := h; simp
  case lt | le | gt | ge =>
    simp only [applyBinOp, less, lessOrEqual, greater, greaterOrEqual, cmpOp, Res.ok.injEq] at h
    subst h
    split
    · simp
    · split <;> simp

mutual
/-- **wherever the value of an integer-valued builtin flows into the result of evaluating `t` at `cur` / `env`, it is
    an in-range integer** (follows `seval`) -/
def LenSafe (root : Val) : Tree → Val → Env → Prop
  | .lit _, _, _ | .current, _, _ | .root, _, _ | .field _, _, _ | .var _, _, _ | .index _, _, _ | .slice _ _, _, _
  | .sliceStep _ _ _, _, _ | .not _, _, _ => True
  | .sub l r, cur, env => LenSafe root l cur env ∧ ∀ a, seval root l cur env = .ok a → LenSafe root r a env
  | .binop op l r, cur, env => arithOp op = true → LenSafe root l cur env ∧ LenSafe root r cur env
  | .and l r, cur, env =>
    LenSafe root l cur env ∧ ∀ a, seval root l cur env = .ok a → isTrue a = true → LenSafe root r cur env
  | .or l r, cur, env =>
    LenSafe root l cur env ∧ ∀ a, seval root l cur env = .ok a → isTrue a = false → LenSafe root r cur env
  | .neg c, cur, env | .pos c, cur, env | .prune c, cur, env => LenSafe root c cur env
  | .call f args, cur, env =>
    LenSafeL root args cur env ∧ ∀ vs, sevalList root args cur env = .ok vs → IntOK f vs
  | .proj l r, cur, env =>
    LenSafe root l cur env ∧ ∀ a, seval root l cur env = .ok a → ∀ x ∈ elems a, LenSafe root r x env
  | .sliceProj l r, cur, env =>
    LenSafe root l cur env ∧ ∀ a, seval root l cur env = .ok a →
      (match a with
       | .str _ => LenSafe root r a env
       | _ => ∀ x ∈ elems a, LenSafe root r x env)
  | .flatProj l r, cur, env =>
    LenSafe root l cur env ∧ ∀ a, seval root l cur env = .ok a → ∀ x ∈ flatElems a, LenSafe root r x env
  | .filterProj l _ r, cur, env =>
    LenSafe root l cur env ∧ ∀ a, seval root l cur env = .ok a → ∀ x ∈ elems a, LenSafe root r x env
  | .valueProj l r, cur, env =>
    LenSafe root l cur env ∧ ∀ a, seval root l cur env = .ok a → ∀ x ∈ objVals a, LenSafe root r x env
  | .multiList _ es, cur, env | .merge es, cur, env | .notNull es, cur, env | .zip es, cur, env =>
    LenSafeL root es cur env
  | .multiHash _ kvs, cur, env => LenSafeF root kvs cur env
  | .letIn bs body, cur, env =>
    LenSafeF root bs cur env ∧ ∀ vs, sevalFields root bs cur env = .ok vs → LenSafe root body cur (vs ++ env)
  | .groupBy a _, cur, env | .maxBy a _, cur, env | .minBy a _, cur, env | .sortBy a _, cur, env =>
    LenSafe root a cur env
  | .map e a, cur, env =>
    LenSafe root a cur env ∧ ∀ v, seval root a cur env = .ok v → ∀ x ∈ elems v, LenSafe root e x env
/-- … for every expression of a list, at the same current value -/
def LenSafeL (root : Val) : List Tree → Val → Env → Prop
  | [], _, _ => True
  | t :: ts, cur, env => LenSafe root t cur env ∧ LenSafeL root ts cur env
/-- … for every member expression -/
def LenSafeF (root : Val) : List (Bytes × Tree) → Val → Env → Prop
  | [], _, _ => True
  | (_, t) :: rest, cur, env => LenSafe root t cur env ∧ LenSafeF root rest cur env
end


/-! ## the literal condition alone -/

mutual
/-- every literal of the expression is Gd -/
def TLit : Tree → Prop
  | .lit v => Gd v
  | .current | .root | .field _ | .var _ | .index _ | .slice _ _ | .sliceStep _ _ _ => True
  | .sub l r | .binop _ l r | .and l r | .or l r | .proj l r | .sliceProj l r | .flatProj l r | .valueProj l r
  | .groupBy l r | .map l r | .maxBy l r | .minBy l r | .sortBy l r => TLit l ∧ TLit r
  | .not c | .neg c | .pos c | .prune c => TLit c
  | .filterProj l c r => TLit l ∧ TLit c ∧ TLit r
  | .call _ args | .multiList _ args | .merge args | .notNull args | .zip args => TLitL args
  | .multiHash _ kvs => TLitF kvs
  | .letIn bs body => TLitF bs ∧ TLit body
def TLitL : List Tree → Prop
  | [] => True
  | t :: ts => TLit t ∧ TLitL ts
def TLitF : List (Bytes × Tree) → Prop
  | [] => True
  | (_, t) :: rest => TLit t ∧ TLitF rest
end


mutual
/-- if every node is `(INode.litOk LitB)` (Bool traversal), every literal of its desugaring is `Gd` -/
theorem desugar_tlit : (n : INode) → n.all ((INode.litOk LitB)) = true → TLit (desugar n)
  | .lit v, h => by
    simp only [INode.all, INode.litOk] at h
    simp only [desugar, TLit]
    exact litB_gd v h
  | .current, _ | .root, _ | .field _, _ | .variable _, _ | .flattenCurrent, _ | .indexCurrent _, _
  | .smallIndexCurrent _, _ | .objectValuesCurrent, _ | .pruneArrayCurrent, _ | .sliceCurrent _ _, _
  | .sliceStepCurrent _ _ _, _ => by simp [desugar, TLit]
  | .binop _ l r, h | .and l r, h | .or l r, h | .flattenAndProject l r, h | .pipe l r, h | .projectObject l r, h
  | .groupBy l r, h | .map l r, h | .maxBy l r, h | .minBy l r, h | .sortBy l r, h => by
    simp only [INode.all, Bool.and_eq_true] at h
    simp only [desugar, TLit]
    exact ⟨desugar_tlit l h.1.2, desugar_tlit r h.2⟩
  | .projectArray l r, h => by
    simp only [INode.all, Bool.and_eq_true] at h
    simp only [desugar]
    split <;> (simp only [TLit]; exact ⟨desugar_tlit l h.1.2, desugar_tlit r h.2⟩)
  | .filter l r, h => by
    simp only [INode.all, Bool.and_eq_true] at h
    simp only [desugar, TLit]
    exact ⟨desugar_tlit l h.1.2, desugar_tlit r h.2, trivial⟩
  | .filterAndProjectCurrent l r, h => by
    simp only [INode.all, Bool.and_eq_true] at h
    simp only [desugar, TLit]
    exact ⟨trivial, desugar_tlit l h.1.2, desugar_tlit r h.2⟩
  | .filterAndProject l f r, h => by
    simp only [INode.all, Bool.and_eq_true] at h
    simp only [desugar, TLit]
    exact ⟨desugar_tlit l h.1.1.2, desugar_tlit f h.1.2, desugar_tlit r h.2⟩
  | .filterCurrent c, h => by
    simp only [INode.all, Bool.and_eq_true] at h
    simp only [desugar, TLit]
    exact ⟨trivial, desugar_tlit c h.2, trivial⟩
  | .selectArraySingle l r, h => by
    simp only [INode.all, Bool.and_eq_true] at h
    simp only [desugar, TLit, TLitL]
    exact ⟨desugar_tlit l h.1.2, desugar_tlit r h.2, trivial⟩
  | .selectObjectSingle l _ r, h => by
    simp only [INode.all, Bool.and_eq_true] at h
    simp only [desugar, TLit, TLitF]
    exact ⟨desugar_tlit l h.1.2, desugar_tlit r h.2, trivial⟩
  | .not c, h | .negate c, h | .assertNumber c, h | .pruneArray c, h => by
    simp only [INode.all, Bool.and_eq_true] at h
    simp only [desugar, TLit]
    exact desugar_tlit c h.2
  | .flatten c, h | .objectValues c, h | .index c _, h | .slice c _ _, h | .sliceStep c _ _ _, h => by
    simp only [INode.all, Bool.and_eq_true] at h
    simp only [desugar, TLit]
    exact ⟨desugar_tlit c h.2, trivial⟩
  | .flattenAndProjectCurrent c, h | .projectArrayCurrent c, h | .projectObjectCurrent c, h => by
    simp only [INode.all, Bool.and_eq_true] at h
    simp only [desugar, TLit]
    exact ⟨trivial, desugar_tlit c h.2⟩
  | .selectArraySingleCurrent c, h => by
    simp only [INode.all, Bool.and_eq_true] at h
    simp only [desugar, TLit, TLitL]
    exact ⟨desugar_tlit c h.2, trivial⟩
  | .selectObjectSingleCurrent _ c, h => by
    simp only [INode.all, Bool.and_eq_true] at h
    simp only [desugar, TLit, TLitF]
    exact ⟨desugar_tlit c h.2, trivial⟩
  | .call _ args, h | .selectArrayCurrent args, h | .merge args, h | .notNull args, h | .zip args, h => by
    simp only [INode.all, Bool.and_eq_true] at h
    simp only [desugar, TLit]
    exact desugarList_tlit args h.2
  | .selectArray c fs, h => by
    simp only [INode.all, Bool.and_eq_true] at h
    simp only [desugar, TLit]
    exact ⟨desugar_tlit c h.1.2, desugarList_tlit fs h.2⟩
  | .selectObject c fs, h => by
    simp only [INode.all, Bool.and_eq_true] at h
    simp only [desugar, TLit]
    exact ⟨desugar_tlit c h.1.2, desugarFields_tlit fs h.2⟩
  | .selectObjectCurrent fs, h => by
    simp only [INode.all, Bool.and_eq_true] at h
    simp only [desugar, TLit]
    exact desugarFields_tlit fs h.2
  | .defineVariables vars child, h => by
    simp only [INode.all, Bool.and_eq_true] at h
    simp only [desugar, TLit]
    exact ⟨desugarFields_tlit vars h.1.2, desugar_tlit child h.2⟩
theorem desugarList_tlit : (ns : List INode) → INode.allL ((INode.litOk LitB)) ns = true → TLitL (desugarList ns)
  | [], _ => by simp [desugarList, TLitL]
  | n :: ns, h => by
    simp only [INode.allL, Bool.and_eq_true] at h
    simp only [desugarList, TLitL]
    exact ⟨desugar_tlit n h.1, desugarList_tlit ns h.2⟩
theorem desugarFields_tlit : (fs : List (Bytes × INode)) → INode.allF ((INode.litOk LitB)) fs = true →
    TLitF (desugarFields fs)
  | [], _ => by simp [desugarFields, TLitF]
  | (k, n) :: rest, h => by
    simp only [INode.allF, Bool.and_eq_true] at h
    simp only [desugarFields, TLitF]
    exact ⟨desugar_tlit n h.1, desugarFields_tlit rest h.2⟩
end



/-! ## the evaluator -/

mutual
/-- the reference semantics maps `Gd` inputs to `Gd` results along every `LenSafe` evaluation -/
theorem seval_gd2 (root : Val) (hr : Gd root) : (t : Tree) → (cur : Val) → (env : Env) → TLit t →
    LenSafe root t cur env → Gd cur → EnvGdP env → ∀ w, seval root t cur env = .ok w → Gd w
  | .lit v, cur, env, hl, hs, hc, he, w, hw => by
    simp only [seval, Res.ok.injEq] at hw; subst hw; simpa [TLit] using hl
  | .current, cur, env, hl, hs, hc, he, w, hw => by
    simp only [seval, Res.ok.injEq] at hw; subst hw; exact hc
  | .root, cur, env, hl, hs, hc, he, w, hw => by
    simp only [seval, Res.ok.injEq] at hw; subst hw; exact hr
  | .field k, cur, env, hl, hs, hc, he, w, hw => by
    simp only [seval, Res.ok.injEq] at hw; subst hw; exact field_gd k hc
  | .var x, cur, env, hl, hs, hc, he, w, hw => by
    simp only [seval] at hw
    split at hw
    · next v hv => simp only [Res.ok.injEq] at hw; subst hw; exact envGet_gd he hv
    · simp at hw
  | .index i, cur, env, hl, hs, hc, he, w, hw => by
    simp only [seval] at hw; exact index_gd hc hw
  | .slice a b, cur, env, hl, hs, hc, he, w, hw => by
    simp only [seval] at hw; exact slice_gd hc hw
  | .sliceStep a b s, cur, env, hl, hs, hc, he, w, hw => by
    simp only [seval] at hw; exact sliceStep_gd hc hw
  | .sub l r, cur, env, hl, hs, hc, he, w, hw => by
    simp only [TLit] at hl
    simp only [LenSafe] at hs
    simp only [seval, Res.bind_eq_ok] at hw
    obtain ⟨a, ha, hw⟩ := hw
    exact seval_gd2 root hr r a env hl.2 (hs.2 a ha) (seval_gd2 root hr l cur env hl.1 hs.1 hc he a ha) he w hw
  | .binop op l r, cur, env, hl, hs, hc, he, w, hw => by
    simp only [TLit] at hl
    simp only [LenSafe] at hs
    simp only [seval, Res.bind_eq_ok] at hw
    obtain ⟨a, ha, b, hb, hw⟩ := hw
    by_cases ho : arithOp op = true
    · exact applyBinOp_gd (seval_gd2 root hr l cur env hl.1 (hs ho).1 hc he a ha)
        (seval_gd2 root hr r cur env hl.2 (hs ho).2 hc he b hb) hw
    · exact applyBinOp_gd_cmp (by simpa using ho) hw
  | .and l r, cur, env, hl, hs, hc, he, w, hw => by
    simp only [TLit] at hl
    simp only [LenSafe] at hs
    simp only [seval, Res.bind_eq_ok] at hw
    obtain ⟨a, ha, hw⟩ := hw
    split at hw
    · simp only [Res.pure_eq, Res.ok.injEq] at hw; subst hw; exact seval_gd2 root hr l cur env hl.1 hs.1 hc he a ha
    · next hn => exact seval_gd2 root hr r cur env hl.2 (hs.2 a ha (by simpa using hn)) hc he w hw
  | .or l r, cur, env, hl, hs, hc, he, w, hw => by
    simp only [TLit] at hl
    simp only [LenSafe] at hs
    simp only [seval, Res.bind_eq_ok] at hw
    obtain ⟨a, ha, hw⟩ := hw
    split at hw
    · simp only [Res.pure_eq, Res.ok.injEq] at hw; subst hw; exact seval_gd2 root hr l cur env hl.1 hs.1 hc he a ha
    · next hn => exact seval_gd2 root hr r cur env hl.2 (hs.2 a ha (by simpa using hn)) hc he w hw
  | .not c, cur, env, hl, hs, hc, he, w, hw => by
    simp only [seval, Res.bind_eq_ok, Res.pure_eq, Res.ok.injEq] at hw
    obtain ⟨a, _, rfl⟩ := hw; simp
  | .neg c, cur, env, hl, hs, hc, he, w, hw => by
    simp only [TLit] at hl
    simp only [LenSafe] at hs
    simp only [seval, Res.bind_eq_ok, Res.pure_eq, Res.ok.injEq] at hw
    obtain ⟨a, ha, rfl⟩ := hw
    exact negateVal_gd (seval_gd2 root hr c cur env hl hs hc he a ha)
  | .pos c, cur, env, hl, hs, hc, he, w, hw => by
    simp only [TLit] at hl
    simp only [LenSafe] at hs
    simp only [seval, Res.bind_eq_ok, Res.pure_eq, Res.ok.injEq] at hw
    obtain ⟨a, ha, rfl⟩ := hw
    split
    · exact seval_gd2 root hr c cur env hl hs hc he a ha
    · simp
  | .call f args, cur, env, hl, hs, hc, he, w, hw => by
    simp only [TLit] at hl
    simp only [LenSafe] at hs
    simp only [seval, Res.bind_eq_ok] at hw
    obtain ⟨vs, hvs, hw⟩ := hw
    exact applyFn_gd' (hs.2 vs hvs) (sevalList_gd2 root hr args cur env hl hs.1 hc he vs hvs) hw
  | .prune l, cur, env, hl, hs, hc, he, w, hw => by
    simp only [TLit] at hl
    simp only [LenSafe] at hs
    simp only [seval, Res.bind_eq_ok, Res.pure_eq, Res.ok.injEq] at hw
    obtain ⟨a, ha, rfl⟩ := hw
    exact pruneArray_gd (seval_gd2 root hr l cur env hl hs hc he a ha)
  | .proj l r, cur, env, hl, hs, hc, he, w, hw => by
    simp only [TLit] at hl
    simp only [LenSafe] at hs
    simp only [seval, Res.bind_eq_ok] at hw
    obtain ⟨a, ha, hw⟩ := hw
    have hna := seval_gd2 root hr l cur env hl.1 hs.1 hc he a ha
    exact projectArray_gd' (fun x hx v hv => seval_gd2 root hr r x env hl.2 (hs.2 a ha x hx) (elems_gd hna x hx) he v hv) hw
  | .sliceProj l r, cur, env, hl, hs, hc, he, w, hw => by
    simp only [TLit] at hl
    simp only [LenSafe] at hs
    simp only [seval, Res.bind_eq_ok] at hw
    obtain ⟨a, ha, hw⟩ := hw
    have hna := seval_gd2 root hr l cur env hl.1 hs.1 hc he a ha
    have hsa := hs.2 a ha
    split at hw
    · exact seval_gd2 root hr r _ env hl.2 (by simpa using hsa) hna he w hw
    · next hnot =>
      have hsa' : ∀ x ∈ elems a, LenSafe root r x env := by
        cases a with
        | str s => exact absurd rfl (hnot s)
        | _ => simpa using hsa
      exact projectArray_gd' (fun x hx v hv => seval_gd2 root hr r x env hl.2 (hsa' x hx) (elems_gd hna x hx) he v hv) hw
  | .flatProj l r, cur, env, hl, hs, hc, he, w, hw => by
    simp only [TLit] at hl
    simp only [LenSafe] at hs
    simp only [seval, Res.bind_eq_ok] at hw
    obtain ⟨a, ha, hw⟩ := hw
    have hna := seval_gd2 root hr l cur env hl.1 hs.1 hc he a ha
    exact flattenAndProjectArray_gd'
      (fun x hx v hv => seval_gd2 root hr r x env hl.2 (hs.2 a ha x hx) (flatElems_gd hna x hx) he v hv) hw
  | .filterProj l c r, cur, env, hl, hs, hc, he, w, hw => by
    simp only [TLit] at hl
    simp only [LenSafe] at hs
    simp only [seval, Res.bind_eq_ok] at hw
    obtain ⟨a, ha, hw⟩ := hw
    have hna := seval_gd2 root hr l cur env hl.1 hs.1 hc he a ha
    exact filterAndProjectArray_gd'
      (fun x hx v hv => seval_gd2 root hr r x env hl.2.2 (hs.2 a ha x hx) (elems_gd hna x hx) he v hv) hw
  | .valueProj l r, cur, env, hl, hs, hc, he, w, hw => by
    simp only [TLit] at hl
    simp only [LenSafe] at hs
    simp only [seval, Res.bind_eq_ok] at hw
    obtain ⟨a, ha, hw⟩ := hw
    have hna := seval_gd2 root hr l cur env hl.1 hs.1 hc he a ha
    exact projectObject_gd'
      (fun x hx v hv => seval_gd2 root hr r x env hl.2 (hs.2 a ha x hx) (objVals_gd hna x hx) he v hv) hw
  | .multiList chk es, cur, env, hl, hs, hc, he, w, hw => by
    simp only [TLit] at hl
    simp only [LenSafe] at hs
    simp only [seval] at hw
    split at hw
    · simp only [Res.ok.injEq] at hw; subst hw; simp
    · simp only [Res.bind_eq_ok, Res.pure_eq, Res.ok.injEq] at hw
      obtain ⟨vs, hvs, rfl⟩ := hw
      exact gd_arr.mpr (sevalList_gd2 root hr es cur env hl hs hc he vs hvs)
  | .multiHash chk kvs, cur, env, hl, hs, hc, he, w, hw => by
    simp only [TLit] at hl
    simp only [LenSafe] at hs
    simp only [seval] at hw
    split at hw
    · simp only [Res.ok.injEq] at hw; subst hw; simp
    · simp only [Res.bind_eq_ok, Res.pure_eq, Res.ok.injEq] at hw
      obtain ⟨fs, hfs, rfl⟩ := hw
      exact gd_obj.mpr (sevalFields_gd2 root hr kvs cur env hl hs hc he fs hfs)
  | .letIn bs body, cur, env, hl, hs, hc, he, w, hw => by
    simp only [TLit] at hl
    simp only [LenSafe] at hs
    simp only [seval, Res.bind_eq_ok] at hw
    obtain ⟨vs, hvs, hw⟩ := hw
    have hvs' := sevalFields_gd2 root hr bs cur env hl.1 hs.1 hc he vs hvs
    refine seval_gd2 root hr body cur (vs ++ env) hl.2 (hs.2 vs hvs) hc ?_ w hw
    intro k x hm
    rcases List.mem_append.mp hm with hm | hm
    · exact hvs' k x hm
    · exact he k x hm
  | .groupBy a e, cur, env, hl, hs, hc, he, w, hw => by
    simp only [TLit] at hl
    simp only [LenSafe] at hs
    simp only [seval, Res.bind_eq_ok] at hw
    obtain ⟨v, hv, hw⟩ := hw
    exact groupBy_gd (seval_gd2 root hr a cur env hl.1 hs hc he v hv) hw
  | .map e a, cur, env, hl, hs, hc, he, w, hw => by
    simp only [TLit] at hl
    simp only [LenSafe] at hs
    simp only [seval, Res.bind_eq_ok] at hw
    obtain ⟨v, hv, hw⟩ := hw
    have hna := seval_gd2 root hr a cur env hl.2 hs.1 hc he v hv
    exact mapArray_gd' (fun x hx u hu => seval_gd2 root hr e x env hl.1 (hs.2 v hv x hx) (elems_gd hna x hx) he u hu) hw
  | .maxBy a e, cur, env, hl, hs, hc, he, w, hw => by
    simp only [TLit] at hl
    simp only [LenSafe] at hs
    simp only [seval, Res.bind_eq_ok] at hw
    obtain ⟨v, hv, hw⟩ := hw
    exact arrayPickBy_gd (seval_gd2 root hr a cur env hl.1 hs hc he v hv) hw
  | .minBy a e, cur, env, hl, hs, hc, he, w, hw => by
    simp only [TLit] at hl
    simp only [LenSafe] at hs
    simp only [seval, Res.bind_eq_ok] at hw
    obtain ⟨v, hv, hw⟩ := hw
    exact arrayPickBy_gd (seval_gd2 root hr a cur env hl.1 hs hc he v hv) hw
  | .sortBy a e, cur, env, hl, hs, hc, he, w, hw => by
    simp only [TLit] at hl
    simp only [LenSafe] at hs
    simp only [seval, Res.bind_eq_ok] at hw
    obtain ⟨v, hv, hw⟩ := hw
    exact sortArrayBy_gd (seval_gd2 root hr a cur env hl.1 hs hc he v hv) hw
  | .merge args, cur, env, hl, hs, hc, he, w, hw => by
    simp only [TLit] at hl
    simp only [LenSafe] at hs
    simp only [seval, Res.bind_eq_ok, Res.pure_eq, Res.ok.injEq] at hw
    obtain ⟨kvs, hk, rfl⟩ := hw
    exact gd_obj.mpr (sevalMerge_gd2 root hr args cur env [] hl hs hc he (by simp) kvs hk)
  | .notNull args, cur, env, hl, hs, hc, he, w, hw => by
    simp only [TLit] at hl
    simp only [LenSafe] at hs
    simp only [seval] at hw
    exact sevalNotNull_gd2 root hr args cur env hl hs hc he w hw
  | .zip args, cur, env, hl, hs, hc, he, w, hw => by
    simp only [TLit] at hl
    simp only [LenSafe] at hs
    simp only [seval, Res.bind_eq_ok] at hw
    obtain ⟨vs, hvs, cols, hcols, hw⟩ := hw
    have hcn := zipArgs_gd (sevalZip_gd2 root hr args cur env hl hs hc he vs hvs) hcols
    split at hw
    · simp only [Res.pure_eq, Res.ok.injEq] at hw; subst hw; simp [gd_arr]
    · simp only [Res.pure_eq, Res.ok.injEq] at hw; subst hw
      exact gd_arr.mpr (zipRows_gd _ hcn)
theorem sevalList_gd2 (root : Val) (hr : Gd root) : (ts : List Tree) → (cur : Val) → (env : Env) →
    TLitL ts → LenSafeL root ts cur env → Gd cur → EnvGdP env → ∀ vs, sevalList root ts cur env = .ok vs → ∀ v ∈ vs, Gd v
  | [], cur, env, hl, hs, hc, he, vs, hw => by
    simp only [sevalList, Res.ok.injEq] at hw; subst hw; simp
  | t :: ts, cur, env, hl, hs, hc, he, vs, hw => by
    simp only [TLitL] at hl
    simp only [LenSafeL] at hs
    simp only [sevalList, Res.bind_eq_ok, Res.pure_eq, Res.ok.injEq] at hw
    obtain ⟨v, hv, rest, hrest, rfl⟩ := hw
    intro y hy
    rcases List.mem_cons.mp hy with rfl | hy
    · exact seval_gd2 root hr t cur env hl.1 hs.1 hc he _ hv
    · exact sevalList_gd2 root hr ts cur env hl.2 hs.2 hc he rest hrest y hy
theorem sevalFields_gd2 (root : Val) (hr : Gd root) : (fs : List (Bytes × Tree)) → (cur : Val) → (env : Env) →
    TLitF fs → LenSafeF root fs cur env → Gd cur → EnvGdP env → ∀ kvs, sevalFields root fs cur env = .ok kvs →
    ∀ k x, (k, x) ∈ kvs → Gd x
  | [], cur, env, hl, hs, hc, he, kvs, hw => by
    simp only [sevalFields, Res.ok.injEq] at hw; subst hw; simp
  | (k, t) :: rest, cur, env, hl, hs, hc, he, kvs, hw => by
    simp only [TLitF] at hl
    simp only [LenSafeF] at hs
    simp only [sevalFields] at hw
    exact combineUnordered_gd (fun kvs' h' => sevalFields_gd2 root hr rest cur env hl.2 hs.2 hc he kvs' h')
      (fun v hv => seval_gd2 root hr t cur env hl.1 hs.1 hc he v hv) hw
theorem sevalMerge_gd2 (root : Val) (hr : Gd root) : (ts : List Tree) → (cur : Val) → (env : Env) →
    (acc : List (Bytes × Val)) → TLitL ts → LenSafeL root ts cur env → Gd cur → EnvGdP env →
    (∀ k x, (k, x) ∈ acc → Gd x) →
    ∀ kvs, sevalMerge root ts cur env acc = .ok kvs → ∀ k x, (k, x) ∈ kvs → Gd x
  | [], cur, env, acc, hl, hs, hc, he, hacc, kvs, hw => by
    simp only [sevalMerge, Res.ok.injEq] at hw; subst hw; exact hacc
  | t :: ts, cur, env, acc, hl, hs, hc, he, hacc, kvs, hw => by
    simp only [TLitL] at hl
    simp only [LenSafeL] at hs
    simp only [sevalMerge, Res.bind_eq_ok] at hw
    obtain ⟨v, hv, hw⟩ := hw
    have hvn := seval_gd2 root hr t cur env hl.1 hs.1 hc he v hv
    split at hw
    · exact sevalMerge_gd2 root hr ts cur env _ hl.2 hs.2 hc he
        (foldl_objInsert_gd (gd_obj.mp hvn) hacc) kvs hw
    · simp [errType] at hw
theorem sevalNotNull_gd2 (root : Val) (hr : Gd root) : (ts : List Tree) → (cur : Val) → (env : Env) →
    TLitL ts → LenSafeL root ts cur env → Gd cur → EnvGdP env → ∀ w, sevalNotNull root ts cur env = .ok w → Gd w
  | [], cur, env, hl, hs, hc, he, w, hw => by
    simp only [sevalNotNull, Res.ok.injEq] at hw; subst hw; simp
  | t :: ts, cur, env, hl, hs, hc, he, w, hw => by
    simp only [TLitL] at hl
    simp only [LenSafeL] at hs
    simp only [sevalNotNull, Res.bind_eq_ok] at hw
    obtain ⟨v, hv, hw⟩ := hw
    split at hw
    · exact sevalNotNull_gd2 root hr ts cur env hl.2 hs.2 hc he w hw
    · simp only [Res.pure_eq, Res.ok.injEq] at hw; subst hw
      exact seval_gd2 root hr t cur env hl.1 hs.1 hc he _ hv
theorem sevalZip_gd2 (root : Val) (hr : Gd root) : (ts : List Tree) → (cur : Val) → (env : Env) →
    TLitL ts → LenSafeL root ts cur env → Gd cur → EnvGdP env → ∀ vs, sevalZip root ts cur env = .ok vs → ∀ v ∈ vs, Gd v
  | [], cur, env, hl, hs, hc, he, vs, hw => by
    simp only [sevalZip, Res.ok.injEq] at hw; subst hw; simp
  | t :: ts, cur, env, hl, hs, hc, he, vs, hw => by
    simp only [TLitL] at hl
    simp only [LenSafeL] at hs
    simp only [sevalZip, Res.bind_eq_ok] at hw
    obtain ⟨v, hv, hw⟩ := hw
    have hvn := seval_gd2 root hr t cur env hl.1 hs.1 hc he v hv
    split at hw
    · simp only [Res.bind_eq_ok, Res.pure_eq, Res.ok.injEq] at hw
      obtain ⟨rest, hrest, rfl⟩ := hw
      intro y hy
      rcases List.mem_cons.mp hy with rfl | hy
      · exact hvn
      · exact sevalZip_gd2 root hr ts cur env hl.2 hs.2 hc he rest hrest y hy
    · simp [errType] at hw
end

/-! ## expressions without integer-valued calls are `LenSafe` everywhere -/

mutual
theorem lenSafe_of_tok (root : Val) : (t : Tree) → TOk t → ∀ cur env, LenSafe root t cur env
  | .lit _, _, _, _ | .current, _, _, _ | .root, _, _, _ | .field _, _, _, _ | .var _, _, _, _ | .index _, _, _, _
  | .slice _ _, _, _, _ | .sliceStep _ _ _, _, _, _ | .not _, _, _, _ => by simp [LenSafe]
  | .sub l r, h, cur, env => by
    simp only [TOk] at h; simp only [LenSafe]
    exact ⟨lenSafe_of_tok root l h.1 _ _, fun a _ => lenSafe_of_tok root r h.2 _ _⟩
  | .binop op l r, h, cur, env => by
    simp only [TOk] at h; simp only [LenSafe]
    exact fun _ => ⟨lenSafe_of_tok root l h.1 _ _, lenSafe_of_tok root r h.2 _ _⟩
  | .and l r, h, cur, env | .or l r, h, cur, env => by
    simp only [TOk] at h; simp only [LenSafe]
    exact ⟨lenSafe_of_tok root l h.1 _ _, fun _ _ _ => lenSafe_of_tok root r h.2 _ _⟩
  | .neg c, h, cur, env | .pos c, h, cur, env | .prune c, h, cur, env => by
    simp only [TOk] at h; simp only [LenSafe]; exact lenSafe_of_tok root c h _ _
  | .call f args, h, cur, env => by
    simp only [TOk] at h; simp only [LenSafe]
    exact ⟨lenSafeL_of_tok root args h.2 _ _, fun _ _ => Or.inl h.1⟩
  | .proj l r, h, cur, env | .flatProj l r, h, cur, env | .valueProj l r, h, cur, env => by
    simp only [TOk] at h; simp only [LenSafe]
    exact ⟨lenSafe_of_tok root l h.1 _ _, fun _ _ x _ => lenSafe_of_tok root r h.2 x _⟩
  | .sliceProj l r, h, cur, env => by
    simp only [TOk] at h; simp only [LenSafe]
    refine ⟨lenSafe_of_tok root l h.1 _ _, fun a _ => ?_⟩
    split
    · exact lenSafe_of_tok root r h.2 _ _
    · exact fun x _ => lenSafe_of_tok root r h.2 x _
  | .filterProj l c r, h, cur, env => by
    simp only [TOk] at h; simp only [LenSafe]
    exact ⟨lenSafe_of_tok root l h.1 _ _, fun _ _ x _ => lenSafe_of_tok root r h.2.2 x _⟩
  | .multiList _ es, h, cur, env | .merge es, h, cur, env | .notNull es, h, cur, env | .zip es, h, cur, env => by
    simp only [TOk] at h; simp only [LenSafe]; exact lenSafeL_of_tok root es h _ _
  | .multiHash _ kvs, h, cur, env => by
    simp only [TOk] at h; simp only [LenSafe]; exact lenSafeF_of_tok root kvs h _ _
  | .letIn bs body, h, cur, env => by
    simp only [TOk] at h; simp only [LenSafe]
    exact ⟨lenSafeF_of_tok root bs h.1 _ _, fun _ _ => lenSafe_of_tok root body h.2 _ _⟩
  | .groupBy a e, h, cur, env | .maxBy a e, h, cur, env | .minBy a e, h, cur, env | .sortBy a e, h, cur, env => by
    simp only [TOk] at h; simp only [LenSafe]; exact lenSafe_of_tok root a h.1 _ _
  | .map e a, h, cur, env => by
    simp only [TOk] at h; simp only [LenSafe]
    exact ⟨lenSafe_of_tok root a h.2 _ _, fun _ _ x _ => lenSafe_of_tok root e h.1 x _⟩
theorem lenSafeL_of_tok (root : Val) : (ts : List Tree) → TOkL ts → ∀ cur env, LenSafeL root ts cur env
  | [], _, _, _ => by simp [LenSafeL]
  | t :: ts, h, cur, env => by
    simp only [TOkL] at h; simp only [LenSafeL]
    exact ⟨lenSafe_of_tok root t h.1 _ _, lenSafeL_of_tok root ts h.2 _ _⟩
theorem lenSafeF_of_tok (root : Val) : (fs : List (Bytes × Tree)) → TOkF fs → ∀ cur env, LenSafeF root fs cur env
  | [], _, _, _ => by simp [LenSafeF]
  | (_, t) :: rest, h, cur, env => by
    simp only [TOkF] at h; simp only [LenSafeF]
    exact ⟨lenSafe_of_tok root t h.1 _ _, lenSafeF_of_tok root rest h.2 _ _⟩
end

/-! ## `IntOK` from the sizes -/

/-- what `length` measures -/
def lenOf : Val → Nat
  | .arr _ xs => xs.length
  | .obj kvs => kvs.length
  | .str s => runeCount s
  | _ => 0

/-- `length` returns an in-range `int64` exactly when the measured length is below `2^63` -/
theorem length_gd_iff {a w : Val} (h : length a = .ok w) : Gd w ↔ lenOf a < 2 ^ 63 := by
  unfold length at h
  split at h
  all_goals first
    | (simp [errType] at h; done)
    | (cases h; rw [gd_int]; simp only [IntKind.InRange, lenOf]; omega)

/-- a call of `length` on a value shorter than `2^63` is `IntOK` -/
theorem intOK_length {a : Val} (h : lenOf a < 2 ^ 63) : IntOK .length [a] :=
  Or.inr (fun w hw => (length_gd_iff (by simpa [applyFn] using hw)).mpr h)

example : IntOK .length [.arr .plain [.null, .null]] := intOK_length (by decide)

/-- the rune index returned by `find_first` / `find_last` is at most the length of the subject string -/
theorem runeIndexVal_small {s : Bytes} (hs : s.length < 2 ^ 63) (k : Nat) : Gd (runeIndexVal s k) := by
  unfold runeIndexVal
  rw [gd_int]
  have h1 := C09.runeCount_le_length _ (s.take k) (Nat.le_refl _)
  have h2 : (s.take k).length ≤ s.length := by simp [List.length_take]; omega
  simp only [IntKind.InRange]
  omega

set_option hygiene false in
macro "find_leaves" : tactic => `(tactic|
  (repeat' (first
     | (simp only [Res.bind_eq_ok, Res.pure_eq, strArg, Res.ok.injEq] at hw)
     | (obtain ⟨_, rfl, hw⟩ := hw)
     | (obtain ⟨_, _, hw⟩ := hw)
     | (split at hw))
   all_goals (first
     | (simp [errType, errValue] at hw; done)
     | ((try simp only [Res.ok.injEq] at hw); (try subst hw);
        first | (simp; done) | exact runeIndexVal_small hs _ | assumption))))

theorem findFirst_small {s : Bytes} {b w : Val} (hs : s.length < 2 ^ 63) (hw : findFirst (.str s) b = .ok w) : Gd w := by
  unfold findFirst at hw; find_leaves
theorem findLast_small {s : Bytes} {b w : Val} (hs : s.length < 2 ^ 63) (hw : findLast (.str s) b = .ok w) : Gd w := by
  unfold findLast at hw; find_leaves
theorem findFrom_small {l : Bool} {s : Bytes} {b c w : Val} (hs : s.length < 2 ^ 63) (hw : findFrom l (.str s) b c = .ok w) : Gd w := by
  unfold findFrom at hw; find_leaves
theorem findBetween_small {l : Bool} {s : Bytes} {b c d w : Val} (hs : s.length < 2 ^ 63)
    (hw : findBetween l (.str s) b c d = .ok w) : Gd w := by
  unfold findBetween at hw; find_leaves

/-- **every integer-valued builtin applied to a subject string shorter than `2^63` bytes is `IntOK`** (`length`,
    `find_first`, `find_last` in all arities; the other builtins are `IntOK` anyway) -/
theorem intOK_str {f : Fn} {s : Bytes} {rest : List Val} (hs : s.length < 2 ^ 63) : IntOK f (.str s :: rest) := by
  by_cases hf : intFreeFn f = true
  · exact Or.inl hf
  · refine Or.inr (fun w hw => ?_)
    unfold applyFn at hw
    split at hw
    all_goals first
      | (simp [intFreeFn] at hf; done)
      | (rename_i heq; cases heq; first
          | exact findFirst_small hs hw | exact findLast_small hs hw | exact findFrom_small hs hw
          | exact findBetween_small hs hw
          | exact (length_gd_iff hw).mpr (by
              have := C09.runeCount_le_length _ s (Nat.le_refl _)
              simp only [lenOf]; omega))
      | (simp at hw; done)

example : IntOK .findFirst [.str [0x61, 0x62], .str [0x62]] := intOK_str (by decide)

end Jmes.C18E
