/-
  C11 (third wave), reviewer gap: `C11B.splitOn_join` + `C11B.splitOn_no_sep` do not pin LEFTMOST matching
  ("aaa" split on "aa" admits both ["", "a"] and ["a", ""]).

  This file characterises the model's `splitOn` (Jmes/Model/String.lean: `splitAux`, `splitOn`) completely, for a
  non-empty separator, as the leftmost-first split — the specification of Go's `strings.Split` / `strings.SplitN`:

    * `splitOn_absent`   the separator does not occur            → the only piece is the string itself;
    * `splitOn_stop`     the limit is exhausted (`some 0`)        → the only piece is the string itself;
    * `splitOn_first`    `s = a ++ p ++ rest`, `a` the SHORTEST such prefix → first piece `a`, go on with `rest`
                         (limit decremented);
    * `LeftmostSplit`    the inductive relation with exactly these three clauses; `splitOn_leftmost` (the model
                         satisfies it), `LeftmostSplit.functional` (it relates an input to at most one output), hence
                         `leftmostSplit_iff` : `LeftmostSplit p n s out ↔ out = splitOn s p n`;
    * `split_leftmost`, `split_count_leftmost`: the builtins `split(s, sep)`, `split(s, sep, n)` cut at the leftmost
                         occurrences counted in CODE POINTS.

  The element type of the lists is `Nat`, so the same lemmas serve bytes and code points.
-/
import Jmes.Properties.C11B
namespace Jmes.C11C.Split
open Jmes Jmes.Utf8 Jmes.C11 Jmes.C11S Jmes.C11R

/-! ### occurrences -/

/-- an occurrence of `p` at position `j ≤ |s|` of `s` (as a prefix of `s.drop j`) is a decomposition
    `s = s.take j ++ p ++ r` -/
theorem occ_of_prefix_drop {p s : List Nat} {j : Nat} (h : p <+: s.drop j) : ∃ r, s = s.take j ++ p ++ r := by
  obtain ⟨r, hr⟩ := h
  exact ⟨r, by rw [List.append_assoc, hr, List.take_append_drop]⟩

/-- a decomposition `a ++ p ++ r` is an occurrence of `p` at position `|a|` -/
theorem prefix_drop_of_occ (p a r : List Nat) : p <+: (a ++ p ++ r).drop a.length := by
  rw [List.append_assoc, List.drop_left]; exact ⟨r, rfl⟩

example : ∃ r, [1, 2, 3, 4] = ([1, 2, 3, 4] : List Nat).take 1 ++ [2, 3] ++ r :=
  occ_of_prefix_drop (p := [2, 3]) (s := [1, 2, 3, 4]) (j := 1) ⟨[4], rfl⟩

/-- "`p` does not occur in `s`", stated with decompositions, is `indexOf s p = none` (the model of
    `strings.Index(s, p) < 0`) -/
theorem absent_iff_indexOf (s p : List Nat) : (∀ a r, s ≠ a ++ p ++ r) ↔ indexOf s p = none := by
  constructor
  · intro h
    cases hi : indexOf s p with
    | none => rfl
    | some k =>
      obtain ⟨_, hp, _⟩ := indexOf_spec s p k hi
      obtain ⟨r, hr⟩ := occ_of_prefix_drop hp
      exact absurd hr (h _ _)
  · intro h a r e
    have := indexOf_none s p h a.length
    rw [e] at this
    exact this (prefix_drop_of_occ p a r)

example : ∀ a r, ([1, 2, 3] : List Nat) ≠ a ++ [3, 2] ++ r := (absent_iff_indexOf _ _).2 (by decide)

/-- "`a` is the shortest prefix of `s` that is followed by `p`", stated with decompositions, is
    `indexOf s p = some |a|`: the first occurrence of `p` in `s` (the model of `strings.Index`) is right after `a` -/
theorem first_iff_indexOf (s p a rest : List Nat) (hs : s = a ++ p ++ rest) :
    (∀ a' r', s = a' ++ p ++ r' → a.length ≤ a'.length) ↔ indexOf s p = some a.length := by
  have hocc : p <+: s.drop a.length := by rw [hs]; exact prefix_drop_of_occ p a rest
  constructor
  · intro hmin
    cases hi : indexOf s p with
    | none => exact absurd hocc (indexOf_none s p hi a.length)
    | some k =>
      obtain ⟨hk, hp, hlt⟩ := indexOf_spec s p k hi
      obtain ⟨r, hr⟩ := occ_of_prefix_drop hp
      have h1 := hmin _ _ hr
      rw [List.length_take, Nat.min_eq_left hk] at h1
      have h2 : ¬ a.length < k := fun hh => hlt _ hh hocc
      congr 1; omega
  · intro hi a' r' e
    obtain ⟨_, _, hlt⟩ := indexOf_spec s p _ hi
    apply Nat.le_of_not_lt
    intro hh
    apply hlt _ hh
    rw [e]; exact prefix_drop_of_occ p a' r'

/-- the first "aa" in "aaa" is at position 0, not 1 -/
example : ∀ a' r', ([0x61, 0x61, 0x61] : List Nat) = a' ++ [0x61, 0x61] ++ r' → ([] : List Nat).length ≤ a'.length :=
  (first_iff_indexOf [0x61, 0x61, 0x61] [0x61, 0x61] [] [0x61] rfl).2 (by decide)

/-- before the shortest prefix `a` followed by `p`, `p` does not start (the form `splitAux_skip` wants) -/
theorem first_no_prefix {p a rest : List Nat}
    (hmin : ∀ a' r', a ++ p ++ rest = a' ++ p ++ r' → a.length ≤ a'.length) :
    ∀ j, j < a.length → p.isPrefixOf ((a ++ (p ++ rest)).drop j) = false := by
  intro j hj
  apply Bool.eq_false_iff.2
  intro h
  obtain ⟨r, hr⟩ := occ_of_prefix_drop (List.isPrefixOf_iff_prefix.1 h)
  have := hmin _ r (by rw [List.append_assoc]; exact hr)
  rw [List.length_take, List.length_append] at this
  omega

/-! ### the three clauses, for the model -/

/-- limit exhausted: `splitOn s p (some 0) = [s]`, no cut at all -/
theorem splitOn_stop (s p : List Nat) : splitOn s p (some 0) = [s] := by
  unfold splitOn; rw [splitAux_stop]; rfl

example : splitOn [1, 2, 1] [2] (some 0) = [[1, 2, 1]] := splitOn_stop _ _

/-- separator absent: if `p ≠ []` does not occur in `s`, then `s` is the only piece, whatever the limit
    (the hypothesis `p ≠ []` is kept for uniformity; it follows from the other one, the empty list occurs everywhere) -/
theorem splitOn_absent (s p : List Nat) (n : Option Nat) (_hp : p ≠ []) (h : ∀ a r, s ≠ a ++ p ++ r) :
    splitOn s p n = [s] := by
  by_cases hn : n = some 0
  · subst hn; exact splitOn_stop s p
  · unfold splitOn
    have hno : ∀ j, j < s.length → p.isPrefixOf ((s ++ []).drop j) = false := by
      intro j _
      apply Bool.eq_false_iff.2
      intro hh
      rw [List.append_nil] at hh
      obtain ⟨r, hr⟩ := occ_of_prefix_drop (List.isPrefixOf_iff_prefix.1 hh)
      exact h _ _ hr
    have := splitAux_skip p n hn s [] 1 [] hno
    rw [List.append_nil, Nat.add_comm] at this
    rw [this, splitAux_nil _ _ _ _ hn]; rfl

example : splitOn [1, 2, 3] [3, 2] (some 5) = [[1, 2, 3]] :=
  splitOn_absent _ _ _ (by decide) ((absent_iff_indexOf _ _).2 (by decide))

/-- first occurrence, general form: if `p ≠ []`, the limit is not exhausted, `s = a ++ p ++ rest` and `a` is the
    shortest prefix of `s` followed by `p`, then the first piece is `a` and the others are the pieces of `rest`
    (with the limit decremented) -/
theorem splitOn_first_gen (s p a rest : List Nat) (n : Option Nat) (hp : p ≠ []) (hn : n ≠ some 0)
    (hs : s = a ++ p ++ rest) (hmin : ∀ a' r', s = a' ++ p ++ r' → a.length ≤ a'.length) :
    splitOn s p n = a :: splitOn rest p (n.map (· - 1)) := by
  subst hs
  unfold splitOn
  have hlen : (a ++ p ++ rest).length = a.length + p.length + rest.length := by
    simp only [List.length_append]
  have hpl : 0 < p.length := List.length_pos_iff.2 hp
  rw [splitAux_fuel p hp ((a ++ p ++ rest).length + 1) ((p ++ rest).length + 1 + a.length) _ n []
      (by omega) (by rw [hlen, List.length_append]; omega),
    List.append_assoc, splitAux_skip p n hn a (p ++ rest) _ [] (first_no_prefix hmin),
    splitAux_hit _ _ _ _ _ hn (by intro e; exact hp (List.append_eq_nil_iff.1 e).1)
      (List.isPrefixOf_iff_prefix.2 ⟨rest, rfl⟩),
    List.drop_left, List.nil_append]
  congr 1
  exact splitAux_fuel p hp _ _ _ _ _ (by rw [List.length_append]; omega) (by omega)

/-- first occurrence, no limit: `splitOn (a ++ p ++ rest) p none = a :: splitOn rest p none` when `a` is the shortest
    prefix followed by `p` -/
theorem splitOn_first (s p a rest : List Nat) (hp : p ≠ []) (hs : s = a ++ p ++ rest)
    (hmin : ∀ a' r', s = a' ++ p ++ r' → a.length ≤ a'.length) :
    splitOn s p none = a :: splitOn rest p none :=
  splitOn_first_gen s p a rest none hp (by simp) hs hmin

/-- first occurrence, `k + 1` cuts allowed: one is spent, `k` remain for `rest` -/
theorem splitOn_first_limit (s p a rest : List Nat) (k : Nat) (hp : p ≠ []) (hs : s = a ++ p ++ rest)
    (hmin : ∀ a' r', s = a' ++ p ++ r' → a.length ≤ a'.length) :
    splitOn s p (some (k + 1)) = a :: splitOn rest p (some k) :=
  splitOn_first_gen s p a rest (some (k + 1)) hp (by simp) hs hmin

/-- the same two facts with the hypothesis phrased by `indexOf` -/
theorem splitOn_first_indexOf (s p a rest : List Nat) (hp : p ≠ []) (hs : s = a ++ p ++ rest)
    (hi : indexOf s p = some a.length) :
    splitOn s p none = a :: splitOn rest p none ∧
    ∀ k, splitOn s p (some (k + 1)) = a :: splitOn rest p (some k) :=
  have hmin := (first_iff_indexOf s p a rest hs).2 hi
  ⟨splitOn_first s p a rest hp hs hmin, fun k => splitOn_first_limit s p a rest k hp hs hmin⟩

/-- "aaa" on "aa": the first piece is "" and the rest is the split of "a" -/
example : splitOn [0x61, 0x61, 0x61] [0x61, 0x61] none = [] :: splitOn [0x61] [0x61, 0x61] none :=
  splitOn_first _ _ [] [0x61] (by decide) rfl
    ((first_iff_indexOf [0x61, 0x61, 0x61] [0x61, 0x61] [] [0x61] rfl).2 (by decide))
example : splitOn [1, 2, 1, 2, 1] [2] (some 1) = [1] :: splitOn [1, 2, 1] [2] (some 0) :=
  splitOn_first_limit _ _ [1] [1, 2, 1] 0 (by decide) rfl
    ((first_iff_indexOf [1, 2, 1, 2, 1] [2] [1] [1, 2, 1] rfl).2 (by decide))

/-! ### the inductive specification -/

/-- `LeftmostSplit p n s out`: `out` is the list of pieces obtained by cutting `s` at the leftmost, non-overlapping
    occurrences of the separator `p`, at most `n` cuts (`none`: no limit) — `strings.SplitN(s, p, n + 1)`, and
    `strings.Split(s, p)` for `none`.
    * `absent`: `p` does not occur in `s` — one piece, `s`;
    * `stop`: no cut left — one piece, `s`;
    * `first` / `firstLimit`: `s = a ++ p ++ rest` with `a` the SHORTEST prefix followed by `p` (so this occurrence of
      `p` is the leftmost one) — the first piece is `a`, the others are the pieces of `rest`. -/
inductive LeftmostSplit (p : List Nat) : Option Nat → List Nat → List (List Nat) → Prop
  | absent (n : Option Nat) (s : List Nat) (h : ∀ a r, s ≠ a ++ p ++ r) : LeftmostSplit p n s [s]
  | stop (s : List Nat) : LeftmostSplit p (some 0) s [s]
  | first (s a rest : List Nat) (out : List (List Nat)) (hs : s = a ++ p ++ rest)
      (hmin : ∀ a' r', s = a' ++ p ++ r' → a.length ≤ a'.length)
      (hrest : LeftmostSplit p none rest out) : LeftmostSplit p none s (a :: out)
  | firstLimit (k : Nat) (s a rest : List Nat) (out : List (List Nat)) (hs : s = a ++ p ++ rest)
      (hmin : ∀ a' r', s = a' ++ p ++ r' → a.length ≤ a'.length)
      (hrest : LeftmostSplit p (some k) rest out) : LeftmostSplit p (some (k + 1)) s (a :: out)

/-- the model's `splitOn` is a leftmost split: for a non-empty separator `splitOn s p n` satisfies the specification,
    for every string and every limit -/
theorem splitOn_leftmost (p : List Nat) (hp : p ≠ []) :
    ∀ (m : Nat) (s : List Nat) (n : Option Nat), s.length ≤ m → LeftmostSplit p n s (splitOn s p n) := by
  intro m
  induction m with
  | zero =>
    intro s n hm
    have : s = [] := List.length_eq_zero_iff.1 (by omega)
    subst this
    have habs : ∀ a r, ([] : List Nat) ≠ a ++ p ++ r := by
      intro a r e
      have := congrArg List.length e
      have hpl : 0 < p.length := List.length_pos_iff.2 hp
      simp only [List.length_nil, List.length_append] at this
      omega
    rw [splitOn_absent [] p n hp habs]
    exact .absent n [] habs
  | succ m ih =>
    intro s n hm
    cases hi : indexOf s p with
    | none =>
      have habs := (absent_iff_indexOf s p).2 hi
      rw [splitOn_absent s p n hp habs]
      exact .absent n s habs
    | some k =>
      obtain ⟨hk, hpre, _⟩ := indexOf_spec s p k hi
      obtain ⟨rest, hs⟩ := occ_of_prefix_drop hpre
      have hlen : (s.take k).length = k := by rw [List.length_take, Nat.min_eq_left hk]
      have hi' : indexOf s p = some (s.take k).length := by rw [hlen]; exact hi
      have hmin := (first_iff_indexOf s p (s.take k) rest hs).2 hi'
      have hpl : 0 < p.length := List.length_pos_iff.2 hp
      have hrl : rest.length ≤ m := by
        have := congrArg List.length hs
        simp only [List.length_append] at this
        omega
      match n with
      | none =>
        rw [splitOn_first s p _ rest hp hs hmin]
        exact .first s _ rest _ hs hmin (ih rest none hrl)
      | some 0 =>
        rw [splitOn_stop]; exact .stop s
      | some (j + 1) =>
        rw [splitOn_first_limit s p _ rest j hp hs hmin]
        exact .firstLimit j s _ rest _ hs hmin (ih rest (some j) hrl)

/-- existence: for a non-empty separator every string has a leftmost split, the one the model computes -/
theorem leftmostSplit_splitOn (p s : List Nat) (n : Option Nat) (hp : p ≠ []) : LeftmostSplit p n s (splitOn s p n) :=
  splitOn_leftmost p hp s.length s n (Nat.le_refl _)

example : LeftmostSplit [0x61, 0x61] none [0x61, 0x61, 0x61] [[], [0x61]] :=
  leftmostSplit_splitOn [0x61, 0x61] [0x61, 0x61, 0x61] none (by decide)

/-- two shortest prefixes followed by `p` in the same string are the same decomposition -/
theorem first_unique {p s a rest a' rest' : List Nat} (hs : s = a ++ p ++ rest) (hs' : s = a' ++ p ++ rest')
    (hmin : ∀ b r, s = b ++ p ++ r → a.length ≤ b.length) (hmin' : ∀ b r, s = b ++ p ++ r → a'.length ≤ b.length) :
    a = a' ∧ rest = rest' := by
  have h1 := hmin _ _ hs'
  have h2 := hmin' _ _ hs
  have e : a ++ (p ++ rest) = a' ++ (p ++ rest') := by rw [← List.append_assoc, ← List.append_assoc, ← hs, ← hs']
  obtain ⟨ea, er⟩ := List.append_inj e (by omega)
  exact ⟨ea, List.append_cancel_left er⟩

/-- the specification is FUNCTIONAL: the same separator, limit and string are related to at most one list of pieces
    (no hypothesis on the separator is needed for this half) -/
theorem LeftmostSplit.functional {p : List Nat} {n : Option Nat} {s : List Nat} {o1 o2 : List (List Nat)}
    (h1 : LeftmostSplit p n s o1) (h2 : LeftmostSplit p n s o2) : o1 = o2 := by
  induction h1 generalizing o2 with
  | absent n s h =>
    cases h2 with
    | absent _ _ _ => rfl
    | stop _ => rfl
    | first _ a rest _ hs _ _ => exact absurd hs (h _ _)
    | firstLimit _ _ a rest _ hs _ _ => exact absurd hs (h _ _)
  | stop s =>
    cases h2 with
    | absent _ _ _ => rfl
    | stop _ => rfl
  | first s a rest out hs hmin _ ih =>
    cases h2 with
    | absent _ _ h => exact absurd hs (h _ _)
    | first _ a' rest' out' hs' hmin' hrest' =>
      obtain ⟨ea, er⟩ := first_unique hs hs' hmin hmin'
      subst ea; subst er
      rw [ih hrest']
  | firstLimit k s a rest out hs hmin _ ih =>
    cases h2 with
    | absent _ _ h => exact absurd hs (h _ _)
    | firstLimit _ _ a' rest' out' hs' hmin' hrest' =>
      obtain ⟨ea, er⟩ := first_unique hs hs' hmin hmin'
      subst ea; subst er
      rw [ih hrest']

/-- complete characterisation: for a non-empty separator, being a leftmost split of `s` IS being `splitOn s p n` -/
theorem leftmostSplit_iff (p s : List Nat) (n : Option Nat) (out : List (List Nat)) (hp : p ≠ []) :
    LeftmostSplit p n s out ↔ out = splitOn s p n :=
  ⟨fun h => h.functional (leftmostSplit_splitOn p s n hp), fun e => e ▸ leftmostSplit_splitOn p s n hp⟩

/-! ### example: "aaa" on "aa" -/

/-- "aaa" split on "aa" is ["", "a"] in the model … -/
example : splitOn [0x61, 0x61, 0x61] [0x61, 0x61] none = [[], [0x61]] := by decide

/-- … and ["a", ""] — which also joins back to "aaa" and has no piece containing "aa" — is NOT a leftmost split -/
theorem aaa_not_rightmost : ¬ LeftmostSplit [0x61, 0x61] none [0x61, 0x61, 0x61] [[0x61], []] := by
  intro h
  have := (leftmostSplit_iff _ _ _ _ (by decide)).1 h
  revert this; decide

example : joinStrs [0x61, 0x61] [[0x61], []] = [0x61, 0x61, 0x61] ∧
    (∀ o ∈ [[0x61], ([] : List Nat)], indexOf o [0x61, 0x61] = none) := by decide

/-! ### the builtins -/

/-- `split(s, sep)` with non-empty subject and separator cuts at the leftmost occurrences IN CODE POINTS: for the code
    points `cs` of the subject and `ps` of the separator, the result is the array of the encodings of the pieces of
    any (= the unique) `LeftmostSplit ps none cs` -/
theorem split_leftmost (cs ps : List Nat) (hcs : Scalars cs) (hps : Scalars ps) (hc : cs ≠ []) (hp : ps ≠ [])
    (pieces : List (List Nat)) (h : LeftmostSplit ps none cs pieces) :
    split (.str (encodeAll cs)) (.str (encodeAll ps)) = .ok (strsToArr (pieces.map encodeAll)) := by
  rw [(leftmostSplit_iff ps cs none pieces hp).1 h]
  exact C11R.split_sep_codepoints cs ps hcs hps hc hp

/-- the same, stated with existence and uniqueness of the pieces -/
theorem split_leftmost_unique (cs ps : List Nat) (hcs : Scalars cs) (hps : Scalars ps) (hc : cs ≠ []) (hp : ps ≠ []) :
    ∃ pieces, LeftmostSplit ps none cs pieces ∧ (∀ q, LeftmostSplit ps none cs q → q = pieces) ∧
      split (.str (encodeAll cs)) (.str (encodeAll ps)) = .ok (strsToArr (pieces.map encodeAll)) :=
  ⟨splitOn cs ps none, leftmostSplit_splitOn ps cs none hp, fun _ hq => (leftmostSplit_iff ps cs none _ hp).1 hq,
    C11R.split_sep_codepoints cs ps hcs hps hc hp⟩

/-- `split(s, sep, n)` with a positive count `n` (in any numeric representation accepted as an integer): at most `n`
    cuts, at the leftmost occurrences in code points -/
theorem split_count_leftmost (cs ps : List Nat) (hcs : Scalars cs) (hps : Scalars ps) (hc : cs ≠ []) (hp : ps ≠ [])
    {v : Val} {n : Int} (hv : intArg v = .ok n) (hn : 0 < n)
    (pieces : List (List Nat)) (h : LeftmostSplit ps (some n.toNat) cs pieces) :
    splitCount (.str (encodeAll cs)) (.str (encodeAll ps)) v = .ok (strsToArr (pieces.map encodeAll)) := by
  rw [(leftmostSplit_iff ps cs _ pieces hp).1 h]
  exact Jmes.C11B.split_count_sep_codepoints_any cs ps hcs hps hc hp hv hn

/-- "ééé" (6 bytes, 3 code points) split on "éé": the pieces are "" and "é" — leftmost in code points -/
example : split (.str [0xC3, 0xA9, 0xC3, 0xA9, 0xC3, 0xA9]) (.str [0xC3, 0xA9, 0xC3, 0xA9])
    = .ok (.arr .plain [.str [], .str [0xC3, 0xA9]]) :=
  split_leftmost [0xE9, 0xE9, 0xE9] [0xE9, 0xE9] (by unfold Scalars; decide) (by unfold Scalars; decide)
    (by decide) (by decide) [[], [0xE9]]
    ((leftmostSplit_iff [0xE9, 0xE9] [0xE9, 0xE9, 0xE9] none _ (by decide)).2 (by decide))

/-- and ["é", ""] is not a leftmost split of "ééé" on "éé" -/
example : ¬ LeftmostSplit [0xE9, 0xE9] none [0xE9, 0xE9, 0xE9] [[0xE9], []] := by
  intro h
  have := (leftmostSplit_iff _ _ _ _ (by decide)).1 h
  revert this; decide

/-- "ééé" on "é" with one cut allowed (the count given as the JSON number `1`): "", "éé" -/
example : splitCount (.str [0xC3, 0xA9, 0xC3, 0xA9, 0xC3, 0xA9]) (.str [0xC3, 0xA9]) (.num (.jnum [0x31]))
    = .ok (.arr .plain [.str [], .str [0xC3, 0xA9, 0xC3, 0xA9]]) :=
  split_count_leftmost [0xE9, 0xE9, 0xE9] [0xE9] (by unfold Scalars; decide) (by unfold Scalars; decide)
    (by decide) (by decide) (Jmes.C11B.intArg_jnum (t := [0x31]) (i := 1) (by decide)) (by decide) [[], [0xE9, 0xE9]]
    ((leftmostSplit_iff [0xE9] [0xE9, 0xE9, 0xE9] (some 1) _ (by decide)).2 (by decide))


end Jmes.C11C.Split
