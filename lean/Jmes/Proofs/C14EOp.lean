/-
  Helper for property C14, fourth round: the arithmetic operators on operands whose floats are dyadics of a given
  grade (`DyF ⟨h, s⟩`: `±v·2^-s`, `v ≤ 2^(h+s)`), with a per-operator accounting:

      +, -   :  ⟨max h + 1, max s⟩         *  :  ⟨h₁ + h₂, s₁ + s₂⟩        //, %  (integers, s = 0)  :  ⟨max h, 0⟩

  As long as the grade of the result is within budget (`Gr.OK`: `h + s ≤ 52`, `2^h·10^s < 10^34`), related operands
  (`VR false`: same values, any mix of `float64`, `float32`, `json.Number`, decimal, integer kinds) give related
  outcomes, and a float result is a dyadic of the result grade.  Finally the instance `dyGrading` of the abstract
  accounting of `C14EGrade.lean`.
-/
import Jmes.Proofs.C14EFloat
import Jmes.Proofs.C14EDec
import Jmes.Proofs.C14EGrade
namespace Jmes
namespace C14E
open C14 C14B C14C

/-! ## 1. the operator on values, abstractly -/

/-- what is needed of an arithmetic operator at the grades `ga`, `gb` → `gr`: on dyadic floats its binary64 path returns
    the dyadic float `g z₁ z₂ · 2^-sr` (`zᵢ` the numerators of the operands), or NaN/Inf where `g` is undefined; on
    decimals of the same two values its decimal128 path returns a decimal of that value (or NaN/Inf) -/
structure DyOp (fop : F64 → F64 → F64) (dop : Dec → Dec → Dec) (ga gb gr : Gr) (g : Int → Int → Option Int) :
    Prop where
  fl_some : ∀ n1 v1 n2 v2 r, v1 ≤ 2 ^ (ga.h + ga.s) → v2 ≤ 2 ^ (gb.h + gb.s) →
    g (Dec.intVal n1 v1) (Dec.intVal n2 v2) = some r →
    ∃ n w, fop (F64.mk n1 v1 (-(ga.s : Int))) (F64.mk n2 v2 (-(gb.s : Int))) = F64.mk n w (-(gr.s : Int)) ∧
      Dec.intVal n w = r ∧ w ≤ 2 ^ (gr.h + gr.s)
  fl_none : ∀ n1 v1 n2 v2, v1 ≤ 2 ^ (ga.h + ga.s) → v2 ≤ 2 ^ (gb.h + gb.s) →
    g (Dec.intVal n1 v1) (Dec.intVal n2 v2) = none →
    checkF (fop (F64.mk n1 v1 (-(ga.s : Int))) (F64.mk n2 v2 (-(gb.s : Int)))) = errNaN
  de_some : ∀ a b z1 z2 r, IsDy a z1 ga.s → IsDy b z2 gb.s → z1.natAbs ≤ 2 ^ (ga.h + ga.s) →
    z2.natAbs ≤ 2 ^ (gb.h + gb.s) → g z1 z2 = some r → IsDy (dop a b) r gr.s
  de_none : ∀ a b z1 z2, IsDy a z1 ga.s → IsDy b z2 gb.s → g z1 z2 = none → (dop a b).isSpecial = true
  same : ∀ {a a' b b'}, Dec.cmp a a' = some 0 → Dec.cmp b b' = some 0 → Dec.Same (dop a b) (dop a' b')
  hbd : ∀ {a a' b b'}, DR a a' → DR b b' → ((dop a b).Bounded ∧ (dop a' b').Bounded) ∨ dop a b = dop a' b'
  bdd : ∀ {a b}, a.Bounded → b.Bounded → (dop a b).Bounded

section
variable {fop : F64 → F64 → F64} {dop : Dec → Dec → Dec} {ga gb gr : Gr} {g : Int → Int → Option Int}

/-- a related pair of values, the first a dyadic float: the decimals of both sides -/
theorem dec_of_float {x x' : Val} {n : Bool} {v : Nat} {s : Nat} (hx : VR false x x')
    (h1 : toFloat x = some (F64.mk n v (-(s : Int)))) (hv : v * 5 ^ s ≤ Dec.MAXSIG) (hs : s ≤ 1074) :
    toDecimal x = some (F64.mk n v (-(s : Int))).toDec ∧
      ∃ d', toDecimal x' = some d' ∧ IsDy d' (Dec.intVal n v) s ∧ d'.Bounded := by
  have dx : toDecimal x = some (F64.mk n v (-(s : Int))).toDec := by
    rcases toFloat_cases x with ⟨f, e1, e2, _⟩ | e
    · rw [h1] at e1; cases e1; exact e2
    · rw [h1] at e; cases e
  refine ⟨dx, ?_⟩
  rcases toDecimal_dr hx with ⟨e1, _⟩ | ⟨d1, d1', e1, e1', r1⟩
  · rw [dx] at e1; cases e1
  rw [dx] at e1; cases e1
  refine ⟨d1', e1', (isDy_toDec_mk n v s hv hs).congr r1.1, ?_⟩
  rcases r1.2 with ⟨_, b⟩ | e
  · exact b
  · rw [← e]; exact F64.toDec_bounded _

/-- both operands dyadic floats on the left; anything related on the right -/
theorem arith_ff_any_dy (I : DyOp fop dop ga gb gr g) (oka : ga.OK) (okb : gb.OK) (okr : gr.OK) {x x' y y' : Val}
    {f1 f2 : F64} (hx : VR false x x') (hy : VR false y y') (h1 : toFloat x = some f1) (h2 : toFloat y = some f2)
    (p1 : DyF ga f1) (p2 : DyF gb f2) (fx' : AllF (DyF ga) x') (fy' : AllF (DyF gb) y') :
    RR (VR false) (arith fop dop x y) (arith fop dop x' y') := by
  obtain ⟨n1, v1, hv1, rfl⟩ := p1
  obtain ⟨n2, v2, hv2, rfl⟩ := p2
  obtain ⟨a53, aM, as⟩ := oka.bounds hv1
  obtain ⟨b53, bM, bs⟩ := okb.bounds hv2
  obtain ⟨dx, d1', e1', i1', bd1⟩ := dec_of_float hx h1 aM as
  obtain ⟨dy, d2', e2', i2', bd2⟩ := dec_of_float hy h2 bM bs
  rw [arith_ff fop dop h1 h2]
  -- the float result on the left, when defined
  have left_ok : ∀ r, g (Dec.intVal n1 v1) (Dec.intVal n2 v2) = some r → ∃ n w,
      fop (F64.mk n1 v1 (-(ga.s : Int))) (F64.mk n2 v2 (-(gb.s : Int))) = F64.mk n w (-(gr.s : Int)) ∧
      FOK (F64.mk n w (-(gr.s : Int))) ∧ IsDy (F64.mk n w (-(gr.s : Int))).toDec r gr.s := by
    intro r hg
    obtain ⟨n, w, ew, ev, hw⟩ := I.fl_some _ _ _ _ r hv1 hv2 hg
    obtain ⟨w53, wM, ws⟩ := okr.bounds hw
    refine ⟨n, w, ew, fok_mk_dy n w gr.s w53 wM ws, ?_⟩
    rw [← ev]; exact isDy_toDec_mk n w gr.s wM ws
  -- the decimal path on the right
  have right_dec : toFloatPair x' y' = none →
      RR (VR false) (checkF (fop (F64.mk n1 v1 (-(ga.s : Int))) (F64.mk n2 v2 (-(gb.s : Int)))))
        (arith fop dop x' y') := by
    intro hp
    rw [C14BF.arith_decimal fop dop hp e1' e2']
    cases hg : g (Dec.intVal n1 v1) (Dec.intVal n2 v2) with
    | none =>
      rw [I.fl_none _ _ _ _ hv1 hv2 hg, checkD_special (I.de_none _ _ _ _ i1' i2' hg)]
      exact rr_errNaN
    | some r =>
      obtain ⟨n, w, ew, fk, iw⟩ := left_ok r hg
      have ir := I.de_some _ _ _ _ r i1' i2' (by rw [intVal_natAbs]; exact hv1) (by rw [intVal_natAbs]; exact hv2) hg
      rw [ew, C14BF.checkF_mk, checkD_isDy ir]
      refine RR.ok' ?_
      simp only [VR]
      exact ⟨⟨_, _, rfl, rfl, iw.same_value ir⟩, .inl ⟨fk, I.bdd bd1 bd2⟩, fun e => by cases e⟩
  rcases toFloat_cases x' with ⟨f1', g1, g1d, q1⟩ | g1
  · rcases toFloat_cases y' with ⟨f2', g2, g2d, q2⟩ | g2
    · -- float pair on both sides
      obtain ⟨n1', v1', hv1', rfl⟩ := q1 _ fx'
      obtain ⟨n2', v2', hv2', rfl⟩ := q2 _ fy'
      obtain ⟨_, aM', _⟩ := oka.bounds hv1'
      obtain ⟨_, bM', _⟩ := okb.bounds hv2'
      rw [arith_ff fop dop g1 g2]
      rw [e1'] at g1d; rw [e2'] at g2d
      cases g1d; cases g2d
      have z1 : Dec.intVal n1' v1' = Dec.intVal n1 v1 := (isDy_toDec_mk n1' v1' ga.s aM' as).unique i1'
      have z2 : Dec.intVal n2' v2' = Dec.intVal n2 v2 := (isDy_toDec_mk n2' v2' gb.s bM' bs).unique i2'
      cases hg : g (Dec.intVal n1 v1) (Dec.intVal n2 v2) with
      | none =>
        rw [I.fl_none _ _ _ _ hv1 hv2 hg, I.fl_none _ _ _ _ hv1' hv2' (by rw [z1, z2]; exact hg)]
        exact rr_errNaN
      | some r =>
        obtain ⟨n, w, ew, fk, iw⟩ := left_ok r hg
        obtain ⟨n', w', ew', ev', hw'⟩ := I.fl_some _ _ _ _ r hv1' hv2' (by rw [z1, z2]; exact hg)
        obtain ⟨w53', wM', ws'⟩ := okr.bounds hw'
        rw [ew, ew', C14BF.checkF_mk, C14BF.checkF_mk]
        refine RR.ok' ?_
        simp only [VR]
        refine ⟨⟨_, _, rfl, rfl, ?_⟩, .inl ⟨fk, fok_mk_dy n' w' gr.s w53' wM' ws'⟩, fun e => by cases e⟩
        have a2 := isDy_toDec_mk n' w' gr.s wM' ws'
        rw [ev'] at a2
        exact iw.same_value a2
    · exact right_dec (toFloatPair_none_of (.inr g2))
  · exact right_dec (toFloatPair_none_of (.inl g1))

/-- **an arithmetic operator on related operands whose floats are dyadics of grades `ga`, `gb`, the result grade within
    budget**: the same error, or results of the same value — whatever mix of representations on either side -/
theorem arith_dy_rr (I : DyOp fop dop ga gb gr g) (oka : ga.OK) (okb : gb.OK) (okr : gr.OK) {x x' y y' : Val}
    (hx : VR false x x') (hy : VR false y y') (fx : AllF (DyF ga) x) (fx' : AllF (DyF ga) x')
    (fy : AllF (DyF gb) y) (fy' : AllF (DyF gb) y') :
    RR (VR false) (arith fop dop x y) (arith fop dop x' y') := by
  rcases toDecimal_dr hx with ⟨e1, e1'⟩ | ⟨d1, d1', e1, e1', r1⟩
  · rw [arith_none_left fop dop y e1, arith_none_left fop dop y' e1']; exact rr_errType
  rcases toDecimal_dr hy with ⟨e2, e2'⟩ | ⟨d2, d2', e2, e2', r2⟩
  · rw [arith_none_right fop dop x e2, arith_none_right fop dop x' e2']; exact rr_errType
  rcases toFloat_cases x with ⟨f1, g1, _, q1⟩ | g1
  · rcases toFloat_cases y with ⟨f2, g2, _, q2⟩ | g2
    · exact arith_ff_any_dy I oka okb okr hx hy g1 g2 (q1 _ fx) (q2 _ fy) fx' fy'
    · rcases toFloat_cases x' with ⟨f1', g1', _, q1'⟩ | g1'
      · rcases toFloat_cases y' with ⟨f2', g2', _, q2'⟩ | g2'
        · exact rr_symm (arith_ff_any_dy I oka okb okr (vr_symm _ _ hx) (vr_symm _ _ hy) g1' g2' (q1' _ fx')
            (q2' _ fy') fx fy)
        · rw [C14BF.arith_decimal fop dop (toFloatPair_none_of (.inr g2)) e1 e2,
            C14BF.arith_decimal fop dop (toFloatPair_none_of (.inr g2')) e1' e2']
          exact checkD_rr (I.same r1.1 r2.1) (I.hbd r1 r2)
      · rw [C14BF.arith_decimal fop dop (toFloatPair_none_of (.inr g2)) e1 e2,
          C14BF.arith_decimal fop dop (toFloatPair_none_of (.inl g1')) e1' e2']
        exact checkD_rr (I.same r1.1 r2.1) (I.hbd r1 r2)
  · rcases toFloat_cases x' with ⟨f1', g1', _, q1'⟩ | g1'
    · rcases toFloat_cases y' with ⟨f2', g2', _, q2'⟩ | g2'
      · exact rr_symm (arith_ff_any_dy I oka okb okr (vr_symm _ _ hx) (vr_symm _ _ hy) g1' g2' (q1' _ fx')
          (q2' _ fy') fx fy)
      · rw [C14BF.arith_decimal fop dop (toFloatPair_none_of (.inl g1)) e1 e2,
          C14BF.arith_decimal fop dop (toFloatPair_none_of (.inr g2')) e1' e2']
        exact checkD_rr (I.same r1.1 r2.1) (I.hbd r1 r2)
    · rw [C14BF.arith_decimal fop dop (toFloatPair_none_of (.inl g1)) e1 e2,
        C14BF.arith_decimal fop dop (toFloatPair_none_of (.inl g1')) e1' e2']
      exact checkD_rr (I.same r1.1 r2.1) (I.hbd r1 r2)

theorem arith_result_noFloat_dy {x y w : Val} (hp : toFloatPair x y = none) (h : arith fop dop x y = .ok w) :
    w.NoFloat := by
  simp only [arith, hp] at h
  split at h
  · simp [errType] at h
  · split at h
    · simp [errType] at h
    · exact checkD_noFloat h

/-- … and a float result is a dyadic of the result grade: exactly representable -/
theorem arith_dy_fb (I : DyOp fop dop ga gb gr g) {x y w : Val} (fx : AllF (DyF ga) x) (fy : AllF (DyF gb) y)
    (h : arith fop dop x y = .ok w) : AllF (DyF gr) w := by
  rcases toFloat_cases x with ⟨f1, g1, _, q1⟩ | g1
  · rcases toFloat_cases y with ⟨f2, g2, _, q2⟩ | g2
    · obtain ⟨n1, v1, hv1, rfl⟩ := q1 _ fx
      obtain ⟨n2, v2, hv2, rfl⟩ := q2 _ fy
      rw [arith_ff fop dop g1 g2] at h
      cases hg : g (Dec.intVal n1 v1) (Dec.intVal n2 v2) with
      | none => rw [I.fl_none _ _ _ _ hv1 hv2 hg] at h; simp [errNaN] at h
      | some r =>
        obtain ⟨n, w0, ew, _, hw⟩ := I.fl_some _ _ _ _ r hv1 hv2 hg
        rw [ew, C14BF.checkF_mk] at h
        cases h
        simp only [allF_f64]; exact ⟨n, w0, hw, rfl⟩
    · exact allF_of_noFloat _ (arith_result_noFloat_dy (toFloatPair_none_of (.inr g2)) h)
  · exact allF_of_noFloat _ (arith_result_noFloat_dy (toFloatPair_none_of (.inl g1)) h)

end

/-! ## 2. the five operators -/

theorem pow_le_pow2 {a b : Nat} (h : a ≤ b) : 2 ^ a ≤ 2 ^ b := Nat.pow_le_pow_right (by decide) h

theorem intVal_mul_pow (n : Bool) (v d : Nat) : Dec.intVal n (v * 2 ^ d) = Dec.intVal n v * 2 ^ d := by
  cases n <;> simp [Dec.intVal, Int.natCast_mul, Int.natCast_pow, Int.neg_mul]

/-- a dyadic float at a finer scale -/
theorem mk_finer (n : Bool) (v : Nat) {s s' : Nat} (h : s ≤ s') :
    F64.mk n v (-(s : Int)) = F64.mk n (v * 2 ^ (s' - s)) (-(s' : Int)) := by
  have := mk_rescale n v s (s' - s)
  rw [show s + (s' - s) = s' by omega] at this
  exact this.symm

theorem scaled_le {v h s s' H : Nat} (hv : v ≤ 2 ^ (h + s)) (hs : s ≤ s') (hH : h ≤ H) :
    v * 2 ^ (s' - s) ≤ 2 ^ (H + s') := by
  have : 2 ^ (H + s') = 2 ^ (H + s) * 2 ^ (s' - s) := by rw [← Nat.pow_add]; congr 1; omega
  rw [this]
  exact Nat.mul_le_mul_right _ (Nat.le_trans hv (pow_le_pow2 (by omega)))

theorem IsDy.finer {d : Dec} {z : Int} {s s' : Nat} (h : IsDy d z s) (hs : s ≤ s') :
    IsDy d (z * 2 ^ (s' - s)) s' := by
  have := h.rescale (s' - s)
  rw [show s + (s' - s) = s' by omega] at this
  exact this

theorem natAbs_mul_pow (z : Int) (d : Nat) : (z * 2 ^ d).natAbs = z.natAbs * 2 ^ d := by
  rw [Int.natAbs_mul, Int.natAbs_pow]; rfl

/-- the numerator of the sum at the common scale -/
def gsum (ga gb : Gr) (sgn : Int) (z1 z2 : Int) : Option Int :=
  some (z1 * 2 ^ (max ga.s gb.s - ga.s) + sgn * (z2 * 2 ^ (max ga.s gb.s - gb.s)))

theorem sum_bound {ga gb : Gr} {a b : Nat} (ha : a ≤ 2 ^ (max ga.h gb.h + max ga.s gb.s))
    (hb : b ≤ 2 ^ (max ga.h gb.h + max ga.s gb.s)) : a + b ≤ 2 ^ ((gAdd ga gb).h + (gAdd ga gb).s) := by
  have : 2 ^ ((gAdd ga gb).h + (gAdd ga gb).s) = 2 * 2 ^ (max ga.h gb.h + max ga.s gb.s) := by
    simp only [gAdd]
    rw [show max ga.h gb.h + 1 + max ga.s gb.s = (max ga.h gb.h + max ga.s gb.s) + 1 by omega, Nat.pow_succ]
    omega
  omega

theorem dyOp_add (ga gb : Gr) (ok : (gAdd ga gb).OK) : DyOp F64.add Dec.add ga gb (gAdd ga gb) (gsum ga gb 1) where
  fl_some := by
    intro n1 v1 n2 v2 r h1 h2 hg
    simp only [gsum, Int.one_mul, Option.some.injEq] at hg
    have s1 : v1 * 2 ^ (max ga.s gb.s - ga.s) ≤ 2 ^ (max ga.h gb.h + max ga.s gb.s) :=
      scaled_le h1 (Nat.le_max_left _ _) (Nat.le_max_left _ _)
    have s2 : v2 * 2 ^ (max ga.s gb.s - gb.s) ≤ 2 ^ (max ga.h gb.h + max ga.s gb.s) :=
      scaled_le h2 (Nat.le_max_right _ _) (Nat.le_max_right _ _)
    have sb := sum_bound (ga := ga) (gb := gb) s1 s2
    obtain ⟨b53, _, bs⟩ := ok.bounds sb
    rw [mk_finer n1 v1 (Nat.le_max_left ga.s gb.s), mk_finer n2 v2 (Nat.le_max_right ga.s gb.s)]
    obtain ⟨n, w, e1, e2, e3⟩ := add_dy n1 n2 _ _ (max ga.s gb.s) bs b53
    refine ⟨n, w, e1, ?_, Nat.le_trans e3 sb⟩
    rw [e2, intVal_mul_pow, intVal_mul_pow, ← hg]
  fl_none := by intro _ _ _ _ _ _ h; simp [gsum] at h
  de_some := by
    intro a b z1 z2 r ha hb h1 h2 hg
    simp only [gsum, Int.one_mul, Option.some.injEq] at hg
    subst hg
    have s1 := scaled_le (s' := max ga.s gb.s) (H := max ga.h gb.h) h1 (Nat.le_max_left _ _) (Nat.le_max_left _ _)
    have s2 := scaled_le (s' := max ga.s gb.s) (H := max ga.h gb.h) h2 (Nat.le_max_right _ _) (Nat.le_max_right _ _)
    rw [← natAbs_mul_pow] at s1 s2
    have sb := sum_bound (ga := ga) (gb := gb) s1 s2
    refine isDy_add (ha.finer (Nat.le_max_left _ _)) (hb.finer (Nat.le_max_right _ _)) ?_
    exact (ok.bounds (Nat.le_trans (Int.natAbs_add_le _ _) sb)).2.1
  de_none := by intro _ _ _ _ _ _ h; simp [gsum] at h
  same := Dec.add_same
  hbd := fun ha hb => Dec.add_bounded_or ha.1 hb.1 ha.2 hb.2
  bdd := add_bounded

theorem dyOp_sub (ga gb : Gr) (ok : (gAdd ga gb).OK) : DyOp F64.sub Dec.sub ga gb (gAdd ga gb) (gsum ga gb (-1)) where
  fl_some := by
    intro n1 v1 n2 v2 r h1 h2 hg
    simp only [gsum, Option.some.injEq] at hg
    have s1 : v1 * 2 ^ (max ga.s gb.s - ga.s) ≤ 2 ^ (max ga.h gb.h + max ga.s gb.s) :=
      scaled_le h1 (Nat.le_max_left _ _) (Nat.le_max_left _ _)
    have s2 : v2 * 2 ^ (max ga.s gb.s - gb.s) ≤ 2 ^ (max ga.h gb.h + max ga.s gb.s) :=
      scaled_le h2 (Nat.le_max_right _ _) (Nat.le_max_right _ _)
    have sb := sum_bound (ga := ga) (gb := gb) s1 s2
    obtain ⟨b53, _, bs⟩ := ok.bounds sb
    rw [mk_finer n1 v1 (Nat.le_max_left ga.s gb.s), mk_finer n2 v2 (Nat.le_max_right ga.s gb.s)]
    obtain ⟨n, w, e1, e2, e3⟩ := sub_dy n1 n2 _ _ (max ga.s gb.s) bs b53
    refine ⟨n, w, e1, ?_, Nat.le_trans e3 sb⟩
    rw [e2, intVal_mul_pow, intVal_mul_pow, ← hg]
    omega
  fl_none := by intro _ _ _ _ _ _ h; simp [gsum] at h
  de_some := by
    intro a b z1 z2 r ha hb h1 h2 hg
    simp only [gsum, Option.some.injEq] at hg
    subst hg
    have s1 := scaled_le (s' := max ga.s gb.s) (H := max ga.h gb.h) h1 (Nat.le_max_left _ _) (Nat.le_max_left _ _)
    have s2 := scaled_le (s' := max ga.s gb.s) (H := max ga.h gb.h) h2 (Nat.le_max_right _ _) (Nat.le_max_right _ _)
    rw [← natAbs_mul_pow] at s1 s2
    have sb := sum_bound (ga := ga) (gb := gb) s1 s2
    have e : z1 * 2 ^ (max ga.s gb.s - ga.s) + -1 * (z2 * 2 ^ (max ga.s gb.s - gb.s)) =
        z1 * 2 ^ (max ga.s gb.s - ga.s) - z2 * 2 ^ (max ga.s gb.s - gb.s) := by omega
    rw [e]
    refine isDy_sub (ha.finer (Nat.le_max_left _ _)) (hb.finer (Nat.le_max_right _ _)) ?_
    refine (ok.bounds (Nat.le_trans ?_ sb)).2.1
    omega
  de_none := by intro _ _ _ _ _ _ h; simp [gsum] at h
  same := Dec.sub_same
  hbd := fun ha hb => by
    rw [Dec.sub_eq_add_neg, Dec.sub_eq_add_neg]
    exact Dec.add_bounded_or ha.1 (dr_neg hb).1 ha.2 (dr_neg hb).2
  bdd := sub_bounded

theorem mul_bound {ga gb : Gr} {a b : Nat} (ha : a ≤ 2 ^ (ga.h + ga.s)) (hb : b ≤ 2 ^ (gb.h + gb.s)) :
    a * b ≤ 2 ^ ((gMul ga gb).h + (gMul ga gb).s) := by
  have : 2 ^ ((gMul ga gb).h + (gMul ga gb).s) = 2 ^ (ga.h + ga.s) * 2 ^ (gb.h + gb.s) := by
    simp only [gMul]; rw [← Nat.pow_add]; congr 1; omega
  rw [this]
  exact Nat.mul_le_mul ha hb

theorem dyOp_mul (ga gb : Gr) (ok : (gMul ga gb).OK) :
    DyOp F64.mul Dec.mul ga gb (gMul ga gb) (fun a b => some (a * b)) where
  fl_some := by
    intro n1 v1 n2 v2 r h1 h2 hg
    cases hg
    have mb := mul_bound h1 h2
    obtain ⟨b53, _, bs⟩ := ok.bounds mb
    exact ⟨_, _, mul_dy n1 n2 v1 v2 ga.s gb.s bs b53, intVal_mul n1 n2 v1 v2, mb⟩
  fl_none := by intro _ _ _ _ _ _ h; cases h
  de_some := by
    intro a b z1 z2 r ha hb h1 h2 hg
    cases hg
    refine isDy_mul ha hb ?_
    have mb := mul_bound h1 h2
    rw [← Int.natAbs_mul] at mb
    exact (ok.bounds mb).2.1
  de_none := by intro _ _ _ _ _ _ h; cases h
  same := Dec.mul_same
  hbd := fun _ _ => .inl ⟨Dec.mul_bounded _ _, Dec.mul_bounded _ _⟩
  bdd := fun _ _ => Dec.mul_bounded _ _

/-- the grade of two integer operands joined -/
def gInt (a b : Nat) : Gr := ⟨max a b, 0⟩

theorem okInt_bounds {a b : Nat} (ok : (gInt a b).OK) {v1 v2 : Nat} (h1 : v1 ≤ 2 ^ (a + 0)) (h2 : v2 ≤ 2 ^ (b + 0)) :
    v1 < 2 ^ 53 ∧ v2 < 2 ^ 53 ∧ v1 ≤ Dec.MAXSIG ∧ v1 ≤ 2 ^ ((gInt a b).h + (gInt a b).s) := by
  have l1 : v1 ≤ 2 ^ ((gInt a b).h + (gInt a b).s) :=
    Nat.le_trans h1 (pow_le_pow2 (by simp only [gInt]; omega))
  have l2 : v2 ≤ 2 ^ ((gInt a b).h + (gInt a b).s) :=
    Nat.le_trans h2 (pow_le_pow2 (by simp only [gInt]; omega))
  obtain ⟨x1, x2, _⟩ := ok.bounds l1
  obtain ⟨y1, _, _⟩ := ok.bounds l2
  simp only [gInt, Nat.pow_zero, Nat.mul_one] at x2
  exact ⟨x1, y1, x2, l1⟩

theorem dyOp_idiv (a b : Nat) (ok : (gInt a b).OK) :
    DyOp (fun x y => (F64.div x y).trunc) (fun x y => (Dec.quoRem x y).1) ⟨a, 0⟩ ⟨b, 0⟩ (gInt a b) gdiv where
  fl_some := by
    intro n1 v1 n2 v2 r h1 h2 hg
    obtain ⟨b1, b2, _, b4⟩ := okInt_bounds ok h1 h2
    simp only [gdiv] at hg
    split at hg
    · cases hg
    · next hz =>
      cases hg
      have hz' : v2 ≠ 0 := fun e => hz (intVal_eq_zero.mpr e)
      exact ⟨_, _, idiv_mk n1 n2 v1 v2 b1 b2 hz', intVal_tdiv n1 n2 v1 v2,
        Nat.le_trans (Nat.div_le_self _ _) b4⟩
  fl_none := by
    intro n1 v1 n2 v2 _ _ hg
    simp only [gdiv] at hg
    split at hg
    · next hz =>
      have := intVal_eq_zero.mp hz
      subst this
      exact checkF_idiv_zero n1 n2 v1
    · cases hg
  de_some := by
    intro x y z1 z2 r ha hb h1 h2 hg
    obtain ⟨_, _, b3, _⟩ := okInt_bounds ok h1 h2
    simp only [gdiv] at hg
    split at hg
    · cases hg
    · next hz =>
      cases hg
      exact isDy_zero_iff.mpr (isInt_idiv (isDy_zero_iff.mp ha) (isDy_zero_iff.mp hb) hz b3)
  de_none := by
    intro x y z1 z2 _ hb hg
    simp only [gdiv] at hg
    split at hg
    · next hz => subst hz; exact (quoRem_zero_special (isDy_zero_iff.mp hb)).1
    · cases hg
  same := Dec.idiv_same
  hbd := fun _ _ => .inl ⟨Dec.idiv_bounded _ _, Dec.idiv_bounded _ _⟩
  bdd := fun _ _ => Dec.idiv_bounded _ _

theorem dyOp_mod (a b : Nat) (ok : (gInt a b).OK) :
    DyOp F64.mod (fun x y => (Dec.quoRem x y).2) ⟨a, 0⟩ ⟨b, 0⟩ (gInt a b) gmod where
  fl_some := by
    intro n1 v1 n2 v2 r h1 h2 hg
    obtain ⟨b1, b2, _, b4⟩ := okInt_bounds ok h1 h2
    simp only [gmod] at hg
    split at hg
    · cases hg
    · next hz =>
      cases hg
      have hz' : v2 ≠ 0 := fun e => hz (intVal_eq_zero.mpr e)
      exact ⟨_, _, mod_mk n1 n2 v1 v2 hz', intVal_tmod n1 n2 v1 v2, Nat.le_trans (Nat.mod_le _ _) b4⟩
  fl_none := by
    intro n1 v1 n2 v2 _ _ hg
    simp only [gmod] at hg
    split at hg
    · next hz =>
      have := intVal_eq_zero.mp hz
      subst this
      exact checkF_mod_zero n1 n2 v1
    · cases hg
  de_some := by
    intro x y z1 z2 r ha hb h1 h2 hg
    obtain ⟨_, _, b3, _⟩ := okInt_bounds ok h1 h2
    simp only [gmod] at hg
    split at hg
    · cases hg
    · next hz =>
      cases hg
      exact isDy_zero_iff.mpr (isInt_mod (isDy_zero_iff.mp ha) (isDy_zero_iff.mp hb) hz b3)
  de_none := by
    intro x y z1 z2 _ hb hg
    simp only [gmod] at hg
    split at hg
    · next hz => subst hz; exact (quoRem_zero_special (isDy_zero_iff.mp hb)).2
    · cases hg
  same := Dec.mod_same
  hbd := fun ha hb => Dec.mod_bounded_or _ _ ha.2 (Dec.isSpecial_cmp hb.1)
    (fun h => Dec.isSpecial_of_cmp_zero_left hb.1 h)
  bdd := fun ha _ => mod_bounded _ ha

/-! ## 3. the binary operators of the expression language -/

/-- the grade of `a op b` -/
def opGr : BinOp → Gr → Gr → Gr
  | .add, a, b | .sub, a, b => gAdd a b
  | .mul, a, b => gMul a b
  | _, a, b => a.join b

/-- the budget check for `a op b`: the result grade is within budget; `//` and `%` only on integers; never `/` -/
def opOKb : BinOp → Gr → Gr → Bool
  | .add, a, b | .sub, a, b => decide (gAdd a b).OK
  | .mul, a, b => decide (gMul a b).OK
  | .idiv, a, b | .mod, a, b => decide (a.s = 0 ∧ b.s = 0 ∧ (a.join b).OK)
  | .div, _, _ => false
  | _, _, _ => true

theorem le_gAdd_left (a b : Gr) : Gr.le a (gAdd a b) := ⟨by simp only [gAdd]; omega, by simp only [gAdd]; omega⟩
theorem le_gAdd_right (a b : Gr) : Gr.le b (gAdd a b) := ⟨by simp only [gAdd]; omega, by simp only [gAdd]; omega⟩
theorem le_gMul_left (a b : Gr) : Gr.le a (gMul a b) := ⟨by simp only [gMul]; omega, by simp only [gMul]; omega⟩
theorem le_gMul_right (a b : Gr) : Gr.le b (gMul a b) := ⟨by simp only [gMul]; omega, by simp only [gMul]; omega⟩
theorem le_join_left (a b : Gr) : Gr.le a (a.join b) := ⟨by simp only [Gr.join]; omega, by simp only [Gr.join]; omega⟩
theorem le_join_right (a b : Gr) : Gr.le b (a.join b) := ⟨by simp only [Gr.join]; omega, by simp only [Gr.join]; omega⟩

theorem le_opGr_left (op : BinOp) (a b : Gr) : Gr.le a (opGr op a b) := by
  cases op <;> first | exact le_gAdd_left a b | exact le_gMul_left a b | exact le_join_left a b
theorem le_opGr_right (op : BinOp) (a b : Gr) : Gr.le b (opGr op a b) := by
  cases op <;> first | exact le_gAdd_right a b | exact le_gMul_right a b | exact le_join_right a b

/-- **`+ - * // %` on related operands whose floats are dyadics of grades `ga`, `gb`, within budget** -/
theorem applyBinOp_dy_rr {op : BinOp} {ga gb : Gr} (hcmp : op.isCmp = false) (hok : opOKb op ga gb = true)
    {a a' b b' : Val} (ha : VR false a a') (hb : VR false b b') (fa : AllF (DyF ga) a) (fa' : AllF (DyF ga) a')
    (fb : AllF (DyF gb) b) (fb' : AllF (DyF gb) b') :
    RR (VR false) (applyBinOp op a b) (applyBinOp op a' b') := by
  cases op <;> first | exact absurd hcmp (by decide) | skip
  case add =>
    have ok := of_decide_eq_true hok
    exact arith_dy_rr (dyOp_add ga gb ok) (ok.mono (le_gAdd_left _ _)) (ok.mono (le_gAdd_right _ _)) ok ha hb fa fa' fb fb'
  case sub =>
    have ok := of_decide_eq_true hok
    exact arith_dy_rr (dyOp_sub ga gb ok) (ok.mono (le_gAdd_left _ _)) (ok.mono (le_gAdd_right _ _)) ok ha hb fa fa' fb fb'
  case mul =>
    have ok := of_decide_eq_true hok
    exact arith_dy_rr (dyOp_mul ga gb ok) (ok.mono (le_gMul_left _ _)) (ok.mono (le_gMul_right _ _)) ok ha hb fa fa' fb fb'
  case div => cases hok
  case idiv =>
    obtain ⟨ah, as⟩ := ga
    obtain ⟨bh, bs⟩ := gb
    obtain ⟨e1, e2, ok⟩ := of_decide_eq_true hok
    simp only at e1 e2
    subst e1; subst e2
    exact arith_dy_rr (dyOp_idiv ah bh ok) (ok.mono (le_join_left _ _)) (ok.mono (le_join_right _ _)) ok
      ha hb fa fa' fb fb'
  case mod =>
    obtain ⟨ah, as⟩ := ga
    obtain ⟨bh, bs⟩ := gb
    obtain ⟨e1, e2, ok⟩ := of_decide_eq_true hok
    simp only at e1 e2
    subst e1; subst e2
    exact arith_dy_rr (dyOp_mod ah bh ok) (ok.mono (le_join_left _ _)) (ok.mono (le_join_right _ _)) ok
      ha hb fa fa' fb fb'

/-- … and the result is exactly representable: its floats are dyadics of the grade `opGr op ga gb` -/
theorem applyBinOp_dy_fb {op : BinOp} {ga gb : Gr} (hcmp : op.isCmp = false) (hok : opOKb op ga gb = true)
    {a b w : Val} (fa : AllF (DyF ga) a) (fb : AllF (DyF gb) b) (h : applyBinOp op a b = .ok w) :
    AllF (DyF (opGr op ga gb)) w := by
  cases op <;> first | exact absurd hcmp (by decide) | skip
  case add => exact arith_dy_fb (dyOp_add ga gb (of_decide_eq_true hok)) fa fb h
  case sub => exact arith_dy_fb (dyOp_sub ga gb (of_decide_eq_true hok)) fa fb h
  case mul => exact arith_dy_fb (dyOp_mul ga gb (of_decide_eq_true hok)) fa fb h
  case div => cases hok
  case idiv =>
    obtain ⟨ah, as⟩ := ga
    obtain ⟨bh, bs⟩ := gb
    obtain ⟨e1, e2, ok⟩ := of_decide_eq_true hok
    simp only at e1 e2
    subst e1; subst e2
    exact arith_dy_fb (dyOp_idiv ah bh ok) fa fb h
  case mod =>
    obtain ⟨ah, as⟩ := ga
    obtain ⟨bh, bs⟩ := gb
    obtain ⟨e1, e2, ok⟩ := of_decide_eq_true hok
    simp only at e1 e2
    subst e1; subst e2
    exact arith_dy_fb (dyOp_mod ah bh ok) fa fb h

/-- **the dyadic accounting as a `Grading`** -/
def dyGrading : Grading Gr where
  le := Gr.le
  le_refl := fun _ => ⟨Nat.le_refl _, Nat.le_refl _⟩
  le_trans := fun h1 h2 => ⟨Nat.le_trans h1.1 h2.1, Nat.le_trans h1.2 h2.2⟩
  P := DyF
  mono := fun h hf => DyF.mono h hf
  unclosed := unClosed_dyF
  join := Gr.join
  le_join_left := le_join_left
  le_join_right := le_join_right
  opG := opGr
  opOK := opOKb
  le_opG_left := le_opGr_left
  le_opG_right := le_opGr_right
  op_rr := fun hc hok ha hb fa fa' fb fb' => applyBinOp_dy_rr hc hok ha hb fa fa' fb fb'
  op_fb := fun hc hok fa fb h => applyBinOp_dy_fb hc hok fa fb h

-- 0.375 (float64) + 1.5 (float32)  vs  "0.375" (json.Number) + 15e-1 (decimal): grades ⟨0,3⟩, ⟨1,1⟩ → ⟨2,3⟩
example : opGr .add ⟨0, 3⟩ ⟨1, 1⟩ = ⟨2, 3⟩ ∧ opOKb .add ⟨0, 3⟩ ⟨1, 1⟩ = true ∧ opGr .mul ⟨0, 3⟩ ⟨1, 1⟩ = ⟨1, 4⟩ ∧
    opOKb .idiv ⟨0, 3⟩ ⟨1, 1⟩ = false ∧ opOKb .idiv ⟨50, 0⟩ ⟨52, 0⟩ = true ∧ opOKb .mul ⟨30, 0⟩ ⟨23, 0⟩ = false := by
  decide

end C14E
end Jmes
