/-
  C20B helper lemmas.

  PART A — the shape of a decoded JSON document: what `Json.decode` (and a JSON literal between backticks) can
  produce.  Only `null`, booleans, strings, numbers kept as their JSON text (a text of the JSON number grammar),
  plain arrays, and objects whose keys are unique (indeed strictly sorted) — never a map-ordered array, a Go
  integer / float / decimal, or a foreign value.

  PART B — a law for `==` on values containing map-ordered (`.enum`) arrays: whenever the model gives a definite
  answer, the answer does not depend on the element order Go happens to choose for those arrays.
-/
import Jmes.Proofs.JsonGrammar
import Jmes.Proofs.Scope
import Jmes.Properties.C20
namespace Jmes.C20B
open Jmes

/-! # PART A — decoded JSON documents -/

mutual
/-- the values `Json.decode` can produce: numbers are `json.Number`s whose text is a JSON number, arrays are plain,
    object keys are unique; no Go numeric kinds, no foreign values -/
def Decoded : Val → Prop
  | .null => True
  | .bool _ => True
  | .str _ => True
  | .num (.jnum t) => Lexical.JNumber t
  | .num _ => False
  | .arr t xs => t = .plain ∧ DecodedL xs
  | .obj kvs => (kvs.map Prod.fst).Nodup ∧ DecodedF kvs
  | .foreign _ => False
def DecodedL : List Val → Prop
  | [] => True
  | x :: xs => Decoded x ∧ DecodedL xs
def DecodedF : List (Bytes × Val) → Prop
  | [] => True
  | (_, x) :: kvs => Decoded x ∧ DecodedF kvs
end

/-- `DecodedL` is "every element is `Decoded`" -/
theorem DecodedL_iff : ∀ {xs : List Val}, DecodedL xs ↔ ∀ x ∈ xs, Decoded x
  | [] => by simp [DecodedL]
  | x :: xs => by simp [DecodedL, DecodedL_iff (xs := xs)]

/-- `DecodedF` is "every member value is `Decoded`" -/
theorem DecodedF_iff : ∀ {kvs : List (Bytes × Val)}, DecodedF kvs ↔ ∀ k x, (k, x) ∈ kvs → Decoded x
  | [] => by simp [DecodedF]
  | (k, x) :: kvs => by
    simp only [DecodedF, DecodedF_iff (kvs := kvs), List.mem_cons, Prod.mk.injEq]
    constructor
    · rintro ⟨h1, h2⟩ k' x' (⟨_, rfl⟩ | hm)
      · exact h1
      · exact h2 k' x' hm
    · intro h
      exact ⟨h k x (Or.inl ⟨rfl, rfl⟩), fun k' x' hm => h k' x' (Or.inr hm)⟩

example : DecodedL [.null, .bool true] := DecodedL_iff.mpr (by simp [Decoded])
example : DecodedF [([0x61], .null)] := DecodedF_iff.mpr (by simp [Decoded])

mutual
/-- the stronger shape the decoder really produces: as `Decoded`, and every object's members are strictly sorted
    by key (`KeySorted`, the order `objInsert` maintains) -/
def DecodedS : Val → Prop
  | .null => True
  | .bool _ => True
  | .str _ => True
  | .num (.jnum t) => Lexical.JNumber t
  | .num _ => False
  | .arr t xs => t = .plain ∧ DecodedSL xs
  | .obj kvs => KeySorted kvs ∧ DecodedSF kvs
  | .foreign _ => False
def DecodedSL : List Val → Prop
  | [] => True
  | x :: xs => DecodedS x ∧ DecodedSL xs
def DecodedSF : List (Bytes × Val) → Prop
  | [] => True
  | (_, x) :: kvs => DecodedS x ∧ DecodedSF kvs
end

/-- `DecodedSL` is "every element is `DecodedS`" -/
theorem DecodedSL_iff : ∀ {xs : List Val}, DecodedSL xs ↔ ∀ x ∈ xs, DecodedS x
  | [] => by simp [DecodedSL]
  | x :: xs => by simp [DecodedSL, DecodedSL_iff (xs := xs)]

/-- `DecodedSF` is "every member value is `DecodedS`" -/
theorem DecodedSF_iff : ∀ {kvs : List (Bytes × Val)}, DecodedSF kvs ↔ ∀ k x, (k, x) ∈ kvs → DecodedS x
  | [] => by simp [DecodedSF]
  | (k, x) :: kvs => by
    simp only [DecodedSF, DecodedSF_iff (kvs := kvs), List.mem_cons, Prod.mk.injEq]
    constructor
    · rintro ⟨h1, h2⟩ k' x' (⟨_, rfl⟩ | hm)
      · exact h1
      · exact h2 k' x' hm
    · intro h
      exact ⟨h k x (Or.inl ⟨rfl, rfl⟩), fun k' x' hm => h k' x' (Or.inr hm)⟩

example : DecodedSL [.null, .str []] := DecodedSL_iff.mpr (by simp [DecodedS])
example : DecodedSF [([0x61], .null)] := DecodedSF_iff.mpr (by simp [DecodedS])

/-! ### `objInsert` and key uniqueness -/

/-- a key of `objInsert k v acc` is `k` or a key of `acc` -/
theorem key_objInsert {k k' : Bytes} {v : Val} {acc : List (Bytes × Val)}
    (h : k' ∈ (objInsert k v acc).map Prod.fst) : k' = k ∨ k' ∈ acc.map Prod.fst := by
  obtain ⟨p, hp, rfl⟩ := List.mem_map.mp h
  rcases mem_objInsert hp with rfl | hp
  · exact Or.inl rfl
  · exact Or.inr (List.mem_map.mpr ⟨p, hp, rfl⟩)

example : ∀ k' ∈ (objInsert [0x62] .null [([0x61], .null)]).map Prod.fst, k' = [0x62] ∨ k' ∈ [[0x61]] :=
  fun _ h => key_objInsert h

/-- strictly sorted keys are unique -/
theorem keySorted_nodup {kvs : List (Bytes × Val)} (h : KeySorted kvs) : (kvs.map Prod.fst).Nodup := by
  unfold KeySorted at h
  unfold List.Nodup
  rw [List.pairwise_map]
  refine h.imp ?_
  intro a b hab he
  rw [he, bytesLt_irrefl] at hab
  cases hab

example : ([([0x61], Val.null), ([0x62], .null)].map Prod.fst).Nodup :=
  keySorted_nodup (by unfold KeySorted; decide)

/-- `objInsert` into a key-sorted member list leaves the keys unique -/
theorem objInsert_nodup {k : Bytes} {v : Val} {acc : List (Bytes × Val)} (h : KeySorted acc) :
    ((objInsert k v acc).map Prod.fst).Nodup :=
  keySorted_nodup (KeySorted_objInsert k v h)

example : ((objInsert [0x61] (.bool true) [([0x61], Val.null), ([0x62], .null)]).map Prod.fst).Nodup :=
  objInsert_nodup (by unfold KeySorted; decide)

/-- REQUESTED STATEMENT THAT IS FALSE: "`objInsert k v acc` keeps the keys duplicate-free when `acc`'s keys are
    duplicate-free".  `objInsert` assumes a *sorted* list: on the unsorted, duplicate-free `[b ↦ null, a ↦ null]`
    inserting `a` stops at `b` and gives `[a, b, a]`.  The invariant that is preserved is `KeySorted`
    (`Jmes.KeySorted_objInsert`), which implies uniqueness (`keySorted_nodup`); the decoder starts from `[]`, so
    that is what `parseMembers` maintains. -/
example : ([([0x62], Val.null), ([0x61], Val.null)].map Prod.fst).Nodup ∧
    ¬ ((objInsert [0x61] .null [([0x62], Val.null), ([0x61], Val.null)]).map Prod.fst).Nodup := by
  decide

/-- `objInsert` of a decoded value keeps all member values decoded -/
theorem objInsert_decodedSF {k : Bytes} {v : Val} (hv : DecodedS v) {acc : List (Bytes × Val)}
    (hacc : ∀ k' x, (k', x) ∈ acc → DecodedS x) : ∀ k' x, (k', x) ∈ objInsert k v acc → DecodedS x := by
  intro k' x hm
  rcases mem_objInsert hm with h | h
  · cases h; exact hv
  · exact hacc k' x h

/-- the same for `DecodedF` -/
theorem objInsert_decodedF {k : Bytes} {v : Val} (hv : Decoded v) {acc : List (Bytes × Val)}
    (hacc : DecodedF acc) : DecodedF (objInsert k v acc) := by
  rw [DecodedF_iff] at hacc ⊢
  intro k' x hm
  rcases mem_objInsert hm with h | h
  · cases h; exact hv
  · exact hacc k' x h

example : DecodedF (objInsert [0x61] (.bool true) [([0x61], Val.null), ([0x62], .null)]) :=
  objInsert_decodedF (by simp [Decoded]) (by simp [DecodedF, Decoded])

/-! ### the sorted shape implies the requested one, and excludes map-ordered arrays -/

mutual
/-- key-sorted objects have unique keys: `DecodedS` implies `Decoded` -/
theorem decodedS_decoded : ∀ v : Val, DecodedS v → Decoded v
  | .null, _ => by simp [Decoded]
  | .bool _, _ => by simp [Decoded]
  | .str _, _ => by simp [Decoded]
  | .num (.jnum t), h => by simpa [Decoded, DecodedS] using h
  | .num (.dec _), h => by simp [DecodedS] at h
  | .num (.int _ _), h => by simp [DecodedS] at h
  | .num (.f64 _), h => by simp [DecodedS] at h
  | .num (.f32 _), h => by simp [DecodedS] at h
  | .arr t xs, h => by
    simp only [DecodedS] at h
    simp only [Decoded]
    exact ⟨h.1, decodedSL_decodedL xs h.2⟩
  | .obj kvs, h => by
    simp only [DecodedS] at h
    simp only [Decoded]
    exact ⟨keySorted_nodup h.1, decodedSF_decodedF kvs h.2⟩
  | .foreign _, h => by simp [DecodedS] at h
theorem decodedSL_decodedL : ∀ xs : List Val, DecodedSL xs → DecodedL xs
  | [], _ => by simp [DecodedL]
  | x :: xs, h => by
    simp only [DecodedSL] at h
    simp only [DecodedL]
    exact ⟨decodedS_decoded x h.1, decodedSL_decodedL xs h.2⟩
theorem decodedSF_decodedF : ∀ kvs : List (Bytes × Val), DecodedSF kvs → DecodedF kvs
  | [], _ => by simp [DecodedF]
  | (_, x) :: kvs, h => by
    simp only [DecodedSF] at h
    simp only [DecodedF]
    exact ⟨decodedS_decoded x h.1, decodedSF_decodedF kvs h.2⟩
end

/-- a decoded value contains no map-ordered array (so `==`, `!=`, `contains` never decline on documents) -/
theorem decoded_noEnum {v : Val} (h : Decoded v) : C20.NoEnum v := by
  revert h
  induction v using Val.ind_mem with
  | null => intro _; exact .null
  | bool b => intro _; exact .bool b
  | str s => intro _; exact .str s
  | num n => intro _; exact .num n
  | foreign t => intro _; exact .foreign t
  | arr t xs ih =>
    intro h
    simp only [Decoded] at h
    refine .arr t xs (by rw [h.1]; decide) fun x hx => ih x hx (DecodedL_iff.mp h.2 x hx)
  | obj kvs ih =>
    intro h
    simp only [Decoded] at h
    exact .obj kvs fun k x hm => ih k x hm (DecodedF_iff.mp h.2 k x hm)

example : C20.NoEnum (.arr .plain [.null, .obj [([0x61], .bool true)]]) :=
  decoded_noEnum (by simp [Decoded, DecodedL, DecodedF])

/-! ### the decoder -/

mutual
theorem parseValue_dec : ∀ (fuel depth : Nat) (s : Bytes) (v : Val) (r : Bytes),
    Json.parseValue fuel depth s = some (v, r) → DecodedS v
  | 0, _, _, _, _, h => by simp [Json.parseValue] at h
  | fuel + 1, depth, s, v, r, h => by
    unfold Json.parseValue at h
    split at h
    · simp at h
    · simp at h; obtain ⟨rfl, _⟩ := h; simp [DecodedS]
    · simp at h; obtain ⟨rfl, _⟩ := h; simp [DecodedS]
    · simp at h; obtain ⟨rfl, _⟩ := h; simp [DecodedS]
    · simp only [Option.map_eq_some_iff] at h
      obtain ⟨⟨b, r'⟩, _, h⟩ := h
      simp at h; obtain ⟨rfl, _⟩ := h; simp [DecodedS]
    · split at h
      · simp at h
      · split at h
        · simp at h; obtain ⟨rfl, _⟩ := h; simp [DecodedS, DecodedSL]
        · simp only [Option.map_eq_some_iff] at h
          obtain ⟨⟨xs, r'⟩, hx, h⟩ := h
          simp at h; obtain ⟨rfl, _⟩ := h
          simp only [DecodedS, true_and]
          exact DecodedSL_iff.mpr (parseElems_dec fuel _ _ [] xs r' (by simp) hx)
    · split at h
      · simp at h
      · split at h
        · simp at h; obtain ⟨rfl, _⟩ := h; simp [DecodedS, DecodedSF, KeySorted]
        · simp only [Option.map_eq_some_iff] at h
          obtain ⟨⟨kvs, r'⟩, hx, h⟩ := h
          simp at h; obtain ⟨rfl, _⟩ := h
          simp only [DecodedS]
          have := parseMembers_dec fuel _ _ [] kvs r' List.Pairwise.nil (by simp) hx
          exact ⟨this.1, DecodedSF_iff.mpr this.2⟩
    · split at h
      · simp only [Option.map_eq_some_iff] at h
        obtain ⟨⟨n, r'⟩, hn, h⟩ := h
        simp at h; obtain ⟨rfl, _⟩ := h
        simp only [DecodedS]
        exact (JsonGrammar.parseNumberTok_sound hn).2
      · simp at h
theorem parseElems_dec : ∀ (fuel depth : Nat) (s : Bytes) (acc xs : List Val) (r : Bytes),
    (∀ x ∈ acc, DecodedS x) → Json.parseElems fuel depth s acc = some (xs, r) → ∀ x ∈ xs, DecodedS x
  | 0, _, _, _, _, _, _, h => by simp [Json.parseElems] at h
  | fuel + 1, depth, s, acc, xs, r, hacc, h => by
    unfold Json.parseElems at h
    split at h
    · simp at h
    · next v r0 hv =>
      have hvn := parseValue_dec fuel depth s v r0 hv
      have hacc' : ∀ x ∈ acc ++ [v], DecodedS x := by
        intro x hx
        rcases List.mem_append.mp hx with hx | hx
        · exact hacc x hx
        · simp at hx; subst hx; exact hvn
      split at h
      · exact parseElems_dec fuel depth _ _ xs r hacc' h
      · simp at h; obtain ⟨rfl, _⟩ := h; exact hacc'
      · simp at h
theorem parseMembers_dec : ∀ (fuel depth : Nat) (s : Bytes) (acc kvs : List (Bytes × Val)) (r : Bytes),
    KeySorted acc → (∀ k x, (k, x) ∈ acc → DecodedS x) → Json.parseMembers fuel depth s acc = some (kvs, r) →
    KeySorted kvs ∧ ∀ k x, (k, x) ∈ kvs → DecodedS x
  | 0, _, _, _, _, _, _, _, h => by simp [Json.parseMembers] at h
  | fuel + 1, depth, s, acc, kvs, r, hs, hacc, h => by
    unfold Json.parseMembers at h
    split at h
    · split at h
      · simp at h
      · split at h
        · split at h
          · simp at h
          · next v r2 hv =>
            have hvn := parseValue_dec fuel depth _ v r2 hv
            split at h
            · exact parseMembers_dec fuel depth _ _ kvs r (KeySorted_objInsert _ _ hs)
                (objInsert_decodedSF hvn hacc) h
            · simp at h; obtain ⟨rfl, _⟩ := h
              exact ⟨KeySorted_objInsert _ _ hs, objInsert_decodedSF hvn hacc⟩
            · simp at h
        · simp at h
    · simp at h
end

/-- a decoded JSON document has the sorted shape: JSON-number texts, plain arrays, key-sorted objects -/
theorem decode_decodedS {s : Bytes} {v : Val} (h : Json.decode s = some v) : DecodedS v := by
  unfold Json.decode at h
  split at h
  · next v' r hv =>
    split at h
    · simp at h; subst h; exact parseValue_dec _ _ _ _ _ hv
    · simp at h
  · simp at h

/-- **a decoded JSON document is `Decoded`**: its numbers are `json.Number`s holding a text of the JSON number
    grammar, its arrays are plain (never nil, never map-ordered), its objects have unique keys, and nothing else
    (no Go integer, float, decimal or foreign value) occurs in it -/
theorem decode_decoded {s : Bytes} {v : Val} (h : Json.decode s = some v) : Decoded v :=
  decodedS_decoded v (decode_decodedS h)

/-- the same for a JSON literal between backticks in an expression -/
theorem parseJSONLiteral_decoded {s : Bytes} {v : Val} (h : parseJSONLiteral s = some v) : Decoded v := by
  unfold parseJSONLiteral at h
  simp only at h
  split at h
  · simp at h
  · exact decode_decoded h

/-! ### examples: a document, and a duplicate key -/

/-- the text `{"a":[1,2.50,-0,1E2],"b":null}` -/
def docText : Bytes :=
  [0x7B, 0x22, 0x61, 0x22, 0x3A, 0x5B, 0x31, 0x2C, 0x32, 0x2E, 0x35, 0x30, 0x2C, 0x2D, 0x30, 0x2C, 0x31, 0x45, 0x32,
   0x5D, 0x2C, 0x22, 0x62, 0x22, 0x3A, 0x6E, 0x75, 0x6C, 0x6C, 0x7D]

/-- what it decodes to: the number texts are kept verbatim (`2.50`, `-0`, `1E2`) -/
def docVal : Val :=
  .obj [([0x61], .arr .plain [.num (.jnum [0x31]), .num (.jnum [0x32, 0x2E, 0x35, 0x30]), .num (.jnum [0x2D, 0x30]),
          .num (.jnum [0x31, 0x45, 0x32])]),
        ([0x62], .null)]

theorem decode_docText : Json.decode docText = some docVal := by rfl

example : Decoded docVal := decode_decoded decode_docText
example : DecodedS docVal := decode_decodedS decode_docText
example : C20.NoEnum docVal := decoded_noEnum (decode_decoded decode_docText)
/-- …in particular `2.50`, `-0` and `1E2` are texts of the JSON number grammar -/
example : Lexical.JNumber [0x32, 0x2E, 0x35, 0x30] ∧ Lexical.JNumber [0x2D, 0x30] ∧ Lexical.JNumber [0x31, 0x45, 0x32] := by
  have h := decode_decoded decode_docText
  simp only [docVal, Decoded, DecodedF, DecodedL] at h
  exact ⟨h.2.1.2.2.1, h.2.1.2.2.2.1, h.2.1.2.2.2.2.1⟩

/-- the JSON literal `` `{"a":[1,2.50,-0,1E2],"b":null}` `` of an expression gives the same value -/
example : parseJSONLiteral ([0x60] ++ docText ++ [0x60]) = some docVal := by rfl
example : Decoded docVal :=
  parseJSONLiteral_decoded (s := [0x60] ++ docText ++ [0x60]) (by rfl)

/-- a duplicate key in the text gives ONE member, holding the last value: `{"a":1,"a":2}` is `{"a":2}` -/
theorem decode_dupKey :
    Json.decode [0x7B, 0x22, 0x61, 0x22, 0x3A, 0x31, 0x2C, 0x22, 0x61, 0x22, 0x3A, 0x32, 0x7D] =
      some (.obj [([0x61], .num (.jnum [0x32]))]) := by rfl

example : Decoded (.obj [([0x61], .num (.jnum [0x32]))]) := decode_decoded decode_dupKey

/-- values that no document decodes to: a Go integer, a map-ordered array, an object with a repeated key -/
example : ¬ Decoded (.num (.int .int 1)) ∧ ¬ Decoded (.arr .enum []) ∧
    ¬ Decoded (.obj [([0x61], .null), ([0x61], .null)]) := by
  refine ⟨by simp [Decoded], by simp [Decoded], ?_⟩
  simp only [Decoded]
  rintro ⟨h, _⟩
  revert h; decide

/-! # PART B — `==` does not depend on the order Go chooses for map-ordered arrays -/

mutual
/-- `EnumPerm x x'`: `x'` is `x` with the elements of every `.enum`-tagged array (at any depth) arbitrarily
    permuted — the values Go may equally well have produced in place of `x` -/
def EnumPerm : Val → Val → Prop
  | .arr t xs, y => ∃ zs ys, y = .arr t ys ∧ EnumPermL xs zs ∧ (if t = .enum then zs.Perm ys else zs = ys)
  | .obj kvs, y => ∃ kvs', y = .obj kvs' ∧ EnumPermF kvs kvs'
  | .null, y => y = .null
  | .bool b, y => y = .bool b
  | .str s, y => y = .str s
  | .num n, y => y = .num n
  | .foreign t, y => y = .foreign t
/-- element-wise, same length -/
def EnumPermL : List Val → List Val → Prop
  | [], ys => ys = []
  | x :: xs, ys => ∃ y ys', ys = y :: ys' ∧ EnumPerm x y ∧ EnumPermL xs ys'
/-- member-wise: same keys at the same positions, values related -/
def EnumPermF : List (Bytes × Val) → List (Bytes × Val) → Prop
  | [], ys => ys = []
  | (k, x) :: kvs, ys => ∃ y ys', ys = (k, y) :: ys' ∧ EnumPerm x y ∧ EnumPermF kvs ys'
end

/-- the two sample numbers `1` and `2` -/
def n1 : Val := .num (.jnum [0x31])
def n2 : Val := .num (.jnum [0x32])

mutual
/-- every value is related to itself (Go may also keep the order) -/
theorem enumPerm_refl : ∀ x : Val, EnumPerm x x
  | .arr t xs => by
    simp only [EnumPerm]
    refine ⟨xs, xs, rfl, enumPermL_refl xs, ?_⟩
    split
    · exact List.Perm.refl _
    · rfl
  | .obj kvs => by
    simp only [EnumPerm]
    exact ⟨kvs, rfl, enumPermF_refl kvs⟩
  | .null => by simp [EnumPerm]
  | .bool _ => by simp [EnumPerm]
  | .str _ => by simp [EnumPerm]
  | .num _ => by simp [EnumPerm]
  | .foreign _ => by simp [EnumPerm]
theorem enumPermL_refl : ∀ xs : List Val, EnumPermL xs xs
  | [] => by simp [EnumPermL]
  | x :: xs => by
    simp only [EnumPermL]
    exact ⟨x, xs, rfl, enumPerm_refl x, enumPermL_refl xs⟩
theorem enumPermF_refl : ∀ kvs : List (Bytes × Val), EnumPermF kvs kvs
  | [] => by simp [EnumPermF]
  | (k, x) :: kvs => by
    simp only [EnumPermF]
    exact ⟨x, kvs, rfl, enumPerm_refl x, enumPermF_refl kvs⟩
end

example : EnumPerm (.arr .enum [n1, n2]) (.arr .enum [n1, n2]) := enumPerm_refl _

/-- a map-ordered array is related to each of its permutations… -/
theorem enumPerm_of_perm {xs ys : List Val} (h : xs.Perm ys) : EnumPerm (.arr .enum xs) (.arr .enum ys) := by
  simp only [EnumPerm]
  exact ⟨xs, ys, rfl, enumPermL_refl xs, by simpa using h⟩

example : EnumPerm (.arr .enum [n1, n2]) (.arr .enum [n2, n1]) := enumPerm_of_perm (List.Perm.swap ..)

/-- how to build related containers: arrays (the elements first, then — for a map-ordered array — any permutation) -/
theorem enumPerm_arr {t : ATag} {xs zs ys : List Val} (hl : EnumPermL xs zs)
    (hp : if t = .enum then zs.Perm ys else zs = ys) : EnumPerm (.arr t xs) (.arr t ys) := by
  simp only [EnumPerm]
  exact ⟨zs, ys, rfl, hl, hp⟩
theorem enumPerm_obj {kvs kvs' : List (Bytes × Val)} (h : EnumPermF kvs kvs') : EnumPerm (.obj kvs) (.obj kvs') := by
  simp only [EnumPerm]
  exact ⟨kvs', rfl, h⟩
theorem enumPermL_cons {x y : Val} {xs ys : List Val} (h : EnumPerm x y) (hl : EnumPermL xs ys) :
    EnumPermL (x :: xs) (y :: ys) := by
  simp only [EnumPermL]
  exact ⟨y, ys, rfl, h, hl⟩
theorem enumPermF_cons {k : Bytes} {x y : Val} {xs ys : List (Bytes × Val)} (h : EnumPerm x y)
    (hl : EnumPermF xs ys) : EnumPermF ((k, x) :: xs) ((k, y) :: ys) := by
  simp only [EnumPermF]
  exact ⟨y, ys, rfl, h, hl⟩

/-- …also when it sits inside another value (here: inside a plain array inside an object) -/
example : EnumPerm (.obj [([0x61], .arr .plain [.null, .arr .enum [n1, n2]])])
    (.obj [([0x61], .arr .plain [.null, .arr .enum [n2, n1]])]) :=
  enumPerm_obj (enumPermF_cons
    (enumPerm_arr (zs := [.null, .arr .enum [n2, n1]])
      (enumPermL_cons (enumPerm_refl _) (enumPermL_cons (enumPerm_of_perm (List.Perm.swap ..)) (enumPermL_refl [])))
      (by simp))
    (enumPermF_refl []))

/-- …whereas a plain array is related only to itself -/
example : ¬ EnumPerm (.arr .plain [n1, n2]) (.arr .plain [n2, n1]) := by
  simp only [EnumPerm, EnumPermL]
  rintro ⟨zs, ys, h1, ⟨y, ys', rfl, hy, y2, ys2, rfl, hy2, rfl⟩, h3⟩
  simp only [n1, n2, EnumPerm] at hy hy2
  subst hy hy2
  simp at h3
  subst h3
  simp [n1, n2] at h1

/-- a permutation of a list with at most one element is the list itself -/
theorem perm_eq_of_length_lt_two {α : Type} : ∀ {l l' : List α}, l.length < 2 → l.Perm l' → l' = l
  | [], _, _, hp => hp.symm.eq_nil
  | [a], _, _, hp => List.perm_singleton.mp hp.symm
  | _ :: _ :: _, _, hl, _ => by simp at hl; omega

example : ∀ l', [n1].Perm l' → l' = [n1] := fun _ h => perm_eq_of_length_lt_two (by simp) h

mutual
/-- **without a map-ordered array of two or more elements there is nothing to permute**: a value the model is
    willing to compare is related only to itself -/
theorem enumPerm_eq_of_noEnum2 : ∀ {x x' : Val}, x.hasEnum2 = false → EnumPerm x x' → x' = x
  | .arr t xs, x', h, hp => by
    simp only [EnumPerm] at hp
    obtain ⟨zs, ys, rfl, hl, hc⟩ := hp
    simp only [Val.hasEnum2, Bool.or_eq_false_iff] at h
    have hz : zs = xs := enumPermL_eq_of_noEnum2 h.2 hl
    rw [hz] at hc
    split at hc
    · next ht =>
      subst ht
      have hlen : xs.length < 2 := by
        have := h.1
        simp at this
        exact this
      rw [perm_eq_of_length_lt_two hlen hc]
    · rw [hc]
  | .obj kvs, x', h, hp => by
    simp only [EnumPerm] at hp
    obtain ⟨kvs', rfl, hf⟩ := hp
    simp only [Val.hasEnum2] at h
    rw [enumPermF_eq_of_noEnum2 h hf]
  | .null, _, _, hp => by simpa [EnumPerm] using hp
  | .bool _, _, _, hp => by simpa [EnumPerm] using hp
  | .str _, _, _, hp => by simpa [EnumPerm] using hp
  | .num _, _, _, hp => by simpa [EnumPerm] using hp
  | .foreign _, _, _, hp => by simpa [EnumPerm] using hp
theorem enumPermL_eq_of_noEnum2 : ∀ {xs xs' : List Val}, Val.hasEnum2L xs = false → EnumPermL xs xs' → xs' = xs
  | [], _, _, hp => by simpa [EnumPermL] using hp
  | x :: xs, _, h, hp => by
    simp only [EnumPermL] at hp
    obtain ⟨y, ys', rfl, hy, hys⟩ := hp
    simp only [Val.hasEnum2L, Bool.or_eq_false_iff] at h
    rw [enumPerm_eq_of_noEnum2 h.1 hy, enumPermL_eq_of_noEnum2 h.2 hys]
theorem enumPermF_eq_of_noEnum2 : ∀ {kvs kvs' : List (Bytes × Val)}, Val.hasEnum2F kvs = false →
    EnumPermF kvs kvs' → kvs' = kvs
  | [], _, _, hp => by simpa [EnumPermF] using hp
  | (k, x) :: kvs, _, h, hp => by
    simp only [EnumPermF] at hp
    obtain ⟨y, ys', rfl, hy, hys⟩ := hp
    simp only [Val.hasEnum2F, Bool.or_eq_false_iff] at h
    rw [enumPerm_eq_of_noEnum2 h.1 hy, enumPermF_eq_of_noEnum2 h.2 hys]
end

/-- a one-element map-ordered array inside a plain one: nothing can move -/
example : ∀ x', EnumPerm (.arr .plain [.arr .enum [n1], .null]) x' → x' = .arr .plain [.arr .enum [n1], .null] :=
  fun _ h => enumPerm_eq_of_noEnum2 (by decide) h

/-- the model compares (`.ok`) only when neither operand contains a map-ordered array of ≥ 2 elements -/
theorem equalR_ok_iff (x y : Val) (b : Bool) :
    equalR x y = .ok b ↔ x.hasEnum2 = false ∧ y.hasEnum2 = false ∧ equal x y = b := by
  unfold equalR
  cases hx : x.hasEnum2 <;> cases hy : y.hasEnum2 <;> simp

example : equalR (.arr .enum [n1]) (.arr .plain [n1]) = .ok true :=
  (equalR_ok_iff _ _ _).mpr ⟨by decide, by decide, by decide⟩

/-- **whenever `==` gives a definite answer, the answer does not depend on the order Go happens to choose** for
    the map-ordered arrays inside the operands -/
theorem equalR_order_free {x y x' y' : Val} {b : Bool} (h : equalR x y = .ok b) (hx : EnumPerm x x')
    (hy : EnumPerm y y') : equalR x' y' = .ok b := by
  obtain ⟨h1, h2, _⟩ := (equalR_ok_iff x y b).mp h
  rw [enumPerm_eq_of_noEnum2 h1 hx, enumPerm_eq_of_noEnum2 h2 hy]
  exact h

/-- positive example: a one-element map-ordered array against a plain one is compared, with a definite `true`,
    whatever Go does -/
theorem equalR_enum1_plain : equalR (.arr .enum [n1]) (.arr .plain [n1]) = .ok true :=
  (equalR_ok_iff _ _ _).mpr ⟨by decide, by decide, by decide⟩

example : ∀ x' y', EnumPerm (.arr .enum [n1]) x' → EnumPerm (.arr .plain [n1]) y' → equalR x' y' = .ok true :=
  fun _ _ hx hy => equalR_order_free equalR_enum1_plain hx hy

/-- the model declines exactly when one operand contains a map-ordered array of two or more elements -/
theorem equalR_nondet_iff (x y : Val) : equalR x y = .nondet ↔ (x.hasEnum2 = true ∨ y.hasEnum2 = true) := by
  unfold equalR
  cases hx : x.hasEnum2 <;> cases hy : y.hasEnum2 <;> simp

/-- …and declining is justified: `a = [1, 2]` (map-ordered) and its swap are two orders Go may choose for the
    same value; `equal a a` is true but `equal a swap` is false, so either definite answer would be wrong for one
    of the orders.  The model answers `nondet`. -/
theorem order_matters :
    EnumPerm (.arr .enum [n1, n2]) (.arr .enum [n2, n1]) ∧
    equal (.arr .enum [n1, n2]) (.arr .enum [n1, n2]) = true ∧
    equal (.arr .enum [n1, n2]) (.arr .enum [n2, n1]) = false ∧
    equalR (.arr .enum [n1, n2]) (.arr .enum [n1, n2]) = .nondet :=
  ⟨enumPerm_of_perm (List.Perm.swap ..), by decide, by decide,
   (equalR_nondet_iff _ _).mpr (Or.inl (by decide))⟩

example : equalR (.arr .plain [.null, .arr .enum [n1, n2]]) .null = .nondet :=
  (equalR_nondet_iff _ _).mpr (Or.inl (by decide))

/-- the same law for the operators `==` and `!=` of the expression language -/
theorem eq_ne_order_free {op : BinOp} (hop : op = .eq ∨ op = .ne) {x y x' y' r : Val}
    (h : applyBinOp op x y = .ok r) (hx : EnumPerm x x') (hy : EnumPerm y y') : applyBinOp op x' y' = .ok r := by
  have hh : x.hasEnum2 = false ∧ y.hasEnum2 = false := by
    rcases hop with rfl | rfl
    · rw [C20.eq_spec] at h
      cases h1 : x.hasEnum2 <;> cases h2 : y.hasEnum2 <;> simp [h1, h2] at h ⊢
    · rw [C20.ne_spec] at h
      cases h1 : x.hasEnum2 <;> cases h2 : y.hasEnum2 <;> simp [h1, h2] at h ⊢
  rw [enumPerm_eq_of_noEnum2 hh.1 hx, enumPerm_eq_of_noEnum2 hh.2 hy]
  exact h

example : ∀ x' y', EnumPerm (.arr .enum [n1]) x' → EnumPerm (.arr .plain [n2]) y' →
    applyBinOp .ne x' y' = .ok (.bool true) :=
  fun _ _ hx hy => eq_ne_order_free (Or.inr rfl)
    (by rw [C20.ne_spec]; simp [show (Val.arr .enum [n1]).hasEnum2 = false by decide,
          show (Val.arr .plain [n2]).hasEnum2 = false by decide,
          show equal (.arr .enum [n1]) (.arr .plain [n2]) = false by decide]) hx hy

/-- `hasEnum2L` does not depend on the order of the list -/
theorem hasEnum2L_perm {xs ys : List Val} (hp : xs.Perm ys) (h : Val.hasEnum2L xs = false) :
    Val.hasEnum2L ys = false := by
  rw [hasEnum2L_false_iff] at h ⊢
  exact fun y hy => h y (hp.mem_iff.mpr hy)

example : Val.hasEnum2L [n2, n1] = false := hasEnum2L_perm (List.Perm.swap ..) (by decide : Val.hasEnum2L [n1, n2] = false)

/-- "some element satisfies `p`" does not depend on the order of the list -/
theorem any_perm {α : Type} {p : α → Bool} {xs ys : List α} (hp : xs.Perm ys) : xs.any p = ys.any p := by
  rw [Bool.eq_iff_iff, List.any_eq_true, List.any_eq_true]
  exact ⟨fun ⟨a, ha, h⟩ => ⟨a, hp.mem_iff.mp ha, h⟩, fun ⟨a, ha, h⟩ => ⟨a, hp.mem_iff.mpr ha, h⟩⟩

example : [n1, n2].any (fun x => equal x n2) = [n2, n1].any (fun x => equal x n2) := any_perm (List.Perm.swap ..)

/-- **`contains` is order-free too.**  Here the law has real content: `contains(array, y)` inspects only the
    elements of the array, not its own tag, so the searched array may itself be map-ordered with many elements,
    and Go may hand over any permutation of it — the answer "some element equals `y`" is the same for all. -/
theorem contains_order_free {x y x' y' r : Val} (h : contains x y = .ok r) (hx : EnumPerm x x')
    (hy : EnumPerm y y') : contains x' y' = .ok r := by
  cases x with
  | arr t xs =>
    simp only [contains] at h
    split at h
    · cases h
    · next hc =>
      simp only [Bool.or_eq_true, not_or, Bool.not_eq_true] at hc
      rw [enumPerm_eq_of_noEnum2 hc.2 hy]
      simp only [EnumPerm] at hx
      obtain ⟨zs, ys, rfl, hl, hperm⟩ := hx
      have hz : zs = xs := enumPermL_eq_of_noEnum2 hc.1 hl
      rw [hz] at hperm
      have hp : xs.Perm ys := by
        split at hperm
        · exact hperm
        · rw [hperm]
      simp only [contains, hasEnum2L_perm hp hc.1, hc.2]
      rw [← any_perm hp]
      exact h
  | str s =>
    have h2 : x' = .str s := by simpa [EnumPerm] using hx
    subst h2
    cases y with
    | str p =>
      have h3 : y' = .str p := by simpa [EnumPerm] using hy
      subst h3; exact h
    | arr u ps =>
      simp only [EnumPerm] at hy
      obtain ⟨_, _, rfl, _, _⟩ := hy
      exact h
    | obj kvs =>
      simp only [EnumPerm] at hy
      obtain ⟨_, rfl, _⟩ := hy
      exact h
    | null => have h3 : y' = .null := by simpa [EnumPerm] using hy
              subst h3; exact h
    | bool b => have h3 : y' = .bool b := by simpa [EnumPerm] using hy
                subst h3; exact h
    | num n => have h3 : y' = .num n := by simpa [EnumPerm] using hy
               subst h3; exact h
    | foreign t => have h3 : y' = .foreign t := by simpa [EnumPerm] using hy
                   subst h3; exact h
  | null => simp [contains, errType] at h
  | bool _ => simp [contains, errType] at h
  | num _ => simp [contains, errType] at h
  | obj _ => simp [contains, errType] at h
  | foreign _ => simp [contains, errType] at h

/-- searching `2` in the map-ordered array `[1, 2]`: `true`, and equally `true` in the order `[2, 1]` — a case
    where the operand really changes (`x' ≠ x`) -/
theorem contains_enum_example : contains (.arr .enum [n1, n2]) n2 = .ok (.bool true) := by
  rw [C20.contains_uses_equal' _ _ _ (by decide) (by decide)]
  rfl

example : contains (.arr .enum [n2, n1]) n2 = .ok (.bool true) :=
  contains_order_free contains_enum_example (enumPerm_of_perm (List.Perm.swap ..)) (enumPerm_refl _)

/-- `contains` on a string haystack -/
example : ∀ x' y', EnumPerm (.str [0x61, 0x62]) x' → EnumPerm (.str [0x62]) y' → contains x' y' = .ok (.bool true) :=
  fun _ _ hx hy => contains_order_free (by rfl) hx hy

end Jmes.C20B
