/-
  Helper for property C04: a parser-wide state invariant.  When the lexer fails somewhere in the input, the parser
  state never shows an end marker (`NoEnd`); all thirteen mutually recursive parser functions and `indexP` preserve
  this (`presAt`), hence the final "current token is the end marker" check of `Parser.parse` cannot pass:
  `parse_lex_error` — an expression with a lexical error never compiles.
-/
import Jmes.Proofs.Lex
import Jmes.Proofs.Pratt
namespace Jmes.ParserInv
open Jmes Jmes.Parser Jmes.Pratt Jmes.Lexical

/-- the parser state of an input with a lexical error: the error is pending and no end marker is in sight -/
def NoEnd (st : PState) : Prop :=
  st.lexErr.isSome = true ∧ st.curr.type ≠ .end ∧ st.next.type ≠ .end ∧ ∀ t ∈ st.rest, t.type ≠ .end

/-- `x` preserves `NoEnd` whenever it succeeds -/
structure Pres {α} (x : PM α) : Prop where
  h : ∀ s a s', NoEnd s → x s = .ok (a, s') → NoEnd s'

theorem Pres.pure {α} (a : α) : Pres (pure a : PM α) := ⟨fun s a' s' hs h => by cases h; exact hs⟩
theorem Pres.fail {α} (e : PErr) : Pres (Parser.fail e : PM α) := ⟨fun s a' s' _ h => by cases h⟩
theorem Pres.get : Pres (get : PM PState) := ⟨fun s a' s' hs h => by cases h; exact hs⟩
theorem Pres.currType : Pres Parser.currType := ⟨fun s a' s' hs h => by cases h; exact hs⟩
theorem Pres.nextType : Pres Parser.nextType := ⟨fun s a' s' hs h => by cases h; exact hs⟩
theorem Pres.currValue : Pres Parser.currValue := ⟨fun s a' s' hs h => by cases h; exact hs⟩

theorem Pres.bind {α β} {x : PM α} {f : α → PM β} (h1 : Pres x) (h2 : ∀ a, Pres (f a)) : Pres (x >>= f) := by
  constructor
  intro s b s' hs h
  rw [bind_run] at h
  cases hx : x s with
  | error e => rw [hx] at h; cases h
  | ok r =>
    obtain ⟨a, s1⟩ := r
    rw [hx] at h
    exact (h2 a).h s1 b s' (h1.h s a s1 hs hx) h

theorem Pres.ite {α} {c : Prop} [Decidable c] {a b : PM α} (h1 : Pres a) (h2 : Pres b) :
    Pres (if c then a else b) := by
  split <;> assumption

theorem Pres.advance : Pres Parser.advance := by
  constructor
  intro s a s' hs h
  obtain ⟨c, n, rest, le⟩ := s
  obtain ⟨h1, h2, h3, h4⟩ := hs
  cases rest with
  | nil =>
    cases le with
    | none => cases h1
    | some e =>
      have : Parser.advance ⟨c, n, [], some e⟩ = .error (.lex e) := rfl
      rw [this] at h; cases h
  | cons t r =>
    have : Parser.advance ⟨c, n, t :: r, le⟩ = .ok ((), ⟨n, t, r, le⟩) := rfl
    rw [this] at h; cases h
    exact ⟨h1, h3, h4 t (by simp), fun x hx => h4 x (by simp [hx])⟩

theorem Pres.advance2 : Pres Parser.advance2 := by
  constructor
  intro s a s' hs h
  obtain ⟨c, n, rest, le⟩ := s
  obtain ⟨h1, h2, h3, h4⟩ := hs
  cases rest with
  | nil =>
    cases le with
    | none => cases h1
    | some e =>
      have : Parser.advance2 ⟨c, n, [], some e⟩ = .error (.lex e) := rfl
      rw [this] at h; cases h
  | cons t r =>
    cases r with
    | nil =>
      cases le with
      | none => cases h1
      | some e =>
        have : Parser.advance2 ⟨c, n, [t], some e⟩ = .error (.lex e) := rfl
        rw [this] at h; cases h
    | cons t' r' =>
      have : Parser.advance2 ⟨c, n, t :: t' :: r', le⟩ = .ok ((), ⟨t, t', r', le⟩) := rfl
      rw [this] at h; cases h
      exact ⟨h1, h4 t (by simp), h4 t' (by simp), fun x hx => h4 x (by simp [hx])⟩

theorem Pres.indexP (child : Option INode) : Pres (Parser.indexP child) := by
  unfold Parser.indexP
  repeat (first
    | exact Pres.pure _
    | exact Pres.fail _
    | exact Pres.get
    | exact Pres.currType
    | exact Pres.nextType
    | exact Pres.currValue
    | exact Pres.advance
    | exact Pres.advance2
    | apply Pres.bind
    | apply Pres.ite
    | intro _
    | split)


/-- all thirteen functions of the mutual block preserve `NoEnd` at fuel `f` -/
structure PresAt (f : Nat) : Prop where
  expr : ∀ p, Pres (expression f p)
  loop : ∀ n p, Pres (exprLoop f n p)
  filt : Pres (filterP f)
  args : ∀ a b c, Pres (fnArgs f a b c)
  vargs : ∀ a, Pres (fnVarArgs f a)
  func : Pres (function f)
  letp : ∀ a, Pres (letP f a)
  prim : Pres (primaryExpression f)
  proj : ∀ p, Pres (projection f p)
  sarr : ∀ c, Pres (selectArray f c)
  sarrl : ∀ c l, Pres (selectArrayLoop f c l)
  sobj : ∀ c, Pres (selectObject f c)
  sobjl : ∀ c l, Pres (selectObjectLoop f c l)

macro "pres_tac" ih:ident : tactic => `(tactic|
  repeat (first
    | exact Pres.pure _
    | exact Pres.fail _
    | exact Pres.get
    | exact Pres.currType
    | exact Pres.nextType
    | exact Pres.currValue
    | exact Pres.advance
    | exact Pres.advance2
    | exact Pres.indexP _
    | exact PresAt.expr $ih _
    | exact PresAt.loop $ih _ _
    | exact PresAt.filt $ih
    | exact PresAt.args $ih _ _ _
    | exact PresAt.vargs $ih _
    | exact PresAt.func $ih
    | exact PresAt.letp $ih _
    | exact PresAt.prim $ih
    | exact PresAt.proj $ih _
    | exact PresAt.sarr $ih _
    | exact PresAt.sarrl $ih _ _
    | exact PresAt.sobj $ih _
    | exact PresAt.sobjl $ih _ _
    | apply Pres.bind
    | apply Pres.ite
    | intro _
    | split))

theorem presAt_zero : PresAt 0 where
  expr p := by rw [expression.eq_1]; exact Pres.fail _
  loop n p := by rw [exprLoop.eq_1]; exact Pres.fail _
  filt := by rw [filterP.eq_1]; exact Pres.fail _
  args a b c := by rw [fnArgs.eq_1]; exact Pres.fail _
  vargs a := by rw [fnVarArgs.eq_1]; exact Pres.fail _
  func := by rw [function.eq_1]; exact Pres.fail _
  letp a := by rw [letP.eq_1]; exact Pres.fail _
  prim := by rw [primaryExpression.eq_1]; exact Pres.fail _
  proj p := by rw [projection.eq_1]; exact Pres.fail _
  sarr c := by rw [selectArray.eq_1]; exact Pres.fail _
  sarrl c l := by rw [selectArrayLoop.eq_1]; exact Pres.fail _
  sobj c := by rw [selectObject.eq_1]; exact Pres.fail _
  sobjl c l := by rw [selectObjectLoop.eq_1]; exact Pres.fail _

theorem presAt_succ (f : Nat) (ih : PresAt f) : PresAt (f + 1) where
  expr p := by rw [expression.eq_2 p f]; pres_tac ih
  loop n p := by rw [exprLoop.eq_2 n p f]; pres_tac ih
  filt := by rw [filterP.eq_2 f]; pres_tac ih
  args a b c := by rw [fnArgs.eq_2 a b c f]; pres_tac ih
  vargs a := by rw [fnVarArgs.eq_2 a f]; pres_tac ih
  func := by rw [function.eq_2 f]; pres_tac ih
  letp a := by rw [letP.eq_2 a f]; pres_tac ih
  prim := by rw [primaryExpression.eq_2 f]; pres_tac ih
  proj p := by rw [projection.eq_2 p f]; pres_tac ih
  sarr c := by rw [selectArray.eq_2 c f]; pres_tac ih
  sarrl c l := by rw [selectArrayLoop.eq_2 c l f]; pres_tac ih
  sobj c := by rw [selectObject.eq_2 c f]; pres_tac ih
  sobjl c l := by rw [selectObjectLoop.eq_2 c l f]; pres_tac ih

theorem presAt : ∀ f, PresAt f
  | 0 => presAt_zero
  | f + 1 => presAt_succ f (presAt f)


/-! ### an input with a lexical error never compiles -/

theorem lexAllAux_err_noEnd : ∀ (fuel : Nat) (s : Bytes) (ts : List Token) (e : LexErr),
    lexAllAux fuel s = (ts, some e) → ∀ t ∈ ts, t.type ≠ .end
  | 0, s, ts, e => by
    intro h t ht
    simp [lexAllAux] at h
    rw [h.1] at ht; cases ht
  | fuel + 1, s, ts, e => by
    intro h
    rw [lexAllAux] at h
    split at h
    · cases h
    · split at h
      · cases h; intro t ht; cases ht
      · rename_i t n htok
        generalize hrec : lexAllAux fuel (List.drop (max n 1) (skipWsLex s.length s)) = p at h
        obtain ⟨ts', e'⟩ := p
        simp only [Prod.mk.injEq] at h
        obtain ⟨h1, h2⟩ := h
        subst h1 h2
        have ih := lexAllAux_err_noEnd fuel _ _ _ hrec
        have g := Lex.lexToken_good htok
        intro x hx
        simp at hx
        rcases hx with rfl | hx
        · intro hend
          have := g.shape
          rw [hend] at this
          exact this
        · exact ih x hx

theorem parse_lex_error {s : Bytes} {ts : List Token} {e : LexErr} (h : lexAll s = (ts, some e)) :
    ∃ e', Parser.parse s = .error e' := by
  have hne := lexAllAux_err_noEnd _ _ _ _ h
  unfold Parser.parse
  rw [h]
  simp only []
  match ts, hne with
  | [], _ => exact ⟨_, rfl⟩
  | [t0], _ => exact ⟨_, rfl⟩
  | t0 :: t1 :: rest, hne =>
    simp only []
    have hst : NoEnd ⟨t0, t1, rest, some e⟩ :=
      ⟨rfl, hne t0 (by simp), hne t1 (by simp), fun x hx => hne x (by simp [hx])⟩
    generalize hf : fuelFor (t0 :: t1 :: rest).length = f
    have run : ∀ r, (do
        let node ← expression f 1
        if (← currType) != .end then fail .unexpectedToken
        return node : PM INode).run ⟨t0, t1, rest, some e⟩ ≠ .ok r := by
      intro r hr
      simp only [StateT.run] at hr
      cases hx : expression f 1 ⟨t0, t1, rest, some e⟩ with
      | error er => rw [bind_err hx] at hr; cases hr
      | ok x =>
        obtain ⟨n, s1⟩ := x
        rw [bind_ok hx] at hr
        have h1 := ((presAt f).expr 1).h _ _ _ hst hx
        rw [bind_ok (currType_run s1)] at hr
        have : (s1.curr.type != TokenType.end) = true := by simpa using h1.2.1
        rw [if_pos this, bind_err (e := .unexpectedToken) rfl] at hr
        cases hr
    split
    · rename_i n st hr; exact absurd hr (run _)
    · exact ⟨_, rfl⟩

end Jmes.ParserInv
