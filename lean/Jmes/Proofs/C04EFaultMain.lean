/-
  C04 (fourth part), helpers, end: the witness `W` for all thirteen parser functions (`wAll`), and `fault_witness`:
  a static error of `Parser.parse` comes with a fault segment in the token stream.
-/
import Jmes.Proofs.C04EFaultW
import Jmes.Proofs.C04ELemmas
import Jmes.Properties.C04G
namespace Jmes.C04EFault
open Jmes Jmes.Parser Jmes.Pratt Jmes.Grammar Jmes.GrammarF0 Jmes.GrammarS
set_option linter.unusedSimpArgs false
set_option linter.unusedSectionVars false

/-! the generic part of the step, one function at a time -/
section
variable {e : PErr} (hs : IsStatic e = true) (f : Nat) (ih : WAll e f)
include hs ih

theorem w_expr (p : Nat) : W e (expression (f + 1) p) := by
  have sf := sufAll f
  rw [expression.eq_2 p f]; w_tac ih hs sf
theorem w_loop (n : INode) (p : Nat) : W e (exprLoop (f + 1) n p) := by
  have sf := sufAll f
  rw [exprLoop.eq_2 n p f]; w_tac ih hs sf
theorem w_filt : W e (filterP (f + 1)) := by
  have sf := sufAll f
  rw [filterP.eq_2 f]; w_tac ih hs sf
theorem w_vargs (a : List INode) : W e (fnVarArgs (f + 1) a) := by
  have sf := sufAll f
  rw [fnVarArgs.eq_2 a f]; w_tac ih hs sf
theorem w_letp (a : List (Bytes × INode)) : W e (letP (f + 1) a) := by
  have sf := sufAll f
  rw [letP.eq_2 a f]; w_tac ih hs sf
theorem w_prim : W e (primaryExpression (f + 1)) := by
  have sf := sufAll f
  rw [primaryExpression.eq_2 f]; apply W.get_bind; intro ts; split <;> w_tac ih hs sf
theorem w_proj (p : Nat) : W e (projection (f + 1) p) := by
  have sf := sufAll f
  rw [projection.eq_2 p f]; apply W.get_bind; intro ts; split <;> w_tac ih hs sf
theorem w_sarr (c : Option INode) : W e (selectArray (f + 1) c) := by
  have sf := sufAll f
  rw [selectArray.eq_2 c f]; w_tac ih hs sf
theorem w_sarrl (c : Option INode) (l : List INode) : W e (selectArrayLoop (f + 1) c l) := by
  have sf := sufAll f
  rw [selectArrayLoop.eq_2 c l f]; w_tac ih hs sf
theorem w_sobj (c : Option INode) : W e (selectObject (f + 1) c) := by
  have sf := sufAll f
  rw [selectObject.eq_2 c f]; w_tac ih hs sf
theorem w_sobjl (c : Option INode) (l : List (Bytes × INode)) : W e (selectObjectLoop (f + 1) c l) := by
  have sf := sufAll f
  rw [selectObjectLoop.eq_2 c l f]; apply W.get_bind; intro ts; apply W.h; apply W.bind
  · w_tac ih hs sf
  · w_tac ih hs sf
  · intro key
    dsimp only
    w_tac ih hs sf
end

theorem static_of_eq {α} {e e' : PErr} (hs : IsStatic e = true) (h' : IsStatic e' = false)
    (h : (Except.error e' : Except PErr α) = .error e) : False := by
  injection h with h; subst h; rw [hs] at h'; cases h'

theorem w_args {e : PErr} (hs : IsStatic e = true) (f : Nat) (ih : WAll e f) :
    ∀ mn mx acc ts, AllCanon ts → acc.length < mx → mn ≤ mx → fnArgs (f + 1) mn mx acc (stOf ts) = .error e →
      ArgsFault e mn mx acc.length ts := by
  intro mn mx acc ts hC hlt hmm h
  rw [fnArgs.eq_2] at h
  pm_at h [List.length_append, List.length_singleton]
  split at h
  · rename_i n0 s1 heq
    obtain ⟨e0, rest0, rfl, rfl, hw0, rfl, _, _⟩ := (sound f).expr 1 ts n0 s1 hC (by decide) heq
    have recur : ∀ rest1, AllCanon rest1 → acc.length + 1 < mx →
        fnArgs f mn mx (acc ++ [erase e0]) (stOf rest1) = .error e →
        ArgsFault e mn mx acc.length (flat false e0 ++ tComma :: rest1) := by
      intro rest1 hC1 hlt' h
      have := ih.args mn mx _ rest1 hC1 (by simpa using hlt') hmm h
      simp only [List.length_append, List.length_singleton] at this
      rcases this with hw | ⟨he, es, closer, post, hne, rfl, hw, hc⟩
      · exact Or.inl ((hw.cons _).append_left _)
      · refine Or.inr ⟨he, e0 :: es, closer, post, by simp, ?_, by simp only [wpL, hw0, hw, Bool.and_self], ?_⟩
        · rw [flatSep_cons_ne hne]; simp only [List.append_assoc, List.cons_append]
        · simp only [List.length_cons]
          rcases hc with ⟨h1, h2⟩ | ⟨h1, h2⟩
          · exact Or.inl ⟨h1, by omega⟩
          · exact Or.inr ⟨h1, by omega⟩
    by_cases hmin : acc.length + 1 < mn
    · simp only [hmin, if_true] at h
      by_cases hc : (stOf rest0).curr.type = TokenType.closeParen
      · simp only [hc, if_true] at h
        obtain ⟨rest1, rfl, hC1⟩ := curr_canon hC.right hc rfl
        have he : e = .invalidFunctionCall := by injection h with h; exact h.symm
        exact Or.inr ⟨he, [e0], tRParen, rest1, by simp, rfl, by simp only [wpL, hw0, Bool.and_self],
          Or.inl ⟨rfl, by simpa using hmin⟩⟩
      · simp only [hc, if_false] at h
        by_cases hc2 : (stOf rest0).curr.type = TokenType.comma
        · obtain ⟨rest1, rfl, hC1⟩ := curr_canon hC.right hc2 rfl
          pm_at h []
          exact recur rest1 hC1 (by omega) h
        · simp only [hc2, not_false_eq_true, if_true] at h
          exact (static_of_eq hs rfl h).elim
    · simp only [hmin, if_false] at h
      by_cases hmax : acc.length + 1 < mx
      · simp only [hmax, if_true] at h
        by_cases hc : (stOf rest0).curr.type = TokenType.closeParen
        · obtain ⟨rest1, rfl, hC1⟩ := curr_canon hC.right hc rfl
          pm_at h []
        · simp only [hc, if_false] at h
          by_cases hc2 : (stOf rest0).curr.type = TokenType.comma
          · obtain ⟨rest1, rfl, hC1⟩ := curr_canon hC.right hc2 rfl
            pm_at h []
            exact recur rest1 hC1 hmax h
          · simp only [hc2, not_false_eq_true, if_true] at h
            exact (static_of_eq hs rfl h).elim
      · simp only [hmax, if_false] at h
        by_cases hc : (stOf rest0).curr.type = TokenType.comma
        · simp only [hc, if_true] at h
          obtain ⟨rest1, rfl, hC1⟩ := curr_canon hC.right hc rfl
          have he : e = .invalidFunctionCall := by injection h with h; exact h.symm
          exact Or.inr ⟨he, [e0], tComma, rest1, by simp, rfl, by simp only [wpL, hw0, Bool.and_self],
            Or.inr ⟨rfl, by simp only [List.length_singleton]; omega⟩⟩
        · simp only [hc, if_false] at h
          by_cases hc2 : (stOf rest0).curr.type = TokenType.closeParen
          · obtain ⟨rest1, rfl, hC1⟩ := curr_canon hC.right hc2 rfl
            pm_at h []
          · simp only [hc2, not_false_eq_true, if_true] at h
            exact (static_of_eq hs rfl h).elim
  · rename_i e' heq
    have : e' = e := by injection h
    subst this
    exact Or.inl (((ih.expr 1).h ts).h hC heq)

theorem w_func {e : PErr} (hs : IsStatic e = true) (f : Nat) (ih : WAll e f) :
    ∀ ts, (stOf ts).curr.type = .unquotedIdentifier → ((stOf ts).next.type == TokenType.openParen) = true →
      WAt e ts (function (f + 1)) := by
  intro ts hcur hnext
  constructor
  intro hC h
  obtain ⟨name, ts1, rfl, hn⟩ := curr_cons hcur (by decide)
  have hnext' : (stOf ts1).curr.type = TokenType.openParen := by
    rw [stOf_next_eq] at hnext; simpa using hnext
  obtain ⟨ts2, rfl, hC2⟩ := curr_canon hC.tail hnext' rfl
  -- witnesses are found in `ts2` or start at `name`
  have lift : StaticWit e ts2 → StaticWit e (name :: tLParen :: ts2) := fun h => (h.cons _).cons _
  rw [function.eq_2] at h
  pm_at h []
  cases hl : lookupBuiltin name.value with
  | none =>
    simp only [hl, fail_run] at h
    have he : e = .unknownFunction := by injection h with h; exact h.symm
    subst he
    exact StaticWit.here (FaultSeg.unknown hn hl)
  | some spec =>
    simp only [hl] at h
    pm_at h []
    by_cases hcp : (stOf ts2).curr.type = TokenType.closeParen
    · simp only [hcp, if_true] at h
      obtain ⟨post, rfl, _⟩ := curr_canon hC2 hcp rfl
      have he : e = .invalidFunctionCall := by injection h with h; exact h.symm
      subst he
      exact StaticWit.here (FaultSeg.noArgs hn hl)
    simp only [hcp, if_false] at h
    cases spec with
    | fixed mn mx mk =>
      pm_at h []
      split at h
      · cases h
      · rename_i e' heq
        have : e' = e := by injection h
        subst this
        have hr := lookup_fixed_range hl
        rcases ih.args mn mx [] ts2 hC2 (by simp; omega) hr.2 heq with hw | ⟨he, es, closer, post, hne, rfl, hw, hc⟩
        · exact lift hw
        · subst he
          simp only [List.length_nil, Nat.zero_add] at hc
          rcases hc with ⟨rfl, h2⟩ | ⟨rfl, h2⟩
          · have := StaticWit.here (post := post) (FaultSeg.tooFew hn hl hne hw h2)
            (simp only [List.append_assoc, List.cons_append, List.nil_append] at this; exact this)
          · have := StaticWit.here (post := post) (FaultSeg.tooMany hn hl hne hw h2)
            (simp only [List.append_assoc, List.cons_append, List.nil_append] at this; exact this)
    | varArg mk =>
      pm_at h []
      split at h
      · cases h
      · rename_i e' heq
        have : e' = e := by injection h
        subst this
        exact lift (((ih.vargs []).h ts2).h hC2 heq)
    | expArg mk =>
      pm_at h []
      split at h
      · rename_i n0 s1 heq
        obtain ⟨a, rest0, rfl, rfl, hwa, rfl, _, _⟩ := (sound f).expr 1 ts2 n0 s1 hC2 (by decide) heq
        by_cases hc1 : (stOf rest0).curr.type = TokenType.closeParen
        · simp only [hc1, if_true] at h
          obtain ⟨post, rfl, _⟩ := curr_canon hC2.right hc1 rfl
          have he : e = .invalidFunctionCall := by injection h with h; exact h.symm
          subst he
          have := StaticWit.here (post := post) (FaultSeg.expFew hn hl hwa)
          (simp only [List.append_assoc, List.cons_append, List.nil_append] at this; exact this)
        simp only [hc1, if_false] at h
        by_cases hc2 : (stOf rest0).curr.type = TokenType.comma
        case neg => simp only [hc2, not_false_eq_true, if_true] at h; exact (static_of_eq hs rfl h).elim
        simp only [hc2, not_true_eq_false, if_false] at h
        obtain ⟨rest1, rfl, hC1⟩ := curr_canon hC2.right hc2 rfl
        pm_at h []
        by_cases hc3 : (stOf rest1).curr.type = TokenType.expression
        case neg =>
          simp only [hc3, not_false_eq_true, if_true] at h
          have he : e = .invalidFunctionArgument := by injection h with h; exact h.symm
          subst he
          have := StaticWit.here (post := rest1) (FaultSeg.expNoRef hn hl hwa hc3)
          (simp only [List.append_assoc, List.cons_append, List.nil_append] at this; exact this)
        simp only [hc3, not_true_eq_false, if_false] at h
        obtain ⟨rest2, rfl, hC2'⟩ := curr_canon hC1 hc3 rfl
        pm_at h []
        split at h
        · rename_i n1 s2 heq2
          obtain ⟨e2, rest3, rfl, rfl, hwe, rfl, _, _⟩ := (sound f).expr 1 rest2 n1 s2 hC2' (by decide) heq2
          by_cases hc4 : (stOf rest3).curr.type = TokenType.comma
          · simp only [hc4, if_true] at h
            obtain ⟨post, rfl, _⟩ := curr_canon hC2'.right hc4 rfl
            have he : e = .invalidFunctionCall := by injection h with h; exact h.symm
            subst he
            have := StaticWit.here (post := post) (FaultSeg.expMany hn hl hwa hwe)
            (simp only [List.append_assoc, List.cons_append, List.nil_append] at this; exact this)
          simp only [hc4, if_false] at h
          by_cases hc5 : (stOf rest3).curr.type = TokenType.closeParen
          case neg => simp only [hc5, not_false_eq_true, if_true] at h; exact (static_of_eq hs rfl h).elim
          simp only [hc5, not_true_eq_false, if_false] at h
          obtain ⟨rest4, rfl, hC4⟩ := curr_canon hC2'.right hc5 rfl
          pm_at h []
        · rename_i e' heq2
          have : e' = e := by injection h
          subst this
          have := ((ih.expr 1).h rest2).h hC2' heq2
          exact lift ((((this.cons _).cons _)).append_left _)
      · rename_i e' heq
        have : e' = e := by injection h
        subst this
        exact lift (((ih.expr 1).h ts2).h hC2 heq)
    | mapArg mk =>
      pm_at h []
      by_cases hc3 : (stOf ts2).curr.type = TokenType.expression
      case neg =>
        simp only [hc3, not_false_eq_true, if_true] at h
        have he : e = .invalidFunctionArgument := by injection h with h; exact h.symm
        subst he
        exact StaticWit.here (FaultSeg.mapNoRef hn hl hc3 hcp)
      simp only [hc3, not_true_eq_false, if_false] at h
      obtain ⟨ts3, rfl, hC3⟩ := curr_canon hC2 hc3 rfl
      pm_at h []
      split at h
      · rename_i n0 s1 heq
        obtain ⟨e1, rest0, rfl, rfl, hwe, rfl, _, _⟩ := (sound f).expr 1 ts3 n0 s1 hC3 (by decide) heq
        by_cases hc1 : (stOf rest0).curr.type = TokenType.closeParen
        · simp only [hc1, if_true] at h
          obtain ⟨post, rfl, _⟩ := curr_canon hC3.right hc1 rfl
          have he : e = .invalidFunctionCall := by injection h with h; exact h.symm
          subst he
          have := StaticWit.here (post := post) (FaultSeg.mapFew hn hl hwe)
          (simp only [List.append_assoc, List.cons_append, List.nil_append] at this; exact this)
        simp only [hc1, if_false] at h
        by_cases hc2 : (stOf rest0).curr.type = TokenType.comma
        case neg => simp only [hc2, not_false_eq_true, if_true] at h; exact (static_of_eq hs rfl h).elim
        simp only [hc2, not_true_eq_false, if_false] at h
        obtain ⟨rest1, rfl, hC1⟩ := curr_canon hC3.right hc2 rfl
        pm_at h []
        split at h
        · rename_i n1 s2 heq2
          obtain ⟨a, rest3, rfl, rfl, hwa, rfl, _, _⟩ := (sound f).expr 1 rest1 n1 s2 hC1 (by decide) heq2
          by_cases hc4 : (stOf rest3).curr.type = TokenType.comma
          · simp only [hc4, if_true] at h
            obtain ⟨post, rfl, _⟩ := curr_canon hC1.right hc4 rfl
            have he : e = .invalidFunctionCall := by injection h with h; exact h.symm
            subst he
            have := StaticWit.here (post := post) (FaultSeg.mapMany hn hl hwe hwa)
            (simp only [List.append_assoc, List.cons_append, List.nil_append] at this; exact this)
          simp only [hc4, if_false] at h
          by_cases hc5 : (stOf rest3).curr.type = TokenType.closeParen
          case neg => simp only [hc5, not_false_eq_true, if_true] at h; exact (static_of_eq hs rfl h).elim
          simp only [hc5, not_true_eq_false, if_false] at h
          obtain ⟨rest4, rfl, hC4⟩ := curr_canon hC1.right hc5 rfl
          pm_at h []
        · rename_i e' heq2
          have : e' = e := by injection h
          subst this
          have := ((ih.expr 1).h rest1).h hC1 heq2
          exact lift (((this.cons _).append_left _).cons _)
      · rename_i e' heq
        have : e' = e := by injection h
        subst this
        exact lift ((((ih.expr 1).h ts3).h hC3 heq).cons _)


theorem wAll_succ {e : PErr} (hs : IsStatic e = true) (f : Nat) (ih : WAll e f) : WAll e (f + 1) :=
  ⟨w_expr hs f ih, w_loop hs f ih, w_filt hs f ih, w_args hs f ih, w_vargs hs f ih, w_func hs f ih, w_letp hs f ih,
    w_prim hs f ih, w_proj hs f ih, w_sarr hs f ih, w_sarrl hs f ih, w_sobj hs f ih, w_sobjl hs f ih⟩

theorem wAll {e : PErr} (hs : IsStatic e = true) : ∀ f, WAll e f
  | 0 => wAll_zero hs
  | f + 1 => wAll_succ hs f (wAll hs f)

/-! ## From the lexer to the witness -/

theorem lexAllAux_canon : ∀ (fuel : Nat) (s : Bytes) (ts : List Token) (le : Option LexErr),
    lexAllAux fuel s = (ts, le) → AllCanon ts
  | 0, s, ts, le => by
    intro h t ht
    simp [lexAllAux] at h
    rw [h.1] at ht; cases ht
  | fuel + 1, s, ts, le => by
    intro h
    rw [lexAllAux] at h
    split at h
    · cases h
      intro t ht
      simp only [List.mem_singleton] at ht
      subst ht
      intro v hv; cases hv
    · split at h
      · cases h; intro t ht; cases ht
      · rename_i t n htok
        generalize hrec : lexAllAux fuel (List.drop (max n 1) (skipWsLex s.length s)) = p at h
        obtain ⟨ts', e'⟩ := p
        simp only [Prod.mk.injEq] at h
        obtain ⟨h1, h2⟩ := h
        subst h1 h2
        have ih := lexAllAux_canon fuel _ _ _ hrec
        have g := Lex.lexToken_good htok
        intro x hx
        simp at hx
        rcases hx with rfl | hx
        · exact C04G.canon_of_tokShape g.shape
        · exact ih x hx

theorem lexAll_canon {s : Bytes} {ts : List Token} {le : Option LexErr} (h : lexAll s = (ts, le)) : AllCanon ts :=
  lexAllAux_canon _ _ _ _ h

theorem parseToks_none (ts : List Token) : C04ELemmas.parseToks ts none = runTop ts := by
  unfold C04ELemmas.parseToks runTop C04ELemmas.topBlock
  match ts with
  | [] => rfl
  | [_] => rfl
  | _ :: _ :: _ => rfl

/-- a static error of the top-level block comes with a fault segment -/
theorem runTop_fault {e : PErr} (hs : IsStatic e = true) {ts : List Token} (hC : AllCanon ts)
    (h : runTop ts = .error e) : StaticWit e ts := by
  unfold runTop at h
  split at h
  · cases h
  · rename_i e' heq
    have : e' = e := by injection h
    subst this
    rw [bind_run] at heq
    split at heq
    · rename_i n s1 hx
      rw [bind_ok (currType_run _)] at heq
      split at heq
      · rw [bind_err (e := .unexpectedToken) rfl] at heq
        exact (static_of_eq hs rfl heq).elim
      · cases heq
    · rename_i e'' hx
      have : e'' = e' := by injection heq
      subst this
      exact (((wAll hs _).expr 1).h ts).h hC hx

/-- **`fault_witness`**: whenever `Parser.parse` reports one of the four non-syntax errors, the token stream of the
    text (what the lexer produced, up to the end marker or to its first error) contains a fault segment of that kind -/
theorem fault_witness {s : Bytes} {e : PErr} (hs : IsStatic e = true) (h : Parser.parse s = .error e) :
    StaticWit e (lexAll s).1 := by
  rw [C04ELemmas.parse_eq_parseToks] at h
  have hC : AllCanon (lexAll s).1 := lexAll_canon (le := (lexAll s).2) rfl
  have hnl : ∀ x, (Except.error e : Except PErr INode) ≠ .error (.lex x) := by
    intro x hx; injection hx with hx; subst hx; cases hs
  cases hle : (lexAll s).2 with
  | none =>
    rw [hle, parseToks_none] at h
    exact runTop_fault hs hC h
  | some X =>
    rw [hle] at h
    have := C04ELemmas.parseToks_prefix h hnl [] none
    rw [List.append_nil, parseToks_none] at this
    exact runTop_fault hs hC this

end Jmes.C04EFault
