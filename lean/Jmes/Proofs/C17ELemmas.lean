/-
  C17 (fourth part, helper) — CONTEXT CLOSURE PER RUN.

  `Proofs/C17CCtx.lean` closes an identity under contexts when its two sides agree at EVERY current value and
  environment (`NAgree`).  Some identities of C17 hold only where a side condition on the current value holds: a slice
  projection equals its unprojected result piped into `[*]` only where the slice is not a string; `x[*].e` equals
  `map(&e, x)[*]` only where `x` is an array.  Here the closure is proved for such identities, the side condition being
  required only at the states (current value, bindings) at which the sub-expression is evaluated IN THIS RUN.

    1. `agree_bind_ok`, and the loops of the evaluator again (`mapPrune_agree_mem`, …): they consult the functions they
       are given on the elements of the value only;
    2. `Child root n cur env m c e`: evaluating the node `n` on `cur` under `env` evaluates its direct sub-node `m` on `c`
       under `e` (for every constructor of `INode`, with the values the evaluator really passes: the value of the left
       operand of a pipe, the elements of the projected array, the bindings of a `let`, only the non-null value for a
       multi-select, only past the short circuit of `&&` / `||`); `Visits`: its reflexive-transitive closure;
    3. `RunAgree root a G`: the relation "wherever the evaluation of `n1` visits the node `a` in a state where `G` holds,
       `n1` and `n2` agree" is a congruence (`RunAgree.cong`), so `C17CCtx.erase_fill_cong` lifts it through every context;
    4. `context_closure_run_text`: the closure on expression text;
    5. sizes: a node visits itself once, in its own state (`Visits.self`); `Visits.leaf`, `visits_field`, `visits_call1`,
       `Visits.through` to discharge the per-run hypothesis on concrete contexts;
    6. `unrhs ρ`: the right-hand side of a projection as an expression of its own, with the same node (`unrhs_spec`).
-/
import Jmes.Properties.C17C
namespace Jmes.C17E
open Jmes Jmes.Parser Jmes.Pratt Jmes.Grammar Jmes.C17 Jmes.C17B Jmes.C17C Jmes.C17C.Congr Jmes.C17C.Ctx
set_option linter.unusedSimpArgs false
set_option linter.unusedVariables false

/-! ## 1. `>>=` and the loops, locally -/

/-- **`>>=` respects `Agree`**, the continuations being compared on the common value only -/
theorem agree_bind_ok {α β} {x y : Res α} {f g : α → Res β} (h : Agree x y)
    (hf : ∀ a, x = .ok a → y = .ok a → Agree (f a) (g a)) : Agree (x >>= f) (y >>= g) := by
  rcases h with ⟨b, h1, h2⟩ | ⟨h1, h2⟩
  · have := hf b h1 h2
    rw [h1, h2]; exact this
  · exact Or.inr ⟨isOk_bind_left _ _ h1, isOk_bind_left _ _ h2⟩

example : Agree ((Res.ok (.bool true) : Res Val) >>= fun v => if v.isNull then Res.nondet else Res.ok v)
    ((Res.ok (.bool true) : Res Val) >>= fun v => if v.isNull then Res.err [Cat.syntax] else Res.ok v) :=
  agree_bind_ok (Agree.refl _) fun a h _ => by cases h; exact Agree.refl _

/-- the elements of an array value (nothing for any other value) -/
def arrElems : Val → List Val
  | .arr _ xs => xs
  | _ => []

/-- the member values of an object (nothing for any other value) -/
def objVals : Val → List Val
  | .obj kvs => kvs.map Prod.snd
  | _ => []

/-- the elements a flatten projection visits: one level of flattening -/
def flatElems : Val → List Val
  | .arr _ xs => flattenForProject xs
  | _ => []

example : arrElems (.arr .plain [.null, .bool true]) = [.null, .bool true] := rfl
example : objVals (.obj [([97], .bool true)]) = [.bool true] := rfl
example : flatElems (.arr .plain [.arr .plain [.null], .bool true]) = [.null, .bool true] := rfl

section LoopsMem
variable {f g : Val → Res Val}

/-- the loop of `projectArray` consults its function on the elements only -/
theorem mapPrune_agree_mem : ∀ xs, (∀ x ∈ xs, Agree (f x) (g x)) → Agree (mapPrune f xs) (mapPrune g xs)
  | [], _ => Agree.refl _
  | x :: xs, h => by
    simp only [mapPrune]
    exact agree_bind (h x List.mem_cons_self) fun p =>
      agree_bind (mapPrune_agree_mem xs fun y hy => h y (List.mem_cons_of_mem _ hy)) fun rest => Agree.refl _

/-- `projectArray` (`[*]`) consults its function on the elements only -/
theorem projectArray_agree_mem (v : Val) (h : ∀ x ∈ arrElems v, Agree (f x) (g x)) :
    Agree (projectArray f v) (projectArray g v) := by
  cases v <;> simp only [projectArray] <;> try exact Agree.refl _
  exact agree_widen (agree_bind (mapPrune_agree_mem _ h) fun _ => Agree.refl _) _ _ _ _ _ _ _ _

/-- the loop of `filterArray` consults its function on the elements only -/
theorem filterLoop_agree_mem : ∀ xs, (∀ x ∈ xs, Agree (f x) (g x)) → Agree (filterLoop f xs) (filterLoop g xs)
  | [], _ => Agree.refl _
  | x :: xs, h => by
    simp only [filterLoop]
    exact agree_bind (h x List.mem_cons_self) fun p =>
      agree_bind (filterLoop_agree_mem xs fun y hy => h y (List.mem_cons_of_mem _ hy)) fun rest => Agree.refl _

/-- `filterArray` (`[?c]`) consults its function on the elements only -/
theorem filterArray_agree_mem (v : Val) (h : ∀ x ∈ arrElems v, Agree (f x) (g x)) :
    Agree (filterArray f v) (filterArray g v) := by
  cases v <;> simp only [filterArray] <;> try exact Agree.refl _
  exact agree_widen (agree_bind (filterLoop_agree_mem _ h) fun _ => Agree.refl _) _ _ _ _ _ _ _ _

/-- `flattenAndProjectArray` (`[] rhs`) consults its function on the flattened elements only -/
theorem flattenAndProjectArray_agree_mem (v : Val) (h : ∀ x ∈ flatElems v, Agree (f x) (g x)) :
    Agree (flattenAndProjectArray f v) (flattenAndProjectArray g v) := by
  cases v <;> simp only [flattenAndProjectArray] <;> try exact Agree.refl _
  exact agree_widen (agree_bind (mapPrune_agree_mem _ h) fun _ => Agree.refl _) _ _ _ _ _ _ _ _

/-- the loop of `mapArray` consults its function on the elements only -/
theorem mapAll_agree_mem : ∀ xs, (∀ x ∈ xs, Agree (f x) (g x)) → Agree (mapAll f xs) (mapAll g xs)
  | [], _ => Agree.refl _
  | x :: xs, h => by
    simp only [mapAll]
    exact agree_bind (h x List.mem_cons_self) fun p =>
      agree_bind (mapAll_agree_mem xs fun y hy => h y (List.mem_cons_of_mem _ hy)) fun rest => Agree.refl _

/-- `mapArray` (`map(&e, x)`) consults its function on the elements only -/
theorem mapArray_agree_mem (v : Val) (h : ∀ x ∈ arrElems v, Agree (f x) (g x)) :
    Agree (mapArray f v) (mapArray g v) := by
  cases v <;> simp only [mapArray] <;> try exact Agree.refl _
  exact agree_widen (agree_bind (mapAll_agree_mem _ h) fun _ => Agree.refl _) _ _ _ _ _ _ _ _

/-- `projectObject` (`.* rhs`) consults its function on the member values only -/
theorem projectObject_agree_mem (v : Val) (h : ∀ x ∈ objVals v, Agree (f x) (g x)) :
    Agree (projectObject f v) (projectObject g v) := by
  cases v <;> simp only [projectObject] <;> try exact Agree.refl _
  exact agree_widen (agree_bind (mapPrune_agree_mem _ h) fun _ => Agree.refl _) _ _ _ _ _ _ _ _

/-- the key loop of `sort_by` / `max_by` / `min_by` after the first element -/
theorem keysFrom_agree_mem (isStr : Bool) :
    ∀ xs, (∀ x ∈ xs, Agree (f x) (g x)) → Agree (keysFrom f isStr xs) (keysFrom g isStr xs)
  | [], _ => Agree.refl _
  | x :: xs, h => by
    simp only [keysFrom]
    exact agree_bind (h x List.mem_cons_self) fun rv => agree_bind (Agree.refl _) fun k =>
      agree_bind (keysFrom_agree_mem isStr xs fun y hy => h y (List.mem_cons_of_mem _ hy)) fun rest => Agree.refl _

/-- the key loop of `sort_by` / `max_by` / `min_by` -/
theorem keysOf_agree_mem : ∀ xs, (∀ x ∈ xs, Agree (f x) (g x)) → Agree (keysOf f xs) (keysOf g xs)
  | [], _ => Agree.refl _
  | x :: xs, h => by
    have h' : ∀ y ∈ xs, Agree (f y) (g y) := fun y hy => h y (List.mem_cons_of_mem _ hy)
    simp only [keysOf]
    refine agree_bind (h x List.mem_cons_self) fun first => ?_
    cases first <;> simp only []
    case str s => exact agree_bind (keysFrom_agree_mem true xs h') fun _ => Agree.refl _
    all_goals
      cases toDecimal _ <;> simp only []
      · exact Agree.refl _
      · exact agree_bind (keysFrom_agree_mem false xs h') fun _ => Agree.refl _

/-- `max_by` / `min_by`, generically -/
theorem arrayPickBy_agree_mem (better : Key → Key → Bool) (v : Val) (h : ∀ x ∈ arrElems v, Agree (f x) (g x)) :
    Agree (arrayPickBy better f v) (arrayPickBy better g v) := by
  cases v <;> simp only [arrayPickBy] <;> try exact Agree.refl _
  rename_i t xs
  cases xs <;> simp only []
  · exact Agree.refl _
  · exact agree_widen (agree_bind (keysOf_agree_mem _ h) fun _ => Agree.refl _) _ _ _ _ _ _ _ _

/-- `sort_by` consults its function on the elements only -/
theorem sortArrayBy_agree_mem (v : Val) (h : ∀ x ∈ arrElems v, Agree (f x) (g x)) :
    Agree (sortArrayBy f v) (sortArrayBy g v) := by
  cases v <;> simp only [sortArrayBy] <;> try exact Agree.refl _
  split
  · exact Agree.refl _
  · exact agree_widen (agree_bind (keysOf_agree_mem _ h) fun _ => Agree.refl _) _ _ _ _ _ _ _ _

/-- the loop of `group_by`, with any accumulator -/
theorem groupLoop_agree_mem :
    ∀ xs acc, (∀ x ∈ xs, Agree (f x) (g x)) → Agree (groupLoop f xs acc) (groupLoop g xs acc)
  | [], _, _ => Agree.refl _
  | x :: xs, acc, h => by
    simp only [groupLoop]
    refine agree_bind (h x List.mem_cons_self) fun rv => ?_
    cases rv <;> simp only [] <;>
      first | exact Agree.refl _ | exact groupLoop_agree_mem xs _ fun y hy => h y (List.mem_cons_of_mem _ hy)

/-- `group_by` consults its function on the elements only -/
theorem groupBy_agree_mem (v : Val) (h : ∀ x ∈ arrElems v, Agree (f x) (g x)) :
    Agree (groupBy f v) (groupBy g v) := by
  cases v <;> simp only [groupBy] <;> try exact Agree.refl _
  split
  · exact Agree.refl _
  · exact agree_widen (agree_bind (groupLoop_agree_mem _ _ h) fun _ => Agree.refl _) _ _ _ _ _ _ _ _

end LoopsMem

section LoopsMem2
variable {c1 c2 f1 f2 : Val → Res Val}

/-- the loop of `filterAndProjectArray` consults its functions on the elements only -/
theorem filterMapPrune_agree_mem : ∀ xs, (∀ x ∈ xs, Agree (c1 x) (c2 x)) → (∀ x ∈ xs, Agree (f1 x) (f2 x)) →
    Agree (filterMapPrune c1 f1 xs) (filterMapPrune c2 f2 xs)
  | [], _, _ => Agree.refl _
  | x :: xs, hc, hf => by
    have ih := filterMapPrune_agree_mem xs (fun y hy => hc y (List.mem_cons_of_mem _ hy))
      (fun y hy => hf y (List.mem_cons_of_mem _ hy))
    simp only [filterMapPrune]
    refine agree_bind (hc x List.mem_cons_self) fun b => ?_
    split
    · exact agree_bind (hf x List.mem_cons_self) fun p => agree_bind ih fun rest => Agree.refl _
    · exact ih

/-- `filterAndProjectArray` (`[?c] rhs`) consults its functions on the elements only -/
theorem filterAndProjectArray_agree_mem (v : Val) (hc : ∀ x ∈ arrElems v, Agree (c1 x) (c2 x))
    (hf : ∀ x ∈ arrElems v, Agree (f1 x) (f2 x)) :
    Agree (filterAndProjectArray c1 f1 v) (filterAndProjectArray c2 f2 v) := by
  cases v <;> simp only [filterAndProjectArray] <;> try exact Agree.refl _
  exact agree_widen (agree_bind (filterMapPrune_agree_mem _ hc hf) fun _ => Agree.refl _) _ _ _ _ _ _ _ _

end LoopsMem2

/-- two functions that differ on a value that is not an element: the projections agree all the same -/
example : Agree (projectArray (fun v => if v.isNull then Res.err [Cat.invalidType] else Res.ok v) (.arr .plain [.bool true]))
    (projectArray (fun v => Res.ok v) (.arr .plain [.bool true])) :=
  projectArray_agree_mem _ fun x hx => by
    simp only [arrElems, List.mem_singleton] at hx
    subst hx
    exact Agree.refl _


/-! ## 2. Which sub-node is evaluated where -/

/-- **`Child root n cur env m c e`: evaluating the node `n` on the current value `cur` under the bindings `env` evaluates
    its direct sub-node `m` on `c` under `e`** — with the states the evaluator really passes on: the operand of a
    unary form, both operands of an operator, the arguments of a call and the members of a multi-select in the state
    of the node itself (the members only when the value selected from is not null; the right operand of `&&` / `||` only
    past the short circuit); the right operand of a pipe on the value of the left one; the condition and the
    right-hand side of a projection on the elements of the projected value (for a slice projection also on the sliced
    string as a whole); the expression argument of `map`, `sort_by`, … on the elements of the array argument; the body
    of a `let` under the extended bindings. -/
def Child (root : Val) : INode → Val → Env → INode → Val → Env → Prop
  | .binop _ l r, cur, env, m, c, e => (m = l ∨ m = r) ∧ c = cur ∧ e = env
  | .and l r, cur, env, m, c, e =>
    (m = l ∧ c = cur ∧ e = env) ∨ (m = r ∧ c = cur ∧ e = env ∧ ∃ a, ieval root l cur env = .ok a ∧ isTrue a = true)
  | .or l r, cur, env, m, c, e =>
    (m = l ∧ c = cur ∧ e = env) ∨ (m = r ∧ c = cur ∧ e = env ∧ ∃ a, ieval root l cur env = .ok a ∧ isTrue a = false)
  | .not x, cur, env, m, c, e => m = x ∧ c = cur ∧ e = env
  | .negate x, cur, env, m, c, e => m = x ∧ c = cur ∧ e = env
  | .assertNumber x, cur, env, m, c, e => m = x ∧ c = cur ∧ e = env
  | .call _ args, cur, env, m, c, e => m ∈ args ∧ c = cur ∧ e = env
  | .defineVariables vars child, cur, env, m, c, e =>
    ((∃ k, (k, m) ∈ vars) ∧ c = cur ∧ e = env) ∨
      (m = child ∧ c = cur ∧ ∃ bs, ievalFields root vars cur env = .ok bs ∧ e = bs ++ env)
  | .filter x f, cur, env, m, c, e =>
    (m = x ∧ c = cur ∧ e = env) ∨ (m = f ∧ e = env ∧ ∃ a, ieval root x cur env = .ok a ∧ c ∈ arrElems a)
  | .filterCurrent f, cur, env, m, c, e => m = f ∧ e = env ∧ c ∈ arrElems cur
  | .filterAndProject l f r, cur, env, m, c, e =>
    (m = l ∧ c = cur ∧ e = env) ∨ ((m = f ∨ m = r) ∧ e = env ∧ ∃ a, ieval root l cur env = .ok a ∧ c ∈ arrElems a)
  | .filterAndProjectCurrent f r, cur, env, m, c, e => (m = f ∨ m = r) ∧ e = env ∧ c ∈ arrElems cur
  | .flatten x, cur, env, m, c, e => m = x ∧ c = cur ∧ e = env
  | .flattenAndProject l r, cur, env, m, c, e =>
    (m = l ∧ c = cur ∧ e = env) ∨ (m = r ∧ e = env ∧ ∃ a, ieval root l cur env = .ok a ∧ c ∈ flatElems a)
  | .flattenAndProjectCurrent r, cur, env, m, c, e => m = r ∧ e = env ∧ c ∈ flatElems cur
  | .index x _, cur, env, m, c, e => m = x ∧ c = cur ∧ e = env
  | .objectValues x, cur, env, m, c, e => m = x ∧ c = cur ∧ e = env
  | .pipe l r, cur, env, m, c, e => (m = l ∧ c = cur ∧ e = env) ∨ (m = r ∧ e = env ∧ ieval root l cur env = .ok c)
  | .projectArray l r, cur, env, m, c, e =>
    (m = l ∧ c = cur ∧ e = env) ∨
      (m = r ∧ e = env ∧ ∃ a, ieval root l cur env = .ok a ∧ (c ∈ arrElems a ∨ (l.isSlice = true ∧ c = a)))
  | .projectArrayCurrent r, cur, env, m, c, e => m = r ∧ e = env ∧ c ∈ arrElems cur
  | .projectObject l r, cur, env, m, c, e =>
    (m = l ∧ c = cur ∧ e = env) ∨ (m = r ∧ e = env ∧ ∃ a, ieval root l cur env = .ok a ∧ c ∈ objVals a)
  | .projectObjectCurrent r, cur, env, m, c, e => m = r ∧ e = env ∧ c ∈ objVals cur
  | .pruneArray x, cur, env, m, c, e => m = x ∧ c = cur ∧ e = env
  | .selectArray x fs, cur, env, m, c, e =>
    (m = x ∧ c = cur ∧ e = env) ∨ (m ∈ fs ∧ e = env ∧ ieval root x cur env = .ok c ∧ c.isNull = false)
  | .selectArrayCurrent fs, cur, env, m, c, e => m ∈ fs ∧ c = cur ∧ e = env ∧ cur.isNull = false
  | .selectArraySingle x f, cur, env, m, c, e =>
    (m = x ∧ c = cur ∧ e = env) ∨ (m = f ∧ e = env ∧ ieval root x cur env = .ok c ∧ c.isNull = false)
  | .selectArraySingleCurrent f, cur, env, m, c, e => m = f ∧ c = cur ∧ e = env
  | .selectObject x fs, cur, env, m, c, e =>
    (m = x ∧ c = cur ∧ e = env) ∨ ((∃ k, (k, m) ∈ fs) ∧ e = env ∧ ieval root x cur env = .ok c ∧ c.isNull = false)
  | .selectObjectCurrent fs, cur, env, m, c, e => (∃ k, (k, m) ∈ fs) ∧ c = cur ∧ e = env ∧ cur.isNull = false
  | .selectObjectSingle x _ f, cur, env, m, c, e =>
    (m = x ∧ c = cur ∧ e = env) ∨ (m = f ∧ e = env ∧ ieval root x cur env = .ok c ∧ c.isNull = false)
  | .selectObjectSingleCurrent _ f, cur, env, m, c, e => m = f ∧ c = cur ∧ e = env
  | .slice x _ _, cur, env, m, c, e => m = x ∧ c = cur ∧ e = env
  | .sliceStep x _ _ _, cur, env, m, c, e => m = x ∧ c = cur ∧ e = env
  | .groupBy a f, cur, env, m, c, e =>
    (m = a ∧ c = cur ∧ e = env) ∨ (m = f ∧ e = env ∧ ∃ v, ieval root a cur env = .ok v ∧ c ∈ arrElems v)
  | .map f a, cur, env, m, c, e =>
    (m = a ∧ c = cur ∧ e = env) ∨ (m = f ∧ e = env ∧ ∃ v, ieval root a cur env = .ok v ∧ c ∈ arrElems v)
  | .maxBy a f, cur, env, m, c, e =>
    (m = a ∧ c = cur ∧ e = env) ∨ (m = f ∧ e = env ∧ ∃ v, ieval root a cur env = .ok v ∧ c ∈ arrElems v)
  | .minBy a f, cur, env, m, c, e =>
    (m = a ∧ c = cur ∧ e = env) ∨ (m = f ∧ e = env ∧ ∃ v, ieval root a cur env = .ok v ∧ c ∈ arrElems v)
  | .sortBy a f, cur, env, m, c, e =>
    (m = a ∧ c = cur ∧ e = env) ∨ (m = f ∧ e = env ∧ ∃ v, ieval root a cur env = .ok v ∧ c ∈ arrElems v)
  | .merge args, cur, env, m, c, e => m ∈ args ∧ c = cur ∧ e = env
  | .notNull args, cur, env, m, c, e => m ∈ args ∧ c = cur ∧ e = env
  | .zip args, cur, env, m, c, e => m ∈ args ∧ c = cur ∧ e = env
  | _, _, _, _, _, _ => False

/-- `a | b`: `b` is evaluated on the value of `a` -/
example : Child .null (.pipe (.field [97]) (.field [98])) (.obj [([97], .bool true)]) [] (.field [98]) (.bool true) [] :=
  Or.inr ⟨rfl, rfl, rfl⟩
/-- a leaf has no sub-node -/
example (m : INode) (c : Val) (e : Env) : ¬ Child .null (.field [97]) .null [] m c e := fun h => h

/-- **`Visits root n cur env m c e`: the evaluation of `n` on `cur` under `env` evaluates the node `m` on `c` under
    `e`** — `m` is `n` itself in its own state, or a sub-node at any depth in a state `Child` leads to -/
inductive Visits (root : Val) : INode → Val → Env → INode → Val → Env → Prop
  | here (n : INode) (cur : Val) (env : Env) : Visits root n cur env n cur env
  | step {n : INode} {cur : Val} {env : Env} {m : INode} {c : Val} {e : Env} {k : INode} {c' : Val} {e' : Env} :
    Child root n cur env m c e → Visits root m c e k c' e' → Visits root n cur env k c' e'

/-- a visit is the node itself, or passes through a direct sub-node -/
theorem Visits.inv {root : Val} {n : INode} {cur : Val} {env : Env} {k : INode} {c' : Val} {e' : Env}
    (h : Visits root n cur env k c' e') :
    (k = n ∧ c' = cur ∧ e' = env) ∨ ∃ m c e, Child root n cur env m c e ∧ Visits root m c e k c' e' := by
  cases h with
  | here => exact Or.inl ⟨rfl, rfl, rfl⟩
  | step hc hv => exact Or.inr ⟨_, _, _, hc, hv⟩

/-- visits compose -/
theorem Visits.trans {root : Val} {n : INode} {cur : Val} {env : Env} {m : INode} {c : Val} {e : Env} {k : INode}
    {c' : Val} {e' : Env} (h1 : Visits root n cur env m c e) (h2 : Visits root m c e k c' e') :
    Visits root n cur env k c' e' := by
  induction h1 with
  | here => exact h2
  | step hc _ ih => exact .step hc (ih h2)

/-- `length(foo)`: `foo` is evaluated in the state of the call -/
example (d : Val) : Visits d (.call .length [.field [102]]) d [] (.field [102]) d [] :=
  .step (show Child d (.call .length [.field [102]]) d [] (.field [102]) d [] from ⟨List.mem_singleton.mpr rfl, rfl, rfl⟩)
    (.here _ _ _)

/-! ## 3. Agreement wherever a given node is visited in a good state -/

/-- every visit the evaluation of `n` on `cur` under `env` pays to the node `a` is in a state where `G` holds -/
def Good (root : Val) (a : INode) (G : Val → Env → Prop) (n : INode) (cur : Val) (env : Env) : Prop :=
  ∀ c e, Visits root n cur env a c e → G c e

/-- … then so is every visit from a sub-node -/
theorem Good.child {root : Val} {a : INode} {G : Val → Env → Prop} {n : INode} {cur : Val} {env : Env}
    (H : Good root a G n cur env) {m : INode} {c : Val} {e : Env} (hc : Child root n cur env m c e) :
    Good root a G m c e := fun c' e' hv => H c' e' (.step hc hv)

/-- **`RunAgree root a G n1 n2`**: on every current value and environment from which the evaluation of `n1` visits the
    node `a` in states satisfying `G` only, `n1` and `n2` evaluate to agreeing outcomes -/
def RunAgree (root : Val) (a : INode) (G : Val → Env → Prop) (n1 n2 : INode) : Prop :=
  ∀ cur env, Good root a G n1 cur env → Agree (ieval root n1 cur env) (ieval root n2 cur env)

/-- the base case: `a` itself against a node `b` that agrees with it wherever `G` holds -/
theorem RunAgree.base {root : Val} {a b : INode} {G : Val → Env → Prop}
    (h : ∀ cur env, G cur env → Agree (ieval root a cur env) (ieval root b cur env)) : RunAgree root a G a b :=
  fun cur env H => h cur env (H cur env (.here _ _ _))

section Lists
variable {root : Val} {a : INode} {G : Val → Env → Prop}

/-- arguments / multi-select members -/
theorem ievalList_run {ns1 ns2 : List INode} (h : Forall₂ (RunAgree root a G) ns1 ns2) (cur : Val) (env : Env)
    (H : ∀ m ∈ ns1, Good root a G m cur env) : Agree (ievalList root ns1 cur env) (ievalList root ns2 cur env) := by
  induction h with
  | nil => exact Agree.refl _
  | cons hx _ ih =>
    simp only [ievalList]
    exact agree_bind (hx cur env (H _ List.mem_cons_self)) fun v =>
      agree_bind (ih fun m hm => H m (List.mem_cons_of_mem _ hm)) fun _ => Agree.refl _

/-- members of a multi-select hash / bindings of a `let` -/
theorem ievalFields_run {fs1 fs2 : List (Bytes × INode)} (h : Forall₂ (FRel (RunAgree root a G)) fs1 fs2) (cur : Val)
    (env : Env) (H : ∀ k m, (k, m) ∈ fs1 → Good root a G m cur env) :
    Agree (ievalFields root fs1 cur env) (ievalFields root fs2 cur env) := by
  induction h with
  | nil => exact Agree.refl _
  | @cons p q _ _ hx _ ih =>
    obtain ⟨k1, n1⟩ := p
    obtain ⟨k2, n2⟩ := q
    obtain ⟨hk, hn⟩ := hx
    simp only at hk hn
    subst hk
    simp only [ievalFields]
    exact agree_combineUnordered (ih fun k m hm => H k m (List.mem_cons_of_mem _ hm))
      (hn cur env (H _ _ List.mem_cons_self)) _

/-- the arguments of `merge`, with any accumulator -/
theorem ievalMerge_run {ns1 ns2 : List INode} (h : Forall₂ (RunAgree root a G) ns1 ns2) (cur : Val) (env : Env)
    (H : ∀ m ∈ ns1, Good root a G m cur env) :
    ∀ acc, Agree (ievalMerge root ns1 cur env acc) (ievalMerge root ns2 cur env acc) := by
  induction h with
  | nil => exact fun _ => Agree.refl _
  | cons hx _ ih =>
    intro acc
    simp only [ievalMerge]
    refine agree_bind (hx cur env (H _ List.mem_cons_self)) fun v => ?_
    cases v <;> simp only [] <;>
      first | exact Agree.refl _ | exact ih (fun m hm => H m (List.mem_cons_of_mem _ hm)) _

/-- the arguments of `not_null` -/
theorem ievalNotNull_run {ns1 ns2 : List INode} (h : Forall₂ (RunAgree root a G) ns1 ns2) (cur : Val) (env : Env)
    (H : ∀ m ∈ ns1, Good root a G m cur env) :
    Agree (ievalNotNull root ns1 cur env) (ievalNotNull root ns2 cur env) := by
  induction h with
  | nil => exact Agree.refl _
  | cons hx _ ih =>
    simp only [ievalNotNull]
    refine agree_bind (hx cur env (H _ List.mem_cons_self)) fun v => ?_
    split
    · exact ih fun m hm => H m (List.mem_cons_of_mem _ hm)
    · exact Agree.refl _

/-- the arguments of `zip` -/
theorem ievalZip_run {ns1 ns2 : List INode} (h : Forall₂ (RunAgree root a G) ns1 ns2) (cur : Val) (env : Env)
    (H : ∀ m ∈ ns1, Good root a G m cur env) : Agree (ievalZip root ns1 cur env) (ievalZip root ns2 cur env) := by
  induction h with
  | nil => exact Agree.refl _
  | cons hx _ ih =>
    simp only [ievalZip]
    refine agree_bind (hx cur env (H _ List.mem_cons_self)) fun v => ?_
    cases v <;> simp only [] <;>
      first
      | exact Agree.refl _
      | exact agree_bind (ih fun m hm => H m (List.mem_cons_of_mem _ hm)) fun _ => Agree.refl _

end Lists


/-- **`RunAgree root a G` is a congruence on nodes**: every constructor of `INode` evaluates its sub-nodes in states that
    `Child` lists, so visits from a sub-node are visits from the node -/
theorem RunAgree.cong (root : Val) (a : INode) (G : Val → Env → Prop) : Cong (RunAgree root a G) where
  refl := fun _ _ _ _ => Agree.refl _
  binop := by
    intro op l1 l2 r1 r2 hl hr cur env H
    simp only [ieval]
    exact agree_bind (hl cur env (H.child ⟨Or.inl rfl, rfl, rfl⟩)) fun _ =>
      agree_bind (hr cur env (H.child ⟨Or.inr rfl, rfl, rfl⟩)) fun _ => Agree.refl _
  and := by
    intro l1 l2 r1 r2 hl hr cur env H
    simp only [ieval]
    refine agree_bind_ok (hl cur env (H.child (Or.inl ⟨rfl, rfl, rfl⟩))) fun v h1 _ => ?_
    cases ht : isTrue v
    · simp only [ht, Bool.not_false, if_true]; exact Agree.refl _
    · simp only [ht, Bool.not_true, Bool.false_eq_true, if_false]
      exact hr cur env (H.child (Or.inr ⟨rfl, rfl, rfl, v, h1, ht⟩))
  or := by
    intro l1 l2 r1 r2 hl hr cur env H
    simp only [ieval]
    refine agree_bind_ok (hl cur env (H.child (Or.inl ⟨rfl, rfl, rfl⟩))) fun v h1 _ => ?_
    cases ht : isTrue v
    · simp only [ht, Bool.false_eq_true, if_false]
      exact hr cur env (H.child (Or.inr ⟨rfl, rfl, rfl, v, h1, ht⟩))
    · simp only [ht, if_true]; exact Agree.refl _
  not := by
    intro c1 c2 hc cur env H
    simp only [ieval]
    exact agree_bind (hc cur env (H.child ⟨rfl, rfl, rfl⟩)) fun _ => Agree.refl _
  negate := by
    intro c1 c2 hc cur env H
    simp only [ieval]
    exact agree_bind (hc cur env (H.child ⟨rfl, rfl, rfl⟩)) fun _ => Agree.refl _
  assertNumber := by
    intro c1 c2 hc cur env H
    simp only [ieval]
    exact agree_bind (hc cur env (H.child ⟨rfl, rfl, rfl⟩)) fun _ => Agree.refl _
  call := by
    intro f args1 args2 hargs cur env H
    simp only [ieval]
    exact agree_bind (ievalList_run hargs cur env fun m hm => H.child ⟨hm, rfl, rfl⟩) fun _ => Agree.refl _
  defineVariables := by
    intro vars1 vars2 child1 child2 hvars hchild cur env H
    simp only [ieval]
    exact agree_bind_ok (ievalFields_run hvars cur env fun k m hm => H.child (Or.inl ⟨⟨k, hm⟩, rfl, rfl⟩))
      fun bs h1 _ => hchild cur (bs ++ env) (H.child (Or.inr ⟨rfl, rfl, bs, h1, rfl⟩))
  filter := by
    intro c1 c2 f1 f2 hc hf cur env H
    simp only [ieval]
    exact agree_bind_ok (hc cur env (H.child (Or.inl ⟨rfl, rfl, rfl⟩))) fun v h1 _ =>
      filterArray_agree_mem v fun x hx => hf x env (H.child (Or.inr ⟨rfl, rfl, v, h1, hx⟩))
  filterCurrent := by
    intro f1 f2 hf cur env H
    simp only [ieval]
    exact filterArray_agree_mem cur fun x hx => hf x env (H.child ⟨rfl, rfl, hx⟩)
  filterAndProject := by
    intro l1 l2 f1 f2 r1 r2 hl hf hr cur env H
    simp only [ieval]
    exact agree_bind_ok (hl cur env (H.child (Or.inl ⟨rfl, rfl, rfl⟩))) fun v h1 _ =>
      filterAndProjectArray_agree_mem v
        (fun x hx => hf x env (H.child (Or.inr ⟨Or.inl rfl, rfl, v, h1, hx⟩)))
        (fun x hx => hr x env (H.child (Or.inr ⟨Or.inr rfl, rfl, v, h1, hx⟩)))
  filterAndProjectCurrent := by
    intro f1 f2 c1 c2 hf hc cur env H
    simp only [ieval]
    exact filterAndProjectArray_agree_mem cur (fun x hx => hf x env (H.child ⟨Or.inl rfl, rfl, hx⟩))
      (fun x hx => hc x env (H.child ⟨Or.inr rfl, rfl, hx⟩))
  flatten := by
    intro c1 c2 hc cur env H
    simp only [ieval]
    exact agree_bind (hc cur env (H.child ⟨rfl, rfl, rfl⟩)) fun _ => Agree.refl _
  flattenAndProject := by
    intro l1 l2 r1 r2 hl hr cur env H
    simp only [ieval]
    exact agree_bind_ok (hl cur env (H.child (Or.inl ⟨rfl, rfl, rfl⟩))) fun v h1 _ =>
      flattenAndProjectArray_agree_mem v fun x hx => hr x env (H.child (Or.inr ⟨rfl, rfl, v, h1, hx⟩))
  flattenAndProjectCurrent := by
    intro c1 c2 hc cur env H
    simp only [ieval]
    exact flattenAndProjectArray_agree_mem cur fun x hx => hc x env (H.child ⟨rfl, rfl, hx⟩)
  index := by
    intro c1 c2 i hc cur env H
    simp only [ieval]
    exact agree_bind (hc cur env (H.child ⟨rfl, rfl, rfl⟩)) fun _ => Agree.refl _
  objectValues := by
    intro c1 c2 hc cur env H
    simp only [ieval]
    exact agree_bind (hc cur env (H.child ⟨rfl, rfl, rfl⟩)) fun _ => Agree.refl _
  pipe := by
    intro l1 l2 r1 r2 hl hr cur env H
    simp only [ieval]
    exact agree_bind_ok (hl cur env (H.child (Or.inl ⟨rfl, rfl, rfl⟩))) fun v h1 _ =>
      hr v env (H.child (Or.inr ⟨rfl, rfl, h1⟩))
  projectArray := by
    intro l1 l2 r1 r2 hl hs hr cur env H
    simp only [ieval]
    rw [← hs]
    refine agree_bind_ok (hl cur env (H.child (Or.inl ⟨rfl, rfl, rfl⟩))) fun v h1 _ => ?_
    have hp : Agree (projectArray (fun x => ieval root r1 x env) v) (projectArray (fun x => ieval root r2 x env) v) :=
      projectArray_agree_mem v fun x hx => hr x env (H.child (Or.inr ⟨rfl, rfl, v, h1, Or.inl hx⟩))
    cases v <;> simp only [] <;> try exact hp
    split
    · rename_i hsl
      exact hr _ env (H.child (Or.inr ⟨rfl, rfl, _, h1, Or.inr ⟨hsl, rfl⟩⟩))
    · exact hp
  projectArrayCurrent := by
    intro c1 c2 hc cur env H
    simp only [ieval]
    exact projectArray_agree_mem cur fun x hx => hc x env (H.child ⟨rfl, rfl, hx⟩)
  projectObject := by
    intro l1 l2 r1 r2 hl hr cur env H
    simp only [ieval]
    exact agree_bind_ok (hl cur env (H.child (Or.inl ⟨rfl, rfl, rfl⟩))) fun v h1 _ =>
      projectObject_agree_mem v fun x hx => hr x env (H.child (Or.inr ⟨rfl, rfl, v, h1, hx⟩))
  projectObjectCurrent := by
    intro c1 c2 hc cur env H
    simp only [ieval]
    exact projectObject_agree_mem cur fun x hx => hc x env (H.child ⟨rfl, rfl, hx⟩)
  pruneArray := by
    intro c1 c2 hc cur env H
    simp only [ieval]
    exact agree_bind (hc cur env (H.child ⟨rfl, rfl, rfl⟩)) fun _ => Agree.refl _
  selectArray := by
    intro c1 c2 fs1 fs2 hc hfs cur env H
    simp only [ieval]
    refine agree_bind_ok (hc cur env (H.child (Or.inl ⟨rfl, rfl, rfl⟩))) fun v h1 _ => ?_
    cases hn : v.isNull
    · simp only [Bool.false_eq_true, if_false]
      exact agree_bind (ievalList_run hfs v env fun m hm => H.child (Or.inr ⟨hm, rfl, h1, hn⟩)) fun _ => Agree.refl _
    · simp only [if_true]; exact Agree.refl _
  selectArrayCurrent := by
    intro fs1 fs2 hfs cur env H
    simp only [ieval]
    cases hn : cur.isNull
    · simp only [Bool.false_eq_true, if_false]
      exact agree_bind (ievalList_run hfs cur env fun m hm => H.child ⟨hm, rfl, rfl, hn⟩) fun _ => Agree.refl _
    · simp only [if_true]; exact Agree.refl _
  selectArraySingle := by
    intro c1 c2 f1 f2 hc hf cur env H
    simp only [ieval]
    refine agree_bind_ok (hc cur env (H.child (Or.inl ⟨rfl, rfl, rfl⟩))) fun v h1 _ => ?_
    cases hn : v.isNull
    · simp only [Bool.false_eq_true, if_false]
      exact agree_bind (hf v env (H.child (Or.inr ⟨rfl, rfl, h1, hn⟩))) fun _ => Agree.refl _
    · simp only [if_true]; exact Agree.refl _
  selectArraySingleCurrent := by
    intro f1 f2 hf cur env H
    simp only [ieval]
    exact agree_bind (hf cur env (H.child ⟨rfl, rfl, rfl⟩)) fun _ => Agree.refl _
  selectObject := by
    intro c1 c2 fs1 fs2 hc hfs cur env H
    simp only [ieval]
    refine agree_bind_ok (hc cur env (H.child (Or.inl ⟨rfl, rfl, rfl⟩))) fun v h1 _ => ?_
    cases hn : v.isNull
    · simp only [Bool.false_eq_true, if_false]
      exact agree_bind (ievalFields_run hfs v env fun k m hm => H.child (Or.inr ⟨⟨k, hm⟩, rfl, h1, hn⟩))
        fun _ => Agree.refl _
    · simp only [if_true]; exact Agree.refl _
  selectObjectCurrent := by
    intro fs1 fs2 hfs cur env H
    simp only [ieval]
    cases hn : cur.isNull
    · simp only [Bool.false_eq_true, if_false]
      exact agree_bind (ievalFields_run hfs cur env fun k m hm => H.child ⟨⟨k, hm⟩, rfl, rfl, hn⟩) fun _ => Agree.refl _
    · simp only [if_true]; exact Agree.refl _
  selectObjectSingle := by
    intro c1 c2 k f1 f2 hc hf cur env H
    simp only [ieval]
    refine agree_bind_ok (hc cur env (H.child (Or.inl ⟨rfl, rfl, rfl⟩))) fun v h1 _ => ?_
    cases hn : v.isNull
    · simp only [Bool.false_eq_true, if_false]
      exact agree_bind (hf v env (H.child (Or.inr ⟨rfl, rfl, h1, hn⟩))) fun _ => Agree.refl _
    · simp only [if_true]; exact Agree.refl _
  selectObjectSingleCurrent := by
    intro k f1 f2 hf cur env H
    simp only [ieval]
    exact agree_bind (hf cur env (H.child ⟨rfl, rfl, rfl⟩)) fun _ => Agree.refl _
  slice := by
    intro c1 c2 start stop hc cur env H
    simp only [ieval]
    exact agree_bind (hc cur env (H.child ⟨rfl, rfl, rfl⟩)) fun _ => Agree.refl _
  sliceStep := by
    intro c1 c2 start stop step hc cur env H
    simp only [ieval]
    exact agree_bind (hc cur env (H.child ⟨rfl, rfl, rfl⟩)) fun _ => Agree.refl _
  groupBy := by
    intro a1 a2 e1 e2 ha he cur env H
    simp only [ieval]
    exact agree_bind_ok (ha cur env (H.child (Or.inl ⟨rfl, rfl, rfl⟩))) fun v h1 _ =>
      groupBy_agree_mem v fun x hx => he x env (H.child (Or.inr ⟨rfl, rfl, v, h1, hx⟩))
  map := by
    intro e1 e2 a1 a2 he ha cur env H
    simp only [ieval]
    exact agree_bind_ok (ha cur env (H.child (Or.inl ⟨rfl, rfl, rfl⟩))) fun v h1 _ =>
      mapArray_agree_mem v fun x hx => he x env (H.child (Or.inr ⟨rfl, rfl, v, h1, hx⟩))
  maxBy := by
    intro a1 a2 e1 e2 ha he cur env H
    simp only [ieval]
    exact agree_bind_ok (ha cur env (H.child (Or.inl ⟨rfl, rfl, rfl⟩))) fun v h1 _ =>
      arrayPickBy_agree_mem _ v fun x hx => he x env (H.child (Or.inr ⟨rfl, rfl, v, h1, hx⟩))
  minBy := by
    intro a1 a2 e1 e2 ha he cur env H
    simp only [ieval]
    exact agree_bind_ok (ha cur env (H.child (Or.inl ⟨rfl, rfl, rfl⟩))) fun v h1 _ =>
      arrayPickBy_agree_mem _ v fun x hx => he x env (H.child (Or.inr ⟨rfl, rfl, v, h1, hx⟩))
  sortBy := by
    intro a1 a2 e1 e2 ha he cur env H
    simp only [ieval]
    exact agree_bind_ok (ha cur env (H.child (Or.inl ⟨rfl, rfl, rfl⟩))) fun v h1 _ =>
      sortArrayBy_agree_mem v fun x hx => he x env (H.child (Or.inr ⟨rfl, rfl, v, h1, hx⟩))
  merge := by
    intro args1 args2 hargs cur env H
    simp only [ieval]
    exact agree_bind (ievalMerge_run hargs cur env (fun m hm => H.child ⟨hm, rfl, rfl⟩) []) fun _ => Agree.refl _
  notNull := by
    intro args1 args2 hargs cur env H
    simp only [ieval]
    exact ievalNotNull_run hargs cur env fun m hm => H.child ⟨hm, rfl, rfl⟩
  zip := by
    intro args1 args2 hargs cur env H
    simp only [ieval]
    exact agree_bind (ievalZip_run hargs cur env fun m hm => H.child ⟨hm, rfl, rfl⟩) fun _ => Agree.refl _


/-! ## 4. Closure under contexts, per run -/

/-- **context closure per run, nodes**: if `s1` and `s2` agree in every state where `G` holds, then `C[s1]` and `C[s2]`
    agree from every state whose evaluation visits the node of `s1` in states satisfying `G` only -/
theorem erase_fill_run {root : Val} (C : Ctx) {s1 s2 : PTree} (hi1 : s1.isIcur = false) (hi2 : s2.isIcur = false)
    (G : Val → Env → Prop)
    (hG : ∀ cur env, G cur env → Agree (ieval root (erase s1) cur env) (ieval root (erase s2) cur env)) :
    RunAgree root (erase s1) G (erase (C.fill s1)) (erase (C.fill s2)) :=
  erase_fill_cong (RunAgree.cong root (erase s1) G) C hi1 hi2 (RunAgree.base hG)

/-- **context closure per run, on text**.  `e1` is the text of `C[s1]`, `e2` the text of `C[s2]`, both well formed.
    `s1` and `s2` evaluate, on the document `d` as root, to agreeing outcomes in every state (current value, bindings)
    satisfying `G`; and in THIS run — the evaluation of `C[s1]` on `d` — the sub-expression `s1` is evaluated in such
    states only (`hrun`).  Then `search e1 d` and `search e2 d` agree: the same value, or both fail. -/
theorem context_closure_run_text (C : Ctx) {s1 s2 : PTree} (h1 : WellPrec (C.fill s1)) (h2 : WellPrec (C.fill s2))
    (hi1 : s1.isIcur = false) (hi2 : s2.isIcur = false) {e1 e2 : Bytes}
    (hl1 : C17B.Lexes e1 (Grammar.flatten (C.fill s1))) (hl2 : C17B.Lexes e2 (Grammar.flatten (C.fill s2))) (d : Val)
    (G : Val → Env → Prop)
    (hG : ∀ cur env, G cur env → Agree (ieval d (erase s1) cur env) (ieval d (erase s2) cur env))
    (hrun : ∀ cur env, Visits d (erase (C.fill s1)) d [] (erase s1) cur env → G cur env) :
    Agree (search e1 d) (search e2 d) := by
  rw [(C17B.text h1 hl1).2 d, (C17B.text h2 hl2).2 d]
  exact erase_fill_run C hi1 hi2 G hG d [] hrun

/-! ## 5. Sizes: a node does not visit itself twice -/

/-- a member expression is smaller than the member list -/
theorem mem_pair_lt {k : Bytes} {m : INode} {l : List (Bytes × INode)} (h : (k, m) ∈ l) : sizeOf m < sizeOf l := by
  have h1 := List.sizeOf_lt_of_mem h
  have h2 : sizeOf (k, m) = 1 + sizeOf k + sizeOf m := rfl
  omega

/-- a direct sub-node is smaller -/
theorem Child.sizeOf_lt {root : Val} {n : INode} {cur : Val} {env : Env} {m : INode} {c : Val} {e : Env}
    (h : Child root n cur env m c e) : sizeOf m < sizeOf n := by
  cases n <;> simp only [Child] at h
  case defineVariables vars child =>
    rcases h with ⟨⟨k, hm⟩, -⟩ | ⟨rfl, -⟩
    · have := mem_pair_lt hm; simp; omega
    · simp; omega
  case selectArray x fs =>
    rcases h with ⟨rfl, -⟩ | ⟨hm, -⟩
    · simp; omega
    · have := List.sizeOf_lt_of_mem hm; simp; omega
  case selectObject x fs =>
    rcases h with ⟨rfl, -⟩ | ⟨⟨k, hm⟩, -⟩
    · simp; omega
    · have := mem_pair_lt hm; simp; omega
  all_goals
    first
    | exact h.elim
    | (rcases h with ⟨rfl | rfl, -⟩ <;> simp <;> omega)
    | (rcases h with ⟨rfl, -⟩ | ⟨rfl, -⟩ <;> simp <;> omega)
    | (rcases h with ⟨rfl, -⟩ | ⟨rfl | rfl, -⟩ <;> simp <;> omega)
    | (rcases h with ⟨rfl, -⟩; simp <;> omega)
    | (rcases h with ⟨hm, -⟩; have := List.sizeOf_lt_of_mem hm; simp; omega)
    | (rcases h with ⟨⟨k, hm⟩, -⟩; have := mem_pair_lt hm; simp; omega)

/-- a visit goes to the node itself in its own state, or to a strictly smaller node -/
theorem Visits.sizeOf_le {root : Val} {n : INode} {cur : Val} {env : Env} {k : INode} {c' : Val} {e' : Env}
    (h : Visits root n cur env k c' e') : (k = n ∧ c' = cur ∧ e' = env) ∨ sizeOf k < sizeOf n := by
  induction h with
  | here => exact Or.inl ⟨rfl, rfl, rfl⟩
  | step hc _ ih =>
    have := hc.sizeOf_lt
    rcases ih with ⟨rfl, -⟩ | ih
    · exact Or.inr this
    · exact Or.inr (by omega)

/-- **the evaluation of a node visits that node once: in its own state** -/
theorem Visits.self {root : Val} {n : INode} {cur : Val} {env : Env} {c' : Val} {e' : Env}
    (h : Visits root n cur env n c' e') : c' = cur ∧ e' = env := by
  rcases h.sizeOf_le with ⟨-, h⟩ | h
  · exact h
  · omega

/-- a direct sub-node never visits the node -/
theorem Visits.not_child {root : Val} {n : INode} {cur : Val} {env : Env} {m : INode} {c : Val} {e : Env}
    (hc : Child root n cur env m c e) {c' : Val} {e' : Env} : ¬ Visits root m c e n c' e' := fun h => by
  have h1 := hc.sizeOf_lt
  rcases h.sizeOf_le with ⟨h2, -⟩ | h2
  · rw [h2] at h1; omega
  · omega

example (d : Val) (c : Val) (e : Env) (h : Visits d (.pipe (.field [97]) (.field [98])) d [] (.pipe (.field [97]) (.field [98])) c e) :
    c = d ∧ e = [] := h.self


/-- a node without sub-nodes visits itself only -/
theorem Visits.leaf {root : Val} {n : INode} {cur : Val} {env : Env} (hn : ∀ m c e, ¬ Child root n cur env m c e)
    {k : INode} {c' : Val} {e' : Env} (h : Visits root n cur env k c' e') : k = n ∧ c' = cur ∧ e' = env := by
  rcases h.inv with h | ⟨m, c, e, hc, -⟩
  · exact h
  · exact absurd hc (hn m c e)

/-- a field visits itself only -/
theorem visits_field {root : Val} {f : Bytes} {cur : Val} {env : Env} {k : INode} {c' : Val} {e' : Env}
    (h : Visits root (.field f) cur env k c' e') : k = .field f :=
  (h.leaf (n := .field f) (fun _ _ _ hc => hc)).1

/-- a one-argument call evaluates its argument once, in the state of the call -/
theorem visits_call1 {root : Val} {f : Fn} {a : INode} {cur : Val} {env : Env} {c : Val} {e : Env}
    (h : Visits root (.call f [a]) cur env a c e) : c = cur ∧ e = env := by
  rcases h.inv with ⟨h, -⟩ | ⟨m, c1, e1, hc, hv⟩
  · have := congrArg sizeOf h
    simp at this
    omega
  · obtain ⟨hm, rfl, rfl⟩ := hc
    rw [List.mem_singleton.mp hm] at hv
    exact hv.self

/-- a visit to a node other than the node itself passes through a direct sub-node -/
theorem Visits.through {root : Val} {n : INode} {cur : Val} {env : Env} {k : INode} {c' : Val} {e' : Env}
    (h : Visits root n cur env k c' e') (hne : k ≠ n) :
    ∃ m c e, Child root n cur env m c e ∧ Visits root m c e k c' e' := by
  rcases h.inv with ⟨h, -⟩ | h
  · exact absurd h hne
  · exact h

/-! ## 6. A right-hand side as an expression of its own

  The right-hand side `ρ` of a projection (`.R`, `[n]`, `.[e, …]`, `.{k: e, …}`, `.[*]`, a nested projection, and
  anything these are continued by) is a tree whose left-most leaf is the implicit current node, printed in
  right-hand-side position.  `unrhs ρ` is the same selection as a stand-alone EXPRESSION: `.R ↦ R`, `.[e, …] ↦ [e, …]`,
  `.{k: e, …} ↦ {k: e, …}`, `.[*] ↦ [*]` as the multi-select `[ * ]`, the bracket forms unchanged (`[n]`, `[*]σ`, `.*σ ↦ *σ`,
  `[?c]σ`, `[a:b:c]σ`), the rest of the left spine kept.  `unrhs_spec`: it is well formed in primary position, builds the
  SAME node, and is no looser at its right edge. -/

/-- the right-hand side `ρ` of a projection, as an expression of its own -/
def unrhs : PTree → PTree
  | .dotId l r => if l.isIcur then r else .dotId (unrhs l) r
  | .dotList l es => if l.isIcur then .multiList es else .dotList (unrhs l) es
  | .dotHash l kvs => if l.isIcur then .multiHash kvs else .dotHash (unrhs l) kvs
  | .dotStarList l => if l.isIcur then .multiList [.ostar .icur .icur] else .dotStarList (unrhs l)
  | .index l n => .index (unrhs l) n
  | .bin op l r => .bin op (unrhs l) r
  | .star l rhs => .star (unrhs l) rhs
  | .ostar l rhs => .ostar (unrhs l) rhs
  | .flat l rhs => .flat (unrhs l) rhs
  | .filt l c rhs => .filt (unrhs l) c rhs
  | .slice l a b c rhs => .slice (unrhs l) a b c rhs
  | t => t

/-- nothing to do on the implicit current node -/
theorem unrhs_icur : unrhs .icur = .icur := by simp [unrhs]

/-- **`unrhs ρ` is an expression with the node of `ρ`**: for every tree `ρ` that is well formed in right-hand-side
    position, `unrhs ρ` is well formed in primary position, `erase (unrhs ρ) = erase ρ`, and what may follow `ρ` may follow
    `unrhs ρ` -/
theorem unrhs_spec : ∀ (ρ : PTree), Grammar.wp true ρ = true →
    Grammar.wp false (unrhs ρ) = true ∧ erase (unrhs ρ) = erase ρ ∧ rlevel ρ ≤ rlevel (unrhs ρ)
  | .dotId l r, h => by
    cases hl : l.isIcur
    · simp only [Grammar.wp, hl, Bool.false_eq_true, if_false, Bool.and_eq_true, decide_eq_true_eq] at h
      obtain ⟨⟨⟨⟨hwl, hlr⟩, hwr⟩, hrl⟩, hid⟩ := h
      obtain ⟨i1, i2, i3⟩ := unrhs_spec l hwl
      have hi := C17B.not_icur i1
      refine ⟨?_, ?_, ?_⟩
      · simp only [unrhs, hl, Bool.false_eq_true, if_false, Grammar.wp, hi, i1, hwr, hid, Bool.true_and, Bool.and_true,
          Bool.and_eq_true, decide_eq_true_eq]
        exact ⟨Nat.le_trans hlr i3, hrl⟩
      · simp only [unrhs, hl, Bool.false_eq_true, if_false, erase, GrammarF0.optNode_of_ne hl, GrammarF0.optNode_of_ne hi, i2]
      · simp only [unrhs, hl, Bool.false_eq_true, if_false, rlevel]; exact Nat.le_refl _
    · simp only [Grammar.wp, hl, if_true, Bool.and_eq_true, decide_eq_true_eq] at h
      obtain ⟨⟨⟨_, hwr⟩, hrl⟩, hid⟩ := h
      rw [GrammarF0.isIcur_eq hl]
      refine ⟨?_, ?_, ?_⟩
      · simpa only [unrhs, PTree.isIcur, if_true] using hwr
      · simp only [unrhs, PTree.isIcur, if_true, erase, GrammarF0.optNode_icur, subNode]
      · simp only [unrhs, PTree.isIcur, if_true, rlevel]; exact Nat.min_le_right _ _
  | .dotList l es, h => by
    cases hl : l.isIcur
    · simp only [Grammar.wp, hl, Bool.false_eq_true, if_false, Bool.and_eq_true, decide_eq_true_eq] at h
      obtain ⟨⟨⟨hwl, hlr⟩, hne⟩, hes⟩ := h
      obtain ⟨i1, i2, i3⟩ := unrhs_spec l hwl
      have hi := C17B.not_icur i1
      refine ⟨?_, ?_, ?_⟩
      · simp only [unrhs, hl, Bool.false_eq_true, if_false, Grammar.wp, hi, i1, hne, hes, Bool.true_and, Bool.and_true,
          Bool.and_eq_true, decide_eq_true_eq]
        exact Nat.le_trans hlr i3
      · simp only [unrhs, hl, Bool.false_eq_true, if_false, erase, GrammarF0.optNode_of_ne hl, GrammarF0.optNode_of_ne hi, i2]
      · simp only [unrhs, hl, Bool.false_eq_true, if_false, rlevel]; exact Nat.le_refl _
    · simp only [Grammar.wp, hl, if_true, Bool.and_eq_true, decide_eq_true_eq] at h
      obtain ⟨⟨_, hne⟩, hes⟩ := h
      rw [GrammarF0.isIcur_eq hl]
      refine ⟨?_, ?_, ?_⟩
      · simp only [unrhs, PTree.isIcur, if_true, Grammar.wp, hne, hes, Bool.not_false, Bool.and_self]
      · simp only [unrhs, PTree.isIcur, if_true, erase, GrammarF0.optNode_icur]
      · simp only [unrhs, PTree.isIcur, if_true, rlevel]; exact Nat.le_refl _
  | .dotHash l kvs, h => by
    cases hl : l.isIcur
    · simp only [Grammar.wp, hl, Bool.false_eq_true, if_false, Bool.and_eq_true, decide_eq_true_eq] at h
      obtain ⟨⟨⟨hwl, hlr⟩, hne⟩, hes⟩ := h
      obtain ⟨i1, i2, i3⟩ := unrhs_spec l hwl
      have hi := C17B.not_icur i1
      refine ⟨?_, ?_, ?_⟩
      · simp only [unrhs, hl, Bool.false_eq_true, if_false, Grammar.wp, hi, i1, hne, hes, Bool.true_and, Bool.and_true,
          Bool.and_eq_true, decide_eq_true_eq]
        exact Nat.le_trans hlr i3
      · simp only [unrhs, hl, Bool.false_eq_true, if_false, erase, GrammarF0.optNode_of_ne hl, GrammarF0.optNode_of_ne hi, i2]
      · simp only [unrhs, hl, Bool.false_eq_true, if_false, rlevel]; exact Nat.le_refl _
    · simp only [Grammar.wp, hl, if_true, Bool.and_eq_true, decide_eq_true_eq] at h
      obtain ⟨⟨_, hne⟩, hes⟩ := h
      rw [GrammarF0.isIcur_eq hl]
      refine ⟨?_, ?_, ?_⟩
      · simp only [unrhs, PTree.isIcur, if_true, Grammar.wp, hne, hes, Bool.not_false, Bool.and_self]
      · simp only [unrhs, PTree.isIcur, if_true, erase, GrammarF0.optNode_icur]
      · simp only [unrhs, PTree.isIcur, if_true, rlevel]; exact Nat.le_refl _
  | .dotStarList l, h => by
    cases hl : l.isIcur
    · simp only [Grammar.wp, hl, Bool.false_eq_true, if_false, Bool.and_eq_true, decide_eq_true_eq] at h
      obtain ⟨hwl, hlr⟩ := h
      obtain ⟨i1, i2, i3⟩ := unrhs_spec l hwl
      have hi := C17B.not_icur i1
      refine ⟨?_, ?_, ?_⟩
      · simp only [unrhs, hl, Bool.false_eq_true, if_false, Grammar.wp, hi, i1, Bool.true_and, Bool.and_true,
          Bool.and_eq_true, decide_eq_true_eq]
        exact Nat.le_trans hlr i3
      · simp only [unrhs, hl, Bool.false_eq_true, if_false, erase, GrammarF0.optNode_of_ne hl, GrammarF0.optNode_of_ne hi, i2]
      · simp only [unrhs, hl, Bool.false_eq_true, if_false, rlevel]; exact Nat.le_refl _
    · rw [GrammarF0.isIcur_eq hl]
      exact ⟨by decide, rfl, Nat.le_refl _⟩
  | .index l n, h => by
    cases hl : l.isIcur
    · simp only [Grammar.wp, hl, Bool.false_eq_true, if_false, Bool.and_eq_true, decide_eq_true_eq] at h
      obtain ⟨⟨hwl, hlr⟩, hn⟩ := h
      obtain ⟨i1, i2, i3⟩ := unrhs_spec l hwl
      have hi := C17B.not_icur i1
      refine ⟨?_, ?_, ?_⟩
      · simp only [unrhs, Grammar.wp, hi, i1, hn, Bool.false_eq_true, if_false, Bool.true_and, Bool.and_true,
          Bool.and_eq_true, decide_eq_true_eq]
        exact Nat.le_trans hlr i3
      · simp only [unrhs, erase, GrammarF0.optNode_of_ne hl, GrammarF0.optNode_of_ne hi, i2]
      · simp only [unrhs, rlevel]; exact Nat.le_refl _
    · rw [GrammarF0.isIcur_eq hl] at h ⊢
      simp only [Grammar.wp, PTree.isIcur, if_true, Bool.true_and] at h
      refine ⟨?_, ?_, ?_⟩
      · simp only [unrhs, Grammar.wp, PTree.isIcur, if_true, Bool.true_and, h]
      · simp only [unrhs]
      · simp only [unrhs, rlevel]; exact Nat.le_refl _
  | .bin op l r, h => by
    simp only [Grammar.wp] at h
    cases hb : binLevel op.type with
    | none => rw [hb] at h; cases h
    | some lvl =>
      rw [hb] at h
      simp only [Bool.and_eq_true, decide_eq_true_eq, Bool.not_eq_true'] at h
      obtain ⟨⟨⟨⟨hl, hwl⟩, hlr⟩, hwr⟩, hrl⟩ := h
      obtain ⟨i1, i2, i3⟩ := unrhs_spec l hwl
      have hi := C17B.not_icur i1
      refine ⟨?_, ?_, ?_⟩
      · simp only [unrhs, Grammar.wp, hb, hi, i1, hwr, Bool.not_false, Bool.true_and, Bool.and_true,
          Bool.and_eq_true, decide_eq_true_eq]
        exact ⟨Nat.le_trans hlr i3, hrl⟩
      · simp only [unrhs, erase, i2]
      · simp only [unrhs, rlevel]; exact Nat.le_refl _
  | .star l rhs, h => by
    cases hl : l.isIcur
    · simp only [Grammar.wp, hl, Bool.false_eq_true, if_false, Bool.and_eq_true, decide_eq_true_eq] at h
      obtain ⟨⟨hwl, hlr⟩, hrhs⟩ := h
      obtain ⟨i1, i2, i3⟩ := unrhs_spec l hwl
      have hi := C17B.not_icur i1
      refine ⟨?_, ?_, ?_⟩
      · simp only [unrhs, Grammar.wp, hi, i1, hrhs, Bool.false_eq_true, if_false, Bool.true_and, Bool.and_true,
          Bool.and_eq_true, decide_eq_true_eq]
        exact Nat.le_trans hlr i3
      · simp only [unrhs, erase, GrammarF0.optNode_of_ne hl, GrammarF0.optNode_of_ne hi, i2]
      · simp only [unrhs, rlevel]; exact Nat.le_refl _
    · rw [GrammarF0.isIcur_eq hl] at h ⊢
      simp only [Grammar.wp, PTree.isIcur, if_true, Bool.true_and] at h
      refine ⟨?_, ?_, ?_⟩
      · simp only [unrhs, Grammar.wp, PTree.isIcur, if_true, Bool.true_and, h]
      · simp only [unrhs]
      · simp only [unrhs, rlevel]; exact Nat.le_refl _
  | .ostar l rhs, h => by
    cases hl : l.isIcur
    · simp only [Grammar.wp, hl, Bool.false_eq_true, if_false, Bool.and_eq_true, decide_eq_true_eq] at h
      obtain ⟨⟨hwl, hlr⟩, hrhs⟩ := h
      obtain ⟨i1, i2, i3⟩ := unrhs_spec l hwl
      have hi := C17B.not_icur i1
      refine ⟨?_, ?_, ?_⟩
      · simp only [unrhs, Grammar.wp, hi, i1, hrhs, Bool.false_eq_true, if_false, Bool.true_and, Bool.and_true,
          Bool.and_eq_true, decide_eq_true_eq]
        exact Nat.le_trans hlr i3
      · simp only [unrhs, erase, GrammarF0.optNode_of_ne hl, GrammarF0.optNode_of_ne hi, i2]
      · simp only [unrhs, rlevel]; exact Nat.le_refl _
    · rw [GrammarF0.isIcur_eq hl] at h ⊢
      simp only [Grammar.wp, PTree.isIcur, if_true, Bool.true_and] at h
      refine ⟨?_, ?_, ?_⟩
      · simp only [unrhs, Grammar.wp, PTree.isIcur, if_true, Bool.true_and, h]
      · simp only [unrhs]
      · simp only [unrhs, rlevel]; exact Nat.le_refl _
  | .flat l rhs, h => by
    cases hl : l.isIcur
    · simp only [Grammar.wp, hl, Bool.false_eq_true, if_false, Bool.and_eq_true, decide_eq_true_eq] at h
      obtain ⟨⟨hwl, hlr⟩, hrhs⟩ := h
      obtain ⟨i1, i2, i3⟩ := unrhs_spec l hwl
      have hi := C17B.not_icur i1
      refine ⟨?_, ?_, ?_⟩
      · simp only [unrhs, Grammar.wp, hi, i1, hrhs, Bool.false_eq_true, if_false, Bool.true_and, Bool.and_true,
          Bool.and_eq_true, decide_eq_true_eq]
        exact Nat.le_trans hlr i3
      · simp only [unrhs, erase, GrammarF0.optNode_of_ne hl, GrammarF0.optNode_of_ne hi, i2]
      · simp only [unrhs, rlevel]; exact Nat.le_refl _
    · simp only [Grammar.wp, hl, if_true, Bool.not_true, Bool.false_and] at h
      cases h
  | .filt l c rhs, h => by
    cases hl : l.isIcur
    · simp only [Grammar.wp, hl, Bool.false_eq_true, if_false, Bool.and_eq_true, decide_eq_true_eq] at h
      obtain ⟨⟨⟨hwl, hlr⟩, hc⟩, hrhs⟩ := h
      obtain ⟨i1, i2, i3⟩ := unrhs_spec l hwl
      have hi := C17B.not_icur i1
      refine ⟨?_, ?_, ?_⟩
      · simp only [unrhs, Grammar.wp, hi, i1, hc, hrhs, Bool.false_eq_true, if_false, Bool.true_and, Bool.and_true,
          Bool.and_eq_true, decide_eq_true_eq]
        exact Nat.le_trans hlr i3
      · simp only [unrhs, erase, GrammarF0.optNode_of_ne hl, GrammarF0.optNode_of_ne hi, i2]
      · simp only [unrhs, rlevel]; exact Nat.le_refl _
    · rw [GrammarF0.isIcur_eq hl] at h ⊢
      simp only [Grammar.wp, PTree.isIcur, if_true, Bool.true_and] at h
      refine ⟨?_, ?_, ?_⟩
      · simp only [unrhs, Grammar.wp, PTree.isIcur, if_true, Bool.true_and, h]
      · simp only [unrhs]
      · simp only [unrhs, rlevel]; exact Nat.le_refl _
  | .slice l a b c rhs, h => by
    cases hl : l.isIcur
    · simp only [Grammar.wp, hl, Bool.false_eq_true, if_false, Bool.and_eq_true, decide_eq_true_eq] at h
      obtain ⟨⟨⟨hwl, hlr⟩, hc⟩, hrhs⟩ := h
      obtain ⟨i1, i2, i3⟩ := unrhs_spec l hwl
      have hi := C17B.not_icur i1
      refine ⟨?_, ?_, ?_⟩
      · simp only [unrhs, Grammar.wp, hi, i1, hc, hrhs, Bool.false_eq_true, if_false, Bool.true_and, Bool.and_true,
          Bool.and_eq_true, decide_eq_true_eq]
        exact Nat.le_trans hlr i3
      · simp only [unrhs, erase, GrammarF0.optNode_of_ne hl, GrammarF0.optNode_of_ne hi, i2]
      · simp only [unrhs, rlevel]; exact Nat.le_refl _
    · rw [GrammarF0.isIcur_eq hl] at h ⊢
      simp only [Grammar.wp, PTree.isIcur, if_true, Bool.true_and] at h
      refine ⟨?_, ?_, ?_⟩
      · simp only [unrhs, Grammar.wp, PTree.isIcur, if_true, Bool.true_and, h]
      · simp only [unrhs]
      · simp only [unrhs, rlevel]; exact Nat.le_refl _
  | .icur, h => by simp only [Grammar.wp] at h; cases h
  | .atom _, h => by simp only [Grammar.wp, Bool.not_true, Bool.false_and] at h; cases h
  | .paren _, h => by simp only [Grammar.wp, Bool.not_true, Bool.false_and] at h; cases h
  | .not _, h => by simp only [Grammar.wp, Bool.not_true, Bool.false_and] at h; cases h
  | .neg _ _, h => by simp only [Grammar.wp, Bool.not_true, Bool.false_and] at h; cases h
  | .pos _, h => by simp only [Grammar.wp, Bool.not_true, Bool.false_and] at h; cases h
  | .call _ _, h => by simp only [Grammar.wp, Bool.not_true, Bool.false_and] at h; cases h
  | .ref _, h => by simp only [Grammar.wp] at h; cases h
  | .letIn _ _, h => by simp only [Grammar.wp, Bool.not_true, Bool.false_and] at h; cases h
  | .multiList _, h => by simp only [Grammar.wp, Bool.not_true, Bool.false_and] at h; cases h
  | .multiHash _, h => by simp only [Grammar.wp, Bool.not_true, Bool.false_and] at h; cases h

section UnrhsExamples
open Grammar.Ex
/-- `.bar ↦ bar`, `.[a, b] ↦ [a, b]`, `[0] ↦ [0]`, `.{k: a} ↦ {k: a}`, `.bar[0].c ↦ bar[0].c`, `.[*] ↦ [ * ]` -/
example : unrhs (.dotId .icur (idt "bar")) = idt "bar" := by simp [unrhs, PTree.isIcur]
example : unrhs (.dotList .icur [idt "a", idt "b"]) = .multiList [idt "a", idt "b"] := by simp [unrhs, PTree.isIcur]
example : unrhs (.index .icur (int "0")) = .index .icur (int "0") := by simp [unrhs]
example : unrhs (.dotHash .icur [(⟨.unquotedIdentifier, bs "k"⟩, idt "a")]) = .multiHash [(⟨.unquotedIdentifier, bs "k"⟩, idt "a")] := by
  simp [unrhs, PTree.isIcur]
example : unrhs (.dotId (.dotId .icur (.index (idt "bar") (int "0"))) (idt "c")) = .dotId (.index (idt "bar") (int "0")) (idt "c") := by
  simp [unrhs, PTree.isIcur]
example : erase (unrhs (.dotStarList .icur)) = erase (.dotStarList .icur) ∧ WellPrec (unrhs (.dotStarList .icur)) :=
  have h := unrhs_spec (.dotStarList .icur) (by decide)
  ⟨h.2.1, h.1⟩
end UnrhsExamples

end Jmes.C17E
