/-
  Helper for property C14, fourth round: the binary induction over expressions for an ARBITRARY accounting
  (`Grading`, `Jmes/Proofs/C14EGrade.lean`), and its corollaries.

   * `seval_rrG`: if every arithmetic operator of `t` meets its operands within budget (`budget Γ t g`), evaluation on
     two related inputs (`VR false`: same values, any mix of representations) whose floats are of grade `g` gives related
     outcomes.  (The unary invariant `seval_fbG` is in `Jmes/Proofs/C14EGradeFb.lean`.)
   * `evaluate_graded_exact`, `evaluate_congr_graded`, `ieval_congr_graded`: the statements on `evaluate` / `ieval`.
   * `intGrading`: the accounting of `C14C` (floats hold integers `< 2^k`, every operator but `/` doubles `k`, budget
     `2·k ≤ 53`) as an instance — but following the flow of values operand by operand instead of by depth.

  The template is `seval_rrq` of `Jmes/Proofs/C14CLemmasEval.lean` (the fixed accounting `k · 2^d`).
-/
import Jmes.Proofs.C14EGradeFb
namespace Jmes
namespace C14E
open C14 C14B C14C

variable {G : Type}

/-- the hypotheses on the two runs that the induction carries along -/
structure InpG (Γ : Grading G) (B g : G) (root root' cur cur' : Val) (env env' : Env) : Prop where
  hB : Γ.le B g
  c : VR false cur cur'
  fc : AllF (Γ.P g) cur
  fc' : AllF (Γ.P g) cur'
  e : VRF false env env'
  fe : EnvAF (Γ.P g) env
  fe' : EnvAF (Γ.P g) env'

theorem InpG.lift {Γ : Grading G} {B g g' : G} {root root' cur cur' a a' : Val} {env env' : Env}
    (I : InpG Γ B g root root' cur cur' env env') (hk : Γ.le g g') (h : VR false a a') (f : AllF (Γ.P g') a)
    (f' : AllF (Γ.P g') a') : InpG Γ B g' root root' a a' env env' :=
  ⟨Γ.le_trans I.hB hk, h, f, f', I.e, envUpG Γ hk I.fe, envUpG Γ hk I.fe'⟩

mutual
theorem seval_rrG (Γ : Grading G) (B : G) {root root' : Val} (hroot : VR false root root')
    (hr : AllF (Γ.P B) root) (hr' : AllF (Γ.P B) root') : (t : Tree) → FragE t →
      ∀ (g : G) (cur cur' : Val) (env env' : Env), InpG Γ B g root root' cur cur' env env' → budget Γ t g = true →
      RR (VR false) (seval root t cur env) (seval root' t cur' env')
  | .lit v, hl, _, _, _, _, _, _, _ => by
    simp only [Tree.Ops] at hl
    simp only [seval]; exact RR.ok' (vr_self v hl.1 (fun e => by cases e))
  | .current, _, _, _, _, _, _, I, _ => by simp only [seval]; exact RR.ok' I.c
  | .root, _, _, _, _, _, _, _, _ => by simp only [seval]; exact RR.ok' hroot
  | .field x, _, _, _, _, _, _, I, _ => by simp only [seval]; exact RR.ok' (field_vr x I.c)
  | .var x, _, _, _, _, env, env', I, _ => by simp only [seval]; exact envGet_rr' I.e x
  | .index i, _, _, _, _, _, _, I, _ => by simp only [seval]; exact index_rr I.c i
  | .slice a b, _, _, _, _, _, _, I, _ => by simp only [seval]; exact slice_rr I.c a b
  | .sliceStep a b s, _, _, _, _, _, _, I, _ => by simp only [seval]; exact sliceStep_rr I.c a b s
  | .sub l r, hl, g, cur, cur', env, env', I, hb => by
    simp only [Tree.Ops] at hl
    simp only [budget, Bool.and_eq_true] at hb
    simp only [seval]
    refine rr_bind_eq (seval_rrG Γ B hroot hr hr' l hl.1 g cur cur' env env' I hb.1) (fun a a' ea ea' ha => ?_)
    have f1 := seval_fbG Γ B root hr l cur env g hl.1 I.hB hb.1 I.fc I.fe a ea
    have f1' := seval_fbG Γ B root' hr' l cur' env' g hl.1 I.hB hb.1 I.fc' I.fe' a' ea'
    exact seval_rrG Γ B hroot hr hr' r hl.2 (grade Γ l g) a a' env env' (I.lift (le_grade Γ l g) ha f1 f1') hb.2
  | .binop op l r, hl, g, cur, cur', env, env', I, hb => by
    simp only [Tree.Ops] at hl
    simp only [budget, Bool.and_eq_true, Bool.or_eq_true] at hb
    simp only [seval]
    refine rr_bind_eq (seval_rrG Γ B hroot hr hr' l hl.2.1 g cur cur' env env' I hb.1.1) (fun a a' ea ea' ha => ?_)
    refine rr_bind_eq (seval_rrG Γ B hroot hr hr' r hl.2.2 g cur cur' env env' I hb.1.2) (fun b b' eb eb' hb2 => ?_)
    by_cases hcmp : op.isCmp = true
    · exact opCongr_cmp hcmp a a' b b' ha hb2
    · have f1 := seval_fbG Γ B root hr l cur env g hl.2.1 I.hB hb.1.1 I.fc I.fe a ea
      have f1' := seval_fbG Γ B root' hr' l cur' env' g hl.2.1 I.hB hb.1.1 I.fc' I.fe' a' ea'
      have f2 := seval_fbG Γ B root hr r cur env g hl.2.2 I.hB hb.1.2 I.fc I.fe b eb
      have f2' := seval_fbG Γ B root' hr' r cur' env' g hl.2.2 I.hB hb.1.2 I.fc' I.fe' b' eb'
      exact Γ.op_rr ((Bool.not_eq_true _).mp hcmp) (hb.2.resolve_left hcmp) ha hb2 f1 f1' f2 f2'
  | .and l r, hl, g, cur, cur', env, env', I, hb => by
    simp only [Tree.Ops] at hl
    simp only [budget, Bool.and_eq_true] at hb
    simp only [seval]
    refine RR.bind (seval_rrG Γ B hroot hr hr' l hl.1 g cur cur' env env' I hb.1) (fun a a' ha => ?_)
    rw [isTrue_vr ha]
    split
    · exact RR.ok' ha
    · exact seval_rrG Γ B hroot hr hr' r hl.2 g cur cur' env env' I hb.2
  | .or l r, hl, g, cur, cur', env, env', I, hb => by
    simp only [Tree.Ops] at hl
    simp only [budget, Bool.and_eq_true] at hb
    simp only [seval]
    refine RR.bind (seval_rrG Γ B hroot hr hr' l hl.1 g cur cur' env env' I hb.1) (fun a a' ha => ?_)
    rw [isTrue_vr ha]
    split
    · exact RR.ok' ha
    · exact seval_rrG Γ B hroot hr hr' r hl.2 g cur cur' env env' I hb.2
  | .not c, hl, g, cur, cur', env, env', I, hb => by
    simp only [Tree.Ops] at hl
    simp only [budget] at hb
    simp only [seval]
    refine RR.bind (seval_rrG Γ B hroot hr hr' c hl g cur cur' env env' I hb) (fun a a' ha => ?_)
    rw [isTrue_vr ha]; exact RR.ok' (vr_bool _)
  | .neg c, hl, g, cur, cur', env, env', I, hb => by
    simp only [Tree.Ops] at hl
    simp only [budget] at hb
    simp only [seval]
    exact RR.bind (seval_rrG Γ B hroot hr hr' c hl.2 g cur cur' env env' I hb)
      (fun a a' ha => RR.ok' (negCongr a a' ha))
  | .pos c, hl, g, cur, cur', env, env', I, hb => by
    simp only [Tree.Ops] at hl
    simp only [budget] at hb
    simp only [seval]
    refine RR.bind (seval_rrG Γ B hroot hr hr' c hl g cur cur' env env' I hb) (fun a a' ha => ?_)
    simp only [Res.pure_eq, isNumber_vr ha]
    split
    · exact RR.ok' ha
    · exact RR.ok' vr_null
  | .call f args, hl, g, cur, cur', env, env', I, hb => by
    simp only [Tree.Ops] at hl
    simp only [budget] at hb
    simp only [seval]
    exact RR.bind (sevalList_rrG Γ B hroot hr hr' args hl.2 g cur cur' env env' I hb)
      (fun vs vs' hvs => hl.1.elim (fun h => fnCongr_plain h vs vs' hvs) (fun h => fnCongr_round h vs vs' hvs))
  | .prune l, hl, g, cur, cur', env, env', I, hb => by
    simp only [Tree.Ops] at hl
    simp only [budget] at hb
    simp only [seval]
    exact RR.bind (seval_rrG Γ B hroot hr hr' l hl g cur cur' env env' I hb) (fun a a' ha => RR.ok' (pruneArray_vr ha))
  | .proj l r, hl, g, cur, cur', env, env', I, hb => by
    simp only [Tree.Ops] at hl
    simp only [budget, Bool.and_eq_true] at hb
    simp only [seval]
    refine rr_bind_eq (seval_rrG Γ B hroot hr hr' l hl.1 g cur cur' env env' I hb.1) (fun a a' ea ea' ha => ?_)
    have f1 := seval_fbG Γ B root hr l cur env g hl.1 I.hB hb.1 I.fc I.fe a ea
    have f1' := seval_fbG Γ B root' hr' l cur' env' g hl.1 I.hB hb.1 I.fc' I.fe' a' ea'
    exact projectArray_rrp (P := Γ.P (grade Γ l g))
      (fun x x' hx fx fx' => seval_rrG Γ B hroot hr hr' r hl.2 (grade Γ l g) x x' env env'
        (I.lift (le_grade Γ l g) hx fx fx') hb.2) ha f1 f1'
  | .sliceProj l r, hl, g, cur, cur', env, env', I, hb => by
    simp only [Tree.Ops] at hl
    simp only [budget, Bool.and_eq_true] at hb
    simp only [seval]
    refine rr_bind_eq (seval_rrG Γ B hroot hr hr' l hl.1 g cur cur' env env' I hb.1) (fun a a' ea ea' ha => ?_)
    have f1 := seval_fbG Γ B root hr l cur env g hl.1 I.hB hb.1 I.fc I.fe a ea
    have f1' := seval_fbG Γ B root' hr' l cur' env' g hl.1 I.hB hb.1 I.fc' I.fe' a' ea'
    have hf : FRp false (Γ.P (grade Γ l g)) (fun x => seval root r x env) (fun x => seval root' r x env') :=
      fun x x' hx fx fx' => seval_rrG Γ B hroot hr hr' r hl.2 (grade Γ l g) x x' env env'
        (I.lift (le_grade Γ l g) hx fx fx') hb.2
    have hp := projectArray_rrp hf ha f1 f1'
    cases a <;> cases a' <;> simp only [VR] at ha <;> try exact hp
    exact hf _ _ (by simp only [VR]; exact ha) f1 f1'
  | .flatProj l r, hl, g, cur, cur', env, env', I, hb => by
    simp only [Tree.Ops] at hl
    simp only [budget, Bool.and_eq_true] at hb
    simp only [seval]
    refine rr_bind_eq (seval_rrG Γ B hroot hr hr' l hl.1 g cur cur' env env' I hb.1) (fun a a' ea ea' ha => ?_)
    have f1 := seval_fbG Γ B root hr l cur env g hl.1 I.hB hb.1 I.fc I.fe a ea
    have f1' := seval_fbG Γ B root' hr' l cur' env' g hl.1 I.hB hb.1 I.fc' I.fe' a' ea'
    exact flattenAndProjectArray_rrp (P := Γ.P (grade Γ l g))
      (fun x x' hx fx fx' => seval_rrG Γ B hroot hr hr' r hl.2 (grade Γ l g) x x' env env'
        (I.lift (le_grade Γ l g) hx fx fx') hb.2) ha f1 f1'
  | .filterProj l c r, hl, g, cur, cur', env, env', I, hb => by
    simp only [Tree.Ops] at hl
    simp only [budget, Bool.and_eq_true] at hb
    simp only [seval]
    refine rr_bind_eq (seval_rrG Γ B hroot hr hr' l hl.1 g cur cur' env env' I hb.1.1) (fun a a' ea ea' ha => ?_)
    have f1 := seval_fbG Γ B root hr l cur env g hl.1 I.hB hb.1.1 I.fc I.fe a ea
    have f1' := seval_fbG Γ B root' hr' l cur' env' g hl.1 I.hB hb.1.1 I.fc' I.fe' a' ea'
    exact filterAndProjectArray_rrp (P := Γ.P (grade Γ l g))
      (fun x x' hx fx fx' => seval_rrG Γ B hroot hr hr' c hl.2.1 (grade Γ l g) x x' env env'
        (I.lift (le_grade Γ l g) hx fx fx') hb.1.2)
      (fun x x' hx fx fx' => seval_rrG Γ B hroot hr hr' r hl.2.2 (grade Γ l g) x x' env env'
        (I.lift (le_grade Γ l g) hx fx fx') hb.2)
      ha f1 f1'
  | .valueProj l r, hl, g, cur, cur', env, env', I, hb => by
    simp only [Tree.Ops] at hl
    simp only [budget, Bool.and_eq_true] at hb
    simp only [seval]
    refine rr_bind_eq (seval_rrG Γ B hroot hr hr' l hl.1 g cur cur' env env' I hb.1) (fun a a' ea ea' ha => ?_)
    have f1 := seval_fbG Γ B root hr l cur env g hl.1 I.hB hb.1 I.fc I.fe a ea
    have f1' := seval_fbG Γ B root' hr' l cur' env' g hl.1 I.hB hb.1 I.fc' I.fe' a' ea'
    exact projectObject_rrp (P := Γ.P (grade Γ l g))
      (fun x x' hx fx fx' => seval_rrG Γ B hroot hr hr' r hl.2 (grade Γ l g) x x' env env'
        (I.lift (le_grade Γ l g) hx fx fx') hb.2) ha f1 f1'
  | .multiList chk es, hl, g, cur, cur', env, env', I, hb => by
    simp only [Tree.Ops] at hl
    simp only [budget] at hb
    simp only [seval, isNull_vr I.c]
    split
    · exact RR.ok' vr_null
    · exact RR.bind (sevalList_rrG Γ B hroot hr hr' es hl g cur cur' env env' I hb)
        (fun vs vs' hvs => RR.ok' (vr_arr hvs))
  | .multiHash chk kvs, hl, g, cur, cur', env, env', I, hb => by
    simp only [Tree.Ops] at hl
    simp only [budget] at hb
    simp only [seval, isNull_vr I.c]
    split
    · exact RR.ok' vr_null
    · exact RR.bind (sevalFields_rrG Γ B hroot hr hr' kvs hl g cur cur' env env' I hb)
        (fun fs fs' hfs => RR.ok' (vr_obj hfs))
  | .letIn bs body, hl, g, cur, cur', env, env', I, hb => by
    simp only [Tree.Ops] at hl
    simp only [budget, Bool.and_eq_true] at hb
    simp only [seval]
    refine rr_bind_eq (sevalFields_rrG Γ B hroot hr hr' bs hl.1 g cur cur' env env' I hb.1)
      (fun vs vs' e1 e1' hvs => ?_)
    have f1 := sevalFields_fbG Γ B root hr bs cur env g hl.1 I.hB hb.1 I.fc I.fe vs e1
    have f1' := sevalFields_fbG Γ B root' hr' bs cur' env' g hl.1 I.hB hb.1 I.fc' I.fe' vs' e1'
    have hle := le_gradeF Γ bs g
    refine seval_rrG Γ B hroot hr hr' body hl.2 (gradeF Γ bs g) cur cur' (vs ++ env) (vs' ++ env')
      ⟨Γ.le_trans I.hB hle, I.c, upG Γ hle I.fc, upG Γ hle I.fc', vrf_append hvs I.e, ?_, ?_⟩ hb.2
    · intro k' x hm
      rcases List.mem_append.mp hm with hm | hm
      · exact f1 k' x hm
      · exact upG Γ hle (I.fe k' x hm)
    · intro k' x hm
      rcases List.mem_append.mp hm with hm | hm
      · exact f1' k' x hm
      · exact upG Γ hle (I.fe' k' x hm)
  | .groupBy a e, hl, g, cur, cur', env, env', I, hb => by
    simp only [Tree.Ops] at hl
    simp only [budget, Bool.and_eq_true] at hb
    simp only [seval]
    refine rr_bind_eq (seval_rrG Γ B hroot hr hr' a hl.1 g cur cur' env env' I hb.1) (fun v v' ev ev' hv => ?_)
    have f1 := seval_fbG Γ B root hr a cur env g hl.1 I.hB hb.1 I.fc I.fe v ev
    have f1' := seval_fbG Γ B root' hr' a cur' env' g hl.1 I.hB hb.1 I.fc' I.fe' v' ev'
    exact groupBy_rrp (P := Γ.P (grade Γ a g))
      (fun x x' hx fx fx' => seval_rrG Γ B hroot hr hr' e hl.2 (grade Γ a g) x x' env env'
        (I.lift (le_grade Γ a g) hx fx fx') hb.2) hv f1 f1'
  | .map e a, hl, g, cur, cur', env, env', I, hb => by
    simp only [Tree.Ops] at hl
    simp only [budget, Bool.and_eq_true] at hb
    simp only [seval]
    refine rr_bind_eq (seval_rrG Γ B hroot hr hr' a hl.2 g cur cur' env env' I hb.1) (fun v v' ev ev' hv => ?_)
    have f1 := seval_fbG Γ B root hr a cur env g hl.2 I.hB hb.1 I.fc I.fe v ev
    have f1' := seval_fbG Γ B root' hr' a cur' env' g hl.2 I.hB hb.1 I.fc' I.fe' v' ev'
    exact mapArray_rrp (P := Γ.P (grade Γ a g))
      (fun x x' hx fx fx' => seval_rrG Γ B hroot hr hr' e hl.1 (grade Γ a g) x x' env env'
        (I.lift (le_grade Γ a g) hx fx fx') hb.2) hv f1 f1'
  | .maxBy a e, hl, g, cur, cur', env, env', I, hb => by
    simp only [Tree.Ops] at hl
    simp only [budget, Bool.and_eq_true] at hb
    simp only [seval]
    refine rr_bind_eq (seval_rrG Γ B hroot hr hr' a hl.1 g cur cur' env env' I hb.1) (fun v v' ev ev' hv => ?_)
    have f1 := seval_fbG Γ B root hr a cur env g hl.1 I.hB hb.1 I.fc I.fe v ev
    have f1' := seval_fbG Γ B root' hr' a cur' env' g hl.1 I.hB hb.1 I.fc' I.fe' v' ev'
    exact arrayMaxBy_rrp (P := Γ.P (grade Γ a g))
      (fun x x' hx fx fx' => seval_rrG Γ B hroot hr hr' e hl.2 (grade Γ a g) x x' env env'
        (I.lift (le_grade Γ a g) hx fx fx') hb.2) hv f1 f1'
  | .minBy a e, hl, g, cur, cur', env, env', I, hb => by
    simp only [Tree.Ops] at hl
    simp only [budget, Bool.and_eq_true] at hb
    simp only [seval]
    refine rr_bind_eq (seval_rrG Γ B hroot hr hr' a hl.1 g cur cur' env env' I hb.1) (fun v v' ev ev' hv => ?_)
    have f1 := seval_fbG Γ B root hr a cur env g hl.1 I.hB hb.1 I.fc I.fe v ev
    have f1' := seval_fbG Γ B root' hr' a cur' env' g hl.1 I.hB hb.1 I.fc' I.fe' v' ev'
    exact arrayMinBy_rrp (P := Γ.P (grade Γ a g))
      (fun x x' hx fx fx' => seval_rrG Γ B hroot hr hr' e hl.2 (grade Γ a g) x x' env env'
        (I.lift (le_grade Γ a g) hx fx fx') hb.2) hv f1 f1'
  | .sortBy a e, hl, g, cur, cur', env, env', I, hb => by
    simp only [Tree.Ops] at hl
    simp only [budget, Bool.and_eq_true] at hb
    simp only [seval]
    refine rr_bind_eq (seval_rrG Γ B hroot hr hr' a hl.1 g cur cur' env env' I hb.1) (fun v v' ev ev' hv => ?_)
    have f1 := seval_fbG Γ B root hr a cur env g hl.1 I.hB hb.1 I.fc I.fe v ev
    have f1' := seval_fbG Γ B root' hr' a cur' env' g hl.1 I.hB hb.1 I.fc' I.fe' v' ev'
    exact sortArrayBy_rrp (P := Γ.P (grade Γ a g))
      (fun x x' hx fx fx' => seval_rrG Γ B hroot hr hr' e hl.2 (grade Γ a g) x x' env env'
        (I.lift (le_grade Γ a g) hx fx fx') hb.2) hv f1 f1'
  | .merge args, hl, g, cur, cur', env, env', I, hb => by
    simp only [Tree.Ops] at hl
    simp only [budget] at hb
    simp only [seval]
    exact RR.bind (sevalMerge_rrG Γ B hroot hr hr' args hl g cur cur' env env' [] [] I hb vrf_nil)
      (fun kvs kvs' hk => RR.ok' (vr_obj hk))
  | .notNull args, hl, g, cur, cur', env, env', I, hb => by
    simp only [Tree.Ops] at hl
    simp only [budget] at hb
    simp only [seval]
    exact sevalNotNull_rrG Γ B hroot hr hr' args hl g cur cur' env env' I hb
  | .zip args, hl, g, cur, cur', env, env', I, hb => by
    simp only [Tree.Ops] at hl
    simp only [budget] at hb
    simp only [seval]
    refine RR.bind (sevalZip_rrG Γ B hroot hr hr' args hl g cur cur' env env' I hb) (fun vs vs' hvs =>
      RR.bind (zipArgs_rr hvs) (fun cols cols' hcols => ?_))
    cases cols with
    | nil => cases cols' with
      | nil => exact RR.ok' (vr_arr vrl_nil)
      | cons _ _ => simp [L2] at hcols
    | cons c cs => cases cols' with
      | nil => simp [L2] at hcols
      | cons c' cs' =>
        have hcols' := hcols
        simp only [L2] at hcols
        simp only [vrl_length hcols.1, minLen_cols _ hcols.2]
        exact RR.ok' (vr_arr (zipRows_vrl _ hcols'))
theorem sevalList_rrG (Γ : Grading G) (B : G) {root root' : Val} (hroot : VR false root root')
    (hr : AllF (Γ.P B) root) (hr' : AllF (Γ.P B) root') : (ts : List Tree) → FragEL ts →
      ∀ (g : G) (cur cur' : Val) (env env' : Env), InpG Γ B g root root' cur cur' env env' →
      budgetL Γ ts g = true → RR (VRL false) (sevalList root ts cur env) (sevalList root' ts cur' env')
  | [], _, _, _, _, _, _, _, _ => by simp only [sevalList]; exact RR.ok' vrl_nil
  | t :: ts, hl, g, cur, cur', env, env', I, hb => by
    simp only [Tree.OpsL] at hl
    simp only [budgetL, Bool.and_eq_true] at hb
    simp only [sevalList]
    exact RR.bind (seval_rrG Γ B hroot hr hr' t hl.1 g cur cur' env env' I hb.1)
      (fun v v' hv => RR.bind (sevalList_rrG Γ B hroot hr hr' ts hl.2 g cur cur' env env' I hb.2)
        (fun vs vs' hvs => RR.ok' (vrl_cons hv hvs)))
theorem sevalFields_rrG (Γ : Grading G) (B : G) {root root' : Val} (hroot : VR false root root')
    (hr : AllF (Γ.P B) root) (hr' : AllF (Γ.P B) root') : (fs : List (Bytes × Tree)) → FragEF fs →
      ∀ (g : G) (cur cur' : Val) (env env' : Env), InpG Γ B g root root' cur cur' env env' →
      budgetF Γ fs g = true → RR (VRF false) (sevalFields root fs cur env) (sevalFields root' fs cur' env')
  | [], _, _, _, _, _, _, _, _ => by simp only [sevalFields]; exact RR.ok' vrf_nil
  | (k0, t) :: rest, hl, g, cur, cur', env, env', I, hb => by
    simp only [Tree.OpsF] at hl
    simp only [budgetF, Bool.and_eq_true] at hb
    simp only [sevalFields]
    exact combineUnordered_rr k0
      (sevalFields_rrG Γ B hroot hr hr' rest hl.2 g cur cur' env env' I hb.2)
      (seval_rrG Γ B hroot hr hr' t hl.1 g cur cur' env env' I hb.1)
theorem sevalMerge_rrG (Γ : Grading G) (B : G) {root root' : Val} (hroot : VR false root root')
    (hr : AllF (Γ.P B) root) (hr' : AllF (Γ.P B) root') : (ts : List Tree) → FragEL ts →
      ∀ (g : G) (cur cur' : Val) (env env' : Env) (acc acc' : List (Bytes × Val)),
      InpG Γ B g root root' cur cur' env env' → budgetL Γ ts g = true → VRF false acc acc' →
      RR (VRF false) (sevalMerge root ts cur env acc) (sevalMerge root' ts cur' env' acc')
  | [], _, _, _, _, _, _, _, _, _, _, ha => by simp only [sevalMerge]; exact RR.ok' ha
  | t :: ts, hl, g, cur, cur', env, env', acc, acc', I, hb, ha => by
    simp only [Tree.OpsL] at hl
    simp only [budgetL, Bool.and_eq_true] at hb
    simp only [sevalMerge]
    refine RR.bind (seval_rrG Γ B hroot hr hr' t hl.1 g cur cur' env env' I hb.1) (fun v v' hv => ?_)
    cases v <;> cases v' <;> simp only [VR] at hv <;> try exact rr_errType
    exact sevalMerge_rrG Γ B hroot hr hr' ts hl.2 g cur cur' env env' _ _ I hb.2 (foldInsert_vrf hv ha)
theorem sevalNotNull_rrG (Γ : Grading G) (B : G) {root root' : Val} (hroot : VR false root root')
    (hr : AllF (Γ.P B) root) (hr' : AllF (Γ.P B) root') : (ts : List Tree) → FragEL ts →
      ∀ (g : G) (cur cur' : Val) (env env' : Env), InpG Γ B g root root' cur cur' env env' →
      budgetL Γ ts g = true → RR (VR false) (sevalNotNull root ts cur env) (sevalNotNull root' ts cur' env')
  | [], _, _, _, _, _, _, _, _ => by simp only [sevalNotNull]; exact RR.ok' vr_null
  | t :: ts, hl, g, cur, cur', env, env', I, hb => by
    simp only [Tree.OpsL] at hl
    simp only [budgetL, Bool.and_eq_true] at hb
    simp only [sevalNotNull]
    refine RR.bind (seval_rrG Γ B hroot hr hr' t hl.1 g cur cur' env env' I hb.1) (fun v v' hv => ?_)
    rw [isNull_vr hv]
    split
    · exact sevalNotNull_rrG Γ B hroot hr hr' ts hl.2 g cur cur' env env' I hb.2
    · exact RR.ok' hv
theorem sevalZip_rrG (Γ : Grading G) (B : G) {root root' : Val} (hroot : VR false root root')
    (hr : AllF (Γ.P B) root) (hr' : AllF (Γ.P B) root') : (ts : List Tree) → FragEL ts →
      ∀ (g : G) (cur cur' : Val) (env env' : Env), InpG Γ B g root root' cur cur' env env' →
      budgetL Γ ts g = true → RR (VRL false) (sevalZip root ts cur env) (sevalZip root' ts cur' env')
  | [], _, _, _, _, _, _, _, _ => by simp only [sevalZip]; exact RR.ok' vrl_nil
  | t :: ts, hl, g, cur, cur', env, env', I, hb => by
    simp only [Tree.OpsL] at hl
    simp only [budgetL, Bool.and_eq_true] at hb
    simp only [sevalZip]
    refine RR.bind (seval_rrG Γ B hroot hr hr' t hl.1 g cur cur' env env' I hb.1) (fun v v' hv => ?_)
    have hv' := hv
    cases v <;> cases v' <;> simp only [VR] at hv <;> try exact rr_errType
    exact RR.bind (sevalZip_rrG Γ B hroot hr hr' ts hl.2 g cur cur' env env' I hb.2)
      (fun vs vs' hvs => RR.ok' (vrl_cons hv' hvs))
end

/-! ## corollaries on `evaluate` / `ieval` -/

/-- **Every intermediate value is of the computed grade.**  For an expression of the fragment `FragE` (any binary
    operator, `/` included) evaluated on a document whose floats are of grade `B`, if every arithmetic operator meets
    its operands within budget: every float of the result is of grade `grade Γ (desugar n) B` — and the same holds of
    every intermediate value (the statement is the invariant of the induction, `seval_fbG`). -/
theorem evaluate_graded_exact (Γ : Grading G) {n : INode} (hn : FragE (desugar n)) {B : G}
    (hb : budget Γ (desugar n) B = true) {d w : Val} (hf : AllF (Γ.P B) d) (h : evaluate n d = .ok w) :
    AllF (Γ.P (grade Γ (desugar n) B)) w := by
  unfold evaluate at h
  rw [ieval_desugar] at h
  exact seval_fbG Γ B d hf (desugar n) d [] B hn (Γ.le_refl _) hb hf (fun _ _ hm => by cases hm) w h

/-- **Representation independence under an arbitrary accounting of exact representability**: two documents that differ
    only in the Go types carrying their numbers, floats of grade `B` on both sides, every arithmetic operator within
    its budget along the flow of values: the same failure, or results equal up to representation. -/
theorem evaluate_congr_graded (Γ : Grading G) {n : INode} (hn : FragE (desugar n)) {B : G}
    (hb : budget Γ (desugar n) B = true) {d d' : Val} (h : VR false d d') (hf : AllF (Γ.P B) d)
    (hf' : AllF (Γ.P B) d') : RR (VR false) (evaluate n d) (evaluate n d') := by
  unfold evaluate
  rw [ieval_desugar, ieval_desugar]
  exact seval_rrG Γ B h hf hf' (desugar n) hn B d d' [] []
    ⟨Γ.le_refl _, h, hf, hf', vrf_nil, (fun _ _ hm => by cases hm), (fun _ _ hm => by cases hm)⟩ hb

/-- … for `ieval` with arbitrary related current values and environments -/
theorem ieval_congr_graded (Γ : Grading G) {n : INode} (hn : FragE (desugar n)) {B : G}
    (hb : budget Γ (desugar n) B = true) {root root' cur cur' : Val} {env env' : Env}
    (hr : VR false root root') (fr : AllF (Γ.P B) root) (fr' : AllF (Γ.P B) root')
    (hc : VR false cur cur') (fc : AllF (Γ.P B) cur) (fc' : AllF (Γ.P B) cur')
    (he : VRF false env env') (fe : EnvAF (Γ.P B) env) (fe' : EnvAF (Γ.P B) env') :
    RR (VR false) (ieval root n cur env) (ieval root' n cur' env') := by
  rw [ieval_desugar, ieval_desugar]
  exact seval_rrG Γ B hr fr fr' (desugar n) hn B cur cur' env env' ⟨Γ.le_refl _, hc, fc, fc', he, fe, fe'⟩ hb

/-- `Tree.NoDiv` (the fragment of `C14C`) is the part of `FragE` without `/` -/
theorem fragE_of_nd {t : Tree} (h : ND t) : FragE t :=
  Tree.Ops.mono (fun _ _ => trivial) (fun _ h => h) (fun h => h) (fun _ h => h) t h

/-! ## a sanity instance: the accounting of `C14C`, operand by operand -/

/-- floats hold integers `< 2^k`; every operator but `/` at most doubles the number of bits of the larger operand;
    within budget when the doubled number of bits is at most 53 -/
def intGrading : Grading Nat where
  le := (· ≤ ·)
  le_refl := Nat.le_refl
  le_trans := Nat.le_trans
  P := IntF
  mono := fun h hf => hf.mono h
  unclosed := unClosed_intF
  join := max
  le_join_left := Nat.le_max_left
  le_join_right := Nat.le_max_right
  opG := fun _ a b => 2 * max a b
  opOK := fun op a b => decide (op ≠ .div) && decide (2 * max a b ≤ 53)
  le_opG_left := fun _ a b => by omega
  le_opG_right := fun _ a b => by omega
  op_rr := by
    intro op ga gb a a' b b' _ hok ha hb fa fa' fb fb'
    simp only [Bool.and_eq_true, decide_eq_true_eq] at hok
    exact applyBinOp_small_rr hok.1 hok.2 ha hb (up (Nat.le_max_left _ _) fa) (up (Nat.le_max_left _ _) fa')
      (up (Nat.le_max_right _ _) fb) (up (Nat.le_max_right _ _) fb')
  op_fb := by
    intro op ga gb a b w _ hok fa fb hw
    simp only [Bool.and_eq_true, decide_eq_true_eq] at hok
    exact applyBinOp_small_fb hok.1 hok.2 (up (Nat.le_max_left _ _) fa) (up (Nat.le_max_right _ _) fb) hw

unseal exNodeA in
/-- `(a * b + c) % a` on floats below `2^6`: the product is below `2^12`, the sum below `2^24`, the remainder `2^48` -/
theorem exNodeA_budget : budget intGrading (desugar exNodeA) 6 = true ∧ grade intGrading (desugar exNodeA) 6 = 48 := by
  decide

-- the corollaries apply to the pair of documents of `C14C`
example : RR (VR false) (evaluate exNodeA exDocA) (evaluate exNodeA exDocA') :=
  evaluate_congr_graded intGrading (fragE_of_nd exNodeA_noDiv) exNodeA_budget.1 exDocA_vr exDocA_small.1
    exDocA_small.2

example : ∀ w, evaluate exNodeA exDocA = .ok w → AllF (IntF 48) w := fun w h => by
  have := evaluate_graded_exact intGrading (fragE_of_nd exNodeA_noDiv) exNodeA_budget.1 exDocA_small.1 h
  rw [exNodeA_budget.2] at this; exact this

example : RR (VR false) (ieval exDocA exNodeA exDocA []) (ieval exDocA' exNodeA exDocA' []) :=
  ieval_congr_graded intGrading (fragE_of_nd exNodeA_noDiv) exNodeA_budget.1 exDocA_vr exDocA_small.1 exDocA_small.2
    exDocA_vr exDocA_small.1 exDocA_small.2 vrf_nil (fun _ _ hm => by cases hm) (fun _ _ hm => by cases hm)

-- the budget check on `a * (b + (c + (d + e)))`: at 3 bits the grades are 6, 12, 24, 48 — within budget; at 4 bits
-- the last product would need 64 bits; `/` is never within the budget of this accounting
example : budget intGrading (.binop .mul (.field [0x61]) (.binop .add (.field [0x62]) (.binop .add (.field [0x63])
      (.binop .add (.field [0x64]) (.field [0x65]))))) 3 = true ∧
    budget intGrading (.binop .mul (.field [0x61]) (.binop .add (.field [0x62]) (.binop .add (.field [0x63])
      (.binop .add (.field [0x64]) (.field [0x65]))))) 4 = false ∧
    budget intGrading (.binop .div (.field [0x61]) (.field [0x62])) 1 = false := by decide

-- the two inductions themselves, on the expression `a * b` and the documents of `C14C`
example : ∀ w, seval exDocA (.binop .mul (.field [0x61]) (.field [0x62])) exDocA [] = .ok w → AllF (IntF 12) w :=
  fun w h => seval_fbG intGrading 6 exDocA exDocA_small.1 _ exDocA [] 6 (by simp [Tree.Ops]) (Nat.le_refl _)
    (by decide) exDocA_small.1 (fun _ _ hm => by cases hm) w h

example : RR (VR false) (seval exDocA (.binop .mul (.field [0x61]) (.field [0x62])) exDocA [])
    (seval exDocA' (.binop .mul (.field [0x61]) (.field [0x62])) exDocA' []) :=
  seval_rrG intGrading 6 exDocA_vr exDocA_small.1 exDocA_small.2 _ (by simp [Tree.Ops]) 6 exDocA exDocA' [] []
    ⟨Nat.le_refl _, exDocA_vr, exDocA_small.1, exDocA_small.2, vrf_nil, (fun _ _ hm => by cases hm),
      (fun _ _ hm => by cases hm)⟩ (by decide)

-- `le_grade` on a concrete expression
example : intGrading.le 6 (grade intGrading (.binop .mul (.field [0x61]) (.field [0x62])) 6) :=
  le_grade intGrading _ _

end C14E
end Jmes

section
open Jmes Jmes.C14E
end
