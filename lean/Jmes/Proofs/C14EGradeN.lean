/-
  Helper for property C14, fourth round: the accounting of exactly representable floats (`Grading`,
  `Jmes/Proofs/C14EGrade.lean`) combined with congruence "up to declining" (`RNG`, `Jmes/Proofs/C14ENondet.lean`).

  `seval_rrG` (`C14EGradeEval.lean`) covers the builtins that are congruent outright; `sum`, `avg` and `sort` may
  answer `.nondet` on one side only, so they need the outcome relation `RNW`.  This file has

   * `FragEN`: the fragment with every binary operator (the budget decides about the arithmetic ones) and every builtin
     but `to_string`;
   * `seval_fbGQ` / `seval_fbGN`: the unary invariant ("every float of every intermediate value is of the computed
     grade") for a fragment with ANY predicate on builtins — the invariant never looks at it;
   * the higher-order helpers of the evaluator for `RNG`, when the element function is known to be congruent only on
     related elements whose floats satisfy `P` on both sides (`FRGp`, suffix `_rgp`): the pair technique of
     `C14CLemmasHo.lean` applied to the proofs of `C14ENondet.lean`.

  The binary induction and its corollaries are in `Jmes/Proofs/C14EGradeN2.lean`.
-/
import Jmes.Proofs.C14EGradeEval
import Jmes.Proofs.C14ENondet2
namespace Jmes
namespace C14E
open C14 C14B C14C

variable {G : Type}

/-! ## 1. the fragments -/

/-- the fragment with an arbitrary predicate `Q` on builtins: any binary operator, literals that are proper
    float-free numbers -/
abbrev FragQ (Q : Fn → Prop) (t : Tree) : Prop :=
  t.Ops (fun _ => True) Q True (fun v => v.Valued ∧ v.NoFloat)
abbrev FragQL (Q : Fn → Prop) (ts : List Tree) : Prop :=
  Tree.OpsL (fun _ => True) Q True (fun v => v.Valued ∧ v.NoFloat) ts
abbrev FragQF (Q : Fn → Prop) (fs : List (Bytes × Tree)) : Prop :=
  Tree.OpsF (fun _ => True) Q True (fun v => v.Valued ∧ v.NoFloat) fs

/-- the fragment: any binary operator (the budget decides about the arithmetic ones), every builtin but `to_string`,
    literals that are proper float-free numbers -/
abbrev FragEN (t : Tree) : Prop :=
  t.Ops (fun _ => True) (fun f => f ≠ .toString) True (fun v => v.Valued ∧ v.NoFloat)
abbrev FragENL (ts : List Tree) : Prop :=
  Tree.OpsL (fun _ => True) (fun f => f ≠ .toString) True (fun v => v.Valued ∧ v.NoFloat) ts
abbrev FragENF (fs : List (Bytes × Tree)) : Prop :=
  Tree.OpsF (fun _ => True) (fun f => f ≠ .toString) True (fun v => v.Valued ∧ v.NoFloat) fs

/-- `FragE` (the builtins congruent outright) is part of `FragEN` -/
theorem fragEN_of_fragE {t : Tree} (h : FragE t) : FragEN t :=
  Tree.Ops.mono (fun _ _ => trivial) (fun f hf => by
    rintro rfl
    rcases hf with hf | hf <;> cases hf) (fun h => h) (fun _ h => h) t h

/-! ## 2. the unary invariant, whatever the builtins

  The proof is that of `seval_fbG` (`C14EGradeFb.lean`); the predicate on builtins is never consulted:
  `applyFn_af` covers every builtin. -/

variable {Q : Fn → Prop}

mutual
theorem seval_fbGQ (Γ : Grading G) (B : G) (root : Val) (hr : AllF (Γ.P B) root) : (t : Tree) → (cur : Val) →
    (env : Env) → (g : G) → FragQ Q t → Γ.le B g → budget Γ t g = true → AllF (Γ.P g) cur → EnvAF (Γ.P g) env →
    ∀ w, seval root t cur env = .ok w → AllF (Γ.P (grade Γ t g)) w
  | .lit v, cur, env, g, hl, hB, hb, hc, he, w, hw => by
    simp only [Tree.Ops] at hl
    simp only [seval, Res.ok.injEq] at hw; subst hw
    exact allF_of_noFloat _ hl.2
  | .current, cur, env, g, hl, hB, hb, hc, he, w, hw => by
    simp only [seval, Res.ok.injEq] at hw; subst hw
    simp only [grade]; exact hc
  | .root, cur, env, g, hl, hB, hb, hc, he, w, hw => by
    simp only [seval, Res.ok.injEq] at hw; subst hw
    simp only [grade]; exact upG Γ hB hr
  | .field x, cur, env, g, hl, hB, hb, hc, he, w, hw => by
    simp only [seval, Res.ok.injEq] at hw; subst hw
    simp only [grade]; exact field_af x hc
  | .var x, cur, env, g, hl, hB, hb, hc, he, w, hw => by
    simp only [seval] at hw
    simp only [grade]
    split at hw
    · next v hv => simp only [Res.ok.injEq] at hw; subst hw; exact he x _ (objLookup_mem hv)
    · simp at hw
  | .index i, cur, env, g, hl, hB, hb, hc, he, w, hw => by
    simp only [seval] at hw; simp only [grade]; exact index_af hc hw
  | .slice a b, cur, env, g, hl, hB, hb, hc, he, w, hw => by
    simp only [seval] at hw; simp only [grade]; exact slice_af hc hw
  | .sliceStep a b s, cur, env, g, hl, hB, hb, hc, he, w, hw => by
    simp only [seval] at hw; simp only [grade]; exact sliceStep_af hc hw
  | .sub l r, cur, env, g, hl, hB, hb, hc, he, w, hw => by
    simp only [Tree.Ops] at hl
    simp only [budget, Bool.and_eq_true] at hb
    simp only [grade]
    simp only [seval, Res.bind_eq_ok] at hw
    obtain ⟨a, ha, hw⟩ := hw
    have h1 := seval_fbGQ Γ B root hr l cur env g hl.1 hB hb.1 hc he a ha
    exact seval_fbGQ Γ B root hr r a env (grade Γ l g) hl.2 (Γ.le_trans hB (le_grade Γ l g)) hb.2 h1
      (envUpG Γ (le_grade Γ l g) he) w hw
  | .binop op l r, cur, env, g, hl, hB, hb, hc, he, w, hw => by
    simp only [Tree.Ops] at hl
    simp only [budget, Bool.and_eq_true, Bool.or_eq_true] at hb
    simp only [seval, Res.bind_eq_ok] at hw
    obtain ⟨a, ha, b, hb', hw⟩ := hw
    by_cases hcmp : op.isCmp = true
    · exact applyBinOp_cmp_af hcmp hw
    · simp only [grade]
      rw [if_neg hcmp]
      have h1 := seval_fbGQ Γ B root hr l cur env g hl.2.1 hB hb.1.1 hc he a ha
      have h2 := seval_fbGQ Γ B root hr r cur env g hl.2.2 hB hb.1.2 hc he b hb'
      exact Γ.op_fb ((Bool.not_eq_true _).mp hcmp) (hb.2.resolve_left hcmp) h1 h2 hw
  | .and l r, cur, env, g, hl, hB, hb, hc, he, w, hw => by
    simp only [Tree.Ops] at hl
    simp only [budget, Bool.and_eq_true] at hb
    simp only [grade]
    simp only [seval, Res.bind_eq_ok] at hw
    obtain ⟨a, ha, hw⟩ := hw
    split at hw
    · simp only [Res.pure_eq, Res.ok.injEq] at hw; subst hw
      exact upG Γ (Γ.le_join_left _ _) (seval_fbGQ Γ B root hr l cur env g hl.1 hB hb.1 hc he a ha)
    · exact upG Γ (Γ.le_join_right _ _) (seval_fbGQ Γ B root hr r cur env g hl.2 hB hb.2 hc he w hw)
  | .or l r, cur, env, g, hl, hB, hb, hc, he, w, hw => by
    simp only [Tree.Ops] at hl
    simp only [budget, Bool.and_eq_true] at hb
    simp only [grade]
    simp only [seval, Res.bind_eq_ok] at hw
    obtain ⟨a, ha, hw⟩ := hw
    split at hw
    · simp only [Res.pure_eq, Res.ok.injEq] at hw; subst hw
      exact upG Γ (Γ.le_join_left _ _) (seval_fbGQ Γ B root hr l cur env g hl.1 hB hb.1 hc he a ha)
    · exact upG Γ (Γ.le_join_right _ _) (seval_fbGQ Γ B root hr r cur env g hl.2 hB hb.2 hc he w hw)
  | .not c, cur, env, g, hl, hB, hb, hc, he, w, hw => by
    simp only [seval, Res.bind_eq_ok, Res.pure_eq, Res.ok.injEq] at hw
    obtain ⟨a, _, rfl⟩ := hw; simp
  | .neg c, cur, env, g, hl, hB, hb, hc, he, w, hw => by
    simp only [Tree.Ops] at hl
    simp only [budget] at hb
    simp only [grade]
    simp only [seval, Res.bind_eq_ok, Res.pure_eq, Res.ok.injEq] at hw
    obtain ⟨a, ha, rfl⟩ := hw
    exact negateVal_af (Γ.unclosed _).neg (seval_fbGQ Γ B root hr c cur env g hl.2 hB hb hc he a ha)
  | .pos c, cur, env, g, hl, hB, hb, hc, he, w, hw => by
    simp only [Tree.Ops] at hl
    simp only [budget] at hb
    simp only [grade]
    simp only [seval, Res.bind_eq_ok, Res.pure_eq, Res.ok.injEq] at hw
    obtain ⟨a, ha, rfl⟩ := hw
    split
    · exact seval_fbGQ Γ B root hr c cur env g hl hB hb hc he a ha
    · simp
  | .call f args, cur, env, g, hl, hB, hb, hc, he, w, hw => by
    simp only [Tree.Ops] at hl
    simp only [budget] at hb
    simp only [grade]
    simp only [seval, Res.bind_eq_ok] at hw
    obtain ⟨vs, hvs, hw⟩ := hw
    exact applyFn_af (Γ.unclosed _) (sevalList_fbGQ Γ B root hr args cur env g hl.2 hB hb hc he vs hvs) hw
  | .prune l, cur, env, g, hl, hB, hb, hc, he, w, hw => by
    simp only [Tree.Ops] at hl
    simp only [budget] at hb
    simp only [grade]
    simp only [seval, Res.bind_eq_ok, Res.pure_eq, Res.ok.injEq] at hw
    obtain ⟨a, ha, rfl⟩ := hw
    exact pruneArray_af (seval_fbGQ Γ B root hr l cur env g hl hB hb hc he a ha)
  | .proj l r, cur, env, g, hl, hB, hb, hc, he, w, hw => by
    simp only [Tree.Ops] at hl
    simp only [budget, Bool.and_eq_true] at hb
    simp only [grade]
    simp only [seval, Res.bind_eq_ok] at hw
    obtain ⟨a, ha, hw⟩ := hw
    have h1 := seval_fbGQ Γ B root hr l cur env g hl.1 hB hb.1 hc he a ha
    exact projectArray_af (P' := Γ.P (grade Γ r (grade Γ l g)))
      (fun x hx v hv => seval_fbGQ Γ B root hr r x env (grade Γ l g) hl.2 (Γ.le_trans hB (le_grade Γ l g))
        hb.2 hx (envUpG Γ (le_grade Γ l g) he) v hv) h1 hw
  | .sliceProj l r, cur, env, g, hl, hB, hb, hc, he, w, hw => by
    simp only [Tree.Ops] at hl
    simp only [budget, Bool.and_eq_true] at hb
    simp only [grade]
    simp only [seval, Res.bind_eq_ok] at hw
    obtain ⟨a, ha, hw⟩ := hw
    have h1 := seval_fbGQ Γ B root hr l cur env g hl.1 hB hb.1 hc he a ha
    have hf : C14C.PF (Γ.P (grade Γ l g)) (Γ.P (grade Γ r (grade Γ l g))) (fun x => seval root r x env) :=
      fun x hx v hv => seval_fbGQ Γ B root hr r x env (grade Γ l g) hl.2 (Γ.le_trans hB (le_grade Γ l g))
        hb.2 hx (envUpG Γ (le_grade Γ l g) he) v hv
    split at hw
    · exact hf _ h1 w hw
    · exact projectArray_af hf h1 hw
  | .flatProj l r, cur, env, g, hl, hB, hb, hc, he, w, hw => by
    simp only [Tree.Ops] at hl
    simp only [budget, Bool.and_eq_true] at hb
    simp only [grade]
    simp only [seval, Res.bind_eq_ok] at hw
    obtain ⟨a, ha, hw⟩ := hw
    have h1 := seval_fbGQ Γ B root hr l cur env g hl.1 hB hb.1 hc he a ha
    exact flattenAndProjectArray_af (P' := Γ.P (grade Γ r (grade Γ l g)))
      (fun x hx v hv => seval_fbGQ Γ B root hr r x env (grade Γ l g) hl.2 (Γ.le_trans hB (le_grade Γ l g))
        hb.2 hx (envUpG Γ (le_grade Γ l g) he) v hv) h1 hw
  | .filterProj l c r, cur, env, g, hl, hB, hb, hc, he, w, hw => by
    simp only [Tree.Ops] at hl
    simp only [budget, Bool.and_eq_true] at hb
    simp only [grade]
    simp only [seval, Res.bind_eq_ok] at hw
    obtain ⟨a, ha, hw⟩ := hw
    have h1 := seval_fbGQ Γ B root hr l cur env g hl.1 hB hb.1.1 hc he a ha
    exact filterAndProjectArray_af (c := fun v => seval root c v env) (P' := Γ.P (grade Γ r (grade Γ l g)))
      (fun x hx v hv => seval_fbGQ Γ B root hr r x env (grade Γ l g) hl.2.2 (Γ.le_trans hB (le_grade Γ l g))
        hb.2 hx (envUpG Γ (le_grade Γ l g) he) v hv) h1 hw
  | .valueProj l r, cur, env, g, hl, hB, hb, hc, he, w, hw => by
    simp only [Tree.Ops] at hl
    simp only [budget, Bool.and_eq_true] at hb
    simp only [grade]
    simp only [seval, Res.bind_eq_ok] at hw
    obtain ⟨a, ha, hw⟩ := hw
    have h1 := seval_fbGQ Γ B root hr l cur env g hl.1 hB hb.1 hc he a ha
    exact projectObject_af (P' := Γ.P (grade Γ r (grade Γ l g)))
      (fun x hx v hv => seval_fbGQ Γ B root hr r x env (grade Γ l g) hl.2 (Γ.le_trans hB (le_grade Γ l g))
        hb.2 hx (envUpG Γ (le_grade Γ l g) he) v hv) h1 hw
  | .multiList chk es, cur, env, g, hl, hB, hb, hc, he, w, hw => by
    simp only [Tree.Ops] at hl
    simp only [budget] at hb
    simp only [grade]
    simp only [seval] at hw
    split at hw
    · simp only [Res.ok.injEq] at hw; subst hw; simp
    · simp only [Res.bind_eq_ok, Res.pure_eq, Res.ok.injEq] at hw
      obtain ⟨vs, hvs, rfl⟩ := hw
      exact allF_arr.mpr (sevalList_fbGQ Γ B root hr es cur env g hl hB hb hc he vs hvs)
  | .multiHash chk kvs, cur, env, g, hl, hB, hb, hc, he, w, hw => by
    simp only [Tree.Ops] at hl
    simp only [budget] at hb
    simp only [grade]
    simp only [seval] at hw
    split at hw
    · simp only [Res.ok.injEq] at hw; subst hw; simp
    · simp only [Res.bind_eq_ok, Res.pure_eq, Res.ok.injEq] at hw
      obtain ⟨fs, hfs, rfl⟩ := hw
      exact allF_obj.mpr (sevalFields_fbGQ Γ B root hr kvs cur env g hl hB hb hc he fs hfs)
  | .letIn bs body, cur, env, g, hl, hB, hb, hc, he, w, hw => by
    simp only [Tree.Ops] at hl
    simp only [budget, Bool.and_eq_true] at hb
    simp only [grade]
    simp only [seval, Res.bind_eq_ok] at hw
    obtain ⟨vs, hvs, hw⟩ := hw
    have hvs' := sevalFields_fbGQ Γ B root hr bs cur env g hl.1 hB hb.1 hc he vs hvs
    have hle := le_gradeF Γ bs g
    exact seval_fbGQ Γ B root hr body cur (vs ++ env) (gradeF Γ bs g) hl.2 (Γ.le_trans hB hle) hb.2
      (upG Γ hle hc) (by
        intro k' x hm
        rcases List.mem_append.mp hm with hm | hm
        · exact hvs' k' x hm
        · exact upG Γ hle (he k' x hm)) w hw
  | .groupBy a e, cur, env, g, hl, hB, hb, hc, he, w, hw => by
    simp only [Tree.Ops] at hl
    simp only [budget, Bool.and_eq_true] at hb
    simp only [grade]
    simp only [seval, Res.bind_eq_ok] at hw
    obtain ⟨v, hv, hw⟩ := hw
    exact upG Γ (le_grade Γ e _) (groupBy_af (seval_fbGQ Γ B root hr a cur env g hl.1 hB hb.1 hc he v hv) hw)
  | .map e a, cur, env, g, hl, hB, hb, hc, he, w, hw => by
    simp only [Tree.Ops] at hl
    simp only [budget, Bool.and_eq_true] at hb
    simp only [grade]
    simp only [seval, Res.bind_eq_ok] at hw
    obtain ⟨v, hv, hw⟩ := hw
    have h1 := seval_fbGQ Γ B root hr a cur env g hl.2 hB hb.1 hc he v hv
    exact mapArray_af (P' := Γ.P (grade Γ e (grade Γ a g)))
      (fun x hx v hv => seval_fbGQ Γ B root hr e x env (grade Γ a g) hl.1 (Γ.le_trans hB (le_grade Γ a g))
        hb.2 hx (envUpG Γ (le_grade Γ a g) he) v hv) h1 hw
  | .maxBy a e, cur, env, g, hl, hB, hb, hc, he, w, hw => by
    simp only [Tree.Ops] at hl
    simp only [budget, Bool.and_eq_true] at hb
    simp only [grade]
    simp only [seval, Res.bind_eq_ok] at hw
    obtain ⟨v, hv, hw⟩ := hw
    exact upG Γ (le_grade Γ e _) (arrayPickBy_af (seval_fbGQ Γ B root hr a cur env g hl.1 hB hb.1 hc he v hv) hw)
  | .minBy a e, cur, env, g, hl, hB, hb, hc, he, w, hw => by
    simp only [Tree.Ops] at hl
    simp only [budget, Bool.and_eq_true] at hb
    simp only [grade]
    simp only [seval, Res.bind_eq_ok] at hw
    obtain ⟨v, hv, hw⟩ := hw
    exact upG Γ (le_grade Γ e _) (arrayPickBy_af (seval_fbGQ Γ B root hr a cur env g hl.1 hB hb.1 hc he v hv) hw)
  | .sortBy a e, cur, env, g, hl, hB, hb, hc, he, w, hw => by
    simp only [Tree.Ops] at hl
    simp only [budget, Bool.and_eq_true] at hb
    simp only [grade]
    simp only [seval, Res.bind_eq_ok] at hw
    obtain ⟨v, hv, hw⟩ := hw
    exact upG Γ (le_grade Γ e _) (sortArrayBy_af (seval_fbGQ Γ B root hr a cur env g hl.1 hB hb.1 hc he v hv) hw)
  | .merge args, cur, env, g, hl, hB, hb, hc, he, w, hw => by
    simp only [Tree.Ops] at hl
    simp only [budget] at hb
    simp only [grade]
    simp only [seval, Res.bind_eq_ok, Res.pure_eq, Res.ok.injEq] at hw
    obtain ⟨kvs, hk, rfl⟩ := hw
    exact allF_obj.mpr (sevalMerge_fbGQ Γ B root hr args cur env [] g (gradeL Γ args g) hl hB (Γ.le_refl _) hb hc he
      (by simp) kvs hk)
  | .notNull args, cur, env, g, hl, hB, hb, hc, he, w, hw => by
    simp only [Tree.Ops] at hl
    simp only [budget] at hb
    simp only [grade]
    simp only [seval] at hw
    exact sevalNotNull_fbGQ Γ B root hr args cur env g hl hB hb hc he w hw
  | .zip args, cur, env, g, hl, hB, hb, hc, he, w, hw => by
    simp only [Tree.Ops] at hl
    simp only [budget] at hb
    simp only [grade]
    simp only [seval, Res.bind_eq_ok] at hw
    obtain ⟨vs, hvs, cols, hcols, hw⟩ := hw
    have hcn := zipArgs_af (sevalZip_fbGQ Γ B root hr args cur env g hl hB hb hc he vs hvs) hcols
    split at hw
    · simp only [Res.pure_eq, Res.ok.injEq] at hw; subst hw; simp [allF_arr]
    · simp only [Res.pure_eq, Res.ok.injEq] at hw; subst hw
      exact allF_arr.mpr (zipRows_af _ hcn)
theorem sevalList_fbGQ (Γ : Grading G) (B : G) (root : Val) (hr : AllF (Γ.P B) root) : (ts : List Tree) →
    (cur : Val) → (env : Env) → (g : G) → FragQL Q ts → Γ.le B g → budgetL Γ ts g = true → AllF (Γ.P g) cur →
    EnvAF (Γ.P g) env → ∀ vs, sevalList root ts cur env = .ok vs → ∀ v ∈ vs, AllF (Γ.P (gradeL Γ ts g)) v
  | [], cur, env, g, hl, hB, hb, hc, he, vs, hw => by
    simp only [sevalList, Res.ok.injEq] at hw; subst hw; simp
  | t :: ts, cur, env, g, hl, hB, hb, hc, he, vs, hw => by
    simp only [Tree.OpsL] at hl
    simp only [budgetL, Bool.and_eq_true] at hb
    simp only [gradeL]
    simp only [sevalList, Res.bind_eq_ok, Res.pure_eq, Res.ok.injEq] at hw
    obtain ⟨v, hv, rest, hrest, rfl⟩ := hw
    intro y hy
    rcases List.mem_cons.mp hy with rfl | hy
    · exact upG Γ (Γ.le_join_left _ _) (seval_fbGQ Γ B root hr t cur env g hl.1 hB hb.1 hc he _ hv)
    · exact upG Γ (Γ.le_join_right _ _) (sevalList_fbGQ Γ B root hr ts cur env g hl.2 hB hb.2 hc he rest hrest y hy)
theorem sevalFields_fbGQ (Γ : Grading G) (B : G) (root : Val) (hr : AllF (Γ.P B) root) :
    (fs : List (Bytes × Tree)) → (cur : Val) → (env : Env) → (g : G) → FragQF Q fs → Γ.le B g →
    budgetF Γ fs g = true → AllF (Γ.P g) cur → EnvAF (Γ.P g) env →
    ∀ kvs, sevalFields root fs cur env = .ok kvs → ∀ k' x, (k', x) ∈ kvs → AllF (Γ.P (gradeF Γ fs g)) x
  | [], cur, env, g, hl, hB, hb, hc, he, kvs, hw => by
    simp only [sevalFields, Res.ok.injEq] at hw; subst hw; simp
  | (k0, t) :: rest, cur, env, g, hl, hB, hb, hc, he, kvs, hw => by
    simp only [Tree.OpsF] at hl
    simp only [budgetF, Bool.and_eq_true] at hb
    simp only [gradeF]
    simp only [sevalFields] at hw
    exact combineUnordered_af
      (fun kvs' h' k' x hm => upG Γ (Γ.le_join_right _ _)
        (sevalFields_fbGQ Γ B root hr rest cur env g hl.2 hB hb.2 hc he kvs' h' k' x hm))
      (fun v hv => upG Γ (Γ.le_join_left _ _) (seval_fbGQ Γ B root hr t cur env g hl.1 hB hb.1 hc he v hv)) hw
theorem sevalMerge_fbGQ (Γ : Grading G) (B : G) (root : Val) (hr : AllF (Γ.P B) root) : (ts : List Tree) →
    (cur : Val) → (env : Env) → (acc : List (Bytes × Val)) → (g gd : G) → FragQL Q ts → Γ.le B g →
    Γ.le (gradeL Γ ts g) gd → budgetL Γ ts g = true → AllF (Γ.P g) cur → EnvAF (Γ.P g) env →
    (∀ k' x, (k', x) ∈ acc → AllF (Γ.P gd) x) →
    ∀ kvs, sevalMerge root ts cur env acc = .ok kvs → ∀ k' x, (k', x) ∈ kvs → AllF (Γ.P gd) x
  | [], cur, env, acc, g, gd, hl, hB, hd, hb, hc, he, hacc, kvs, hw => by
    simp only [sevalMerge, Res.ok.injEq] at hw; subst hw; exact hacc
  | t :: ts, cur, env, acc, g, gd, hl, hB, hd, hb, hc, he, hacc, kvs, hw => by
    simp only [Tree.OpsL] at hl
    simp only [budgetL, Bool.and_eq_true] at hb
    simp only [gradeL] at hd
    simp only [sevalMerge, Res.bind_eq_ok] at hw
    obtain ⟨v, hv, hw⟩ := hw
    have h1 : Γ.le (grade Γ t g) gd := Γ.le_trans (Γ.le_join_left _ _) hd
    have h2 : Γ.le (gradeL Γ ts g) gd := Γ.le_trans (Γ.le_join_right _ _) hd
    have hvn := upG Γ h1 (seval_fbGQ Γ B root hr t cur env g hl.1 hB hb.1 hc he v hv)
    split at hw
    · exact sevalMerge_fbGQ Γ B root hr ts cur env _ g gd hl.2 hB h2 hb.2 hc he
        (foldl_objInsert_af (allF_obj.mp hvn) hacc) kvs hw
    · simp [errType] at hw
theorem sevalNotNull_fbGQ (Γ : Grading G) (B : G) (root : Val) (hr : AllF (Γ.P B) root) : (ts : List Tree) →
    (cur : Val) → (env : Env) → (g : G) → FragQL Q ts → Γ.le B g → budgetL Γ ts g = true → AllF (Γ.P g) cur →
    EnvAF (Γ.P g) env → ∀ w, sevalNotNull root ts cur env = .ok w → AllF (Γ.P (gradeL Γ ts g)) w
  | [], cur, env, g, hl, hB, hb, hc, he, w, hw => by
    simp only [sevalNotNull, Res.ok.injEq] at hw; subst hw; simp
  | t :: ts, cur, env, g, hl, hB, hb, hc, he, w, hw => by
    simp only [Tree.OpsL] at hl
    simp only [budgetL, Bool.and_eq_true] at hb
    simp only [gradeL]
    simp only [sevalNotNull, Res.bind_eq_ok] at hw
    obtain ⟨v, hv, hw⟩ := hw
    split at hw
    · exact upG Γ (Γ.le_join_right _ _) (sevalNotNull_fbGQ Γ B root hr ts cur env g hl.2 hB hb.2 hc he w hw)
    · simp only [Res.pure_eq, Res.ok.injEq] at hw; subst hw
      exact upG Γ (Γ.le_join_left _ _) (seval_fbGQ Γ B root hr t cur env g hl.1 hB hb.1 hc he _ hv)
theorem sevalZip_fbGQ (Γ : Grading G) (B : G) (root : Val) (hr : AllF (Γ.P B) root) : (ts : List Tree) →
    (cur : Val) → (env : Env) → (g : G) → FragQL Q ts → Γ.le B g → budgetL Γ ts g = true → AllF (Γ.P g) cur →
    EnvAF (Γ.P g) env → ∀ vs, sevalZip root ts cur env = .ok vs → ∀ v ∈ vs, AllF (Γ.P (gradeL Γ ts g)) v
  | [], cur, env, g, hl, hB, hb, hc, he, vs, hw => by
    simp only [sevalZip, Res.ok.injEq] at hw; subst hw; simp
  | t :: ts, cur, env, g, hl, hB, hb, hc, he, vs, hw => by
    simp only [Tree.OpsL] at hl
    simp only [budgetL, Bool.and_eq_true] at hb
    simp only [gradeL]
    simp only [sevalZip, Res.bind_eq_ok] at hw
    obtain ⟨v, hv, hw⟩ := hw
    have hvn : AllF (Γ.P (Γ.join (grade Γ t g) (gradeL Γ ts g))) v := upG Γ (Γ.le_join_left _ _)
      (seval_fbGQ Γ B root hr t cur env g hl.1 hB hb.1 hc he v hv)
    split at hw
    · simp only [Res.bind_eq_ok, Res.pure_eq, Res.ok.injEq] at hw
      obtain ⟨rest, hrest, rfl⟩ := hw
      intro y hy
      rcases List.mem_cons.mp hy with rfl | hy
      · exact hvn
      · exact upG Γ (Γ.le_join_right _ _) (sevalZip_fbGQ Γ B root hr ts cur env g hl.2 hB hb.2 hc he rest hrest y hy)
    · simp [errType] at hw
end

/-- the invariant for `FragEN`: every float of every intermediate value is of the computed grade -/
theorem seval_fbGN (Γ : Grading G) (B : G) (root : Val) (hr : AllF (Γ.P B) root) (t : Tree) (cur : Val)
    (env : Env) (g : G) (ht : FragEN t) (hB : Γ.le B g) (hb : budget Γ t g = true) (hc : AllF (Γ.P g) cur)
    (he : EnvAF (Γ.P g) env) : ∀ w, seval root t cur env = .ok w → AllF (Γ.P (grade Γ t g)) w :=
  seval_fbGQ Γ B root hr t cur env g ht hB hb hc he

/-- `seval_fbG` is the instance for the builtins congruent outright -/
example (Γ : Grading G) (B : G) (root : Val) (hr : AllF (Γ.P B) root) (t : Tree) (cur : Val)
    (env : Env) (g : G) (ht : FragE t) (hB : Γ.le B g) (hb : budget Γ t g = true) (hc : AllF (Γ.P g) cur)
    (he : EnvAF (Γ.P g) env) : ∀ w, seval root t cur env = .ok w → AllF (Γ.P (grade Γ t g)) w :=
  seval_fbGQ Γ B root hr t cur env g ht hB hb hc he

/-! ## 3. `>>=` with the equations at hand -/

section
variable {w : Bool} {α β γ δ : Type} {R : α → β → Prop} {S : γ → δ → Prop}

/-- `>>=` on outcomes related up to declining, with the equations at hand (to invoke the unary invariant) -/
theorem rng_bind_eq {x : Res α} {y : Res β} {f : α → Res γ} {g : β → Res δ} (h : RNG w R x y)
    (hf : ∀ a b, x = .ok a → y = .ok b → R a b → RNG w S (f a) (g b)) : RNG w S (x >>= f) (y >>= g) := by
  rcases h with h | h | h | h
  · subst h; exact .inl rfl
  · subst h; exact .inr (.inl rfl)
  · obtain ⟨hw, h1, h2⟩ := h
    cases x <;> simp only [Bad] at h1 <;> cases y <;> simp only [Bad] at h2 <;>
      exact .inr (.inr (.inl ⟨hw, by simp [Bad], by simp [Bad]⟩))
  · cases x <;> cases y <;> simp only [RR] at h <;>
      simp only [Res.ok_bind, Res.err_bind, Res.panic_bind, Res.nondet_bind, Res.unmodelled_bind]
    · exact hf _ _ rfl rfl h
    all_goals first | exact .inl rfl | exact RNG.of_rr (by simpa only [RR] using h)

end

-- `rng_bind_eq`: the continuation may use that the left run answered `1`
example : RNW (fun (a b : Nat) => a = b) ((.ok 1 : Res Nat) >>= fun n => .ok (n + 1))
    ((.ok 1 : Res Nat) >>= fun _ => .ok 2) :=
  rng_bind_eq (R := fun (a b : Nat) => a = b) (RNG.ok' rfl) (fun a b ea _ _ => by
    simp only [Res.ok.injEq] at ea; subst ea; exact RNG.ok' rfl)

/-! ## 4. the higher-order helpers, element function congruent only on pairs whose floats satisfy `P` -/

section
variable {nf w : Bool} {P : F64 → Prop}

/-- `f` and `f'` map related values whose floats satisfy `P` to outcomes related up to declining -/
def FRGp (w nf : Bool) (P : F64 → Prop) (f f' : Val → Res Val) : Prop :=
  ∀ x x', VR nf x x' → AllF P x → AllF P x' → RNG w (VR nf) (f x) (f' x')

theorem FRGp.of_frg {f f' : Val → Res Val} (h : FRG w nf f f') : FRGp w nf P f f' := fun x x' hx _ _ => h x x' hx

theorem FRGp.of_frp {f f' : Val → Res Val} (h : FRp nf P f f') : FRGp w nf P f f' :=
  fun x x' hx a a' => RNG.of_rr (h x x' hx a a')

/-! ### `widen` -/

theorem flatMap_errs_settled_pairs {g g' : Val → List Cat} {u u' : Val → Bool}
    (hg : ∀ p, PR nf P p → u p.1 = false → u' p.2 = false → g p.1 = g' p.2) :
    ∀ (L : List (Val × Val)), (∀ p ∈ L, PR nf P p) → (L.map Prod.fst).any u = false →
      (L.map Prod.snd).any u' = false → (L.map Prod.fst).flatMap g = (L.map Prod.snd).flatMap g'
  | [], _, _, _ => rfl
  | p :: L, hL, h1, h2 => by
    simp only [List.map_cons, List.any_cons, Bool.or_eq_false_iff] at h1 h2
    simp only [List.map_cons, List.flatMap_cons, hg p (hL p (List.mem_cons_self ..)) h1.1 h2.1,
      flatMap_errs_settled_pairs hg L (tl hL) h1.2 h2.2]

/-- `widen` on a list of pairs: an element with an unsettled outcome on one side makes that side `.nondet`; if all
    are settled on both sides they contribute the same categories -/
theorem widen_pg {α β : Type} {R : α → β → Prop} {t : ATag} (L : List (Val × Val)) (hL : ∀ p ∈ L, PR nf P p)
    {fs fs' : List (Val → Res Val)} {extra : List Cat} {r : Res α} {r' : Res β}
    (herr : ∀ p, PR nf P p → fs.any (fun f => unsOf (f p.1)) = false → fs'.any (fun f => unsOf (f p.2)) = false →
      fs.flatMap (fun f => errsOf (f p.1)) = fs'.flatMap (fun f => errsOf (f p.2)))
    (h : RNG w R r r') :
    RNG w R (widen t (L.map Prod.fst) fs extra r) (widen t (L.map Prod.snd) fs' extra r') := by
  rcases h with h | h | h | h
  · subst h; exact .inl (by simp only [widen_def])
  · subst h; exact .inr (.inl (by simp only [widen_def]))
  · obtain ⟨hw, h1, h2⟩ := h
    cases r <;> simp only [Bad] at h1 <;> cases r' <;> simp only [Bad] at h2 <;> simp only [widen_def] <;>
      exact .inr (.inr (.inl ⟨hw, by simp [Bad], by simp [Bad]⟩))
  · cases r <;> cases r' <;> simp only [RR] at h <;> simp only [widen_def] <;> try exact RNG.of_rr h
    subst h
    rw [← enum2_vrl t (vrl_pairs L hL)]
    by_cases he : enum2 t (L.map Prod.fst) = true
    · simp only [he, if_true]
      by_cases u1 : ((L.map Prod.fst).any fun x => fs.any fun f => unsOf (f x)) = true
      · simp only [u1, if_true]; exact .inl rfl
      · by_cases u2 : ((L.map Prod.snd).any fun x => fs'.any fun f => unsOf (f x)) = true
        · simp only [u2, if_true]; exact .inr (.inl rfl)
        · simp only [u1, u2]
          simp only [Bool.not_eq_true] at u1 u2
          rw [flatMap_errs_settled_pairs (P := P) (g := fun x => fs.flatMap fun f => errsOf (f x))
            (g' := fun x => fs'.flatMap fun f => errsOf (f x)) (u := fun x => fs.any fun f => unsOf (f x))
            (u' := fun x => fs'.any fun f => unsOf (f x)) herr L hL u1 u2]
          exact RNG.of_rr (by simp [RR])
    · simp only [he]; exact RNG.of_rr (by simp [RR])

theorem widen1_pg {α β : Type} {R : α → β → Prop} {t : ATag} (L : List (Val × Val)) (hL : ∀ p ∈ L, PR nf P p)
    {f f' : Val → Res Val} {extra : List Cat} {r : Res α} {r' : Res β} (hf : FRGp w nf P f f') (h : RNG w R r r') :
    RNG w R (widen t (L.map Prod.fst) [f] extra r) (widen t (L.map Prod.snd) [f'] extra r') := by
  refine widen_pg L hL (fun p hp u1 u2 => ?_) h
  simp only [List.any_cons, List.any_nil, Bool.or_false] at u1 u2
  simp only [List.flatMap_cons, List.flatMap_nil, List.append_nil]
  exact errs_of_rr ((hf _ _ hp.1 hp.2.1 hp.2.2).rr_of_settled u1 u2)

theorem widen2_pg {α β : Type} {R : α → β → Prop} {t : ATag} (L : List (Val × Val)) (hL : ∀ p ∈ L, PR nf P p)
    {c c' f f' : Val → Res Val} {extra : List Cat} {r : Res α} {r' : Res β} (hc : FRGp w nf P c c')
    (hf : FRGp w nf P f f') (h : RNG w R r r') :
    RNG w R (widen t (L.map Prod.fst) [c, f] extra r) (widen t (L.map Prod.snd) [c', f'] extra r') := by
  refine widen_pg L hL (fun p hp u1 u2 => ?_) h
  simp only [List.any_cons, List.any_nil, Bool.or_false, Bool.or_eq_false_iff] at u1 u2
  simp only [List.flatMap_cons, List.flatMap_nil, List.append_nil]
  rw [errs_of_rr ((hc _ _ hp.1 hp.2.1 hp.2.2).rr_of_settled u1.1 u2.1),
    errs_of_rr ((hf _ _ hp.1 hp.2.1 hp.2.2).rr_of_settled u1.2 u2.2)]

/-! ### the projection loops -/

theorem mapPrune_pg {f f' : Val → Res Val} (hf : FRGp w nf P f f') :
    ∀ (L : List (Val × Val)), (∀ p ∈ L, PR nf P p) →
      RNG w (VRL nf) (mapPrune f (L.map Prod.fst)) (mapPrune f' (L.map Prod.snd))
  | [], _ => by simp only [List.map_nil, mapPrune]; exact RNG.ok' vrl_nil
  | p :: L, hL => by
    have hp := hL p (List.mem_cons_self ..)
    simp only [List.map_cons, mapPrune]
    refine RNG.bind (hf _ _ hp.1 hp.2.1 hp.2.2)
      (fun q q' hq => RNG.bind (mapPrune_pg hf L (tl hL)) (fun r r' hr => ?_))
    simp only [Res.pure_eq, isNull_vr hq]
    split
    · exact RNG.ok' hr
    · exact RNG.ok' (vrl_cons hq hr)

theorem mapAll_pg {f f' : Val → Res Val} (hf : FRGp w nf P f f') :
    ∀ (L : List (Val × Val)), (∀ p ∈ L, PR nf P p) →
      RNG w (VRL nf) (mapAll f (L.map Prod.fst)) (mapAll f' (L.map Prod.snd))
  | [], _ => by simp only [List.map_nil, mapAll]; exact RNG.ok' vrl_nil
  | p :: L, hL => by
    have hp := hL p (List.mem_cons_self ..)
    simp only [List.map_cons, mapAll]
    exact RNG.bind (hf _ _ hp.1 hp.2.1 hp.2.2)
      (fun q q' hq => RNG.bind (mapAll_pg hf L (tl hL)) (fun r r' hr => RNG.ok' (vrl_cons hq hr)))

theorem filterMapPrune_pg {c c' f f' : Val → Res Val} (hc : FRGp w nf P c c') (hf : FRGp w nf P f f') :
    ∀ (L : List (Val × Val)), (∀ p ∈ L, PR nf P p) →
      RNG w (VRL nf) (filterMapPrune c f (L.map Prod.fst)) (filterMapPrune c' f' (L.map Prod.snd))
  | [], _ => by simp only [List.map_nil, filterMapPrune]; exact RNG.ok' vrl_nil
  | p :: L, hL => by
    have hp := hL p (List.mem_cons_self ..)
    simp only [List.map_cons, filterMapPrune]
    refine RNG.bind (hc _ _ hp.1 hp.2.1 hp.2.2) (fun b b' hb => ?_)
    rw [isTrue_vr hb]
    split
    · refine RNG.bind (hf _ _ hp.1 hp.2.1 hp.2.2)
        (fun q q' hq => RNG.bind (filterMapPrune_pg hc hf L (tl hL)) (fun r r' hr => ?_))
      simp only [Res.pure_eq, isNull_vr hq]
      split
      · exact RNG.ok' hr
      · exact RNG.ok' (vrl_cons hq hr)
    · exact filterMapPrune_pg hc hf L (tl hL)

/-- `e[*].f`-style projection of an array whose floats satisfy `P` on both sides -/
theorem projectArray_rgp {f f' : Val → Res Val} (hf : FRGp w nf P f f') {v v' : Val} (h : VR nf v v')
    (a : AllF P v) (a' : AllF P v') : RNG w (VR nf) (projectArray f v) (projectArray f' v') := by
  cases v <;> cases v' <;> simp only [VR] at h <;> try (simp only [projectArray]; exact RNG.ok' vr_null)
  next t xs u ys =>
  obtain ⟨rfl, h⟩ := h
  obtain ⟨L, rfl, rfl, hL⟩ := pairs_of h (allF_arr.mp a) (allF_arr.mp a')
  simp only [projectArray]
  exact widen1_pg L hL hf (RNG.bind (mapPrune_pg hf L hL) (fun r r' hr => RNG.ok' (vr_arr hr)))

theorem mapArray_rgp {f f' : Val → Res Val} (hf : FRGp w nf P f f') {v v' : Val} (h : VR nf v v')
    (a : AllF P v) (a' : AllF P v') : RNG w (VR nf) (mapArray f v) (mapArray f' v') := by
  cases v <;> cases v' <;> simp only [VR] at h <;> try (simp only [mapArray]; exact rg_errType)
  next t xs u ys =>
  obtain ⟨rfl, h⟩ := h
  obtain ⟨L, rfl, rfl, hL⟩ := pairs_of h (allF_arr.mp a) (allF_arr.mp a')
  simp only [mapArray]
  exact widen1_pg L hL hf (RNG.bind (mapAll_pg hf L hL) (fun r r' hr => RNG.ok' (vr_arr hr)))

theorem filterAndProjectArray_rgp {c c' f f' : Val → Res Val} (hc : FRGp w nf P c c') (hf : FRGp w nf P f f')
    {v v' : Val} (h : VR nf v v') (a : AllF P v) (a' : AllF P v') :
    RNG w (VR nf) (filterAndProjectArray c f v) (filterAndProjectArray c' f' v') := by
  cases v <;> cases v' <;> simp only [VR] at h <;> try (simp only [filterAndProjectArray]; exact RNG.ok' vr_null)
  next t xs u ys =>
  obtain ⟨rfl, h⟩ := h
  obtain ⟨L, rfl, rfl, hL⟩ := pairs_of h (allF_arr.mp a) (allF_arr.mp a')
  simp only [filterAndProjectArray]
  exact widen2_pg L hL hc hf (RNG.bind (filterMapPrune_pg hc hf L hL) (fun r r' hr => RNG.ok' (vr_arr hr)))

theorem flattenAndProjectArray_rgp {f f' : Val → Res Val} (hf : FRGp w nf P f f') {v v' : Val} (h : VR nf v v')
    (a : AllF P v) (a' : AllF P v') :
    RNG w (VR nf) (flattenAndProjectArray f v) (flattenAndProjectArray f' v') := by
  cases v <;> cases v' <;> simp only [VR] at h <;> try (simp only [flattenAndProjectArray]; exact RNG.ok' vr_null)
  next t xs u ys =>
  obtain ⟨rfl, h⟩ := h
  simp only [flattenAndProjectArray, flattenTag_vrl t h]
  have hfl := flattenForProject_vrl h
  have b := flattenForProject_af (allF_arr.mp a)
  have b' := flattenForProject_af (allF_arr.mp a')
  obtain ⟨L, l1, l2, hL⟩ := pairs_of hfl b b'
  obtain ⟨L2, m1, m2, hL2⟩ := pairs_of (P := P)
    (vrl_append hfl (vrl_cons vr_null (vrl_cons (vr_null (nf := nf)) vrl_nil)))
    (fun x hx => by
      rcases List.mem_append.mp hx with hx | hx
      · exact b x hx
      · simp at hx; subst hx; simp)
    (fun x hx => by
      rcases List.mem_append.mp hx with hx | hx
      · exact b' x hx
      · simp at hx; subst hx; simp)
  rw [← m1, ← m2, ← l1, ← l2]
  exact widen1_pg L2 hL2 hf (RNG.bind (mapPrune_pg hf L hL) (fun r r' hr => RNG.ok' (vr_arr hr)))

theorem projectObject_rgp {f f' : Val → Res Val} (hf : FRGp w nf P f f') {v v' : Val} (h : VR nf v v')
    (a : AllF P v) (a' : AllF P v') : RNG w (VR nf) (projectObject f v) (projectObject f' v') := by
  cases v <;> cases v' <;> simp only [VR] at h <;> try (simp only [projectObject]; exact RNG.ok' vr_null)
  next xs ys =>
  obtain ⟨L, l1, l2, hL⟩ := pairs_of (vrf_values h) (obj_values_af a) (obj_values_af a')
  simp only [projectObject]
  rw [← l1, ← l2]
  exact widen1_pg L hL hf (RNG.bind (mapPrune_pg hf L hL) (fun r r' hr => RNG.ok' (vr_arr hr)))

/-! ### keys: `sort_by`, `max_by`, `min_by` -/

theorem keysFrom_pg {f f' : Val → Res Val} (hf : FRGp w nf P f f') (isStr : Bool) :
    ∀ (L : List (Val × Val)), (∀ p ∈ L, PR nf P p) →
      RNG w (L2 KR) (keysFrom f isStr (L.map Prod.fst)) (keysFrom f' isStr (L.map Prod.snd))
  | [], _ => by simp only [List.map_nil, keysFrom]; exact RNG.ok' l2_nil
  | p :: L, hL => by
    have hp := hL p (List.mem_cons_self ..)
    simp only [List.map_cons, keysFrom]
    refine RNG.bind (hf _ _ hp.1 hp.2.1 hp.2.2) (fun rv rv' hrv => RNG.bind (R := KR) ?_
      (fun k k' hk => RNG.bind (keysFrom_pg hf isStr L (tl hL)) (fun r r' hr => RNG.ok' (l2_cons hk hr))))
    cases isStr
    · simp only [Bool.false_eq_true, if_false]
      rcases toDecimal_equiv (vr_equiv _ _ hrv) with ⟨e1, e2⟩ | ⟨d, d', e1, e2, e3⟩
      · simp only [e1, e2]; exact rg_errType
      · simp only [e1, e2]; exact RNG.ok' (by simp only [KR]; exact e3)
    · simp only [if_true]
      cases rv <;> cases rv' <;> simp only [VR] at hrv <;> try exact rg_errType
      subst hrv
      exact RNG.ok' (by simp [KR])

theorem keysOf_pg {f f' : Val → Res Val} (hf : FRGp w nf P f f') :
    ∀ (L : List (Val × Val)), (∀ p ∈ L, PR nf P p) →
      RNG w (L2 KR) (keysOf f (L.map Prod.fst)) (keysOf f' (L.map Prod.snd))
  | [], _ => by simp only [List.map_nil, keysOf]; exact RNG.ok' l2_nil
  | p :: L, hL => by
    have hp := hL p (List.mem_cons_self ..)
    simp only [List.map_cons, keysOf]
    refine RNG.bind (hf _ _ hp.1 hp.2.1 hp.2.2) (fun first first' hfi => ?_)
    have hnum : ∀ (a a' : Val), VR nf a a' → (∀ s, a ≠ .str s) → (∀ s, a' ≠ .str s) →
        RNG w (L2 KR)
          (match toDecimal a with
            | none => errType
            | some d => do let rest ← keysFrom f false (L.map Prod.fst); pure (Key.n d :: rest))
          (match toDecimal a' with
            | none => errType
            | some d => do let rest ← keysFrom f' false (L.map Prod.snd); pure (Key.n d :: rest)) := by
      intro a a' haa _ _
      rcases toDecimal_equiv (vr_equiv _ _ haa) with ⟨e1, e2⟩ | ⟨d, d', e1, e2, e3⟩
      · simp only [e1, e2]; exact rg_errType
      · simp only [e1, e2]
        exact RNG.bind (keysFrom_pg hf false L (tl hL))
          (fun r r' hr => RNG.ok' (l2_cons (by simp only [KR]; exact e3) hr))
    cases first <;> cases first' <;> simp only [VR] at hfi
    · exact hnum .null .null vr_null (by simp) (by simp)
    · next b b' => exact hnum (.bool b) (.bool b') (by simp only [VR]; exact hfi) (by simp) (by simp)
    · subst hfi
      exact RNG.bind (keysFrom_pg hf true L (tl hL)) (fun r r' hr => RNG.ok' (l2_cons (by simp [KR]) hr))
    · next a a' => exact hnum (.num a) (.num a') (by simp only [VR]; exact hfi) (by simp) (by simp)
    · next t a u a' => exact hnum (.arr t a) (.arr u a') (by simp only [VR]; exact hfi) (by simp) (by simp)
    · next a a' => exact hnum (.obj a) (.obj a') (by simp only [VR]; exact hfi) (by simp) (by simp)
    · next a a' => exact hnum (.foreign a) (.foreign a') (by simp only [VR]; exact hfi) (by simp) (by simp)

theorem arrayPickBy_rgp {better : Key → Key → Bool} (hb : BetterOK better) {f f' : Val → Res Val}
    (hf : FRGp w nf P f f') {v v' : Val} (h : VR nf v v') (a : AllF P v) (a' : AllF P v') :
    RNG w (VR nf) (arrayPickBy better f v) (arrayPickBy better f' v') := by
  cases v <;> cases v' <;> simp only [VR] at h <;> try (simp only [arrayPickBy]; exact rg_errType)
  next t xs u ys =>
  obtain ⟨rfl, h⟩ := h
  obtain ⟨L, l1, l2, hL⟩ := pairs_of h (allF_arr.mp a) (allF_arr.mp a')
  cases xs with
  | nil => cases ys with
    | nil => simp only [arrayPickBy]; exact RNG.ok' vr_null
    | cons _ _ => simp [VRL] at h
  | cons x0 rest => cases ys with
    | nil => simp [VRL] at h
    | cons y0 rest' =>
      simp only [arrayPickBy]
      have key : RNG w (L2 KR) (keysOf f (x0 :: rest)) (keysOf f' (y0 :: rest')) := by
        rw [← l1, ← l2]; exact keysOf_pg hf L hL
      have wid : ∀ {r : Res Val} {r' : Res Val}, RNG w (VR nf) r r' →
          RNG w (VR nf) (widen t (x0 :: rest) [f] [Cat.invalidType] r)
            (widen t (y0 :: rest') [f'] [Cat.invalidType] r') := by
        intro r r' hr
        rw [← l1, ← l2]; exact widen1_pg L hL hf hr
      refine wid (RNG.bind key (fun ks ks' hks => ?_))
      cases ks with
      | nil => cases ks' with
        | nil => exact RNG.ok' vr_null
        | cons _ _ => simp [L2] at hks
      | cons k0 krest => cases ks' with
        | nil => simp [L2] at hks
        | cons k0' krest' =>
          simp only [enum2_vrl t h, uniqueExtremum_kr hb hks]
          simp only [VRL] at h
          simp only [L2] at hks
          split
          · exact RNG.nl
          · exact RNG.ok' (pickBy_vr hb h.2 hks.2 h.1 hks.1)

theorem arrayMaxBy_rgp {f f' : Val → Res Val} (hf : FRGp w nf P f f') {v v' : Val} (h : VR nf v v')
    (a : AllF P v) (a' : AllF P v') : RNG w (VR nf) (arrayMaxBy f v) (arrayMaxBy f' v') :=
  arrayPickBy_rgp (fun _ _ _ _ ha hb => key_gtMax_kr ha hb) hf h a a'

theorem arrayMinBy_rgp {f f' : Val → Res Val} (hf : FRGp w nf P f f') {v v' : Val} (h : VR nf v v')
    (a : AllF P v) (a' : AllF P v') : RNG w (VR nf) (arrayMinBy f v) (arrayMinBy f' v') :=
  arrayPickBy_rgp (fun _ _ _ _ ha hb => key_ltMin_kr ha hb) hf h a a'

theorem sortArrayBy_rgp {f f' : Val → Res Val} (hf : FRGp w nf P f f') {v v' : Val} (h : VR nf v v')
    (a : AllF P v) (a' : AllF P v') : RNG w (VR nf) (sortArrayBy f v) (sortArrayBy f' v') := by
  cases v <;> cases v' <;> simp only [VR] at h <;> try (simp only [sortArrayBy]; exact rg_errType)
  next t xs u ys =>
  obtain ⟨rfl, h⟩ := h
  obtain ⟨L, l1, l2, hL⟩ := pairs_of h (allF_arr.mp a) (allF_arr.mp a')
  simp only [sortArrayBy]
  have he : xs.isEmpty = ys.isEmpty := by
    have := vrl_length h
    cases xs <;> cases ys <;> simp at this <;> rfl
  rw [he]
  split
  · exact RNG.ok' (vr_arr h)
  · have key : RNG w (L2 KR) (keysOf f xs) (keysOf f' ys) := by
      rw [← l1, ← l2]; exact keysOf_pg hf L hL
    have wid : ∀ {r : Res Val} {r' : Res Val}, RNG w (VR nf) r r' →
        RNG w (VR nf) (widen t xs [f] [Cat.invalidType] r) (widen t ys [f'] [Cat.invalidType] r') := by
      intro r r' hr
      rw [← l1, ← l2]; exact widen1_pg L hL hf hr
    refine wid (RNG.bind key (fun ks ks' hks => ?_))
    simp only [enum2_vrl t h, keysDistinct_kr hks]
    split
    · exact RNG.nl
    · exact RNG.ok' (vr_arr (sortByKeys_vrl h hks))

/-! ### `group_by` -/

theorem groupLoop_pg {f f' : Val → Res Val} (hf : FRGp w nf P f f') :
    ∀ (L : List (Val × Val)), (∀ p ∈ L, PR nf P p) → ∀ {acc acc' : List (Bytes × List Val)}, L2 (GR nf) acc acc' →
      RNG w (L2 (GR nf)) (groupLoop f (L.map Prod.fst) acc) (groupLoop f' (L.map Prod.snd) acc')
  | [], _, _, _, ha => by simp only [List.map_nil, groupLoop]; exact RNG.ok' ha
  | p :: L, hL, acc, acc', ha => by
    have hp := hL p (List.mem_cons_self ..)
    simp only [List.map_cons, groupLoop]
    refine RNG.bind (hf _ _ hp.1 hp.2.1 hp.2.2) (fun rv rv' hrv => ?_)
    cases rv <;> cases rv' <;> simp only [VR] at hrv <;> try exact rg_errType
    subst hrv
    exact groupLoop_pg hf L (tl hL) (groupInsert_gr hp.1 ha)

theorem groupBy_rgp {f f' : Val → Res Val} (hf : FRGp w nf P f f') {v v' : Val} (h : VR nf v v')
    (a : AllF P v) (a' : AllF P v') : RNG w (VR nf) (groupBy f v) (groupBy f' v') := by
  cases v <;> cases v' <;> simp only [VR] at h <;> try (simp only [groupBy]; exact rg_errType)
  next t xs u ys =>
  obtain ⟨rfl, h⟩ := h
  obtain ⟨L, l1, l2, hL⟩ := pairs_of h (allF_arr.mp a) (allF_arr.mp a')
  simp only [groupBy]
  have he : xs.isEmpty = ys.isEmpty := by
    have := vrl_length h
    cases xs <;> cases ys <;> simp at this <;> rfl
  rw [he]
  split
  · exact RNG.ok' vr_null
  · rw [← l1, ← l2]
    exact widen1_pg L hL hf (RNG.bind (groupLoop_pg hf L hL l2_nil)
      (fun gs gs' hgs => RNG.ok' (vr_obj (groups_vrf _ hgs))))

end

end C14E
end Jmes
