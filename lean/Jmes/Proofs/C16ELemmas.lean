/-
  Helper lemmas for `Jmes/Properties/C16E.lean` (C16, fourth part).

  1. `QIdB s w` — the BYTE-level relation "the text `w` between double quotes is read as the key `s`" that
     `parseQuotedIdentifier` computes, proved in both directions (`contQ_sound`, `contQ_complete`), and its
     relation with the rune-level `C16B.QEsc` on token bodies (`qesc_of_body`, `qidb_of_qesc`).
  2. `scanB d w` — a byte-level scan that says how the lexer's delimiter scan ends on `w`: all escape pairs closed,
     a dangling backslash at the end, or a bare delimiter; `Body d w ↔ validUTF8 w ∧ scanB d w = closed`.
  3. invalid UTF-8 inside a delimited token: the lexer reports `invalidRune`.
  4. every quoted-identifier / JSON-literal token of a well-formed parse tree decodes.
-/
import Jmes.Properties.C16B
import Jmes.Proofs.C11BValidLemmas2
import Jmes.Proofs.Fuel
namespace Jmes.C16EL
open Jmes Jmes.Utf8 Jmes.Literals Jmes.C16 Jmes.C16BL Jmes.C16B Jmes.Lexical

/-! ## 1. quoted identifiers, byte level -/

/-- `QIdB s w`: the bytes `w` (what stands between the double quotes) are read as the key `s`.  Byte by byte: a byte
    that is not a control character and not a backslash stands for itself (the function does not look at UTF-8
    structure, nor at a bare `"` — the lexer does); the eight two-character escapes; `\uXXXX` for a code unit that is
    not a surrogate; a (high, low) surrogate pair; and — a quirk that no token can show, since the lexer never ends a
    token after an odd run of backslashes — a backslash that is the very last byte stands for itself. -/
inductive QIdB : Bytes → Bytes → Prop
  | nil : QIdB [] []
  | byte (b : Nat) {s w : Bytes} : 0x20 ≤ b → b ≠ 0x5C → QIdB s w → QIdB (b :: s) (b :: w)
  | last : QIdB [0x5C] [0x5C]
  | short (e b : Nat) {s w : Bytes} : (e, b) ∈ shortEsc → QIdB s w → QIdB (b :: s) (0x5C :: e :: w)
  | uni (a b c d r : Nat) {s w : Bytes} : Json.hex4 [a, b, c, d] = some (r, []) → Json.isSurrogate r = false →
      QIdB s w → QIdB (encodeRune r ++ s) (0x5C :: 0x75 :: a :: b :: c :: d :: w)
  | pair (a b c d a' b' c' d' hi lo : Nat) {s w : Bytes} :
      Json.hex4 [a, b, c, d] = some (hi, []) → Json.hex4 [a', b', c', d'] = some (lo, []) →
      0xD800 ≤ hi → hi < 0xDC00 → 0xDC00 ≤ lo → lo < 0xE000 → QIdB s w →
      QIdB (encodeRune (0x10000 + (hi - 0xD800) * 1024 + (lo - 0xDC00)) ++ s)
        (0x5C :: 0x75 :: a :: b :: c :: d :: 0x5C :: 0x75 :: a' :: b' :: c' :: d' :: w)

/-- every byte of a `QIdB` writing is at least 0x20 -/
theorem QIdB.ge {s w : Bytes} (h : QIdB s w) : ∀ x ∈ w, 0x20 ≤ x := by
  induction h with
  | nil => intro x hx; cases hx
  | byte b h1 _ _ ih =>
    intro x hx
    rcases List.mem_cons.1 hx with rfl | hx
    · exact h1
    · exact ih x hx
  | last => intro x hx; simp at hx; omega
  | short e b he _ ih =>
    intro x hx
    simp only [shortEsc, List.mem_cons, Prod.mk.injEq, List.not_mem_nil, or_false] at he hx
    rcases hx with rfl | rfl | hx
    · omega
    · omega
    · exact ih x hx
  | uni a b c d r hx' hs _ ih =>
    intro x hx
    have hb := hex4_bytes hx'
    simp only [List.mem_cons, List.not_mem_nil, or_false] at hx hb
    rcases hx with rfl | rfl | rfl | rfl | rfl | rfl | hx
    · omega
    · omega
    · have := hb x (Or.inl rfl); omega
    · have := hb x (Or.inr (Or.inl rfl)); omega
    · have := hb x (Or.inr (Or.inr (Or.inl rfl))); omega
    · have := hb x (Or.inr (Or.inr (Or.inr rfl))); omega
    · exact ih x hx
  | pair a b c d a' b' c' d' hi lo hx1 hx2 g1 g2 g3 g4 _ ih =>
    intro x hx
    have hb := hex4_bytes hx1
    have hb' := hex4_bytes hx2
    simp only [List.mem_cons, List.not_mem_nil, or_false] at hx hb hb'
    rcases hx with rfl | rfl | rfl | rfl | rfl | rfl | rfl | rfl | rfl | rfl | rfl | rfl | hx
    · omega
    · omega
    · have := hb x (Or.inl rfl); omega
    · have := hb x (Or.inr (Or.inl rfl)); omega
    · have := hb x (Or.inr (Or.inr (Or.inl rfl))); omega
    · have := hb x (Or.inr (Or.inr (Or.inr rfl))); omega
    · omega
    · omega
    · have := hb' x (Or.inl rfl); omega
    · have := hb' x (Or.inr (Or.inl rfl)); omega
    · have := hb' x (Or.inr (Or.inr (Or.inl rfl))); omega
    · have := hb' x (Or.inr (Or.inr (Or.inr rfl))); omega
    · exact ih x hx

theorem contQ_bs_last (fuel : Nat) (acc : Bytes) : contQ fuel [0x5C] acc = some (acc ++ [0x5C]) := by
  simp [contQ, splitAtBackslash]

/-- completeness: the loop of `parseQuotedIdentifier` reads every `QIdB` writing -/
theorem contQ_complete {s w : Bytes} (h : QIdB s w) : ∀ (fuel : Nat) (acc : Bytes), w.length ≤ fuel →
    contQ fuel w acc = some (acc ++ s) := by
  induction h with
  | nil => intro fuel acc _; simp [contQ_nil]
  | byte b h1 h2 _ ih =>
    intro fuel acc hf
    simp only [List.length_cons] at hf
    rw [contQ_plain fuel b h2, ih fuel _ (by omega)]; simp
  | last => intro fuel acc _; exact contQ_bs_last fuel acc
  | short e b he _ ih =>
    intro fuel acc hf
    simp only [List.length_cons] at hf
    match fuel, hf with
    | f + 1, hf => rw [contQ_short f e b he, ih f _ (by omega)]; simp
  | uni a b c d r hx hs _ ih =>
    intro fuel acc hf
    simp only [List.length_cons] at hf
    match fuel, hf with
    | f + 1, hf => rw [contQ_esc_u f _ _ acc r (hex4_ext hx _) hs, ih f _ (by omega)]; simp
  | pair a b c d a' b' c' d' hi lo hx hx' g1 g2 g3 g4 _ ih =>
    intro fuel acc hf
    simp only [List.length_cons] at hf
    match fuel, hf with
    | f + 1, hf =>
      rw [contQ_pair f _ _ _ acc hi lo (hex4_ext hx _) (by simp [Json.isSurrogate]; omega) (hex4_ext hx' _)
          (utf16Decode_pair_ne g1 g2 g3 g4),
        utf16Decode_pair g1 g2 g3 g4, ih f _ (by omega)]; simp

/-- one step of the loop, written with `contQ` -/
theorem quotedLoop_succ (f c : Nat) (v acc : Bytes) :
    quotedLoop (f + 1) (c :: v) acc =
      if c = 0x22 then contQ f v (acc ++ [0x22])
      else if c = 0x2F then contQ f v (acc ++ [0x2F])
      else if c = 0x5C then contQ f v (acc ++ [0x5C])
      else if c = 0x62 then contQ f v (acc ++ [0x08])
      else if c = 0x66 then contQ f v (acc ++ [0x0C])
      else if c = 0x6E then contQ f v (acc ++ [0x0A])
      else if c = 0x72 then contQ f v (acc ++ [0x0D])
      else if c = 0x74 then contQ f v (acc ++ [0x09])
      else if c = 0x75 then
        match Json.hex4 v with
        | none => none
        | some (r, v') =>
          if Json.isSurrogate r then
            match v' with
            | 0x5C :: 0x75 :: v'' =>
              (match Json.hex4 v'' with
               | none => none
               | some (r2, v3) =>
                 if Json.utf16Decode r r2 = 0xFFFD then none
                 else contQ f v3 (acc ++ encodeRune (Json.utf16Decode r r2)))
            | _ => none
          else contQ f v' (acc ++ encodeRune r)
      else none := by
  rw [quotedLoop]; rfl

theorem contQ_bs (fuel c : Nat) (t acc : Bytes) : contQ fuel (0x5C :: c :: t) acc = quotedLoop fuel (c :: t) acc := by
  unfold contQ; rw [split_bs]; simp

/-- the digits `hex4` has read -/
theorem hex4_inv {v v' : Bytes} {r : Nat} (h : Json.hex4 v = some (r, v')) :
    ∃ a b c d, v = a :: b :: c :: d :: v' ∧ Json.hex4 [a, b, c, d] = some (r, []) := by
  match v, h with
  | a :: b :: c :: d :: rest, h =>
    refine ⟨a, b, c, d, ?_, ?_⟩
    · simp only [Json.hex4] at h
      split at h
      · cases h; rfl
      · cases h
    · simp only [Json.hex4] at h ⊢
      split at h
      · rename_i va vb vc vd ha hb hc hd
        cases h
        simp
      · cases h

/-- soundness: whatever the loop of `parseQuotedIdentifier` returns is a `QIdB` reading -/
theorem contQ_sound : ∀ (n : Nat) (w : Bytes), w.length ≤ n → (∀ x ∈ w, 0x20 ≤ x) → ∀ (fuel : Nat) (acc out : Bytes),
    contQ fuel w acc = some out → ∃ s, out = acc ++ s ∧ QIdB s w := by
  intro n
  induction n with
  | zero =>
    intro w hw _ fuel acc out h
    have : w = [] := List.eq_nil_of_length_eq_zero (by omega)
    subst this
    rw [contQ_nil] at h; cases h
    exact ⟨[], by simp, QIdB.nil⟩
  | succ n ih =>
    intro w hw hge fuel acc out h
    match w, hw, hge, h with
    | [], _, _, h =>
      rw [contQ_nil] at h; cases h
      exact ⟨[], by simp, QIdB.nil⟩
    | b :: t, hw, hge, h =>
      simp only [List.length_cons] at hw
      have hget : ∀ x ∈ t, 0x20 ≤ x := fun x hx => hge x (List.mem_cons_of_mem _ hx)
      by_cases hb : b = 0x5C
      · subst hb
        match t, hw, hget, h with
        | [], _, _, h =>
          rw [contQ_bs_last] at h; cases h
          exact ⟨[0x5C], rfl, QIdB.last⟩
        | c :: v, hw, hget, h =>
          simp only [List.length_cons] at hw
          have hgev : ∀ x ∈ v, 0x20 ≤ x := fun x hx => hget x (List.mem_cons_of_mem _ hx)
          rw [contQ_bs] at h
          match fuel, h with
          | 0, h0 => simp [quotedLoop] at h0
          | f + 1, hL =>
            rw [quotedLoop_succ] at hL
            have short : ∀ bb, (c, bb) ∈ shortEsc → contQ f v (acc ++ [bb]) = some out →
                ∃ s, out = acc ++ s ∧ QIdB s (0x5C :: c :: v) := by
              intro bb hm hq
              obtain ⟨s, hs, hq⟩ := ih v (by omega) hgev f _ _ hq
              exact ⟨bb :: s, by rw [hs]; simp, QIdB.short c bb hm hq⟩
            by_cases h1 : c = 0x22
            · rw [if_pos h1] at hL; subst h1; exact short _ (by decide) hL
            rw [if_neg h1] at hL
            by_cases h2 : c = 0x2F
            · rw [if_pos h2] at hL; subst h2; exact short _ (by decide) hL
            rw [if_neg h2] at hL
            by_cases h3 : c = 0x5C
            · rw [if_pos h3] at hL; subst h3; exact short _ (by decide) hL
            rw [if_neg h3] at hL
            by_cases h4 : c = 0x62
            · rw [if_pos h4] at hL; subst h4; exact short _ (by decide) hL
            rw [if_neg h4] at hL
            by_cases h5 : c = 0x66
            · rw [if_pos h5] at hL; subst h5; exact short _ (by decide) hL
            rw [if_neg h5] at hL
            by_cases h6 : c = 0x6E
            · rw [if_pos h6] at hL; subst h6; exact short _ (by decide) hL
            rw [if_neg h6] at hL
            by_cases h7 : c = 0x72
            · rw [if_pos h7] at hL; subst h7; exact short _ (by decide) hL
            rw [if_neg h7] at hL
            by_cases h8 : c = 0x74
            · rw [if_pos h8] at hL; subst h8; exact short _ (by decide) hL
            rw [if_neg h8] at hL
            by_cases h9 : c = 0x75
            · rw [if_pos h9] at hL; subst h9
              split at hL
              · cases hL
              · rename_i r v' hx
                obtain ⟨a, b, c, d, rfl, hx4⟩ := hex4_inv hx
                simp only [List.length_cons] at hw
                have hgev' : ∀ x ∈ v', 0x20 ≤ x := fun x hx => hgev x (by simp [hx])
                by_cases hs : Json.isSurrogate r = true
                · rw [if_pos hs] at hL
                  split at hL
                  · rename_i v''
                    split at hL
                    · cases hL
                    · rename_i r2 v3 hx2
                      obtain ⟨a', b', c', d', rfl, hx4'⟩ := hex4_inv hx2
                      simp only [List.length_cons] at hw
                      by_cases hd : Json.utf16Decode r r2 = 0xFFFD
                      · rw [if_pos hd] at hL; cases hL
                      · rw [if_neg hd] at hL
                        have hr := Classical.not_not.1 (mt (utf16Decode_eq_fffd_iff r r2).2 hd)
                        obtain ⟨g1, g2, g3, g4⟩ := hr
                        obtain ⟨s, hs', hq⟩ := ih v3 (by omega) (fun x hx => hgev' x (by simp [hx])) f _ _ hL
                        rw [utf16Decode_pair g1 g2 g3 g4] at hs'
                        exact ⟨_, by rw [hs']; simp, QIdB.pair a b c d a' b' c' d' r r2 hx4 hx4' g1 g2 g3 g4 hq⟩
                  · cases hL
                · rw [if_neg hs] at hL
                  have hs' : Json.isSurrogate r = false := by simpa using hs
                  obtain ⟨s, hs'', hq⟩ := ih v' (by omega) hgev' f _ _ hL
                  exact ⟨_, by rw [hs'']; simp, QIdB.uni a b c d r hx4 hs' hq⟩
            rw [if_neg h9] at hL
            cases hL
      · rw [contQ_plain fuel b hb] at h
        obtain ⟨s, hs, hq⟩ := ih t (by omega) hget fuel _ _ h
        exact ⟨b :: s, by rw [hs]; simp, QIdB.byte b (hge b (by simp)) hb hq⟩

/-- **`parseQuotedIdentifier` computes exactly `QIdB`** (the delimiters are whatever two bytes) -/
theorem parseQuotedIdentifier_iff_qidb (a z : Nat) (w s : Bytes) :
    parseQuotedIdentifier ([a] ++ w ++ [z]) = some s ↔ QIdB s w := by
  rw [parseQuotedIdentifier_eq, stripDelims_wrap]
  constructor
  · intro h
    split at h
    · cases h
    · rename_i hany
      have hge : ∀ x ∈ w, 0x20 ≤ x := by
        simpa using hany
      obtain ⟨s', hs, hq⟩ := contQ_sound _ w (Nat.le_refl _) hge _ _ _ h
      simp at hs; subst hs; exact hq
  · intro h
    have : w.any (· < 0x20) = false := by
      rw [List.any_eq_false]
      intro x hx; have := h.ge x hx; simp; omega
    rw [this]
    simp [contQ_complete h _ [] (Nat.le_succ _)]

/-! ### `QIdB` and the rune-level `QEsc` -/

theorem QIdB.bytes : ∀ (l : Bytes), (∀ b ∈ l, 0x20 ≤ b ∧ b ≠ 0x5C) → ∀ {s w : Bytes}, QIdB s w →
    QIdB (l ++ s) (l ++ w)
  | [], _, _, _, h => h
  | b :: l, hl, _, _, h =>
    QIdB.byte b (hl b (by simp)).1 (hl b (by simp)).2 (QIdB.bytes l (fun x hx => hl x (by simp [hx])) h)

/-- the bytes of a rune that is neither a control character nor a backslash -/
theorem rune_bytes_ok (c : Nat) (h1 : 0x20 ≤ c) (h2 : c ≠ 0x5C) : ∀ b ∈ encodeRune c, 0x20 ≤ b ∧ b ≠ 0x5C := by
  intro b hb
  by_cases hc : c < 0x80
  · rw [encodeRune_ascii c hc] at hb; simp at hb; omega
  · have := encodeRune_bytes_ge c (by omega) b hb; omega

/-- every rune-level writing is a byte-level writing -/
theorem qidb_of_qesc {s w : Bytes} (h : QEsc s w) : QIdB s w := by
  induction h with
  | nil => exact QIdB.nil
  | raw c h1 h2 h3 h4 _ ih => exact QIdB.bytes _ (rune_bytes_ok c h2 h4) ih
  | short e b he _ ih => exact QIdB.short e b he ih
  | uni a b c d r hx hs _ ih => exact QIdB.uni a b c d r hx hs ih
  | pair a b c d a' b' c' d' hi lo hx1 hx2 g1 g2 g3 g4 _ ih =>
    exact QIdB.pair a b c d a' b' c' d' hi lo hx1 hx2 g1 g2 g3 g4 ih

/-- what a writing that starts with a plain byte looks like -/
theorem QIdB.plain_inv {b : Nat} {s w : Bytes} (hb : b ≠ 0x5C) (h : QIdB s (b :: w)) :
    ∃ s', s = b :: s' ∧ 0x20 ≤ b ∧ QIdB s' w := by
  cases h with
  | byte _ h1 _ hq => exact ⟨_, rfl, h1, hq⟩
  | last => exact absurd rfl hb
  | short => exact absurd rfl hb
  | uni => exact absurd rfl hb
  | pair => exact absurd rfl hb

theorem QIdB.strip : ∀ (l : Bytes), (∀ b ∈ l, b ≠ 0x5C) → ∀ {s w : Bytes}, QIdB s (l ++ w) →
    ∃ s', s = l ++ s' ∧ (∀ b ∈ l, 0x20 ≤ b) ∧ QIdB s' w
  | [], _, s, _, h => by
    refine ⟨s, rfl, ?_, h⟩
    intro b hb; cases hb
  | b :: l, hl, _, _, h => by
    obtain ⟨s1, rfl, hb, hq⟩ := QIdB.plain_inv (hl b (by simp)) h
    obtain ⟨s2, rfl, hl2, hq2⟩ := QIdB.strip l (fun x hx => hl x (by simp [hx])) hq
    refine ⟨s2, rfl, ?_, hq2⟩
    intro x hx
    rcases List.mem_cons.1 hx with rfl | hx
    · exact hb
    · exact hl2 x hx

/-- what a writing that starts with a backslash looks like -/
theorem QIdB.bs_inv {s t : Bytes} (h : QIdB s (0x5C :: t)) :
    (t = [] ∧ s = [0x5C]) ∨
    (∃ e b s' w', t = e :: w' ∧ (e, b) ∈ shortEsc ∧ s = b :: s' ∧ QIdB s' w') ∨
    (∃ a b c d r s' w', t = 0x75 :: a :: b :: c :: d :: w' ∧ Json.hex4 [a, b, c, d] = some (r, []) ∧
        Json.isSurrogate r = false ∧ s = encodeRune r ++ s' ∧ QIdB s' w') ∨
    (∃ a b c d a' b' c' d' hi lo s' w',
        t = 0x75 :: a :: b :: c :: d :: 0x5C :: 0x75 :: a' :: b' :: c' :: d' :: w' ∧
        Json.hex4 [a, b, c, d] = some (hi, []) ∧ Json.hex4 [a', b', c', d'] = some (lo, []) ∧
        0xD800 ≤ hi ∧ hi < 0xDC00 ∧ 0xDC00 ≤ lo ∧ lo < 0xE000 ∧
        s = encodeRune (0x10000 + (hi - 0xD800) * 1024 + (lo - 0xDC00)) ++ s' ∧ QIdB s' w') := by
  cases h with
  | byte _ _ h2 _ => exact absurd rfl h2
  | last => exact Or.inl ⟨rfl, rfl⟩
  | short e b he hq => exact Or.inr (Or.inl ⟨e, b, _, _, rfl, he, rfl, hq⟩)
  | uni a b c d r hx hs hq => exact Or.inr (Or.inr (Or.inl ⟨a, b, c, d, r, _, _, rfl, hx, hs, rfl, hq⟩))
  | pair a b c d a' b' c' d' hi lo hx1 hx2 g1 g2 g3 g4 hq =>
    exact Or.inr (Or.inr (Or.inr ⟨a, b, c, d, a', b', c', d', hi, lo, _, _, rfl, hx1, hx2, g1, g2, g3, g4, rfl, hq⟩))

/-- a rune whose encoding starts with an ASCII byte is that byte -/
theorem encodeRune_head_ascii {c e : Nat} {w t : Bytes} (h : encodeRune c ++ w = e :: t) (he : e < 0x80) :
    c = e ∧ w = t := by
  by_cases hc : c < 0x80
  · rw [encodeRune_ascii c hc] at h
    simp at h; exact h
  · exfalso
    have hne := encodeRune_ne_nil c
    match hh : encodeRune c, hne with
    | x :: l, _ =>
      rw [hh] at h
      simp at h
      have := encodeRune_bytes_ge c (by omega) x (by rw [hh]; simp)
      omega

/-- a token body that starts with an ASCII byte other than the backslash continues with a token body -/
theorem Body.tail_ascii {d x : Nat} {w : Bytes} (h : Body d (x :: w)) (hx : x < 0x80) (hx2 : x ≠ 0x5C) :
    x ≠ d ∧ Body d w := by
  generalize hv : x :: w = v at h
  cases h with
  | nil => cases hv
  | plain c w0 h1 h2 h3 hb =>
    obtain ⟨rfl, rfl⟩ := encodeRune_head_ascii hv.symm hx
    exact ⟨h2, hb⟩
  | esc c w0 h1 hb => cases hv; exact absurd rfl hx2

/-- a token body that starts with a backslash: an escape pair, then a token body -/
theorem Body.esc_inv {d : Nat} {t : Bytes} (h : Body d (0x5C :: t)) :
    ∃ c w, isScalar c = true ∧ t = encodeRune c ++ w ∧ Body d w := by
  generalize hv : 0x5C :: t = v at h
  cases h with
  | nil => cases hv
  | plain c w0 h1 h2 h3 hb =>
    obtain ⟨rfl, _⟩ := encodeRune_head_ascii hv.symm (by omega)
    exact absurd rfl h3
  | esc c w0 h1 hb => cases hv; exact ⟨c, w0, h1, rfl, hb⟩

theorem Body.drop_hex4 {d : Nat} (_hd : d = 0x22 ∨ d = 0x27 ∨ d = 0x60) {a b c e r : Nat} {w : Bytes}
    (hx : Json.hex4 [a, b, c, e] = some (r, [])) (h : Body d (a :: b :: c :: e :: w)) : Body d w := by
  have hb := hex4_bytes hx
  simp only [List.mem_cons, List.not_mem_nil, or_false] at hb
  have h1 := hb a (Or.inl rfl)
  have h2 := hb b (Or.inr (Or.inl rfl))
  have h3 := hb c (Or.inr (Or.inr (Or.inl rfl)))
  have h4 := hb e (Or.inr (Or.inr (Or.inr rfl)))
  exact (Body.tail_ascii (Body.tail_ascii (Body.tail_ascii (Body.tail_ascii h (by omega) (by omega)).2
    (by omega) (by omega)).2 (by omega) (by omega)).2 (by omega) (by omega)).2

/-- on a token body (valid UTF-8, no bare `"`, no dangling backslash) a byte-level writing is a rune-level one -/
theorem qesc_of_body : ∀ (n : Nat) (w : Bytes), w.length ≤ n → Body 0x22 w → ∀ s, QIdB s w → QEsc s w := by
  intro n
  induction n with
  | zero =>
    intro w hw _ s hq
    have : w = [] := List.eq_nil_of_length_eq_zero (by omega)
    subst this
    cases hq; exact QEsc.nil
  | succ n ih =>
    intro w hw hb s hq
    cases hb with
    | nil => cases hq; exact QEsc.nil
    | plain c w0 h1 h2 h3 hb0 =>
      have hp := encodeRune_length_pos c
      simp only [List.length_append] at hw
      obtain ⟨s', rfl, hge, hq'⟩ := QIdB.strip _ (rune_no_bs c h3) hq
      have hc : 0x20 ≤ c := by
        by_cases hc : c < 0x80
        · rw [encodeRune_ascii c hc] at hge; exact hge c (by simp)
        · omega
      exact QEsc.raw c h1 hc h2 h3 (ih w0 (by omega) hb0 _ hq')
    | esc c w0 h1 hb0 =>
      have hp := encodeRune_length_pos c
      simp only [List.length_cons, List.length_append] at hw
      rcases QIdB.bs_inv hq with ⟨ht, _⟩ | ⟨e, b, s', w', ht, he, hse, hq'⟩ |
        ⟨a, b, c', d, r, s', w', ht, hx, hs, hse, hq'⟩ |
        ⟨a, b, c', d, a', b', c'', d', hi, lo, s', w', ht, hx1, hx2, g1, g2, g3, g4, hse, hq'⟩
      · exact absurd (List.append_eq_nil_iff.1 ht).1 (encodeRune_ne_nil c)
      · have he' : e < 0x80 := by
          simp only [shortEsc, List.mem_cons, Prod.mk.injEq, List.not_mem_nil, or_false] at he; omega
        obtain ⟨rfl, rfl⟩ := encodeRune_head_ascii ht he'
        rw [encodeRune_ascii c he', hse]
        exact QEsc.short c b he (ih w0 (by omega) hb0 _ hq')
      · obtain ⟨rfl, rfl⟩ := encodeRune_head_ascii ht (by omega)
        rw [encodeRune_ascii 0x75 (by omega), hse]
        simp only [List.length_cons] at hw
        exact QEsc.uni a b c' d r hx hs (ih w' (by omega) (Body.drop_hex4 (Or.inl rfl) hx hb0) _ hq')
      · obtain ⟨rfl, rfl⟩ := encodeRune_head_ascii ht (by omega)
        rw [encodeRune_ascii 0x75 (by omega), hse]
        simp only [List.length_cons] at hw
        have hb1 := Body.drop_hex4 (Or.inl rfl) hx1 hb0
        obtain ⟨c2, w2, hc2, ht2, hb2⟩ := Body.esc_inv hb1
        obtain ⟨rfl, rfl⟩ := encodeRune_head_ascii ht2.symm (by omega)
        exact QEsc.pair a b c' d a' b' c'' d' hi lo hx1 hx2 g1 g2 g3 g4
          (ih w' (by omega) (Body.drop_hex4 (Or.inl rfl) hx2 hb2) _ hq')

/-- **on token bodies the two relations coincide** -/
theorem qesc_iff_qidb {w : Bytes} (hb : Body 0x22 w) (s : Bytes) : QEsc s w ↔ QIdB s w :=
  ⟨qidb_of_qesc, qesc_of_body _ w (Nat.le_refl _) hb s⟩

/-! ## 2. the lexer's delimiter scan, byte level -/

/-- how the scan "a backslash hides the next character" ends on a text: every backslash found its partner and no
    delimiter showed (`closed`), the last byte is a backslash without partner (`dangling`), or a delimiter that is not
    hidden by a backslash occurs (`bare`) -/
inductive Scan where
  | closed | dangling | bare
  deriving DecidableEq, Repr

/-- the scan on bytes (on valid UTF-8 hiding the next byte is hiding the next character: the bytes that follow the
    first one of a character are neither backslashes nor delimiters) -/
def scanB (d : Nat) : Bytes → Scan
  | [] => .closed
  | [b] => if b = 0x5C then .dangling else if b = d then .bare else .closed
  | b :: c :: t => if b = 0x5C then scanB d t else if b = d then .bare else scanB d (c :: t)

theorem scanB_plain {d b : Nat} (h1 : b ≠ 0x5C) (h2 : b ≠ d) (w : Bytes) : scanB d (b :: w) = scanB d w := by
  cases w with
  | nil => simp [scanB, h1, h2]
  | cons c t => simp [scanB, h1, h2]

theorem scanB_esc (d c : Nat) (t : Bytes) : scanB d (0x5C :: c :: t) = scanB d t := by
  simp [scanB]

theorem scanB_delim {d : Nat} (hd : d ≠ 0x5C) (w : Bytes) : scanB d (d :: w) = .bare := by
  cases w with
  | nil => simp [scanB, hd]
  | cons c t => simp [scanB, hd]

theorem scanB_plains {d : Nat} : ∀ (l : Bytes), (∀ b ∈ l, b ≠ 0x5C ∧ b ≠ d) → ∀ w, scanB d (l ++ w) = scanB d w
  | [], _, _ => rfl
  | b :: l, h, w => by
    rw [List.cons_append, scanB_plain (h b (by simp)).1 (h b (by simp)).2,
      scanB_plains l (fun x hx => h x (by simp [hx])) w]

/-- the first byte of a character, and the bytes after it (all ≥ 0x80) -/
theorem encodeRune_split (c : Nat) : ∃ x l, encodeRune c = x :: l ∧ (∀ b ∈ l, 0x80 ≤ b) ∧ (c < 0x80 → x = c ∧ l = []) ∧
    (0x80 ≤ c → 0x80 ≤ x) := by
  by_cases hc : c < 0x80
  · exact ⟨c, [], encodeRune_ascii c hc, (by intro b hb; cases hb), fun _ => ⟨rfl, rfl⟩, fun h => by omega⟩
  · have hne := encodeRune_ne_nil c
    match hh : encodeRune c, hne with
    | x :: l, _ =>
      have hge := encodeRune_bytes_ge c (by omega)
      rw [hh] at hge
      exact ⟨x, l, rfl, fun b hb => hge b (by simp [hb]), fun h => absurd h hc, fun _ => hge x (by simp)⟩

theorem scanB_plain_rune {d c : Nat} (hd : d < 0x80) (h1 : c ≠ d) (h2 : c ≠ 0x5C) (w : Bytes) :
    scanB d (encodeRune c ++ w) = scanB d w := by
  refine scanB_plains _ ?_ w
  intro b hb
  by_cases hc : c < 0x80
  · rw [encodeRune_ascii c hc] at hb; simp at hb; subst hb; exact ⟨h2, h1⟩
  · have := encodeRune_bytes_ge c (by omega) b hb; omega

theorem scanB_esc_rune {d : Nat} (hd : d < 0x80) (c : Nat) (w : Bytes) :
    scanB d (0x5C :: (encodeRune c ++ w)) = scanB d w := by
  obtain ⟨x, l, hx, hl, _, _⟩ := encodeRune_split c
  rw [hx, List.cons_append, scanB_esc]
  exact scanB_plains l (fun b hb => by have := hl b hb; omega) w

/-- a token body scans as closed -/
theorem scanB_body {d : Nat} (hd : d < 0x80) {w : Bytes} (h : Body d w) : scanB d w = .closed := by
  induction h with
  | nil => rfl
  | plain c w h1 h2 h3 _ ih => rw [scanB_plain_rune hd h2 h3, ih]
  | esc c w h1 _ ih => rw [scanB_esc_rune hd, ih]

/-- valid UTF-8 that scans as closed is a token body; if it scans as dangling it is a token body and one backslash -/
theorem body_of_scanB {d : Nat} (hd : d < 0x80) (hd2 : d ≠ 0x5C) : ∀ (n : Nat) (cs : List Nat), cs.length ≤ n → Scalars cs →
    (scanB d (encodeAll cs) = .closed → Body d (encodeAll cs)) ∧
    (scanB d (encodeAll cs) = .dangling → ∃ p, encodeAll cs = p ++ [0x5C] ∧ Body d p) := by
  intro n
  induction n with
  | zero =>
    intro cs hn _
    have : cs = [] := List.eq_nil_of_length_eq_zero (by omega)
    subst this
    exact ⟨fun _ => Body.nil, fun h => by simp [encodeAll, scanB] at h⟩
  | succ n ih =>
    intro cs hn hs
    match cs, hn, hs with
    | [], _, _ => exact ⟨fun _ => Body.nil, fun h => by simp [encodeAll, scanB] at h⟩
    | c :: cs, hn, hs =>
      simp only [List.length_cons] at hn
      rw [encodeAll_cons]
      by_cases h1 : c = 0x5C
      · subst h1
        rw [encodeRune_ascii 0x5C (by omega)]
        match cs, hn, hs with
        | [], _, _ =>
          refine ⟨fun h => by simp [encodeAll, scanB] at h, fun _ => ⟨[], by simp [encodeAll], Body.nil⟩⟩
        | c' :: cs', hn, hs =>
          simp only [List.length_cons] at hn
          rw [encodeAll_cons, List.singleton_append, scanB_esc_rune hd]
          obtain ⟨i1, i2⟩ := ih cs' (by omega) hs.tail.tail
          refine ⟨fun h => Body.esc c' _ hs.tail.head (i1 h), fun h => ?_⟩
          obtain ⟨p, hp, hb⟩ := i2 h
          exact ⟨0x5C :: (encodeRune c' ++ p), by rw [hp]; simp, Body.esc c' _ hs.tail.head hb⟩
      · by_cases h2 : c = d
        · subst h2
          rw [encodeRune_ascii c hd, List.singleton_append, scanB_delim hd2]
          exact ⟨fun h => (by cases h), fun h => (by cases h)⟩
        · rw [scanB_plain_rune hd h2 h1]
          obtain ⟨i1, i2⟩ := ih cs (by omega) hs.tail
          refine ⟨fun h => Body.plain c _ hs.head h2 h1 (i1 h), fun h => ?_⟩
          obtain ⟨p, hp, hb⟩ := i2 h
          exact ⟨encodeRune c ++ p, by rw [hp]; simp, Body.plain c _ hs.head h2 h1 hb⟩

/-- a token body is valid UTF-8 -/
theorem body_valid {d : Nat} {w : Bytes} (h : Body d w) : validUTF8 w = true := by
  induction h with
  | nil => rfl
  | plain c w h1 _ _ _ ih => exact C11S.validUTF8_append (C11S.validUTF8_encodeRune_any c) ih
  | esc c w h1 _ ih =>
    rw [C11V.validUTF8_cons_ascii (by omega)]
    exact C11S.validUTF8_append (C11S.validUTF8_encodeRune_any c) ih

/-- **the lexer's token bodies, in terms of bytes**: `w` can stand between two delimiters `d` as ONE token iff it is
    valid UTF-8 and the byte scan ends closed (no bare delimiter, no dangling backslash) -/
theorem body_iff {d : Nat} (hd : d < 0x80) (hd2 : d ≠ 0x5C) (w : Bytes) :
    Body d w ↔ validUTF8 w = true ∧ scanB d w = .closed := by
  constructor
  · intro h; exact ⟨body_valid h, scanB_body hd h⟩
  · rintro ⟨hv, hs⟩
    obtain ⟨cs, hcs, rfl⟩ := (validUTF8_iff w).1 hv
    exact (body_of_scanB hd hd2 _ cs (Nat.le_refl _) hcs).1 hs

theorem dangling_split {d : Nat} (hd : d < 0x80) (hd2 : d ≠ 0x5C) {w : Bytes} (hv : validUTF8 w = true)
    (hs : scanB d w = .dangling) : ∃ p, w = p ++ [0x5C] ∧ Body d p := by
  obtain ⟨cs, hcs, rfl⟩ := (validUTF8_iff w).1 hv
  exact (body_of_scanB hd hd2 _ cs (Nat.le_refl _) hcs).2 hs

/-- a text without the delimiter byte has no bare delimiter -/
theorem scanB_no_delim {d : Nat} : ∀ (n : Nat) (w : Bytes), w.length ≤ n → (∀ b ∈ w, b ≠ d) → scanB d w ≠ .bare := by
  intro n
  induction n with
  | zero =>
    intro w hw _
    have : w = [] := List.eq_nil_of_length_eq_zero (by omega)
    subst this; simp [scanB]
  | succ n ih =>
    intro w hw hn
    match w, hw, hn with
    | [], _, _ => simp [scanB]
    | [b], _, hn =>
      have := hn b (by simp)
      simp only [scanB]; split
      · simp
      · simp
    | b :: c :: t, hw, hn =>
      simp only [List.length_cons] at hw
      have hb := hn b (by simp)
      by_cases h1 : b = 0x5C
      · subst h1; rw [scanB_esc]; exact ih t (by omega) (fun x hx => hn x (by simp [hx]))
      · rw [scanB_plain h1 hb]; exact ih (c :: t) (by simp; omega) (fun x hx => hn x (List.mem_cons_of_mem _ hx))

/-! ## 3. the delimiter scan of the lexer on texts that are not token bodies -/

/-- a token body followed by something that does not decode: the scan stops there with that error
    (`invalidRune` for an invalid byte, `unexpectedEnd` at the end of the text) -/
theorem scanDelim_body_err {delim : Nat} (_hd : delim < 0x80) (hd2 : delim ≠ 0x5C) {b : Bytes} (hb : Body delim b)
    {x : Bytes} {e : LexErr} (hx : lexDecode x = .error e) :
    ∀ (fuel n : Nat), b.length < fuel → scanDelim delim fuel (b ++ x) n = .error e := by
  induction hb with
  | nil =>
    intro fuel n hf
    match fuel, hf with
    | f + 1, _ => simp only [List.nil_append, scanDelim, hx]
  | plain c w h1 h2 h3 _ ih =>
    intro fuel n hf
    have hp := encodeRune_length_pos c
    simp only [List.length_append] at hf
    match fuel, hf with
    | f + 1, hf =>
      rw [List.append_assoc]
      simp only [scanDelim, lexDecode_enc c h1, h2, h3, if_false, List.drop_left]
      exact ih f _ (by omega)
  | esc c w h1 _ ih =>
    intro fuel n hf
    have hp := encodeRune_length_pos c
    simp only [List.length_cons, List.length_append] at hf
    match fuel, hf with
    | f + 1, hf =>
      have e1 : lexDecode (0x5C :: (encodeRune c ++ w) ++ x) = .ok (0x5C, 1) :=
        lexDecode_ascii 0x5C (by omega) _
      have hd3 : ¬ (0x5C = delim) := fun h => hd2 h.symm
      have e2 : List.drop 1 (0x5C :: (encodeRune c ++ w) ++ x) = encodeRune c ++ (w ++ x) := by simp
      have e3 : List.drop (1 + (encodeRune c).length) (0x5C :: (encodeRune c ++ w) ++ x) = w ++ x := by
        rw [← List.drop_drop, e2, List.drop_left]
      simp only [scanDelim, e1, hd3, if_false, if_true, e2, lexDecode_enc c h1, e3]
      exact ih f _ (by omega)

/-- the same when the undecodable text comes right after a backslash -/
theorem scanDelim_body_bs_err {delim : Nat} (_hd : delim < 0x80) (hd2 : delim ≠ 0x5C) {b : Bytes} (hb : Body delim b)
    {x : Bytes} {e : LexErr} (hx : lexDecode x = .error e) :
    ∀ (fuel n : Nat), b.length + 1 < fuel → scanDelim delim fuel (b ++ 0x5C :: x) n = .error e := by
  induction hb with
  | nil =>
    intro fuel n hf
    match fuel, hf with
    | f + 1, _ =>
      have hd3 : ¬ (0x5C = delim) := fun h => hd2 h.symm
      simp only [List.nil_append, scanDelim, lexDecode_ascii 0x5C (by omega : 0x5C < 0x80), hd3, if_false, if_true,
        List.drop_succ_cons, List.drop_zero, hx]
  | plain c w h1 h2 h3 _ ih =>
    intro fuel n hf
    have hp := encodeRune_length_pos c
    simp only [List.length_append] at hf
    match fuel, hf with
    | f + 1, hf =>
      rw [List.append_assoc]
      simp only [scanDelim, lexDecode_enc c h1, h2, h3, if_false, List.drop_left]
      exact ih f _ (by omega)
  | esc c w h1 _ ih =>
    intro fuel n hf
    have hp := encodeRune_length_pos c
    simp only [List.length_cons, List.length_append] at hf
    match fuel, hf with
    | f + 1, hf =>
      have e1 : lexDecode (0x5C :: (encodeRune c ++ w) ++ 0x5C :: x) = .ok (0x5C, 1) :=
        lexDecode_ascii 0x5C (by omega) _
      have hd3 : ¬ (0x5C = delim) := fun h => hd2 h.symm
      have e2 : List.drop 1 (0x5C :: (encodeRune c ++ w) ++ 0x5C :: x) = encodeRune c ++ (w ++ 0x5C :: x) := by simp
      have e3 : List.drop (1 + (encodeRune c).length) (0x5C :: (encodeRune c ++ w) ++ 0x5C :: x) = w ++ 0x5C :: x := by
        rw [← List.drop_drop, e2, List.drop_left]
      simp only [scanDelim, e1, hd3, if_false, if_true, e2, lexDecode_enc c h1, e3]
      exact ih f _ (by omega)

/-- the three delimiters: `"`, `'`, `` ` `` -/
def IsDelim (d : Nat) : Prop := d = 0x22 ∨ d = 0x27 ∨ d = 0x60

theorem IsDelim.lt {d : Nat} (h : IsDelim d) : d < 0x80 := by unfold IsDelim at h; omega
theorem IsDelim.ne_bs {d : Nat} (h : IsDelim d) : d ≠ 0x5C := by unfold IsDelim at h; omega

/-- an error of the delimiter scan is the error of the token -/
theorem lexToken_delim_err {d : Nat} (hd : IsDelim d) {s : Bytes} {e : LexErr}
    (h : scanDelim d ((d :: s).length + 1) s 1 = .error e) : lexToken (d :: s) = .error e := by
  rcases hd with rfl | rfl | rfl
  · unfold lexToken
    rw [lexDecode_ascii 0x22 (by omega)]
    simp only [List.drop_succ_cons, List.drop_zero, h]
    simp
  · unfold lexToken
    rw [lexDecode_ascii 0x27 (by omega)]
    simp only [List.drop_succ_cons, List.drop_zero, h]
    simp
  · unfold lexToken
    rw [lexDecode_ascii 0x60 (by omega)]
    simp only [List.drop_succ_cons, List.drop_zero, h]
    simp

/-- an error in the first token: no token at all, the error is pending -/
theorem lexAll_first_err {d : Nat} (hd : IsDelim d) {s : Bytes} {e : LexErr} (h : lexToken (d :: s) = .error e) :
    lexAll (d :: s) = ([], some e) := by
  have hws : isWsR d = false := by rcases hd with rfl | rfl | rfl <;> decide
  unfold lexAll
  simp only [List.length_cons, lexAllAux, skipWsLex, lexDecode_ascii d hd.lt, hws]
  simp [h]

/-- … and `Compile` reports it -/
theorem parse_first_err {e : Bytes} {err : LexErr} (h : lexAll e = ([], some err)) :
    Parser.parse e = .error (.lex err) := by
  unfold Parser.parse
  rw [h]

theorem search_first_err {e : Bytes} {err : LexErr} (h : lexAll e = ([], some err)) (doc : Val) :
    search e doc = .err [.syntax] := by
  unfold search
  rw [parse_first_err h]
  rfl

/-- a token body — or a token body and a dangling backslash — followed by text that does not decode -/
theorem lexAll_open_err {d : Nat} (hd : IsDelim d) {p x : Bytes} (hv : validUTF8 p = true) (hs : scanB d p ≠ .bare)
    {e : LexErr} (hx : lexDecode x = .error e) : lexAll (d :: (p ++ x)) = ([], some e) := by
  apply lexAll_first_err hd
  apply lexToken_delim_err hd
  cases hsc : scanB d p with
  | bare => exact absurd hsc hs
  | closed =>
    have hb := (body_iff hd.lt hd.ne_bs p).2 ⟨hv, hsc⟩
    exact scanDelim_body_err hd.lt hd.ne_bs hb hx _ _ (by simp; omega)
  | dangling =>
    obtain ⟨p', rfl, hb⟩ := dangling_split hd.lt hd.ne_bs hv hsc
    rw [List.append_assoc, List.singleton_append]
    exact scanDelim_body_bs_err hd.lt hd.ne_bs hb hx _ _ (by simp; omega)

/-! ### where a text stops being valid UTF-8 -/

/-- a text that is not valid UTF-8 is a valid part followed by a byte sequence the lexer's `decodeRune` rejects -/
theorem invalid_split_aux : ∀ (fuel : Nat) (s : Bytes), validAux fuel s = false → s.length ≤ fuel →
    ∃ p x, s = p ++ x ∧ validUTF8 p = true ∧ lexDecode x = .error .invalidRune := by
  intro fuel
  induction fuel with
  | zero =>
    intro s h hl
    have : s = [] := List.eq_nil_of_length_eq_zero (by omega)
    subst this; simp [validAux] at h
  | succ f ih =>
    intro s h hl
    by_cases hne : s = []
    · subst hne; simp [validAux] at h
    · rw [validAux_succ f s hne] at h
      by_cases he : (decodeRune s).1 = RuneError ∧ (decodeRune s).2 = 1
      · refine ⟨[], s, rfl, rfl, ?_⟩
        unfold lexDecode
        generalize hd : decodeRune s = q at he
        obtain ⟨r, sz⟩ := q
        simp only at he ⊢
        obtain ⟨h1, h2⟩ := he
        subst h1 h2
        simp
      · rw [if_neg he] at h
        obtain ⟨h1, h2, h3⟩ := decodeRune_valid s hne he
        have hp := encodeRune_length_pos (decodeRune s).1
        have hlen : (s.drop (decodeRune s).2).length ≤ f := by
          simp only [List.length_drop]; omega
        obtain ⟨p, x, hpx, hv, hx⟩ := ih _ h hlen
        refine ⟨encodeRune (decodeRune s).1 ++ p, x, ?_, ?_, hx⟩
        · rw [List.append_assoc, ← hpx]; exact h2
        · exact C11S.validUTF8_append (C11S.validUTF8_encodeRune_any _) hv

theorem invalid_split {s : Bytes} (h : validUTF8 s = false) :
    ∃ p x, s = p ++ x ∧ validUTF8 p = true ∧ lexDecode x = .error .invalidRune :=
  invalid_split_aux _ s h (Nat.le_refl _)

/-- a valid text cut just before an ASCII byte is valid -/
theorem valid_before_ascii : ∀ (cs : List Nat), Scalars cs → ∀ (w : Bytes) (b : Nat) (y : Bytes), b < 0x80 →
    encodeAll cs = w ++ b :: y → validUTF8 w = true
  | [], _, w, b, y, _, h => by
    simp [encodeAll] at h
  | c :: cs, hs, w, b, y, hb, h => by
    rw [encodeAll_cons] at h
    rcases List.append_eq_append_iff.1 h with ⟨a', h1, h2⟩ | ⟨c', h1, h2⟩
    · rw [h1]
      exact C11S.validUTF8_append (C11S.validUTF8_encodeRune_any c) (valid_before_ascii cs hs.tail a' b y hb h2)
    · cases c' with
      | nil =>
        simp at h1; rw [← h1]; exact C11S.validUTF8_encodeRune_any c
      | cons z c'' =>
        simp only [List.cons_append, List.cons.injEq] at h2
        obtain ⟨rfl, _⟩ := h2
        cases w with
        | nil => rfl
        | cons a w' =>
          exfalso
          by_cases hc : c < 0x80
          · rw [encodeRune_ascii c hc] at h1
            simp at h1
          · have := encodeRune_bytes_ge c (by omega) b (by rw [h1]; simp)
            omega

/-- a body without the delimiter byte that is not valid UTF-8, then anything that starts with the delimiter: the text
    splits into a valid part without bare delimiter and a byte sequence `decodeRune` rejects -/
theorem no_delim_split {d : Nat} (hd : d < 0x80) {w : Bytes} (hw : validUTF8 w = false) (hn : ∀ b ∈ w, b ≠ d)
    (rest : Bytes) :
    ∃ p x, w ++ d :: rest = p ++ x ∧ validUTF8 p = true ∧ scanB d p ≠ .bare ∧ lexDecode x = .error .invalidRune := by
  have hinv : validUTF8 (w ++ d :: rest) = false := by
    cases hv : validUTF8 (w ++ d :: rest) with
    | false => rfl
    | true =>
      obtain ⟨cs, hcs, he⟩ := (validUTF8_iff _).1 hv
      rw [valid_before_ascii cs hcs w d rest hd he.symm] at hw; cases hw
  obtain ⟨p, x, hpx, hv, hx⟩ := invalid_split hinv
  refine ⟨p, x, hpx, hv, ?_, hx⟩
  rcases List.append_eq_append_iff.1 hpx with ⟨a', h1, h2⟩ | ⟨c', h1, _⟩
  · exfalso
    cases a' with
    | nil => simp at h1; rw [h1, hw] at hv; cases hv
    | cons z a'' =>
      simp only [List.cons_append, List.cons.injEq] at h2
      obtain ⟨rfl, _⟩ := h2
      obtain ⟨cs, hcs, he⟩ := (validUTF8_iff _).1 hv
      rw [h1] at he
      rw [valid_before_ascii cs hcs w d a'' hd he.symm] at hw; cases hw
  · -- `p` is a prefix of `w`
    apply scanB_no_delim _ p (Nat.le_refl _)
    intro b hb; exact hn b (by rw [h1]; simp [hb])

/-! ### an expression that lexes is valid UTF-8 -/

theorem ws_valid {w : Bytes} (h : Ws w) : validUTF8 w = true :=
  C11S.validUTF8_ascii (fun b hb => Lex.isWsR_lt (by rw [Lex.isWsR_eq]; exact h b hb))

theorem lexes_valid {s : Bytes} {ts : List Token} (h : Lexes s ts) : validUTF8 s = true := by
  induction h with
  | done w hw => exact ws_valid hw
  | tok w t rest ts hw hsh _ ih =>
    exact C11S.validUTF8_append (C11S.validUTF8_append (ws_valid hw) (C11V.tokShape_valid hsh)) ih

/-- **the lexer accepts valid UTF-8 only** -/
theorem lexAll_ok_valid {e : Bytes} {ts : List Token} (h : lexAll e = (ts, none)) : validUTF8 e = true :=
  lexes_valid (Lex.lexAll_sound h)

/-! ## 4. every quoted identifier and every JSON literal of a well-formed tree decodes -/

open Jmes.Grammar Jmes.GrammarF0 Jmes.GrammarF2

/-- a token that, if it is a quoted identifier or a JSON literal, decodes -/
def TokOK (t : Token) : Prop :=
  (t.type = .quotedIdentifier → (parseQuotedIdentifier t.value).isSome = true) ∧
  (t.type = .jsonLiteral → (parseJSONLiteral t.value).isSome = true)

def AllOK (ts : List Token) : Prop := ∀ t ∈ ts, TokOK t

theorem TokOK.of_type {t : Token} (h1 : t.type ≠ .quotedIdentifier) (h2 : t.type ≠ .jsonLiteral) : TokOK t :=
  ⟨fun h => absurd h h1, fun h => absurd h h2⟩

theorem allOK_nil : AllOK [] := by intro t h; cases h
theorem allOK_cons {t : Token} {ts : List Token} : AllOK (t :: ts) ↔ TokOK t ∧ AllOK ts := by
  simp [AllOK]
theorem allOK_append {a b : List Token} : AllOK (a ++ b) ↔ AllOK a ∧ AllOK b := by
  simp only [AllOK, List.mem_append]
  exact ⟨fun h => ⟨fun t ht => h t (Or.inl ht), fun t ht => h t (Or.inr ht)⟩,
    fun h t ht => ht.elim (h.1 t) (h.2 t)⟩
theorem allOK_single {t : Token} : AllOK [t] ↔ TokOK t := by simp [AllOK]

theorem ok_LParen : TokOK tLParen := TokOK.of_type (by decide) (by decide)
theorem ok_RParen : TokOK tRParen := TokOK.of_type (by decide) (by decide)
theorem ok_LBracket : TokOK tLBracket := TokOK.of_type (by decide) (by decide)
theorem ok_RBracket : TokOK tRBracket := TokOK.of_type (by decide) (by decide)
theorem ok_LBrace : TokOK tLBrace := TokOK.of_type (by decide) (by decide)
theorem ok_RBrace : TokOK tRBrace := TokOK.of_type (by decide) (by decide)
theorem ok_Comma : TokOK tComma := TokOK.of_type (by decide) (by decide)
theorem ok_Colon : TokOK tColon := TokOK.of_type (by decide) (by decide)
theorem ok_Dot : TokOK tDot := TokOK.of_type (by decide) (by decide)
theorem ok_DotStar : TokOK tDotStar := TokOK.of_type (by decide) (by decide)
theorem ok_Star : TokOK tStar := TokOK.of_type (by decide) (by decide)
theorem ok_ArrayStar : TokOK tArrayStar := TokOK.of_type (by decide) (by decide)
theorem ok_Flatten : TokOK tFlatten := TokOK.of_type (by decide) (by decide)
theorem ok_Filter : TokOK tFilter := TokOK.of_type (by decide) (by decide)
theorem ok_Not : TokOK tNot := TokOK.of_type (by decide) (by decide)
theorem ok_Plus : TokOK tPlus := TokOK.of_type (by decide) (by decide)
theorem ok_Amp : TokOK tAmp := TokOK.of_type (by decide) (by decide)
theorem ok_Let : TokOK tLet := TokOK.of_type (by decide) (by decide)
theorem ok_In : TokOK tIn := TokOK.of_type (by decide) (by decide)
theorem ok_Assign : TokOK tAssign := TokOK.of_type (by decide) (by decide)

theorem ok_of_beq {t : Token} {ty : TokenType} (h : (t.type == ty) = true) (h1 : ty ≠ .quotedIdentifier)
    (h2 : ty ≠ .jsonLiteral) : TokOK t := by
  have : t.type = ty := by simpa using h
  exact TokOK.of_type (by rw [this]; exact h1) (by rw [this]; exact h2)

theorem ok_atom {t : Token} (h : (atomNode t).isSome = true) : TokOK t := by
  constructor
  · intro ht
    simp only [atomNode, ht, Option.isSome_map] at h
    exact h
  · intro ht
    simp only [atomNode, ht, Option.isSome_map] at h
    exact h

theorem ok_keyOK {k : Token} (h : keyOK k = true) : TokOK k := by
  simp only [keyOK, Bool.or_eq_true, Bool.and_eq_true] at h
  rcases h with h | ⟨h1, h2⟩
  · exact ok_of_beq h (by decide) (by decide)
  · have ht : k.type = .quotedIdentifier := by simpa using h1
    exact ⟨fun _ => h2, fun h => by rw [ht] at h; cases h⟩

theorem ok_isVarTok {k : Token} (h : isVarTok k = true) : TokOK k :=
  ok_of_beq h (by decide) (by decide)

theorem ok_isIntTok {k : Token} (h : isIntTok k = true) : TokOK k := by
  simp only [isIntTok, Bool.and_eq_true] at h
  exact ok_of_beq h.1 (by decide) (by decide)

theorem ok_binLevel {op : Token} {l : Nat} (h : binLevel op.type = some l) : TokOK op := by
  refine TokOK.of_type ?_ ?_ <;> (intro ht; rw [ht] at h; simp [binLevel] at h)

theorem ok_optInt {a : Option Token} (h : optIntTok a = true) : AllOK a.toList := by
  cases a with
  | none => exact allOK_nil
  | some t => exact allOK_single.2 (ok_isIntTok h)

theorem ok_sliceToks {a b : Option Token} {c : Option (Option Token)} (h : sliceOK a b c = true) :
    AllOK (sliceToks a b c) := by
  simp only [sliceOK, Bool.and_eq_true] at h
  obtain ⟨⟨ha, hb⟩, hc⟩ := h
  simp only [sliceToks]
  refine allOK_append.2 ⟨allOK_append.2 ⟨ok_optInt ha, allOK_cons.2 ⟨ok_Colon, ok_optInt hb⟩⟩, ?_⟩
  match c, hc with
  | none, _ => exact allOK_nil
  | some none, _ => exact allOK_cons.2 ⟨ok_Colon, allOK_nil⟩
  | some (some s), hc =>
    simp only [Bool.and_eq_true] at hc
    exact allOK_cons.2 ⟨ok_Colon, allOK_single.2 (ok_isIntTok hc.1)⟩

/-- the induction hypothesis: in either position; and for what is under an `&` -/
def MQ (t : PTree) : Prop := ∀ b, wp b t = true → AllOK (Grammar.flat b t)
def M (x : PTree) : Prop := MQ x ∧ ∀ t, x = .ref t → MQ t

theorem m_of_q {x : PTree} (h : MQ x) (hr : ∀ t, x ≠ .ref t) : M x := ⟨h, fun t ht => absurd ht (hr t)⟩

theorem left_ok' {l : PTree} (hl : M l) {b X Y : Bool}
    (h : (if l.isIcur = true then X else (wp b l && Y)) = true) : AllOK (Grammar.flat b l) := by
  cases hi : l.isIcur with
  | true => rw [isIcur_eq hi]; simp only [Grammar.flat]; exact allOK_nil
  | false =>
    rw [hi] at h
    simp only [Bool.false_eq_true, if_false, Bool.and_eq_true] at h
    exact hl.1 b h.1

theorem rhs_ok' {r : PTree} (hr : M r) {Z : Bool} (h : (r.isIcur || (wp true r && Z)) = true) :
    AllOK (Grammar.flat true r) := by
  cases hi : r.isIcur with
  | true => rw [isIcur_eq hi]; simp only [Grammar.flat]; exact allOK_nil
  | false =>
    rw [hi] at h
    simp only [Bool.false_or, Bool.and_eq_true] at h
    exact hr.1 true h.1

theorem flatSep_ok : ∀ {es : List PTree}, (∀ e ∈ es, M e) → wpL es = true → AllOK (flatSep es)
  | [], _, _ => by simp only [flatSep]; exact allOK_nil
  | [e], hm, hw => by
    simp only [wpL, Bool.and_eq_true] at hw
    simp only [flatSep]
    exact (hm e (by simp)).1 false hw.1
  | e :: e' :: es, hm, hw => by
    simp only [wpL, Bool.and_eq_true] at hw
    simp only [flatSep]
    refine allOK_append.2 ⟨(hm e (by simp)).1 false hw.1, allOK_cons.2 ⟨ok_Comma, ?_⟩⟩
    exact flatSep_ok (es := e' :: es) (fun x hx => hm x (List.mem_cons_of_mem _ hx))
      (by simp only [wpL, Bool.and_eq_true]; exact hw.2)

theorem arg_ok {e : PTree} (hm : M e) (hw : wp false (unref e) = true) : AllOK (Grammar.flat false e) := by
  cases hr : e.isRef with
  | true =>
    obtain ⟨t, rfl⟩ := isRef_eq hr
    simp only [Grammar.flat]
    exact allOK_cons.2 ⟨ok_Amp, hm.2 t rfl false hw⟩
  | false =>
    rw [unref_of_not hr] at hw
    exact hm.1 false hw

theorem flatArgs_ok : ∀ {es : List PTree}, (∀ e ∈ es, M e) → wpArgs es = true → AllOK (flatSep es)
  | [], _, _ => by simp only [flatSep]; exact allOK_nil
  | [e], hm, hw => by
    rw [wpArgs_cons, Bool.and_eq_true] at hw
    simp only [flatSep]
    exact arg_ok (hm e (by simp)) hw.1
  | e :: e' :: es, hm, hw => by
    rw [wpArgs_cons, Bool.and_eq_true] at hw
    simp only [flatSep]
    refine allOK_append.2 ⟨arg_ok (hm e (by simp)) hw.1, allOK_cons.2 ⟨ok_Comma, ?_⟩⟩
    exact flatArgs_ok (es := e' :: es) (fun x hx => hm x (List.mem_cons_of_mem _ hx)) hw.2

theorem flatKVs_ok {ok : Token → Bool} (hok : ∀ k, ok k = true → TokOK k) {sep : Token} (hsep : TokOK sep) :
    ∀ {kvs : List (Token × PTree)}, (∀ kv ∈ kvs, M kv.2) → wpKVs ok kvs = true → AllOK (flatKVs sep kvs)
  | [], _, _ => by simp only [flatKVs]; exact allOK_nil
  | [(k, e)], hm, hw => by
    simp only [wpKVs, Bool.and_eq_true] at hw
    simp only [flatKVs]
    exact allOK_cons.2 ⟨hok k hw.1.1, allOK_cons.2 ⟨hsep, (hm (k, e) (by simp)).1 false hw.1.2⟩⟩
  | (k, e) :: kv' :: rest, hm, hw => by
    simp only [wpKVs, Bool.and_eq_true] at hw
    simp only [flatKVs]
    refine allOK_cons.2 ⟨hok k hw.1.1, allOK_cons.2 ⟨hsep, allOK_append.2
      ⟨(hm (k, e) (by simp)).1 false hw.1.2, allOK_cons.2 ⟨ok_Comma, ?_⟩⟩⟩⟩
    exact flatKVs_ok hok hsep (kvs := kv' :: rest) (fun x hx => hm x (List.mem_cons_of_mem _ hx))
      (by obtain ⟨k', e'⟩ := kv'; simp only [wpKVs, Bool.and_eq_true]; exact hw.2)

set_option linter.unusedSimpArgs false in
theorem m_all : ∀ t, M t := by
  apply PTree.ind
  case h_icur => exact m_of_q (fun b h => by simp [wp] at h) (fun t h => by cases h)
  case h_atom =>
    intro t
    refine m_of_q (fun b h => ?_) (fun t h => by cases h)
    simp only [wp, Bool.and_eq_true] at h
    simp only [Grammar.flat, List.append_assoc, List.cons_append]
    exact allOK_single.2 (ok_atom h.2)
  case h_paren =>
    intro t ht
    refine m_of_q (fun b h => ?_) (fun t h => by cases h)
    simp only [wp, Bool.and_eq_true] at h
    simp only [Grammar.flat, List.append_assoc, List.cons_append]
    exact allOK_cons.2 ⟨ok_LParen, allOK_append.2 ⟨ht.1 false h.2, allOK_single.2 ok_RParen⟩⟩
  case h_not =>
    intro t ht
    refine m_of_q (fun b h => ?_) (fun t h => by cases h)
    simp only [wp, Bool.and_eq_true] at h
    simp only [Grammar.flat, List.append_assoc, List.cons_append]
    exact allOK_cons.2 ⟨ok_Not, ht.1 false h.1.2⟩
  case h_neg =>
    intro tok t ht
    refine m_of_q (fun b h => ?_) (fun t h => by cases h)
    simp only [wp, Bool.and_eq_true] at h
    simp only [Grammar.flat, List.append_assoc, List.cons_append]
    exact allOK_cons.2 ⟨ok_of_beq h.1.1.2 (by decide) (by decide), ht.1 false h.1.2⟩
  case h_pos =>
    intro t ht
    refine m_of_q (fun b h => ?_) (fun t h => by cases h)
    simp only [wp, Bool.and_eq_true] at h
    simp only [Grammar.flat, List.append_assoc, List.cons_append]
    exact allOK_cons.2 ⟨ok_Plus, ht.1 false h.1.2⟩
  case h_bin =>
    intro op l r hl hr
    refine m_of_q (fun b h => ?_) (fun t h => by cases h)
    simp only [wp] at h
    split at h
    · cases h
    · rename_i lvl hlvl
      simp only [Bool.and_eq_true] at h
      simp only [Grammar.flat, List.append_assoc, List.cons_append]
      exact allOK_append.2 ⟨hl.1 b h.1.1.1.2, allOK_cons.2 ⟨ok_binLevel hlvl, hr.1 false h.1.2⟩⟩
  case h_dotId =>
    intro l r hl hr
    refine m_of_q (fun b h => ?_) (fun t h => by cases h)
    simp only [wp, Bool.and_eq_true] at h
    simp only [Grammar.flat, List.append_assoc, List.cons_append]
    exact allOK_append.2 ⟨left_ok' hl h.1.1.1, allOK_cons.2 ⟨ok_Dot, hr.1 false h.1.1.2⟩⟩
  case h_dotList =>
    intro l es hl hes
    refine m_of_q (fun b h => ?_) (fun t h => by cases h)
    simp only [wp, Bool.and_eq_true] at h
    simp only [Grammar.flat, List.append_assoc, List.cons_append]
    exact allOK_append.2 ⟨left_ok' hl h.1.1, allOK_cons.2 ⟨ok_Dot, allOK_cons.2 ⟨ok_LBracket,
      allOK_append.2 ⟨flatSep_ok hes h.2, allOK_single.2 ok_RBracket⟩⟩⟩⟩
  case h_dotHash =>
    intro l kvs hl hes
    refine m_of_q (fun b h => ?_) (fun t h => by cases h)
    simp only [wp, Bool.and_eq_true] at h
    simp only [Grammar.flat, List.append_assoc, List.cons_append]
    exact allOK_append.2 ⟨left_ok' hl h.1.1, allOK_cons.2 ⟨ok_Dot, allOK_cons.2 ⟨ok_LBrace,
      allOK_append.2 ⟨flatKVs_ok (fun k => ok_keyOK) ok_Colon hes h.2, allOK_single.2 ok_RBrace⟩⟩⟩⟩
  case h_dotStarList =>
    intro l hl
    refine m_of_q (fun b h => ?_) (fun t h => by cases h)
    simp only [wp] at h
    simp only [Grammar.flat, List.append_assoc, List.cons_append]
    exact allOK_append.2 ⟨left_ok' hl h,
      allOK_cons.2 ⟨ok_Dot, allOK_single.2 ok_ArrayStar⟩⟩
  case h_index =>
    intro l n hl
    refine m_of_q (fun b h => ?_) (fun t h => by cases h)
    simp only [wp, Bool.and_eq_true] at h
    simp only [Grammar.flat, List.append_assoc, List.cons_append]
    exact allOK_append.2 ⟨left_ok' hl h.1, allOK_cons.2 ⟨ok_LBracket, allOK_cons.2 ⟨ok_isIntTok h.2,
      allOK_single.2 ok_RBracket⟩⟩⟩
  case h_call =>
    intro name args hargs
    refine m_of_q (fun b h => ?_) (fun t h => by cases h)
    simp only [wp, Bool.and_eq_true] at h
    simp only [Grammar.flat, List.append_assoc, List.cons_append]
    exact allOK_cons.2 ⟨ok_of_beq h.1.1.2 (by decide) (by decide), allOK_cons.2 ⟨ok_LParen,
      allOK_append.2 ⟨flatArgs_ok hargs h.2, allOK_single.2 ok_RParen⟩⟩⟩
  case h_ref =>
    intro t ht
    refine ⟨fun b h => by simp [wp] at h, fun t' h => ?_⟩
    cases h; exact ht.1
  case h_letIn =>
    intro bs body hbs hb
    refine m_of_q (fun b h => ?_) (fun t h => by cases h)
    simp only [wp, Bool.and_eq_true] at h
    simp only [Grammar.flat, List.append_assoc, List.cons_append]
    exact allOK_cons.2 ⟨ok_Let, allOK_append.2 ⟨flatKVs_ok (fun k => ok_isVarTok) ok_Assign hbs h.1.2,
      allOK_cons.2 ⟨ok_In, hb.1 false h.2⟩⟩⟩
  case h_multiList =>
    intro es hes
    refine m_of_q (fun b h => ?_) (fun t h => by cases h)
    simp only [wp, Bool.and_eq_true] at h
    simp only [Grammar.flat, List.append_assoc, List.cons_append]
    exact allOK_cons.2 ⟨ok_LBracket, allOK_append.2 ⟨flatSep_ok hes h.2, allOK_single.2 ok_RBracket⟩⟩
  case h_multiHash =>
    intro kvs hes
    refine m_of_q (fun b h => ?_) (fun t h => by cases h)
    simp only [wp, Bool.and_eq_true] at h
    simp only [Grammar.flat, List.append_assoc, List.cons_append]
    exact allOK_cons.2 ⟨ok_LBrace, allOK_append.2 ⟨flatKVs_ok (fun k => ok_keyOK) ok_Colon hes h.2,
      allOK_single.2 ok_RBrace⟩⟩
  case h_star =>
    intro l rhs hl hr
    refine m_of_q (fun b h => ?_) (fun t h => by cases h)
    simp only [wp, Bool.and_eq_true] at h
    simp only [Grammar.flat, List.append_assoc, List.cons_append]
    exact allOK_append.2 ⟨left_ok' hl h.1, allOK_cons.2 ⟨ok_ArrayStar, rhs_ok' hr h.2⟩⟩
  case h_ostar =>
    intro l rhs hl hr
    refine m_of_q (fun b h => ?_) (fun t h => by cases h)
    simp only [wp, Bool.and_eq_true] at h
    simp only [Grammar.flat, List.append_assoc, List.cons_append]
    refine allOK_append.2 ⟨?_, rhs_ok' hr h.2⟩
    split
    · split
      · exact allOK_single.2 ok_DotStar
      · exact allOK_single.2 ok_Star
    · exact allOK_append.2 ⟨left_ok' hl h.1, allOK_single.2 ok_DotStar⟩
  case h_flat =>
    intro l rhs hl hr
    refine m_of_q (fun b h => ?_) (fun t h => by cases h)
    simp only [wp, Bool.and_eq_true] at h
    simp only [Grammar.flat, List.append_assoc, List.cons_append]
    exact allOK_append.2 ⟨left_ok' hl h.1, allOK_cons.2 ⟨ok_Flatten, rhs_ok' hr h.2⟩⟩
  case h_filt =>
    intro l c rhs hl hc hr
    refine m_of_q (fun b h => ?_) (fun t h => by cases h)
    simp only [wp, Bool.and_eq_true] at h
    simp only [Grammar.flat, List.append_assoc, List.cons_append]
    exact allOK_append.2 ⟨left_ok' hl h.1.1, allOK_cons.2 ⟨ok_Filter, allOK_append.2 ⟨hc.1 false h.1.2,
      allOK_cons.2 ⟨ok_RBracket, rhs_ok' hr h.2⟩⟩⟩⟩
  case h_slice =>
    intro l a bb c rhs hl hr
    refine m_of_q (fun b h => ?_) (fun t h => by cases h)
    simp only [wp, Bool.and_eq_true] at h
    simp only [Grammar.flat, List.append_assoc, List.cons_append]
    exact allOK_append.2 ⟨left_ok' hl h.1.1, allOK_cons.2 ⟨ok_LBracket, allOK_append.2 ⟨ok_sliceToks h.1.2,
      allOK_cons.2 ⟨ok_RBracket, rhs_ok' hr h.2⟩⟩⟩⟩

/-- **every quoted identifier and every JSON literal of a well-formed parse tree decodes** -/
theorem wellPrec_tokens_ok {t : PTree} (h : WellPrec t) : AllOK (Grammar.flatten t) :=
  (m_all t).1 false h

/-! ## 5. single-token expressions, the other way round; raw strings -/

/-- the specification shape `DelimBody` is a lexer-proof `Body` and the closing delimiter -/
theorem body_of_delimBody {d : Nat} {v : Bytes} (h : DelimBody d v) : ∃ b, v = b ++ [d] ∧ Body d b := by
  induction h with
  | close => exact ⟨[], rfl, Body.nil⟩
  | esc c w h1 _ ih =>
    obtain ⟨b, rfl, hb⟩ := ih
    exact ⟨0x5C :: (encodeRune c ++ b), by simp, Body.esc c b h1 hb⟩
  | plain c w h1 h2 h3 _ ih =>
    obtain ⟨b, rfl, hb⟩ := ih
    exact ⟨encodeRune c ++ b, by simp, Body.plain c b h1 h2 h3 hb⟩

/-- `d w d` is a delimited token iff `w` is a token body -/
theorem delimited_iff_body {d : Nat} (w : Bytes) : Delimited d (d :: (w ++ [d])) ↔ Body d w := by
  constructor
  · rintro ⟨w', he, hb⟩
    obtain ⟨b, hb1, hb2⟩ := body_of_delimBody hb
    have : w ++ [d] = b ++ [d] := by
      have := List.cons.inj he; rw [this.2]; exact hb1
    rw [List.append_cancel_right this]; exact hb2
  · intro h; exact ⟨_, rfl, delimBody_of_body h⟩

/-- if the whole expression is ONE token of a delimited type, it has the shape of that type -/
theorem shape_of_lexAll_single {e : Bytes} {t : Token} (h : lexAll e = ([t, ⟨.end, []⟩], none)) :
    TokShape t.type t.value := by
  obtain ⟨pre, hpre, hsh⟩ := Lex.Lexes.ends (Lex.lexAll_sound h)
  have : pre = [t] := by
    have h2 : [t] ++ [(⟨.end, []⟩ : Token)] = pre ++ [⟨.end, []⟩] := hpre
    exact (List.append_cancel_right h2).symm
  exact hsh t (by rw [this]; simp)

/-- a single token whose `primaryExpression` fails: `Compile` fails with that error -/
theorem parse_single_err (e : Bytes) (t : Token) (err : PErr)
    (hl : lexAll e = ([t, ⟨.end, []⟩], none))
    (hp : ∀ f, (Parser.primaryExpression (f+1)).run ⟨t, ⟨.end, []⟩, [], none⟩ = .error err) :
    Parser.parse e = .error err := by
  unfold Parser.parse
  rw [hl]
  simp only [List.length_cons, List.length_nil, Parser.fuelFor]
  have : (do
        let node ← Parser.expression (46 + 2) 1
        if (← Parser.currType) != .end then Parser.fail .unexpectedToken
        return node : PM INode).run ⟨t, ⟨.end, []⟩, [], none⟩ = .error err := by
    rw [StateT.run_bind, Parser.expression]
    show ((Parser.primaryExpression (46+1) >>= fun node => Parser.exprLoop (46+1) node 1).run _ >>= _) = _
    rw [StateT.run_bind, hp 46]
    rfl
  simp only [] at this
  rw [this]

/-- `RawDen v b`: the raw-string body `b` (what stands between the single quotes) denotes the string `v`.
    `\'` is a quote, `\\` is one backslash, a backslash before any other byte stays together with that byte, every
    other byte is itself — and (a quirk no token can show) a backslash that is the very last byte is itself. -/
inductive RawDen : Bytes → Bytes → Prop
  | nil : RawDen [] []
  | quote {v b : Bytes} : RawDen v b → RawDen (0x27 :: v) (0x5C :: 0x27 :: b)
  | bs {v b : Bytes} : RawDen v b → RawDen (0x5C :: v) (0x5C :: 0x5C :: b)
  | kept (c : Nat) {v b : Bytes} : c ≠ 0x27 → c ≠ 0x5C → RawDen v b → RawDen (0x5C :: c :: v) (0x5C :: c :: b)
  | byte (c : Nat) {v b : Bytes} : c ≠ 0x5C → RawDen v b → RawDen (c :: v) (c :: b)
  | last : RawDen [0x5C] [0x5C]

theorem unescRaw_nil : unescRaw [] = [] := by simp [unescRaw]
theorem unescRaw_bs_last : unescRaw [0x5C] = [0x5C] := by simp [unescRaw]

theorem rawDen_unesc : ∀ (n : Nat) (b : Bytes), b.length ≤ n → RawDen (unescRaw b) b := by
  intro n
  induction n with
  | zero =>
    intro b hb
    have : b = [] := List.eq_nil_of_length_eq_zero (by omega)
    subst this; rw [unescRaw_nil]; exact RawDen.nil
  | succ n ih =>
    intro b hb
    match b, hb with
    | [], _ => rw [unescRaw_nil]; exact RawDen.nil
    | x :: t, hb =>
      simp only [List.length_cons] at hb
      by_cases hx : x = 0x5C
      · subst hx
        match t, hb with
        | [], _ => rw [unescRaw_bs_last]; exact RawDen.last
        | c :: t', hb =>
          simp only [List.length_cons] at hb
          rw [unescRaw_pair]
          have := ih t' (by omega)
          unfold rawEsc
          by_cases h1 : c = 0x27
          · subst h1; exact RawDen.quote this
          · by_cases h2 : c = 0x5C
            · subst h2; simp only [h1, if_false, if_true]; exact RawDen.bs this
            · simp only [h1, h2, if_false]; exact RawDen.kept c h1 h2 this
      · rw [unescRaw_plain x hx]; exact RawDen.byte x hx (ih t (by omega))

theorem rawDen_fun {v b : Bytes} (h : RawDen v b) : v = unescRaw b := by
  induction h with
  | nil => rw [unescRaw_nil]
  | quote _ ih => rw [unescRaw_pair, ← ih]; simp [rawEsc]
  | bs _ ih => rw [unescRaw_pair, ← ih]; simp [rawEsc]
  | kept c h1 h2 _ ih => rw [unescRaw_pair, ← ih]; simp [rawEsc, h1, h2]
  | byte c h1 _ ih => rw [unescRaw_plain c h1, ← ih]
  | last => rw [unescRaw_bs_last]

/-- **`parseStringLiteral` computes exactly `RawDen`** -/
theorem parseStringLiteral_iff (a z : Nat) (b v : Bytes) :
    parseStringLiteral ([a] ++ b ++ [z]) = v ↔ RawDen v b := by
  rw [parseStringLiteral_unesc, stripDelims_wrap]
  constructor
  · intro h; rw [← h]; exact rawDen_unesc _ b (Nat.le_refl _)
  · intro h; exact (rawDen_fun h).symm

/-! ## 6. the hexadecimal digits of `\uXXXX`, without the decoder's helper -/

/-- `HexDigit b v`: the byte `b` is a hexadecimal digit (either case) of value `v` -/
def HexDigit (b v : Nat) : Prop :=
  (0x30 ≤ b ∧ b ≤ 0x39 ∧ v = b - 0x30) ∨ (0x61 ≤ b ∧ b ≤ 0x66 ∧ v = b - 0x61 + 10) ∨
  (0x41 ≤ b ∧ b ≤ 0x46 ∧ v = b - 0x41 + 10)

theorem hexVal_iff (b v : Nat) : Json.hexVal b = some v ↔ HexDigit b v := by
  unfold Json.hexVal HexDigit
  constructor
  · intro h
    split at h
    · cases h; omega
    · split at h
      · cases h; omega
      · split at h
        · cases h; omega
        · cases h
  · intro h
    split
    · congr 1; omega
    · split
      · congr 1; omega
      · split
        · congr 1; omega
        · omega

/-- the side condition `Json.hex4 [a, b, c, d] = some (r, [])` of `QIdB` / `QEsc`, spelt out: four hexadecimal digits
    whose value, most significant first, is `r` -/
theorem hex4_iff (a b c d r : Nat) :
    Json.hex4 [a, b, c, d] = some (r, []) ↔
      ∃ va vb vc vd, HexDigit a va ∧ HexDigit b vb ∧ HexDigit c vc ∧ HexDigit d vd ∧
        r = ((va * 16 + vb) * 16 + vc) * 16 + vd := by
  constructor
  · intro h
    simp only [Json.hex4] at h
    split at h
    · rename_i va vb vc vd ha hb hc hd
      simp only [Option.some.injEq, Prod.mk.injEq, and_true] at h
      exact ⟨va, vb, vc, vd, (hexVal_iff _ _).1 ha, (hexVal_iff _ _).1 hb, (hexVal_iff _ _).1 hc,
        (hexVal_iff _ _).1 hd, h.symm⟩
    · cases h
  · rintro ⟨va, vb, vc, vd, ha, hb, hc, hd, rfl⟩
    simp only [Json.hex4, (hexVal_iff _ _).2 ha, (hexVal_iff _ _).2 hb, (hexVal_iff _ _).2 hc, (hexVal_iff _ _).2 hd]

end Jmes.C16EL
