/-
  Helper lemmas for Jmes/Properties/C15E.lean, part 4: `from_items(items(e))`. The members of an object have
  pairwise distinct names (the model's representation invariant of Go maps, `C18CR.Sorted`, which the evaluator
  preserves: `C18CS.ieval_sorted`), so rebuilding the object from its `[name, value]` pairs does not depend on
  the order in which the pairs were enumerated.
-/
import Jmes.Proofs.C15EMain
import Jmes.Proofs.C18CSortedEval
set_option linter.unusedVariables false
set_option linter.constructorNameAsVariable false
namespace Jmes.C15E
open Jmes Invar Jmes.C15C

/-- the `[name, value]` pair of a member, as `items` builds it -/
def pairOf (kv : Bytes × Val) : Val := .arr .plain [.str kv.1, kv.2]

theorem fromItemsLoop_pairs : ∀ (ps acc : List (Bytes × Val)),
    fromItemsLoop (ps.map pairOf) acc = .ok (ps.foldl (fun a kv => objInsert kv.1 kv.2 a) acc)
  | [], _ => rfl
  | (k, v) :: ps, acc => by
    simp only [List.map_cons, pairOf, fromItemsLoop, List.foldl_cons]
    rw [show enum2 ATag.plain [Val.str k, v] = false from rfl]
    simp only [Bool.false_eq_true, if_false]
    exact fromItemsLoop_pairs ps _

theorem filterMap_pairKey (ps : List (Bytes × Val)) : (ps.map pairOf).filterMap pairKey = ps.map Prod.fst := by
  induction ps with
  | nil => rfl
  | cons p ps ih =>
    obtain ⟨k, v⟩ := p
    simp only [List.map_cons, pairOf, List.filterMap_cons, pairKey]
    exact congrArg _ ih

theorem hasDupKeys_of_nodup : ∀ {ks : List Bytes}, ks.Nodup → hasDupKeys ks = false
  | [], _ => rfl
  | k :: ks, h => by
    have h' := List.nodup_cons.mp h
    simp only [hasDupKeys, hasDupKeys_of_nodup h'.2, Bool.or_false]
    simpa using h'.1

theorem nodup_of_keySorted {kvs : List (Bytes × Val)} (h : KeySorted kvs) : (kvs.map Prod.fst).Nodup := by
  unfold KeySorted at h
  rw [List.Nodup, List.pairwise_map]
  refine h.imp ?_
  intro a b hab e
  rw [e, bytesLt_irrefl] at hab
  cases hab

theorem insertAll_of_keySorted {kvs : List (Bytes × Val)} (h : KeySorted kvs) : insertAll kvs = kvs :=
  keySorted_ext (KeySorted_insertAll kvs) h (fun x => objLookup_insertAll x kvs)

/-- `from_items` of the pairs of an object's members, enumerated in ANY order and with ANY tag, is that object -/
theorem fromItems_pairs {t : ATag} {ps kvs : List (Bytes × Val)} (hp : ps.Perm kvs) (hk : KeySorted kvs) :
    fromItems (.arr t (ps.map pairOf)) = .ok (.obj kvs) := by
  have hn := nodup_of_keySorted hk
  have hn' : (ps.map Prod.fst).Nodup := (hp.map Prod.fst).nodup_iff.mpr hn
  simp only [fromItems, fromItemsLoop_pairs, filterMap_pairKey, hasDupKeys_of_nodup hn', Bool.and_false,
    Bool.false_eq_true, if_false]
  rw [foldInsert_perm hn hp, insertAll_of_keySorted hk]

theorem items_eq_pairs (kvs : List (Bytes × Val)) :
    items (.obj kvs) = .ok (.arr .enum (kvs.map pairOf)) := rfl

theorem itemsO_eq_pairs (π : Oracle) (kvs : List (Bytes × Val)) :
    itemsO π (.obj kvs) = .ok (.arr .plain ((π.members kvs).map pairOf)) := rfl

/-- `from_items(items(v))` in the model and in a run, for a plain value `v` whose objects have increasing keys -/
theorem fromItems_items_simR (π : Oracle) {v : Val} (hg : v.Good true = true) (hs : C18CR.Sorted v) :
    SimR (items v >>= fun a => fromItems a) (itemsO π v >>= fun a => fromItems a) ∧
      ∀ kvs, v = .obj kvs → (items v >>= fun a => fromItems a) = .ok v := by
  cases v with
  | obj kvs =>
    have hk : KeySorted kvs := (C18CS.sorted_obj.mp hs).1
    rw [items_eq_pairs, itemsO_eq_pairs, Res.ok_bind, Res.ok_bind,
      fromItems_pairs (List.Perm.refl kvs) hk, fromItems_pairs (π.members_perm kvs) hk]
    exact ⟨SimS.ok hg, fun _ _ => rfl⟩
  | _ => exact ⟨SimS.errType, fun _ e => by cases e⟩

end Jmes.C15E
