/-
  Helper for C18C: every literal of a successfully parsed JMESPath expression is `C18CR.Sorted` (its objects have
  strictly increasing keys): literal nodes are built only from `parseJSONLiteral` (`Sorted` by
  `parseJSONLiteral_sorted`) and from raw strings.

  * `sortedB`: a Bool-valued version of `Sorted` (`sortedB_iff`);
  * `parse_sortedBLits`: the Hoare-style (`ParserLits.Post`) fuel induction over the thirteen mutually recursive parser
    functions, as in `ParserLits.lean` / `C18BLits.lean`, for the predicate `sortedB`;
  * `all_litOk_ilits`: the Bool traversal `n.all (INode.litOk sortedB)` gives the Prop `ILits n` of `C18CSortedEval`;
  * `parse_ilits`, `compile_ilits`.
-/
import Jmes.Proofs.C18CSortedEval
import Jmes.Proofs.ParserLits
namespace Jmes.C18CS
open Jmes Jmes.C18CR

/-! ### a Bool-valued `Sorted` -/

/-- Bool version of `KeySorted`: every key is below all later keys -/
def keySortedB : List (Bytes × Val) → Bool
  | [] => true
  | (k, _) :: rest => rest.all (fun p => bytesLt k p.1) && keySortedB rest

/-- `keySortedB` decides `KeySorted` -/
theorem keySortedB_iff : ∀ kvs : List (Bytes × Val), keySortedB kvs = true ↔ KeySorted kvs
  | [] => by simp [keySortedB, KeySorted]
  | (k, v) :: rest => by
    unfold KeySorted
    rw [List.pairwise_cons]
    simp only [keySortedB, Bool.and_eq_true, List.all_eq_true]
    have ih := keySortedB_iff rest
    unfold KeySorted at ih
    rw [ih]

example : keySortedB [([0x61], .null), ([0x62], .null)] = true := by decide
example : keySortedB [([0x62], .null), ([0x61], .null)] = false := by decide

mutual
/-- every object inside the value has strictly increasing keys (Bool version of `Sorted`) -/
def sortedB : Val → Bool
  | .arr _ xs => sortedBL xs
  | .obj kvs => keySortedB kvs && sortedBF kvs
  | _ => true
/-- `sortedB` for every element -/
def sortedBL : List Val → Bool
  | [] => true
  | x :: xs => sortedB x && sortedBL xs
/-- `sortedB` for every member value -/
def sortedBF : List (Bytes × Val) → Bool
  | [] => true
  | (_, x) :: kvs => sortedB x && sortedBF kvs
end

mutual
/-- `sortedB` decides `Sorted` -/
theorem sortedB_iff : (v : Val) → (sortedB v = true ↔ Sorted v)
  | .null => by simp [sortedB]
  | .bool _ => by simp [sortedB]
  | .str _ => by simp [sortedB]
  | .num _ => by simp [sortedB]
  | .foreign _ => by simp [sortedB]
  | .arr _ xs => by simp only [sortedB, Sorted]; exact sortedBL_iff xs
  | .obj kvs => by
    simp only [sortedB, Sorted, Bool.and_eq_true]
    rw [keySortedB_iff, sortedBF_iff kvs]
/-- `sortedBL` decides `SortedL` -/
theorem sortedBL_iff : (xs : List Val) → (sortedBL xs = true ↔ SortedL xs)
  | [] => by simp [sortedBL, SortedL]
  | x :: xs => by
    simp only [sortedBL, SortedL, Bool.and_eq_true]
    rw [sortedB_iff x, sortedBL_iff xs]
/-- `sortedBF` decides `SortedF` -/
theorem sortedBF_iff : (kvs : List (Bytes × Val)) → (sortedBF kvs = true ↔ SortedF kvs)
  | [] => by simp [sortedBF, SortedF]
  | (_, x) :: kvs => by
    simp only [sortedBF, SortedF, Bool.and_eq_true]
    rw [sortedB_iff x, sortedBF_iff kvs]
end

example : sortedB (.arr .plain [.obj [([0x61], .null), ([0x62], .null)]]) = true := by decide
example : sortedB (.obj [([0x62], .null), ([0x61], .null)]) = false := by decide
example : Sorted (.arr .plain [.obj [([0x61], .null), ([0x62], .null)]]) := (sortedB_iff _).mp (by decide)

/-- the literal between backticks satisfies `sortedB` -/
theorem parseJSONLiteral_sortedB {s : Bytes} {v : Val} (h : parseJSONLiteral s = some v) : sortedB v = true :=
  (sortedB_iff v).mpr (parseJSONLiteral_sorted h)

example : ∀ v, parseJSONLiteral [0x7B, 0x7D] = some v → sortedB v = true := fun _ h => parseJSONLiteral_sortedB h

/-- a raw string literal satisfies `sortedB` -/
theorem sortedB_str (s : Bytes) : sortedB (.str s) = true := rfl

example : sortedB (.str [0x61]) = true := sortedB_str _

/-! ### the parser builds literal nodes from `sortedB` values only -/

section ParserInduction
open Parser ParserLits

abbrev NL (n : INode) : Prop := n.all (INode.litOk sortedB) = true
abbrev NLL (ns : List INode) : Prop := INode.allL (INode.litOk sortedB) ns = true
abbrev NLF (fs : List (Bytes × INode)) : Prop := INode.allF (INode.litOk sortedB) fs = true
abbrev NLO (o : Option INode) : Prop := ∀ n, o = some n → NL n

/-- `indexP` returns a node whose literals are `sortedB` if those of the given child are -/
theorem nindexP_ok (child : Option INode) (h : NLO child) : Post (fun p => NL p.1) (indexP child) := by
  cases child with
  | none =>
    simp only [indexP]
    repeat (first
      | exact Post.fail
      | exact Post.fail_bind
      | (refine Post.bind (Post.any _) fun _ _ => ?_)
      | (refine Post.ite (fun _ => ?_) (fun _ => ?_))
      | exact Post.pure rfl)
  | some c =>
    have hc : NL c := h c rfl
    simp only [indexP]
    repeat (first
      | exact Post.fail
      | exact Post.fail_bind
      | (refine Post.bind (Post.any _) fun _ _ => ?_)
      | (refine Post.ite (fun _ => ?_) (fun _ => ?_))
      | (refine Post.pure ?_; show INode.all _ _ = true; simp only [INode.all, Bool.and_eq_true]; exact ⟨rfl, hc⟩))

example : Post (fun p => NL p.1) (indexP none) := nindexP_ok none (fun _ h => by cases h)

/-- appending a good node to a good list -/
theorem NLL_snoc {acc : List INode} {a : INode} (h : NLL acc) (ha : NL a) : NLL (acc ++ [a]) := by
  induction acc with
  | nil => simp only [NLL, List.nil_append, INode.allL, Bool.and_eq_true]; exact ⟨ha, trivial⟩
  | cons x xs ih =>
    simp only [NLL, INode.allL, Bool.and_eq_true, List.cons_append] at h ⊢
    exact ⟨h.1, ih h.2⟩

example : NLL ([.current] ++ [.lit .null]) := NLL_snoc (by decide) (by decide)

/-- inserting a good node into a good association list -/
theorem NLF_assocInsert {k : Bytes} {v : INode} (hv : NL v) : ∀ {fs : List (Bytes × INode)}, NLF fs →
    NLF (assocInsert k v fs)
  | [], _ => by simp only [NLF, assocInsert, INode.allF, Bool.and_eq_true]; exact ⟨hv, trivial⟩
  | (k', v') :: rest, h => by
    simp only [NLF, INode.allF, Bool.and_eq_true] at h
    simp only [assocInsert]
    split
    · simp only [NLF, INode.allF, Bool.and_eq_true]; exact ⟨hv, h.2⟩
    · split
      · simp only [NLF, INode.allF, Bool.and_eq_true]; exact ⟨hv, h.1, h.2⟩
      · simp only [NLF, INode.allF, Bool.and_eq_true]; exact ⟨h.1, NLF_assocInsert hv h.2⟩

example : NLF (assocInsert [0x61] (.lit .null) []) := NLF_assocInsert (by decide) (by decide)

/-- the node constructor of a built-in function preserves "all literals `sortedB`" -/
def NSpecOK : ArgSpec → Prop
  | .fixed _ _ mk => ∀ args, NLL args → NL (mk args)
  | .varArg mk => ∀ args, NLL args → NL (mk args)
  | .expArg mk => ∀ a b, NL a → NL b → NL (mk a b)
  | .mapArg mk => ∀ a b, NL a → NL b → NL (mk a b)

theorem NL_call (f : Fn) {args : List INode} (h : NLL args) : NL (.call f args) := by
  simp only [NL, INode.all, Bool.and_eq_true]; exact ⟨rfl, h⟩

example : NL (.call .abs [.lit (.num (.jnum [0x31]))]) := NL_call _ (by decide)

theorem nbuiltin_ok : ∀ e ∈ builtinTable, NSpecOK e.2 := by
  simp only [builtinTable, List.forall_mem_cons]
  repeat' apply And.intro
  all_goals first
    | (intro args h; exact NL_call _ h)
    | (intro args h; show NL (if _ then _ else _); split <;> exact NL_call _ h)
    | (intro args h; show NL (match _ with | 2 => _ | 3 => _ | _ => _); split <;> exact NL_call _ h)
    | (intro args h; simp only [NL, INode.all, Bool.and_eq_true]; exact ⟨rfl, h⟩)
    | (intro a b ha hb; simp only [NL, INode.all, Bool.and_eq_true]; exact ⟨⟨rfl, ha⟩, hb⟩)
    | (intro a b ha hb; simp only [NL, INode.all, Bool.and_eq_true]; exact ⟨⟨rfl, hb⟩, ha⟩)
    | (intro x hx; cases hx)

theorem nlookupBuiltin_ok {name : Bytes} {spec : ArgSpec} (h : lookupBuiltin name = some spec) : NSpecOK spec := by
  simp only [lookupBuiltin, Option.map_eq_some_iff] at h
  obtain ⟨e, he, rfl⟩ := h
  exact nbuiltin_ok e (List.mem_of_find?_eq_some he)

/-- the thirteen statements proved simultaneously by induction on the fuel -/
structure NIH (fuel : Nat) : Prop where
  expression : ∀ prec, Post NL (expression fuel prec)
  exprLoop : ∀ node prec, NL node → Post NL (exprLoop fuel node prec)
  filterP : Post NL (filterP fuel)
  fnArgs : ∀ mn mx acc, NLL acc → Post NLL (fnArgs fuel mn mx acc)
  fnVarArgs : ∀ acc, NLL acc → Post NLL (fnVarArgs fuel acc)
  function : Post NL (function fuel)
  letP : ∀ vars, NLF vars → Post NL (letP fuel vars)
  primaryExpression : Post NL (primaryExpression fuel)
  projection : ∀ prec, Post NLO (projection fuel prec)
  selectArray : ∀ child, NLO child → Post NL (selectArray fuel child)
  selectArrayLoop : ∀ child fields, NLO child → NLL fields → Post NL (selectArrayLoop fuel child fields)
  selectObject : ∀ child, NLO child → Post NL (selectObject fuel child)
  selectObjectLoop : ∀ child fields, NLO child → NLF fields → Post NL (selectObjectLoop fuel child fields)

theorem NLO_none : NLO none := fun _ h => by cases h
theorem NLO_some {n : INode} (h : NL n) : NLO (some n) := fun _ e => by cases e; exact h

example : NLO (some (.lit .null)) := NLO_some (by decide)

theorem nall_getD {o : Option INode} (h : ∀ n, o = some n → INode.all (INode.litOk sortedB) n = true) :
    INode.all (INode.litOk sortedB) (o.getD .current) = true := by
  cases o with
  | none => rfl
  | some n => exact h n rfl

theorem nallF_assocInsert {k : Bytes} {v : INode} {fs : List (Bytes × INode)}
    (hv : v.all (INode.litOk sortedB) = true) (h : INode.allF (INode.litOk sortedB) fs = true) :
    INode.allF (INode.litOk sortedB) (assocInsert k v fs) = true :=
  NLF_assocInsert hv h

/-- a literal node with a `sortedB` value is good -/
theorem NL_lit {v : Val} (h : sortedB v = true) : NL (.lit v) := by
  simp only [NL, INode.all, INode.litOk]; exact h

example : NL (.lit (.num (.jnum [0x31]))) := NL_lit (by decide)

/-- a raw string literal is good -/
theorem NL_str (s : Bytes) : NL (.lit (.str s)) := NL_lit rfl

example : NL (.lit (.str [0x61])) := NL_str _


/-- close a `NL`/`NLL`/`NLF`/`NLO` goal from the hypotheses in scope -/
macro "fl_close" : tactic => `(tactic| first
  | assumption
  | exact NLO_none
  | exact NLO_some (by assumption)
  | exact NL_str _
  | rfl
  | (simp_all [NL, NLL, NLF, NLO, INode.all, INode.allL, INode.allF, INode.litOk, nall_getD, allL_snoc, nallF_assocInsert, sortedB_str]; done)
  | (split <;> simp_all [NL, NLL, NLF, NLO, INode.all, INode.allL, INode.allF, INode.litOk, nall_getD, allL_snoc, nallF_assocInsert, sortedB_str]; done))

theorem nfixed_ok {name : Bytes} {mn mx : Nat} {mk : List INode → INode}
    (h : lookupBuiltin name = some (.fixed mn mx mk)) {args : List INode} (ha : NLL args) : NL (mk args) :=
  nlookupBuiltin_ok h args ha
theorem nvarArg_ok {name : Bytes} {mk : List INode → INode}
    (h : lookupBuiltin name = some (.varArg mk)) {args : List INode} (ha : NLL args) : NL (mk args) :=
  nlookupBuiltin_ok h args ha
theorem nexpArg_ok {name : Bytes} {mk : INode → INode → INode}
    (h : lookupBuiltin name = some (.expArg mk)) {a b : INode} (ha : NL a) (hb : NL b) : NL (mk a b) :=
  nlookupBuiltin_ok h a b ha hb
theorem nmapArg_ok {name : Bytes} {mk : INode → INode → INode}
    (h : lookupBuiltin name = some (.mapArg mk)) {a b : INode} (ha : NL a) (hb : NL b) : NL (mk a b) :=
  nlookupBuiltin_ok h a b ha hb

macro "fl_auto" ih:ident : tactic => `(tactic| repeat' (first
  | exact Post.fail
  | exact Post.fail_bind
  | (refine Post.bind (NIH.expression $ih _) fun _ _ => ?_)
  | (refine Post.bind (NIH.projection $ih _) fun _ _ => ?_)
  | (refine Post.bind (NIH.filterP $ih) fun _ _ => ?_)
  | (refine Post.bind (NIH.primaryExpression $ih) fun _ _ => ?_)
  | (refine Post.bind (NIH.exprLoop $ih _ _ (by fl_close)) fun _ _ => ?_)
  | (refine Post.bind (NIH.selectObject $ih _ (by fl_close)) fun _ _ => ?_)
  | (refine Post.bind (NIH.selectArray $ih _ (by fl_close)) fun _ _ => ?_)
  | (refine Post.bind (NIH.fnArgs $ih _ _ _ rfl) fun _ _ => ?_)
  | (refine Post.bind (NIH.fnVarArgs $ih _ rfl) fun _ _ => ?_)
  | (refine Post.bind (nindexP_ok _ (by fl_close)) fun _ _ => ?_)
  | exact NIH.expression $ih _
  | exact NIH.function $ih
  | exact NIH.exprLoop $ih _ _ (by fl_close)
  | exact NIH.selectObject $ih _ (by fl_close)
  | exact NIH.selectArray $ih _ (by fl_close)
  | exact NIH.letP $ih _ (by fl_close)
  | exact NIH.letP $ih _ (NLF_assocInsert (by assumption) (by assumption))
  | exact NIH.fnArgs $ih _ _ _ (NLL_snoc (by assumption) (by assumption))
  | exact NIH.fnVarArgs $ih _ (NLL_snoc (by assumption) (by assumption))
  | exact NIH.selectArrayLoop $ih _ _ (by assumption) (by fl_close)
  | exact NIH.selectArrayLoop $ih _ _ (by assumption) (NLL_snoc (by assumption) (by assumption))
  | exact NIH.selectObjectLoop $ih _ _ (by assumption) (by fl_close)
  | exact NIH.selectObjectLoop $ih _ _ (by assumption) (NLF_assocInsert (by assumption) (by assumption))
  | exact Post.pure (NLL_snoc (by assumption) (by assumption))
  | exact Post.pure (NL_lit (parseJSONLiteral_sortedB (by assumption)))
  | exact Post.pure (NL_str _)
  | exact Post.pure (nfixed_ok (by assumption) (by assumption))
  | exact Post.pure (nvarArg_ok (by assumption) (by assumption))
  | exact Post.pure (nexpArg_ok (by assumption) (by assumption) (by assumption))
  | exact Post.pure (nmapArg_ok (by assumption) (by assumption) (by assumption))
  | (refine Post.bind (Post.any _) fun _ _ => ?_)
  | (refine Post.ite (fun _ => ?_) (fun _ => ?_))
  | split
  | (refine Post.pure ?_; fl_close)))

theorem step_expression {fuel : Nat} (ih : NIH fuel) (prec : Nat) : Post NL (expression (fuel+1) prec) := by
  simp only [expression]
  fl_auto ih

theorem step_exprLoop {fuel : Nat} (ih : NIH fuel) (node : INode) (prec : Nat) (hn : NL node) : Post NL (exprLoop (fuel+1) node prec) := by
  simp only [exprLoop]
  fl_auto ih

theorem step_filterP {fuel : Nat} (ih : NIH fuel)  : Post NL (filterP (fuel+1)) := by
  simp only [filterP]
  fl_auto ih

theorem step_fnArgs {fuel : Nat} (ih : NIH fuel) (mn mx : Nat) (acc : List INode) (ha : NLL acc) : Post NLL (fnArgs (fuel+1) mn mx acc) := by
  simp only [fnArgs]
  fl_auto ih

theorem step_fnVarArgs {fuel : Nat} (ih : NIH fuel) (acc : List INode) (ha : NLL acc) : Post NLL (fnVarArgs (fuel+1) acc) := by
  simp only [fnVarArgs]
  fl_auto ih

theorem step_function {fuel : Nat} (ih : NIH fuel)  : Post NL (function (fuel+1)) := by
  simp only [function]
  fl_auto ih

theorem step_letP {fuel : Nat} (ih : NIH fuel) (vars : List (Bytes × INode)) (hv : NLF vars) : Post NL (letP (fuel+1) vars) := by
  simp only [letP]
  fl_auto ih

theorem step_primaryExpression {fuel : Nat} (ih : NIH fuel)  : Post NL (primaryExpression (fuel+1)) := by
  simp only [primaryExpression]
  refine Post.bind (Post.any _) fun _ _ => ?_
  split <;> fl_auto ih

theorem step_projection {fuel : Nat} (ih : NIH fuel) (prec : Nat) : Post NLO (projection (fuel+1) prec) := by
  simp only [projection]
  fl_auto ih

theorem step_selectArray {fuel : Nat} (ih : NIH fuel) (child : Option INode) (hc : NLO child) : Post NL (selectArray (fuel+1) child) := by
  simp only [selectArray]
  fl_auto ih

theorem step_selectArrayLoop {fuel : Nat} (ih : NIH fuel) (child : Option INode) (fields : List INode) (hc : NLO child) (hf : NLL fields) : Post NL (selectArrayLoop (fuel+1) child fields) := by
  simp only [selectArrayLoop]
  fl_auto ih

theorem step_selectObject {fuel : Nat} (ih : NIH fuel) (child : Option INode) (hc : NLO child) : Post NL (selectObject (fuel+1) child) := by
  simp only [selectObject]
  fl_auto ih

theorem step_selectObjectLoop {fuel : Nat} (ih : NIH fuel) (child : Option INode) (fields : List (Bytes × INode)) (hc : NLO child) (hf : NLF fields) : Post NL (selectObjectLoop (fuel+1) child fields) := by
  simp only [selectObjectLoop]
  fl_auto ih

/-- all thirteen parser functions, at every fuel, return nodes whose literals are `sortedB` -/
theorem nih : ∀ fuel, NIH fuel
  | 0 => by
    constructor <;> intros <;>
      simp only [expression, exprLoop, filterP, fnArgs, fnVarArgs, function, letP, primaryExpression, projection,
        selectArray, selectArrayLoop, selectObject, selectObjectLoop] <;> exact Post.fail
  | fuel + 1 =>
    have ih := nih fuel
    ⟨step_expression ih, step_exprLoop ih, step_filterP ih, step_fnArgs ih, step_fnVarArgs ih, step_function ih,
      step_letP ih, step_primaryExpression ih, step_projection ih, step_selectArray ih, step_selectArrayLoop ih,
      step_selectObject ih, step_selectObjectLoop ih⟩

example : Post NL (expression 5 1) := (nih 5).expression 1

/-- every literal node of a successfully parsed expression carries a value on which `sortedB` is true -/
theorem parse_sortedBLits {expr : Bytes} {n : INode} (h : Parser.parse expr = .ok n) :
    n.all (INode.litOk sortedB) = true := by
  unfold Parser.parse at h
  simp only [] at h
  split at h
  · cases h
  · next st _ =>
    split at h
    · next n' s' hr =>
      cases h
      have hp : Post NL (do
          let node ← expression (fuelFor (lexAll expr).1.length) 1
          if (← currType) != .end then Parser.fail .unexpectedToken
          return node : PM INode) := by
        refine Post.bind ((nih _).expression _) fun node hn => ?_
        refine Post.bind (Post.any _) fun _ _ => ?_
        refine Post.ite (fun _ => ?_) (fun _ => ?_)
        · exact Post.fail_bind
        · exact Post.pure hn
      exact hp st n s' hr
    · cases h

end ParserInduction

/-! ### from the Bool predicate to `ILits` -/

mutual
/-- if `sortedB` holds of every literal of the node (Bool traversal `INode.all`), the node satisfies the Prop `ILits` -/
theorem all_litOk_ilits : (n : INode) → n.all (INode.litOk sortedB) = true → ILits n
  | .lit v, h => by
    simp only [INode.all, INode.litOk] at h
    simp only [ILits]
    exact (sortedB_iff v).mp h
  | .current, _ | .root, _ | .field _, _ | .variable _, _ | .flattenCurrent, _ | .indexCurrent _, _
  | .smallIndexCurrent _, _ | .objectValuesCurrent, _ | .pruneArrayCurrent, _ | .sliceCurrent _ _, _
  | .sliceStepCurrent _ _ _, _ => by simp only [ILits]
  | .binop _ l r, h | .and l r, h | .or l r, h | .filter l r, h | .filterAndProjectCurrent l r, h
  | .flattenAndProject l r, h | .pipe l r, h | .projectArray l r, h | .projectObject l r, h
  | .selectArraySingle l r, h | .selectObjectSingle l _ r, h
  | .groupBy l r, h | .map l r, h | .maxBy l r, h | .minBy l r, h | .sortBy l r, h => by
    simp only [INode.all, ILits, Bool.and_eq_true] at h ⊢
    exact ⟨all_litOk_ilits l h.1.2, all_litOk_ilits r h.2⟩
  | .not c, h | .negate c, h | .assertNumber c, h | .filterCurrent c, h | .flatten c, h
  | .flattenAndProjectCurrent c, h | .index c _, h | .objectValues c, h | .projectArrayCurrent c, h
  | .projectObjectCurrent c, h | .pruneArray c, h | .selectArraySingleCurrent c, h
  | .selectObjectSingleCurrent _ c, h | .slice c _ _, h | .sliceStep c _ _ _, h => by
    simp only [INode.all, ILits, Bool.and_eq_true] at h ⊢
    exact all_litOk_ilits c h.2
  | .filterAndProject l f r, h => by
    simp only [INode.all, ILits, Bool.and_eq_true] at h ⊢
    exact ⟨all_litOk_ilits l h.1.1.2, all_litOk_ilits f h.1.2, all_litOk_ilits r h.2⟩
  | .call _ args, h | .selectArrayCurrent args, h | .merge args, h | .notNull args, h | .zip args, h => by
    simp only [INode.all, ILits, Bool.and_eq_true] at h ⊢
    exact allL_litOk_ilitsL args h.2
  | .selectArray c fs, h => by
    simp only [INode.all, ILits, Bool.and_eq_true] at h ⊢
    exact ⟨all_litOk_ilits c h.1.2, allL_litOk_ilitsL fs h.2⟩
  | .selectObject c fs, h => by
    simp only [INode.all, ILits, Bool.and_eq_true] at h ⊢
    exact ⟨all_litOk_ilits c h.1.2, allF_litOk_ilitsF fs h.2⟩
  | .selectObjectCurrent fs, h => by
    simp only [INode.all, ILits, Bool.and_eq_true] at h ⊢
    exact allF_litOk_ilitsF fs h.2
  | .defineVariables vars child, h => by
    simp only [INode.all, ILits, Bool.and_eq_true] at h ⊢
    exact ⟨allF_litOk_ilitsF vars h.1.2, all_litOk_ilits child h.2⟩
/-- the same for a list of nodes -/
theorem allL_litOk_ilitsL : (ns : List INode) → INode.allL (INode.litOk sortedB) ns = true → ILitsL ns
  | [], _ => by simp only [ILitsL]
  | n :: ns, h => by
    simp only [INode.allL, ILitsL, Bool.and_eq_true] at h ⊢
    exact ⟨all_litOk_ilits n h.1, allL_litOk_ilitsL ns h.2⟩
/-- the same for a list of named nodes -/
theorem allF_litOk_ilitsF : (fs : List (Bytes × INode)) → INode.allF (INode.litOk sortedB) fs = true → ILitsF fs
  | [], _ => by simp only [ILitsF]
  | (_, n) :: rest, h => by
    simp only [INode.allF, ILitsF, Bool.and_eq_true] at h ⊢
    exact ⟨all_litOk_ilits n h.1, allF_litOk_ilitsF rest h.2⟩
end

example : ILits (.binop .eq (.field [0x61]) (.lit (.obj [([0x61], .null), ([0x62], .null)]))) :=
  all_litOk_ilits _ (by decide)
example : ILitsL [.lit .null, .current] := allL_litOk_ilitsL _ (by decide)
example : ILitsF [([0x61], .lit .null)] := allF_litOk_ilitsF _ (by decide)
/-- the hypothesis is not vacuous: it is false for a node containing a literal object with decreasing keys -/
example : INode.all (INode.litOk sortedB) (.not (.lit (.obj [([0x62], .null), ([0x61], .null)]))) = false := by decide

/-! ### the conclusions -/

/-- **every literal of a successfully parsed expression is `Sorted`**: the parser builds literal nodes only from JSON
    text between backticks (decoded by `encoding/json`, which stores object members with `objInsert`) and from raw
    strings -/
theorem parse_ilits {expr : Bytes} {n : INode} (h : Parser.parse expr = .ok n) : ILits n :=
  all_litOk_ilits n (parse_sortedBLits h)

/-- the expression `` a==`[1]` `` -/
example : ∀ n, Parser.parse [0x61, 0x3D, 0x3D, 0x60, 0x5B, 0x31, 0x5D, 0x60] = .ok n → ILits n :=
  fun _ h => parse_ilits h

/-- the same for `Compile` -/
theorem compile_ilits {e : Bytes} {n : INode} (h : compile e = .ok n) : ILits n :=
  parse_ilits (expr := e) h

example : ∀ n, compile [0x61, 0x3D, 0x3D, 0x60, 0x5B, 0x31, 0x5D, 0x60] = .ok n → ILits n :=
  fun _ h => compile_ilits h

end Jmes.C18CS
