/-
  Helper for property C14, fourth round: `DyF ⟨h, s⟩` characterised on the model's normal form `F64.fin n m e` — it is a
  condition on the VALUE of the float (a multiple of `2^-s` of magnitude at most `2^h`), not on a way of writing it —
  and a Bool check for whole documents.
-/
import Jmes.Proofs.C14EFloat
namespace Jmes
namespace C14E
open C14 C14B C14C

/-- **a normalised finite float `±m·2^e` (`m` odd, or `m = 0 ∧ e = 0`: every value of the model) is of grade `⟨h, s⟩`
    iff `e ≥ -s` and `m·2^(e+s) ≤ 2^(h+s)`** — i.e. iff its value is a multiple of `2^-s` of magnitude `≤ 2^h` -/
theorem dyF_fin_iff (g : Gr) (n : Bool) (m : Nat) (e : Int) (hodd : m % 2 = 1 ∨ (m = 0 ∧ e = 0)) :
    DyF g (.fin n m e) ↔ 0 ≤ e + g.s ∧ m * 2 ^ (e + g.s).toNat ≤ 2 ^ (g.h + g.s) := by
  constructor
  · rintro ⟨n', v, hv, hf⟩
    obtain ⟨m', e', h1, h2, h3, h4⟩ := mk_rep n' v g.s
    rw [h1] at hf
    cases hf
    exact ⟨h2, by rw [h3]; exact hv⟩
  · rintro ⟨he, hb⟩
    refine ⟨n, m * 2 ^ (e + g.s).toNat, hb, ?_⟩
    have hs : F64.mk n (m * 2 ^ (e + g.s).toNat) (e - ((e + g.s).toNat : Nat)) = F64.mk n m e :=
      F64.mk_shift n m (e + g.s).toNat e
    have ee : e - (((e + (g.s : Int)).toNat : Nat) : Int) = -(g.s : Int) := by omega
    rw [ee] at hs
    rw [hs]
    rcases hodd with ho | ⟨rfl, rfl⟩
    · have := F64.mk_of n m m 0 e ho (by simp)
      simpa using this.symm
    · simp [F64.mk]

/-- the check on one float -/
def dyFB (g : Gr) : F64 → Bool
  | .fin _ m e => decide (0 ≤ e + g.s) && decide (m * 2 ^ (e + g.s).toNat ≤ 2 ^ (g.h + g.s)) &&
      (decide (m % 2 = 1) || (decide (m = 0) && decide (e = 0)))
  | _ => false

theorem dyF_of_dyFB {g : Gr} {f : F64} (h : dyFB g f = true) : DyF g f := by
  cases f with
  | fin n m e =>
    simp only [dyFB, Bool.and_eq_true, Bool.or_eq_true, decide_eq_true_eq] at h
    exact (dyF_fin_iff g n m e h.2).mpr ⟨h.1.1, h.1.2⟩
  | _ => simp [dyFB] at h

mutual
/-- every float of the document passes `dyFB g` -/
def dyB (g : Gr) : Val → Bool
  | .num (.f64 f) => dyFB g f
  | .num (.f32 f) => dyFB g f
  | .arr _ xs => dyBL g xs
  | .obj kvs => dyBF g kvs
  | _ => true
def dyBL (g : Gr) : List Val → Bool
  | [] => true
  | x :: xs => dyB g x && dyBL g xs
def dyBF (g : Gr) : List (Bytes × Val) → Bool
  | [] => true
  | (_, x) :: kvs => dyB g x && dyBF g kvs
end

mutual
/-- **soundness of the document check** -/
theorem allF_of_dyB (g : Gr) : ∀ v : Val, dyB g v = true → AllF (DyF g) v
  | .null, _ | .bool _, _ | .str _, _ | .foreign _, _ => by simp
  | .num a, h => by
    cases a <;> simp only [dyB] at h <;> simp only [AllF, NumF] <;> first | exact dyF_of_dyFB h | trivial
  | .arr _ xs, h => by
    simp only [dyB] at h
    simp only [AllF]; exact allFL_of_dyB g xs h
  | .obj kvs, h => by
    simp only [dyB] at h
    simp only [AllF]; exact allFF_of_dyB g kvs h
theorem allFL_of_dyB (g : Gr) : ∀ xs : List Val, dyBL g xs = true → AllFL (DyF g) xs
  | [], _ => by simp [AllFL]
  | x :: xs, h => by
    simp only [dyBL, Bool.and_eq_true] at h
    exact ⟨allF_of_dyB g x h.1, allFL_of_dyB g xs h.2⟩
theorem allFF_of_dyB (g : Gr) : ∀ kvs : List (Bytes × Val), dyBF g kvs = true → AllFF (DyF g) kvs
  | [], _ => by simp [AllFF]
  | (_, x) :: kvs, h => by
    simp only [dyBF, Bool.and_eq_true] at h
    exact ⟨allF_of_dyB g x h.1, allFF_of_dyB g kvs h.2⟩
end

-- 0.375 = 3·2^-3 is of grade ⟨0, 3⟩ (and of every larger grade), not of grade ⟨0, 2⟩ (not a multiple of 1/4) and, as
-- 6·2^-4, not normalised
example : DyF ⟨0, 3⟩ (.fin false 3 (-3)) ∧ DyF ⟨5, 7⟩ (.fin false 3 (-3)) ∧ ¬ DyF ⟨0, 2⟩ (.fin false 3 (-3)) :=
  ⟨dyF_of_dyFB (by decide), dyF_of_dyFB (by decide),
   fun h => by have := (dyF_fin_iff ⟨0, 2⟩ false 3 (-3) (.inl (by decide))).mp h; revert this; decide⟩

example : AllF (DyF ⟨2, 3⟩) (.obj [([0x61], .num (.f64 (.fin false 3 (-3)))), ([0x62], .arr .plain [.num (.f32 (.fin true 9 (-2))),
    .num (.jnum [0x31, 0x2E, 0x31])])]) := allF_of_dyB _ _ (by decide)

end C14E
end Jmes
