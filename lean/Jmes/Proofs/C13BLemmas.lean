/-
  Helper lemmas for Jmes/Properties/C13B.lean:
  * `Val.same` is structural equality;
  * two sorted permutations of one list (total preorder) agree position by position up to the preorder's
    equivalence (`sorted_perm_pointwise`);
  * swapping two adjacent equivalent elements of a sorted list keeps it sorted.
-/
import Jmes.Proofs.Order
namespace Jmes

/-! ### `Val.same` is equality -/

mutual
theorem Val.eq_of_same : ∀ (a b : Val), Val.same a b = true → a = b
  | .null, .null, _ => rfl
  | .bool a, .bool b, h => by simp only [Val.same, beq_iff_eq] at h; rw [h]
  | .str a, .str b, h => by simp only [Val.same, beq_iff_eq] at h; rw [h]
  | .num a, .num b, h => by simp only [Val.same, decide_eq_true_eq] at h; rw [h]
  | .arr t xs, .arr u ys, h => by
    simp only [Val.same, Bool.and_eq_true, beq_iff_eq] at h
    rw [h.1, Val.eq_of_sameL xs ys h.2]
  | .obj xs, .obj ys, h => by
    simp only [Val.same] at h
    rw [Val.eq_of_sameF xs ys h]
  | .foreign a, .foreign b, h => by simp only [Val.same, beq_iff_eq] at h; rw [h]
  | .null, .bool _, h | .null, .str _, h | .null, .num _, h | .null, .arr _ _, h | .null, .obj _, h
  | .null, .foreign _, h => by simp [Val.same] at h
  | .bool _, .null, h | .bool _, .str _, h | .bool _, .num _, h | .bool _, .arr _ _, h | .bool _, .obj _, h
  | .bool _, .foreign _, h => by simp [Val.same] at h
  | .str _, .null, h | .str _, .bool _, h | .str _, .num _, h | .str _, .arr _ _, h | .str _, .obj _, h
  | .str _, .foreign _, h => by simp [Val.same] at h
  | .num _, .null, h | .num _, .bool _, h | .num _, .str _, h | .num _, .arr _ _, h | .num _, .obj _, h
  | .num _, .foreign _, h => by simp [Val.same] at h
  | .arr _ _, .null, h | .arr _ _, .bool _, h | .arr _ _, .str _, h | .arr _ _, .num _, h | .arr _ _, .obj _, h
  | .arr _ _, .foreign _, h => by simp [Val.same] at h
  | .obj _, .null, h | .obj _, .bool _, h | .obj _, .str _, h | .obj _, .num _, h | .obj _, .arr _ _, h
  | .obj _, .foreign _, h => by simp [Val.same] at h
  | .foreign _, .null, h | .foreign _, .bool _, h | .foreign _, .str _, h | .foreign _, .num _, h
  | .foreign _, .arr _ _, h | .foreign _, .obj _, h => by simp [Val.same] at h
theorem Val.eq_of_sameL : ∀ (xs ys : List Val), Val.sameL xs ys = true → xs = ys
  | [], [], _ => rfl
  | x :: xs, y :: ys, h => by
    simp only [Val.sameL, Bool.and_eq_true] at h
    rw [Val.eq_of_same x y h.1, Val.eq_of_sameL xs ys h.2]
  | [], _ :: _, h | _ :: _, [], h => by simp [Val.sameL] at h
theorem Val.eq_of_sameF : ∀ (xs ys : List (Bytes × Val)), Val.sameF xs ys = true → xs = ys
  | [], [], _ => rfl
  | (k, x) :: xs, (l, y) :: ys, h => by
    simp only [Val.sameF, Bool.and_eq_true, beq_iff_eq] at h
    rw [h.1.1, Val.eq_of_same x y h.1.2, Val.eq_of_sameF xs ys h.2]
  | [], _ :: _, h | _ :: _, [], h => by simp [Val.sameF] at h
end

mutual
theorem Val.same_refl : ∀ (a : Val), Val.same a a = true
  | .null => rfl
  | .bool _ | .str _ | .num _ | .foreign _ => by simp [Val.same]
  | .arr t xs => by simp [Val.same, Val.sameL_refl xs]
  | .obj kvs => by simp [Val.same, Val.sameF_refl kvs]
theorem Val.sameL_refl : ∀ (xs : List Val), Val.sameL xs xs = true
  | [] => rfl
  | x :: xs => by simp [Val.sameL, Val.same_refl x, Val.sameL_refl xs]
theorem Val.sameF_refl : ∀ (xs : List (Bytes × Val)), Val.sameF xs xs = true
  | [] => rfl
  | (k, x) :: xs => by simp [Val.sameF, Val.same_refl x, Val.sameF_refl xs]
end

/-- `Val.same` decides equality of values -/
theorem Val.same_iff (a b : Val) : Val.same a b = true ↔ a = b :=
  ⟨Val.eq_of_same a b, fun h => h ▸ Val.same_refl a⟩

theorem Val.same_eq_false_iff (a b : Val) : Val.same a b = false ↔ a ≠ b := by
  have := Val.same_iff a b
  cases h : Val.same a b <;> simp [h] at this ⊢ <;> exact this

/-! ### sorted permutations of one list -/
section Lists
variable {α : Type _}

/-- Core of the counting argument: in two sorted arrangements of the same multiset, the elements found at the
    same position are in order — hence (by symmetry) equivalent. -/
theorem sorted_perm_le_of_decomp {le : α → α → Bool}
    (trans : ∀ a b c, le a b = true → le b c = true → le a c = true)
    (total : ∀ a b, (le a b || le b a) = true)
    {a1 b1 a2 b2 : List α} {v w : α} (p : (a1 ++ v :: b1).Perm (a2 ++ w :: b2))
    (s1 : (a1 ++ v :: b1).Pairwise (fun a b => le a b = true))
    (s2 : (a2 ++ w :: b2).Pairwise (fun a b => le a b = true))
    (hlen : a1.length = a2.length) : le v w = true := by
  cases hvw : le v w with
  | true => rfl
  | false =>
    exfalso
    have hwv : le w v = true := by have := total v w; simpa [hvw] using this
    have refl : ∀ a, le a a = true := fun a => by have := total a a; simpa using this
    -- count the elements strictly below `v`
    let P : α → Bool := fun x => !le v x
    have c1 : List.countP P (a1 ++ v :: b1) ≤ a1.length := by
      rw [List.countP_append]
      have hz : List.countP P (v :: b1) = 0 := by
        rw [List.countP_eq_zero]
        intro x hx
        have hs := (List.pairwise_append.mp s1).2.1
        rcases List.mem_cons.mp hx with rfl | hx
        · simp [P, refl]
        · simp [P, (List.pairwise_cons.mp hs).1 x hx]
      have := List.countP_le_length (p := P) (l := a1)
      omega
    have c2 : a2.length + 1 ≤ List.countP P (a2 ++ w :: b2) := by
      rw [List.countP_append, List.countP_cons]
      have hPw : P w = true := by simp [P, hvw]
      have hall : List.countP P a2 = a2.length := by
        rw [List.countP_eq_length]
        intro x hx
        have hxw : le x w = true := (List.pairwise_append.mp s2).2.2 x hx w (by simp)
        cases hvx : le v x with
        | false => simp [P, hvx]
        | true => rw [trans v x w hvx hxw] at hvw; cases hvw
      rw [hall, hPw]
      simp
    have := p.countP_eq P
    omega

/-- Two sorted permutations of one list agree position by position up to the equivalence of the preorder. -/
theorem sorted_perm_pointwise {le : α → α → Bool}
    (trans : ∀ a b c, le a b = true → le b c = true → le a c = true)
    (total : ∀ a b, (le a b || le b a) = true)
    {l1 l2 : List α} (p : l1.Perm l2)
    (s1 : l1.Pairwise (fun a b => le a b = true)) (s2 : l2.Pairwise (fun a b => le a b = true))
    (i : Nat) (h1 : i < l1.length) (h2 : i < l2.length) :
    le l1[i] l2[i] = true ∧ le l2[i] l1[i] = true := by
  have e1 : l1 = l1.take i ++ l1[i] :: l1.drop (i + 1) := by
    rw [List.getElem_cons_drop, List.take_append_drop]
  have e2 : l2 = l2.take i ++ l2[i] :: l2.drop (i + 1) := by
    rw [List.getElem_cons_drop, List.take_append_drop]
  have hl : (l1.take i).length = (l2.take i).length := by
    rw [List.length_take, List.length_take]; omega
  constructor
  · refine sorted_perm_le_of_decomp trans total (a1 := l1.take i) (b1 := l1.drop (i + 1))
      (a2 := l2.take i) (b2 := l2.drop (i + 1)) ?_ ?_ ?_ hl
    · rw [← e1, ← e2]; exact p
    · rw [← e1]; exact s1
    · rw [← e2]; exact s2
  · refine sorted_perm_le_of_decomp trans total (a1 := l2.take i) (b1 := l2.drop (i + 1))
      (a2 := l1.take i) (b2 := l1.drop (i + 1)) ?_ ?_ ?_ hl.symm
    · rw [← e1, ← e2]; exact p.symm
    · rw [← e2]; exact s2
    · rw [← e1]; exact s1

/-- swapping two adjacent equivalent elements keeps a list sorted -/
theorem pairwise_swap_adjacent {le : α → α → Bool}
    {pre post : List α} {a b : α} (hba : le b a = true)
    (s : (pre ++ a :: b :: post).Pairwise (fun x y => le x y = true)) :
    (pre ++ b :: a :: post).Pairwise (fun x y => le x y = true) := by
  rw [List.pairwise_append] at s ⊢
  obtain ⟨sp, sab, hx⟩ := s
  rw [List.pairwise_cons] at sab
  obtain ⟨ha, sb⟩ := sab
  rw [List.pairwise_cons] at sb
  obtain ⟨hb, spost⟩ := sb
  refine ⟨sp, ?_, ?_⟩
  · rw [List.pairwise_cons]
    refine ⟨?_, ?_⟩
    · intro y hy
      rcases List.mem_cons.mp hy with rfl | hy
      · exact hba
      · exact hb y hy
    · rw [List.pairwise_cons]
      exact ⟨fun y hy => ha y (List.mem_cons_of_mem _ hy), spost⟩
  · intro x hx' y hy
    apply hx x hx' y
    simp only [List.mem_cons] at hy ⊢
    rcases hy with h | h | h
    · exact .inr (.inl h)
    · exact .inl h
    · exact .inr (.inr h)

end Lists
end Jmes
