/-
  Helpers for C08B / C02B: which error categories each value-level function and the evaluator can report.

  `Sat pe r` (from `Proofs/NoPanic.lean`) says: `r` is not a panic, and if `r = .err cs` then `pe cs`.  `NoPanic.lean`
  asks of `pe` that it hold of *every* singleton; here the requirement is split by category, so that a lemma states
  exactly which categories its function can produce:

      HasT pe : pe [invalidType]        HasV pe : pe [invalidValue]      HasN pe : pe [notANumber]
      HasU pe : pe [undefinedVariable]  HasF pe : pe [evaluationFailed]
      PeMore pe : `pe` is stable under the widening of an error set by members that satisfy `pe`

  `length_rt [HasT pe] : Sat pe (length v)` reads "`length` fails with invalid-type only", and so on.  The evaluator
  (`ieval_rt`) needs all six.
-/
import Jmes.Proofs.NoPanic
namespace Jmes.RtErr
open Jmes

class HasT (pe : List Cat → Prop) : Prop where
  type : pe [Cat.invalidType]
class HasV (pe : List Cat → Prop) : Prop where
  value : pe [Cat.invalidValue]
class HasN (pe : List Cat → Prop) : Prop where
  nan : pe [Cat.notANumber]
class HasU (pe : List Cat → Prop) : Prop where
  undef : pe [Cat.undefinedVariable]
class HasF (pe : List Cat → Prop) : Prop where
  failed : pe [Cat.evaluationFailed]
/-- the members of a good list are good singletons, and a good list stays good when good members are added -/
class PeMore (pe : List Cat → Prop) : Prop where
  mem : ∀ cs, pe cs → ∀ c ∈ cs, pe [c]
  more : ∀ cs ex, pe cs → (∀ c ∈ ex, pe [c]) → pe (Cat.dedup (cs ++ ex))

theorem Cat.mem_dedup : ∀ {l : List Cat} {c : Cat}, c ∈ Cat.dedup l ↔ c ∈ l
  | [], c => by simp [Cat.dedup]
  | a :: l, c => by
    simp only [Cat.dedup]
    split
    · rename_i h
      rw [Cat.mem_dedup, List.mem_cons]
      constructor
      · exact Or.inr
      · rintro (rfl | h')
        · simpa using h
        · exact h'
    · rw [List.mem_cons, List.mem_cons, Cat.mem_dedup]

section basic
variable {pe : List Cat → Prop} {α : Type}
theorem Sat.errType [HasT pe] : Sat pe (errType : Res α) := HasT.type
theorem Sat.errValue [HasV pe] : Sat pe (errValue : Res α) := HasV.value
theorem Sat.errNaN [HasN pe] : Sat pe (errNaN : Res α) := HasN.nan
theorem Sat.undef [HasU pe] : Sat pe (Res.err [Cat.undefinedVariable] : Res α) := HasU.undef
theorem Sat.failed [HasF pe] : Sat pe (Res.err [Cat.evaluationFailed] : Res α) := HasF.failed
end basic

/-- one step of the walk through a `do`-block -/
macro "rt_step" : tactic => `(tactic| first
  | assumption
  | exact Sat.ok _
  | exact Sat.pure _
  | exact Sat.nondet
  | exact Sat.unmodelled _
  | exact Sat.errType
  | exact Sat.errValue
  | exact Sat.errNaN
  | exact Sat.undef
  | exact Sat.failed
  | (exfalso; exact toInt_no_panic _ ‹_›)
  | (apply Sat.bind)
  | (apply Sat.bind')
  | (intro _)
  | (apply_assumption; done)
  | split
  | (dsimp only))

syntax "rt_auto" (" [" term,* "]")? : tactic
macro_rules
  | `(tactic| rt_auto) => `(tactic| repeat' rt_step)
  | `(tactic| rt_auto [$ts,*]) => `(tactic| repeat' (first $[| apply $ts]* | rt_step))

section fns
set_option linter.unusedSectionVars false
variable {pe : List Cat → Prop}

theorem strArg_rt [HasT pe] (v : Val) : Sat pe (strArg v) := by unfold strArg; rt_auto
theorem intArg_rt [HasT pe] [HasV pe] (v : Val) : Sat pe (intArg v) := by unfold intArg; rt_auto
theorem checkF_rt [HasN pe] (r : F64) : Sat pe (checkF r) := by unfold checkF; rt_auto
theorem checkD_rt [HasN pe] (r : Dec) : Sat pe (checkD r) := by unfold checkD; rt_auto

/-! ### number.go -/
theorem arith_rt [HasT pe] [HasN pe] (fop : F64 → F64 → F64) (dop : Dec → Dec → Dec) (x y : Val) :
    Sat pe (arith fop dop x y) := by
  unfold arith; rt_auto [checkF_rt, checkD_rt]
theorem numAbs_rt [HasT pe] (v : Val) : Sat pe (numAbs v) := by unfold numAbs; rt_auto
theorem numCeil_rt [HasT pe] (v : Val) : Sat pe (numCeil v) := by unfold numCeil; rt_auto
theorem numFloor_rt [HasT pe] (v : Val) : Sat pe (numFloor v) := by unfold numFloor; rt_auto
theorem numSum_rt [HasT pe] [HasN pe] (v : Val) : Sat pe (numSum v) := by unfold numSum; rt_auto [checkD_rt]
theorem numAvg_rt [HasT pe] [HasN pe] (v : Val) : Sat pe (numAvg v) := by unfold numAvg; rt_auto [checkD_rt]

/-! ### compare.go -/
/-- `==` never fails -/
theorem equalR_rt (x y : Val) : Sat pe (equalR x y) := by unfold equalR; rt_auto
theorem contains_rt [HasT pe] (x y : Val) : Sat pe (contains x y) := by unfold contains; rt_auto

theorem applyBinOp_rt [HasT pe] [HasN pe] (op : BinOp) (l r : Val) : Sat pe (applyBinOp op l r) := by
  cases op <;> simp only [applyBinOp, add, subtract, multiply, divide, integerDivide, modulo]
  all_goals rt_auto [arith_rt, equalR_rt]

/-! ### array.go -/

theorem ex_nil : ∀ c ∈ ([] : List Cat), pe [c] := fun _ h => by cases h
theorem ex_type [HasT pe] : ∀ c ∈ [Cat.invalidType], pe [c] := fun c h => by
  rw [List.mem_singleton] at h; subst h; exact HasT.type
theorem fs_one {f : Val → Res Val} (hf : ∀ x, Sat pe (f x)) : ∀ g ∈ [f], ∀ x, Sat pe (g x) := fun g h => by
  rw [List.mem_singleton] at h; subst h; exact hf
theorem fs_two {c f : Val → Res Val} (hc : ∀ x, Sat pe (c x)) (hf : ∀ x, Sat pe (f x)) :
    ∀ g ∈ [c, f], ∀ x, Sat pe (g x) := fun g h => by
  simp only [List.mem_cons, List.not_mem_nil, or_false] at h
  rcases h with rfl | rfl
  · exact hc
  · exact hf

/-- a widened error set is good when the sequential outcome, the extra categories and every member's failure are -/
theorem widen_rt [PeMore pe] {α} (t : ATag) (xs : List Val) (fs : List (Val → Res Val)) (extra : List Cat) {r : Res α}
    (hex : ∀ c ∈ extra, pe [c]) (hfs : ∀ f ∈ fs, ∀ x, Sat pe (f x)) (h : Sat pe r) :
    Sat pe (widen t xs fs extra r) := by
  cases r with
  | err cs =>
    simp only [widen]
    split
    · split
      · trivial
      · rw [List.append_assoc]
        refine PeMore.more _ _ h ?_
        intro c hc
        rw [List.mem_append] at hc
        rcases hc with hc | hc
        · exact hex c hc
        · simp only [List.mem_flatMap] at hc
          obtain ⟨x, _, f, hf, hc⟩ := hc
          have := hfs f hf x
          cases hfx : f x with
          | err c' => rw [hfx] at this hc; exact PeMore.mem _ this c hc
          | ok a => rw [hfx] at hc; cases hc
          | panic w => rw [hfx] at hc; cases hc
          | nondet => rw [hfx] at hc; cases hc
          | unmodelled w => rw [hfx] at hc; cases hc
    · exact h
  | ok a => exact h
  | panic w => exact h
  | nondet => exact h
  | unmodelled w => exact h

/-- indexing never fails -/
theorem index_rt (v : Val) (i : Int) : Sat pe (index v i) := by unfold index; rt_auto

section hof
variable {f c : Val → Res Val} (hf : ∀ x, Sat pe (f x)) (hc : ∀ x, Sat pe (c x))
include hf

theorem mapPrune_rt : ∀ xs, Sat pe (mapPrune f xs)
  | [] => Sat.ok _
  | x :: xs => by
    have ih := mapPrune_rt xs
    simp only [mapPrune]; rt_auto [hf]

theorem mapAll_rt : ∀ xs, Sat pe (mapAll f xs)
  | [] => Sat.ok _
  | x :: xs => by
    have ih := mapAll_rt xs
    simp only [mapAll]; rt_auto [hf]

theorem filterLoop_rt : ∀ xs, Sat pe (filterLoop f xs)
  | [] => Sat.ok _
  | x :: xs => by
    have ih := filterLoop_rt xs
    simp only [filterLoop]; rt_auto [hf]

/-- a projection fails only with what its right-hand side fails with (no error of its own) -/
theorem projectArray_rt [PeMore pe] (v : Val) : Sat pe (projectArray f v) := by
  unfold projectArray
  split
  · exact widen_rt _ _ _ _ ex_nil (fs_one hf) (by rt_auto [mapPrune_rt hf])
  · exact Sat.ok _

theorem filterArray_rt [PeMore pe] (v : Val) : Sat pe (filterArray f v) := by
  unfold filterArray
  split
  · exact widen_rt _ _ _ _ ex_nil (fs_one hf) (by rt_auto [filterLoop_rt hf])
  · exact Sat.ok _

theorem flattenAndProjectArray_rt [PeMore pe] (v : Val) : Sat pe (flattenAndProjectArray f v) := by
  unfold flattenAndProjectArray
  split
  · exact widen_rt _ _ _ _ ex_nil (fs_one hf) (by rt_auto [mapPrune_rt hf])
  · exact Sat.ok _

theorem mapArray_rt [PeMore pe] [HasT pe] (v : Val) : Sat pe (mapArray f v) := by
  unfold mapArray
  split
  · exact widen_rt _ _ _ _ ex_nil (fs_one hf) (by rt_auto [mapAll_rt hf])
  · exact Sat.errType

theorem projectObject_rt [PeMore pe] (v : Val) : Sat pe (projectObject f v) := by
  unfold projectObject
  split
  · exact widen_rt _ _ _ _ ex_nil (fs_one hf) (by rt_auto [mapPrune_rt hf])
  · exact Sat.ok _

theorem keysFrom_rt [HasT pe] (isStr : Bool) : ∀ xs, Sat pe (keysFrom f isStr xs)
  | [] => Sat.ok _
  | x :: xs => by
    have ih := keysFrom_rt isStr xs
    simp only [keysFrom]; rt_auto [hf]

theorem keysOf_rt [HasT pe] : ∀ xs, Sat pe (keysOf f xs)
  | [] => Sat.ok _
  | x :: xs => by
    simp only [keysOf]; rt_auto [hf, keysFrom_rt hf]

theorem arrayPickBy_rt [PeMore pe] [HasT pe] (better : Key → Key → Bool) (v : Val) :
    Sat pe (arrayPickBy better f v) := by
  unfold arrayPickBy
  split
  · split
    · exact Sat.ok _
    · exact widen_rt _ _ _ _ ex_type (fs_one hf) (by rt_auto [keysOf_rt hf])
  · exact Sat.errType

theorem arrayMaxBy_rt [PeMore pe] [HasT pe] (v : Val) : Sat pe (arrayMaxBy f v) := arrayPickBy_rt hf _ v
theorem arrayMinBy_rt [PeMore pe] [HasT pe] (v : Val) : Sat pe (arrayMinBy f v) := arrayPickBy_rt hf _ v

theorem sortArrayBy_rt [PeMore pe] [HasT pe] (v : Val) : Sat pe (sortArrayBy f v) := by
  unfold sortArrayBy
  split
  · split
    · exact Sat.ok _
    · exact widen_rt _ _ _ _ ex_type (fs_one hf) (by rt_auto [keysOf_rt hf])
  · exact Sat.errType

theorem groupLoop_rt [HasT pe] : ∀ xs acc, Sat pe (groupLoop f xs acc)
  | [], acc => Sat.ok _
  | x :: xs, acc => by
    have ih := groupLoop_rt xs
    simp only [groupLoop]; rt_auto [hf, ih]

theorem groupBy_rt [PeMore pe] [HasT pe] (v : Val) : Sat pe (groupBy f v) := by
  unfold groupBy
  split
  · split
    · exact Sat.ok _
    · exact widen_rt _ _ _ _ ex_type (fs_one hf) (by rt_auto [groupLoop_rt hf])
  · exact Sat.errType

include hc
theorem filterMapPrune_rt : ∀ xs, Sat pe (filterMapPrune c f xs)
  | [] => Sat.ok _
  | x :: xs => by
    have ih := filterMapPrune_rt xs
    simp only [filterMapPrune]; rt_auto [hf, hc]

theorem filterAndProjectArray_rt [PeMore pe] (v : Val) : Sat pe (filterAndProjectArray c f v) := by
  unfold filterAndProjectArray
  split
  · exact widen_rt _ _ _ _ ex_nil (fs_two hc hf) (by rt_auto [filterMapPrune_rt hf hc])
  · exact Sat.ok _

end hof

theorem arrayMax_rt [HasT pe] (v : Val) : Sat pe (arrayMax v) := by unfold arrayMax; rt_auto
theorem arrayMin_rt [HasT pe] (v : Val) : Sat pe (arrayMin v) := by unfold arrayMin; rt_auto
theorem sortArray_rt [HasT pe] (v : Val) : Sat pe (sortArray v) := by unfold sortArray; rt_auto

/-! ### object.go -/
theorem values_rt [HasT pe] (v : Val) : Sat pe (values v) := by unfold values; rt_auto
theorem keys_rt [HasT pe] (v : Val) : Sat pe (keys v) := by unfold keys; rt_auto
theorem items_rt [HasT pe] (v : Val) : Sat pe (items v) := by unfold items; rt_auto

theorem fromItemsLoop_rt [HasT pe] [HasV pe] : ∀ xs acc, Sat pe (fromItemsLoop xs acc)
  | [], acc => Sat.ok _
  | x :: rest, acc => by
    have ih := fromItemsLoop_rt rest
    cases x <;> simp only [fromItemsLoop] <;> rt_auto [ih]

theorem fromItems_rt [HasT pe] [HasV pe] [PeMore pe] (v : Val) : Sat pe (fromItems v) := by
  unfold fromItems
  split
  · rename_i t xs
    have h := fromItemsLoop_rt (pe := pe) xs []
    generalize fromItemsLoop xs [] = r at h
    cases r with
    | ok kvs => simp only []; rt_auto
    | err cs =>
      simp only []
      split
      · refine PeMore.more _ _ h ?_
        intro c hc
        simp only [List.mem_cons, List.not_mem_nil, or_false] at hc
        rcases hc with rfl | rfl
        · exact HasT.type
        · exact HasV.value
      · exact h
    | panic w => exact h.elim
    | nondet => exact Sat.nondet
    | unmodelled w => exact Sat.unmodelled _
  · exact Sat.errType

/-- `from_items` on an array whose element order is determined: invalid-type or invalid-value, one of them -/
theorem fromItems_plain_rt [HasT pe] [HasV pe] {t : ATag} {xs : List Val} (h : enum2 t xs = false) :
    Sat pe (fromItems (.arr t xs)) := by
  simp only [fromItems, h, Bool.false_and, Bool.false_eq_true, if_false]
  have h' := fromItemsLoop_rt (pe := pe) xs []
  generalize fromItemsLoop xs [] = r at h'
  cases r with
  | ok kvs => exact Sat.ok _
  | err cs => exact h'
  | panic w => exact h'.elim
  | nondet => exact Sat.nondet
  | unmodelled w => exact Sat.unmodelled _

/-! ### slice.go: slices never fail -/
theorem slice_rt (v : Val) (a b : Int) : Sat pe (slice v a b) := by unfold slice; rt_auto
theorem sliceStep_rt (v : Val) (a b s : Int) : Sat pe (sliceStep v a b s) := by unfold sliceStep; rt_auto

/-! ### string.go -/
theorem caseMap_rt (f : Nat → Option Nat) (s : Bytes) : Sat pe (caseMap f s) := by unfold caseMap; rt_auto
theorem startsWith_rt [HasT pe] (a b : Val) : Sat pe (startsWith a b) := by unfold startsWith; rt_auto [strArg_rt]
theorem endsWith_rt [HasT pe] (a b : Val) : Sat pe (endsWith a b) := by unfold endsWith; rt_auto [strArg_rt]
theorem findFirst_rt [HasT pe] (a b : Val) : Sat pe (findFirst a b) := by unfold findFirst; rt_auto [strArg_rt]
theorem findLast_rt [HasT pe] (a b : Val) : Sat pe (findLast a b) := by unfold findLast; rt_auto [strArg_rt]
theorem findFrom_rt [HasT pe] [HasV pe] (l : Bool) (a b c : Val) : Sat pe (findFrom l a b c) := by
  unfold findFrom; rt_auto [strArg_rt, intArg_rt]
theorem findBetween_rt [HasT pe] [HasV pe] (l : Bool) (a b c d : Val) : Sat pe (findBetween l a b c d) := by
  unfold findBetween; rt_auto [strArg_rt, intArg_rt]
theorem join_rt [HasT pe] (a b : Val) : Sat pe (join a b) := by unfold join; rt_auto
theorem padWith_rt [HasV pe] (l : Bool) (s : Bytes) (w : Int) (p : Bytes) (o : Val) : Sat pe (padWith l s w p o) := by
  unfold padWith; rt_auto
theorem padLeft_rt [HasT pe] [HasV pe] (a b c : Val) : Sat pe (padLeft a b c) := by
  unfold padLeft; rt_auto [strArg_rt, intArg_rt, padWith_rt]
theorem padRight_rt [HasT pe] [HasV pe] (a b c : Val) : Sat pe (padRight a b c) := by
  unfold padRight; rt_auto [strArg_rt, intArg_rt, padWith_rt]
theorem padSpaceLeft_rt [HasT pe] [HasV pe] (a b : Val) : Sat pe (padSpaceLeft a b) := by
  unfold padSpaceLeft; rt_auto [strArg_rt, intArg_rt, padWith_rt]
theorem padSpaceRight_rt [HasT pe] [HasV pe] (a b : Val) : Sat pe (padSpaceRight a b) := by
  unfold padSpaceRight; rt_auto [strArg_rt, intArg_rt, padWith_rt]
theorem replace_rt [HasT pe] (a b c : Val) : Sat pe (replace a b c) := by unfold replace; rt_auto [strArg_rt]
theorem replaceCount_rt [HasT pe] [HasV pe] (a b c d : Val) : Sat pe (replaceCount a b c d) := by
  unfold replaceCount; rt_auto [strArg_rt, intArg_rt]
theorem split_rt [HasT pe] (a b : Val) : Sat pe (split a b) := by unfold split; rt_auto [strArg_rt]
theorem splitCount_rt [HasT pe] [HasV pe] (a b c : Val) : Sat pe (splitCount a b c) := by
  unfold splitCount; rt_auto [strArg_rt, intArg_rt]
theorem trim_rt [HasT pe] (a b : Val) : Sat pe (trim a b) := by unfold trim; rt_auto [strArg_rt]
theorem trimLeft_rt [HasT pe] (a b : Val) : Sat pe (trimLeft a b) := by unfold trimLeft; rt_auto [strArg_rt]
theorem trimRight_rt [HasT pe] (a b : Val) : Sat pe (trimRight a b) := by unfold trimRight; rt_auto [strArg_rt]
theorem trimSpace_rt [HasT pe] (a : Val) : Sat pe (trimSpace a) := by unfold trimSpace; rt_auto [strArg_rt]
theorem trimSpaceLeft_rt [HasT pe] (a : Val) : Sat pe (trimSpaceLeft a) := by unfold trimSpaceLeft; rt_auto [strArg_rt]
theorem trimSpaceRight_rt [HasT pe] (a : Val) : Sat pe (trimSpaceRight a) := by unfold trimSpaceRight; rt_auto [strArg_rt]

/-! ### functions.go -/
theorem length_rt [HasT pe] (v : Val) : Sat pe (length v) := by unfold length; rt_auto
theorem lower_rt [HasT pe] (v : Val) : Sat pe (lower v) := by unfold lower; rt_auto [caseMap_rt]
theorem upper_rt [HasT pe] (v : Val) : Sat pe (upper v) := by unfold upper; rt_auto [caseMap_rt]
theorem reverse_rt [HasT pe] (v : Val) : Sat pe (reverse v) := by unfold reverse; rt_auto
/-- `to_string` never reports a type error: its only failure is a value that cannot be encoded -/
theorem toStringV_rt [HasF pe] (v : Val) : Sat pe (toStringV v) := by unfold toStringV; rt_auto
theorem typeName_rt [HasT pe] (v : Val) : Sat pe (typeName v) := by unfold typeName; rt_auto

/-! ### evaluator.go -/

theorem applyFn_rt [HasT pe] [HasV pe] [HasN pe] [HasF pe] [PeMore pe] (f : Fn) (args : List Val) :
    Sat pe (applyFn f args) := by
  unfold applyFn
  split
  all_goals first
    | exact Sat.ok _ | exact Sat.failed
    | apply numAbs_rt | apply numAvg_rt | apply numCeil_rt | apply contains_rt | apply endsWith_rt
    | apply findFirst_rt | apply findBetween_rt | apply findFrom_rt | apply findLast_rt
    | apply numFloor_rt | apply fromItems_rt | apply items_rt | apply join_rt | apply keys_rt
    | apply length_rt | apply lower_rt | apply arrayMax_rt | apply arrayMin_rt
    | apply padLeft_rt | apply padRight_rt | apply padSpaceLeft_rt | apply padSpaceRight_rt
    | apply replace_rt | apply replaceCount_rt | apply reverse_rt | apply sortArray_rt
    | apply split_rt | apply splitCount_rt | apply startsWith_rt | apply numSum_rt
    | apply toStringV_rt | apply trim_rt | apply trimLeft_rt | apply trimRight_rt
    | apply trimSpace_rt | apply trimSpaceLeft_rt | apply trimSpaceRight_rt
    | apply typeName_rt | apply upper_rt | apply values_rt

theorem combineUnordered_rt [PeMore pe] {acc : Res (List (Bytes × Val))} {r : Res Val} (k : Bytes)
    (ha : Sat pe acc) (hr : Sat pe r) : Sat pe (combineUnordered acc k r) := by
  cases acc <;> cases r <;> simp only [combineUnordered] <;>
    first | exact ha.elim | exact hr.elim | exact PeMore.more _ _ ha (PeMore.mem _ hr) | exact ha | exact hr | trivial

theorem zipArgs_rt [HasT pe] : ∀ vs, Sat pe (zipArgs vs)
  | [] => Sat.ok _
  | v :: rest => by
    have ih := zipArgs_rt rest
    cases v <;> simp only [zipArgs] <;> rt_auto

end fns

/-! ## the evaluator -/

section eval
set_option linter.unusedSectionVars false
set_option linter.unusedVariables false
variable {pe : List Cat → Prop} [HasT pe] [HasV pe] [HasN pe] [HasU pe] [HasF pe] [PeMore pe]

local macro "ev_case" : tactic => `(tactic| (
  simp only [ieval]
  rt_auto [applyBinOp_rt, applyFn_rt, index_rt, slice_rt, sliceStep_rt, zipArgs_rt,
    filterArray_rt, filterAndProjectArray_rt, flattenAndProjectArray_rt, projectArray_rt, projectObject_rt,
    groupBy_rt, mapArray_rt, arrayMaxBy_rt, arrayMinBy_rt, sortArrayBy_rt]))

mutual
theorem ieval_rt (root : Val) : (n : INode) → (cur : Val) → (env : Env) → Sat pe (ieval root n cur env)
  | .lit v, cur, env => by ev_case
  | .current, cur, env => by ev_case
  | .root, cur, env => by ev_case
  | .field k, cur, env => by ev_case
  | .variable name, cur, env => by ev_case
  | .binop op l r, cur, env => by have hl := ieval_rt root l; have hr := ieval_rt root r; ev_case
  | .and l r, cur, env => by have hl := ieval_rt root l; have hr := ieval_rt root r; ev_case
  | .or l r, cur, env => by have hl := ieval_rt root l; have hr := ieval_rt root r; ev_case
  | .not c, cur, env => by have hc := ieval_rt root c; ev_case
  | .negate c, cur, env => by have hc := ieval_rt root c; ev_case
  | .assertNumber c, cur, env => by have hc := ieval_rt root c; ev_case
  | .call f args, cur, env => by have hargs := ievalList_rt root args; ev_case
  | .defineVariables vars child, cur, env => by have hvars := ievalFields_rt root vars; have hchild := ieval_rt root child; ev_case
  | .filter c f, cur, env => by have hc := ieval_rt root c; have hf := ieval_rt root f; ev_case
  | .filterCurrent f, cur, env => by have hf := ieval_rt root f; ev_case
  | .filterAndProject l f r, cur, env => by have hl := ieval_rt root l; have hf := ieval_rt root f; have hr := ieval_rt root r; ev_case
  | .filterAndProjectCurrent f c, cur, env => by have hf := ieval_rt root f; have hc := ieval_rt root c; ev_case
  | .flatten c, cur, env => by have hc := ieval_rt root c; ev_case
  | .flattenCurrent, cur, env => by ev_case
  | .flattenAndProject l r, cur, env => by have hl := ieval_rt root l; have hr := ieval_rt root r; ev_case
  | .flattenAndProjectCurrent c, cur, env => by have hc := ieval_rt root c; ev_case
  | .index c i, cur, env => by have hc := ieval_rt root c; ev_case
  | .indexCurrent i, cur, env => by ev_case
  | .smallIndexCurrent i, cur, env => by ev_case
  | .objectValues c, cur, env => by have hc := ieval_rt root c; ev_case
  | .objectValuesCurrent, cur, env => by ev_case
  | .pipe l r, cur, env => by have hl := ieval_rt root l; have hr := ieval_rt root r; ev_case
  | .projectArray l r, cur, env => by have hl := ieval_rt root l; have hr := ieval_rt root r; ev_case
  | .projectArrayCurrent c, cur, env => by have hc := ieval_rt root c; ev_case
  | .projectObject l r, cur, env => by have hl := ieval_rt root l; have hr := ieval_rt root r; ev_case
  | .projectObjectCurrent c, cur, env => by have hc := ieval_rt root c; ev_case
  | .pruneArray c, cur, env => by have hc := ieval_rt root c; ev_case
  | .pruneArrayCurrent, cur, env => by ev_case
  | .selectArray c fs, cur, env => by have hc := ieval_rt root c; have hfs := ievalList_rt root fs; ev_case
  | .selectArrayCurrent fs, cur, env => by have hfs := ievalList_rt root fs; ev_case
  | .selectArraySingle c f, cur, env => by have hc := ieval_rt root c; have hf := ieval_rt root f; ev_case
  | .selectArraySingleCurrent f, cur, env => by have hf := ieval_rt root f; ev_case
  | .selectObject c fs, cur, env => by have hc := ieval_rt root c; have hfs := ievalFields_rt root fs; ev_case
  | .selectObjectCurrent fs, cur, env => by have hfs := ievalFields_rt root fs; ev_case
  | .selectObjectSingle c k f, cur, env => by have hc := ieval_rt root c; have hf := ieval_rt root f; ev_case
  | .selectObjectSingleCurrent k f, cur, env => by have hf := ieval_rt root f; ev_case
  | .slice c a b, cur, env => by have hc := ieval_rt root c; ev_case
  | .sliceCurrent a b, cur, env => by ev_case
  | .sliceStep c a b s, cur, env => by have hc := ieval_rt root c; ev_case
  | .sliceStepCurrent a b s, cur, env => by ev_case
  | .groupBy a e, cur, env => by have ha := ieval_rt root a; have he := ieval_rt root e; ev_case
  | .map e a, cur, env => by have he := ieval_rt root e; have ha := ieval_rt root a; ev_case
  | .maxBy a e, cur, env => by have ha := ieval_rt root a; have he := ieval_rt root e; ev_case
  | .minBy a e, cur, env => by have ha := ieval_rt root a; have he := ieval_rt root e; ev_case
  | .sortBy a e, cur, env => by have ha := ieval_rt root a; have he := ieval_rt root e; ev_case
  | .merge args, cur, env => by have hargs := ievalMerge_rt root args; ev_case
  | .notNull args, cur, env => by have hargs := ievalNotNull_rt root args; ev_case
  | .zip args, cur, env => by have hargs := ievalZip_rt root args; ev_case
theorem ievalList_rt (root : Val) : (ns : List INode) → (cur : Val) → (env : Env) →
    Sat pe (ievalList root ns cur env)
  | [], cur, env => Sat.ok _
  | n :: ns, cur, env => by
    have h1 := ieval_rt root n; have h2 := ievalList_rt root ns
    simp only [ievalList]; rt_auto
theorem ievalFields_rt (root : Val) : (fs : List (Bytes × INode)) → (cur : Val) → (env : Env) →
    Sat pe (ievalFields root fs cur env)
  | [], cur, env => Sat.ok _
  | (k, n) :: rest, cur, env => by
    simp only [ievalFields]
    exact combineUnordered_rt k (ievalFields_rt root rest cur env) (ieval_rt root n cur env)
theorem ievalMerge_rt (root : Val) : (ns : List INode) → (cur : Val) → (env : Env) → (acc : List (Bytes × Val)) →
    Sat pe (ievalMerge root ns cur env acc)
  | [], cur, env, acc => Sat.ok _
  | n :: ns, cur, env, acc => by
    have h1 := ieval_rt root n; have h2 := ievalMerge_rt root ns
    simp only [ievalMerge]; rt_auto [h2]
theorem ievalNotNull_rt (root : Val) : (ns : List INode) → (cur : Val) → (env : Env) →
    Sat pe (ievalNotNull root ns cur env)
  | [], cur, env => Sat.ok _
  | n :: ns, cur, env => by
    have h1 := ieval_rt root n; have h2 := ievalNotNull_rt root ns
    simp only [ievalNotNull]; rt_auto
theorem ievalZip_rt (root : Val) : (ns : List INode) → (cur : Val) → (env : Env) →
    Sat pe (ievalZip root ns cur env)
  | [], cur, env => Sat.ok _
  | n :: ns, cur, env => by
    have h1 := ieval_rt root n; have h2 := ievalZip_rt root ns
    simp only [ievalZip]; rt_auto
end

theorem evaluate_rt (n : INode) (d : Val) : Sat pe (evaluate n d) := ieval_rt d n d []

end eval

end Jmes.RtErr
