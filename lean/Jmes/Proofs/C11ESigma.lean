/-
  C11 (fourth wave), part 2e: a concrete token substitution `sigmaOf g`.

    * an unquoted identifier `name`       ↦ the quoted identifier `"g(name)"`,
    * a quoted identifier `"body"`         ↦ `"g(body)"`        (body without backslash),
    * a raw string literal `'body'`        ↦ `'g(body)'`        (body without backslash),
    * a JSON literal                       ↦ itself             (its strings must be fixed by `g`),
    * every other token                    ↦ itself,

  applied only where the result is well formed (`tokClean g tok`: the renamed body contains no backslash, no closing
  quote and — in an identifier — no control character: THE CONDITION ON THE RENAMING is that it maps no character of a
  name or string to the quote, the backslash or a control character).  `sigmaOf g` satisfies the three hypotheses of the
  text-level theorem unconditionally (`sigmaOf_sigWP`, `sigmaOf_rep`) and `TokAll` on the trees whose atoms and keys are
  clean (`tokAll_sigmaOf`).
-/
import Jmes.Proofs.C11ETokB
import Jmes.Proofs.Literals
set_option linter.unusedSectionVars false
set_option linter.unusedSimpArgs false
namespace Jmes.C11E.Sigma
open Jmes Jmes.Utf8 Jmes.C11 Jmes.C11S Jmes.C11R Jmes.C11V Jmes.Invar Jmes.C11C Jmes.Grammar Jmes.Lexical
  Jmes.C11E.Dom Jmes.C11E.Tree Jmes.C11E.Tok Jmes.Literals

/-! ## bodies -/

/-- `d body d` -/
def wrap (d : Nat) (b : Bytes) : Bytes := [d] ++ b ++ [d]

/-- no backslash -/
def noBs (v : Bytes) : Bool := v.all (· != 0x5C)
/-- no control byte -/
def noCtl (v : Bytes) : Bool := v.all (fun x => decide (0x20 ≤ x))
/-- the delimiter does not occur -/
def noDelim (d : Nat) (v : Bytes) : Bool := v.all (· != d)

theorem split_noBs : ∀ v : Bytes, noBs v = true → splitAtBackslash v [] = none
  | [], _ => rfl
  | b :: w, h => by
    simp only [noBs, List.all_cons, Bool.and_eq_true, bne_iff_ne, ne_eq] at h
    rw [split_plain b h.1 w, split_noBs w (by simpa [noBs] using h.2)]
    rfl

theorem parseQuoted_of_clean {s : Bytes} (h1 : noBs (stripDelims s) = true) (h2 : noCtl (stripDelims s) = true) :
    parseQuotedIdentifier s = some (stripDelims s) := by
  unfold parseQuotedIdentifier
  simp only
  have : (stripDelims s).any (· < 0x20) = false := by
    rw [List.any_eq_false]
    intro x hx
    have := List.all_eq_true.mp h2 x hx
    simp only [decide_eq_true_eq] at this
    simp only [decide_eq_true_eq]; omega
  rw [this, split_noBs _ h1]
  simp

theorem parseString_of_clean {s : Bytes} (h1 : noBs (stripDelims s) = true) :
    parseStringLiteral s = stripDelims s := by
  unfold parseStringLiteral
  simp only
  rw [split_noBs _ h1]

theorem stripDelims_wrapd (d : Nat) (b : Bytes) : stripDelims (wrap d b) = b := stripDelims_wrap d d b

/-- a valid body without delimiter and backslash bytes, closed by the delimiter, is a delimited-token body -/
theorem delimBody_enc (d : Nat) (hd : d < 0x80) : ∀ cs : List Nat, Scalars cs →
    (∀ b ∈ encodeAll cs, b ≠ d ∧ b ≠ 0x5C) → DelimBody d (encodeAll cs ++ [d])
  | [], _, _ => DelimBody.close
  | c :: cs, hs, hb => by
    rw [encodeAll_cons, List.append_assoc]
    have hmem : ∀ x ∈ encodeRune c, x ∈ encodeAll (c :: cs) := by
      intro x hx; rw [encodeAll_cons]; exact List.mem_append_left _ hx
    refine DelimBody.plain c _ hs.head ?_ ?_ (delimBody_enc d hd cs hs.tail ?_)
    · rintro rfl
      have := hb c (hmem c (by rw [encodeRune_ascii c hd]; simp))
      exact this.1 rfl
    · rintro rfl
      have := hb 0x5C (hmem 0x5C (by rw [encodeRune_ascii 0x5C (by decide)]; simp))
      exact this.2 rfl
    · intro x hx
      exact hb x (by rw [encodeAll_cons]; exact List.mem_append_right _ hx)

theorem delimited_wrap (d : Nat) (hd : d < 0x80) {b : Bytes} (hv : validUTF8 b = true) (h1 : noBs b = true)
    (h2 : noDelim d b = true) : Delimited d (wrap d b) := by
  obtain ⟨cs, hs, rfl⟩ := (Utf8.validUTF8_iff b).mp hv
  refine ⟨encodeAll cs ++ [d], by simp [wrap], delimBody_enc d hd cs hs ?_⟩
  intro x hx
  have a1 := List.all_eq_true.mp h1 x hx
  have a2 := List.all_eq_true.mp h2 x hx
  simp only [bne_iff_ne, ne_eq] at a1 a2
  exact ⟨a2, a1⟩

/-! ## the substitution -/

/-- marker for "the code point is fixed by `g`" -/
def fixMark (g : Nat → Nat) (c : Nat) : Nat := if g c = c then 0 else 0x110000

theorem renB_fixMark {g : Nat → Nat} {s : Bytes} (h : rnB (fixMark g) s = true) : renB g s = s := by
  obtain ⟨cs, h1, h2, rfl, _⟩ := rn_cases h
  rw [renB_encodeAll _ cs h1]
  congr 1
  have : ∀ c ∈ cs, g c = c := by
    intro c hc
    have := h2 _ (List.mem_map.2 ⟨c, hc, rfl⟩)
    unfold fixMark at this
    split at this
    · assumption
    · exact absurd this (by decide)
  calc cs.map g = cs.map id := List.map_congr_left this
    _ = cs := List.map_id cs

/-- the renamed body is well formed between the delimiters of the token type -/
def tokClean (g : Nat → Nat) (tok : Token) : Bool :=
  match tok.type with
  | .unquotedIdentifier =>
    let b := renB g tok.value
    noBs b && noCtl b && noDelim 0x22 b
  | .quotedIdentifier =>
    let b0 := stripDelims tok.value
    let b := renB g b0
    noBs b0 && noCtl b0 && noBs b && noCtl b && noDelim 0x22 b
  | .stringLiteral =>
    let b0 := stripDelims tok.value
    let b := renB g b0
    noBs b0 && noBs b && noDelim 0x27 b
  | .jsonLiteral =>
    (match parseJSONLiteral tok.value with
     | some v => RnV (fixMark g) v
     | none => true)
  | _ => true

/-- the re-spelt token -/
def respell (g : Nat → Nat) (tok : Token) : Token :=
  match tok.type with
  | .unquotedIdentifier => ⟨.quotedIdentifier, wrap 0x22 (renB g tok.value)⟩
  | .quotedIdentifier => ⟨.quotedIdentifier, wrap 0x22 (renB g (stripDelims tok.value))⟩
  | .stringLiteral => ⟨.stringLiteral, wrap 0x27 (renB g (stripDelims tok.value))⟩
  | _ => tok

/-- **the token substitution of the renaming `g`** -/
def sigmaOf (g : Nat → Nat) (tok : Token) : Token := if tokClean g tok then respell g tok else tok

/-! ### atoms -/

theorem atomOK_sigmaOf (g : Nat → Nat) (tok : Token) (h : tokClean g tok = true) : AtomOK g (sigmaOf g) tok := by
  unfold AtomOK sigmaOf
  rw [if_pos h]
  unfold tokClean at h
  unfold respell
  obtain ⟨ty, v⟩ := tok
  cases ty <;> simp only [atomNode, Option.map, renN] at h ⊢
  case jsonLiteral =>
    cases hp : parseJSONLiteral v with
    | none => rfl
    | some val =>
      rw [hp] at h
      simp only [renN]
      rw [renV_fix (fun s hs => renB_fixMark hs) val h]
  case quotedIdentifier =>
    simp only [Bool.and_eq_true] at h
    obtain ⟨⟨⟨⟨h1, h2⟩, h3⟩, h4⟩, _⟩ := h
    rw [parseQuoted_of_clean h1 h2,
      parseQuoted_of_clean (by rw [stripDelims_wrapd]; exact h3) (by rw [stripDelims_wrapd]; exact h4), stripDelims_wrapd]
    simp only [renN]
  case unquotedIdentifier =>
    simp only [Bool.and_eq_true] at h
    obtain ⟨⟨h3, h4⟩, _⟩ := h
    rw [parseQuoted_of_clean (by rw [stripDelims_wrapd]; exact h3) (by rw [stripDelims_wrapd]; exact h4), stripDelims_wrapd]
  case stringLiteral =>
    simp only [Bool.and_eq_true] at h
    obtain ⟨⟨h1, h3⟩, _⟩ := h
    rw [parseString_of_clean h1, parseString_of_clean (by rw [stripDelims_wrapd]; exact h3), stripDelims_wrapd]
    simp only [renV]

/-! ### keys -/

theorem keyOK_sigmaOf (g : Nat → Nat) (k : Token) (hi : isIdentTok k = true) (h : tokClean g k = true)
    (hr : rnB g (keyOf k) = true) : KeyOK g (sigmaOf g) k := by
  refine ⟨?_, hr⟩
  unfold sigmaOf
  rw [if_pos h]
  unfold tokClean at h
  unfold respell
  obtain ⟨ty, v⟩ := k
  cases ty <;> simp only [isIdentTok] at hi <;> try (cases hi)
  case quotedIdentifier =>
    simp only [Bool.and_eq_true] at h
    obtain ⟨⟨⟨⟨h1, h2⟩, h3⟩, h4⟩, _⟩ := h
    simp only [keyOf]
    rw [parseQuoted_of_clean h1 h2,
      parseQuoted_of_clean (by rw [stripDelims_wrapd]; exact h3) (by rw [stripDelims_wrapd]; exact h4), stripDelims_wrapd]
    rfl
  case unquotedIdentifier =>
    simp only [Bool.and_eq_true] at h
    obtain ⟨⟨h3, h4⟩, _⟩ := h
    simp only [keyOf]
    rw [parseQuoted_of_clean (by rw [stripDelims_wrapd]; exact h3) (by rw [stripDelims_wrapd]; exact h4), stripDelims_wrapd]
    rfl

/-! ### the hypotheses of the text-level theorem -/

theorem parse_wrap_some {b : Bytes} (h3 : noBs b = true) (h4 : noCtl b = true) :
    parseQuotedIdentifier (wrap 0x22 b) = some b := by
  rw [parseQuoted_of_clean (by rw [stripDelims_wrapd]; exact h3) (by rw [stripDelims_wrapd]; exact h4), stripDelims_wrapd]

/-- `sigmaOf g` keeps atoms atoms, identifiers identifiers and keys keys — for EVERY token -/
theorem sigmaOf_sigWP (g : Nat → Nat) : SigWP (sigmaOf g) where
  atom := by
    intro t h
    by_cases hc : tokClean g t = true
    · have := atomOK_sigmaOf g t hc
      unfold AtomOK at this
      rw [this]
      cases ha : atomNode t with
      | none => rw [ha] at h; cases h
      | some n => rfl
    · unfold sigmaOf; rw [if_neg hc]; exact h
  ident := by
    intro t h
    unfold sigmaOf
    split
    · unfold respell
      obtain ⟨ty, v⟩ := t
      cases ty <;> first | exact h | rfl
    · exact h
  key := by
    intro k h
    unfold sigmaOf
    split
    · rename_i hc
      unfold tokClean at hc
      unfold respell
      obtain ⟨ty, v⟩ := k
      cases ty <;> first | exact h | skip
      · simp only [Bool.and_eq_true] at hc
        obtain ⟨⟨⟨⟨h1, h2⟩, h3⟩, h4⟩, _⟩ := hc
        simp only [keyOK, parse_wrap_some h3 h4]; rfl
      · simp only [Bool.and_eq_true] at hc
        obtain ⟨⟨h3, h4⟩, _⟩ := hc
        simp only [keyOK, parse_wrap_some h3 h4]; rfl
    · exact h

/-- `sigmaOf g` keeps a token or replaces it by a well-shaped delimited token — for EVERY token -/
theorem sigmaOf_rep (g : Nat → Nat) (tok : Token) : Rep tok (sigmaOf g tok) := by
  unfold sigmaOf
  split
  · rename_i hc
    unfold tokClean at hc
    unfold respell
    obtain ⟨ty, v⟩ := tok
    cases ty <;> first | exact Or.inl rfl | skip
    · simp only [Bool.and_eq_true] at hc
      obtain ⟨⟨⟨⟨h1, h2⟩, h3⟩, h4⟩, h5⟩ := hc
      exact Or.inr ⟨rfl, delimited_wrap 0x22 (by decide) (renB_valid g _) h3 h5⟩
    · simp only [Bool.and_eq_true] at hc
      obtain ⟨⟨h3, h4⟩, h5⟩ := hc
      exact Or.inr ⟨rfl, delimited_wrap 0x22 (by decide) (renB_valid g _) h3 h5⟩
    · simp only [Bool.and_eq_true] at hc
      obtain ⟨⟨h1, h3⟩, h5⟩ := hc
      exact Or.inr ⟨rfl, delimited_wrap 0x27 (by decide) (renB_valid g _) h3 h5⟩
  · exact Or.inl rfl

/-! ### `TokAll` from a check on the tokens of the tree -/

section TokAllOf
variable {g : Nat → Nat} {σ : Token → Token} {pa pk : Token → Bool}
  (hA : ∀ tok, pa tok = true → AtomOK g σ tok) (hK : ∀ k, pk k = true → KeyOK g σ k)
include hA hK

mutual
theorem tokAll_of : ∀ t : PTree, treeAll pa pk (fun _ _ => true) (fun _ _ _ => true) t = true → TokAll g σ t
  | .icur, _ => by simp only [TokAll]
  | .atom tok, h => by simp only [treeAll] at h; simp only [TokAll]; exact hA tok h
  | .paren t, h => by simp only [treeAll] at h; simp only [TokAll]; exact tokAll_of t h
  | .not t, h => by simp only [treeAll] at h; simp only [TokAll]; exact tokAll_of t h
  | .neg _ t, h => by simp only [treeAll] at h; simp only [TokAll]; exact tokAll_of t h
  | .pos t, h => by simp only [treeAll] at h; simp only [TokAll]; exact tokAll_of t h
  | .bin _ l r, h => by
    simp only [treeAll, Bool.and_eq_true] at h; simp only [TokAll]; exact ⟨tokAll_of l h.1, tokAll_of r h.2⟩
  | .dotId l r, h => by
    simp only [treeAll, Bool.and_eq_true] at h; simp only [TokAll]; exact ⟨tokAll_of l h.1, tokAll_of r h.2⟩
  | .dotList l es, h => by
    simp only [treeAll, Bool.and_eq_true] at h; simp only [TokAll]; exact ⟨tokAll_of l h.1, tokAllL_of es h.2⟩
  | .dotHash l kvs, h => by
    simp only [treeAll, Bool.and_eq_true] at h; simp only [TokAll]; exact ⟨tokAll_of l h.1, tokAllK_of true kvs h.2⟩
  | .dotStarList l, h => by simp only [treeAll] at h; simp only [TokAll]; exact tokAll_of l h
  | .index l _, h => by simp only [treeAll] at h; simp only [TokAll]; exact tokAll_of l h
  | .call _ args, h => by
    simp only [treeAll, Bool.and_eq_true, Bool.true_and] at h; simp only [TokAll]; exact tokAllL_of args h
  | .ref t, h => by simp only [treeAll] at h; simp only [TokAll]; exact tokAll_of t h
  | .letIn bs body, h => by
    simp only [treeAll, Bool.and_eq_true] at h; simp only [TokAll]
    exact ⟨tokAllK_of false bs h.1, tokAll_of body h.2⟩
  | .multiList es, h => by simp only [treeAll] at h; simp only [TokAll]; exact tokAllL_of es h
  | .multiHash kvs, h => by simp only [treeAll] at h; simp only [TokAll]; exact tokAllK_of true kvs h
  | .star l rhs, h => by
    simp only [treeAll, Bool.and_eq_true] at h; simp only [TokAll]; exact ⟨tokAll_of l h.1, tokAll_of rhs h.2⟩
  | .ostar l rhs, h => by
    simp only [treeAll, Bool.and_eq_true] at h; simp only [TokAll]; exact ⟨tokAll_of l h.1, tokAll_of rhs h.2⟩
  | .flat l rhs, h => by
    simp only [treeAll, Bool.and_eq_true] at h; simp only [TokAll]; exact ⟨tokAll_of l h.1, tokAll_of rhs h.2⟩
  | .filt l c rhs, h => by
    simp only [treeAll, Bool.and_eq_true] at h; simp only [TokAll]
    exact ⟨tokAll_of l h.1.1, tokAll_of c h.1.2, tokAll_of rhs h.2⟩
  | .slice l _ _ _ rhs, h => by
    simp only [treeAll, Bool.and_eq_true, Bool.true_and] at h; simp only [TokAll]
    exact ⟨tokAll_of l h.1, tokAll_of rhs h.2⟩
theorem tokAllL_of : ∀ es : List PTree,
    treeAllL pa pk (fun _ _ => true) (fun _ _ _ => true) es = true → TokAllL g σ es
  | [], _ => by simp only [TokAllL]
  | e :: es, h => by
    simp only [treeAllL, Bool.and_eq_true] at h; simp only [TokAllL]; exact ⟨tokAll_of e h.1, tokAllL_of es h.2⟩
theorem tokAllK_of (keys : Bool) : ∀ kvs : List (Token × PTree),
    treeAllK pa pk (fun _ _ => true) (fun _ _ _ => true) keys kvs = true → TokAllK g σ keys kvs
  | [], _ => by simp only [TokAllK]
  | (k, e) :: rest, h => by
    simp only [treeAllK, Bool.and_eq_true] at h
    simp only [TokAllK]
    refine ⟨fun hk => hK k ?_, tokAll_of e h.1.2, tokAllK_of keys rest h.2⟩
    subst hk
    simpa using h.1.1
end
end TokAllOf

/-- the check for `sigmaOf g`: every atom token is clean; every multi-select key is an identifier token, clean, and its
    name can be renamed by `g` -/
def sigmaOK (g : Nat → Nat) (t : PTree) : Bool :=
  treeAll (tokClean g) (fun k => isIdentTok k && tokClean g k && rnB g (keyOf k)) (fun _ _ => true) (fun _ _ _ => true) t

/-- `sigmaOf g` renames the atoms and keys of a clean tree consistently with `g` -/
theorem tokAll_sigmaOf {g : Nat → Nat} {t : PTree} (h : sigmaOK g t = true) : TokAll g (sigmaOf g) t :=
  tokAll_of (atomOK_sigmaOf g)
    (fun k hk => by
      simp only [Bool.and_eq_true] at hk
      exact keyOK_sigmaOf g k hk.1.1 hk.1.2 hk.2) t h

end Jmes.C11E.Sigma
